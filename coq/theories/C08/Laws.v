(* C08 executable checkers.  They take caches (the model's own, or the ones the
   codec rebuilds from the dumps of the real SchedulerCache) and do not call any
   handler of the model. *)
From stdpp Require Import gmap.
From Coq Require Import ZArith.
From V Require Import Base.Res Sched.LedgerModel Sched.LedgerInv C08.Model.
Open Scope Z_scope.

(* ---------- CacheInv ---------- *)

(* the task is held by the job its Job field names *)
Definition in_job (c : cache) (t : task) : bool :=
  match c_jobs c !! t_job t with
  | Some cj => bool_decide (t_id t ∈ j_tasks (cj_job cj))
  | None => false
  end.

(* job side -> node side: every task of a job that sits on a node (node name
   set, not terminated) has its copy in that node's entry (NodeInfo or placeholder) *)
Definition paired_jn (c : cache) : bool :=
  gmap_allb (fun i t =>
    negb (in_job c t) ||
    match t_node t with
    | None => true
    | Some n =>
      terminated (t_status t) ||
      match c_nodes c !! n with
      | Some ni => match n_tasks ni !! i with
                   | Some cl => bool_decide (t_status cl = t_status t)
                   | None => false end
      | None => false
      end
    end) (c_heap c).

(* node side -> job side: a copy held by node n belongs to a task that names n *)
Definition paired_nj (c : cache) : bool :=
  gmap_allb (fun n ni =>
    gmap_allb (fun i cl =>
      match c_heap c !! i with
      | Some t => bool_decide (t_node t = Some n) && negb (terminated (t_status t))
      | None => false
      end) (n_tasks ni)) (c_nodes c).

(* NodeList = the nodes that have a Node object, once each *)
Definition nodelist_okb (c : cache) : bool :=
  bool_decide (NoDup (c_nodelist c)) &&
  bool_decide (list_to_set (c_nodelist c) =@{gset positive}
               dom (filter (fun kv => n_has_node (snd kv) = true) (c_nodes c))).

Definition cache_invb (c : cache) : bool :=
  ledger_okb (c_heap c) (cj_job <$> c_jobs c) (c_nodes c) &&
  gmap_allb (fun i cj => bool_decide (j_id (cj_job cj) = i)) (c_jobs c) &&
  paired_jn c && paired_nj c && nodelist_okb c.

(* ---------- the view ---------- *)

(* what the scheduler sees of a job: stale entries (no PodGroup, no task) and
   emptied sub-jobs are not part of it *)
Definition job_visible (cj : cjob) : bool := cj_pg cj || negb (bool_decide (j_tasks (cj_job cj) = ∅)).
Definition node_visible (ni : node) : bool := n_has_node ni || negb (bool_decide (n_tasks ni = ∅)).

Definition live_subs (j : job) : gmap positive subjob :=
  filter (fun kv => sj_tasks (snd kv) <> ∅) (j_subs j).

Definition task_view_sameb (a b : task) : bool :=
  bool_decide (t_id a = t_id b) && bool_decide (t_status a = t_status b) &&
  bool_decide (t_node a = t_node b) && bool_decide (t_job a = t_job b) &&
  res_eqvb (t_req a) (t_req b).

Definition cjob_view_sameb (a b : cjob) : bool :=
  let ja := cj_job a in let jb := cj_job b in
  bool_decide (j_tasks ja = j_tasks jb) && bool_decide (j_index ja = j_index jb) &&
  res_eqvb (j_alloc ja) (j_alloc jb) && res_eqvb (j_total ja) (j_total jb) &&
  map_sameb sub_sameb (live_subs ja) (live_subs jb) &&
  bool_decide (cj_pg a = cj_pg b) &&
  (negb (cj_pg a) ||
   bool_decide (cj_queue a = cj_queue b) && bool_decide (j_min ja = j_min jb) &&
   bool_decide (cj_pguid a = cj_pguid b)).

Definition node_view_sameb (a b : node) : bool :=
  bool_decide (n_has_node a = n_has_node b) &&
  map_sameb task_view_sameb (n_tasks a) (n_tasks b) &&
  (negb (n_has_node a) ||
   res_eqvb (n_idle a) (n_idle b) && res_eqvb (n_used a) (n_used b) &&
   res_eqvb (n_releasing a) (n_releasing b) && res_eqvb (n_pipelined a) (n_pipelined b) &&
   res_eqvb (n_alloc a) (n_alloc b)).

Definition job_tasks (c : cache) : gmap positive task :=
  filter (fun kv => in_job c (snd kv) = true) (c_heap c).

(* the flags a NodeInfo derives from the labels / annotations of its node object *)
Definition nflags (c : cache) (n : positive) : bool * bool * Z :=
  let a := default no_attr (c_nattr c !! n) in (na_over_node a, na_offline a, na_zone a).

Definition view_eqb (a b : cache) : bool :=
  map_sameb task_view_sameb (job_tasks a) (job_tasks b) &&
  map_sameb cjob_view_sameb (filter (fun kv => job_visible (snd kv) = true) (c_jobs a))
                            (filter (fun kv => job_visible (snd kv) = true) (c_jobs b)) &&
  map_sameb node_view_sameb (filter (fun kv => node_visible (snd kv) = true) (c_nodes a))
                            (filter (fun kv => node_visible (snd kv) = true) (c_nodes b)) &&
  gmap_allb (fun n ni => negb (n_has_node ni) || bool_decide (nflags a n = nflags b n)) (c_nodes a) &&
  bool_decide (list_to_set (c_nodelist a) =@{gset positive} list_to_set (c_nodelist b)) &&
  bool_decide (c_queues a = c_queues b).

(* ---------- laws ---------- *)

(* after every handler: the invariant holds on the cache's own jobs and nodes *)
Definition law_inv (c : cache) : bool := cache_invb c.

(* at quiescence (repair queues drained, every successful bind / eviction
   acknowledged by its pod event): the cache equals, as a view, the cache a
   fresh scheduler builds from the final objects alone *)
Definition law_converge (after_history fresh : cache) : bool :=
  view_eqb after_history fresh && cache_invb fresh.

(* exact sameness of two dumps of the cache (before / after a cycle mutated its snapshot) *)
Definition cjob_sameb (a b : cjob) : bool :=
  job_sameb (cj_job a) (cj_job b) && bool_decide (cj_pg a = cj_pg b) &&
  bool_decide (cj_pguid a = cj_pguid b) && bool_decide (cj_queue a = cj_queue b) &&
  bool_decide (j_min (cj_job a) = j_min (cj_job b)).
Definition node_exact_sameb (a b : node) : bool :=
  node_sameb a b && bool_decide (n_has_node a = n_has_node b) && res_eqvb (n_alloc a) (n_alloc b).

Definition law_untouched (before after : cache) : bool :=
  map_sameb task_view_sameb (c_heap before) (c_heap after) &&
  map_sameb cjob_sameb (c_jobs before) (c_jobs after) &&
  map_sameb node_exact_sameb (c_nodes before) (c_nodes after) &&
  gmap_allb (fun n _ => bool_decide (nflags before n = nflags after n)) (c_nodes before) &&
  bool_decide (c_nodelist before = c_nodelist after) &&
  bool_decide (c_queues before = c_queues after) &&
  bool_decide (c_errq before = c_errq after) && bool_decide (c_delq before = c_delq after).

(* a snapshot, read as a cache of its own, is internally consistent (the
   precondition of the session properties), shows only ready nodes, jobs with
   a PodGroup in an existing queue, and agrees with the cache on every task it shows *)
Definition law_snapshot (c : cache) (s : snapshot) : bool :=
  ledger_okb (s_heap s) (cj_job <$> s_jobs s) (s_nodes s) &&
  gmap_allb (fun _ ni => n_has_node ni) (s_nodes s) &&
  bool_decide (dom (s_nodes s) = dom (filter (fun kv => n_has_node (snd kv) = true) (c_nodes c))) &&
  gmap_allb (fun i cj => in_snapshot c cj &&
                         match c_jobs c !! i with
                         | Some cj' => bool_decide (j_tasks (cj_job cj) = j_tasks (cj_job cj')) &&
                                       bool_decide (j_index (cj_job cj) = j_index (cj_job cj'))
                         | None => false end) (s_jobs s) &&
  gmap_allb (fun i cj => negb (in_snapshot c cj) || bool_decide (is_Some (s_jobs s !! i))) (c_jobs c) &&
  gmap_allb (fun i t => match c_heap c !! i with
                        | Some t' => task_view_sameb t t'
                        | None => false end) (s_heap s).

(* A snapshot read as a cache of its own needs, as "heap", the tasks of its jobs AND the copies
   its nodes hold of tasks whose job is not part of the snapshot (the real Snapshot() has no
   heap object at all; the codec rebuilds exactly this one from a dump, Entry.v dSnap).
   [s_heap] alone (tasks of the snapshot's jobs) is not enough for [law_snapshot]. *)
Definition snap_heap (s : snapshot) : gmap positive task :=
  s_heap s ∪ map_fold (fun _ N acc => n_tasks N ∪ acc) ∅ (s_nodes s).
Definition full_snapshot (eps : Z) (c : cache) : snapshot :=
  let s := take_snapshot eps c in
  mkSnap (snap_heap s) (s_jobs s) (s_nodes s) (s_nodelist s) (s_queues s).

(* right after a batch of binds: every accepted context whose API side failed (pre-binder or
   binder) is queued for a resync *)
Definition law_failed_binds_queued (c : cache) (keys : list (positive * positive)) : bool :=
  forallb (fun k => bool_decide (k ∈ c_errq c)) keys.
