(* Property C02, bind admission: no sequence of AddBindTask calls -- whatever jobs, tasks and
   nodes they name, whatever the tasks request -- overcommits a node, and a refused call leaves
   the cache as it was. *)
From stdpp Require Import gmap.
From Coq Require Import ZArith Lia.
From V Require Import Base.Res Base.ResLemmas Sched.LedgerModel Sched.StmtModel Sched.GangModel Sched.LedgerInvP
                      Sched.CycleModel Sched.NodeCapLemmas Sched.NodeCapLemmasCycle Sched.NodeSumLemmas C02.BindModel.
Open Scope Z_scope.

Section Bind.
Variable eps : Z.
Hypothesis eps_pos : 0 < eps.

(* ---------- what one call does to the nodes ---------- *)

Inductive nodes_effect (c : cache) (r : bind_req) (c' : cache) : bind_res -> Prop :=
| ne_accept n t n' t' :
    c_nodes c !! b_node r = Some n -> c_heap c !! b_task r = Some t ->
    node_add eps n (set_status t Binding) = inl (n', t') ->
    c_nodes c' = <[b_node r := n']> (c_nodes c) ->
    nodes_effect c r c' BOk
| ne_reject o : o <> BOk -> c_nodes c' = c_nodes c -> nodes_effect c r c' o.

Lemma add_bind_task_effect c r :
  nodes_effect c r (fst (add_bind_task eps c r)) (snd (add_bind_task eps c r)).
Proof.
  unfold add_bind_task.
  destruct (c_jobs c !! b_job r) as [j|]; [|apply ne_reject; [discriminate|reflexivity]].
  destruct (negb _); [apply ne_reject; [discriminate|reflexivity]|].
  destruct (c_heap c !! b_task r) as [t|] eqn:Et; [|apply ne_reject; [discriminate|reflexivity]].
  destruct (c_nodes c !! b_node r) as [n|] eqn:En; [|apply ne_reject; [discriminate|reflexivity]].
  destruct (n_has_node n) eqn:Hhas; simpl negb; cbv iota; [|apply ne_reject; [discriminate|reflexivity]].
  unfold job_update. cbv beta zeta iota.
  destruct (b_decision_fails r); [apply ne_reject; [discriminate|reflexivity]|].
  destruct (node_add eps n (set_status t Binding)) as [[n' t2]|e] eqn:Ea.
  - simpl. eapply ne_accept; eauto.
  - apply ne_reject; [discriminate|reflexivity].
Qed.

(* after fix 8dab8c3: a target without Node object (the placeholder of a removed node, or of pods seen
   before their node) is refused and nothing is touched *)
Theorem bind_needs_node_object c r n :
  c_nodes c !! b_node r = Some n -> n_has_node n = false ->
  fst (add_bind_task eps c r) = c /\ snd (add_bind_task eps c r) <> BOk.
Proof.
  intros Hn Hh. unfold add_bind_task.
  destruct (c_jobs c !! b_job r) as [j|]; [|split; [reflexivity|discriminate]].
  destruct (negb _); [split; [reflexivity|discriminate]|].
  destruct (c_heap c !! b_task r) as [t|]; [|split; [reflexivity|discriminate]].
  rewrite Hn, Hh. simpl. split; [reflexivity|discriminate].
Qed.

(* an accepted call passed the Idle re-check of NodeInfo.AddTask (on a node that has a Node) *)
Lemma node_add_binding_checked n t n' t' :
  t_status t = Binding -> n_has_node n = true -> node_add eps n t = inl (n', t') ->
  less_equal_names eps (t_req t) (n_idle n) DZero = true.
Proof.
  intros Hst Hh. unfold node_add. repeat case_bool_decide; try discriminate.
  rewrite Hh, Hst. simpl. destruct (less_equal_names _ _ _ _); [reflexivity|discriminate].
Qed.

Theorem accepted_bind_was_checked c r :
  snd (add_bind_task eps c r) = BOk ->
  exists n t, c_nodes c !! b_node r = Some n /\ c_heap c !! b_task r = Some t /\
    (n_has_node n = true -> less_equal_names eps (t_req t) (n_idle n) DZero = true).
Proof.
  intros Hok. destruct (add_bind_task_effect c r) as [n t n' t' Hn Ht Ha _|o Ho _]; [|congruence].
  exists n, t. repeat split; try assumption. intros Hh.
  apply (node_add_binding_checked n (set_status t Binding) n' t' eq_refl Hh Ha).
Qed.

(* ---------- safety over sequences ---------- *)

Definition nodes_all (P : node -> Prop) (ns : gmap positive node) : Prop := forall i n, ns !! i = Some n -> P n.

Lemma nodes_all_insert P ns i n : nodes_all P ns -> P n -> nodes_all P (<[i := n]> ns).
Proof. intros H Hn k m Hl. apply lookup_insert_Some in Hl as [[_ <-]|[_ Hl]]; [exact Hn|apply (H k m Hl)]. Qed.

(* one step keeps any per-node property that a passing Binding AddTask keeps *)
Lemma add_bind_task_keeps (P : node -> Prop) :
  (forall n t n' t', P n -> t_status t = Binding -> node_add eps n t = inl (n', t') -> P n') ->
  forall c r, nodes_all P (c_nodes c) -> nodes_all P (c_nodes (fst (add_bind_task eps c r))).
Proof.
  intros HP c r Hall. destruct (add_bind_task_effect c r) as [n t n' t' Hn Ht Ha Hc|o _ Hc]; rewrite Hc; [|exact Hall].
  apply nodes_all_insert; [exact Hall|]. apply (HP n (set_status t Binding) n' t'); [apply (Hall _ _ Hn)|reflexivity|exact Ha].
Qed.

Lemma bind_state_keeps (P : node -> Prop) :
  (forall n t n' t', P n -> t_status t = Binding -> node_add eps n t = inl (n', t') -> P n') ->
  forall l c, nodes_all P (c_nodes c) -> nodes_all P (c_nodes (bind_state eps c l)).
Proof.
  intros HP l. induction l as [|r l IH]; intros c Hall; [exact Hall|]. simpl. apply IH. apply add_bind_task_keeps; assumption.
Qed.

(* B (main): every interleaving of concurrent AddBindTask callers is a sequence of requests (the
   function holds sc.Mutex from its first to its last statement).  For every such sequence,
   computed from views however stale -- i.e. for arbitrary requests -- and every prefix of it:
   no node's Idle goes below -eps ... *)
Theorem bind_admission_safe c l k :
  nodes_all (idle_ok eps) (c_nodes c) ->
  nodes_all (idle_ok eps) (c_nodes (bind_state eps c (take k l))).
Proof.
  apply bind_state_keeps. intros n t n' t' Hn Hst Ha. eapply node_add_binding_keeps_idle; eauto.
Qed.

(* the same over EVERY dimension, 'pods' included: the Binding re-check compares every key of the
   request (second audit N1; for binds only -- the event theorems below are over guarded dimensions) *)
Theorem bind_admission_all_dims c l k :
  nodes_all (idle_all_ok eps) (c_nodes c) ->
  nodes_all (idle_all_ok eps) (c_nodes (bind_state eps c (take k l))).
Proof.
  apply bind_state_keeps. intros n t n' t' Hn Hst Ha. eapply node_add_binding_keeps_idle_all; eauto.
Qed.

(* ... and the nodes stay within capacity in the full sense (future idle too) when nothing is
   pipelined beyond what is releasing, as on every node of the scheduler cache *)
Definition cache_node_ok (n : node) : Prop := node_within_capacity eps n /\ pip_le_rel n.

Theorem bind_admission_safe_full c l k :
  nodes_all cache_node_ok (c_nodes c) ->
  nodes_all cache_node_ok (c_nodes (bind_state eps c (take k l))).
Proof.
  apply bind_state_keeps. intros n t n' t' [Hn Hp] Hst Ha. eapply node_add_binding_keeps_capacity; eauto.
Qed.

(* the agent scheduler's AddBindTask: the same theorem; nothing in it mentions BindGeneration,
   i.e. safety does not rest on the conflict-aware binder's generation check *)
Theorem agent_bind_admission_safe ns l k :
  nodes_all (idle_ok eps) ns -> nodes_all (idle_ok eps) (agent_state eps ns (take k l)).
Proof.
  generalize (take k l). clear l k. intros l. revert ns. induction l as [|[t nid] l IH]; intros ns Hall; [exact Hall|].
  simpl. apply IH. unfold agent_add_bind_task. simpl.
  destruct (ns !! nid) as [n|] eqn:En; [|exact Hall].
  destruct (n_has_node n); simpl; [|exact Hall].
  destruct (node_add eps n (set_status t Binding)) as [[n' t']|e] eqn:Ea; [|exact Hall].
  simpl. apply nodes_all_insert; [exact Hall|].
  apply (node_add_binding_keeps_idle eps eps_pos n (set_status t Binding) n' t'); [apply (Hall _ _ En)|reflexivity|exact Ea].
Qed.

End Bind.

(* ---------- a refused call changes nothing ---------- *)

Section Refused.
Variable eps : Z.

Lemma set_status_roundtrip t s : set_status (set_status t s) (t_status t) = t.
Proof. destruct t; reflexivity. Qed.

Lemma amt_add_sub x r d : amt (sub (add x r) r) d = amt x d.
Proof.
  destruct (add_sub_pointwise x r) as (Hc & Hm & Hs). destruct d; simpl; [exact Hc|exact Hm|apply Hs].
Qed.

Lemma skey_inj s s' : skey s = skey s' -> s = s'.
Proof. destruct s, s'; simpl; intros H; try reflexivity; discriminate. Qed.

Lemma idx_set_add ix s t s' :
  idx_set (idx_add ix s t) s' = if bool_decide (s' = s) then {[t]} ∪ idx_set ix s else idx_set ix s'.
Proof.
  unfold idx_set, idx_add. case_bool_decide as E.
  - subst. rewrite lookup_insert. reflexivity.
  - rewrite lookup_insert_ne; [reflexivity|]. intros H. apply E. symmetry. apply skey_inj. exact H.
Qed.

Lemma idx_set_del ix s t s' :
  idx_set (idx_del ix s t) s' = if bool_decide (s' = s) then idx_set ix s ∖ {[t]} else idx_set ix s'.
Proof.
  unfold idx_set, idx_del. destruct (ix !! skey s) as [ts|] eqn:Es.
  - case_bool_decide as Hem; case_bool_decide as E.
    + subst. rewrite lookup_delete. simpl. rewrite Hem. reflexivity.
    + rewrite lookup_delete_ne; [reflexivity|]. intros H. apply E. symmetry. apply skey_inj. exact H.
    + subst. rewrite lookup_insert. reflexivity.
    + rewrite lookup_insert_ne; [reflexivity|]. intros H. apply E. symmetry. apply skey_inj. exact H.
  - case_bool_decide as E; [|reflexivity]. subst. rewrite ?Es. simpl.
    apply set_eq. intros x. rewrite elem_of_difference, elem_of_empty. tauto.
Qed.

(* moving a task to Binding and back files it where it was *)
Lemma idx_roundtrip ix o t s' :
  t ∈ idx_set ix o -> (forall s, s <> o -> t ∉ idx_set ix s) ->
  idx_set (idx_add (idx_del (idx_add (idx_del ix o t) Binding t) Binding t) o t) s' = idx_set ix s'.
Proof.
  intros Hin Hout. repeat (rewrite idx_set_add || rewrite idx_set_del).
  pose proof (Hout Binding) as HB.
  repeat case_bool_decide; subst; try congruence. all: try (clear Hout; set_solver).
  all: rewrite <- !(union_difference_singleton_L t _ Hin); reflexivity.
Qed.

(* the job after UpdateTaskStatus(task, Binding); UpdateTaskStatus(task, original) *)
Definition job_roundtrip (h : gmap positive task) (j : job) (t : task) : job :=
  let '(j1, t1) := job_update h j t Binding in
  fst (job_update (<[t_id t := t1]> h) j1 t1 (t_status t)).

Theorem job_roundtrip_same h j t :
  h !! t_id t = Some t -> t_id t ∈ j_tasks j ->
  let j' := job_roundtrip h j t in
  j_id j' = j_id j /\ j_queue j' = j_queue j /\ j_min j' = j_min j /\ j_role_min j' = j_role_min j /\
  j_tasks j' = j_tasks j /\
  (sc (j_total j) <> None -> forall d, amt (j_total j') d = amt (j_total j) d) /\
  ((allocated_status (t_status t) = true -> sc (j_alloc j) <> None) -> forall d, amt (j_alloc j') d = amt (j_alloc j) d) /\
  (t_id t ∈ idx_set (j_index j) (t_status t) -> (forall s, s <> t_status t -> t_id t ∉ idx_set (j_index j) s) ->
   forall s, idx_set (j_index j') s = idx_set (j_index j) s).
Proof.
  intros Hh Hin. unfold job_roundtrip, job_update. cbv beta zeta iota.
  change (t_id (set_status t Binding)) with (t_id t).
  rewrite (bool_decide_eq_true_2 _ Hin), Hh.
  set (j1 := job_add (job_del j t) (set_status t Binding)).
  assert (Hin1 : t_id t ∈ j_tasks j1) by (simpl; set_solver).
  rewrite (bool_decide_eq_true_2 _ Hin1), lookup_insert. simpl fst.
  repeat split; try reflexivity.
  - simpl. apply set_eq. intros x. rewrite !elem_of_union, !elem_of_difference, !elem_of_union, !elem_of_difference, !elem_of_singleton.
    split; [intros [->|[[->|[H _]] _]]; try assumption; exact Hin|].
    intros Hx. destruct (Pos.eq_dec x (t_id t)); [left; assumption|right; split; [right; split; assumption|assumption]].
  - intros Hs d. simpl. rewrite amt_add, amt_add_sub, amt_sub_exact by exact Hs. lia.
  - intros Hs d. simpl. destruct (allocated_status (t_status t)) eqn:Ea.
    + rewrite amt_add, amt_add_sub, amt_sub_exact by (apply Hs; reflexivity). lia.
    + apply amt_add_sub.
  - intros H1 H2 s. simpl. apply idx_roundtrip; assumption.
Qed.

Definition heap_keyed (h : gmap positive task) : Prop := forall i t, h !! i = Some t -> t_id t = i.

(* B (second half): a refused AddBindTask leaves the nodes and every task object exactly as they
   were (statuses included), touches no other job, and leaves the task's own job with the same
   task set, index and sums (job_roundtrip_same) *)
Theorem rejected_bind_unchanged c r :
  heap_keyed (c_heap c) -> snd (add_bind_task eps c r) <> BOk ->
  let c' := fst (add_bind_task eps c r) in
  c_nodes c' = c_nodes c /\ c_heap c' = c_heap c /\
  (c_jobs c' = c_jobs c \/
   exists j t, c_jobs c !! b_job r = Some j /\ c_heap c !! b_task r = Some t /\ b_task r ∈ j_tasks j /\
               c_jobs c' = <[b_job r := job_roundtrip (c_heap c) j t]> (c_jobs c)).
Proof.
  intros Hk. unfold add_bind_task.
  destruct (c_jobs c !! b_job r) as [j|] eqn:Ej; [|intros _; simpl; auto].
  destruct (bool_decide (b_task r ∈ j_tasks j)) eqn:Ein; simpl negb; cbv iota; [|intros _; simpl; auto].
  apply bool_decide_eq_true in Ein.
  destruct (c_heap c !! b_task r) as [t|] eqn:Et; [|intros _; simpl; auto].
  destruct (c_nodes c !! b_node r) as [n|] eqn:En; [|intros _; simpl; auto].
  destruct (n_has_node n) eqn:Hhas; simpl negb; cbv iota; [|intros _; simpl; auto].
  pose proof (Hk _ _ Et) as Hid.
  assert (Hheap : <[b_task r := set_status (set_status t Binding) (t_status t)]> (<[b_task r := set_status t Binding]> (c_heap c)) = c_heap c).
  { rewrite insert_insert, set_status_roundtrip. apply insert_id. exact Et. }
  unfold job_update. cbv beta zeta iota.
  destruct (b_decision_fails r).
  - intros _. simpl. split; [reflexivity|]. split; [exact Hheap|].
    right. exists j, t. repeat split; try assumption.
    unfold job_roundtrip, job_update. cbv beta zeta iota. simpl. rewrite ?Hid. reflexivity.
  - destruct (node_add eps n (set_status t Binding)) as [[n' t2]|e] eqn:Ea; [simpl; congruence|].
    intros _. simpl. split; [reflexivity|]. split; [exact Hheap|].
    right. exists j, t. repeat split; try assumption.
    unfold job_roundtrip, job_update. cbv beta zeta iota. simpl. rewrite ?Hid. reflexivity.
Qed.

End Refused.

(* ---------- round 3: cache events between the binds ---------- *)

Section Events.
Variable eps : Z.
Hypothesis eps_pos : 0 < eps.

(* setNode recomputes the ledger: Idle = Allocatable - sum of the requests of the held copies
   that are not Pipelined (the mirror of C08_set_node_recomputes_ledger, for Idle) *)
Lemma fold_set_acc_idle l : forall n,
  sc (n_idle n) <> None ->
  let n' := fold_left node_set_acc l n in
  sc (n_idle n') <> None /\ n_tasks n' = n_tasks n /\ n_has_node n' = n_has_node n /\ n_alloc n' = n_alloc n /\
  forall d, amt (n_idle n') d = amt (n_idle n) d - sum_amt (used_amt d) l /\
            amt (n_releasing n') d = amt (n_releasing n) d + sum_amt (rel_amt d) l /\
            amt (n_pipelined n') d = amt (n_pipelined n) d + sum_amt (pip_amt d) l.
Proof.
  induction l as [|t l IH]; intros n Hs; simpl; [repeat split; auto; lia|].
  assert (H1 : sc (n_idle (node_set_acc n t)) <> None /\ n_tasks (node_set_acc n t) = n_tasks n /\
               n_has_node (node_set_acc n t) = n_has_node n /\ n_alloc (node_set_acc n t) = n_alloc n /\
               forall d, amt (n_idle (node_set_acc n t)) d = amt (n_idle n) d - used_amt d t /\
                         amt (n_releasing (node_set_acc n t)) d = amt (n_releasing n) d + rel_amt d t /\
                         amt (n_pipelined (node_set_acc n t)) d = amt (n_pipelined n) d + pip_amt d t).
  { unfold node_set_acc, used_amt, rel_amt, pip_amt. destruct (t_status t); simpl; repeat split; auto; try (apply sc_sub_some; exact Hs);
      try (rewrite amt_sub_exact by exact Hs); try rewrite amt_add; lia. }
  destruct H1 as (A1 & A2 & A3 & A4 & A5). destruct (IH (node_set_acc n t) A1) as (B1 & B2 & B3 & B4 & B5).
  repeat split; [exact B1|rewrite B2; exact A2|rewrite B3; exact A3|rewrite B4; exact A4| | |];
    destruct (B5 d) as (X1 & X2 & X3); destruct (A5 d) as (Y1 & Y2 & Y3); lia.
Qed.

Theorem node_set_idle n alloc :
  sc alloc <> None ->
  sc (n_idle (node_set n alloc)) <> None /\ n_tasks (node_set n alloc) = n_tasks n /\ n_has_node (node_set n alloc) = true /\
  forall d, amt (n_idle (node_set n alloc)) d = amt alloc d - sum_amt (used_amt d) (copies n).
Proof.
  intros Hs. unfold node_set, copies.
  destruct (fold_set_acc_idle (map snd (map_to_list (n_tasks n))) (mkNode (n_id n) true alloc empty_res empty_res empty_res alloc (n_tasks n)) Hs)
    as (H1 & H2 & H3 & _ & H5).
  repeat split; [exact H1|exact H2|exact H3|]. intros d. apply (H5 d).
Qed.

Lemma amt_empty_res d : amt empty_res d = 0.
Proof. destruct d; reflexivity. Qed.

(* ... and the whole ledger: after SetNode the node accounts for exactly the copies it holds *)
Theorem node_set_acct n alloc :
  sc alloc <> None -> (forall k c, n_tasks n !! k = Some c -> nonneg (t_req c)) ->
  node_acct (node_set n alloc) /\ n_alloc (node_set n alloc) = alloc.
Proof.
  intros Hs Hnn. unfold node_set.
  destruct (fold_set_acc_idle (map snd (map_to_list (n_tasks n))) (mkNode (n_id n) true alloc empty_res empty_res empty_res alloc (n_tasks n)) Hs)
    as (H1 & H2 & H3 & H4 & H5).
  split; [|exact H4]. split; [intros _; exact H1|]. split; [rewrite H2; exact Hnn|].
  intros _ d. rewrite H2, H4. simpl. destruct (H5 d) as (X1 & X2 & X3). simpl n_idle in X1. simpl n_releasing in X2. simpl n_pipelined in X3.
  unfold csum. repeat split; [exact X1| |].
  - rewrite X2, amt_empty_res. lia.
  - rewrite X3, amt_empty_res. lia.
Qed.

(* a node update that does not change the allocatable leaves Idle as it was, provided the ledger
   identity held (node_inv: idle + used = allocatable, used = sum over the held copies) *)
Corollary node_set_same_alloc n :
  sc (n_alloc n) <> None ->
  (forall d, amt (n_idle n) d = amt (n_alloc n) d - sum_amt (used_amt d) (copies n)) ->
  forall d, amt (n_idle (node_set n (n_alloc n))) d = amt (n_idle n) d.
Proof. intros Hs Hinv d. destruct (node_set_idle n (n_alloc n) Hs) as (_ & _ & _ & H). rewrite (H d), (Hinv d). reflexivity. Qed.

(* what the sequence theorem carries per node: Idle above -eps when the node keeps a ledger, and
   copies with non-negative requests none of which is Pipelined (the cache never pipelines) *)
Definition bnode_ok (n : node) : Prop :=
  (n_has_node n = true -> idle_ok eps n) /\
  (forall j c, n_tasks n !! j = Some c -> nonneg (t_req c) /\ t_status c <> Pipelined) /\
  node_acct n.

Definition cinv (c : cache) : Prop :=
  (forall i t, c_heap c !! i = Some t -> nonneg (t_req t) /\ t_status t <> Pipelined) /\
  nodes_all bnode_ok (c_nodes c).

Lemma node_add_has n t n' t' : node_add eps n t = inl (n', t') -> n_has_node n' = n_has_node n.
Proof.
  unfold node_add. repeat case_bool_decide; try discriminate.
  destruct (n_has_node n) eqn:Hh; simpl; [|intros Hq; inversion Hq; subst; exact Hh].
  destruct (t_status t); try (intros Hq; inversion Hq; subst; exact Hh).
  destruct (less_equal_names _ _ _ _); [intros Hq; inversion Hq; subst; exact Hh|discriminate].
Qed.

Lemma node_remove_has n tid : n_has_node (node_remove n tid) = n_has_node n.
Proof.
  unfold node_remove. destruct (n_tasks n !! tid) as [c|]; [|reflexivity].
  destruct (n_has_node n) eqn:Hh; simpl; [|exact Hh]. destruct (t_status c); exact Hh.
Qed.

Lemma bnode_remove n tid : bnode_ok n -> bnode_ok (node_remove n tid).
Proof.
  intros (Hi & Hc & Hacct). split; [|split].
  - rewrite node_remove_has. intros Hh. apply node_remove_keeps_idle; [apply Hi; exact Hh|].
    intros c Hl. apply (Hc _ _ Hl).
  - intros j c. rewrite node_remove_tasks. intros Hl. apply lookup_delete_Some in Hl as [_ Hl]. apply (Hc _ _ Hl).
  - apply node_remove_acct. exact Hacct.
Qed.

(* AddTask of a non-pipelined task whose request fits what is idle (or is re-checked: Binding) *)
Lemma bnode_add n t n' t' :
  bnode_ok n -> nonneg (t_req t) -> t_status t <> Pipelined ->
  (t_status t = Binding \/ (n_has_node n = true -> fits eps (t_req t) (amt (n_idle n)))) ->
  node_add eps n t = inl (n', t') -> bnode_ok n'.
Proof.
  intros (Hi & Hc & Hacct) Hnn Hnp Hg Ha. split; [|split; [|eapply node_add_acct; eauto]].
  - rewrite (node_add_has _ _ _ _ Ha). intros Hh. specialize (Hi Hh).
    destruct Hg as [Hb|Hf]; [eapply node_add_binding_keeps_idle; eauto|]. specialize (Hf Hh).
    destruct Hi as [Hs Hidle]. revert Ha. unfold node_add. repeat case_bool_decide; try discriminate.
    rewrite Hh. simpl.
    assert (Hsub : idle_ok eps (node_with n (sub (n_idle n) (t_req t)) (add (n_used n) (t_req t)) (n_releasing n) (n_pipelined n)
                                     (<[t_id t := set_node t (Some (n_id n))]> (n_tasks n)))).
    { split; simpl; [apply sc_sub_some; exact Hs|]. intros d Hd. rewrite amt_sub_exact by exact Hs. specialize (Hf d Hd). lia. }
    assert (Hsub' : forall rel, idle_ok eps (node_with n (sub (n_idle n) (t_req t)) (add (n_used n) (t_req t)) rel (n_pipelined n)
                                     (<[t_id t := set_node t (Some (n_id n))]> (n_tasks n)))).
    { intros rel. destruct Hsub as [S1 S2]. split; [exact S1|exact S2]. }
    destruct (t_status t); try congruence; try (intros Hq; inversion Hq; subst; apply Hsub'); try (intros Hq; inversion Hq; subst; exact Hsub).
    destruct (less_equal_names _ _ _ _); [intros Hq; inversion Hq; subst; exact Hsub|discriminate].
  - intros j c. rewrite (node_add_tasks eps _ _ _ _ Ha). intros Hl.
    apply lookup_insert_Some in Hl as [[_ <-]|[_ Hl]]; [split; assumption|apply (Hc _ _ Hl)].
Qed.

(* UpdatePod with a deletionTimestamp on the node: the copy (not Pipelined) is removed and re-added
   as Releasing with the same request: Idle keeps its amounts *)
Lemma bnode_reterminate n t cp n' t' :
  bnode_ok n -> n_tasks n !! t_id t = Some cp -> t_req cp = t_req t -> t_status t = Releasing ->
  node_add eps (node_remove n (t_id t)) t = inl (n', t') -> bnode_ok n'.
Proof.
  intros Hb Hl Hr Hst Ha. pose proof Hb as (Hi & Hc & _). destruct (Hc _ _ Hl) as [Hnn Hnp]. rewrite Hr in Hnn.
  apply (bnode_add (node_remove n (t_id t)) t n' t'); [apply bnode_remove; exact Hb|exact Hnn|rewrite Hst; discriminate| |exact Ha].
  right. rewrite node_remove_has. intros Hh. destruct (Hi Hh) as [Hs Hidle].
  assert (Hidle1 : forall d, amt (n_idle (node_remove n (t_id t))) d = amt (n_idle n) d + amt (t_req t) d).
  { intros d. unfold node_remove. rewrite Hl, Hh, Hr. simpl. destruct (t_status cp); try congruence; simpl; apply amt_add. }
  intros d Hd. rewrite (Hidle1 d). specialize (Hidle d Hd). lia.
Qed.

(* side conditions of an event: the cluster state it delivers is itself within capacity and
   consistent with what the cache holds (C08 proves the latter as its Rep invariant) *)
Definition ev_ok (c : cache) (e : cache_ev) : Prop :=
  match e with
  | EvNode nid alloc =>
    (* The delivered object carries a scalar map (NewResource: at least "pods") and, for a node
       the cache already accounts for (it has its Node object), EITHER its allocatable did not
       shrink in any dimension -- then nothing else is asked: the new Idle is the old one plus the
       growth, by the ledger identity of the invariant -- OR (a shrinking node, and the first Node
       object of a placeholder) the environment guarantees that the new allocatable still covers
       what the node holds: the pods bound to it, of which the cache's held set consists apart
       from binds in flight.  A node shrunk below what is placed on it is an overcommitted cluster
       state by itself, outside the property's quantifier. *)
    sc alloc <> None /\
    match c_nodes c !! nid with
    | Some n =>
      (n_has_node n = true /\ forall d, amt (n_alloc n) d <= amt alloc d) \/
      (forall d, guarded_dim d -> csum (used_amt d) (n_tasks n) < amt alloc d + eps)
    | None => forall d, guarded_dim d -> - eps < amt alloc d
    end
  | EvTerminating tid =>
    forall st i, c_heap c !! tid = Some st -> t_node st = Some i ->
      t_id st = tid /\ terminated (t_status st) = false /\
      forall n, c_nodes c !! i = Some n -> exists cp, n_tasks n !! tid = Some cp /\ t_req cp = t_req st
  | EvDelete _ => True
  | EvPodAdd t =>
    nonneg (t_req t) /\ t_status t <> Pipelined /\ t_status t <> Binding /\
    forall i n, t_node t = Some i -> c_nodes c !! i = Some n -> n_has_node n = true -> fits eps (t_req t) (amt (n_idle n))
  | EvUpdateUnbound _ _ => True
  | EvBoundArrives tid =>
    forall st i, c_heap c !! tid = Some st -> t_status st = Binding -> t_node st = Some i ->
      t_id st = tid /\
      forall n, c_nodes c !! i = Some n -> exists cp, n_tasks n !! tid = Some cp /\ t_req cp = t_req st
  | EvRemoveNode _ => True
  | EvUnbind _ _ => True
  end.

Lemma bnode_placeholder i : bnode_ok (placeholder i).
Proof.
  split; [simpl; discriminate|]. split; [intros j c Hl; simpl in Hl; rewrite lookup_empty in Hl; discriminate|].
  split; [simpl; discriminate|]. split; [intros j c Hl; simpl in Hl; rewrite lookup_empty in Hl; discriminate|]. intros Hc. simpl in Hc. discriminate.
Qed.

Lemma add_to_node_ok ns t :
  nodes_all bnode_ok ns -> nonneg (t_req t) -> t_status t <> Pipelined ->
  (forall i n, t_node t = Some i -> ns !! i = Some n ->
     t_status t = Binding \/ (n_has_node n = true -> fits eps (t_req t) (amt (n_idle n)))) ->
  nodes_all bnode_ok (add_to_node eps ns t).
Proof.
  intros Hall Hnn Hnp Hg. unfold add_to_node. destruct (t_node t) as [i|] eqn:Hn; [|exact Hall].
  assert (Hn0 : bnode_ok (default (placeholder i) (ns !! i))).
  { destruct (ns !! i) as [n|] eqn:E; simpl; [apply (Hall _ _ E)|apply bnode_placeholder]. }
  destruct (terminated (t_status t)); [apply nodes_all_insert; assumption|].
  destruct (node_add eps (default (placeholder i) (ns !! i)) t) as [[n' t']|e] eqn:Ea; [|apply nodes_all_insert; assumption].
  apply nodes_all_insert; [exact Hall|]. apply (bnode_add _ t n' t' Hn0 Hnn Hnp); [|exact Ea].
  destruct (ns !! i) as [n|] eqn:E; simpl; [apply (Hg i n eq_refl E)|right; simpl; discriminate].
Qed.

Lemma remove_from_node_ok ns t : nodes_all bnode_ok ns -> nodes_all bnode_ok (remove_from_node ns t).
Proof.
  intros Hall. unfold remove_from_node. destruct (t_node t) as [i|]; [|exact Hall].
  destruct (ns !! i) as [n|] eqn:E; [|exact Hall]. destruct (terminated (t_status t)); [exact Hall|].
  apply nodes_all_insert; [exact Hall|]. apply bnode_remove. apply (Hall _ _ E).
Qed.

(* deletePod + addPod of a pod the node holds: the copy is removed and re-filed with the same request *)
Lemma readd_ok ns st t' :
  nodes_all bnode_ok ns -> nonneg (t_req st) -> t_req t' = t_req st -> t_node t' = t_node st ->
  t_status t' <> Pipelined -> terminated (t_status st) = false ->
  (forall i n, t_node st = Some i -> ns !! i = Some n ->
     exists cp, n_tasks n !! t_id st = Some cp /\ t_req cp = t_req st) ->
  nodes_all bnode_ok (add_to_node eps (remove_from_node ns st) t').
Proof.
  intros Hall Hnn Hreq Hnode Hnp Hterm Hcp.
  apply add_to_node_ok; [apply remove_from_node_ok; exact Hall|rewrite Hreq; exact Hnn|exact Hnp|].
  rewrite Hnode. intros i n Hi Hl. right. intros Hh.
  unfold remove_from_node in Hl. rewrite Hi in Hl. destruct (ns !! i) as [n0|] eqn:E0; [|rewrite E0 in Hl; discriminate].
  rewrite Hterm, lookup_insert in Hl. inversion Hl; subst n. clear Hl.
  destruct (Hcp i n0 Hi E0) as (cp & Hlcp & Hrcp). destruct (Hall _ _ E0) as (Hi0 & Hc0 & _).
  rewrite node_remove_has in Hh. destruct (Hi0 Hh) as [Hs0 Hidle0]. destruct (Hc0 _ _ Hlcp) as [_ Hcpnp].
  assert (Hidle1 : forall d, amt (n_idle (node_remove n0 (t_id st))) d = amt (n_idle n0) d + amt (t_req st) d).
  { intros d. unfold node_remove. rewrite Hlcp, Hh, Hrcp. simpl. destruct (t_status cp); try congruence; simpl; apply amt_add. }
  intros d Hd. rewrite Hreq, (Hidle1 d). specialize (Hidle0 d Hd). lia.
Qed.

(* a bind in flight keeps its reservation: an update whose object has no nodeName yet is ignored
   for a pod the cache holds in an allocated status (updatePod's guard; seeded mutant C02-r3-1
   restricts it to resyncs) *)
Theorem update_unbound_keeps_reservation c tid deleting st :
  c_heap c !! tid = Some st -> allocated_status (t_status st) = true ->
  cache_event eps c (EvUpdateUnbound tid deleting) = c.
Proof. intros Hl Ha. simpl. rewrite Hl, Ha. reflexivity. Qed.

(* every cache event keeps the invariant *)
Theorem cache_event_keeps c e : cinv c -> ev_ok c e -> cinv (cache_event eps c e).
Proof.
  intros [Hheap Hall] Hev. destruct e as [nid alloc|tid|tid|t|tid deleting|tid|nid|tid nid]; simpl.
  - (* node add / update: the ledger is recomputed *)
    destruct Hev as [Hs Hsum]. split; [exact Hheap|]. simpl. unfold node_event. apply nodes_all_insert; [exact Hall|].
    destruct (c_nodes c !! nid) as [n|] eqn:E.
    + destruct (Hall _ _ E) as (Hi0 & Hc0 & Hacct0).
      assert (Hnn0 : forall k cp, n_tasks n !! k = Some cp -> nonneg (t_req cp)) by (intros k cp Hl; apply (Hc0 _ _ Hl)).
      destruct (node_set_idle n alloc Hs) as (S1 & S2 & S3 & S4).
      destruct (node_set_acct n alloc Hs Hnn0) as [Hacct' Halloc'].
      split; [|split; [intros j cp; rewrite S2; apply Hc0|exact Hacct']].
      intros _. split; [exact S1|]. intros d Hd. rewrite (S4 d). change (sum_amt (used_amt d) (copies n)) with (csum (used_amt d) (n_tasks n)).
      destruct Hsum as [[Hh Hgrow]|Hcov]; [|specialize (Hcov d Hd); lia].
      (* no shrink: derived from the invariant *)
      destruct (Hi0 Hh) as [_ Hidle]. specialize (Hidle d Hd). destruct Hacct0 as (_ & _ & Hsums). destruct (Hsums Hh d) as (X1 & _ & _).
      specialize (Hgrow d). lia.
    + assert (Hfresh : node_acct (fresh_node nid alloc)).
      { split; [intros _; exact Hs|]. split; [intros k cp Hl; simpl in Hl; rewrite lookup_empty in Hl; discriminate|].
        intros _ d. simpl. unfold csum. rewrite map_to_list_empty. simpl. rewrite amt_empty_res. repeat split; lia. }
      split; [|split; [intros j cp Hl; simpl in Hl; rewrite lookup_empty in Hl; discriminate|exact Hfresh]].
      intros _. split; [exact Hs|]. intros d Hd. simpl. apply (Hsum d Hd).
  - (* pod turned terminating *)
    destruct (c_heap c !! tid) as [st|] eqn:Eh; [|split; assumption]. destruct (Hheap _ _ Eh) as [Hnn Hnp].
    split; simpl.
    + intros i u Hl. apply lookup_insert_Some in Hl as [[_ <-]|[_ Hl]]; [split; [exact Hnn|simpl; discriminate]|apply (Hheap _ _ Hl)].
    + apply add_to_node_ok; [apply remove_from_node_ok; exact Hall|exact Hnn|simpl; discriminate|].
      simpl t_node. intros i n Hi Hl. right. intros Hh.
      destruct (Hev st i Eh Hi) as (Hid & Hterm & Hcp).
      unfold remove_from_node in Hl. rewrite Hi in Hl. destruct (c_nodes c !! i) as [n0|] eqn:E0; [|rewrite E0 in Hl; discriminate].
      rewrite Hterm, lookup_insert in Hl. inversion Hl; subst n. clear Hl.
      destruct (Hcp n0 eq_refl) as (cp & Hlcp & Hreq). destruct (Hall _ _ E0) as (Hi0 & Hc0 & _).
      rewrite node_remove_has in Hh. destruct (Hi0 Hh) as [Hs0 Hidle0]. destruct (Hc0 _ _ Hlcp) as [_ Hcpnp].
      assert (Hidle1 : forall d, amt (n_idle (node_remove n0 (t_id st))) d = amt (n_idle n0) d + amt (t_req st) d).
      { intros d. unfold node_remove. rewrite Hid, Hlcp, Hh, Hreq. simpl. destruct (t_status cp); try congruence; simpl; apply amt_add. }
      intros d Hd. simpl. rewrite (Hidle1 d). specialize (Hidle0 d Hd). lia.
  - (* pod deleted *)
    destruct (c_heap c !! tid) as [st|] eqn:Eh; [|split; assumption]. split; simpl.
    + intros i u Hl. apply lookup_delete_Some in Hl as [_ Hl]. apply (Hheap _ _ Hl).
    + apply remove_from_node_ok. exact Hall.
  - (* pod arrives *)
    destruct Hev as (Hnn & Hnp & Hnb & Hfit). split; simpl.
    + intros i u Hl. apply lookup_insert_Some in Hl as [[_ <-]|[_ Hl]]; [split; assumption|apply (Hheap _ _ Hl)].
    + apply add_to_node_ok; try assumption. intros i n Hi Hl. right. apply (Hfit i n Hi Hl).
  - (* update of a pod whose object is still unbound *)
    destruct (c_heap c !! tid) as [st|] eqn:Eh; [|split; assumption].
    destruct (allocated_status (t_status st)); [split; assumption|]. destruct (Hheap _ _ Eh) as [Hnn Hnp].
    split; simpl.
    + intros i u Hl. apply lookup_insert_Some in Hl as [[_ <-]|[_ Hl]]; [split; [exact Hnn|destruct deleting; simpl; discriminate]|apply (Hheap _ _ Hl)].
    + apply remove_from_node_ok. exact Hall.
  - (* the bound pod arrives *)
    destruct (c_heap c !! tid) as [st|] eqn:Eh; [|split; assumption].
    destruct (t_status st) eqn:Est; try (split; assumption).
    destruct (t_node st) as [i|] eqn:En; [|split; assumption]. destruct (Hheap _ _ Eh) as [Hnn Hnp].
    destruct (Hev st i Eh Est En) as [Hid Hcp].
    split; simpl.
    + intros k u Hl. apply lookup_insert_Some in Hl as [[_ <-]|[_ Hl]]; [split; [exact Hnn|simpl; discriminate]|apply (Hheap _ _ Hl)].
    + apply readd_ok; [exact Hall|exact Hnn|reflexivity|reflexivity|simpl; discriminate|rewrite Est; reflexivity|].
      intros k n Hk Hl. rewrite En in Hk. inversion Hk; subst k. rewrite Hid. apply (Hcp n Hl).
  - (* node removed: its pods are parked on a placeholder that keeps no ledger *)
    destruct (c_nodes c !! nid) as [n|] eqn:E; [|split; assumption]. split; [exact Hheap|]. simpl.
    case_bool_decide.
    + intros i m Hl. apply lookup_delete_Some in Hl as [_ Hl]. apply (Hall _ _ Hl).
    + apply nodes_all_insert; [exact Hall|]. destruct (Hall _ _ E) as (_ & Hc0 & _).
      split; [simpl; discriminate|]. split; [exact Hc0|]. split; [simpl; discriminate|]. split; [intros k cp Hl; apply (Hc0 _ _ Hl)|].
      intros Hc. simpl in Hc. discriminate.
  - (* a failed bind execution takes the task off its node *)
    destruct (c_nodes c !! nid) as [n|] eqn:E; [|split; assumption]. split; [exact Hheap|]. simpl.
    apply nodes_all_insert; [exact Hall|]. apply bnode_remove. apply (Hall _ _ E).
Qed.

(* AddBindTask keeps it too *)
Lemma add_bind_task_heap c r i u :
  c_heap (fst (add_bind_task eps c r)) !! i = Some u ->
  exists t0, c_heap c !! i = Some t0 /\ t_req u = t_req t0 /\ (t_status u = t_status t0 \/ t_status u = Binding).
Proof.
  unfold add_bind_task.
  destruct (c_jobs c !! b_job r) as [j|]; [|simpl; eauto].
  destruct (negb _); [simpl; eauto|].
  destruct (c_heap c !! b_task r) as [t|] eqn:Et; [|simpl; eauto].
  destruct (c_nodes c !! b_node r) as [n|]; [|simpl; eauto].
  destruct (n_has_node n); simpl negb; cbv iota; [|simpl; eauto].
  unfold job_update. cbv beta zeta iota.
  assert (Hgen : forall x, t_req x = t_req t -> (t_status x = t_status t \/ t_status x = Binding) ->
            forall y, t_req y = t_req t -> (t_status y = t_status t \/ t_status y = Binding) ->
            <[b_task r := x]> (<[b_task r := y]> (c_heap c)) !! i = Some u ->
            exists t0, c_heap c !! i = Some t0 /\ t_req u = t_req t0 /\ (t_status u = t_status t0 \/ t_status u = Binding)).
  { intros x Hx1 Hx2 y _ _ Hl. rewrite insert_insert in Hl. apply lookup_insert_Some in Hl as [[<- <-]|[_ Hl]]; eauto. }
  destruct (b_decision_fails r); simpl.
  - intros Hl. eapply Hgen; [| | | |exact Hl]; simpl; auto.
  - destruct (node_add eps n (set_status t Binding)) as [[n' t2]|e] eqn:Ea; simpl.
    + rewrite (node_add_ret eps _ _ _ _ Ea). intros Hl. eapply Hgen; [| | | |exact Hl]; simpl; auto.
    + intros Hl. eapply Hgen; [| | | |exact Hl]; simpl; auto.
Qed.

Theorem add_bind_task_keeps_cinv c r : cinv c -> cinv (fst (add_bind_task eps c r)).
Proof.
  intros [Hheap Hall]. split.
  - intros i u Hl. destruct (add_bind_task_heap c r i u Hl) as (t0 & Hl0 & Hr & Hs). destruct (Hheap _ _ Hl0) as [H1 H2].
    split; [rewrite Hr; exact H1|]. destruct Hs as [-> | ->]; [exact H2|discriminate].
  - destruct (add_bind_task_effect eps c r) as [n t n' t' Hn Ht Ha Hc|o _ Hc]; rewrite Hc; [|exact Hall].
    apply nodes_all_insert; [exact Hall|]. destruct (Hheap _ _ Ht) as [Hnn _].
    apply (bnode_add n (set_status t Binding) n' t'); [apply (Hall _ _ Hn)|exact Hnn|simpl; discriminate|left; reflexivity|exact Ha].
Qed.

Definition op_ok (c : cache) (o : cache_op) : Prop := match o with OpBind _ => True | OpEv e => ev_ok c e end.
Fixpoint ops_ok (c : cache) (l : list cache_op) : Prop :=
  match l with [] => True | o :: l' => op_ok c o /\ ops_ok (fst (cache_step eps c o)) l' end.

(* B, round 3: histories that interleave AddBindTask calls (arbitrary, as before) with cache
   events -- node updates that recompute the ledger, pods turning terminating, pods deleted,
   pods (and their node) arriving -- keep every node's Idle above -eps after every prefix,
   provided the delivered cluster states are themselves within capacity (ev_ok) *)
Theorem bind_events_safe l : forall c k,
  cinv c -> ops_ok c l -> cinv (ops_state eps c (take k l)).
Proof.
  induction l as [|o l IH]; intros c k Hc Hok; [rewrite take_nil; exact Hc|].
  destruct k as [|k]; [exact Hc|]. destruct Hok as [Ho Hok]. simpl. apply IH; [|exact Hok].
  destruct o as [r|e]; simpl; [apply add_bind_task_keeps_cinv; exact Hc|apply cache_event_keeps; assumption].
Qed.

Corollary bind_events_idle l c k i n :
  cinv c -> ops_ok c l -> c_nodes (ops_state eps c (take k l)) !! i = Some n -> n_has_node n = true -> idle_ok eps n.
Proof. intros Hc Hok Hl Hh. destruct (bind_events_safe l c k Hc Hok) as [_ Hall]. apply (Hall _ _ Hl). exact Hh. Qed.


(* B in the property's words (audit W1): in every state reached by any history of AddBindTask
   calls and cache events, on every node that has its Node object, the summed requests of the
   tasks the node holds (none is Pipelined in the cache) stay below allocatable + eps *)
Theorem bind_events_sums l c k i n d :
  cinv c -> ops_ok c l -> c_nodes (ops_state eps c (take k l)) !! i = Some n -> n_has_node n = true -> guarded_dim d ->
  csum (used_amt d) (n_tasks n) < amt (n_alloc n) d + eps /\
  csum (used_amt d) (n_tasks n) = csum (req_amt d) (n_tasks n).
Proof.
  intros Hc Hok Hl Hh Hd. destruct (bind_events_safe l c k Hc Hok) as [_ Hall]. destruct (Hall _ _ Hl) as (Hi & Hcp & Hacct).
  split.
  - destruct (Hi Hh) as [_ Hidle]. specialize (Hidle d Hd). destruct Hacct as (_ & _ & Hsums). destruct (Hsums Hh d) as (X1 & _ & _). lia.
  - unfold csum. assert (Hall' : Forall (fun cp => t_status cp <> Pipelined) (map snd (map_to_list (n_tasks n)))).
    { apply Forall_forall. intros cp Hin. apply elem_of_list_fmap in Hin as ([j cp'] & -> & Hin). apply elem_of_map_to_list in Hin. apply (Hcp _ _ Hin). }
    induction Hall' as [|cp l' Hnp _ IH]; simpl; [reflexivity|]. rewrite IH. unfold used_amt, req_amt. rewrite bool_decide_eq_false_2 by exact Hnp. reflexivity.
Qed.

(* ---------- the agent scheduler's cache: binds interleaved with the same events (audit W6) ---------- *)

Lemma add_to_node_held ns t i n :
  t_node t = Some i -> ns !! i = Some n -> is_Some (n_tasks n !! t_id t) -> add_to_node eps ns t = <[i := n]> ns.
Proof.
  intros H1 H2 H3. unfold add_to_node. rewrite H1, H2. simpl. destruct (terminated (t_status t)); [reflexivity|].
  assert (Hrej : exists er, node_add eps n t = inr er).
  { unfold node_add. case_bool_decide; [eauto|]. rewrite bool_decide_eq_true_2 by exact H3. eauto. }
  destruct Hrej as [er ->]. reflexivity.
Qed.

Inductive agent_op := AOpBind (t : task) (nid : positive) | AOpEv (e : cache_ev).

Definition agent_step (tasks : positive -> option task) (ns : gmap positive node) (o : agent_op) : gmap positive node :=
  match o with
  | AOpBind t nid => fst (agent_add_bind_task eps ns t nid)
  | AOpEv e => agent_event eps tasks ns e
  end.

Definition agent_ev_ok (tasks : positive -> option task) (ns : gmap positive node) (e : cache_ev) : Prop :=
  match e with
  | EvNode nid alloc => ev_ok (mkCache ∅ ∅ ns) (EvNode nid alloc)
  | EvTerminating tid =>
    forall st i, tasks tid = Some st -> t_node st = Some i ->
      nonneg (t_req st) /\ terminated (t_status st) = false /\
      forall n, ns !! i = Some n -> exists cp, n_tasks n !! t_id st = Some cp /\ t_req cp = t_req st
  | EvDelete _ => True
  | EvPodAdd t => ev_ok (mkCache ∅ ∅ ns) (EvPodAdd t)
  | EvUpdateUnbound _ _ => True
  | EvBoundArrives tid =>
    forall st i, tasks tid = Some st -> find_binding ns tid = Some i ->
      nonneg (t_req st) /\ forall n, ns !! i = Some n -> is_Some (n_tasks n !! t_id st)
  | EvRemoveNode _ => True
  | EvUnbind _ _ => True
  end.

Definition agent_op_ok (tasks : positive -> option task) (ns : gmap positive node) (o : agent_op) : Prop :=
  match o with AOpBind t _ => nonneg (t_req t) | AOpEv e => agent_ev_ok tasks ns e end.

Lemma agent_step_keeps tasks ns o :
  nodes_all bnode_ok ns -> agent_op_ok tasks ns o -> nodes_all bnode_ok (agent_step tasks ns o).
Proof.
  intros Hall Hok. destruct o as [t nid|e]; simpl.
  - unfold agent_add_bind_task. destruct (ns !! nid) as [n|] eqn:E; [|exact Hall].
    destruct (n_has_node n); simpl negb; cbv iota; [|exact Hall].
    destruct (node_add eps n (set_status t Binding)) as [[n' t']|er] eqn:Ea; [|exact Hall]. simpl.
    apply nodes_all_insert; [exact Hall|].
    apply (bnode_add n (set_status t Binding) n' t'); [apply (Hall _ _ E)|exact Hok|simpl; discriminate|left; reflexivity|exact Ea].
  - destruct e as [nid alloc|tid|tid|t|tid deleting|tid|nid|tid nid]; simpl in *.
    + assert (Hc : cinv (mkCache ∅ ∅ ns)) by (split; [intros i t Hl; simpl in Hl; rewrite lookup_empty in Hl; discriminate|exact Hall]).
      destruct (cache_event_keeps _ (EvNode nid alloc) Hc Hok) as [_ H]. exact H.
    + destruct (tasks tid) as [st|] eqn:Et; [|exact Hall].
      destruct (t_node st) as [i|] eqn:En.
      * destruct (Hok st i eq_refl En) as (Hnn & Hterm & Hcp).
        apply readd_ok; [exact Hall|exact Hnn|reflexivity|reflexivity|simpl; discriminate|exact Hterm|].
        intros k n Hk Hl. rewrite En in Hk. inversion Hk; subst k. apply (Hcp n Hl).
      * unfold add_to_node, remove_from_node. simpl. rewrite En. exact Hall.
    + destruct (tasks tid) as [st|]; [apply remove_from_node_ok; exact Hall|exact Hall].
    + assert (Hc : cinv (mkCache ∅ ∅ ns)) by (split; [intros i u Hl; simpl in Hl; rewrite lookup_empty in Hl; discriminate|exact Hall]).
      destruct (cache_event_keeps _ (EvPodAdd t) Hc Hok) as [_ H]. exact H.
    + exact Hall.
    + destruct (tasks tid) as [st|] eqn:Et; [|exact Hall]. destruct (find_binding ns tid) as [i|] eqn:Ef; [|exact Hall].
      destruct (Hok st i eq_refl eq_refl) as [Hnn Hheld].
      destruct (ns !! i) as [n|] eqn:E.
      * rewrite (add_to_node_held ns _ i n); [|reflexivity|exact E|apply (Hheld n eq_refl)].
        apply nodes_all_insert; [exact Hall|apply (Hall _ _ E)].
      * apply add_to_node_ok; [exact Hall|exact Hnn|simpl; discriminate|].
        intros k n Hk Hl. simpl in Hk. inversion Hk; subst k. rewrite E in Hl. discriminate.
    + intros i m Hl. apply lookup_delete_Some in Hl as [_ Hl]. apply (Hall _ _ Hl).
    + destruct (ns !! nid) as [n|] eqn:E; [|exact Hall]. apply nodes_all_insert; [exact Hall|]. apply bnode_remove. apply (Hall _ _ E).
Qed.

Fixpoint agent_ops_ok (tasks : positive -> option task) (ns : gmap positive node) (l : list agent_op) : Prop :=
  match l with [] => True | o :: l' => agent_op_ok tasks ns o /\ agent_ops_ok tasks (agent_step tasks ns o) l' end.

Theorem agent_events_safe tasks l : forall ns k,
  nodes_all bnode_ok ns -> agent_ops_ok tasks ns l ->
  nodes_all bnode_ok (fold_left (agent_step tasks) (take k l) ns).
Proof.
  induction l as [|o l IH]; intros ns k Hall Hok; [rewrite take_nil; exact Hall|].
  destruct k as [|k]; [exact Hall|]. destruct Hok as [Ho Hok]. simpl. apply IH; [apply agent_step_keeps; assumption|exact Hok].
Qed.

(* ---- bind execution over a batch (BindModel.flow_batch) ---- *)

(* the resyncs of one phase, as operations of the agent history *)
Definition flow_ops (fails : list positive) (pending : list (positive * positive)) : list agent_op :=
  map (fun p => AOpEv (EvUnbind (fst p) (snd p))) (List.filter (fun p => bool_decide (fst p ∈ fails)) pending).

Lemma flow_phase_is_fold tasks fails pending : forall ns,
  fold_left (flow_unbind eps tasks fails) pending ns = fold_left (agent_step tasks) (flow_ops fails pending) ns.
Proof.
  induction pending as [|p l IH]; intros ns; [reflexivity|].
  simpl. unfold flow_ops. simpl. unfold flow_unbind at 2. destruct (bool_decide (p.1 ∈ fails)); simpl; apply IH.
Qed.

(* the batch is the fold of single-context steps: first the failed pre-binds, in batch order, then
   the bindings the binder reported as failed, in batch order -- and nothing else *)
Theorem flow_batch_is_fold tasks pf bf ns pending :
  fst (flow_batch eps tasks pf bf ns pending) =
  fold_left (agent_step tasks) (flow_ops pf pending ++ flow_ops bf (flow_pass pf pending)) ns.
Proof. unfold flow_batch. simpl. rewrite fold_left_app, !flow_phase_is_fold. reflexivity. Qed.

Lemma flow_ops_ok tasks fails pending : forall ns, agent_ops_ok tasks ns (flow_ops fails pending).
Proof.
  unfold flow_ops. induction (List.filter _ pending) as [|p l IH]; intros ns; simpl; [exact I|]. split; [exact I|apply IH].
Qed.

Lemma agent_ops_ok_app tasks l1 : forall ns l2,
  agent_ops_ok tasks ns l1 -> agent_ops_ok tasks (fold_left (agent_step tasks) l1 ns) l2 -> agent_ops_ok tasks ns (l1 ++ l2).
Proof.
  induction l1 as [|o l IH]; intros ns l2 H1 H2; [exact H2|]. destruct H1 as [Ho H1]. simpl. split; [exact Ho|apply IH; assumption].
Qed.

(* whatever the pre-binders and the binder answer, a batch keeps every node's ledger sound *)
Theorem flow_batch_safe tasks pf bf ns pending :
  nodes_all bnode_ok ns -> nodes_all bnode_ok (fst (flow_batch eps tasks pf bf ns pending)).
Proof.
  intros Hall. rewrite flow_batch_is_fold.
  set (l := flow_ops pf pending ++ flow_ops bf (flow_pass pf pending)).
  rewrite <- (firstn_all l). apply agent_events_safe; [exact Hall|].
  apply agent_ops_ok_app; apply flow_ops_ok.
Qed.

Definition on_ledger (ns : gmap positive node) (tid nid : positive) : option task :=
  match ns !! nid with Some n => n_tasks n !! tid | None => None end.

Lemma flow_unbind_keeps_other tasks fails ns p tid nid :
  tid ∉ fails -> on_ledger (flow_unbind eps tasks fails ns p) tid nid = on_ledger ns tid nid.
Proof.
  intros Hnf. unfold flow_unbind. case_bool_decide as Hin; [|reflexivity].
  assert (Hne : p.1 <> tid) by (intros Heq; rewrite Heq in Hin; contradiction).
  simpl. destruct (ns !! p.2) as [n|] eqn:E; [|reflexivity]. unfold on_ledger.
  destruct (base.decide (p.2 = nid)) as [Heq|Hn].
  - subst nid. rewrite lookup_insert, E, node_remove_tasks. rewrite lookup_delete_ne by exact Hne. reflexivity.
  - rewrite lookup_insert_ne by exact Hn. reflexivity.
Qed.

(* the mechanism: a context whose PreBind and whose Binding both succeeded -- whatever happened to the
   other contexts of its batch -- is on its node's ledger after the batch exactly as before *)
Theorem flow_batch_keeps_bound tasks pf bf ns pending tid nid :
  tid ∉ pf -> tid ∉ bf ->
  on_ledger (fst (flow_batch eps tasks pf bf ns pending)) tid nid = on_ledger ns tid nid.
Proof.
  intros H1 H2. unfold flow_batch. simpl.
  assert (Hph : forall fails l ns0, tid ∉ fails ->
    on_ledger (fold_left (flow_unbind eps tasks fails) l ns0) tid nid = on_ledger ns0 tid nid).
  { intros fails l. induction l as [|p l IH]; intros ns0 Hf; [reflexivity|]. simpl. rewrite IH by exact Hf.
    apply flow_unbind_keeps_other. exact Hf. }
  rewrite Hph by exact H2. apply Hph. exact H1.
Qed.

(* once off the ledger, no later resync of the batch brings a context back *)
Lemma flow_unbind_none tasks fails ns p tid nid :
  on_ledger ns tid nid = None -> on_ledger (flow_unbind eps tasks fails ns p) tid nid = None.
Proof.
  intros Hn. unfold flow_unbind. case_bool_decide as Hin; [|exact Hn].
  simpl. destruct (ns !! p.2) as [n|] eqn:E; [|exact Hn]. unfold on_ledger in *.
  destruct (base.decide (p.2 = nid)) as [Heq|Hne].
  - subst nid. rewrite E in Hn. rewrite lookup_insert, node_remove_tasks.
    destruct (base.decide (p.1 = tid)) as [->|Ht]; [apply lookup_delete|rewrite lookup_delete_ne by exact Ht; exact Hn].
  - rewrite lookup_insert_ne by exact Hne. exact Hn.
Qed.

Lemma flow_unbind_drops tasks fails ns tid nid :
  tid ∈ fails -> on_ledger (flow_unbind eps tasks fails ns (tid, nid)) tid nid = None.
Proof.
  intros Hin. unfold flow_unbind. rewrite bool_decide_eq_true_2 by exact Hin. simpl. unfold on_ledger.
  destruct (ns !! nid) as [n|] eqn:E; [|rewrite E; reflexivity].
  rewrite lookup_insert, node_remove_tasks. apply lookup_delete.
Qed.

Lemma flow_phase_none tasks fails l tid nid : forall ns,
  on_ledger ns tid nid = None -> on_ledger (fold_left (flow_unbind eps tasks fails) l ns) tid nid = None.
Proof. induction l as [|p l IH]; intros ns Hn; [exact Hn|]. simpl. apply IH, flow_unbind_none, Hn. Qed.

Lemma flow_phase_drops tasks fails l tid nid : forall ns,
  (tid, nid) ∈ l -> tid ∈ fails -> on_ledger (fold_left (flow_unbind eps tasks fails) l ns) tid nid = None.
Proof.
  induction l as [|p l IH]; intros ns Hin Hf; [inversion Hin|]. simpl.
  apply elem_of_cons in Hin as [<-|Hin]; [apply flow_phase_none, flow_unbind_drops, Hf|apply IH; assumption].
Qed.

Lemma flow_pass_elem fails pending (p : positive * positive) :
  p ∈ pending -> p.1 ∉ fails -> p ∈ flow_pass fails pending.
Proof.
  intros Hin Hf. unfold flow_pass. apply elem_of_list_In, filter_In. split; [apply elem_of_list_In; exact Hin|].
  rewrite bool_decide_eq_false_2 by exact Hf. reflexivity.
Qed.

(* the other direction: a context of the batch that a failure names -- its PreBind failed, or it was
   handed to the binder and its Binding is reported failed -- is off its node's ledger afterwards *)
Theorem flow_batch_drops_named tasks pf bf ns pending tid nid :
  (tid, nid) ∈ pending -> tid ∈ pf \/ tid ∈ bf ->
  on_ledger (fst (flow_batch eps tasks pf bf ns pending)) tid nid = None.
Proof.
  intros Hin Hf. unfold flow_batch. simpl.
  destruct (base.decide (tid ∈ pf)) as [Hp|Hp].
  - apply flow_phase_none, flow_phase_drops; assumption.
  - destruct Hf as [Hf|Hf]; [contradiction|].
    apply flow_phase_drops; [|exact Hf]. apply (flow_pass_elem pf pending (tid, nid) Hin Hp).
Qed.

(* and a context that no failure names is among the contexts reported bound *)
Lemma flow_batch_reports_bound tasks pf bf ns pending tid nid :
  (tid, nid) ∈ pending -> tid ∉ pf -> tid ∉ bf -> (tid, nid) ∈ snd (flow_batch eps tasks pf bf ns pending).
Proof.
  intros Hin H1 H2. unfold flow_batch. simpl.
  apply (flow_pass_elem bf _ (tid, nid)); [|exact H2]. apply (flow_pass_elem pf _ (tid, nid)); assumption.
Qed.

(* ---- law 117: per batch, the fault script and per context (task, node, on the ledger before,
   after): after = before, unless a failure names the task ---- *)
Definition law_batch (x : list positive * list positive * list (positive * positive * bool * bool)) : bool :=
  let '(pf, bf, cs) := x in
  forallb (fun c => let '(t, _, before, after) := c in
             Bool.eqb after (before && negb (bool_decide (t ∈ pf)) && negb (bool_decide (t ∈ bf)))) cs.

Definition held_b (ns : gmap positive node) (p : positive * positive) : bool :=
  match on_ledger ns p.1 p.2 with Some _ => true | None => false end.

(* the law holds of the model's batch: what law 117 asks of the real cache is what flow_batch does *)
Theorem law_batch_sound tasks pf bf ns pending :
  law_batch (pf, bf, map (fun p => (p.1, p.2, held_b ns p, held_b (fst (flow_batch eps tasks pf bf ns pending)) p)) pending) = true.
Proof.
  unfold law_batch. apply forallb_forall. intros c Hc. apply in_map_iff in Hc as ([t n] & <- & Hin).
  apply elem_of_list_In in Hin. unfold held_b. cbn [fst snd].
  destruct (base.decide (t ∈ pf)) as [Hp|Hp].
  - rewrite (flow_batch_drops_named tasks pf bf ns pending t n Hin (or_introl Hp)).
    rewrite (bool_decide_eq_true_2 _ Hp). cbn. rewrite andb_false_r. reflexivity.
  - destruct (base.decide (t ∈ bf)) as [Hb|Hb].
    + rewrite (flow_batch_drops_named tasks pf bf ns pending t n Hin (or_intror Hb)).
      rewrite (bool_decide_eq_true_2 _ Hb). cbn. rewrite andb_false_r. reflexivity.
    + rewrite (flow_batch_keeps_bound tasks pf bf ns pending t n Hp Hb).
      rewrite (bool_decide_eq_false_2 _ Hp), (bool_decide_eq_false_2 _ Hb). cbn. rewrite !andb_true_r. apply eqb_reflx.
Qed.

End Events.
