(* Property C02, bind admission: no sequence of AddBindTask calls -- whatever jobs, tasks and
   nodes they name, whatever the tasks request -- overcommits a node, and a refused call leaves
   the cache as it was. *)
From stdpp Require Import gmap.
From Coq Require Import ZArith Lia.
From V Require Import Base.Res Base.ResLemmas Sched.LedgerModel Sched.StmtModel Sched.GangModel Sched.LedgerInvP
                      Sched.NodeCapLemmas C02.BindModel.
Open Scope Z_scope.

Section Bind.
Variable eps : Z.
Hypothesis eps_pos : 0 < eps.

(* ---------- what one call does to the nodes ---------- *)

Inductive nodes_effect (c : cache) (r : bind_req) (c' : cache) : bind_res -> Prop :=
| ne_accept n t n' t' :
    c_nodes c !! b_node r = Some n -> c_heap c !! b_task r = Some t ->
    node_add eps n (set_status t Binding) = inl (n', t') ->
    c_nodes c' = <[b_node r := n']> (c_nodes c) ->
    nodes_effect c r c' BOk
| ne_reject o : o <> BOk -> c_nodes c' = c_nodes c -> nodes_effect c r c' o.

Lemma add_bind_task_effect c r :
  nodes_effect c r (fst (add_bind_task eps c r)) (snd (add_bind_task eps c r)).
Proof.
  unfold add_bind_task.
  destruct (c_jobs c !! b_job r) as [j|]; [|apply ne_reject; [discriminate|reflexivity]].
  destruct (negb _); [apply ne_reject; [discriminate|reflexivity]|].
  destruct (c_heap c !! b_task r) as [t|] eqn:Et; [|apply ne_reject; [discriminate|reflexivity]].
  destruct (c_nodes c !! b_node r) as [n|] eqn:En; [|apply ne_reject; [discriminate|reflexivity]].
  unfold job_update. cbv beta zeta iota.
  destruct (b_decision_fails r); [apply ne_reject; [discriminate|reflexivity]|].
  destruct (node_add eps n (set_status t Binding)) as [[n' t2]|e] eqn:Ea.
  - simpl. eapply ne_accept; eauto.
  - apply ne_reject; [discriminate|reflexivity].
Qed.

(* an accepted call passed the Idle re-check of NodeInfo.AddTask (on a node that has a Node) *)
Lemma node_add_binding_checked n t n' t' :
  t_status t = Binding -> n_has_node n = true -> node_add eps n t = inl (n', t') ->
  less_equal_names eps (t_req t) (n_idle n) DZero = true.
Proof.
  intros Hst Hh. unfold node_add. repeat case_bool_decide; try discriminate.
  rewrite Hh, Hst. simpl. destruct (less_equal_names _ _ _ _); [reflexivity|discriminate].
Qed.

Theorem accepted_bind_was_checked c r :
  snd (add_bind_task eps c r) = BOk ->
  exists n t, c_nodes c !! b_node r = Some n /\ c_heap c !! b_task r = Some t /\
    (n_has_node n = true -> less_equal_names eps (t_req t) (n_idle n) DZero = true).
Proof.
  intros Hok. destruct (add_bind_task_effect c r) as [n t n' t' Hn Ht Ha _|o Ho _]; [|congruence].
  exists n, t. repeat split; try assumption. intros Hh.
  apply (node_add_binding_checked n (set_status t Binding) n' t' eq_refl Hh Ha).
Qed.

(* ---------- safety over sequences ---------- *)

Definition nodes_all (P : node -> Prop) (ns : gmap positive node) : Prop := forall i n, ns !! i = Some n -> P n.

Lemma nodes_all_insert P ns i n : nodes_all P ns -> P n -> nodes_all P (<[i := n]> ns).
Proof. intros H Hn k m Hl. apply lookup_insert_Some in Hl as [[_ <-]|[_ Hl]]; [exact Hn|apply (H k m Hl)]. Qed.

(* one step keeps any per-node property that a passing Binding AddTask keeps *)
Lemma add_bind_task_keeps (P : node -> Prop) :
  (forall n t n' t', P n -> t_status t = Binding -> node_add eps n t = inl (n', t') -> P n') ->
  forall c r, nodes_all P (c_nodes c) -> nodes_all P (c_nodes (fst (add_bind_task eps c r))).
Proof.
  intros HP c r Hall. destruct (add_bind_task_effect c r) as [n t n' t' Hn Ht Ha Hc|o _ Hc]; rewrite Hc; [|exact Hall].
  apply nodes_all_insert; [exact Hall|]. apply (HP n (set_status t Binding) n' t'); [apply (Hall _ _ Hn)|reflexivity|exact Ha].
Qed.

Lemma bind_state_keeps (P : node -> Prop) :
  (forall n t n' t', P n -> t_status t = Binding -> node_add eps n t = inl (n', t') -> P n') ->
  forall l c, nodes_all P (c_nodes c) -> nodes_all P (c_nodes (bind_state eps c l)).
Proof.
  intros HP l. induction l as [|r l IH]; intros c Hall; [exact Hall|]. simpl. apply IH. apply add_bind_task_keeps; assumption.
Qed.

(* B (main): every interleaving of concurrent AddBindTask callers is a sequence of requests (the
   function holds sc.Mutex from its first to its last statement).  For every such sequence,
   computed from views however stale -- i.e. for arbitrary requests -- and every prefix of it:
   no node's Idle goes below -eps ... *)
Theorem bind_admission_safe c l k :
  nodes_all (idle_ok eps) (c_nodes c) ->
  nodes_all (idle_ok eps) (c_nodes (bind_state eps c (take k l))).
Proof.
  apply bind_state_keeps. intros n t n' t' Hn Hst Ha. eapply node_add_binding_keeps_idle; eauto.
Qed.

(* ... and the nodes stay within capacity in the full sense (future idle too) when nothing is
   pipelined beyond what is releasing, as on every node of the scheduler cache *)
Definition cache_node_ok (n : node) : Prop := node_within_capacity eps n /\ pip_le_rel n.

Theorem bind_admission_safe_full c l k :
  nodes_all cache_node_ok (c_nodes c) ->
  nodes_all cache_node_ok (c_nodes (bind_state eps c (take k l))).
Proof.
  apply bind_state_keeps. intros n t n' t' [Hn Hp] Hst Ha. eapply node_add_binding_keeps_capacity; eauto.
Qed.

(* the agent scheduler's AddBindTask: the same theorem; nothing in it mentions BindGeneration,
   i.e. safety does not rest on the conflict-aware binder's generation check *)
Theorem agent_bind_admission_safe ns l k :
  nodes_all (idle_ok eps) ns -> nodes_all (idle_ok eps) (agent_state eps ns (take k l)).
Proof.
  generalize (take k l). clear l k. intros l. revert ns. induction l as [|[t nid] l IH]; intros ns Hall; [exact Hall|].
  simpl. apply IH. unfold agent_add_bind_task. simpl.
  destruct (ns !! nid) as [n|] eqn:En; [|exact Hall].
  destruct (node_add eps n (set_status t Binding)) as [[n' t']|e] eqn:Ea; [|exact Hall].
  simpl. apply nodes_all_insert; [exact Hall|].
  apply (node_add_binding_keeps_idle eps eps_pos n (set_status t Binding) n' t'); [apply (Hall _ _ En)|reflexivity|exact Ea].
Qed.

End Bind.

(* ---------- a refused call changes nothing ---------- *)

Section Refused.
Variable eps : Z.

Lemma set_status_roundtrip t s : set_status (set_status t s) (t_status t) = t.
Proof. destruct t; reflexivity. Qed.

Lemma amt_add_sub x r d : amt (sub (add x r) r) d = amt x d.
Proof.
  destruct (add_sub_pointwise x r) as (Hc & Hm & Hs). destruct d; simpl; [exact Hc|exact Hm|apply Hs].
Qed.

Lemma skey_inj s s' : skey s = skey s' -> s = s'.
Proof. destruct s, s'; simpl; intros H; try reflexivity; discriminate. Qed.

Lemma idx_set_add ix s t s' :
  idx_set (idx_add ix s t) s' = if bool_decide (s' = s) then {[t]} ∪ idx_set ix s else idx_set ix s'.
Proof.
  unfold idx_set, idx_add. case_bool_decide as E.
  - subst. rewrite lookup_insert. reflexivity.
  - rewrite lookup_insert_ne; [reflexivity|]. intros H. apply E. symmetry. apply skey_inj. exact H.
Qed.

Lemma idx_set_del ix s t s' :
  idx_set (idx_del ix s t) s' = if bool_decide (s' = s) then idx_set ix s ∖ {[t]} else idx_set ix s'.
Proof.
  unfold idx_set, idx_del. destruct (ix !! skey s) as [ts|] eqn:Es.
  - case_bool_decide as Hem; case_bool_decide as E.
    + subst. rewrite lookup_delete. simpl. rewrite Hem. reflexivity.
    + rewrite lookup_delete_ne; [reflexivity|]. intros H. apply E. symmetry. apply skey_inj. exact H.
    + subst. rewrite lookup_insert. reflexivity.
    + rewrite lookup_insert_ne; [reflexivity|]. intros H. apply E. symmetry. apply skey_inj. exact H.
  - case_bool_decide as E; [|reflexivity]. subst. rewrite ?Es. simpl.
    apply set_eq. intros x. rewrite elem_of_difference, elem_of_empty. tauto.
Qed.

(* moving a task to Binding and back files it where it was *)
Lemma idx_roundtrip ix o t s' :
  t ∈ idx_set ix o -> (forall s, s <> o -> t ∉ idx_set ix s) ->
  idx_set (idx_add (idx_del (idx_add (idx_del ix o t) Binding t) Binding t) o t) s' = idx_set ix s'.
Proof.
  intros Hin Hout. repeat (rewrite idx_set_add || rewrite idx_set_del).
  pose proof (Hout Binding) as HB.
  repeat case_bool_decide; subst; try congruence. all: try (clear Hout; set_solver).
  all: rewrite <- !(union_difference_singleton_L t _ Hin); reflexivity.
Qed.

(* the job after UpdateTaskStatus(task, Binding); UpdateTaskStatus(task, original) *)
Definition job_roundtrip (h : gmap positive task) (j : job) (t : task) : job :=
  let '(j1, t1) := job_update h j t Binding in
  fst (job_update (<[t_id t := t1]> h) j1 t1 (t_status t)).

Theorem job_roundtrip_same h j t :
  h !! t_id t = Some t -> t_id t ∈ j_tasks j ->
  let j' := job_roundtrip h j t in
  j_id j' = j_id j /\ j_queue j' = j_queue j /\ j_min j' = j_min j /\ j_role_min j' = j_role_min j /\
  j_tasks j' = j_tasks j /\
  (sc (j_total j) <> None -> forall d, amt (j_total j') d = amt (j_total j) d) /\
  ((allocated_status (t_status t) = true -> sc (j_alloc j) <> None) -> forall d, amt (j_alloc j') d = amt (j_alloc j) d) /\
  (t_id t ∈ idx_set (j_index j) (t_status t) -> (forall s, s <> t_status t -> t_id t ∉ idx_set (j_index j) s) ->
   forall s, idx_set (j_index j') s = idx_set (j_index j) s).
Proof.
  intros Hh Hin. unfold job_roundtrip, job_update. cbv beta zeta iota.
  change (t_id (set_status t Binding)) with (t_id t).
  rewrite (bool_decide_eq_true_2 _ Hin), Hh.
  set (j1 := job_add (job_del j t) (set_status t Binding)).
  assert (Hin1 : t_id t ∈ j_tasks j1) by (simpl; set_solver).
  rewrite (bool_decide_eq_true_2 _ Hin1), lookup_insert. simpl fst.
  repeat split; try reflexivity.
  - simpl. apply set_eq. intros x. rewrite !elem_of_union, !elem_of_difference, !elem_of_union, !elem_of_difference, !elem_of_singleton.
    split; [intros [->|[[->|[H _]] _]]; try assumption; exact Hin|].
    intros Hx. destruct (Pos.eq_dec x (t_id t)); [left; assumption|right; split; [right; split; assumption|assumption]].
  - intros Hs d. simpl. rewrite amt_add, amt_add_sub, amt_sub_exact by exact Hs. lia.
  - intros Hs d. simpl. destruct (allocated_status (t_status t)) eqn:Ea.
    + rewrite amt_add, amt_add_sub, amt_sub_exact by (apply Hs; reflexivity). lia.
    + apply amt_add_sub.
  - intros H1 H2 s. simpl. apply idx_roundtrip; assumption.
Qed.

Definition heap_keyed (h : gmap positive task) : Prop := forall i t, h !! i = Some t -> t_id t = i.

(* B (second half): a refused AddBindTask leaves the nodes and every task object exactly as they
   were (statuses included), touches no other job, and leaves the task's own job with the same
   task set, index and sums (job_roundtrip_same) *)
Theorem rejected_bind_unchanged c r :
  heap_keyed (c_heap c) -> snd (add_bind_task eps c r) <> BOk ->
  let c' := fst (add_bind_task eps c r) in
  c_nodes c' = c_nodes c /\ c_heap c' = c_heap c /\
  (c_jobs c' = c_jobs c \/
   exists j t, c_jobs c !! b_job r = Some j /\ c_heap c !! b_task r = Some t /\ b_task r ∈ j_tasks j /\
               c_jobs c' = <[b_job r := job_roundtrip (c_heap c) j t]> (c_jobs c)).
Proof.
  intros Hk. unfold add_bind_task.
  destruct (c_jobs c !! b_job r) as [j|] eqn:Ej; [|intros _; simpl; auto].
  destruct (bool_decide (b_task r ∈ j_tasks j)) eqn:Ein; simpl negb; cbv iota; [|intros _; simpl; auto].
  apply bool_decide_eq_true in Ein.
  destruct (c_heap c !! b_task r) as [t|] eqn:Et; [|intros _; simpl; auto].
  destruct (c_nodes c !! b_node r) as [n|] eqn:En; [|intros _; simpl; auto].
  pose proof (Hk _ _ Et) as Hid.
  assert (Hheap : <[b_task r := set_status (set_status t Binding) (t_status t)]> (<[b_task r := set_status t Binding]> (c_heap c)) = c_heap c).
  { rewrite insert_insert, set_status_roundtrip. apply insert_id. exact Et. }
  unfold job_update. cbv beta zeta iota.
  destruct (b_decision_fails r).
  - intros _. simpl. split; [reflexivity|]. split; [exact Hheap|].
    right. exists j, t. repeat split; try assumption.
    unfold job_roundtrip, job_update. cbv beta zeta iota. simpl. rewrite ?Hid. reflexivity.
  - destruct (node_add eps n (set_status t Binding)) as [[n' t2]|e] eqn:Ea; [simpl; congruence|].
    intros _. simpl. split; [reflexivity|]. split; [exact Hheap|].
    right. exists j, t. repeat split; try assumption.
    unfold job_roundtrip, job_update. cbv beta zeta iota. simpl. rewrite ?Hid. reflexivity.
Qed.

End Refused.
