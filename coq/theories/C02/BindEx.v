(* Witnesses for the bind admission theorems (audit W7, W10). *)
From stdpp Require Import gmap.
From Coq Require Import ZArith Lia List.
From V Require Import Base.Res Base.ResLemmas Sched.LedgerModel Sched.StmtModel Sched.LedgerCodec Sched.GangModel
                      Sched.CycleModel Sched.LedgerInvP Sched.NodeCapLemmas Sched.NodeCapLemmasCycle Sched.NodeCapCheck
                      Sched.NodeSumLemmas Sched.NodeSumCheck C02.BindModel C02.BindLemmas.
Import ListNotations.
Open Scope Z_scope.

(* one node of 3000 milli-cpu holding running t1 (2000); t2 (2000) and t3 (500) pending *)
Definition bx_nodes : list node_spec := [mkNodeSpec 1 true 3000 1024 10 0].
Definition bx_jobs : list job_spec := [mkJobSpec 1 1 0 []].
Definition bx_tasks : list task_spec :=
  [mkTaskSpec 1 1 1 0 2000 256 0 Running (Some 1%positive) true; mkTaskSpec 2 1 1 0 2000 256 0 Pending None true;
   mkTaskSpec 3 1 1 0 500 256 0 Pending None true].
Definition bx_cache : cache := let s := build 2 bx_nodes bx_jobs bx_tasks in mkCache (heap s) (jobs s) (nodes s).
Definition bx_alloc : res := mk_alloc 3000 1024 10 0.
Definition bx_node (c : cache) : node := default (placeholder 1) (c_nodes c !! 1%positive).

Definition bnode_ok_b (eps : Z) (n : node) : bool :=
  (negb (n_has_node n) || nwc_b eps n) &&
  bool_decide (map_Forall (fun _ c => nonneg_b (t_req c) = true /\ t_status c <> Pipelined) (n_tasks n)) && node_acct_b n.

Lemma bnode_ok_b_sound eps n : 0 < eps -> bnode_ok_b eps n = true -> bnode_ok eps n.
Proof.
  intros He. unfold bnode_ok_b. rewrite !andb_true_iff, bool_decide_eq_true. intros [[Hi Hc] Ha]. split; [|split].
  - intros Hh. rewrite Hh in Hi. simpl in Hi. apply (nwc_b_sound eps n He) in Hi. apply nwc_split in Hi. apply Hi.
  - intros j c Hl. destruct (Hc j c Hl) as [H1 H2]. split; [apply nonneg_b_sound; exact H1|exact H2].
  - apply node_acct_b_sound. exact Ha.
Qed.

Definition cinv_b (eps : Z) (c : cache) : bool :=
  bool_decide (map_Forall (fun _ t => nonneg_b (t_req t) = true /\ t_status t <> Pipelined) (c_heap c)) &&
  bool_decide (map_Forall (fun _ n => bnode_ok_b eps n = true) (c_nodes c)).

Lemma cinv_b_sound eps c : 0 < eps -> cinv_b eps c = true -> cinv eps c.
Proof.
  intros He. unfold cinv_b. rewrite andb_true_iff, !bool_decide_eq_true. intros [Hh Hn]. split.
  - intros i t Hl. destruct (Hh i t Hl) as [H1 H2]. split; [apply nonneg_b_sound; exact H1|exact H2].
  - intros i n Hl. apply bnode_ok_b_sound; [exact He|apply (Hn i n Hl)].
Qed.

(* non-vacuity of bind_events_safe: an accepted bind, then a node update with the SAME allocatable:
   the side condition of the event is "the allocatable did not shrink", nothing about Idle *)
Definition bx_ops : list cache_op := [OpBind (mkBind 1 3 1 false); OpEv (EvNode 1 bx_alloc); OpBind (mkBind 1 2 1 false)]%positive.

Example bx_hypotheses : cinv 2 bx_cache /\ ops_ok 2 bx_cache bx_ops.
Proof.
  split; [apply cinv_b_sound; [lia|vm_compute; reflexivity]|].
  simpl. split; [exact I|]. split; [|split; [exact I|exact I]].
  split; [discriminate|].
  destruct (c_nodes (fst (add_bind_task 2 bx_cache (mkBind 1 3 1 false))) !! 1%positive) as [n|] eqn:E; [|vm_compute in E; discriminate].
  left.
  assert (Hn : n_has_node n = true /\ n_alloc n = bx_alloc).
  { assert (H : match c_nodes (fst (add_bind_task 2 bx_cache (mkBind 1 3 1 false))) !! 1%positive with
                | Some n => bool_decide (n_has_node n = true) && bool_decide (n_alloc n = bx_alloc) | None => false end = true) by (vm_compute; reflexivity).
    rewrite E in H. apply andb_true_iff in H as [H1 H2]. apply bool_decide_eq_true in H1, H2. split; assumption. }
  destruct Hn as [Hh Ha]. split; [exact Hh|]. intros d. rewrite Ha. lia.
Qed.

Example bx_results :
  ops_results 2 bx_cache bx_ops = [Some BOk; None; Some (BRefused ErrInsufficient)].
Proof. vm_compute. reflexivity. Qed.

(* W7 (pre-fix witness): before fix 8dab8c3 "the bind admission rejects the placement instead of
   overcommitting" was FALSE for a target that has no Node object.  The node is removed (its running
   pod stays on a placeholder), a bind from a view that predates the removal was ADMITTED without any
   check, the node comes back with the same allocatable: it then held 4000 against 3000.
   Reproduced on the real cache before the fix (harness family bind/cache/placeholder). *)
Definition bx_bad_ops : list cache_op := [OpEv (EvRemoveNode 1); OpBind (mkBind 1 2 1 false); OpEv (EvNode 1 bx_alloc)]%positive.

Theorem bind_to_placeholder_unchecked_refuted :
  cinv_b 2 bx_cache = true /\
  ops_results_prefix 2 bx_cache bx_bad_ops = [None; Some BOk; None] /\
  n_has_node (bx_node (ops_state_prefix 2 bx_cache bx_bad_ops)) = true /\
  n_alloc (bx_node (ops_state_prefix 2 bx_cache bx_bad_ops)) = bx_alloc /\
  csum (used_amt DCpu) (n_tasks (bx_node (ops_state_prefix 2 bx_cache bx_bad_ops))) = 64000 /\ amt bx_alloc DCpu = 48000 /\
  ~ idle_ok 2 (bx_node (ops_state_prefix 2 bx_cache bx_bad_ops)).
Proof.
  split; [vm_compute; reflexivity|]. split; [vm_compute; reflexivity|]. split; [vm_compute; reflexivity|].
  split; [vm_compute; reflexivity|]. split; [vm_compute; reflexivity|]. split; [vm_compute; reflexivity|].
  intros [_ H]. specialize (H DCpu). assert (E : amt (n_idle (bx_node (ops_state_prefix 2 bx_cache bx_bad_ops))) DCpu = -16000) by (vm_compute; reflexivity).
  rewrite E in H. assert (guarded_dim DCpu) by discriminate. specialize (H H0). lia.
Qed.

(* the same history with the repaired AddBindTask: the call is refused, and the history satisfies the
   hypotheses of bind_events_safe (the re-added node covers the pod parked on the placeholder) *)
Example bx_bad_ops_now_refused :
  ops_results 2 bx_cache bx_bad_ops = [None; Some BNotReady; None] /\
  nwc_b 2 (bx_node (ops_state 2 bx_cache bx_bad_ops)) = true /\
  csum (used_amt DCpu) (n_tasks (bx_node (ops_state 2 bx_cache bx_bad_ops))) = 32000.
Proof. vm_compute. repeat split; reflexivity. Qed.

(* Second audit N2: the agent scheduler cache forgets what a node held across RemoveNode + re-add.
   agent_events_safe holds of this history -- it speaks about the copies the CACHE holds -- but what is
   placed on the node is more: t1 (running, never deleted) and t2.  Reproduced on the real agent cache
   (harness family bind/agent/readd, known finding C02-agent-remove-node-forgets-held-tasks). *)
Definition ag_tasks (i : positive) : option task := c_heap bx_cache !! i.
Definition ag_t2 : task := default (mkTask 2 1 1 1 0 empty_res empty_res false false Pending None) (ag_tasks 2).
Definition ag_ops : list agent_op := [AOpEv (EvRemoveNode 1); AOpEv (EvNode 1 bx_alloc); AOpBind ag_t2 1]%positive.
Definition ag_final : gmap positive node := fold_left (agent_step 2 ag_tasks) ag_ops (c_nodes bx_cache).

Theorem agent_remove_readd_forgets_refuted :
  (* the node held the running t1 (2000m of 3000m) *)
  map fst (map_to_list (n_tasks (bx_node bx_cache))) = [1%positive] /\
  (* after remove + re-add + bind of t2 (2000m): accepted, the cache's node holds t2 only ... *)
  match ag_final !! 1%positive with
  | Some n => (map fst (map_to_list (n_tasks n)), csum (used_amt DCpu) (n_tasks n), nwc_b 2 n)
  | None => ([], 0, false)
  end = ([2%positive], 32000, true) /\
  (* ... although t1 was never deleted: 2000m + 2000m are placed on 3000m *)
  amt (t_req ag_t2) DCpu + csum (used_amt DCpu) (n_tasks (bx_node bx_cache)) = 64000 /\ amt bx_alloc DCpu = 48000.
Proof. vm_compute. repeat split; reflexivity. Qed.

(* ---- bind execution over a batch: a failure of ONE Binding must not be applied batch-wide
   (seeded mutant C02-r8-2: `bindOK := len(errMsg) == 0` for every context of the batch) ---- *)
Definition fb_specs : list task_spec :=
  [mkTaskSpec 1 1 1 0 1000 256 0 Pending None true; mkTaskSpec 2 1 1 0 1500 256 0 Pending None true;
   mkTaskSpec 3 1 1 0 2000 256 0 Pending None true].
Definition fb_cache : cache := let s := build 2 bx_nodes bx_jobs fb_specs in mkCache (heap s) (jobs s) (nodes s).
Definition fb_tasks (i : positive) : option task := c_heap fb_cache !! i.
Definition fb_t (i : positive) : task := default (mkTask i 1 1 1 0 empty_res empty_res false false Pending None) (fb_tasks i).
(* t1 (1000m) and t2 (1500m) admitted to n1 (3000m): the batch *)
Definition fb_admitted : gmap positive node :=
  fold_left (agent_step 2 fb_tasks) [AOpBind (fb_t 1) 1; AOpBind (fb_t 2) 1]%positive (c_nodes fb_cache).
Definition fb_pending : list (positive * positive) := [(1, 1); (2, 1)]%positive.
(* the batch-wide reading: any reported failure sends EVERY handed context through the failure path *)
Definition flow_batch_wide (eps : Z) (tasks : positive -> option task) (pf bf : list positive)
    (ns : gmap positive node) (pending : list (positive * positive)) : gmap positive node :=
  let handed := flow_pass pf pending in
  let all := match bf with [] => [] | _ => map fst handed end in
  fold_left (flow_unbind eps tasks all) handed (fold_left (flow_unbind eps tasks pf) pending ns).
Definition cpu_held (ns : gmap positive node) : Z :=
  match ns !! 1%positive with Some n => csum (used_amt DCpu) (n_tasks n) | None => 0 end.

Theorem batch_wide_failure_refuted :
  (* the Binding of t1 fails, t2 IS bound by the API server *)
  snd (flow_batch 2 fb_tasks [] [1%positive] fb_admitted fb_pending) = [(2, 1)]%positive /\
  (* per task: t2 stays charged and t3 (2000m) is refused *)
  (let ns := fst (flow_batch 2 fb_tasks [] [1%positive] fb_admitted fb_pending) in
   cpu_held ns = 1500 * 16 /\ snd (agent_add_bind_task 2 ns (fb_t 3) 1%positive) = BRefused ErrInsufficient) /\
  (* batch-wide: the bound t2 leaves the ledger, t3 is admitted: 1500m + 2000m placed on 3000m *)
  (let ns := flow_batch_wide 2 fb_tasks [] [1%positive] fb_admitted fb_pending in
   cpu_held ns = 0 /\ snd (agent_add_bind_task 2 ns (fb_t 3) 1%positive) = BOk /\
   cpu_held (fst (agent_add_bind_task 2 ns (fb_t 3) 1%positive)) = 2000 * 16).
Proof. vm_compute. repeat split; reflexivity. Qed.
