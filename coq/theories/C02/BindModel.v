(* Model of the bind admission step of the scheduler cache:
     pkg/scheduler/cache/cache.go 1344-1380  SchedulerCache.AddBindTask
     pkg/scheduler/cache/cache.go  919-933   findJobAndTask
     pkg/scheduler/api/node_info.go 444-487  NodeInfo.AddTask (the Binding re-check, 465-472)
   and, with the job side dropped, of pkg/agentscheduler/cache/cache.go 844-881 (same shape: find
   the node, status := Binding, node.AddTask, revert the status on refusal).

   The cache is its job map, the task objects the jobs hold (one heap, by task id) and its node
   map; job_update / node_add are the shared ledger model.  A request names a job, a task and a
   node: they come from the BindContext a worker computed on its own (possibly stale) snapshot,
   so nothing is assumed about them.  SetPodResourceDecision can fail (json.Marshal of the NUMA
   decision); that is an arbitrary boolean of the request.  sc.Mutex makes the whole function
   one atomic step: a concurrent execution is a sequence of requests ([bind_state]). *)
From stdpp Require Import gmap.
From Coq Require Import ZArith.
From V Require Import Base.Res Sched.LedgerModel.
Open Scope Z_scope.

Record cache := mkCache {
  c_heap : gmap positive task;
  c_jobs : gmap positive job;
  c_nodes : gmap positive node;
}.

Record bind_req := mkBind { b_job : positive; b_task : positive; b_node : positive; b_decision_fails : bool }.

Inductive bind_res := BOk | BNoJob | BNoTask | BNoNode | BNotReady | BDecision | BRefused (e : add_err).

Section WithEps.
Variable eps : Z.

Definition add_bind_task (c : cache) (r : bind_req) : cache * bind_res :=
  match c_jobs c !! b_job r with
  | None => (c, BNoJob)
  | Some j =>
    if negb (bool_decide (b_task r ∈ j_tasks j)) then (c, BNoTask) else
    match c_heap c !! b_task r with
    | None => (c, BNoTask)          (* unreachable when the jobs hold what the heap files *)
    | Some t =>
      match c_nodes c !! b_node r with
      | None => (c, BNoNode)
      | Some n =>
        (* fix 8dab8c3: a NodeInfo without Node object (placeholder) is refused before anything is touched *)
        if negb (n_has_node n) then (c, BNotReady) else
        let orig := t_status t in
        let '(j1, t1) := job_update (c_heap c) j t Binding in
        let h1 := <[b_task r := t1]> (c_heap c) in
        let revert (e : bind_res) :=
          let '(j2, t3) := job_update h1 j1 t1 orig in
          (mkCache (<[b_task r := t3]> h1) (<[b_job r := j2]> (c_jobs c)) (c_nodes c), e) in
        if b_decision_fails r then revert BDecision else
        match node_add eps n t1 with
        | inl (n', t2) =>
          (mkCache (<[b_task r := t2]> h1) (<[b_job r := j1]> (c_jobs c)) (<[b_node r := n']> (c_nodes c)), BOk)
        | inr e => revert (BRefused e)
        end
      end
    end
  end.

(* AddBindTask before fix 8dab8c3: any entry of sc.Nodes was accepted as a target; a placeholder
   (no Node object) then took the task without ledger and without re-check (see
   bind_to_placeholder_unchecked_refuted) *)
Definition add_bind_task_prefix (c : cache) (r : bind_req) : cache * bind_res :=
  match c_jobs c !! b_job r with
  | None => (c, BNoJob)
  | Some j =>
    if negb (bool_decide (b_task r ∈ j_tasks j)) then (c, BNoTask) else
    match c_heap c !! b_task r with
    | None => (c, BNoTask)          (* unreachable when the jobs hold what the heap files *)
    | Some t =>
      match c_nodes c !! b_node r with
      | None => (c, BNoNode)
      | Some n =>
        let orig := t_status t in
        let '(j1, t1) := job_update (c_heap c) j t Binding in
        let h1 := <[b_task r := t1]> (c_heap c) in
        let revert (e : bind_res) :=
          let '(j2, t3) := job_update h1 j1 t1 orig in
          (mkCache (<[b_task r := t3]> h1) (<[b_job r := j2]> (c_jobs c)) (c_nodes c), e) in
        if b_decision_fails r then revert BDecision else
        match node_add eps n t1 with
        | inl (n', t2) =>
          (mkCache (<[b_task r := t2]> h1) (<[b_job r := j1]> (c_jobs c)) (<[b_node r := n']> (c_nodes c)), BOk)
        | inr e => revert (BRefused e)
        end
      end
    end
  end.

(* the agent scheduler's variant: no job index; the caller's task object itself carries the
   status (UpdateTaskStatus only assigns task.Status), so a refusal leaves nothing behind *)
Definition agent_add_bind_task (ns : gmap positive node) (t : task) (nid : positive) : gmap positive node * bind_res :=
  match ns !! nid with
  | None => (ns, BNoNode)
  | Some n =>
    if negb (n_has_node n) then (ns, BNotReady) else   (* fix 8dab8c3 *)
    match node_add eps n (set_status t Binding) with
    | inl (n', _) => (<[nid := n']> ns, BOk)
    | inr e => (ns, BRefused e)
    end
  end.

(* ---------- cache events between the binds (round 3) ----------
   pkg/scheduler/cache/event_handlers.go: AddOrUpdateNode 572-595 -> NodeInfo.SetNode / setNode
   (api/node_info.go 342-424: the ledger is RECOMPUTED from the held tasks), UpdatePod 357-372
   (deletePod + addPod: a pod that got a deletionTimestamp is re-filed as Releasing), DeletePod
   428-449, AddPod / addTask 228-251 (a pod naming a node the cache has not seen creates a
   placeholder NodeInfo without Node object; the node's arrival recomputes its ledger).  The agent
   scheduler's handlers (agentscheduler/cache/event_handlers.go 50-135, 307-352) do the same to
   the nodes.  setNode mirrors C08/Model.v node_set (theorem C08_set_node_recomputes_ledger). *)

Inductive cache_ev :=
| EvNode (nid : positive) (alloc : res)     (* node add / update with this allocatable *)
| EvTerminating (tid : positive)            (* pod update: deletionTimestamp set *)
| EvDelete (tid : positive)                 (* pod deleted *)
| EvPodAdd (t : task)                       (* a pod arrives (possibly before its node) *)
| EvUpdateUnbound (tid : positive) (deleting : bool) (* pod update / resync whose object still has no nodeName; deleting: it carries a deletionTimestamp *)
| EvBoundArrives (tid : positive)           (* the update that shows the pod bound where the cache bound it *)
| EvRemoveNode (nid : positive)             (* node deleted *)
| EvUnbind (tid nid : positive).            (* bind execution failed (PreBind / Bind): resyncTask takes the task off the node *)

Definition node_set_acc (n : node) (t : task) : node :=
  let r := t_req t in
  match t_status t with
  | Releasing => node_with n (sub (n_idle n) r) (add (n_used n) r) (add (n_releasing n) r) (n_pipelined n) (n_tasks n)
  | Pipelined => node_with n (n_idle n) (n_used n) (n_releasing n) (add (n_pipelined n) r) (n_tasks n)
  | _ => node_with n (sub (n_idle n) r) (add (n_used n) r) (n_releasing n) (n_pipelined n) (n_tasks n)
  end.

Definition node_set (n : node) (alloc : res) : node :=
  fold_left node_set_acc (map snd (map_to_list (n_tasks n)))
            (mkNode (n_id n) true alloc empty_res empty_res empty_res alloc (n_tasks n)).

Definition fresh_node (nid : positive) (alloc : res) : node :=
  mkNode nid true alloc empty_res empty_res empty_res alloc ∅.
(* NewNodeInfo(nil) *)
Definition placeholder (nid : positive) : node :=
  mkNode nid false empty_res empty_res empty_res empty_res empty_res ∅.

Definition terminated (s : status) : bool := match s with Succeeded | Failed => true | _ => false end.

(* addTask's node part *)
Definition add_to_node (ns : gmap positive node) (t : task) : gmap positive node :=
  match t_node t with
  | None => ns
  | Some i =>
    let n := default (placeholder i) (ns !! i) in
    if terminated (t_status t) then <[i := n]> ns
    else match node_add eps n t with inl (n', _) => <[i := n']> ns | inr _ => <[i := n]> ns end
  end.

(* deleteTask's node part (keyed by the stored task) *)
Definition remove_from_node (ns : gmap positive node) (t : task) : gmap positive node :=
  match t_node t with
  | None => ns
  | Some i =>
    match ns !! i with
    | Some n => if terminated (t_status t) then ns else <[i := node_remove n (t_id t)]> ns
    | None => ns
    end
  end.

Definition node_event (ns : gmap positive node) (nid : positive) (alloc : res) : gmap positive node :=
  <[nid := match ns !! nid with Some n => node_set n alloc | None => fresh_node nid alloc end]> ns.

Definition cache_event (c : cache) (e : cache_ev) : cache :=
  match e with
  | EvNode nid alloc => mkCache (c_heap c) (c_jobs c) (node_event (c_nodes c) nid alloc)
  | EvTerminating tid =>
    match c_heap c !! tid with
    | None => c
    | Some st =>
      let t' := set_status st Releasing in
      mkCache (<[tid := t']> (c_heap c))
              (match c_jobs c !! t_job st with
               | Some j => <[t_job st := job_add (job_del j st) t']> (c_jobs c)
               | None => c_jobs c end)
              (add_to_node (remove_from_node (c_nodes c) st) t')
    end
  | EvDelete tid =>
    match c_heap c !! tid with
    | None => c
    | Some st =>
      mkCache (delete tid (c_heap c))
              (match c_jobs c !! t_job st with
               | Some j => <[t_job st := job_del j st]> (c_jobs c)
               | None => c_jobs c end)
              (remove_from_node (c_nodes c) st)
    end
  | EvPodAdd t =>
    mkCache (<[t_id t := t]> (c_heap c))
            (match c_jobs c !! t_job t with
             | Some j => <[t_job t := job_add j t]> (c_jobs c)
             | None => c_jobs c end)
            (add_to_node (c_nodes c) t)
  | EvUpdateUnbound tid deleting =>
    (* updatePod 357-362: "ignore the update event if pod is allocated in cache but not present
       in NodeName" -- whatever changed in the object (a deletionTimestamp included: seeded mutant
       C02-r9-1 lets those through), whether or not the resourceVersion did.
       This is what keeps the reservation of a bind in flight.  A pod the cache does not hold as
       allocated goes through deletePod + addPod: Pending, or Releasing when it is being deleted. *)
    match c_heap c !! tid with
    | None => c
    | Some st =>
      if allocated_status (t_status st) then c
      else
        let t' := set_node (set_status st (if deleting then Releasing else Pending)) None in
        mkCache (<[tid := t']> (c_heap c))
                (match c_jobs c !! t_job st with
                 | Some j => <[t_job st := job_add (job_del j st) t']> (c_jobs c)
                 | None => c_jobs c end)
                (remove_from_node (c_nodes c) st)
    end
  | EvBoundArrives tid =>
    match c_heap c !! tid with
    | None => c
    | Some st =>
      match t_status st, t_node st with
      | Binding, Some i =>
        let t' := set_status st Bound in
        mkCache (<[tid := t']> (c_heap c))
                (match c_jobs c !! t_job st with
                 | Some j => <[t_job st := job_add (job_del j st) t']> (c_jobs c)
                 | None => c_jobs c end)
                (add_to_node (remove_from_node (c_nodes c) st) t')
      | _, _ => c      (* the harness delivers this event only for a bind the cache accepted *)
      end
    end
  | EvRemoveNode nid =>
    (* RemoveNode 597-640 (after fix e29cb66): the pods of a removed node stay on a not-ready
       placeholder NodeInfo (no Node object, no ledger) until their own delete events arrive *)
    match c_nodes c !! nid with
    | None => c
    | Some n =>
      mkCache (c_heap c) (c_jobs c)
              (if bool_decide (n_tasks n = ∅) then delete nid (c_nodes c)
               else <[nid := mkNode nid false empty_res empty_res empty_res empty_res empty_res (n_tasks n)]> (c_nodes c))
    end
  | EvUnbind tid nid =>
    (* only the node part (agentscheduler resyncTask 1: node.RemoveTask); not generated for this cache *)
    match c_nodes c !! nid with
    | Some n => mkCache (c_heap c) (c_jobs c) (<[nid := node_remove n tid]> (c_nodes c))
    | None => c
    end
  end.

(* the node (smallest id) on which a task is held as Binding *)
Definition find_binding (ns : gmap positive node) (tid : positive) : option positive :=
  map_fold (fun i n acc =>
      match n_tasks n !! tid with
      | Some c => if bool_decide (t_status c = Binding)
                  then Some (match acc with Some a => Pos.min a i | None => i end) else acc
      | None => acc
      end) None ns.

(* the agent scheduler keeps no job index: the same events on its nodes; [tasks] is what the
   informer knows of the pod (its TaskInfo is rebuilt from the pod on every event) *)
Definition agent_event (tasks : positive -> option task) (ns : gmap positive node) (e : cache_ev) : gmap positive node :=
  match e with
  | EvNode nid alloc => node_event ns nid alloc
  | EvTerminating tid =>
    match tasks tid with
    | Some st => add_to_node (remove_from_node ns st) (set_status st Releasing)
    | None => ns end
  | EvDelete tid => match tasks tid with Some st => remove_from_node ns st | None => ns end
  | EvPodAdd t => add_to_node ns t
  (* the agent's guard reads the status of the POD (agentscheduler event_handlers.go 93-97), which is
     Pending for an unbound pod: it never fires; deletePod / addPod then look for the pod's own
     nodeName, which is empty: nothing happens to the nodes *)
  | EvUpdateUnbound _ _ => ns
  (* the bound pod arrives: deletePod(old) finds no nodeName, addPod(new) is refused because the
     Binding copy is still there ("already on node") *)
  | EvBoundArrives tid =>
    match tasks tid, find_binding ns tid with
    | Some st, Some i => add_to_node ns (set_node (set_status st Bound) (Some i))
    | _, _ => ns
    end
  (* agentscheduler RemoveNode: the entry is dropped together with what it held *)
  | EvRemoveNode nid => delete nid ns
  (* agentscheduler cache.go executePreBinds / Bind failure -> resyncTask: node.info.RemoveTask(task) *)
  | EvUnbind tid nid => match ns !! nid with Some n => <[nid := node_remove n tid]> ns | None => ns end
  end.

(* ---- bind execution of the agent cache over a BATCH (cache.go processBindTask / BindTask with
   BATCH_BIND_NUM contexts; a context is a (task, node) pair accepted by AddBindTask):
   executePreBinds visits every context -- a failing PreBind resyncs ITS task (off the node) and the
   context is skipped --, the others are handed to Binder.Bind in ONE call; Bind answers with a
   failure PER TASK (errMsg[task.UID]) and exactly the tasks it names are resynced.  The others are
   bound by the API server and stay charged.  Both phases are folds of the single-context step. *)
Definition flow_unbind (tasks : positive -> option task) (fails : list positive) (ns : gmap positive node) (p : positive * positive) : gmap positive node :=
  if bool_decide (fst p ∈ fails) then agent_event tasks ns (EvUnbind (fst p) (snd p)) else ns.
Definition flow_pass (fails : list positive) (pending : list (positive * positive)) : list (positive * positive) :=
  List.filter (fun p => negb (bool_decide (fst p ∈ fails))) pending.
Definition flow_batch (tasks : positive -> option task) (pre_fails bind_fails : list positive) (ns : gmap positive node)
    (pending : list (positive * positive)) : gmap positive node * list (positive * positive) :=
  let handed := flow_pass pre_fails pending in
  (fold_left (flow_unbind tasks bind_fails) handed (fold_left (flow_unbind tasks pre_fails) pending ns),
   flow_pass bind_fails handed).

Inductive cache_op := OpBind (r : bind_req) | OpEv (e : cache_ev).

Definition cache_step (c : cache) (o : cache_op) : cache * bind_res :=
  match o with OpBind r => add_bind_task c r | OpEv e => (cache_event c e, BOk) end.

Definition ops_state (c : cache) (l : list cache_op) : cache := fold_left (fun c o => fst (cache_step c o)) l c.

(* the same history with the pre-fix AddBindTask *)
Definition cache_step_prefix (c : cache) (o : cache_op) : cache * bind_res :=
  match o with OpBind r => add_bind_task_prefix c r | OpEv e => (cache_event c e, BOk) end.
Definition ops_state_prefix (c : cache) (l : list cache_op) : cache := fold_left (fun c o => fst (cache_step_prefix c o)) l c.
Fixpoint ops_results_prefix (c : cache) (l : list cache_op) : list (option bind_res) :=
  match l with
  | [] => []
  | o :: l' => (match o with OpBind _ => Some (snd (cache_step_prefix c o)) | OpEv _ => None end) :: ops_results_prefix (fst (cache_step_prefix c o)) l'
  end.

Fixpoint ops_results (c : cache) (l : list cache_op) : list (option bind_res) :=
  match l with
  | [] => []
  | o :: l' => (match o with OpBind _ => Some (snd (cache_step c o)) | OpEv _ => None end) :: ops_results (fst (cache_step c o)) l'
  end.

Definition bind_state (c : cache) (l : list bind_req) : cache := fold_left (fun c r => fst (add_bind_task c r)) l c.

Fixpoint bind_results (c : cache) (l : list bind_req) : list bind_res :=
  match l with
  | [] => []
  | r :: l' => snd (add_bind_task c r) :: bind_results (fst (add_bind_task c r)) l'
  end.

Definition agent_state (ns : gmap positive node) (l : list (task * positive)) : gmap positive node :=
  fold_left (fun ns r => fst (agent_add_bind_task ns (fst r) (snd r))) l ns.

End WithEps.
