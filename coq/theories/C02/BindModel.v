(* Model of the bind admission step of the scheduler cache:
     pkg/scheduler/cache/cache.go 1344-1380  SchedulerCache.AddBindTask
     pkg/scheduler/cache/cache.go  919-933   findJobAndTask
     pkg/scheduler/api/node_info.go 444-487  NodeInfo.AddTask (the Binding re-check, 465-472)
   and, with the job side dropped, of pkg/agentscheduler/cache/cache.go 844-881 (same shape: find
   the node, status := Binding, node.AddTask, revert the status on refusal).

   The cache is its job map, the task objects the jobs hold (one heap, by task id) and its node
   map; job_update / node_add are the shared ledger model.  A request names a job, a task and a
   node: they come from the BindContext a worker computed on its own (possibly stale) snapshot,
   so nothing is assumed about them.  SetPodResourceDecision can fail (json.Marshal of the NUMA
   decision); that is an arbitrary boolean of the request.  sc.Mutex makes the whole function
   one atomic step: a concurrent execution is a sequence of requests ([bind_state]). *)
From stdpp Require Import gmap.
From Coq Require Import ZArith.
From V Require Import Base.Res Sched.LedgerModel.
Open Scope Z_scope.

Record cache := mkCache {
  c_heap : gmap positive task;
  c_jobs : gmap positive job;
  c_nodes : gmap positive node;
}.

Record bind_req := mkBind { b_job : positive; b_task : positive; b_node : positive; b_decision_fails : bool }.

Inductive bind_res := BOk | BNoJob | BNoTask | BNoNode | BDecision | BRefused (e : add_err).

Section WithEps.
Variable eps : Z.

Definition add_bind_task (c : cache) (r : bind_req) : cache * bind_res :=
  match c_jobs c !! b_job r with
  | None => (c, BNoJob)
  | Some j =>
    if negb (bool_decide (b_task r ∈ j_tasks j)) then (c, BNoTask) else
    match c_heap c !! b_task r with
    | None => (c, BNoTask)          (* unreachable when the jobs hold what the heap files *)
    | Some t =>
      match c_nodes c !! b_node r with
      | None => (c, BNoNode)
      | Some n =>
        let orig := t_status t in
        let '(j1, t1) := job_update (c_heap c) j t Binding in
        let h1 := <[b_task r := t1]> (c_heap c) in
        let revert (e : bind_res) :=
          let '(j2, t3) := job_update h1 j1 t1 orig in
          (mkCache (<[b_task r := t3]> h1) (<[b_job r := j2]> (c_jobs c)) (c_nodes c), e) in
        if b_decision_fails r then revert BDecision else
        match node_add eps n t1 with
        | inl (n', t2) =>
          (mkCache (<[b_task r := t2]> h1) (<[b_job r := j1]> (c_jobs c)) (<[b_node r := n']> (c_nodes c)), BOk)
        | inr e => revert (BRefused e)
        end
      end
    end
  end.

(* the agent scheduler's variant: no job index; the caller's task object itself carries the
   status (UpdateTaskStatus only assigns task.Status), so a refusal leaves nothing behind *)
Definition agent_add_bind_task (ns : gmap positive node) (t : task) (nid : positive) : gmap positive node * bind_res :=
  match ns !! nid with
  | None => (ns, BNoNode)
  | Some n =>
    match node_add eps n (set_status t Binding) with
    | inl (n', _) => (<[nid := n']> ns, BOk)
    | inr e => (ns, BRefused e)
    end
  end.

Definition bind_state (c : cache) (l : list bind_req) : cache := fold_left (fun c r => fst (add_bind_task c r)) l c.

Fixpoint bind_results (c : cache) (l : list bind_req) : list bind_res :=
  match l with
  | [] => []
  | r :: l' => snd (add_bind_task c r) :: bind_results (fst (add_bind_task c r)) l'
  end.

Definition agent_state (ns : gmap positive node) (l : list (task * positive)) : gmap positive node :=
  fold_left (fun ns r => fst (agent_add_bind_task ns (fst r) (snd r))) l ns.

End WithEps.
