(* C02 entry points.
     1, 101-103  the shared action-skeleton entry (real cycles; law 102 = no node overcommitted)
     2           bind admission: the real SchedulerCache.AddBindTask under concurrent callers,
                 replayed in the order the cache serialised them
     3           the agent scheduler's AddBindTask, same replay
     112         law: after all bind calls, per node, the summed requests of the held tasks
                 (recomputed from the pod specs) stay within the allocatable amount
     113         law: the hypotheses of cycle_no_overcommit / cycle_sums_within_allocatable (world_ok,
                 nodes_acct) hold of the generated cycle
     115         law: the initial cache of a bind case satisfies cinv (hypothesis of bind_events_safe)
     4           preempt / reclaim / allocate / backfill action lists: the initial node ledgers
     114         law: no node overcommitted (now / once terminating pods are gone) after them *)
From stdpp Require Import gmap.
From Coq Require Import ZArith List.
From V Require Import Base.Codec Base.Res Base.ResCodec Sched.LedgerModel Sched.StmtModel Sched.LedgerCodec
                      Sched.LedgerInv Sched.GangModel Sched.CycleModel Sched.CycleCodec Sched.CycleLaws Sched.CycleEntry
                      Sched.NodeCapCheck Sched.NodeSumLemmas Sched.NodeSumCheck C02.BindModel C02.BindLemmas C02.BindEx.
Import ListNotations.
Open Scope Z_scope.

(* A list decoder that refuses impossible lengths: every element takes at least one token, so a
   length above the number of remaining tokens is malformed input (a stale replay / corpus file in
   an older wire format) -- answered with bad_input instead of building a huge unary nat. *)
Definition dListC {A} (p : dec A) : dec (list A) :=
  fun l => match l with
           | [] => None
           | x :: r => if (x <? 0) || (Z.of_nat (length r) <? x) then None else dRep (Z.to_nat x) p r
           end.

Definition dJobSpecC : dec job_spec :=
  let* i := dPos in let* q := dPos in let* m := dZ in let* rm := dListC (dPair dPos dZ) in ret (mkJobSpec i q m rm).

(* an item of a history: a cache operation, or (agent stream) the execution of the queued binds --
   pre-binders, then Binder.Bind -- with the tasks whose PreBind fails *)
Inductive item := IOp (o : cache_op) | IFlow (fails : list positive)
  (* the queued binds executed as ONE batch: tasks whose PreBind fails, tasks whose Binding the binder reports failed *)
  | IBatch (pre_fails bind_fails : list positive).
Definition ops_of (l : list item) : list cache_op := omap (fun i => match i with IOp o => Some o | _ => None end) l.

Record bind_case := mkBindCase {
  bc_eps : Z; bc_nodes : list node_spec; bc_jobs : list job_spec; bc_tasks : list task_spec;
  bc_workers : Z; bc_exact : bool; bc_items : list item }.

(* an item of the history: 0 = AddBindTask call, 1-4 = cache events delivered in between *)
Definition dBindOp : dec cache_op :=
  let* k := dZ in
  match k with
  | 0 => let* j := dPos in let* t := dPos in let* n := dPos in ret (OpBind (mkBind j t n false))
  | 1 => let* n := dNodeSpec in ret (OpEv (EvNode (ns_id n) (mk_alloc (ns_cpu n) (ns_mem n) (ns_pods n) (ns_gpu n))))
  | 2 => let* t := dPos in ret (OpEv (EvTerminating t))
  | 3 => let* t := dPos in ret (OpEv (EvDelete t))
  | 4 => let* e := dZ in let* t := dTaskSpec in ret (OpEv (EvPodAdd (task_of_spec e t)))
  | 5 => let* t := dPos in let* _ := dBool in ret (OpEv (EvUpdateUnbound t false))   (* flag: same resourceVersion (resync) *)
  | 8 => let* t := dPos in ret (OpEv (EvUpdateUnbound t true))   (* the update carries a deletionTimestamp, nodeName still empty *)
  | 6 => let* t := dPos in ret (OpEv (EvBoundArrives t))
  | 7 => let* n := dPos in ret (OpEv (EvRemoveNode n))
  | _ => fail
  end.

Definition dBindReq : dec item :=
  fun l => match l with
           | 9 :: r => (let* f := dListC dPos in ret (IFlow f)) r
           | 10 :: r => (let* f := dListC dPos in let* g := dListC dPos in ret (IBatch f g)) r
           | _ => (let* o := dBindOp in ret (IOp o)) l
           end.

Definition dBindCase : dec bind_case :=
  let* e := dZ in let* ns := dListC dNodeSpec in let* js := dListC dJobSpecC in let* ts := dListC dTaskSpec in
  let* g := dZ in let* x := dBool in let* cs := dListC dBindReq in ret (mkBindCase e ns js ts g x cs).

Definition bc_calls (b : bind_case) : list cache_op := ops_of (bc_items b).

Definition cache_of (b : bind_case) : cache :=
  let s := build (bc_eps b) (bc_nodes b) (bc_jobs b) (bc_tasks b) in mkCache (heap s) (jobs s) (nodes s).

Definition eBindRes (exact : bool) (r : bind_res) : list Z :=
  match r with
  | BOk => [0]
  | _ => if negb exact then [1] else
    match r with
    | BOk => [0] | BNoJob => [1] | BNoTask => [2] | BNoNode => [3] | BDecision => [4] | BNotReady => [8]
    | BRefused ErrDifferentNode => [5] | BRefused ErrAlreadyOnNode => [6] | BRefused ErrInsufficient => [7]
    end
  end.

Definition run_bind (b : bind_case) : list Z :=
  let c := cache_of b in
  let c' := ops_state (bc_eps b) c (bc_calls b) in
  eList (fun r => match r with Some x => eBindRes (bc_exact b) x | None => [9] end) (ops_results (bc_eps b) c (bc_calls b)) ++ [-110] ++
  eList (fun kv => eTaskBrief (snd kv)) (sort_kv (map_to_list (c_heap c'))) ++ [-111] ++
  eList (fun kv => eJob (snd kv)) (sort_kv (map_to_list (c_jobs c'))) ++ [-112] ++
  eList (fun kv => eNode (snd kv)) (sort_kv (map_to_list (c_nodes c'))).

(* agent scheduler: the request carries the worker's own task object (here: the spec's task) *)
Definition run_agent (b : bind_case) : list Z :=
  let c := cache_of b in
  (* what the informer knows of each pod: the spec's pods and the pods that arrive as events *)
  let known : gmap positive task :=
    fold_left (fun m o => match o with OpEv (EvPodAdd t) => <[t_id t := t]> m | _ => m end) (bc_calls b) (c_heap c) in
  (* state: nodes, per-item codes, the accepted calls whose bind has not been executed yet, and
     the pods handed to Binder.Bind (task, node) *)
  let step (acc : gmap positive node * list Z * list (positive * positive) * list Z) (i : item) :=
    let '(ns, out, pending, bound) := acc in
    match i with
    | IOp (OpBind r) =>
      match known !! b_task r with
      | Some t =>
        let '(ns', x) := agent_add_bind_task (bc_eps b) ns t (b_node r) in
        (ns', out ++ eBindRes (bc_exact b) x,
         match x with BOk => pending ++ [(b_task r, b_node r)] | _ => pending end, bound)
      | None => (ns, out ++ [10], pending, bound)
      end
    | IOp (OpEv e) => (agent_event (bc_eps b) (fun i => known !! i) ns e, out ++ [9], pending, bound)
    | IFlow fails =>
      (* executePreBinds: a failing PreBind resyncs the task (off the node) and the context is
         skipped; the others are handed to Binder.Bind *)
      let ns' := fold_left (fun ns p => if bool_decide (fst p ∈ fails)
                                        then agent_event (bc_eps b) (fun i => known !! i) ns (EvUnbind (fst p) (snd p)) else ns) pending ns in
      let bound' := flat_map (fun p => if bool_decide (fst p ∈ fails) then [] else [Zpos (fst p); Zpos (snd p)]) pending in
      (ns', out ++ [9], [], bound ++ bound')
    | IBatch pf bf =>
      (* BindModel.flow_batch: one batch; exactly the contexts named by a failure are resynced, the
         others were bound *)
      let '(ns', bd) := flow_batch (bc_eps b) (fun i => known !! i) pf bf ns pending in
      (ns', out ++ [9], [], bound ++ flat_map (fun p => [Zpos (fst p); Zpos (snd p)]) bd)
    end in
  let '(ns', out, _, bound) := fold_left step (bc_items b) (c_nodes c, [], [], []) in
  Z.of_nat (length (bc_items b)) :: out ++ [-112] ++ eList (fun kv => eNode (snd kv)) (sort_kv (map_to_list ns')) ++
  [-113] ++ bound.

(* ---- law 112 ----
   [held]: per node, the pods the real node holds at the end TOGETHER WITH the pods of every
   accepted AddBindTask aimed at that node whose pod has not been deleted since (an accepted bind
   reserves the pod's request on its target from then on; a bind in flight appears in no delivered
   pod object, so a cache that forgets the reservation would otherwise go unnoticed). *)
(* On the bind admission path EVERY dimension is guarded: NodeInfo.AddTask's Binding re-check is
   LessEqualWithResourcesName over all keys of the request, 'pods' included (every pod asks pods: 1).
   (In the cycle path 'pods' is outside the guard only because backfill places without any test.) *)
Definition sum_le_all (l : list task) (bound_ : res) : bool :=
  let s := sum_req l in
  bool_decide (cpu s <= cpu bound_) && bool_decide (mem s <= mem bound_) &&
  forallb (fun k => bool_decide (sget s k <= sget bound_ k)) (res_keys [s; bound_]).

Definition law_bind (b : bind_case) (held : list (positive * list positive)) : bool :=
  let ts := map (task_of_spec (bc_eps b)) (bc_tasks b) in
  forallb (fun n =>
    if negb (ns_has n) then true else
    let alloc := mk_alloc (ns_cpu n) (ns_mem n) (ns_pods n) (ns_gpu n) in
    let initially := filter (fun t => bool_decide (t_node t = Some (ns_id n)) && on_node_status (t_status t)) ts in
    let now_ids := flat_map snd (filter (fun h => bool_decide (fst h = ns_id n)) held) in
    implb (sum_le_all initially alloc) (sum_le_all (filter (fun t => bool_decide (t_id t ∈ now_ids)) ts) alloc))
    (bc_nodes b).

Definition dBindLaw : dec (bind_case * list (positive * list positive)) :=
  let* b := dBindCase in let* h := dListC (dPair dPos (dListC dPos)) in ret (b, h).

(* ---- law 117 (agent bind execution over a batch) ----
   per batch: the tasks whose PreBind fails, the tasks whose Binding the binder reports failed, and
   per context (task, node, on the node's ledger before the batch, after the batch): a context stays
   on the ledger exactly when neither failure names it (BindLemmas.flow_batch_keeps_bound; a context
   named by a failure is taken off by EvUnbind) *)
(* law_batch: BindLemmas.law_batch (sound of the model's batch: law_batch_sound) *)
Definition dBatchLaw : dec (list (list positive * list positive * list (positive * positive * bool * bool))) :=
  dListC (let* pf := dListC dPos in let* bf := dListC dPos in
          let* cs := dListC (let* t := dPos in let* n := dPos in let* x := dBool in let* y := dBool in ret (t, n, x, y)) in
          ret (pf, bf, cs)).

(* ---- stream 4: preempt / reclaim / allocate / backfill action lists.  Wire format of C02's own
        (harness/cmd/c02/evict.go encEvictCase): eps, nodes, jobs, tasks -- what the model reads --
        followed by one length-prefixed block of integers that only the Go side interprets (queues,
        priorities, tiers, actions, fault script). ---- *)
Definition dEvictSpec : dec (Z * list node_spec * list job_spec * list task_spec) :=
  let* e := dZ in let* ns := dListC dNodeSpec in let* js := dListC dJobSpecC in let* ts := dListC dTaskSpec in
  let* _ := dListC dZ in
  ret (e, ns, js, ts).

(* the session the actions start from: its node ledgers *)
Definition run_evict_initial (x : Z * list node_spec * list job_spec * list task_spec) : list Z :=
  let '(e, ns, js, ts) := x in
  eList (fun kv => eNode (snd kv)) (sort_kv (map_to_list (nodes (build e ns js ts)))).

(* law 114: what the real actions left on the nodes -- per node, with the sums recomputed from the
   pod specs: everything held but pipelined copies fits into allocatable, and so do the copies
   that stay (not Releasing) together with the pipelined ones; asked of every node that was not
   overcommitted before the cycle.  The same predicate as CycleLaws.law_nodes. *)
Definition law_nodes_held (eps : Z) (ns : list node_spec) (tsp : list task_spec)
           (held : list (positive * list (positive * status))) : bool :=
  let ts := map (task_of_spec eps) tsp in
  forallb (fun n =>
    if negb (ns_has n) then true else
    let alloc := mk_alloc (ns_cpu n) (ns_mem n) (ns_pods n) (ns_gpu n) in
    let initially := filter (fun t => bool_decide (t_node t = Some (ns_id n)) && on_node_status (t_status t)) ts in
    let h := flat_map snd (filter (fun x => bool_decide (fst x = ns_id n)) held) in
    let sel (pred : status -> bool) :=
      filter (fun t => existsb (fun x => bool_decide (fst x = t_id t) && pred (snd x)) h) ts in
    let used := sel (fun s => negb (bool_decide (s = Pipelined))) in
    let staying := sel (fun s => negb (bool_decide (s = Pipelined)) && negb (bool_decide (s = Releasing))) in
    let pipelined := sel (fun s => bool_decide (s = Pipelined)) in
    implb (sum_le initially alloc) (sum_le used alloc && sum_le (staying ++ pipelined) alloc)) ns.

Definition dEvictLaw : dec (Z * list node_spec * list task_spec * list (positive * list (positive * status))) :=
  let* e := dZ in let* ns := dListC dNodeSpec in let* ts := dListC dTaskSpec in
  let* h := dListC (dPair dPos (dListC (dPair dPos dStatus))) in ret (e, ns, ts, h).

Definition entry (sel : Z) (toks : list Z) : list Z :=
  match sel with
  | 2 => match run_dec dBindCase toks with Some b => run_bind b | None => bad_input end
  | 3 => match run_dec dBindCase toks with Some b => run_agent b | None => bad_input end
  | 4 => match run_dec dEvictSpec toks with Some x => run_evict_initial x | None => bad_input end
  | 114 => match run_dec dEvictLaw toks with Some (e, ns, ts, h) => eBool (law_nodes_held e ns ts h) | None => bad_input end
  (* 6: bind admission on pods whose request comes partly from init containers (the spec carries the
     EFFECTIVE request computed by the upstream helper): only the admission results are compared *)
  | 6 => match run_dec dBindCase toks with
         | Some b => eList (fun r => match r with Some x => eBindRes (bc_exact b) x | None => [9] end)
                           (ops_results (bc_eps b) (cache_of b) (bc_calls b))
         | None => bad_input end
  | 115 => match run_dec dBindCase toks with Some b => eBool (cinv_b (bc_eps b) (cache_of b)) | None => bad_input end
  | 112 => match run_dec dBindLaw toks with Some (b, h) => eBool (law_bind b h) | None => bad_input end
  (* 116: law 112 again, on the held sets WITHOUT the pods a known finding explains (emitted unsigned
     next to a signed 112, so that any other overcommit in the same history is still reported) *)
  | 116 => match run_dec dBindLaw toks with Some (b, h) => eBool (law_bind b h) | None => bad_input end
  | 117 => match run_dec dBatchLaw toks with Some l => eBool (forallb law_batch l) | None => bad_input end
  | 113 => match run_dec dLawIn toks with Some (c, _, _) => eBool (world_ok_b (cc_eps c) (world_of c) && nodes_acct_b (nodes (w_sess (world_of c)))) | None => bad_input end
  | _ => cycle_entry sel toks
  end.
