(* Float-faithful witnesses (Coq's primitive IEEE-754 binary64, the arithmetic Go's float64 uses): the
   algebraic laws of Props/C16.v are theorems about EXACT arithmetic; on float64 they hold only while every
   operand and every intermediate result is exactly representable.  Outside that range they are false —
   the three magnitudes the property's quantifier names beyond the exact range (2^53 scale, the
   MaxFloat64 sentinel of InfiniteResource, and sums of two sentinels) are refuted here by evaluation. *)
From Coq Require Import Floats Bool.
Open Scope float_scope.

Definition two53 : float := 9007199254740992.
Definition max_float64 : float := 0x1.fffffffffffffp+1023.   (* math.MaxFloat64 *)
Definition min_resource : float := 0x1.999999999999ap-4.  (* the float64 nearest to 0.1 *)

(* lessEqualFunc of Resource.LessEqual: l < r || |l - r| < minResource *)
Definition fle (l r : float) : bool := (l <? r) || (abs (l - r) <? min_resource).
(* "adding then subtracting returns the original" up to the tolerance, on one dimension *)
Definition add_sub_ok (a b : float) : bool := abs (((a + b) - b) - a) <? min_resource.

(* clause 1 at 2^53 scale: (1 + 2^53) - 2^53 = 0, off by 1 >> 0.1 *)
Lemma add_sub_refuted_two53 : exists a b, add_sub_ok a b = false.
Proof. exists 1, two53. vm_compute. reflexivity. Qed.

(* clause 1 with the infinite sentinel: (5 + MaxFloat64) - MaxFloat64 = 0 *)
Lemma add_sub_refuted_sentinel : add_sub_ok 5 max_float64 = false.
Proof. vm_compute. reflexivity. Qed.

(* clause 2 after adding two infinite resources: MaxFloat64 + MaxFloat64 = +Inf, and
   LessEqual(r, r) is false on +Inf (Inf < Inf is false, |Inf - Inf| = NaN < 0.1 is false) *)
Lemma refl_refuted_two_sentinels : fle (max_float64 + max_float64) (max_float64 + max_float64) = false.
Proof. vm_compute. reflexivity. Qed.

(* inside the exact range the same expressions behave: integers below 2^53 *)
Example add_sub_exact_range : add_sub_ok 4503599627370495 4503599627370496 = true /\ fle two53 two53 = true.
Proof. vm_compute. split; reflexivity. Qed.
