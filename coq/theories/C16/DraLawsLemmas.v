(* The executable laws of DraLaws.v accept the model's own results: the search predicate evaluated on
   the Go results and the theorems speak about the same thing. *)
From stdpp Require Import gmap.
From Coq Require Import ZArith List Lia.
From V Require Import Base.Codec Base.Res C16.SatModel C16.SatLemmas C16.DraModel C16.DraLemmas
  C16.QuantModel C16.QuantLemmas C16.Laws C16.LawsLemmas C16.DraLaws C16.OrderLemmas.
From V Require Import Base.ResLemmas.
Import ListNotations.
Open Scope Z_scope.

Lemma is_some_true {A} (o : option A) : is_some o = true <-> is_Some o.
Proof. destruct o; cbn; split; intros H; eauto; try discriminate. destruct H; discriminate. Qed.

Lemma eqb_iff (a b : bool) : (a = true <-> b = true) -> Bool.eqb a b = true.
Proof. destruct a, b; cbn; intros [H1 H2]; auto; try (symmetry; auto). Qed.

(* ---- capacities: which dimensions are present ---- *)
Definition cap_present (o : option dres) (dim : positive) : Prop :=
  match o with Some d => is_Some (d_caps d !! dim) | None => False end.

Lemma is_Some_union_plus (a b : option Z) :
  is_Some (union_with (fun x y => Some (x + y)) a b) <-> is_Some a \/ is_Some b.
Proof.
  destruct a, b; cbn; split; intros H; eauto; destruct H as [H|H]; eauto; destruct H; discriminate.
Qed.

Lemma cap_present_default cur dim :
  is_Some (d_caps (default (mkD 0 ∅) cur) !! dim) <-> cap_present cur dim.
Proof.
  destruct cur as [d|]; cbn [default d_caps cap_present]; [reflexivity|].
  rewrite lookup_empty. split; [intros [? H]; discriminate|contradiction].
Qed.

Lemma cap_present_add_class t cur rq dim :
  cap_present (add_class t cur rq) dim <->
  cap_present cur dim \/ exists q, rq = Some q /\ is_Some (d_caps q !! dim).
Proof.
  destruct rq as [q|]; cbn [add_class].
  - unfold cap_add. cbn [cap_present d_caps].
    rewrite lookup_union_with, is_Some_union_plus, lookup_fmap, fmap_is_Some, cap_present_default.
    split; intros [H|H]; auto.
    + right. exists q. auto.
    + destruct H as (q' & Hq & H). inversion Hq; subst. auto.
  - split; [auto|intros [H|(q & Hq & _)]; [exact H|discriminate]].
Qed.

Lemma cap_present_accumulate cs : forall acc c dim,
  cap_present (accumulate cs acc !! c) dim <-> cap_present (acc !! c) dim \/ cap_terms c dim cs <> [].
Proof.
  induction cs as [|[rq t] cs IH]; intros acc c dim; cbn [accumulate fold_left cap_terms flat_map fst snd].
  - split; [auto|intros [H|H]; [exact H|congruence]].
  - fold (accumulate cs (add_resource acc rq t)). fold (cap_terms c dim cs).
    rewrite IH, lookup_add_resource, cap_present_add_class.
    destruct (rq !! c) as [q|] eqn:Eq.
    + destruct (d_caps q !! dim) as [v|] eqn:Ev.
      * split; [intros _; right; discriminate|intros _; left; right; exists q; rewrite Ev; eauto].
      * cbn [app]. split; [intros [[H|(q' & Hq & [? H])]|H]; auto|intros [H|H]; auto].
        inversion Hq; subst. rewrite Ev in H. discriminate.
    + cbn [app]. split; [intros [[H|(q' & Hq & _)]|H]; auto; discriminate|intros [H|H]; auto].
Qed.

Lemma existsb_Exists {A} (f : A -> bool) (P : A -> Prop) l :
  (forall x, f x = true <-> P x) -> existsb f l = true <-> List.Exists P l.
Proof.
  intros H. rewrite existsb_exists, List.Exists_exists. split; intros (x & Hx & Hf); exists x; split; auto; apply H; auto.
Qed.

Theorem law_min_dra_model j : job_ok j -> law_min_dra j (get_min_dra j) = true.
Proof.
  intros Hok. unfold law_min_dra. apply andb_true_iff. split.
  - unfold get_min_dra. destruct (j_tasks j); [reflexivity|].
    destruct (bool_decide (accumulate (contribs j) ∅ = ∅)) eqn:E; [reflexivity|].
    apply bool_decide_eq_false in E.
    destruct (map_to_list (accumulate (contribs j) ∅)) eqn:El; [|reflexivity].
    apply map_to_list_empty_iff in El. contradiction.
  - apply forallb_forall. intros c _. cbn zeta.
    rewrite !andb_true_iff. split; [split|].
    + apply eqb_iff. rewrite is_some_true, min_dra_classes.
      rewrite (existsb_Exists _ (fun ct => is_Some (fst ct !! c))); [reflexivity|].
      intros x. apply is_some_true.
    + destruct (nonneg_terms _); [|reflexivity].
      apply andb_true_iff. split.
      * apply bool_decide_eq_true. apply min_dra_count_nonneg. exact Hok.
      * apply zeqb_true. apply min_dra_count_spec. exact Hok.
    + apply forallb_forall. intros dim _. apply andb_true_iff. split.
      * apply zeqb_true. apply min_dra_cap_spec.
      * apply eqb_iff. rewrite is_some_true, negb_true_iff, bool_decide_eq_false.
        pose proof (cap_present_accumulate (contribs j) ∅ c dim) as H.
        rewrite lookup_empty in H. rewrite <- result_at_get_min_dra in H.
        unfold cap_present in H.
        destruct (result_at (get_min_dra j) c); [rewrite H; tauto|].
        split; [intros [? Hd]; discriminate|intros HX; exfalso; tauto].
Qed.

(* ---- Quantity conversions ---- *)
Lemma maxtask_convert_z r : snd (new_resource_z (convert_z r)) = sget r pods_name.
Proof.
  unfold new_resource_z. cbn [snd]. rewrite lookup_convert_z. unfold sget.
  destruct (scm r !! pods_name) as [v|]; cbn [default].
  - unfold quantity_of. rewrite decide_True by reflexivity. apply qvalue_units.
  - rewrite decide_False by (vm_compute; congruence). rewrite decide_False by (vm_compute; congruence). reflexivity.
Qed.

Lemma sc_new_resource_z_not_empty rl : sc (fst (new_resource_z rl)) <> Some ∅.
Proof.
  unfold new_resource_z. cbn [fst sc].
  destruct (bool_decide (map_imap scalar_of rl = ∅)) eqn:E; [discriminate|].
  apply bool_decide_eq_false in E. intros H. inversion H. contradiction.
Qed.

Lemma sc_map_res_not_empty F r : sc r <> Some ∅ -> sc (map_res F r) <> Some ∅.
Proof.
  unfold map_res. cbn [sc]. destruct (sc r) as [m|]; [|discriminate].
  intros H H'. apply H. injection H' as H0. apply fmap_empty_inv in H0. rewrite H0. reflexivity.
Qed.

Lemma res_exact_amounts r : res_exact r = true ->
  f64 (cpu r) = cpu r /\ f64 (mem r) = mem r /\ forall k v, scm r !! k = Some v -> f64 v = v.
Proof.
  unfold res_exact. rewrite !andb_true_iff, bool_decide_eq_true. intros [[H1 H2] H3].
  apply amount_ok_spec in H1, H2. repeat split; try tauto. intros k v E. apply amount_ok_spec, (H3 k v E).
Qed.

Theorem law_rt_res_model r :
  law_rt_res r (convert r) (fst (new_resource (convert r))) (snd (new_resource (convert r))) = true.
Proof.
  unfold law_rt_res.
  destruct (res_exact r) eqn:E0; [|reflexivity].
  destruct (bool_decide (scm r !! cpu_name = None)) eqn:E1; [|reflexivity].
  destruct (bool_decide (scm r !! mem_name = None)) eqn:E2; [|reflexivity]. cbn [andb].
  apply bool_decide_eq_true in E1, E2.
  destruct (res_exact_spec r E0) as [Ei _]. destruct (res_exact_amounts r E0) as (Fc & Fm & Fs).
  unfold convert. rewrite Ei. unfold new_resource.
  pose proof (new_resource_convert_pointwise_z r E1 E2) as (Hc & Hm & Hs).
  pose proof (maxtask_convert_z r) as Hmt.
  pose proof (sc_new_resource_z_not_empty (convert_z r)) as Hne.
  destruct (new_resource_z (convert_z r)) as [rz mt]. cbn [fst snd] in *.
  rewrite !andb_true_iff. repeat split.
  - apply bool_decide_eq_true. rewrite lookup_convert_z, E1. rewrite decide_True by reflexivity. reflexivity.
  - apply bool_decide_eq_true. rewrite lookup_convert_z, E2.
    rewrite decide_False by (vm_compute; congruence). rewrite decide_True by reflexivity. reflexivity.
  - apply forallb_forall. intros k _.
    destruct (bool_decide (k = cpu_name)) eqn:Ek1; [reflexivity|].
    destruct (bool_decide (k = mem_name)) eqn:Ek2; [reflexivity|]. cbn [orb].
    apply bool_decide_eq_false in Ek1, Ek2.
    apply bool_decide_eq_true. rewrite lookup_convert_z.
    destruct (scm r !! k) as [v|]; cbn.
    + unfold quantity_of. destruct (decide (k = pods_name)) as [->|Hp].
      * rewrite bool_decide_eq_true_2 by reflexivity. reflexivity.
      * rewrite bool_decide_eq_false_2 by exact Hp. reflexivity.
    + rewrite decide_False by exact Ek1. rewrite decide_False by exact Ek2. reflexivity.
  - apply zeqb_true. cbn. rewrite Hc. exact Fc.
  - apply zeqb_true. cbn. rewrite Hm. exact Fm.
  - apply forallb_forall. intros k _. apply bool_decide_eq_true. rewrite scm_map_res, Hs.
    destruct (kept_scalar k); [|reflexivity]. destruct (scm r !! k) as [v|] eqn:E; [|reflexivity].
    cbn. f_equal. apply (Fs k v E).
  - apply negb_true_iff, bool_decide_eq_false. apply sc_map_res_not_empty. exact Hne.
  - apply zeqb_true. exact Hmt.
Qed.

Lemma whole_up_qvalue m : whole_up m (1000 * qvalue m) = true.
Proof.
  unfold whole_up. apply andb_true_iff. split.
  - apply zeqb_true. rewrite Z.mul_comm. apply Z.mod_mul. lia.
  - destruct (qvalue_bounds m) as [H1 H2].
    destruct (bool_decide (0 <= m)) eqn:E.
    + apply bool_decide_eq_true in E. specialize (H1 E).
      apply andb_true_iff. split; apply bool_decide_eq_true; lia.
    + apply bool_decide_eq_false in E. specialize (H2 ltac:(lia)).
      apply andb_true_iff. split; apply bool_decide_eq_true; lia.
Qed.

Lemma scm_new_resource rl k : scm (fst (new_resource rl)) !! k = f64 <$> (rl !! k ≫= scalar_of k).
Proof.
  unfold new_resource. pose proof (scm_new_resource_z rl k) as H.
  destruct (new_resource_z rl) as [rz mt]. cbn [fst] in *. rewrite scm_map_res, H. reflexivity.
Qed.

Theorem law_rt_list_model rl : rl_in_range rl = true ->
  law_rt_list rl (fst (new_resource rl)) (snd (new_resource rl)) (convert (fst (new_resource rl))) = true.
Proof.
  intros Hr. unfold law_rt_list. apply forallb_forall. intros k _.
  pose proof (convert_new_resource_any rl k Hr) as H. cbn zeta in H.
  pose proof (scm_new_resource rl k) as Hs. unfold scalar_of in Hs.
  assert (Hcpu : cpu (fst (new_resource rl)) = f64 (default 0 (rl !! cpu_name))).
  { unfold new_resource, new_resource_z. reflexivity. }
  assert (Hmem : mem (fst (new_resource rl)) = f64 (qvalue (default 0 (rl !! mem_name)))).
  { unfold new_resource, new_resource_z. reflexivity. }
  assert (Hmt : snd (new_resource rl) = qvalue (default 0 (rl !! pods_name))).
  { unfold new_resource, new_resource_z. reflexivity. }
  destruct (name_class k) eqn:E.
  - apply name_class_cpu in E. subst.
    destruct (amount_ok (default 0 (rl !! cpu_name))) eqn:Ea; [|reflexivity]. cbn [negb orb].
    apply amount_ok_spec in Ea as [A1 A2]. rewrite H, Hcpu, A1, A2.
    apply andb_true_iff. split; [apply bool_decide_eq_true|apply zeqb_true]; reflexivity.
  - apply name_class_mem in E. subst.
    destruct (amount_ok (qvalue (default 0 (rl !! mem_name)))) eqn:Ea; [|reflexivity]. cbn [negb orb].
    apply amount_ok_spec in Ea as [A1 A2]. rewrite H, Hmem, A1, A2.
    apply andb_true_iff. split; [apply whole_up_qvalue|apply zeqb_true; reflexivity].
  - apply name_class_pods in E. subst. rewrite H.
    destruct (rl !! pods_name) as [m|] eqn:Em; cbn [fmap option_fmap option_map].
    + destruct (amount_ok (qvalue m)) eqn:Ea; [|reflexivity]. cbn [negb orb].
      apply amount_ok_spec in Ea as [A1 A2]. rewrite A1, A2.
      rewrite !andb_true_iff. repeat split.
      * apply whole_up_qvalue.
      * apply zeqb_true. unfold sget. rewrite Hs. cbn. rewrite A1. reflexivity.
      * apply zeqb_true. rewrite Hmt. reflexivity.
    + apply zeqb_true. rewrite Hmt. reflexivity.
  - rewrite H, Hs. destruct (rl !! k) as [m|]; cbn.
    + destruct (amount_ok m) eqn:Ea; [|reflexivity]. cbn [negb orb].
      apply amount_ok_spec in Ea as [A1 A2]. rewrite A1, A2.
      first [reflexivity|apply andb_true_iff; split; apply bool_decide_eq_true; reflexivity].
    + first [reflexivity|apply andb_true_iff; split; apply bool_decide_eq_true; reflexivity].
  - apply andb_true_iff. split; apply bool_decide_eq_true; [exact H|].
    rewrite Hs. destruct (rl !! k); reflexivity.
  - rewrite H, Hs. destruct (rl !! k) as [m|]; cbn.
    + destruct (amount_ok m) eqn:Ea; [|reflexivity]. cbn [negb orb].
      apply amount_ok_spec in Ea as [A1 A2]. rewrite A1, A2.
      first [reflexivity|apply andb_true_iff; split; apply bool_decide_eq_true; reflexivity].
    + first [reflexivity|apply andb_true_iff; split; apply bool_decide_eq_true; reflexivity].
  - apply andb_true_iff. split; apply bool_decide_eq_true; [exact H|].
    rewrite Hs. destruct (rl !! k); reflexivity.
  - apply andb_true_iff. split; apply bool_decide_eq_true; [exact H|].
    rewrite Hs. destruct (rl !! k); reflexivity.
Qed.

(* ---- DRAResource.Add / Sub ---- *)
Lemma dom_imap_some {A B} (f : positive -> A -> B) (m : gmap positive A) :
  dom (map_imap (fun k v => Some (f k v)) m) = dom m.
Proof.
  apply set_eq. intros k. rewrite !elem_of_dom, map_lookup_imap.
  destruct (m !! k); cbn; split; intros [? H]; eauto; discriminate.
Qed.

Lemma In_keys_list {A} (m : gmap positive A) k : In k (keys_list m) -> is_Some (m !! k).
Proof.
  unfold keys_list. intros H. apply in_map_iff in H as ([k' v] & <- & H). cbn.
  apply elem_of_list_In, elem_of_map_to_list in H. eauto.
Qed.

Theorem law_dra_ops_model d o :
  in64 (d_count d) -> (forall x, o = Some x -> in64 (d_count x)) ->
  law_dra_ops d o (dra_add d o) (dra_sub d o) = true.
Proof.
  intros Hd Ho. unfold law_dra_ops. destruct o as [o|].
  - specialize (Ho o eq_refl). rewrite !andb_true_iff. repeat split.
    + apply zeqb_true. apply dra_add_count; assumption.
    + destruct (bool_decide (0 <= d_count d)) eqn:E1; [|reflexivity].
      destruct (bool_decide (0 <= d_count o)) eqn:E2; [|reflexivity]. cbn [andb implb].
      apply bool_decide_eq_true in E1, E2. apply bool_decide_eq_true.
      apply (dra_add_nonneg d o); assumption.
    + apply forallb_forall. intros dim _. apply zeqb_true. apply dra_add_cap.
    + apply bool_decide_eq_true. apply dra_sub_never_negative.
    + destruct (bool_decide (0 <= d_count d)) eqn:E1; [|reflexivity].
      destruct (bool_decide (0 <= d_count o)) eqn:E2; [|reflexivity]. cbn [andb implb].
      apply bool_decide_eq_true in E1, E2. apply zeqb_true. apply dra_sub_count; assumption.
    + apply bool_decide_eq_true. cbn [dra_sub d_caps].
      rewrite <- (dom_imap_some (fun k v => match d_caps o !! k with Some w => if v - w <? 0 then 0 else v - w | None => v end) (d_caps d)).
      f_equal. apply map_eq. intros k. rewrite !map_lookup_imap.
      destruct (d_caps d !! k); cbn; [|reflexivity]. destruct (d_caps o !! k); reflexivity.
    + apply forallb_forall. intros dim Hin. apply In_keys_list in Hin as [v Hv]. apply zeqb_true. cbn [dra_sub d_caps].
      rewrite map_lookup_imap, Hv. cbn. destruct (d_caps o !! dim) as [w|]; cbn; [|reflexivity].
      destruct (v - w <? 0) eqn:E; lia.
  - cbn. rewrite !andb_true_iff. repeat split; try (apply zeqb_true; reflexivity); apply bool_decide_eq_true; reflexivity.
Qed.

(* ---- soundness of law 105: what a [true] answer means, as a Prop ---- *)
Theorem law_min_dra_sound j got c :
  law_min_dra j got = true -> In c (call_classes (contribs j)) ->
  nonneg_terms (class_terms c (contribs j)) = true ->
  0 <= count_of (result_at got c) /\
  count_of (result_at got c) = Z.min max64 (exact_sum (class_terms c (contribs j))).
Proof.
  unfold law_min_dra, nonneg_terms. intros H Hin Hnn. apply andb_true_iff in H as [_ H].
  rewrite forallb_forall in H. specialize (H c ltac:(apply in_or_app; left; exact Hin)). cbn zeta in H.
  rewrite !andb_true_iff in H. destruct H as [[_ H] _]. rewrite Hnn in H.
  apply andb_true_iff in H as [H1 H2]. apply bool_decide_eq_true in H1. apply zeqb_true in H2. auto.
Qed.

(* ---- the partial / total comparison law is exactly the four implications, and the model meets it ---- *)
Theorem law_partial_spec a b c d e :
  law_partial a b c d e = true <->
  (c = true -> d = true) /\ (b = true -> d = true) /\ (a = true -> c = true) /\ (d = false -> e = true).
Proof. destruct a, b, c, d, e; cbn; intuition congruence. Qed.

Theorem law_partial_model eps r rr d : 0 < eps ->
  law_partial (less r rr d) (less_equal eps r rr d) (less_partly r rr d) (less_equal_partly eps r rr d)
              (less rr r d) = true.
Proof.
  intros He. apply law_partial_spec. repeat split.
  - apply less_partly_implies_less_equal_partly. exact He.
  - apply less_equal_implies_less_equal_partly.
  - apply less_implies_less_partly.
  - apply not_less_equal_partly_implies_greater. exact He.
Qed.

(* ---- converters ---- *)
Lemma trunc_of_quot g x : 0 < g -> trunc_of g x (Z.quot x g) = true.
Proof.
  intros Hg. unfold trunc_of.
  pose proof (float_quantity_float_bounds_z g true x Hg) as [H1 H2]. cbn zeta in *.
  rewrite (float_quantity_float_z g true x Hg) in *.
  destruct (bool_decide (0 <= x)) eqn:E.
  - apply bool_decide_eq_true in E. specialize (H1 E). apply andb_true_iff. split; apply bool_decide_eq_true; lia.
  - apply bool_decide_eq_false in E. specialize (H2 ltac:(lia)). apply andb_true_iff. split; apply bool_decide_eq_true; lia.
Qed.

Theorem law_f2q2f_model g c x mant e :
  (conv_domain g x = true -> float_is mant e (Z.quot x g) = true) ->
  law_f2q2f g c x (float_to_quantity g c x) mant e = true.
Proof.
  intros Hf. unfold law_f2q2f. destruct (conv_domain g x) eqn:Ed; [|reflexivity].
  destruct (conv_domain_spec g x Ed) as (Hg & _ & I). specialize (Hf eq_refl).
  unfold float_to_quantity. rewrite I. destruct c; cbn [orb].
  - rewrite trunc_of_quot by exact Hg. exact Hf.
  - rewrite (Z.mul_comm 1000), Z.mod_mul, Z.div_mul by lia.
    rewrite trunc_of_quot by exact Hg. rewrite Hf. reflexivity.
Qed.

Theorem law_q2f2q_model c m mant e :
  float_is mant e (quantity_to_float 1 c m) = true ->
  law_q2f2q m c mant e (float_to_quantity 1 c (quantity_to_float 1 c m)) = true.
Proof.
  intros Hf. unfold law_q2f2q. destruct (qty_domain c m) eqn:Ed.
  - rewrite quantity_float_quantity by (lia || exact Ed).
    unfold qty_domain in Ed. apply amount_ok_spec in Ed as [F _].
    unfold quantity_to_float in Hf. rewrite F, Z.mul_1_r in Hf. destruct c.
    + rewrite Hf. apply zeqb_true. reflexivity.
    + rewrite (Z.mul_comm 1000 (qvalue m)), Z.mod_mul, Z.div_mul by lia.
      rewrite Z.mul_comm, whole_up_qvalue, Hf. reflexivity.
  - unfold quantity_to_float in Hf. rewrite Z.mul_1_r in Hf. exact Hf.
Qed.

Theorem law_sub_assert_model eps r rr :
  law_sub_assert (match sub_assert eps r rr with SubPanic => true | SubOk _ => false end)
                 (less_equal eps rr r DZero) = true.
Proof. unfold law_sub_assert, sub_assert. destruct (less_equal eps rr r DZero); reflexivity. Qed.

Theorem law_min_inf_model r rr : law_min_inf r rr (min_dim r rr DInf) = true.
Proof.
  unfold law_min_inf. rewrite !andb_true_iff. repeat split; try (apply zeqb_true; reflexivity).
  apply forallb_forall. intros k _.
  destruct (sc r) as [m|] eqn:E.
  - destruct (min_dim_spec r rr DInf m E) as (_ & _ & Hk). rewrite Hk.
    assert (Hm : scm r !! k = m !! k) by (unfold scm; rewrite E; reflexivity).
    rewrite Hm. destruct (m !! k) as [v|]; apply bool_decide_eq_true; [|reflexivity].
    destruct (scm rr !! k); reflexivity.
  - assert (Hn : scm r !! k = None) by (unfold scm; rewrite E; apply lookup_empty).
    rewrite Hn. apply bool_decide_eq_true. unfold min_dim, scm. cbn [sc]. rewrite E. apply lookup_empty.
Qed.

(* law 118 means: the source is unchanged by mutating its clones; a value-semantics model meets it trivially
   (that is why the clause is a law on the real objects and not a theorem about the model) *)
Lemma dres_eqb_spec a b : dres_eqb a b = true <-> d_count a = d_count b /\ d_caps a = d_caps b.
Proof. unfold dres_eqb. rewrite andb_true_iff, zeqb_true, bool_decide_eq_true. reflexivity. Qed.

Theorem law_clone_independent_spec d before a1 a2 a3 :
  law_clone_independent d before a1 a2 a3 = true <->
  (d_count before = d_count d /\ d_caps before = d_caps d) /\
  (d_count a1 = d_count before /\ d_caps a1 = d_caps before) /\
  (d_count a2 = d_count before /\ d_caps a2 = d_caps before) /\
  (d_count a3 = d_count before /\ d_caps a3 = d_caps before).
Proof. unfold law_clone_independent. rewrite !andb_true_iff, !dres_eqb_spec. tauto. Qed.

Theorem law_clone_independent_model d : law_clone_independent d d d d d = true.
Proof. apply law_clone_independent_spec. tauto. Qed.

Lemma In_keys_of k l : (exists r, In r l /\ is_Some (scm r !! k)) -> In k (keys_of l).
Proof.
  intros (r & Hin & [v Hv]). unfold keys_of. apply in_map_iff.
  assert (Hl : is_Some (foldr (fun r acc => scm r ∪ acc) (∅ : smap) l !! k)).
  { induction l as [|y l IH]; [contradiction|]. cbn [foldr]. rewrite lookup_union.
    destruct Hin as [->|Hin].
    - rewrite Hv. destruct (foldr _ _ l !! k); cbn; eauto.
    - specialize (IH Hin). destruct IH as [w Hw]. rewrite Hw. destruct (scm y !! k); cbn; eauto. }
  destruct Hl as [w Hw]. exists (k, w). split; [reflexivity|].
  apply elem_of_list_In, elem_of_map_to_list. exact Hw.
Qed.

Theorem law_sub_add_model r x : law_sub_add r x (sub r x) (add (sub r x) x) = true.
Proof.
  unfold law_sub_add. rewrite !andb_true_iff. repeat split; try (apply zeqb_true; reflexivity).
  - apply zeqb_true. rewrite add_cpu, sub_cpu. lia.
  - apply zeqb_true. rewrite add_mem, sub_mem. lia.
  - destruct (sc r) as [m|] eqn:E; [|reflexivity].
    assert (H : sc r <> None) by (rewrite E; discriminate).
    destruct (sub_add_pointwise r x H) as (_ & _ & H3).
    apply forallb_forall. intros k _. apply andb_true_iff. split; apply zeqb_true; [apply H3|apply sub_sget; exact H].
Qed.

(* what a true answer of law 119 means: S is r - x and B is back at r in cpu and memory always, and in every
   scalar dimension when r's scalar map is not nil *)
Theorem law_sub_add_sound r x S B : law_sub_add r x S B = true ->
  cpu B = cpu r /\ mem B = mem r /\ cpu S = cpu r - cpu x /\ mem S = mem r - mem x /\
  (sc r <> None -> forall k, sget B k = sget r k /\ sget S k = sget r k - sget x k).
Proof.
  unfold law_sub_add. rewrite !andb_true_iff, !zeqb_true. intros [[[[H1 H2] H3] H4] H5].
  repeat split; try assumption; destruct (sc r) as [m|] eqn:E; try congruence.
  - rewrite forallb_forall in H5.
    destruct (scm r !! k) as [v|] eqn:Er; [|destruct (scm B !! k) as [w|] eqn:Eb].
    + specialize (H5 k ltac:(apply In_keys_of; exists r; split; [left; reflexivity|rewrite Er; eauto])).
      apply andb_true_iff in H5 as [H5 _]. apply zeqb_true in H5. exact H5.
    + specialize (H5 k ltac:(apply In_keys_of; exists B; split; [right; right; right; left; reflexivity|rewrite Eb; eauto])).
      apply andb_true_iff in H5 as [H5 _]. apply zeqb_true in H5. exact H5.
    + unfold sget. rewrite Er, Eb. reflexivity.
  - rewrite forallb_forall in H5.
    destruct (scm r !! k) as [v|] eqn:Er; [|destruct (scm x !! k) as [w|] eqn:Ex; [|destruct (scm S !! k) as [u|] eqn:Es]].
    + specialize (H5 k ltac:(apply In_keys_of; exists r; split; [left; reflexivity|rewrite Er; eauto])).
      apply andb_true_iff in H5 as [_ H5]. apply zeqb_true in H5. exact H5.
    + specialize (H5 k ltac:(apply In_keys_of; exists x; split; [right; left; reflexivity|rewrite Ex; eauto])).
      apply andb_true_iff in H5 as [_ H5]. apply zeqb_true in H5. exact H5.
    + specialize (H5 k ltac:(apply In_keys_of; exists S; split; [right; right; left; reflexivity|rewrite Es; eauto])).
      apply andb_true_iff in H5 as [_ H5]. apply zeqb_true in H5. exact H5.
    + unfold sget. rewrite Er, Ex, Es. cbn. lia.
Qed.

(* law 118: a true answer means the later observations ARE the first one, as records *)
Lemma dres_eqb_eq a b : dres_eqb a b = true <-> a = b.
Proof.
  rewrite dres_eqb_spec. split.
  - destruct a, b; cbn. intros [-> ->]. reflexivity.
  - intros ->. split; reflexivity.
Qed.

Theorem law_clone_independent_sound d before a1 a2 a3 :
  law_clone_independent d before a1 a2 a3 = true -> before = d /\ a1 = before /\ a2 = before /\ a3 = before.
Proof. unfold law_clone_independent. rewrite !andb_true_iff, !dres_eqb_eq. tauto. Qed.

Theorem law_unchanged_spec before after : law_unchanged before after = true <-> before = after.
Proof. unfold law_unchanged. apply bool_decide_eq_true. Qed.
