(* Proofs about QuantModel.v: Resource -> ResourceList -> Resource is the identity on [rt_domain];
   ResourceList -> Resource -> ResourceList returns every kept name unchanged (cpu, ephemeral-storage,
   scalars: any milli amount; memory, pods: whole units, otherwise rounded away from zero to the
   next whole unit). *)
From stdpp Require Import gmap.
From Coq Require Import ZArith Lia.
From V Require Import Base.Res C16.SatModel C16.FloatMini C16.QuantModel.
Open Scope Z_scope.

Lemma qvalue_units v : qvalue (1000 * v) = v.
Proof.
  unfold qvalue. destruct (0 <=? 1000 * v) eqn:E.
  - apply Z.leb_le in E. symmetry. apply Z.div_unique with (r := 999); lia.
  - apply Z.leb_gt in E.
    assert (H : (- (1000 * v) + 999) / 1000 = - v) by (symmetry; apply Z.div_unique with (r := 999); lia).
    rewrite H. lia.
Qed.

Lemma qvalue_whole m : (1000 | m) -> 1000 * qvalue m = m.
Proof. intros [k ->]. replace (k * 1000) with (1000 * k) by lia. rewrite qvalue_units. reflexivity. Qed.

(* Value() never loses magnitude: it rounds away from zero by less than one unit *)
Lemma qvalue_bounds m :
  (0 <= m -> m <= 1000 * qvalue m < m + 1000) /\ (m <= 0 -> m - 1000 < 1000 * qvalue m <= m).
Proof.
  unfold qvalue.
  pose proof (Z.div_mod (m + 999) 1000 ltac:(lia)). pose proof (Z.mod_pos_bound (m + 999) 1000 ltac:(lia)).
  pose proof (Z.div_mod (- m + 999) 1000 ltac:(lia)). pose proof (Z.mod_pos_bound (- m + 999) 1000 ltac:(lia)).
  destruct (0 <=? m) eqn:E; [apply Z.leb_le in E|apply Z.leb_gt in E]; split; intros Hm; lia.
Qed.

Lemma name_class_cpu k : name_class k = CCpu <-> k = cpu_name.
Proof. unfold name_class. repeat case_decide; subst; split; intros; try discriminate; try reflexivity; try congruence. Qed.
Lemma name_class_mem k : name_class k = CMem <-> k = mem_name.
Proof. unfold name_class. repeat case_decide; subst; split; intros; try discriminate; try reflexivity; try congruence. Qed.
Lemma name_class_pods k : name_class k = CPods <-> k = pods_name.
Proof. unfold name_class. repeat case_decide; subst; split; intros; try discriminate; try reflexivity; try congruence. Qed.

Lemma lookup_convert_z r k :
  convert_z r !! k =
  match scm r !! k with
  | Some v => Some (quantity_of k v)
  | None => if decide (k = cpu_name) then Some (cpu r)
            else if decide (k = mem_name) then Some (1000 * mem r) else None
  end.
Proof.
  unfold convert_z.
  destruct (scm r !! k) as [v|] eqn:E.
  - apply lookup_union_Some_l. rewrite map_lookup_imap, E. reflexivity.
  - rewrite lookup_union_r by (rewrite map_lookup_imap, E; reflexivity).
    destruct (decide (k = cpu_name)) as [->|Hc].
    + apply lookup_union_Some_l. apply lookup_singleton.
    + rewrite lookup_union_r by (apply lookup_singleton_ne; congruence).
      destruct (decide (k = mem_name)) as [->|Hm].
      * apply lookup_singleton.
      * apply lookup_singleton_ne. congruence.
Qed.

Lemma scalar_of_quantity_of k v : kept_scalar k = true -> scalar_of k (quantity_of k v) = Some v.
Proof.
  unfold kept_scalar, scalar_of, quantity_of. intros H.
  destruct (name_class k) eqn:E; try discriminate.
  - apply name_class_pods in E. subst. rewrite decide_True by reflexivity. rewrite qvalue_units. reflexivity.
  - rewrite decide_False; [reflexivity|]. intros ->. vm_compute in E. discriminate.
  - rewrite decide_False; [reflexivity|]. intros ->. vm_compute in E. discriminate.
Qed.

Lemma scm_lazy c m (s : smap) : scm (mkRes c m (if bool_decide (s = ∅) then None else Some s)) = s.
Proof.
  unfold scm; cbn [sc]. destruct (bool_decide (s = ∅)) eqn:E; cbn; [apply bool_decide_eq_true in E; subst|]; reflexivity.
Qed.

(* Resource -> ResourceList -> Resource *)
Definition names_kept (r : res) : Prop := forall k v, scm r !! k = Some v -> kept_scalar k = true.

Lemma new_resource_convert_gen_z r :
  names_kept r -> sc r <> Some ∅ ->
  new_resource_z (convert_z r) = (r, sget r pods_name).
Proof.
  intros Hk Hne. unfold new_resource_z.
  assert (Hcpu : scm r !! cpu_name = None).
  { destruct (scm r !! cpu_name) eqn:E; [|reflexivity]. apply Hk in E. vm_compute in E. discriminate. }
  assert (Hmem : scm r !! mem_name = None).
  { destruct (scm r !! mem_name) eqn:E; [|reflexivity]. apply Hk in E. vm_compute in E. discriminate. }
  assert (Hs : map_imap scalar_of (convert_z r) = scm r).
  { apply map_eq. intros k. rewrite map_lookup_imap, lookup_convert_z.
    destruct (scm r !! k) as [v|] eqn:E; cbn.
    - apply scalar_of_quantity_of. eapply Hk. exact E.
    - destruct (decide (k = cpu_name)) as [->|Hc]; [reflexivity|].
      destruct (decide (k = mem_name)) as [->|Hm]; reflexivity. }
  rewrite Hs, !lookup_convert_z, Hcpu, Hmem. cbn [default].
  rewrite decide_True by reflexivity.
  rewrite decide_False by (vm_compute; congruence). rewrite decide_True by reflexivity.
  cbn [default]. unfold id. rewrite qvalue_units.
  f_equal.
  - destruct r as [c m [s|]]; cbn [scm sc default Res.cpu Res.mem] in *.
    + unfold id in *. rewrite bool_decide_eq_false_2 by (intros ->; apply Hne; reflexivity). reflexivity.
    + rewrite bool_decide_eq_true_2 by reflexivity. reflexivity.
  - unfold sget. destruct (scm r !! pods_name) as [v|] eqn:E; cbn [default].
    + unfold quantity_of. rewrite decide_True by reflexivity. apply qvalue_units.
    + rewrite decide_False by (vm_compute; congruence). rewrite decide_False by (vm_compute; congruence). reflexivity.
Qed.

(* without the guards: what is lost — nothing on cpu / memory / kept scalars *)
Lemma new_resource_convert_pointwise_z r :
  scm r !! cpu_name = None -> scm r !! mem_name = None ->
  let r' := fst (new_resource_z (convert_z r)) in
  cpu r' = cpu r /\ mem r' = mem r /\
  forall k, scm r' !! k = if kept_scalar k then scm r !! k else None.
Proof.
  intros Hcpu Hmem. unfold new_resource_z. cbn [fst Res.cpu Res.mem]. rewrite scm_lazy.
  rewrite !lookup_convert_z, Hcpu, Hmem. cbn [default].
  rewrite decide_True by reflexivity.
  rewrite decide_False by (vm_compute; congruence). rewrite decide_True by reflexivity.
  cbn [default]. unfold id. rewrite qvalue_units. split; [reflexivity|split; [reflexivity|]].
  intros k.
  rewrite map_lookup_imap, lookup_convert_z.
  destruct (scm r !! k) as [v|] eqn:E; cbn.
  - destruct (kept_scalar k) eqn:Ek; [apply scalar_of_quantity_of; exact Ek|].
    unfold kept_scalar in Ek. unfold scalar_of, quantity_of.
    destruct (name_class k) eqn:En; try discriminate; try reflexivity.
  - destruct (decide (k = cpu_name)) as [->|Hc]; [cbn; reflexivity|].
    destruct (decide (k = mem_name)) as [->|Hm]; [cbn; reflexivity|]. cbn. destruct (kept_scalar k); reflexivity.
Qed.

(* ResourceList -> Resource -> ResourceList *)
Lemma scm_new_resource_z rl k : scm (fst (new_resource_z rl)) !! k = rl !! k ≫= scalar_of k.
Proof.
  unfold new_resource_z. cbn [fst]. rewrite scm_lazy. apply map_lookup_imap.
Qed.

Theorem convert_new_resource_z rl k :
  let rl' := convert_z (fst (new_resource_z rl)) in
  match name_class k with
  | CCpu => rl' !! k = Some (default 0 (rl !! k))
  | CMem => rl' !! k = Some (1000 * qvalue (default 0 (rl !! k)))
  | CPods => rl' !! k = (fun m => 1000 * qvalue m) <$> rl !! k
  | CEph | CScalar => rl' !! k = rl !! k
  | CCountQuota | CIgnoredDev | CDropped => rl' !! k = None
  end.
Proof.
  cbn zeta. rewrite lookup_convert_z, scm_new_resource_z.
  unfold new_resource_z. cbn [fst Res.cpu Res.mem].
  unfold scalar_of.
  destruct (name_class k) eqn:E.
  - apply name_class_cpu in E. subst. destruct (rl !! cpu_name); reflexivity.
  - apply name_class_mem in E. subst. destruct (rl !! mem_name); reflexivity.
  - apply name_class_pods in E. subst.
    destruct (rl !! pods_name) as [m|]; cbn; reflexivity.
  - assert (k <> pods_name /\ k <> cpu_name /\ k <> mem_name) as (N1 & N2 & N3)
      by (repeat split; intros ->; vm_compute in E; discriminate).
    destruct (rl !! k) as [m|]; cbn; [unfold quantity_of; rewrite decide_False by exact N1; reflexivity|].
    rewrite decide_False by exact N2. rewrite decide_False by exact N3. reflexivity.
  - assert (k <> cpu_name /\ k <> mem_name) as (N2 & N3) by (split; intros ->; vm_compute in E; discriminate).
    destruct (rl !! k); cbn; rewrite decide_False by exact N2; rewrite decide_False by exact N3; reflexivity.
  - assert (k <> pods_name /\ k <> cpu_name /\ k <> mem_name) as (N1 & N2 & N3)
      by (repeat split; intros ->; vm_compute in E; discriminate).
    destruct (rl !! k) as [m|]; cbn; [unfold quantity_of; rewrite decide_False by exact N1; reflexivity|].
    rewrite decide_False by exact N2. rewrite decide_False by exact N3. reflexivity.
  - assert (k <> cpu_name /\ k <> mem_name) as (N2 & N3) by (split; intros ->; vm_compute in E; discriminate).
    destruct (rl !! k); cbn; rewrite decide_False by exact N2; rewrite decide_False by exact N3; reflexivity.
  - assert (k <> cpu_name /\ k <> mem_name) as (N2 & N3) by (split; intros ->; vm_compute in E; discriminate).
    destruct (rl !! k); cbn; rewrite decide_False by exact N2; rewrite decide_False by exact N3; reflexivity.
Qed.

(* the whole-unit guard under which memory and pods come back unchanged as well *)
Corollary convert_new_resource_exact_z rl k m :
  rl !! k = Some m -> kept_scalar k = true \/ k = cpu_name \/ k = mem_name ->
  (k = mem_name \/ k = pods_name -> (1000 | m)) ->
  convert_z (fst (new_resource_z rl)) !! k = Some m.
Proof.
  intros Hk Hclass Hwhole. pose proof (convert_new_resource_z rl k) as H. cbn zeta in H.
  destruct (name_class k) eqn:E.
  - rewrite H, Hk. reflexivity.
  - rewrite H, Hk. cbn [default]. apply name_class_mem in E. rewrite qvalue_whole by (apply Hwhole; auto). reflexivity.
  - rewrite H, Hk. cbn. apply name_class_pods in E. rewrite qvalue_whole by (apply Hwhole; auto). reflexivity.
  - rewrite H. exact Hk.
  - exfalso. destruct Hclass as [Hc|[->| ->]]; [unfold kept_scalar in Hc; rewrite E in Hc; discriminate|vm_compute in E; discriminate..].
  - rewrite H. exact Hk.
  - exfalso. destruct Hclass as [Hc|[->| ->]]; [unfold kept_scalar in Hc; rewrite E in Hc; discriminate|vm_compute in E; discriminate..].
  - exfalso. destruct Hclass as [Hc|[->| ->]]; [unfold kept_scalar in Hc; rewrite E in Hc; discriminate|vm_compute in E; discriminate..].
Qed.

(* ---- ResFloat642Quantity / ResQuantity2Float64 ---- *)

(* float -> Quantity -> float: the amount truncated toward zero to a whole number of units *)
Theorem float_quantity_float_z g c x : 0 < g ->
  quantity_to_float_z g c (float_to_quantity_z g c x) = g * Z.quot x g.
Proof.
  intros Hg. unfold quantity_to_float_z, float_to_quantity_z. destruct c; [lia|].
  rewrite qvalue_units. lia.
Qed.

(* ... hence the identity exactly on the integral amounts *)
Theorem float_quantity_float_id_z g c x : 0 < g ->
  (quantity_to_float_z g c (float_to_quantity_z g c x) = x <-> (g | x)).
Proof.
  intros Hg. rewrite float_quantity_float_z by exact Hg. split.
  - intros H. exists (Z.quot x g). lia.
  - intros [k ->]. rewrite Z.quot_mul by lia. lia.
Qed.

(* ... and otherwise a truncation toward zero by less than one unit *)
Theorem float_quantity_float_bounds_z g c x : 0 < g ->
  let y := quantity_to_float_z g c (float_to_quantity_z g c x) in
  (0 <= x -> y <= x < y + g) /\ (x <= 0 -> y - g < x <= y).
Proof.
  intros Hg. cbn zeta. rewrite float_quantity_float_z by exact Hg.
  pose proof (Z.quot_rem' x g) as Hqr.
  split; intros Hx.
  - pose proof (Z.rem_bound_pos x g Hx Hg). lia.
  - destruct (Z.eq_dec x 0) as [->|Hne].
    + rewrite Z.quot_0_l by lia. lia.
    + pose proof (Z.rem_bound_pos (- x) g ltac:(lia) Hg) as Hb. rewrite Z.rem_opp_l' in Hb. lia.
Qed.

(* Quantity -> float -> Quantity: cpu keeps every milli amount; other names keep whole units and round
   fractional units away from zero (Value()) *)
Theorem quantity_float_quantity_z g c m : 0 < g ->
  float_to_quantity_z g c (quantity_to_float_z g c m) = if c then m else 1000 * qvalue m.
Proof.
  intros Hg. unfold quantity_to_float_z, float_to_quantity_z. destruct c; rewrite Z.quot_mul by lia; reflexivity.
Qed.

Corollary quantity_float_quantity_id_z g c m : 0 < g -> (c = true \/ (1000 | m)) ->
  float_to_quantity_z g c (quantity_to_float_z g c m) = m.
Proof.
  intros Hg H. rewrite quantity_float_quantity_z by exact Hg. destruct c; [reflexivity|].
  destruct H as [H|H]; [discriminate|]. apply qvalue_whole. exact H.
Qed.

(* ---- magnitudes up to 2^63: float64 / int64 effects ---- *)
Lemma amount_ok_spec x : amount_ok x = true -> f64 x = x /\ i64 x = x.
Proof.
  unfold amount_ok, fexact, i64, min64, max64. rewrite andb_true_iff, Z.eqb_eq, bool_decide_eq_true.
  change (2 ^ 63) with 9223372036854775808. intros [H1 H2]. split; [exact H1|].
  replace (-9223372036854775808 <=? x) with true by (symmetry; apply Z.leb_le; lia).
  replace (x <=? 9223372036854775807) with true by (symmetry; apply Z.leb_le; lia). reflexivity.
Qed.

(* the guard in the words of the float mini-model: x is a binary64 value *)
Lemma amount_ok_float x : amount_ok x = true -> FloatMini.round x = Fin x /\ Z.abs x < 2 ^ 63.
Proof.
  unfold amount_ok, fexact. rewrite andb_true_iff, Z.eqb_eq, bool_decide_eq_true. intros [H1 H2].
  split; [|exact H2]. unfold FloatMini.round. fold (f64 x). rewrite H1.
  assert (H : 2 ^ 63 < 2 ^ 1024) by (apply Z.pow_lt_mono_r; lia).
  replace (2 ^ 1024 <=? x) with false by (symmetry; apply Z.leb_gt; lia).
  replace (x <=? - 2 ^ 1024) with false by (symmetry; apply Z.leb_gt; lia). reflexivity.
Qed.

Lemma map_res_id F r :
  F (cpu r) = cpu r -> F (mem r) = mem r -> (forall k v, scm r !! k = Some v -> F v = v) -> map_res F r = r.
Proof.
  destruct r as [c m [s|]]; cbn; intros H1 H2 H3; unfold map_res; cbn; rewrite H1, H2; [|reflexivity].
  f_equal. f_equal. apply map_eq. intros k. rewrite lookup_fmap.
  destruct (s !! k) as [v|] eqn:E; cbn; [|reflexivity]. f_equal. apply (H3 k v). exact E.
Qed.

Lemma res_exact_spec r : res_exact r = true -> map_res i64 r = r /\ map_res f64 r = r.
Proof.
  unfold res_exact. rewrite !andb_true_iff, bool_decide_eq_true. intros [[H1 H2] H3].
  apply amount_ok_spec in H1, H2.
  split; apply map_res_id; try tauto; intros k v E; apply amount_ok_spec, (H3 k v E).
Qed.

Lemma scm_map_res F r k : scm (map_res F r) !! k = F <$> scm r !! k.
Proof.
  unfold scm, map_res. cbn [sc]. destruct (sc r); cbn [default]; [apply lookup_fmap|].
  rewrite lookup_empty. reflexivity.
Qed.

(* Resource -> ResourceList -> Resource is the identity on rt_domain: scalar names NewResource keeps, no
   empty non-nil scalar map, every amount a float64-exact integer with |amount| < 2^63 in the unit the
   code converts *)
Theorem new_resource_convert r : rt_domain r = true -> new_resource (convert r) = (r, sget r pods_name).
Proof.
  unfold rt_domain. rewrite !andb_true_iff. intros [[H1 H2] H3].
  apply bool_decide_eq_true in H1. apply negb_true_iff, bool_decide_eq_false in H2.
  destruct (res_exact_spec r H3) as [E1 E2].
  unfold convert, new_resource. rewrite E1.
  rewrite (new_resource_convert_gen_z r); [|intros k v E; apply (H1 k v E)|exact H2].
  rewrite E2. reflexivity.
Qed.

(* ResourceList -> Resource -> ResourceList on rl_exact: as on small amounts *)
Theorem convert_new_resource_exact_range rl : rl_exact rl = true ->
  convert (fst (new_resource rl)) = convert_z (fst (new_resource_z rl)).
Proof.
  unfold rl_exact, new_resource, convert. destruct (new_resource_z rl) as [r mt]. cbn [fst]. intros H.
  destruct (res_exact_spec r H) as [E1 E2]. rewrite E2, E1. reflexivity.
Qed.

Theorem convert_new_resource rl k : rl_exact rl = true ->
  let rl' := convert (fst (new_resource rl)) in
  match name_class k with
  | CCpu => rl' !! k = Some (default 0 (rl !! k))
  | CMem => rl' !! k = Some (1000 * qvalue (default 0 (rl !! k)))
  | CPods => rl' !! k = (fun m => 1000 * qvalue m) <$> rl !! k
  | CEph | CScalar => rl' !! k = rl !! k
  | CCountQuota | CIgnoredDev | CDropped => rl' !! k = None
  end.
Proof. intros H. cbn zeta. rewrite (convert_new_resource_exact_range rl H). apply convert_new_resource_z. Qed.

Corollary convert_new_resource_exact rl k m : rl_exact rl = true ->
  rl !! k = Some m -> kept_scalar k = true \/ k = cpu_name \/ k = mem_name ->
  (k = mem_name \/ k = pods_name -> (1000 | m)) ->
  convert (fst (new_resource rl)) !! k = Some m.
Proof. intros H. rewrite (convert_new_resource_exact_range rl H). apply convert_new_resource_exact_z. Qed.

(* without any guard: every amount goes through float64 rounding and int64 conversion, per name *)
Theorem convert_new_resource_any rl k : rl_in_range rl = true ->
  let c x := i64 (f64 x) in
  let rl' := convert (fst (new_resource rl)) in
  match name_class k with
  | CCpu => rl' !! k = Some (c (default 0 (rl !! k)))
  | CMem => rl' !! k = Some (1000 * c (qvalue (default 0 (rl !! k))))
  | CPods => rl' !! k = (fun m => 1000 * c (qvalue m)) <$> rl !! k
  | CEph | CScalar => rl' !! k = c <$> rl !! k
  | CCountQuota | CIgnoredDev | CDropped => rl' !! k = None
  end.
Proof.
  intros _. cbn zeta. unfold convert, new_resource.
  destruct (new_resource_z rl) as [rz mt] eqn:Ez. cbn [fst].
  assert (Hrz : rz = fst (new_resource_z rl)) by (rewrite Ez; reflexivity).
  rewrite lookup_convert_z, !scm_map_res. rewrite Hrz, scm_new_resource_z.
  unfold new_resource_z. cbn [fst map_res Res.cpu Res.mem]. unfold scalar_of.
  destruct (name_class k) eqn:E.
  - apply name_class_cpu in E. subst. destruct (rl !! cpu_name); reflexivity.
  - apply name_class_mem in E. subst. destruct (rl !! mem_name); reflexivity.
  - apply name_class_pods in E. subst. destruct (rl !! pods_name) as [m|]; cbn; reflexivity.
  - assert (k <> pods_name /\ k <> cpu_name /\ k <> mem_name) as (N1 & N2 & N3)
      by (repeat split; intros ->; vm_compute in E; discriminate).
    destruct (rl !! k) as [m|]; cbn; [unfold quantity_of; rewrite decide_False by exact N1; reflexivity|].
    rewrite decide_False by exact N2. rewrite decide_False by exact N3. reflexivity.
  - assert (k <> cpu_name /\ k <> mem_name) as (N2 & N3) by (split; intros ->; vm_compute in E; discriminate).
    destruct (rl !! k); cbn; rewrite decide_False by exact N2; rewrite decide_False by exact N3; reflexivity.
  - assert (k <> pods_name /\ k <> cpu_name /\ k <> mem_name) as (N1 & N2 & N3)
      by (repeat split; intros ->; vm_compute in E; discriminate).
    destruct (rl !! k) as [m|]; cbn; [unfold quantity_of; rewrite decide_False by exact N1; reflexivity|].
    rewrite decide_False by exact N2. rewrite decide_False by exact N3. reflexivity.
  - assert (k <> cpu_name /\ k <> mem_name) as (N2 & N3) by (split; intros ->; vm_compute in E; discriminate).
    destruct (rl !! k); cbn; rewrite decide_False by exact N2; rewrite decide_False by exact N3; reflexivity.
  - assert (k <> cpu_name /\ k <> mem_name) as (N2 & N3) by (split; intros ->; vm_compute in E; discriminate).
    destruct (rl !! k); cbn; rewrite decide_False by exact N2; rewrite decide_False by exact N3; reflexivity.
Qed.

(* what the unchanged code does with the infinite sentinel (amd64): a NEGATIVE quantity, -2^63 *)
Example convert_sentinel :
  let inf := (2 ^ 53 - 1) * 2 ^ 971 in
  convert (mkRes inf inf None) !! cpu_name = Some min64 /\ amount_ok inf = false /\
  fst (new_resource (convert (mkRes inf inf None))) = mkRes min64 min64 None.
Proof. vm_compute. repeat split; reflexivity. Qed.

(* non-vacuity above 2^53: 1 Ei of memory, 3*2^60 milli-bytes of ephemeral-storage, 2^63 - 1024 milli-cpu,
   2^53 + 2 pods *)
Definition large_res : res :=
  mkRes (2 ^ 63 - 1024) (2 ^ 60) (Some {[1%positive := 2 ^ 53 + 2; 7%positive := 3 * 2 ^ 60]}).
Example roundtrip_large_nonvacuous :
  rt_domain large_res = true /\
  bool_decide (new_resource (convert large_res) = (large_res, 2 ^ 53 + 2)) = true /\
  amount_ok (2 ^ 53 + 1) = false /\ f64 (2 ^ 53 + 1) = 2 ^ 53 /\ f64 (2 ^ 53 + 3) = 2 ^ 53 + 4.
Proof. vm_compute. repeat split; reflexivity. Qed.

(* ---- ResFloat642Quantity / ResQuantity2Float64 with their int64 / float64 effects ---- *)
Lemma conv_domain_spec g x : conv_domain g x = true ->
  0 < g /\ f64 (Z.quot x g) = Z.quot x g /\ i64 (Z.quot x g) = Z.quot x g.
Proof.
  unfold conv_domain. rewrite !andb_true_iff, bool_decide_eq_true. intros [[[Hg _] _] H].
  apply amount_ok_spec in H. tauto.
Qed.

Lemma conv_bridge g c x : conv_domain g x = true ->
  quantity_to_float g c (float_to_quantity g c x) = quantity_to_float_z g c (float_to_quantity_z g c x).
Proof.
  intros H. destruct (conv_domain_spec g x H) as (Hg & F & I).
  unfold quantity_to_float, float_to_quantity, quantity_to_float_z, float_to_quantity_z.
  rewrite I. destruct c; [rewrite F; reflexivity|]. rewrite qvalue_units, F. reflexivity.
Qed.

Theorem float_quantity_float g c x : conv_domain g x = true ->
  quantity_to_float g c (float_to_quantity g c x) = g * Z.quot x g.
Proof.
  intros H. rewrite conv_bridge by exact H. apply float_quantity_float_z.
  apply (conv_domain_spec g x H).
Qed.

Theorem float_quantity_float_id g c x : conv_domain g x = true ->
  (quantity_to_float g c (float_to_quantity g c x) = x <-> (g | x)).
Proof.
  intros H. rewrite conv_bridge by exact H. apply float_quantity_float_id_z. apply (conv_domain_spec g x H).
Qed.

Theorem float_quantity_float_bounds g c x : conv_domain g x = true ->
  let y := quantity_to_float g c (float_to_quantity g c x) in
  (0 <= x -> y <= x < y + g) /\ (x <= 0 -> y - g < x <= y).
Proof.
  intros H. cbn zeta. rewrite conv_bridge by exact H. apply float_quantity_float_bounds_z.
  apply (conv_domain_spec g x H).
Qed.

Theorem quantity_float_quantity g c m : 0 < g -> qty_domain c m = true ->
  float_to_quantity g c (quantity_to_float g c m) = if c then m else 1000 * qvalue m.
Proof.
  intros Hg H. unfold qty_domain in H. apply amount_ok_spec in H as [F I].
  unfold float_to_quantity, quantity_to_float. rewrite F, Z.quot_mul by lia. rewrite I.
  destruct c; reflexivity.
Qed.

Corollary quantity_float_quantity_id g c m : 0 < g -> qty_domain c m = true -> (c = true \/ (1000 | m)) ->
  float_to_quantity g c (quantity_to_float g c m) = m.
Proof.
  intros Hg H Hw. rewrite quantity_float_quantity by assumption. destruct c; [reflexivity|].
  destruct Hw as [Hw|Hw]; [discriminate|]. apply qvalue_whole. exact Hw.
Qed.

(* outside the guard the round trip FAILS on the real code and in the model alike: 2^53+1 milli-cpu comes
   back as 2^53 (float64 rounding); a float of 2^63 becomes MinInt64 milli (int64(f), amd64) *)
Theorem quantity_float_quantity_refuted :
  exists m, qty_domain true m = false /\ float_to_quantity 1 true (quantity_to_float 1 true m) <> m.
Proof. exists (2 ^ 53 + 1). vm_compute. split; [reflexivity|discriminate]. Qed.

Theorem float_quantity_float_refuted :
  exists x, conv_domain 1 x = false /\ quantity_to_float 1 true (float_to_quantity 1 true x) <> x.
Proof. exists (2 ^ 63). vm_compute. split; [reflexivity|discriminate]. Qed.

Example conv_nonvacuous :
  conv_domain 1 4007 = true /\ quantity_to_float 1 true (float_to_quantity 1 true 4007) = 4007 /\
  conv_domain 16 (16 * 4007 + 9) = true /\ float_to_quantity 16 true (16 * 4007 + 9) = 4007 /\
  conv_domain 1 (3 * 2 ^ 60) = true /\ qty_domain false 2500 = true /\ quantity_to_float 1 false 2500 = 3 /\
  qty_domain true (2 ^ 63 - 1024) = true /\
  float_to_quantity 1 true (quantity_to_float 1 true (2 ^ 63 - 1024)) = 2 ^ 63 - 1024 /\
  conv_domain 3 10 = false.
Proof. vm_compute. repeat split; reflexivity. Qed.
