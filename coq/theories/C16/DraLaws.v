(* Wire codecs and executable laws for the DRA accounting (DraModel.v) and the Quantity conversions
   (QuantModel.v).  The laws are evaluated on what the IMPLEMENTATION returned.  They are written over
   unbounded integers: no saturating operation, no new_resource / convert is called; what they share
   with the model is the selection of the contributing tasks ([contribs]) and the name-class table. *)
From stdpp Require Import gmap.
From Coq Require Import ZArith List.
From V Require Import Base.Codec Base.Res Base.ResCodec C16.SatModel C16.DraModel C16.QuantModel C16.Laws.
Import ListNotations.
Open Scope Z_scope.

(* ---- codecs ---- *)
Definition dZmap : dec (gmap positive Z) :=
  let* l := dList (dPair dPos dZ) in ret (list_to_map l : gmap positive Z).
Definition dDres : dec dres := let* c := dZ in let* caps := dZmap in ret (mkD c caps).
Definition dDmap : dec dmap :=
  let* l := dList (dPair dPos dDres) in ret (list_to_map l : dmap).
Definition dTask : dec dtask :=
  let* ns := dZ in let* nm := dZ in let* uid := dZ in let* role := dPos in let* rq := dOpt dDmap in
  ret (mkT ns nm uid role rq).
Definition dJob : dec djob :=
  let* mn := dZ in let* tma := dZmap in let* ts := dList dTask in ret (mkJ mn tma ts).

Definition eZmap (m : gmap positive Z) : list Z :=
  eList (fun kv => [Zpos (fst kv); snd kv]) (sort_kv (map_to_list m)).
Definition eDres (d : dres) : list Z := d_count d :: eZmap (d_caps d).
Definition eDmap (m : dmap) : list Z :=
  eList (fun kv => Zpos (fst kv) :: eDres (snd kv)) (sort_kv (map_to_list m)).

(* ---- GetMinDRAResources ---- *)
Definition nonneg_terms (l : list (Z * Z)) : bool :=
  forallb (fun ct => bool_decide (0 <= fst ct) && bool_decide (0 <= snd ct)) l.

Definition keys_list {A} (m : gmap positive A) : list positive := map fst (map_to_list m).

Definition call_classes (cs : list (dmap * Z)) : list positive :=
  flat_map (fun ct => keys_list (fst ct)) cs.
Definition call_dims (c : positive) (cs : list (dmap * Z)) : list positive :=
  flat_map (fun ct => match fst ct !! c with Some q => keys_list (d_caps q) | None => [] end) cs.

Definition is_some {A} (o : option A) : bool := match o with Some _ => true | None => false end.

(* got = the map the implementation returned (None = nil) *)
Definition law_min_dra (j : djob) (got : option dmap) : bool :=
  let cs := contribs j in
  (match got with Some m => match map_to_list m with [] => false | _ => true end | None => true end) &&
  forallb (fun c =>
    let terms := class_terms c cs in
    let g := result_at got c in
    (* a device class is reported exactly when a contributing task requests it *)
    Bool.eqb (is_some g) (existsb (fun ct => is_some (fst ct !! c)) cs) &&
    (* saturation: never negative, and exactly min(MaxInt64, exact sum of exact products) *)
    (if nonneg_terms terms
     then bool_decide (0 <= count_of g) && zeqb (count_of g) (Z.min max64 (exact_sum terms))
     else true) &&
    (* capacities: exact sums *)
    forallb (fun dim => zeqb (cap_of g dim) (exact_sum (cap_terms c dim cs)) &&
                        Bool.eqb (is_some (match g with Some d => d_caps d !! dim | None => None end))
                                 (negb (bool_decide (cap_terms c dim cs = []))))
            (call_dims c cs ++ match g with Some d => keys_list (d_caps d) | None => [] end))
  (call_classes cs ++ match got with Some m => keys_list m | None => [] end).

(* monotonicity, on two runs of the implementation: j' is j with larger counts / multiplicities *)
Definition dres_le (a b : dres) : bool :=
  bool_decide (0 <= d_count a) && bool_decide (d_count a <= d_count b).

Definition dmap_le (a b : dmap) : bool :=
  bool_decide (dom a = dom b) &&
  forallb (fun c => match a !! c, b !! c with
                    | Some x, Some y => dres_le x y
                    | _, _ => false
                    end) (keys_list a).

Definition task_le (a b : dtask) : bool :=
  zeqb (t_ns a) (t_ns b) && zeqb (t_name a) (t_name b) && zeqb (t_uid a) (t_uid b) &&
  bool_decide (t_role a = t_role b) &&
  match t_req a, t_req b with
  | None, None => true
  | Some x, Some y => dmap_le x y
  | _, _ => false
  end.

Fixpoint forall2b {A} (f : A -> A -> bool) (l l' : list A) : bool :=
  match l, l' with
  | [], [] => true
  | x :: r, y :: r' => f x y && forall2b f r r'
  | _, _ => false
  end.

Definition tma_le (a b : gmap positive Z) : bool :=
  bool_decide (dom a = dom b) &&
  forallb (fun r => match a !! r, b !! r with
                    | Some n, Some n' => bool_decide (n <= n') && Bool.eqb (0 <? n) (0 <? n')
                    | _, _ => false
                    end) (keys_list a).

Definition job_le (j j' : djob) : bool :=
  bool_decide (j_min j <= j_min j') && tma_le (j_tma j) (j_tma j') &&
  forall2b task_le (j_tasks j) (j_tasks j').

Definition law_dra_mono (j j' : djob) (got got' : option dmap) : bool :=
  if job_le j j'
  then forallb (fun c => bool_decide (count_of (result_at got c) <= count_of (result_at got' c)))
               (match got with Some m => keys_list m | None => [] end ++
                match got' with Some m => keys_list m | None => [] end)
  else true.

(* ---- DRAResource.Add / Sub ---- *)
Definition law_dra_ops (d : dres) (o : option dres) (ga gs : dres) : bool :=
  match o with
  | None => zeqb (d_count ga) (d_count d) && bool_decide (d_caps ga = d_caps d) &&
            zeqb (d_count gs) (d_count d) && bool_decide (d_caps gs = d_caps d)
  | Some o =>
    zeqb (d_count ga) (clamp64 (d_count d + d_count o)) &&
    implb (bool_decide (0 <= d_count d) && bool_decide (0 <= d_count o)) (bool_decide (0 <= d_count ga)) &&
    forallb (fun dim => zeqb (default 0 (d_caps ga !! dim)) (default 0 (d_caps d !! dim) + default 0 (d_caps o !! dim)))
            (keys_list (d_caps d) ++ keys_list (d_caps o) ++ keys_list (d_caps ga)) &&
    bool_decide (0 <= d_count gs) &&
    implb (bool_decide (0 <= d_count d) && bool_decide (0 <= d_count o))
          (zeqb (d_count gs) (Z.max 0 (d_count d - d_count o))) &&
    bool_decide (dom (d_caps gs) = dom (d_caps d)) &&
    forallb (fun dim => zeqb (default 0 (d_caps gs !! dim))
                             (match d_caps o !! dim with
                              | Some w => Z.max 0 (default 0 (d_caps d !! dim) - w)
                              | None => default 0 (d_caps d !! dim)
                              end))
            (keys_list (d_caps d))
  end.

(* ---- Quantity conversions ---- *)
(* a quantity travels as (whole units, remaining milli-units), both of the sign of the quantity, so that
   whole-unit quantities up to 2^63 units fit the int64 tokens *)
Definition dRlist : dec rlist :=
  let* l := dList (let* k := dPos in let* u := dZ in let* f := dZ in ret (k, u * 1000 + f)) in
  ret (list_to_map l : rlist).
Definition eRlist (m : rlist) : list Z :=
  eList (fun kv => [Zpos (fst kv); Z.quot (snd kv) 1000; Z.rem (snd kv) 1000]) (sort_kv (map_to_list m)).

(* x is m rounded away from zero to whole units (multiples of 1000 milli) *)
Definition whole_up (m x : Z) : bool :=
  zeqb (x mod 1000) 0 &&
  (if bool_decide (0 <= m) then bool_decide (m <= x) && bool_decide (x < m + 1000)
   else bool_decide (m - 1000 < x) && bool_decide (x <= m)).

(* r --ConvertRes2ResList--> rl --NewResource--> (r', maxTaskNum) , all three as observed *)
Definition law_rt_res (r : res) (rl : rlist) (r' : res) (mt : Z) : bool :=
  (* every amount a float64-exact integer below 2^63 in magnitude (excludes only the MaxFloat64 sentinel:
     an int64-backed Quantity cannot carry it) *)
  if res_exact r && bool_decide (scm r !! cpu_name = None) && bool_decide (scm r !! mem_name = None) then
    (* to quantities, per dimension *)
    bool_decide (rl !! cpu_name = Some (cpu r)) && bool_decide (rl !! mem_name = Some (1000 * mem r)) &&
    forallb (fun k => bool_decide (k = cpu_name) || bool_decide (k = mem_name) ||
                      bool_decide (rl !! k = (if bool_decide (k = pods_name) then (fun v => 1000 * v) else (fun v => v)) <$> scm r !! k))
            (keys_list (scm r) ++ keys_list rl) &&
    (* and back, per dimension *)
    zeqb (cpu r') (cpu r) && zeqb (mem r') (mem r) &&
    forallb (fun k => bool_decide (scm r' !! k = if kept_scalar k then scm r !! k else None))
            (keys_list (scm r) ++ keys_list (scm r')) &&
    negb (bool_decide (sc r' = Some ∅)) &&
    zeqb mt (sget r pods_name)
  else true.

(* rl --NewResource--> (r, maxTaskNum) --ConvertRes2ResList--> rl' *)
Definition law_rt_list (rl : rlist) (r : res) (mt : Z) (rl' : rlist) : bool :=
  forallb (fun k =>
    match name_class k with
    | CCpu => negb (amount_ok (default 0 (rl !! k))) ||
              bool_decide (rl' !! k = Some (default 0 (rl !! k))) && zeqb (cpu r) (default 0 (rl !! k))
    | CMem => negb (amount_ok (qvalue (default 0 (rl !! k)))) ||
              match rl' !! k with
              | Some x => whole_up (default 0 (rl !! k)) x && zeqb (1000 * mem r) x
              | None => false
              end
    | CPods => match rl !! k, rl' !! k with
               | Some m, Some x => negb (amount_ok (qvalue m)) ||
                                   whole_up m x && zeqb (1000 * sget r k) x && zeqb (1000 * mt) x
               | None, None => zeqb mt 0
               | _, _ => false
               end
    | CEph | CScalar => match rl !! k with
                        | Some m => negb (amount_ok m) ||
                                    bool_decide (rl' !! k = Some m) && bool_decide (scm r !! k = Some m)
                        | None => bool_decide (rl' !! k = None) && bool_decide (scm r !! k = None)
                        end
    | CCountQuota | CIgnoredDev | CDropped => bool_decide (rl' !! k = None) && bool_decide (scm r !! k = None)
    end)
  (cpu_name :: mem_name :: pods_name :: keys_list rl ++ keys_list rl' ++ keys_list (scm r)).

(* ---- buildTaskDRAInfo (the scheduler cache building TaskInfo.DRAResreq) ---- *)
Definition dRaw : dec rawreq :=
  let* k := dZ in let* c := dPos in let* n := dZ in let* caps := dZmap in ret (mkRaw k c n caps).
Definition dClaims : dec (gmap positive (list rawreq)) :=
  let* l := dList (dPair dPos (dList dRaw)) in ret (list_to_map l : gmap positive (list rawreq)).
Definition dPerClaim : dec (gmap positive dmap) :=
  let* l := dList (dPair dPos dDmap) in ret (list_to_map l : gmap positive dmap).
Definition dBuildInput : dec (gmap positive (list rawreq) * list positive) := dPair dClaims (dList dPos).

Definition eBuild (b : build_result) : list Z :=
  match b with
  | BuildPanic => [-1]
  | BuildError => [-2]
  | BuildOk None => [0]
  | BuildOk (Some (r, per)) =>
    1 :: eDmap r ++ [-101] ++ eList (fun kv => Zpos (fst kv) :: eDmap (snd kv)) (sort_kv (map_to_list per))
  end.

Definition dBuildGot : dec (option (dmap * gmap positive dmap)) :=
  let* f := dZ in
  if f =? 0 then ret None
  else let* r := dDmap in let* _t := dZ in let* per := dPerClaim in ret (Some (r, per)).

Definition cap_products (c dim : positive) (rqs : list ereq) : list Z :=
  flat_map (fun rq => if bool_decide (e_class rq = c)
                      then match e_caps rq !! dim with Some v => [v * e_count rq] | None => [] end
                      else []) rqs.

(* m is what accumulating the requests rqs must give: per device class the count is
   min(MaxInt64, exact sum) and never negative; capacities are exact sums of capacity * count *)
Definition check_dra_map (m : dmap) (rqs : list ereq) : bool :=
  forallb (fun c =>
    let cs := class_counts c rqs in
    let g := m !! c in
    Bool.eqb (is_some g) (negb (bool_decide (cs = []))) &&
    (if forallb (fun x => bool_decide (0 <= x)) cs
     then bool_decide (0 <= count_of g) && zeqb (count_of g) (Z.min max64 (sum_list cs))
     else true) &&
    forallb (fun dim => zeqb (cap_of g dim) (sum_list (cap_products c dim rqs)))
            (flat_map (fun rq => keys_list (e_caps rq)) rqs ++
             match g with Some d => keys_list (d_caps d) | None => [] end))
  (map e_class rqs ++ keys_list m).

Definition law_task_dra (claims : gmap positive (list rawreq)) (refs : list positive)
           (got : option (dmap * gmap positive dmap)) : bool :=
  let eff c := effective_all (default [] (claims !! c)) in
  let distinct := remove_dups refs in
  match got with
  | None => forallb (fun c => bool_decide (eff c = [])) distinct
  | Some (r, per) =>
    check_dra_map r (flat_map eff distinct) &&
    forallb (fun c => match per !! c with
                      | Some m => check_dra_map m (eff c) && negb (bool_decide (eff c = []))
                      | None => bool_decide (eff c = [])
                      end) distinct &&
    forallb (fun c => bool_decide (c ∈ refs)) (keys_list per)
  end.

(* ---- ResFloat642Quantity / ResQuantity2Float64 on the implementation's results ---- *)

(* t is x/g truncated toward zero *)
Definition trunc_of (g x t : Z) : bool :=
  if bool_decide (0 <= x) then bool_decide (g * t <= x) && bool_decide (x < g * t + g)
  else bool_decide (g * t - g < x) && bool_decide (x <= g * t).

(* the float64 value mant * 2^e equals the integer v — exactly *)
Definition float_is (mant e v : Z) : bool :=
  if bool_decide (0 <= e) then zeqb (mant * 2 ^ e) v else zeqb mant (v * 2 ^ (- e)).

(* float x/g --ResFloat642Quantity--> q (milli) --ResQuantity2Float64--> the float mant*2^e, which
   must be the whole number t of units x/g truncates to *)
Definition law_f2q2f (g : Z) (is_cpu : bool) (x q mant e : Z) : bool :=
  if conv_domain g x then
    let t := if is_cpu then q else q / 1000 in
    (is_cpu || zeqb (q mod 1000) 0) && trunc_of g x t && float_is mant e t
  else true.

(* quantity m (milli) --ResQuantity2Float64--> float mant*2^e --ResFloat642Quantity--> back (milli) *)
Definition law_q2f2q (m : Z) (is_cpu : bool) (mant e back : Z) : bool :=
  if qty_domain is_cpu m then
    (* the value read from the Quantity is a float64: exact round trip *)
    (if is_cpu then float_is mant e m && zeqb back m
     else zeqb (back mod 1000) 0 && whole_up m back && float_is mant e (back / 1000))
  else
    (* otherwise float64(int64) rounds to the nearest float64 (ties to even) and that is all that is asked *)
    float_is mant e (f64 (if is_cpu then m else qvalue m)).

(* ---- consistency of the strict / non-strict, total / partial comparisons under one convention;
        rl = rr.Less(r, d) ---- *)
Definition law_partial (less lesseq lp lep rl : bool) : bool :=
  implb lp lep && implb lesseq lep && implb less lp && implb (negb lep) rl.

(* Resource.Sub panics exactly when its argument is not LessEqual (Zero convention) the receiver *)
Definition law_sub_assert (panicked rr_le_r : bool) : bool := Bool.eqb panicked (negb rr_le_r).

(* MinDimensionResource under the Infinity convention: cpu and memory are plain minima (0 is a bound like
   any other), a scalar of r is bounded by rr's amount when rr has that name and left alone otherwise *)
Definition law_min_inf (r rr mn : res) : bool :=
  zeqb (cpu mn) (Z.min (cpu r) (cpu rr)) && zeqb (mem mn) (Z.min (mem r) (mem rr)) &&
  forallb (fun k => match scm r !! k with
                    | Some v => bool_decide (scm mn !! k = Some (match scm rr !! k with Some w => Z.min v w | None => v end))
                    | None => bool_decide (scm mn !! k = None)
                    end)
          (keys_of [r; rr; mn]).

(* ---- "clones share no storage" on the mechanism: clone, mutate the clone, look at the source again ----
   wire form of a DRAResource whose capacities carry a backing flag (0 = int64-backed Quantity, 1 = backed
   by an *inf.Dec, which a struct copy shares); the model has value semantics and ignores the flag *)
Definition dDresB : dec dres :=
  let* c := dZ in
  let* l := dList (let* k := dPos in let* m := dZ in let* _b := dZ in ret (k, m)) in
  ret (mkD c (list_to_map l : gmap positive Z)).

Definition dres_eqb (a b : dres) : bool := zeqb (d_count a) (d_count b) && bool_decide (d_caps a = d_caps b).

(* before = the source as observed before any mutation; a1 / a2 / a3 = the source observed after
   clone.Add(o), after clone.Sub(o), after TaskInfo.Clone().DRAResreq[class].Add(o) *)
Definition law_clone_independent (d before a1 a2 a3 : dres) : bool :=
  dres_eqb before d && dres_eqb a1 before && dres_eqb a2 before && dres_eqb a3 before.

(* S = r.SubWithoutAssert(x), B = S.Add(x) as computed by Go: back to r in every dimension (r's map not nil) *)
Definition law_sub_add (r x S B : res) : bool :=
  zeqb (cpu B) (cpu r) && zeqb (mem B) (mem r) &&
  zeqb (cpu S) (cpu r - cpu x) && zeqb (mem S) (mem r - mem x) &&
  match sc r with
  | None => true    (* nil scalar map: sub returns early, the scalars are not claimed *)
  | Some _ =>
    forallb (fun k => zeqb (sget B k) (sget r k) && zeqb (sget S k) (sget r k - sget x k)) (keys_of [r; x; S; B])
  end.

(* an argument (or the receiver's source) observed after an operation equals what was observed before:
   the two observations travel as token lists *)
Definition law_unchanged (before after : list Z) : bool := bool_decide (before = after).
