(* Model of pkg/scheduler/api/saturating.go.  Go int64 arithmetic wraps; the
   wrap is written explicitly (wrap64) because this property is about it. *)
From Coq Require Import ZArith Bool.
Open Scope Z_scope.

Definition max64 : Z := 9223372036854775807.
Definition min64 : Z := -9223372036854775808.
Definition two64 : Z := 18446744073709551616.
Definition two63 : Z := 9223372036854775808.

Definition in64 (x : Z) : Prop := min64 <= x <= max64.
Definition in64b (x : Z) : bool := (min64 <=? x) && (x <=? max64).

(* two's-complement reduction of a mathematical integer to int64 *)
Definition wrap64 (x : Z) : Z := (x + two63) mod two64 - two63.

Definition clamp64 (x : Z) : Z :=
  if x >? max64 then max64 else if x <? min64 then min64 else x.

(* func SaturatingAdd(a, b int64) int64 *)
Definition sat_add (a b : Z) : Z :=
  let s := wrap64 (a + b) in
  if (a >? 0) && (b >? 0) && (s <? 0) then max64
  else if (a <? 0) && (b <? 0) && (s >=? 0) then min64
  else s.

(* func SaturatingMul(a, b int64) int64 ; Go's / truncates (Z.quot) and the
   one overflowing quotient MinInt64 / -1 wraps like every other operation *)
Definition sat_mul (a b : Z) : Z :=
  if (a =? 0) || (b =? 0) then 0
  else if (a =? min64) && (b =? -1) then max64
  else
    let s := wrap64 (a * b) in
    if negb (wrap64 (Z.quot s b) =? a) then
      (if Bool.eqb (a >? 0) (b >? 0) then max64 else min64)
    else s.

(* the accumulation pattern of job_info.go (GetMinDRAResources and friends):
   total += count * gang, all saturating *)
Definition dra_accumulate (acc : Z) (count gang : Z) : Z :=
  sat_add acc (sat_mul count gang).
