(* Proofs about the DRA accounting model (DraModel.v): the per-device-class count returned by
   GetMinDRAResources is min(MaxInt64, exact sum of exact products) — the saturation specification over
   unbounded integers — for every job, every number of contributions; hence never negative and
   monotone; capacities are the exact sums. *)
From stdpp Require Import gmap.
From Coq Require Import ZArith List Lia.
From V Require Import C16.SatModel C16.SatLemmas C16.DraModel.
Import ListNotations.
Open Scope Z_scope.

Definition fold_terms (l : list (Z * Z)) (acc : Z) : Z :=
  fold_left (fun a ct => dra_accumulate a (fst ct) (snd ct)) l acc.

Lemma fold_terms_dra_total l : fold_terms l 0 = dra_total l.
Proof. reflexivity. Qed.

(* ---- the arithmetic core: saturating fold = clamp of the exact sum ---- *)

Lemma exact_sum_cons c t l : exact_sum ((c, t) :: l) = c * t + exact_sum l.
Proof. reflexivity. Qed.
Lemma exact_sum_nil : exact_sum [] = 0.
Proof. reflexivity. Qed.

Lemma clamp64_nonneg_min x : 0 <= x -> clamp64 x = Z.min max64 x.
Proof.
  intros H. unfold clamp64, max64, min64.
  destruct (x >? 9223372036854775807) eqn:E1; destruct (x <? -9223372036854775808) eqn:E2; lia.
Qed.

Lemma min_max64_in64 S : 0 <= S -> in64 (Z.min max64 S).
Proof. unfold in64, max64, min64. lia. Qed.

Lemma accumulate_step S c t :
  0 <= S -> in64 c -> in64 t -> 0 <= c -> 0 <= t ->
  dra_accumulate (Z.min max64 S) c t = Z.min max64 (S + c * t).
Proof.
  intros HS Hc Ht Hc0 Ht0. unfold dra_accumulate.
  assert (Hp : 0 <= c * t) by nia.
  rewrite (sat_mul_spec c t Hc Ht).
  rewrite sat_add_spec; [|apply min_max64_in64; exact HS|apply clamp64_range].
  rewrite (clamp64_nonneg_min (c * t) Hp).
  rewrite clamp64_nonneg_min by (unfold max64; lia).
  unfold max64. lia.
Qed.

Lemma fold_terms_spec_gen l : forall S, terms_ok l -> 0 <= S ->
  fold_terms l (Z.min max64 S) = Z.min max64 (S + exact_sum l) /\ 0 <= S + exact_sum l.
Proof.
  induction l as [|[c t] l IH]; intros S Hok HS; [rewrite exact_sum_nil|rewrite exact_sum_cons];
    cbn [fold_terms fold_left fst snd].
  - rewrite Z.add_0_r. split; [reflexivity|exact HS].
  - inversion Hok as [|x xs Hx Hxs]; subst. cbn [fst snd] in Hx. destruct Hx as (Hc & Ht & Hc0 & Ht0).
    rewrite accumulate_step by assumption.
    assert (Hp : 0 <= c * t) by nia.
    destruct (IH (S + c * t) Hxs ltac:(lia)) as [E1 E2].
    unfold fold_terms in E1. rewrite E1.
    replace (S + (c * t + exact_sum l)) with (S + c * t + exact_sum l) by lia.
    split; [reflexivity|exact E2].
Qed.

Lemma exact_sum_nonneg l : terms_ok l -> 0 <= exact_sum l.
Proof.
  intros H. destruct (fold_terms_spec_gen l 0 H ltac:(lia)) as [_ H2]. lia.
Qed.

(* the saturation specification: for every list of non-negative int64 (count, times) pairs *)
Lemma fold_terms_spec l : terms_ok l -> fold_terms l 0 = Z.min max64 (exact_sum l).
Proof.
  intros H. destruct (fold_terms_spec_gen l 0 H ltac:(lia)) as [H1 _].
  change (Z.min max64 0) with 0 in H1. exact H1.
Qed.

Lemma fold_terms_nonneg l : terms_ok l -> 0 <= fold_terms l 0.
Proof.
  intros H. rewrite fold_terms_spec by exact H. pose proof (exact_sum_nonneg l H). unfold max64. lia.
Qed.

Definition terms_le (l l' : list (Z * Z)) : Prop :=
  Forall2 (fun a b => fst a <= fst b /\ snd a <= snd b) l l'.

Lemma exact_sum_mono l l' : terms_ok l -> terms_le l l' -> exact_sum l <= exact_sum l'.
Proof.
  intros Hok Hle. induction Hle as [|[c t] [c' t'] l l' [H1 H2] Hle IH]; cbn [fst snd] in *.
  - lia.
  - inversion Hok as [|x xs Hx Hxs]; subst. cbn [fst snd] in Hx. destruct Hx as (_ & _ & Hc0 & Ht0).
    specialize (IH Hxs). rewrite !exact_sum_cons. nia.
Qed.

(* monotone in every count and every multiplicity *)
Lemma fold_terms_mono l l' :
  terms_ok l -> terms_ok l' -> terms_le l l' -> fold_terms l 0 <= fold_terms l' 0.
Proof.
  intros H H' Hle. rewrite !fold_terms_spec by assumption.
  pose proof (exact_sum_mono l l' H Hle). lia.
Qed.

(* permutation-invariance for free: the result only depends on the exact sum (Go ranges over maps in
   unspecified order) *)
Lemma exact_sum_app l1 l2 : exact_sum (l1 ++ l2) = exact_sum l1 + exact_sum l2.
Proof. induction l1 as [|[c t] l1 IH]; cbn [app]; [rewrite exact_sum_nil; lia|]. rewrite !exact_sum_cons. lia. Qed.

Lemma exact_sum_perm l1 l2 : Permutation l1 l2 -> exact_sum l1 = exact_sum l2.
Proof.
  induction 1 as [|[c t] l l' _ IH|[c t] [c' t'] l|l l' l'' _ IH1 _ IH2]; rewrite ?exact_sum_cons; lia.
Qed.

Lemma fold_terms_perm l1 l2 :
  terms_ok l1 -> Permutation l1 l2 -> fold_terms l1 0 = fold_terms l2 0.
Proof.
  intros H HP. assert (H2 : terms_ok l2).
  { unfold terms_ok in *. rewrite Forall_forall in *. intros x Hx. apply H.
    apply elem_of_list_In. rewrite HP. apply elem_of_list_In. exact Hx. }
  rewrite !fold_terms_spec by assumption. f_equal. apply exact_sum_perm. exact HP.
Qed.

(* ---- from the map-updating code to the per-class term lists ---- *)

Lemma lookup_add_resource result rq t c :
  add_resource result rq t !! c = add_class t (result !! c) (rq !! c).
Proof. unfold add_resource. rewrite lookup_merge. destruct (result !! c), (rq !! c); reflexivity. Qed.

Lemma count_add_class t cur rq :
  count_of (add_class t cur rq) =
  match rq with Some q => dra_accumulate (count_of cur) (d_count q) t | None => count_of cur end.
Proof. destruct rq as [q|]; [|reflexivity]. destruct cur; reflexivity. Qed.

Lemma count_accumulate cs : forall acc c,
  count_of (accumulate cs acc !! c) = fold_terms (class_terms c cs) (count_of (acc !! c)).
Proof.
  induction cs as [|[rq t] cs IH]; intros acc c; cbn [accumulate fold_left class_terms flat_map fst snd].
  - reflexivity.
  - fold (accumulate cs (add_resource acc rq t)). rewrite IH.
    rewrite lookup_add_resource, count_add_class.
    fold (class_terms c cs). unfold fold_terms. rewrite fold_left_app.
    destruct (rq !! c); reflexivity.
Qed.

Lemma default_union_plus (a b : option Z) :
  default 0 (union_with (fun x y => Some (x + y)) a b) = default 0 a + default 0 b.
Proof. destruct a, b; cbn; lia. Qed.

Lemma cap_add_class t cur rq dim :
  cap_of (add_class t cur rq) dim =
  cap_of cur dim + match rq with
                   | Some q => match d_caps q !! dim with Some v => v * t | None => 0 end
                   | None => 0
                   end.
Proof.
  destruct rq as [q|]; [|cbn; lia].
  unfold add_class, cap_of, cap_add. cbn [d_caps].
  rewrite lookup_union_with, default_union_plus, lookup_fmap.
  f_equal.
  - destruct cur as [d|]; cbn [default d_caps]; [reflexivity|]. rewrite lookup_empty. reflexivity.
  - destruct (d_caps q !! dim); reflexivity.
Qed.

Lemma cap_accumulate cs : forall acc c dim,
  cap_of (accumulate cs acc !! c) dim = cap_of (acc !! c) dim + exact_sum (cap_terms c dim cs).
Proof.
  induction cs as [|[rq t] cs IH]; intros acc c dim; cbn [accumulate fold_left cap_terms flat_map fst snd].
  - cbn. lia.
  - fold (accumulate cs (add_resource acc rq t)). rewrite IH.
    rewrite lookup_add_resource, cap_add_class.
    fold (cap_terms c dim cs). rewrite exact_sum_app.
    destruct (rq !! c) as [q|]; [destruct (d_caps q !! dim)|]; rewrite ?exact_sum_cons, ?exact_sum_nil; lia.
Qed.

(* ---- which calls addResource receives ---- *)

Lemma In_ins_task t x l : In x (ins_task t l) -> x = t \/ In x l.
Proof.
  induction l as [|y l IH]; cbn [ins_task]; intros H.
  - destruct H as [H|[]]; auto.
  - destruct (task_lt y t).
    + destruct H as [H|H]; [right; left; exact H|]. destruct (IH H); [auto|right; right; assumption].
    + destruct H as [H|H]; [left; auto|right; exact H].
Qed.

Lemma In_sort_tasks x l : In x (sort_tasks l) -> In x l.
Proof.
  induction l as [|y l IH]; cbn [sort_tasks fold_right]; intros H; [exact H|].
  apply In_ins_task in H as [H|H]; [left; auto|right; apply IH; exact H].
Qed.

Lemma In_take_z {A} (x : A) l : forall n, In x (take_z n l) -> In x l.
Proof.
  induction l as [|y l IH]; intros n; cbn [take_z]; intros H; [contradiction|].
  destruct (n <=? 0); [contradiction|].
  destruct H as [H|H]; [left; exact H|right; eapply IH; exact H].
Qed.

(* a call (request, times) stems from a task of the job that carries this request, and times is 1
   (fallback path) or a positive TaskMinAvailable entry *)
Definition call_from (j : djob) (ct : dmap * Z) : Prop :=
  (exists t, In t (j_tasks j) /\ t_req t = Some (fst ct)) /\
  (snd ct = 1 \/ (0 < snd ct /\ exists r, j_tma j !! r = Some (snd ct))).

Lemma role_contribs_from j ts : forall seen,
  (forall t, In t ts -> In t (j_tasks j)) ->
  Forall (call_from j) (role_contribs (j_tma j) seen ts).
Proof.
  induction ts as [|t ts IH]; intros seen Hsub; cbn [role_contribs]; [constructor|].
  assert (Hsub' : forall t0, In t0 ts -> In t0 (j_tasks j)) by (intros; apply Hsub; right; assumption).
  destruct (t_req t) as [rq|] eqn:Erq; [|apply IH; exact Hsub'].
  destruct (j_tma j !! t_role t) as [n|] eqn:En; [|apply IH; exact Hsub'].
  destruct ((0 <? n) && negb (bool_decide (t_role t ∈ seen))) eqn:Ec; [|apply IH; exact Hsub'].
  constructor; [|apply IH; exact Hsub'].
  apply andb_true_iff in Ec as [Ec _]. apply Z.ltb_lt in Ec.
  split; cbn [fst snd].
  - exists t. split; [apply Hsub; left; reflexivity|exact Erq].
  - right. split; [exact Ec|exists (t_role t); exact En].
Qed.

Lemma fallback_contribs_from j : Forall (call_from j) (fallback_contribs j).
Proof.
  unfold fallback_contribs. destruct (j_min j <=? 0); [constructor|].
  apply List.Forall_forall. intros ct Hin.
  apply in_map_iff in Hin as (t & <- & Hin).
  assert (Ht : In t (with_req (j_tasks j))).
  { apply In_sort_tasks. eapply In_take_z. exact Hin. }
  unfold with_req in Ht. apply filter_In in Ht as [Ht1 Ht2].
  destruct (t_req t) as [rq|] eqn:E; [|discriminate].
  split; cbn [fst snd default]; [exists t; split; [exact Ht1|exact E]|left; reflexivity].
Qed.

Lemma contribs_from j : Forall (call_from j) (contribs j).
Proof.
  unfold contribs. destruct (bool_decide (j_tma j = ∅)).
  - apply fallback_contribs_from.
  - apply role_contribs_from. auto.
Qed.

Lemma contribs_no_tasks j : j_tasks j = [] -> contribs j = [].
Proof.
  intros H. unfold contribs, fallback_contribs, with_req. rewrite H. cbn.
  destruct (bool_decide (j_tma j = ∅)); [|reflexivity].
  destruct (j_min j <=? 0); reflexivity.
Qed.

(* every role contributes at most once on the per-role path *)
Definition job_ok (j : djob) : Prop :=
  (forall t rq c q, In t (j_tasks j) -> t_req t = Some rq -> rq !! c = Some q ->
                    in64 (d_count q) /\ 0 <= d_count q) /\
  (forall r n, j_tma j !! r = Some n -> in64 n).

Lemma contribs_terms_ok j c : job_ok j -> terms_ok (class_terms c (contribs j)).
Proof.
  intros [Hc Hn]. pose proof (contribs_from j) as Hfrom.
  unfold terms_ok, class_terms. induction Hfrom as [|[rq n] cs Hx _ IH]; cbn [flat_map]; [constructor|].
  apply Forall_app. split; [|exact IH]. cbn [fst snd].
  destruct (rq !! c) as [q|] eqn:Eq; [|constructor].
  constructor; [|constructor]. cbn [fst snd].
  destruct Hx as [(t & Hin & Hrq) Htimes]. cbn [fst snd] in *.
  destruct (Hc t rq c q Hin Hrq Eq) as [H1 H2].
  split; [exact H1|]. split; [|split; [exact H2|]].
  - destruct Htimes as [->|[_ [r Hr]]]; [unfold in64, min64, max64; lia|eapply Hn; exact Hr].
  - destruct Htimes as [->|[H _]]; lia.
Qed.

Lemma result_at_get_min_dra j c :
  result_at (get_min_dra j) c = accumulate (contribs j) ∅ !! c.
Proof.
  unfold get_min_dra. destruct (j_tasks j) as [|t ts] eqn:Et.
  - rewrite (contribs_no_tasks j Et). cbn. rewrite lookup_empty. reflexivity.
  - destruct (bool_decide (accumulate (contribs j) ∅ = ∅)) eqn:E; cbn [result_at]; [|reflexivity].
    apply bool_decide_eq_true in E. rewrite E, lookup_empty. reflexivity.
Qed.

(* ---- the theorems about GetMinDRAResources ---- *)

(* count = min(MaxInt64, Σ count_i * times_i) over the contributions to that device class *)
Theorem min_dra_count_spec j c : job_ok j ->
  count_of (result_at (get_min_dra j) c) = Z.min max64 (exact_sum (class_terms c (contribs j))).
Proof.
  intros Hok. rewrite result_at_get_min_dra, count_accumulate, lookup_empty. cbn [count_of].
  apply fold_terms_spec. apply contribs_terms_ok. exact Hok.
Qed.

Theorem min_dra_count_nonneg j c : job_ok j -> 0 <= count_of (result_at (get_min_dra j) c).
Proof.
  intros Hok. rewrite min_dra_count_spec by exact Hok.
  pose proof (exact_sum_nonneg _ (contribs_terms_ok j c Hok)). unfold max64. lia.
Qed.

(* a device class is in the result exactly when some call mentions it *)
Lemma accumulate_dom cs : forall acc c,
  is_Some (accumulate cs acc !! c) <-> is_Some (acc !! c) \/ Exists (fun ct => is_Some (fst ct !! c)) cs.
Proof.
  induction cs as [|[rq t] cs IH]; intros acc c; cbn [accumulate fold_left fst snd].
  - split; [auto|intros [H|H]; [exact H|inversion H]].
  - fold (accumulate cs (add_resource acc rq t)). rewrite IH, lookup_add_resource.
    rewrite Exists_cons. cbn [fst].
    destruct (rq !! c) as [q|] eqn:Eq; cbn [add_class].
    + split; [intros _; right; left; eauto|intros _; left; eauto].
    + split; [intros [H|H]; auto|intros [H|[H|H]]; auto]. destruct H; discriminate.
Qed.

Theorem min_dra_classes j c :
  is_Some (result_at (get_min_dra j) c) <-> Exists (fun ct => is_Some (fst ct !! c)) (contribs j).
Proof.
  rewrite result_at_get_min_dra, accumulate_dom, lookup_empty.
  split; [intros [H|H]; [destruct H; discriminate|exact H]|auto].
Qed.

(* capacities: exact sums of capacity * times *)
Theorem min_dra_cap_spec j c dim :
  cap_of (result_at (get_min_dra j) c) dim = exact_sum (cap_terms c dim (contribs j)).
Proof. rewrite result_at_get_min_dra, cap_accumulate, lookup_empty. cbn. lia. Qed.

(* monotone: calls with pointwise larger counts and multiplicities give larger totals *)
Definition call_le (a b : dmap * Z) : Prop :=
  snd a <= snd b /\
  forall c, match fst a !! c, fst b !! c with
            | Some q, Some q' => d_count q <= d_count q'
            | None, None => True
            | _, _ => False
            end.

Lemma class_terms_le cs cs' c : Forall2 call_le cs cs' -> terms_le (class_terms c cs) (class_terms c cs').
Proof.
  induction 1 as [|[rq t] [rq' t'] cs cs' [H1 H2] _ IH]; cbn [class_terms flat_map fst snd]; [constructor|].
  cbn [fst snd] in *. specialize (H2 c).
  destruct (rq !! c), (rq' !! c); try contradiction; cbn [app]; [|exact IH].
  constructor; [cbn; lia|exact IH].
Qed.

Theorem accumulate_count_mono cs cs' c :
  (forall c, terms_ok (class_terms c cs)) -> (forall c, terms_ok (class_terms c cs')) ->
  Forall2 call_le cs cs' ->
  count_of (accumulate cs ∅ !! c) <= count_of (accumulate cs' ∅ !! c).
Proof.
  intros H H' Hle. rewrite !count_accumulate, lookup_empty. cbn [count_of].
  apply fold_terms_mono; [apply H|apply H'|apply class_terms_le; exact Hle].
Qed.

(* the order of the calls is irrelevant (Go ranges over the task map) *)
Theorem accumulate_count_perm cs cs' c :
  (forall c, terms_ok (class_terms c cs)) -> Permutation cs cs' ->
  count_of (accumulate cs ∅ !! c) = count_of (accumulate cs' ∅ !! c).
Proof.
  intros H HP. rewrite !count_accumulate, lookup_empty. cbn [count_of].
  apply fold_terms_perm; [apply H|]. unfold class_terms. rewrite HP. reflexivity.
Qed.

(* ---- DRAResource.Add / Sub ---- *)

Lemma dra_add_count d o :
  in64 (d_count d) -> in64 (d_count o) ->
  d_count (dra_add d (Some o)) = clamp64 (d_count d + d_count o).
Proof. intros H1 H2. cbn. apply sat_add_spec; assumption. Qed.

Lemma dra_add_nonneg d o :
  in64 (d_count d) -> in64 (d_count o) -> 0 <= d_count d -> 0 <= d_count o ->
  d_count (dra_add d (Some o)) = Z.min max64 (d_count d + d_count o) /\ 0 <= d_count (dra_add d (Some o)).
Proof.
  intros H1 H2 H3 H4. rewrite dra_add_count by assumption.
  rewrite clamp64_nonneg_min by lia. unfold max64. lia.
Qed.

Lemma dra_add_cap d o dim :
  default 0 (d_caps (dra_add d (Some o)) !! dim) = default 0 (d_caps d !! dim) + default 0 (d_caps o !! dim).
Proof.
  cbn. unfold cap_add. rewrite lookup_union_with.
  destruct (d_caps d !! dim), (d_caps o !! dim); cbn; lia.
Qed.

Lemma dra_sub_count d o :
  in64 (d_count d) -> in64 (d_count o) -> 0 <= d_count d -> 0 <= d_count o ->
  d_count (dra_sub d (Some o)) = Z.max 0 (d_count d - d_count o).
Proof.
  intros H1 H2 H3 H4. cbn. rewrite wrap64_small by (unfold in64, min64, max64 in *; lia).
  destruct (d_count d - d_count o <? 0) eqn:E; lia.
Qed.

Lemma dra_sub_never_negative d o : 0 <= d_count (dra_sub d (Some o)).
Proof. cbn. destruct (wrap64 (d_count d - d_count o) <? 0) eqn:E; lia. Qed.

(* non-vacuity of job_ok: the fallback-path job of two tasks requesting MaxInt64-7 devices each *)
Definition example_job : djob :=
  let rq := ({[1%positive := mkD 9223372036854775800 ∅]} : dmap) in
  mkJ 2 ∅ [mkT 0 1 1 1%positive (Some rq); mkT 0 2 2 1%positive (Some rq)].

Lemma example_job_ok : job_ok example_job /\ length (contribs example_job) = 2%nat.
Proof.
  split; [|vm_compute; reflexivity]. split.
  - intros t rq c q Hin Hrq Hq.
    assert (Hrq' : rq = {[1%positive := mkD 9223372036854775800 ∅]}).
    { destruct Hin as [<-|[<-|[]]]; cbn in Hrq; inversion Hrq; reflexivity. }
    subst rq. destruct (decide (c = 1%positive)) as [->|Hne].
    + rewrite lookup_singleton in Hq. inversion Hq; subst. cbn. unfold in64, min64, max64. lia.
    + rewrite lookup_singleton_ne in Hq by congruence. discriminate.
  - intros r n H. cbn in H. rewrite lookup_empty in H. discriminate.
Qed.

(* ---- addDRAResource / buildTaskDRAInfo: the constructor of TaskInfo.DRAResreq ---- *)

Definition dmap_ok (m : dmap) : Prop :=
  forall c d, m !! c = Some d -> in64 (d_count d) /\ 0 <= d_count d.
Definition ereq_ok (rq : ereq) : Prop := in64 (e_count rq) /\ 0 <= e_count rq.
(* what the apiserver guarantees for one DeviceRequest: an int64 count that is not negative *)
Definition raw_ok (w : rawreq) : Prop := in64 (w_count w) /\ 0 <= w_count w.

Lemma count_add_dra_map dst rq c :
  count_of (add_dra_map dst rq !! c) =
  if bool_decide (e_class rq = c) then sat_add (count_of (dst !! c)) (e_count rq) else count_of (dst !! c).
Proof.
  unfold add_dra_map. destruct (bool_decide (e_class rq = c)) eqn:E.
  - apply bool_decide_eq_true in E. subst c. rewrite lookup_insert. cbn [count_of d_count].
    destruct (dst !! e_class rq); reflexivity.
  - apply bool_decide_eq_false in E. rewrite lookup_insert_ne by exact E. reflexivity.
Qed.

Lemma sat_add_min S c : 0 <= S -> in64 c -> 0 <= c -> sat_add (Z.min max64 S) c = Z.min max64 (S + c).
Proof.
  intros HS Hc Hc0. rewrite sat_add_spec; [|apply min_max64_in64; exact HS|exact Hc].
  rewrite clamp64_nonneg_min by (unfold max64; lia). unfold max64. lia.
Qed.

Lemma sum_list_app l1 l2 : sum_list (l1 ++ l2) = sum_list l1 + sum_list l2.
Proof. unfold sum_list. induction l1 as [|x l1 IH]; cbn [app fold_right]; lia. Qed.

(* the saturation specification for the accumulation that builds a task's request *)
Theorem add_map_all_count_spec rqs : forall dst c S,
  Forall ereq_ok rqs -> 0 <= S -> count_of (dst !! c) = Z.min max64 S ->
  count_of (add_map_all dst rqs !! c) = Z.min max64 (S + sum_list (class_counts c rqs)) /\
  0 <= S + sum_list (class_counts c rqs).
Proof.
  induction rqs as [|rq rqs IH]; intros dst c S Hok HS Hdst; cbn [add_map_all fold_left class_counts flat_map].
  - cbn. rewrite Z.add_0_r. split; [exact Hdst|exact HS].
  - fold (add_map_all (add_dra_map dst rq) rqs). fold (class_counts c rqs).
    inversion Hok as [|x xs [Hx1 Hx2] Hxs]; subst.
    rewrite sum_list_app.
    destruct (bool_decide (e_class rq = c)) eqn:E.
    + destruct (IH (add_dra_map dst rq) c (S + e_count rq) Hxs ltac:(lia)) as [E1 E2].
      { rewrite count_add_dra_map, E, Hdst. apply sat_add_min; assumption. }
      cbn [sum_list fold_right]. rewrite Z.add_0_r.
      replace (S + (e_count rq + sum_list (class_counts c rqs))) with (S + e_count rq + sum_list (class_counts c rqs)) by lia.
      split; assumption.
    + destruct (IH (add_dra_map dst rq) c S Hxs HS) as [E1 E2].
      { rewrite count_add_dra_map, E. exact Hdst. }
      cbn [sum_list fold_right]. split; [exact E1|exact E2].
Qed.

Corollary add_map_all_from_empty rqs c : Forall ereq_ok rqs ->
  count_of (add_map_all ∅ rqs !! c) = Z.min max64 (sum_list (class_counts c rqs)) /\
  0 <= count_of (add_map_all ∅ rqs !! c).
Proof.
  intros H. destruct (add_map_all_count_spec rqs ∅ c 0 H ltac:(lia)) as [E1 E2].
  { rewrite lookup_empty. reflexivity. }
  rewrite Z.add_0_l in *. split; [exact E1|]. rewrite E1. unfold max64. lia.
Qed.

Lemma add_dra_map_ok dst rq : dmap_ok dst -> ereq_ok rq -> dmap_ok (add_dra_map dst rq).
Proof.
  intros Hd [H1 H2] c d Hc. unfold add_dra_map in Hc.
  destruct (decide (e_class rq = c)) as [<-|Hne].
  - rewrite lookup_insert in Hc. inversion Hc; subst; clear Hc. cbn [d_count].
    assert (Hcur : in64 (d_count (default (mkD 0 ∅) (dst !! e_class rq))) /\ 0 <= d_count (default (mkD 0 ∅) (dst !! e_class rq))).
    { destruct (dst !! e_class rq) as [d0|] eqn:E; cbn [default]; [eapply Hd; exact E|].
      cbn. unfold in64, min64, max64. lia. }
    destruct Hcur as [Hc1 Hc2]. split; [apply sat_add_range|apply sat_add_nonneg]; assumption.
  - rewrite lookup_insert_ne in Hc by exact Hne. eapply Hd. exact Hc.
Qed.

Lemma add_all_ok rqs : forall st st',
  Forall ereq_ok rqs -> dmap_ok (s_map st) -> add_all (Some st) rqs = Some st' -> dmap_ok (s_map st').
Proof.
  induction rqs as [|rq rqs IH]; intros st st' Hok Hst H; cbn [add_all fold_left] in H.
  - inversion H; subst. exact Hst.
  - inversion Hok as [|x xs Hx Hxs]; subst.
    destruct (add_dra_resource st rq) as [st1|] eqn:E.
    + apply (IH st1 st' Hxs); [|exact H].
      unfold add_dra_resource in E.
      destruct (negb _ && _); [discriminate|]. inversion E; subst. cbn [s_map].
      apply add_dra_map_ok; assumption.
    + exfalso. clear -H. induction rqs as [|r rs IHr]; cbn [fold_left] in H; [discriminate|auto].
Qed.

Lemma add_all_map rqs : forall st st',
  add_all (Some st) rqs = Some st' -> s_map st' = add_map_all (s_map st) rqs.
Proof.
  induction rqs as [|rq rqs IH]; intros st st' H; cbn [add_all fold_left] in H.
  - inversion H; subst. reflexivity.
  - destruct (add_dra_resource st rq) as [st1|] eqn:E.
    + rewrite (IH st1 st' H). unfold add_dra_resource in E.
      destruct (negb _ && _); [discriminate|]. inversion E; subst. reflexivity.
    + exfalso. clear -H. induction rqs as [|r rs IHr]; cbn [fold_left] in H; [discriminate|auto].
Qed.

Lemma effective_ok ws : Forall raw_ok ws -> Forall ereq_ok (effective_all ws).
Proof.
  intros H. unfold effective_all. induction H as [|w ws [H1 H2] _ IH]; cbn [flat_map]; [constructor|].
  apply Forall_app. split; [|exact IH]. unfold effective.
  destruct (w_kind w =? 0); [|constructor]. constructor; [|constructor].
  unfold ereq_ok. cbn [e_count]. destruct (w_count w =? 0); [unfold in64, min64, max64; lia|split; assumption].
Qed.

Definition claims_ok (claims : gmap positive (list rawreq)) : Prop :=
  forall c ws, claims !! c = Some ws -> Forall raw_ok ws.

(* reachable-state invariant: whatever buildTaskDRAInfo returns for a pod whose DeviceRequests each
   carry a non-negative int64 count has non-negative int64 counts per device class — in the aggregated
   request (TaskInfo.DRAResreq) and in every per-claim request *)
Lemma build_loop_ok claims refs : forall result per r per',
  claims_ok claims -> dmap_ok (s_map result) -> (forall c m, per !! c = Some m -> dmap_ok m) ->
  build_loop claims refs result per = BuildOk (Some (r, per')) ->
  dmap_ok r /\ forall c m, per' !! c = Some m -> dmap_ok m.
Proof.
  induction refs as [|c refs IH]; intros result per r per' Hcl Hres Hper H; cbn [build_loop] in H.
  - destruct (bool_decide (per = ∅)); [discriminate|]. inversion H; subst. split; assumption.
  - destruct (bool_decide (is_Some (per !! c))); [eapply IH; eassumption|].
    destruct (claims !! c) as [ws|] eqn:Ec; [|discriminate].
    pose proof (effective_ok ws (Hcl c ws Ec)) as Heff.
    destruct (add_all (Some (mkS ∅ ∅)) (effective_all ws)) as [pc|] eqn:E1; [|discriminate].
    destruct (add_all (Some result) (effective_all ws)) as [result'|] eqn:E2; [|discriminate].
    eapply IH; [exact Hcl| | |exact H].
    + eapply add_all_ok; [exact Heff|exact Hres|exact E2].
    + intros c0 m Hm. destruct (bool_decide (s_map pc = ∅)); [eapply Hper; exact Hm|].
      destruct (decide (c = c0)) as [<-|Hne].
      * rewrite lookup_insert in Hm. inversion Hm; subst.
        eapply add_all_ok; [exact Heff| |exact E1]. intros ? ? Hx. cbn in Hx. rewrite lookup_empty in Hx. discriminate.
      * rewrite lookup_insert_ne in Hm by exact Hne. eapply Hper. exact Hm.
Qed.

Theorem build_task_dra_counts_ok claims refs r per :
  claims_ok claims -> build_task_dra claims refs = BuildOk (Some (r, per)) ->
  dmap_ok r /\ forall c m, per !! c = Some m -> dmap_ok m.
Proof.
  intros Hcl H. eapply (build_loop_ok claims refs (mkS ∅ ∅) ∅); [exact Hcl| | |exact H].
  - intros ? ? Hx. cbn in Hx. rewrite lookup_empty in Hx. discriminate.
  - intros ? ? Hx. rewrite lookup_empty in Hx. discriminate.
Qed.

(* ... which is what job_ok asks of the tasks *)
Theorem job_ok_of_dmap_ok j :
  (forall t rq, In t (j_tasks j) -> t_req t = Some rq -> dmap_ok rq) ->
  (forall r n, j_tma j !! r = Some n -> in64 n) -> job_ok j.
Proof. intros H1 H2. split; [|exact H2]. intros t rq c q Hin Hrq Hq. exact (H1 t rq Hin Hrq c q Hq). Qed.

(* composition: a job whose tasks carry what buildTaskDRAInfo returned (for pods whose DeviceRequests
   each have a non-negative int64 count) has non-negative, exactly saturating GetMinDRAResources counts *)
Definition task_from_cache (t : dtask) : Prop :=
  forall rq, t_req t = Some rq ->
  exists claims refs per, claims_ok claims /\ build_task_dra claims refs = BuildOk (Some (rq, per)).

Theorem min_dra_from_cache j c :
  (forall t, In t (j_tasks j) -> task_from_cache t) ->
  (forall r n, j_tma j !! r = Some n -> in64 n) ->
  0 <= count_of (result_at (get_min_dra j) c) /\
  count_of (result_at (get_min_dra j) c) = Z.min max64 (exact_sum (class_terms c (contribs j))).
Proof.
  intros Ht Hn.
  assert (Hok : job_ok j).
  { apply job_ok_of_dmap_ok; [|exact Hn]. intros t rq Hin Hrq.
    destruct (Ht t Hin rq Hrq) as (claims & refs & per & Hc & Hb).
    exact (proj1 (build_task_dra_counts_ok claims refs rq per Hc Hb)). }
  split; [apply min_dra_count_nonneg|apply min_dra_count_spec]; exact Hok.
Qed.

(* non-vacuity: one claim with two requests of 2^62 devices of one class is claims_ok, builds, and the
   count saturates at MaxInt64 *)
Example build_task_dra_nonvacuous :
  let claims := ({[1%positive := [mkRaw 0 1%positive (2 ^ 62) ∅; mkRaw 0 1%positive (2 ^ 62) ∅]]}
                 : gmap positive (list rawreq)) in
  claims_ok claims /\
  exists r per, build_task_dra claims [1%positive] = BuildOk (Some (r, per)) /\
                count_of (r !! 1%positive) = max64.
Proof.
  cbn zeta. split.
  - intros c ws H. destruct (decide (c = 1%positive)) as [->|Hne].
    + rewrite lookup_singleton in H. inversion H; subst.
      repeat constructor; unfold in64, min64, max64; cbn; lia.
    + rewrite lookup_singleton_ne in H by congruence. discriminate.
  - eexists _, _. split; [vm_compute; reflexivity|vm_compute; reflexivity].
Qed.
