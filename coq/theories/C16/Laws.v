(* Executable forms of the C16 laws, evaluated on what the IMPLEMENTATION
   returned (the failing-input search of DESIGN 3.4): each takes the operands
   and the Go results and answers whether the law holds on them.  They use
   only getters of the model, never the modelled operation itself. *)
From stdpp Require Import gmap.
From Coq Require Import ZArith List.
From V Require Import Base.Codec Base.Res Base.ResCodec C16.SatModel.
Import ListNotations.
Open Scope Z_scope.

Definition keys_of (l : list res) : list positive :=
  map fst (map_to_list (foldr (fun r acc => scm r ∪ acc) (∅ : smap) l)).

Definition zeqb (a b : Z) : bool := bool_decide (a = b).

Definition law_sat_add (a b got : Z) : bool := zeqb got (clamp64 (a + b)).
Definition law_sat_mul (a b got : Z) : bool := zeqb got (clamp64 (a * b)).
Definition law_dra (l : list (Z * Z)) (got : Z) : bool :=
  if forallb (fun ct => bool_decide (0 <= fst ct) && bool_decide (0 <= snd ct)) l
  then bool_decide (0 <= got) else true.

(* A = r.Add(x), S = A.sub(x), B = x.Add(r) as computed by Go *)
Definition law_group (r x A S B : res) : bool :=
  zeqb (cpu S) (cpu r) && zeqb (mem S) (mem r) &&
  forallb (fun k => zeqb (sget S k) (sget r k)) (keys_of [r; x; A; S]) &&
  zeqb (cpu A) (cpu B) && zeqb (mem A) (mem B) &&
  forallb (fun k => bool_decide (scm A !! k = scm B !! k)) (keys_of [A; B]) &&
  zeqb (cpu A) (cpu r + cpu x) &&
  forallb (fun k => zeqb (sget A k) (sget r k + sget x k)) (keys_of [r; x; A]).

Record order_obs := {
  o_refl_z : bool; o_refl_i : bool;
  o_less_z : bool; o_less_i : bool;
  o_le_z : bool; o_le_i : bool;
  o_len_z : bool; o_len_i : bool;
  o_gp_z : bool; o_gp_i : bool;
  o_lp_rev_z : bool;       (* rr.LessPartly(r, Zero) *)
}.

Definition nonneg (r : res) : bool :=
  forallb (fun kv => bool_decide (0 <= snd kv)) (map_to_list (scm r)).

Definition band (eps : Z) (r s : res) : bool :=
  (bool_decide (0 < cpu r - cpu s) && bool_decide (cpu r - cpu s < eps)) ||
  (bool_decide (0 < mem r - mem s) && bool_decide (mem r - mem s < eps)) ||
  existsb (fun k => (bool_decide (0 < sget r k - sget s k) && bool_decide (sget r k - sget s k < eps)) ||
                    (bool_decide (scm s !! k = None) && bool_decide (is_Some (scm r !! k)) &&
                     bool_decide (sget r k < eps)))
          (keys_of [r; s]).

Definition law_order (eps : Z) (r rr : res) (o : order_obs) : bool :=
  o_refl_z o && o_refl_i o &&
  implb (o_less_z o) (o_le_z o) && implb (o_less_i o) (o_le_i o) &&
  Bool.eqb (o_len_z o) (o_le_z o) &&
  implb (o_le_i o) (o_len_i o) &&
  Bool.eqb (o_gp_z o) (negb (o_len_z o)) && Bool.eqb (o_gp_i o) (negb (o_len_i o)) &&
  implb (nonneg rr && o_le_z o && o_lp_rev_z o) (band eps r rr).

Definition law_diff (r s inc dec : res) : bool :=
  zeqb (cpu r + cpu dec) (cpu s + cpu inc) && zeqb (mem r + mem dec) (mem s + mem inc) &&
  bool_decide (0 <= cpu inc) && bool_decide (0 <= cpu dec) && zeqb (Z.min (cpu inc) (cpu dec)) 0 &&
  bool_decide (0 <= mem inc) && bool_decide (0 <= mem dec) && zeqb (Z.min (mem inc) (mem dec)) 0 &&
  forallb (fun k => zeqb (sget r k + sget dec k) (sget s k + sget inc k) &&
                    bool_decide (0 <= sget inc k) && bool_decide (0 <= sget dec k) &&
                    zeqb (Z.min (sget inc k) (sget dec k)) 0)
          (keys_of [r; s; inc; dec]).

Definition law_minmax (r rr mx mn : res) : bool :=
  zeqb (cpu mx) (Z.max (cpu r) (cpu rr)) && zeqb (mem mx) (Z.max (mem r) (mem rr)) &&
  forallb (fun k => bool_decide (scm mx !! k =
                       union_with (fun a b => Some (Z.max a b)) (scm r !! k) (scm rr !! k)))
          (keys_of [r; rr; mx]) &&
  zeqb (cpu mn) (Z.min (cpu r) (cpu rr)) && zeqb (mem mn) (Z.min (mem r) (mem rr)) &&
  forallb (fun k => match scm r !! k with
                    | Some v => if bool_decide (0 <= v) then zeqb (sget mn k) (Z.min v (sget rr k))
                                else bool_decide (sget mn k <= 0)
                    | None => bool_decide (scm mn !! k = None)
                    end)
          (keys_of [r; rr; mn]).

Definition dOrder : dec order_obs :=
  let* a := dBool in let* b := dBool in let* c := dBool in let* d := dBool in
  let* e := dBool in let* f := dBool in let* g := dBool in let* h := dBool in
  let* i := dBool in let* j := dBool in let* k := dBool in
  ret (Build_order_obs a b c d e f g h i j k).
