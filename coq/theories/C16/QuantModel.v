(* Model of the conversions between Kubernetes quantities and scheduler Resources:
     api.NewResource(v1.ResourceList)            pkg/scheduler/api/resource_info.go 86-123
     util.ConvertRes2ResList(res)             pkg/scheduler/util/scheduler_helper.go 350-364
   A v1.ResourceList is a finite map  resource name -> Quantity; a Quantity is modelled by its value
   in milli-units (an integer): the domain is the quantities q with q = NewMilliQuantity(q.MilliValue()).
   Resource amounts are the integers the Go float64 fields hold (milli-cpu, bytes, milli-scalars,
   whole pods) — exact below 2^53.  Resource names are numbers; their class (which branch of the
   switch in NewResource they take) is fixed by the table [name_class], mirrored by the harness
   name table and checked by the correspondence on every run. *)
From stdpp Require Import gmap.
From Coq Require Import ZArith.
From V Require Import Base.Res C16.SatModel C16.FloatMini.
Open Scope Z_scope.

Inductive nclass :=
  | CCpu          (* "cpu" *)
  | CMem          (* "memory" *)
  | CPods         (* "pods" *)
  | CEph          (* "ephemeral-storage" *)
  | CCountQuota   (* "count/..." : IsCountQuota, skipped *)
  | CScalar       (* extended / hugepages- / *kubernetes.io/ / attachable-volumes- : IsScalarResourceName *)
  | CIgnoredDev   (* a scalar name listed in IgnoredDevicesList: skipped *)
  | CDropped.     (* any other name (e.g. "storage", "requests.x"): no branch keeps it *)

Definition cpu_name : positive := 2%positive.
Definition mem_name : positive := 3%positive.
Definition eph_name : positive := 7%positive.

Definition name_class (k : positive) : nclass :=
  if decide (k = pods_name) then CPods
  else if decide (k = cpu_name) then CCpu
  else if decide (k = mem_name) then CMem
  else if decide (k = eph_name) then CEph
  else if decide (k = 9%positive) then CCountQuota
  else if decide (k = 14%positive) then CCountQuota
  else if decide (k = 10%positive) then CDropped
  else if decide (k = 13%positive) then CDropped
  else if decide (k = 15%positive) then CIgnoredDev
  else if decide (k = 4%positive) then CScalar
  else if decide (k = 5%positive) then CScalar
  else if decide (k = 6%positive) then CScalar
  else if decide (k = 8%positive) then CScalar
  else if decide (k = 11%positive) then CScalar
  else if decide (k = 12%positive) then CScalar
  else if decide (k = 16%positive) then CScalar
  else CDropped.   (* a name outside the table is not claimed to be kept *)

Notation rlist := (gmap positive Z).

(* Quantity.Value(): whole units, rounded away from zero *)
Definition qvalue (m : Z) : Z :=
  if 0 <=? m then (m + 999) / 1000 else - ((- m + 999) / 1000).

(* the scalar entry NewResource stores for one (name, quantity) of the list, if any *)
Definition scalar_of (k : positive) (m : Z) : option Z :=
  match name_class k with
  | CPods => Some (qvalue m)           (* r.AddScalar(rName, float64(rQuant.Value())) *)
  | CEph => Some m                     (* r.AddScalar(rName, float64(rQuant.MilliValue())) *)
  | CScalar => Some m                  (* default branch, IsScalarResourceName and not ignored *)
  | _ => None
  end.

(* [new_resource_z] / [convert_z]: the conversions on amounts small enough that no float64 / int64 effect
   shows (exact integers); [new_resource] / [convert] below add those effects.
   NewResource: every name occurs once in the list, so each += happens once on a zero field; the
   scalar map is allocated lazily by the first AddScalar (nil when nothing is added).
   Second component: MaxTaskNum. *)
Definition new_resource_z (rl : rlist) : res * Z :=
  let s := map_imap scalar_of rl in
  (mkRes (default 0 (rl !! cpu_name))
         (qvalue (default 0 (rl !! mem_name)))
         (if bool_decide (s = ∅) then None else Some s),
   qvalue (default 0 (rl !! pods_name))).

(* ConvertRes2ResList: cpu and memory always present; "pods" as whole units, every other scalar as
   milli-units; the scalar loop runs after (and would overwrite) the cpu / memory entries *)
Definition quantity_of (k : positive) (v : Z) : Z :=
  if decide (k = pods_name) then 1000 * v else v.

Definition convert_z (r : res) : rlist :=
  map_imap (fun k v => Some (quantity_of k v)) (scm r) ∪
  ({[cpu_name := cpu r]} ∪ {[mem_name := 1000 * mem r]}).

(* ---- the domain on which Resource -> ResourceList -> Resource is the identity ---- *)
Definition kept_scalar (k : positive) : bool :=
  match name_class k with CPods | CEph | CScalar => true | _ => false end.

(* ---- float64 / int64 effects on large magnitudes ----
   float64(i) for an int64 i: round to nearest even to 53 significant bits (FloatMini.round_pos; an int64
   never overflows a float64) *)
Definition f64 (x : Z) : Z := if 0 <=? x then round_pos x else - round_pos (- x).
(* the integer x is a float64 value *)
Definition fexact (x : Z) : bool := f64 x =? x.
(* int64(f) for an integer-valued float64 f: exact inside the int64 range; outside it the Go spec leaves the
   result to the implementation — on amd64 (CVTTSD2SI, where this check runs) it is MinInt64, also for the
   math.MaxFloat64 sentinel.  Modelled as the code behaves here. *)
Definition i64 (x : Z) : Z := if (min64 <=? x) && (x <=? max64) then x else min64.

Definition map_res (F : Z -> Z) (r : res) : res :=
  mkRes (F (cpu r)) (F (mem r)) (match sc r with None => None | Some m => Some (F <$> m) end).

(* api.NewResource: every amount read from a Quantity (int64) becomes a float64 *)
Definition new_resource (rl : rlist) : res * Z :=
  let '(r, mt) := new_resource_z rl in (map_res f64 r, mt).

(* util.ConvertRes2ResList: every float64 amount goes through int64(f) first *)
Definition convert (r : res) : rlist := convert_z (map_res i64 r).

(* an amount that both conversions leave alone: a float64-exact integer inside the int64 range, in the
   unit the code converts (milli-cpu, bytes, whole pods, milli-scalars) *)
Definition amount_ok (x : Z) : bool := fexact x && bool_decide (Z.abs x < 2 ^ 63).
Definition res_exact (r : res) : bool :=
  amount_ok (cpu r) && amount_ok (mem r) &&
  bool_decide (map_Forall (fun _ v => amount_ok v = true) (scm r)).

(* the domain of Resource -> ResourceList -> Resource *)
Definition rt_domain (r : res) : bool :=
  bool_decide (map_Forall (fun k _ => kept_scalar k = true) (scm r)) &&
  negb (bool_decide (sc r = Some ∅)) && res_exact r.

(* ... and of ResourceList -> Resource -> ResourceList: the amounts NewResource reads are such amounts *)
Definition rl_exact (rl : rlist) : bool := res_exact (fst (new_resource_z rl)).

(* the Quantities on which [new_resource] describes NewResource at all: MilliValue() (cpu, ephemeral-storage,
   scalars) resp. Value() (memory, pods) must fit int64 — beyond that apimachinery's AsScaledInt64 wraps,
   which is not modelled *)
Definition quantity_in_range (k : positive) (m : Z) : bool :=
  match name_class k with
  | CMem | CPods => bool_decide (Z.abs (qvalue m) < 2 ^ 63)
  | CCpu | CEph | CScalar => bool_decide (Z.abs m < 2 ^ 63)
  | _ => true
  end.
Definition rl_in_range (rl : rlist) : bool :=
  bool_decide (map_Forall (fun k m => quantity_in_range k m = true) rl).

(* ---- ResFloat642Quantity / ResQuantity2Float64 (resource_info.go 125-149) ----
   A float64 amount is x / g for the grid g (x an integer, g > 0; g = 1: integral amounts, g = 16: the
   1/16 grid of the arithmetic streams).  int64(quantity) truncates toward zero (Z.quot); cpu becomes a
   milli-quantity, every other name a whole-unit quantity (BinarySI).  Back: MilliValue() for cpu,
   Value() (rounding away from zero) otherwise.  Quantities are milli-integers as above. *)
Definition float_to_quantity_z (g : Z) (is_cpu : bool) (x : Z) : Z :=
  if is_cpu then Z.quot x g else 1000 * Z.quot x g.

(* the float returned, in 1/g units *)
Definition quantity_to_float_z (g : Z) (is_cpu : bool) (m : Z) : Z :=
  if is_cpu then m * g else qvalue m * g.

(* the same with the int64 / float64 effects of the Go expressions int64(quantity) and
   float64(q.MilliValue()) / float64(q.Value()) (as in [convert] / [new_resource] above) *)
Definition float_to_quantity (g : Z) (is_cpu : bool) (x : Z) : Z :=
  let t := i64 (Z.quot x g) in if is_cpu then t else 1000 * t.
Definition quantity_to_float (g : Z) (is_cpu : bool) (m : Z) : Z :=
  f64 (if is_cpu then m else qvalue m) * g.

(* the domain of the float -> Quantity -> float theorems: x/g is a float64 (g a power of two, x a
   float64-exact integer) whose integer part is a float64-exact integer inside the int64 range *)
Definition conv_domain (g x : Z) : bool :=
  bool_decide (0 < g) && (2 ^ Z.log2 g =? g) && fexact x && amount_ok (Z.quot x g).

(* ... and of Quantity -> float -> Quantity: the value MilliValue() (cpu) resp. Value() (other names)
   returns is a float64-exact integer inside the int64 range *)
Definition qty_domain (is_cpu : bool) (m : Z) : bool := amount_ok (if is_cpu then m else qvalue m).
