(* Model of the DRA quota accounting of pkg/scheduler/api/job_info.go:
     DRAResource.Clone/Add/Sub            (job_info.go 1457-1516)
     JobInfo.GetMinDRAResources           (job_info.go 1518-1610)
   Counts are Go int64 (wrap written explicitly through SatModel.wrap64, saturation through
   sat_add / sat_mul).  Capacities are resource.Quantity values: Quantity.Add / Mul / Sub switch to
   arbitrary precision (inf.Dec) when int64 does not suffice, so they are modelled as exact integers
   in milli-units.  Device classes, capacity dimensions and task roles are numbers; the harness keeps
   the name tables.  Executable definitions only. *)
From stdpp Require Import gmap.
From Coq Require Import ZArith List.
From V Require Import C16.SatModel.
Import ListNotations.
Open Scope Z_scope.

(* type DRAResource struct { Count int64; Capacity map[string]resource.Quantity } *)
Record dres := mkD { d_count : Z; d_caps : gmap positive Z }.
(* map[string]*DRAResource : device class -> request *)
Notation dmap := (gmap positive dres).

Definition cap_add (a b : gmap positive Z) : gmap positive Z :=
  union_with (fun x y => Some (x + y)) a b.

(* func (d *DRAResource) Add(other *DRAResource) ; None = nil argument *)
Definition dra_add (d : dres) (o : option dres) : dres :=
  match o with
  | None => d
  | Some o => mkD (sat_add (d_count d) (d_count o)) (cap_add (d_caps d) (d_caps o))
  end.

(* func (d *DRAResource) Sub(other *DRAResource): plain int64 subtraction (wraps), floor at 0;
   capacities only for the dimensions d already has, floor at 0 *)
Definition dra_sub (d : dres) (o : option dres) : dres :=
  match o with
  | None => d
  | Some o =>
    let c := wrap64 (d_count d - d_count o) in
    mkD (if c <? 0 then 0 else c)
        (map_imap (fun k v => match d_caps o !! k with
                              | Some w => Some (if v - w <? 0 then 0 else v - w)
                              | None => Some v
                              end) (d_caps d))
  end.

(* the closure addResource(res, times) of GetMinDRAResources.  One call visits every device class of
   [res] exactly once (map keys are distinct), so its effect is the pointwise merge below:
     result[class].Count = SaturatingAdd(result[class].Count, SaturatingMul(request.Count, int64(times)))
     result[class].Capacity[dim] += request.Capacity[dim] * times *)
Definition add_class (times : Z) (cur : option dres) (rq : option dres) : option dres :=
  match rq with
  | None => cur
  | Some q =>
    let c := default (mkD 0 ∅) cur in
    Some (mkD (sat_add (d_count c) (sat_mul (d_count q) times))
              (cap_add (d_caps c) ((fun x => x * times) <$> d_caps q)))
  end.

Definition add_resource (result : dmap) (rq : dmap) (times : Z) : dmap :=
  merge (add_class times) result rq.

(* TaskInfo as far as GetMinDRAResources reads it; t_req = None is DRAResreq == nil *)
Record dtask := mkT { t_ns : Z; t_name : Z; t_uid : Z; t_role : positive; t_req : option dmap }.

(* JobInfo: MinAvailable, TaskMinAvailable (role -> minNum, int32), Tasks *)
Record djob := mkJ { j_min : Z; j_tma : gmap positive Z; j_tasks : list dtask }.

(* sort.Slice(tasks, by Namespace, then Name, then UID) — UIDs are the map keys of ji.Tasks, hence
   distinct, so the order is total and the (unstable) sort deterministic *)
Definition task_lt (a b : dtask) : bool :=
  if negb (t_ns a =? t_ns b) then t_ns a <? t_ns b
  else if negb (t_name a =? t_name b) then t_name a <? t_name b
  else t_uid a <? t_uid b.

Fixpoint ins_task (t : dtask) (l : list dtask) : list dtask :=
  match l with
  | [] => [t]
  | x :: r => if task_lt x t then x :: ins_task t r else t :: l
  end.
Definition sort_tasks (l : list dtask) : list dtask := fold_right ins_task [] l.

(* the calls addResource(request, times) made by the fallback path (no TaskMinAvailable):
   the first MinAvailable tasks (sorted) among those with DRAResreq != nil, once each *)
Definition with_req (ts : list dtask) : list dtask :=
  List.filter (fun t => match t_req t with Some _ => true | None => false end) ts.

(* for i, task := range tasks { if int32(i) >= minAvailable { break } ... } *)
Fixpoint take_z {A} (n : Z) (l : list A) : list A :=
  match l with
  | [] => []
  | x :: r => if n <=? 0 then [] else x :: take_z (n - 1) r
  end.

Definition fallback_contribs (j : djob) : list (dmap * Z) :=
  if j_min j <=? 0 then []
  else map (fun t => (default ∅ (t_req t), 1))
           (take_z (j_min j) (sort_tasks (with_req (j_tasks j)))).

(* ... and by the per-role path: the first task seen of every role with minNum > 0, minNum times.
   Go ranges over the ji.Tasks map in unspecified order; the model walks the list it is given. *)
Fixpoint role_contribs (tma : gmap positive Z) (seen : gset positive) (ts : list dtask) : list (dmap * Z) :=
  match ts with
  | [] => []
  | t :: r =>
    match t_req t, tma !! t_role t with
    | Some rq, Some n =>
      if (0 <? n) && negb (bool_decide (t_role t ∈ seen))
      then (rq, n) :: role_contribs tma ({[t_role t]} ∪ seen) r
      else role_contribs tma seen r
    | _, _ => role_contribs tma seen r
    end
  end.

Definition contribs (j : djob) : list (dmap * Z) :=
  if bool_decide (j_tma j = ∅) then fallback_contribs j else role_contribs (j_tma j) ∅ (j_tasks j).

Definition accumulate (cs : list (dmap * Z)) (acc : dmap) : dmap :=
  fold_left (fun a ct => add_resource a (fst ct) (snd ct)) cs acc.

(* func (ji *JobInfo) GetMinDRAResources() map[string]*DRAResource ; None = nil *)
Definition get_min_dra (j : djob) : option dmap :=
  match j_tasks j with
  | [] => None
  | _ =>
    let result := accumulate (contribs j) ∅ in
    if bool_decide (result = ∅) then None else Some result
  end.

(* ---- specification-side vocabulary (unbounded integers, no saturating operation) ---- *)

(* the (count, times) pairs that reach device class c, in call order *)
Definition class_terms (c : positive) (cs : list (dmap * Z)) : list (Z * Z) :=
  flat_map (fun ct => match fst ct !! c with Some q => [(d_count q, snd ct)] | None => [] end) cs.

Definition exact_sum (l : list (Z * Z)) : Z :=
  fold_right (fun ct s => fst ct * snd ct + s) 0 l.

(* the (capacity, times) pairs that reach dimension dim of class c *)
Definition cap_terms (c dim : positive) (cs : list (dmap * Z)) : list (Z * Z) :=
  flat_map (fun ct => match fst ct !! c with
                      | Some q => match d_caps q !! dim with Some v => [(v, snd ct)] | None => [] end
                      | None => []
                      end) cs.

Definition count_of (o : option dres) : Z := match o with Some d => d_count d | None => 0 end.
Definition cap_of (o : option dres) (dim : positive) : Z :=
  match o with Some d => default 0 (d_caps d !! dim) | None => 0 end.
Definition result_at (r : option dmap) (c : positive) : option dres :=
  match r with Some m => m !! c | None => None end.

Definition terms_ok (l : list (Z * Z)) : Prop :=
  Forall (fun ct => in64 (fst ct) /\ in64 (snd ct) /\ 0 <= fst ct /\ 0 <= snd ct) l.

(* ---- where TaskInfo.DRAResreq comes from: pkg/scheduler/cache/cache.go
        addDRAResource 1905-1922, buildTaskDRAInfo 1924-2028 ---- *)

(* a DeviceRequest that survives the filters of buildTaskDRAInfo (Exactly != nil, not FirstAvailable,
   allocationMode != All, DeviceClassName != ""), with count 0 already replaced by 1 *)
Record ereq := mkE { e_class : positive; e_count : Z; e_caps : gmap positive Z }.

(* the map part of addDRAResource: Count accumulates with SaturatingAdd (since the fix recorded in
   known-findings.json; before it was a plain wrapping +=), capacities add capacity * count exactly *)
Definition add_dra_map (dst : dmap) (rq : ereq) : dmap :=
  let cur := default (mkD 0 ∅) (dst !! e_class rq) in
  <[e_class rq := mkD (sat_add (d_count cur) (e_count rq))
                      (cap_add (d_caps cur) ((fun x => x * e_count rq) <$> e_caps rq))]> dst.

(* addDRAResource allocates the Capacity map only when the FIRST request of a device class carries
   capacities; a later request of that class with capacities then writes into a nil map and the Go
   code panics.  [s_nil] = the classes whose Capacity map is nil; None = that panic. *)
Record dstate := mkS { s_map : dmap; s_nil : gset positive }.

Definition add_dra_resource (st : dstate) (rq : ereq) : option dstate :=
  let fresh := bool_decide (s_map st !! e_class rq = None) in
  let nil' := if fresh && bool_decide (e_caps rq = ∅) then {[e_class rq]} ∪ s_nil st else s_nil st in
  if negb (bool_decide (e_caps rq = ∅)) && bool_decide (e_class rq ∈ nil') then None
  else Some (mkS (add_dra_map (s_map st) rq) nil').

Definition add_all (st : option dstate) (rqs : list ereq) : option dstate :=
  fold_left (fun acc rq => match acc with Some s => add_dra_resource s rq | None => None end) rqs st.

(* raw DeviceRequest: kind 0 = Exactly with ExactCount; any other kind is skipped *)
Record rawreq := mkRaw { w_kind : Z; w_class : positive; w_count : Z; w_caps : gmap positive Z }.
Definition effective (w : rawreq) : list ereq :=
  if w_kind w =? 0 then [mkE (w_class w) (if w_count w =? 0 then 1 else w_count w) (w_caps w)] else [].
Definition effective_all (ws : list rawreq) : list ereq := flat_map effective ws.

Inductive build_result :=
  | BuildPanic                                   (* assignment to entry in nil map *)
  | BuildError                                   (* a referenced (non-template) claim is not in the cache *)
  | BuildOk (r : option (dmap * gmap positive dmap)).  (* None = (nil, nil, nil) *)

(* the loop over pod.Spec.ResourceClaims: [claims] = the ResourceClaim cache, [refs] = the pod's claims *)
Fixpoint build_loop (claims : gmap positive (list rawreq)) (refs : list positive)
         (result : dstate) (per : gmap positive dmap) : build_result :=
  match refs with
  | [] => if bool_decide (per = ∅) then BuildOk None else BuildOk (Some (s_map result, per))
  | c :: rest =>
    if bool_decide (is_Some (per !! c)) then build_loop claims rest result per
    else match claims !! c with
         | None => BuildError
         | Some ws =>
           let rqs := effective_all ws in
           match add_all (Some (mkS ∅ ∅)) rqs, add_all (Some result) rqs with
           | Some pc, Some result' =>
             build_loop claims rest result' (if bool_decide (s_map pc = ∅) then per else <[c := s_map pc]> per)
           | _, _ => BuildPanic
           end
         end
  end.

Definition build_task_dra (claims : gmap positive (list rawreq)) (refs : list positive) : build_result :=
  build_loop claims refs (mkS ∅ ∅) ∅.

(* the map part alone (what the theorems speak about) *)
Definition add_map_all (dst : dmap) (rqs : list ereq) : dmap := fold_left add_dra_map rqs dst.
Definition class_counts (c : positive) (rqs : list ereq) : list Z :=
  flat_map (fun rq => if bool_decide (e_class rq = c) then [e_count rq] else []) rqs.
Definition sum_list (l : list Z) : Z := fold_right Z.add 0 l.
