(* the executable laws accept the model's own results: the search predicate and the theorems
   speak about the same thing *)
From stdpp Require Import gmap.
From Coq Require Import ZArith List Lia.
From V Require Import Base.Codec Base.Res Base.ResLemmas C16.SatModel C16.SatLemmas C16.Laws.
Import ListNotations.
Open Scope Z_scope.

Lemma zeqb_true a b : zeqb a b = true <-> a = b.
Proof. unfold zeqb. apply bool_decide_eq_true. Qed.

Lemma law_sat_add_model a b : in64 a -> in64 b -> law_sat_add a b (sat_add a b) = true.
Proof. intros Ha Hb. unfold law_sat_add. apply zeqb_true. apply sat_add_spec; assumption. Qed.

Lemma law_sat_mul_model a b : in64 a -> in64 b -> law_sat_mul a b (sat_mul a b) = true.
Proof. intros Ha Hb. unfold law_sat_mul. apply zeqb_true. apply sat_mul_spec; assumption. Qed.

Lemma law_dra_model l :
  Forall (fun ct => in64 (fst ct) /\ in64 (snd ct)) l -> law_dra l (dra_total l) = true.
Proof.
  intros Hin. unfold law_dra.
  destruct (forallb _ l) eqn:E; [|reflexivity].
  apply bool_decide_eq_true. apply dra_total_never_negative.
  rewrite forallb_forall in E. rewrite Forall_forall in *. intros ct Hct.
  specialize (E ct Hct). specialize (Hin ct Hct).
  apply andb_true_iff in E as [E1 E2]. apply bool_decide_eq_true in E1, E2. tauto.
Qed.

Lemma law_diff_model r s : law_diff r s (fst (diff_zero r s)) (snd (diff_zero r s)) = true.
Proof.
  destruct (diff_zero r s) as [inc dec] eqn:E. simpl.
  destruct (diff_decomposes r s inc dec E) as (H1 & H2 & H3 & H4 & H5 & H6 & H7 & H8 & Hk).
  unfold law_diff. rewrite !andb_true_iff. repeat split;
    try (apply zeqb_true; assumption); try (apply bool_decide_eq_true; assumption).
  apply forallb_forall. intros k _. destruct (Hk k) as (K1 & K2 & K3 & K4).
  rewrite !andb_true_iff. repeat split;
    try (apply zeqb_true; assumption); try (apply bool_decide_eq_true; assumption).
Qed.

Lemma law_group_model r x : law_group r x (add r x) (sub (add r x) x) (add x r) = true.
Proof.
  destruct (add_sub_pointwise r x) as (H1 & H2 & H3).
  destruct (add_comm_pointwise r x) as (C1 & C2 & C3).
  unfold law_group. rewrite !andb_true_iff. repeat split.
  - apply zeqb_true; exact H1.
  - apply zeqb_true; exact H2.
  - apply forallb_forall. intros k _. apply zeqb_true. apply H3.
  - apply zeqb_true; exact C1.
  - apply zeqb_true; exact C2.
  - apply forallb_forall. intros k _. apply bool_decide_eq_true. apply C3.
  - apply zeqb_true. reflexivity.
  - apply forallb_forall. intros k _. apply zeqb_true. apply add_sget.
Qed.
