From Coq Require Import ZArith Bool Lia List.
From V Require Import C16.SatModel.
Import ListNotations.
Open Scope Z_scope.

Ltac unfold_consts := unfold in64, max64, min64, two64, two63 in *.

Lemma wrap64_small x : in64 x -> wrap64 x = x.
Proof.
  unfold wrap64; unfold_consts; intros H.
  rewrite Z.mod_small; lia.
Qed.

Lemma wrap64_range x : in64 (wrap64 x).
Proof.
  unfold wrap64; unfold_consts.
  pose proof (Z.mod_pos_bound (x + 9223372036854775808) 18446744073709551616 ltac:(lia)). lia.
Qed.

Lemma wrap64_cong x : exists k, wrap64 x = x - k * two64.
Proof.
  unfold wrap64. exists ((x + two63) / two64).
  pose proof (Z.div_mod (x + two63) two64 ltac:(unfold two64; lia)). lia.
Qed.

Lemma wrap64_add_over a b :
  in64 a -> in64 b -> a + b > max64 -> wrap64 (a + b) = a + b - two64.
Proof.
  intros Ha Hb H. unfold wrap64; unfold_consts.
  replace (a + b + 9223372036854775808) with ((a + b - 9223372036854775808) + 1 * 18446744073709551616) by lia.
  rewrite Z.mod_add by lia. rewrite Z.mod_small; lia.
Qed.

Lemma wrap64_add_under a b :
  in64 a -> in64 b -> a + b < min64 -> wrap64 (a + b) = a + b + two64.
Proof.
  intros Ha Hb H. unfold wrap64; unfold_consts.
  replace (a + b + 9223372036854775808) with ((a + b + 27670116110564327424) + (-1) * 18446744073709551616) by lia.
  rewrite Z.mod_add by lia. rewrite Z.mod_small; lia.
Qed.

Lemma sat_add_spec a b : in64 a -> in64 b -> sat_add a b = clamp64 (a + b).
Proof.
  intros Ha Hb. unfold sat_add, clamp64.
  destruct (Z_gt_dec (a + b) max64) as [Hov|Hnov].
  - rewrite (wrap64_add_over a b Ha Hb Hov).
    unfold_consts.
    destruct (a >? 0) eqn:E1; destruct (b >? 0) eqn:E2;
    destruct (a + b - 18446744073709551616 <? 0) eqn:E3;
    destruct (a + b >? 9223372036854775807) eqn:E4; simpl; try lia.
  - destruct (Z_lt_dec (a + b) min64) as [Hun|Hnun].
    + rewrite (wrap64_add_under a b Ha Hb Hun).
      unfold_consts.
      destruct (a >? 0) eqn:E1; destruct (b >? 0) eqn:E2;
      destruct (a <? 0) eqn:E5; destruct (b <? 0) eqn:E6;
      destruct (a + b + 18446744073709551616 <? 0) eqn:E3;
      destruct (a + b + 18446744073709551616 >=? 0) eqn:E7;
      destruct (a + b >? 9223372036854775807) eqn:E4;
      destruct (a + b <? -9223372036854775808) eqn:E8; simpl; try lia.
    + rewrite wrap64_small by (unfold_consts; lia).
      unfold_consts.
      destruct (a >? 0) eqn:E1; destruct (b >? 0) eqn:E2;
      destruct (a <? 0) eqn:E5; destruct (b <? 0) eqn:E6;
      destruct (a + b <? 0) eqn:E3;
      destruct (a + b >=? 0) eqn:E7;
      destruct (a + b >? 9223372036854775807) eqn:E4;
      destruct (a + b <? -9223372036854775808) eqn:E8; simpl; try lia.
Qed.

Lemma quot_in64 s b : in64 s -> in64 b -> b <> 0 -> ~ (s = min64 /\ b = -1) -> in64 (Z.quot s b).
Proof.
  intros Hs Hb Hb0 Hex.
  pose proof (Z.quot_rem' s b) as Hqr.
  pose proof (Z.rem_bound_abs s b Hb0) as Hr.
  set (q := Z.quot s b) in *. set (r := Z.rem s b) in *.
  unfold_consts.
  assert (Hq : Z.abs q <= Z.abs s).
  { assert (Z.abs s = Z.abs (b * q + r)) by (f_equal; lia).
    assert (Hsgn : 0 <= r * s) by (apply Z.rem_sign_mul; exact Hb0).
    assert (Hsgn2 : 0 <= q * b * s).
    { destruct (Z.eq_dec q 0) as [->|Hq0]; [lia|].
      pose proof (Z.quot_rem' s b). fold q r in H0.
      (* s and b*q have the same sign because |r| < |b| <= |b*q| *)
      nia. }
    nia. }
  destruct (Z.eq_dec q 9223372036854775808) as [Hq1|Hq1]; [|lia].
  exfalso. apply Hex. rewrite Hq1 in *. split; nia.
Qed.

Lemma sat_mul_spec a b : in64 a -> in64 b -> sat_mul a b = clamp64 (a * b).
Proof.
  intros Ha Hb. unfold sat_mul.
  destruct (a =? 0) eqn:Ea0; [apply Z.eqb_eq in Ea0; subst; reflexivity|].
  destruct (b =? 0) eqn:Eb0; [apply Z.eqb_eq in Eb0; subst; rewrite Z.mul_0_r; reflexivity|].
  apply Z.eqb_neq in Ea0, Eb0. cbn [orb].
  destruct ((a =? min64) && (b =? -1)) eqn:Esp.
  { apply andb_true_iff in Esp as [E1 E2]. apply Z.eqb_eq in E1, E2. subst. reflexivity. }
  assert (Hnsp : ~ (a = min64 /\ b = -1)).
  { intros [-> ->]. unfold min64 in Esp. simpl in Esp. discriminate. }
  clear Esp.
  set (s := wrap64 (a * b)).
  assert (Hs : in64 s) by apply wrap64_range.
  destruct (wrap64_cong (a * b)) as [k Hk]. fold s in Hk.
  destruct (Z.eq_dec k 0) as [->|Hk0].
  - (* no overflow *)
    assert (Hsab : s = a * b) by lia.
    rewrite Hsab. rewrite Z.quot_mul by exact Eb0.
    rewrite wrap64_small by exact Ha. rewrite Z.eqb_refl. cbn [negb].
    rewrite Hsab in Hs. unfold clamp64. unfold_consts.
    destruct (a * b >? 9223372036854775807) eqn:E1; destruct (a * b <? -9223372036854775808) eqn:E2; lia.
  - (* overflow: the division test must fail *)
    assert (Htest : wrap64 (Z.quot s b) =? a = false).
    { apply Z.eqb_neq. intros Heq.
      destruct (Z.eq_dec s min64) as [Hsm|Hsm]; [destruct (Z.eq_dec b (-1)) as [Hb1|Hb1]|].
      - subst b. rewrite Hsm in Heq. unfold min64, wrap64, two63, two64 in Heq. simpl in Heq.
        apply Hnsp. split; [unfold min64; lia|reflexivity].
      - rewrite wrap64_small in Heq by (apply quot_in64; tauto).
        pose proof (Z.quot_rem' s b). pose proof (Z.rem_bound_abs s b Eb0).
        unfold_consts. nia.
      - rewrite wrap64_small in Heq by (apply quot_in64; tauto).
        pose proof (Z.quot_rem' s b). pose proof (Z.rem_bound_abs s b Eb0).
        unfold_consts. nia. }
    rewrite Htest. cbn [negb].
    unfold clamp64. unfold_consts.
    destruct (a >? 0) eqn:E3; destruct (b >? 0) eqn:E4; cbn [Bool.eqb];
    destruct (a * b >? 9223372036854775807) eqn:E1; destruct (a * b <? -9223372036854775808) eqn:E2; try nia.
Qed.

Lemma clamp64_range x : in64 (clamp64 x).
Proof.
  unfold clamp64; unfold_consts.
  destruct (x >? 9223372036854775807) eqn:E1; destruct (x <? -9223372036854775808) eqn:E2; lia.
Qed.

Lemma sat_add_range a b : in64 a -> in64 b -> in64 (sat_add a b).
Proof. intros; rewrite sat_add_spec by assumption; apply clamp64_range. Qed.

Lemma sat_mul_range a b : in64 a -> in64 b -> in64 (sat_mul a b).
Proof. intros; rewrite sat_mul_spec by assumption; apply clamp64_range. Qed.

Lemma clamp64_pos x : 0 < x -> 0 < clamp64 x.
Proof.
  unfold clamp64; unfold_consts. intros H.
  destruct (x >? 9223372036854775807) eqn:E1; destruct (x <? -9223372036854775808) eqn:E2; lia.
Qed.

Lemma clamp64_nonneg x : 0 <= x -> 0 <= clamp64 x.
Proof.
  unfold clamp64; unfold_consts. intros H.
  destruct (x >? 9223372036854775807) eqn:E1; destruct (x <? -9223372036854775808) eqn:E2; lia.
Qed.

Lemma clamp64_mono x y : x <= y -> clamp64 x <= clamp64 y.
Proof.
  unfold clamp64; unfold_consts. intros H.
  destruct (x >? 9223372036854775807) eqn:E1; destruct (x <? -9223372036854775808) eqn:E2;
  destruct (y >? 9223372036854775807) eqn:E3; destruct (y <? -9223372036854775808) eqn:E4; lia.
Qed.

Lemma sat_add_pos a b : in64 a -> in64 b -> 0 < a -> 0 < b -> 0 < sat_add a b.
Proof. intros; rewrite sat_add_spec by assumption; apply clamp64_pos; lia. Qed.

Lemma sat_mul_pos a b : in64 a -> in64 b -> 0 < a -> 0 < b -> 0 < sat_mul a b.
Proof. intros; rewrite sat_mul_spec by assumption; apply clamp64_pos; nia. Qed.

Lemma sat_add_nonneg a b : in64 a -> in64 b -> 0 <= a -> 0 <= b -> 0 <= sat_add a b.
Proof. intros; rewrite sat_add_spec by assumption; apply clamp64_nonneg; lia. Qed.

Lemma sat_mul_nonneg a b : in64 a -> in64 b -> 0 <= a -> 0 <= b -> 0 <= sat_mul a b.
Proof. intros; rewrite sat_mul_spec by assumption; apply clamp64_nonneg; nia. Qed.

(* the running total of GetMinDRAResources: fold of acc := acc (+) count (x) times *)
Definition dra_total (l : list (Z * Z)) : Z :=
  fold_left (fun acc ct => dra_accumulate acc (fst ct) (snd ct)) l 0.

Lemma dra_fold_nonneg l acc :
  in64 acc -> 0 <= acc ->
  Forall (fun ct => in64 (fst ct) /\ in64 (snd ct) /\ 0 <= fst ct /\ 0 <= snd ct) l ->
  let r := fold_left (fun acc ct => dra_accumulate acc (fst ct) (snd ct)) l acc in
  in64 r /\ acc <= r.
Proof.
  revert acc. induction l as [|[c t] l IH]; intros acc Hacc Hpos Hall; cbn [fold_left].
  - split; [exact Hacc|lia].
  - inversion Hall as [|x xs Hx Hxs]; subst. cbn [fst snd] in *. destruct Hx as (Hc & Ht & Hc0 & Ht0).
    pose proof (sat_mul_range c t Hc Ht) as Hm.
    pose proof (sat_mul_nonneg c t Hc Ht Hc0 Ht0) as Hm0.
    assert (Hstep : acc <= dra_accumulate acc c t).
    { unfold dra_accumulate. rewrite sat_add_spec by assumption.
      transitivity (clamp64 acc); [|apply clamp64_mono; lia].
      unfold clamp64; unfold_consts.
      destruct (acc >? 9223372036854775807) eqn:E1; destruct (acc <? -9223372036854775808) eqn:E2; lia. }
    specialize (IH (dra_accumulate acc c t)).
    destruct IH as [IH1 IH2].
    + unfold dra_accumulate. apply sat_add_range; assumption.
    + lia.
    + exact Hxs.
    + split; [exact IH1|lia].
Qed.

Lemma dra_total_never_negative l :
  Forall (fun ct => in64 (fst ct) /\ in64 (snd ct) /\ 0 <= fst ct /\ 0 <= snd ct) l ->
  0 <= dra_total l.
Proof.
  intros H. unfold dra_total.
  pose proof (dra_fold_nonneg l 0 ltac:(unfold_consts; lia) ltac:(lia) H) as [_ H2]. exact H2.
Qed.
