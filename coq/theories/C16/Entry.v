(* Entry point of the C16 correspondence: selector + tokens -> tokens.
   Field tags (-100-i) are interleaved so that a disagreement can be located. *)
From stdpp Require Import gmap.
From Coq Require Import ZArith List.
From V Require Import Base.Codec Base.Res Base.ResCodec C16.SatModel C16.Laws C16.DraModel C16.QuantModel C16.DraLaws C16.OrderLemmas C16.FloatMini.
Import ListNotations.
Open Scope Z_scope.

Definition tag (i : Z) : list Z := [-100 - i].

(* every Resource method on one (eps, r, rr, req) case *)
Definition res_all (eps : Z) (r rr req : res) : list Z :=
  tag 1 ++ eRes (add r rr) ++
  tag 2 ++ eRes (sub r rr) ++
  tag 3 ++ eRes (set_max r rr) ++
  tag 4 ++ eRes (min_dim r rr DZero) ++
  tag 5 ++ eRes (min_dim r rr DInf) ++
  tag 6 ++ eBool (less r rr DZero) ++ eBool (less r rr DInf) ++
  tag 7 ++ eBool (less_equal eps r rr DZero) ++ eBool (less_equal eps r rr DInf) ++
  tag 8 ++ eNames (le_names eps r rr DZero) ++ eNames (le_names eps r rr DInf) ++
  tag 9 ++ eBool (less_partly r rr DZero) ++ eBool (less_partly r rr DInf) ++
  tag 10 ++ eBool (less_equal_partly eps r rr DZero) ++ eBool (less_equal_partly eps r rr DInf) ++
  tag 11 ++ eBool (equal eps r rr) ++
  tag 12 ++ eNames (le_dim_names r rr req) ++
  tag 13 ++ eNames (lep_dim_names eps r rr req) ++
  tag 14 ++ eNames (gp_dim_names r rr req) ++
  tag 15 ++ eNames (gp_rel_names eps r rr req) ++
  tag 16 ++ eNames (lep_zf_names eps r rr req) ++
  tag 17 ++ (let '(i, d) := diff_zero r rr in eRes i ++ eRes d) ++
  tag 18 ++ eBool (is_empty eps r) ++ eNames (names_of eps r) ++
  tag 19 ++ eRes (multi r 3) ++
  tag 20 ++ eBool (greater_partly eps r rr DZero) ++ eBool (greater_partly eps r rr DInf) ++
  (* Resource.Sub with its assertion: 0 = the assertion panics, else the result *)
  tag 22 ++ (match sub_assert eps r rr with SubPanic => [0] | SubOk s => 1 :: eRes s end) ++
  tag 23 ++ eBool (less rr r DZero) ++ eBool (less rr r DInf).

(* the comparisons only (no arithmetic): used on magnitudes where float64 arithmetic is not exact
   but comparisons still are — integers up to 2^62 and the math.MaxFloat64 sentinel *)
Definition res_cmp (eps : Z) (r rr req : res) : list Z :=
  tag 6 ++ eBool (less r rr DZero) ++ eBool (less r rr DInf) ++
  tag 7 ++ eBool (less_equal eps r rr DZero) ++ eBool (less_equal eps r rr DInf) ++
  tag 8 ++ eNames (le_names eps r rr DZero) ++ eNames (le_names eps r rr DInf) ++
  tag 9 ++ eBool (less_partly r rr DZero) ++ eBool (less_partly r rr DInf) ++
  tag 10 ++ eBool (less_equal_partly eps r rr DZero) ++ eBool (less_equal_partly eps r rr DInf) ++
  tag 11 ++ eBool (equal eps r rr) ++
  tag 12 ++ eNames (le_dim_names r rr req) ++
  tag 13 ++ eNames (lep_dim_names eps r rr req) ++
  tag 14 ++ eNames (gp_dim_names r rr req) ++
  tag 20 ++ eBool (greater_partly eps r rr DZero) ++ eBool (greater_partly eps r rr DInf) ++
  tag 21 ++ eBool (less_equal eps r r DZero) ++ eBool (less_equal eps r r DInf) ++ eBool (equal eps r r).

(* math.MaxFloat64 = (2^53 - 1) * 2^971 is an integer; the wire token -7777777 stands for it *)
Definition max_float : Z := (2 ^ 53 - 1) * 2 ^ 971.
Definition unsentinel (x : Z) : Z := if x =? -7777777 then max_float else x.
Definition unsentinel_res (r : res) : res :=
  mkRes (unsentinel (cpu r)) (unsentinel (mem r))
        (match sc r with None => None | Some m => Some (unsentinel <$> m) end).

(* a value of the float mini-model on the wire: 0 v = the integer v, 1 = MaxFloat64, 2 / 3 = +-Inf, 4 = NaN *)
Definition eFl (a : fl) : list Z :=
  match a with
  | Fin z => if z =? max_float then [1; 0] else [0; z]
  | PInf => [2; 0] | NInf => [3; 0] | FNaN => [4; 0]
  end.

Definition entry (sel : Z) (toks : list Z) : list Z :=
  match sel with
  | 1 => match run_dec (dPair dZ dZ) toks with
         | Some (a, b) => [sat_add a b] | None => bad_input end
  | 2 => match run_dec (dPair dZ dZ) toks with
         | Some (a, b) => [sat_mul a b] | None => bad_input end
  | 3 => match run_dec (dList (dPair dZ dZ)) toks with
         | Some l => [fold_left (fun acc ct => dra_accumulate acc (fst ct) (snd ct)) l 0]
         | None => bad_input end
  (* ResFloat642Quantity then ResQuantity2Float64 on the float x/g: the quantity (milli), the float back *)
  | 4 => match run_dec (let* g := dZ in let* x := dZ in let* i := dZ in ret (g, x, i)) toks with
         | Some (g, x, i) => let c := i =? 0 in
                             let q := float_to_quantity g c x in [q; 1; quantity_to_float g c q]
         | None => bad_input end
  (* ResQuantity2Float64 then ResFloat642Quantity on the quantity m (milli): integral flag, float, quantity back *)
  | 13 => match run_dec (dPair dZ dZ) toks with
          | Some (m, i) => let c := i =? 0 in
                           let f := quantity_to_float 1 c m in [1; f; float_to_quantity 1 c f]
          | None => bad_input end
  (* JobInfo.GetMinDRAResources on a real JobInfo: nil flag, then class -> (count, capacities) *)
  | 5 => match run_dec dJob toks with
         | Some j => eOpt eDmap (get_min_dra j) | None => bad_input end
  (* DRAResource.Add / Sub *)
  | 6 => match run_dec (dPair dDres (dOpt dDres)) toks with
         | Some (d, o) => tag 1 ++ eDres (dra_add d o) ++ tag 2 ++ eDres (dra_sub d o) | None => bad_input end
  (* api.NewResource on a ResourceList (name -> milli-value): the Resource and MaxTaskNum *)
  | 7 => match run_dec dRlist toks with
         | Some rl => let '(r, mt) := new_resource rl in tag 1 ++ eRes r ++ tag 2 ++ [mt] | None => bad_input end
  (* util.ConvertRes2ResList on a Resource (unit grid) *)
  | 8 => match run_dec dRes toks with
         | Some r => eRlist (convert (unsentinel_res r)) | None => bad_input end
  (* SchedulerCache.buildTaskDRAInfo: the aggregated and the per-claim DRA requests of a pod *)
  | 9 => match run_dec dBuildInput toks with
         | Some (claims, refs) => eBuild (build_task_dra claims refs) | None => bad_input end
  (* the float mini-model against the real float64 fields: s = x + y (Resource.Add), s - y (SubWithoutAssert),
     s.LessEqual(s) — on integer-valued floats incl. 2^53 scale and the MaxFloat64 sentinel *)
  | 14 => match run_dec (dPair dZ dZ) toks with
          | Some (x, y) => let a := Fin (unsentinel x) in let b := Fin (unsentinel y) in
                           let s := fadd a b in
                           tag 1 ++ eFl s ++ tag 2 ++ eFl (fsub s b) ++ tag 3 ++ eBool (fle 1 s s)
          | None => bad_input end
  (* clone, mutate the clone, observe the source: source after clone.Add(o), after clone.Sub(o), after a
     TaskInfo.Clone() snapshot was added to; then the two mutated clones *)
  | 15 => match run_dec (dPair dDresB dDresB) toks with
          | Some (d, o) => tag 1 ++ eDres d ++ tag 2 ++ eDres d ++ tag 3 ++ eDres d ++
                           tag 4 ++ eDres (dra_add d (Some o)) ++ tag 5 ++ eDres (dra_sub d (Some o))
          | None => bad_input end
  | 10 => match run_dec (let* e := dZ in let* r := dRes in let* rr := dRes in let* q := dRes in ret (e, r, rr, q)) toks with
          | Some (e, r, rr, q) => res_all e r rr q
          | None => bad_input end
  (* laws evaluated on the implementation's own results: must answer [1] *)
  (* unit grid (one token = one Go unit, eps = 1): integers up to 2^60 in multiples of 2^12, where
     every operation of res_all is still exact in float64 *)
  | 11 => match run_dec (let* e := dZ in let* r := dRes in let* rr := dRes in let* q := dRes in ret (e, r, rr, q)) toks with
          | Some (e, r, rr, q) => res_all e r rr q
          | None => bad_input end
  | 12 => match run_dec (let* e := dZ in let* r := dRes in let* rr := dRes in let* q := dRes in ret (e, r, rr, q)) toks with
          | Some (e, r, rr, q) => res_cmp e (unsentinel_res r) (unsentinel_res rr) (unsentinel_res q)
          | None => bad_input end
  | 101 => match run_dec (let* a := dZ in let* b := dZ in let* g := dZ in ret (a, b, g)) toks with
           | Some (a, b, g) => eBool (law_sat_add a b g) | None => bad_input end
  | 102 => match run_dec (let* a := dZ in let* b := dZ in let* g := dZ in ret (a, b, g)) toks with
           | Some (a, b, g) => eBool (law_sat_mul a b g) | None => bad_input end
  | 103 => match run_dec (dPair (dList (dPair dZ dZ)) dZ) toks with
           | Some (l, g) => eBool (law_dra l g) | None => bad_input end
  | 104 => match run_dec (let* g := dZ in let* x := dZ in let* i := dZ in let* q := dZ in let* mant := dZ in
                          let* e := dZ in ret (g, x, i, q, mant, e)) toks with
           | Some (g, x, i, q, mant, e) => eBool (law_f2q2f g (i =? 0) x q mant e) | None => bad_input end
  | 114 => match run_dec (let* a := dBool in let* b := dBool in let* c := dBool in let* d := dBool in
                          let* e := dBool in ret (a, b, c, d, e)) toks with
           | Some (a, b, c, d, e) => eBool (law_partial a b c d e) | None => bad_input end
  | 119 => match run_dec (let* r := dRes in let* x := dRes in let* rs := dRes in let* rb := dRes in
                          ret (r, x, rs, rb)) toks with
           | Some (r, x, rs, rb) => eBool (law_sub_add r x rs rb) | None => bad_input end
  | 118 => match run_dec (let* d := dDresB in let* b := dDres in let* a1 := dDres in let* a2 := dDres in
                          let* a3 := dDres in ret (d, b, a1, a2, a3)) toks with
           | Some (d, b, a1, a2, a3) => eBool (law_clone_independent d b a1 a2 a3) | None => bad_input end
  | 117 => match run_dec (let* r := dRes in let* rr := dRes in let* mn := dRes in ret (r, rr, mn)) toks with
           | Some (r, rr, mn) => eBool (law_min_inf r rr mn) | None => bad_input end
  | 116 => match run_dec (dPair dBool dBool) toks with
           | Some (a, b) => eBool (law_sub_assert a b) | None => bad_input end
  | 115 => match run_dec (let* m := dZ in let* i := dZ in let* mant := dZ in let* e := dZ in let* b := dZ in
                          ret (m, i, mant, e, b)) toks with
           | Some (m, i, mant, e, b) => eBool (law_q2f2q m (i =? 0) mant e b) | None => bad_input end
  | 105 => match run_dec (dPair dJob (dOpt dDmap)) toks with
           | Some (j, g) => eBool (law_min_dra j g) | None => bad_input end
  | 106 => match run_dec (let* j := dJob in let* j' := dJob in let* g := dOpt dDmap in let* g' := dOpt dDmap in
                          ret (j, j', g, g')) toks with
           | Some (j, j', g, g') => eBool (law_dra_mono j j' g g') | None => bad_input end
  | 107 => match run_dec (let* d := dDres in let* o := dOpt dDres in let* ga := dDres in let* gs := dDres in
                          ret (d, o, ga, gs)) toks with
           | Some (d, o, ga, gs) => eBool (law_dra_ops d o ga gs) | None => bad_input end
  | 120 => match run_dec (let* r := dRes in let* rl := dRlist in let* r' := dRes in let* mt := dZ in
                          ret (r, rl, r', mt)) toks with
           | Some (r, rl, r', mt) => eBool (law_rt_res (unsentinel_res r) rl r' mt) | None => bad_input end
  | 121 => match run_dec (let* rl := dRlist in let* r := dRes in let* mt := dZ in let* rl' := dRlist in
                          ret (rl, r, mt, rl')) toks with
           | Some (rl, r, mt, rl') => eBool (law_rt_list rl r mt rl') | None => bad_input end
  | 108 => match run_dec (dPair (dList dZ) (dList dZ)) toks with
           | Some (b, a) => eBool (law_unchanged b a) | None => bad_input end
  | 109 => match run_dec (dPair dBuildInput dBuildGot) toks with
           | Some ((claims, refs), g) => eBool (law_task_dra claims refs g) | None => bad_input end
  | 110 => match run_dec (let* r := dRes in let* x := dRes in let* ra := dRes in let* rs := dRes in
                          let* rb := dRes in ret (r, x, ra, rs, rb)) toks with
           | Some (r, x, ra, rs, rb) => eBool (law_group r x ra rs rb) | None => bad_input end
  | 111 => match run_dec (let* e := dZ in let* r := dRes in let* rr := dRes in let* o := dOrder in
                          ret (e, r, rr, o)) toks with
           | Some (e, r, rr, o) => eBool (law_order e r rr o) | None => bad_input end
  | 112 => match run_dec (let* r := dRes in let* s := dRes in let* i := dRes in let* d := dRes in
                          ret (r, s, i, d)) toks with
           | Some (r, s, i, d) => eBool (law_diff r s i d) | None => bad_input end
  | 113 => match run_dec (let* r := dRes in let* rr := dRes in let* mx := dRes in let* mn := dRes in
                          ret (r, rr, mx, mn)) toks with
           | Some (r, rr, mx, mn) => eBool (law_minmax r rr mx mn) | None => bad_input end
  | _ => bad_input
  end.
