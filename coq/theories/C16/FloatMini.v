(* A float64-faithful mini-model for INTEGER-valued amounts, without primitive floats (so that the
   theorems stay closed under the global context): binary64 values that are integers, +-Inf and NaN;
   addition and subtraction are the exact integer operation followed by round-to-nearest-even to 53
   significant bits, overflow to infinity at 2^1024.  (Amounts on a 1/2^k grid reduce to this by scaling:
   multiplying by a power of two commutes with binary rounding.)
   Purpose: the guard under which the exact-arithmetic laws of Base/ResLemmas.v carry over to float64,
   and the refutation of those laws outside the guard (2^53 scale, the MaxFloat64 sentinel). *)
From Coq Require Import ZArith Bool Lia.
Open Scope Z_scope.

Inductive fl := Fin (z : Z) | PInf | NInf | FNaN.

Definition two53 : Z := 2 ^ 53.
Definition max_float64 : Z := (2 ^ 53 - 1) * 2 ^ 971.      (* math.MaxFloat64 *)

(* round-to-nearest-even of a non-negative integer to 53 significant bits *)
Definition round_pos (a : Z) : Z :=
  if a <? two53 then a
  else let e := Z.log2 a - 52 in
       let q := a / 2 ^ e in let r := a mod 2 ^ e in let half := 2 ^ (e - 1) in
       let q' := if r <? half then q else if half <? r then q + 1 else if Z.even q then q else q + 1 in
       q' * 2 ^ e.

Definition round (x : Z) : fl :=
  let y := if 0 <=? x then round_pos x else - round_pos (- x) in
  if 2 ^ 1024 <=? y then PInf else if y <=? - 2 ^ 1024 then NInf else Fin y.

Definition fadd (a b : fl) : fl :=
  match a, b with
  | Fin x, Fin y => round (x + y)
  | FNaN, _ | _, FNaN => FNaN
  | PInf, NInf | NInf, PInf => FNaN
  | PInf, _ | _, PInf => PInf
  | NInf, _ | _, NInf => NInf
  end.
Definition fneg (a : fl) : fl :=
  match a with Fin x => Fin (- x) | PInf => NInf | NInf => PInf | FNaN => FNaN end.
Definition fsub (a b : fl) : fl := fadd a (fneg b).

Definition flt (a b : fl) : bool :=
  match a, b with
  | Fin x, Fin y => x <? y
  | FNaN, _ | _, FNaN => false
  | NInf, NInf | PInf, PInf => false
  | NInf, _ | _, PInf => true
  | _, _ => false
  end.
Definition fabs (a : fl) : fl := match a with Fin x => Fin (Z.abs x) | NInf => PInf | x => x end.

(* lessEqualFunc of LessEqual with tolerance eps (an integer >= 1 on the scaled grid) *)
Definition fle (eps : Z) (l r : fl) : bool := flt l r || flt (fabs (fsub l r)) (Fin eps).

(* ---- the guard: below 2^53 nothing rounds ---- *)
Definition exact (x : Z) : Prop := Z.abs x <= two53.

Lemma round_exact x : exact x -> round x = Fin x.
Proof.
  unfold exact, round, round_pos, two53. intros H.
  assert (H1024 : 2 ^ 53 < 2 ^ 1024) by (apply Z.pow_lt_mono_r; lia).
  destruct (0 <=? x) eqn:E; [apply Z.leb_le in E|apply Z.leb_gt in E].
  - destruct (x <? 2 ^ 53) eqn:E2; [apply Z.ltb_lt in E2|apply Z.ltb_ge in E2].
    + replace (2 ^ 1024 <=? x) with false by (symmetry; apply Z.leb_gt; lia).
      replace (x <=? - 2 ^ 1024) with false by (symmetry; apply Z.leb_gt; lia). reflexivity.
    + assert (x = 2 ^ 53) by lia. subst x. vm_compute. reflexivity.
  - destruct (- x <? 2 ^ 53) eqn:E2; [apply Z.ltb_lt in E2|apply Z.ltb_ge in E2].
    + rewrite Z.opp_involutive.
      replace (2 ^ 1024 <=? x) with false by (symmetry; apply Z.leb_gt; lia).
      replace (x <=? - 2 ^ 1024) with false by (symmetry; apply Z.leb_gt; lia). reflexivity.
    + assert (x = - 2 ^ 53) by lia. subst x. vm_compute. reflexivity.
Qed.

(* inside the guard float addition / subtraction ARE the exact operations, so add-then-sub returns the
   original and reflexivity holds: the Z theorems transfer *)
Theorem fadd_exact x y : exact (x + y) -> fadd (Fin x) (Fin y) = Fin (x + y).
Proof. intros H. cbn. apply round_exact. exact H. Qed.

Theorem add_sub_float_guarded x y : exact (x + y) -> exact x ->
  fsub (fadd (Fin x) (Fin y)) (Fin y) = Fin x.
Proof.
  intros H1 H2. rewrite fadd_exact by exact H1. cbn. replace (x + y + - y) with x by lia.
  apply round_exact. exact H2.
Qed.

Theorem fle_refl_finite eps x : 0 < eps -> fle eps (Fin x) (Fin x) = true.
Proof.
  intros He. unfold fle, fsub. cbn [fneg fadd]. replace (x + - x) with 0 by lia.
  rewrite round_exact by (unfold exact, two53; cbn; lia). cbn. rewrite Z.ltb_irrefl. cbn.
  apply Z.ltb_lt. exact He.
Qed.

(* ---- outside the guard the laws are FALSE on float64 ---- *)
(* (1 + 2^53) - 2^53 = 0, not 1 *)
Theorem add_sub_refuted_two53 :
  exists x y, fsub (fadd (Fin x) (Fin y)) (Fin y) <> Fin x /\ exact x /\ exact y.
Proof. exists 1, two53. split; [vm_compute; discriminate|]. unfold exact, two53. cbn. lia. Qed.

(* (5 + MaxFloat64) - MaxFloat64 = 0, not 5: InfiniteResource-scale operands *)
Theorem add_sub_refuted_sentinel :
  fsub (fadd (Fin 5) (Fin max_float64)) (Fin max_float64) = Fin 0.
Proof. vm_compute. reflexivity. Qed.

(* MaxFloat64 + MaxFloat64 = +Inf, and LessEqual(r, r) is false there *)
Theorem refl_refuted_two_sentinels :
  let s := fadd (Fin max_float64) (Fin max_float64) in s = PInf /\ fle 1 s s = false.
Proof. vm_compute. split; reflexivity. Qed.
