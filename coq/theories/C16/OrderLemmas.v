(* Consistency between the strict / non-strict and the total / partial ("some dimension") comparisons of
   Base/Res.v under BOTH missing-dimension conventions, for every tolerance eps > 0, and the asserting
   form of Resource.Sub.  (Base/ResLemmas.v holds the older order theorems.) *)
From stdpp Require Import gmap.
From Coq Require Import ZArith Lia.
From V Require Import Base.Res Base.ResLemmas.
Open Scope Z_scope.

Section WithEps.
Variable eps : Z.
Hypothesis eps_pos : 0 < eps.

Lemma cmp_at_lt_le rr d k v : cmp_at lt rr d true k v = true -> cmp_at (le eps) rr d true k v = true.
Proof.
  unfold cmp_at. destruct (scm rr !! k); [apply (lt_le eps eps_pos)|].
  destruct d; [apply (lt_le eps eps_pos)|auto].
Qed.

(* r.LessPartly(rr, d) -> r.LessEqualPartly(rr, d) *)
Theorem less_partly_implies_less_equal_partly r rr d :
  less_partly r rr d = true -> less_equal_partly eps r rr d = true.
Proof.
  unfold less_partly, less_equal_partly. rewrite !orb_true_iff.
  intros [[[H|H]|H]|H].
  - left. left. left. apply (lt_le eps eps_pos); assumption.
  - left. left. right. apply (lt_le eps eps_pos); assumption.
  - left. right. exact H.
  - right. unfold any_sc in *. apply map_anyb_spec in H as (k & v & Hl & Hp).
    apply map_anyb_spec. exists k, v. split; [exact Hl|]. apply cmp_at_lt_le. exact Hp.
Qed.

(* r.LessEqual(rr, d) -> r.LessEqualPartly(rr, d) : the cpu dimension always exists *)
Theorem less_equal_implies_less_equal_partly r rr d :
  less_equal eps r rr d = true -> less_equal_partly eps r rr d = true.
Proof.
  unfold less_equal, less_equal_partly. rewrite !andb_true_iff, !orb_true_iff.
  intros [[[H _] _] _]. left. left. left. exact H.
Qed.

(* r.Less(rr, d) -> r.LessPartly(rr, d) *)
Theorem less_implies_less_partly r rr d : less r rr d = true -> less_partly r rr d = true.
Proof.
  unfold less, less_partly. rewrite !andb_true_iff, !orb_true_iff.
  intros [[[H _] _] _]. left. left. left. exact H.
Qed.

(* not r.LessEqualPartly(rr, d) -> rr.Less(r, d): if r is in NO dimension within tolerance of rr, then
   rr is strictly below r everywhere — under both conventions *)
Theorem not_less_equal_partly_implies_greater r rr d :
  less_equal_partly eps r rr d = false -> less rr r d = true.
Proof.
  unfold less_equal_partly, less. rewrite !orb_false_iff.
  intros [[[Hc Hm] Hmiss] Hs].
  apply (le_false eps eps_pos) in Hc, Hm.
  assert (Hall : forall k v, scm r !! k = Some v -> cmp_at (le eps) rr d true k v = false).
  { intros k v Hl. unfold any_sc in Hs.
    destruct (cmp_at (le eps) rr d true k v) eqn:E; [|reflexivity].
    assert (map_anyb (cmp_at (le eps) rr d true) (scm r) = true) by (apply map_anyb_spec; eauto). congruence. }
  rewrite !andb_true_iff. repeat split.
  - apply lt_spec. lia.
  - apply lt_spec. lia.
  - destruct d; [reflexivity|]. apply negb_true_iff, has_missing_false.
    intros k [v Hv]. specialize (Hall k v Hv). unfold cmp_at in Hall.
    destruct (scm rr !! k); [eauto|discriminate].
  - unfold all_sc. apply map_allb_spec. intros k w Hw. unfold cmp_at.
    destruct (scm r !! k) as [v|] eqn:Hv.
    + specialize (Hall k v Hv). unfold cmp_at in Hall. rewrite Hw in Hall.
      apply (le_false eps eps_pos) in Hall. apply lt_spec. lia.
    + destruct d; [|reflexivity].
      (* DZero: a key of rr missing in r is excluded by has_missing r rr = false *)
      exfalso. assert (has_missing r rr = true); [|congruence].
      apply has_missing_spec. exists k. split; [eauto|exact Hv].
Qed.

(* Equal is reflexive *)
Theorem equal_refl r : equal eps r r = true.
Proof.
  unfold equal. rewrite !andb_true_iff. repeat split.
  - apply (eqv_spec eps eps_pos). rewrite Z.sub_diag. cbn. exact eps_pos.
  - apply (eqv_spec eps eps_pos). rewrite Z.sub_diag. cbn. exact eps_pos.
  - apply map_allb_spec. intros k v Hl. rewrite Hl. cbn. apply (eqv_spec eps eps_pos). rewrite Z.sub_diag. cbn. exact eps_pos.
Qed.

(* ---- Resource.Sub with its assertion (resource_info.go 301-306):
        assert.Assertf(rr.LessEqual(r, Zero), ...) panics (panicOnError) when violated ---- *)
Inductive sub_result := SubPanic | SubOk (r : res).

Definition sub_assert (r rr : res) : sub_result :=
  if less_equal eps rr r DZero then SubOk (sub r rr) else SubPanic.

(* adding then (asserting) subtracting: for a vector without negative amounts the assertion holds
   and the original comes back dimension by dimension *)
Definition nonneg_res (r : res) : Prop :=
  0 <= cpu r /\ 0 <= mem r /\ forall k v, scm r !! k = Some v -> 0 <= v.

Theorem add_then_sub_assert r x : nonneg_res r ->
  exists s, sub_assert (add r x) x = SubOk s /\
            cpu s = cpu r /\ mem s = mem r /\ forall k, sget s k = sget r k.
Proof.
  intros (Hc & Hm & Hs). unfold sub_assert.
  assert (Hle : less_equal eps x (add r x) DZero = true).
  { apply (less_equal_zero_spec eps eps_pos). rewrite add_cpu, add_mem. repeat split; try lia.
    intros k v Hl. rewrite add_sget. rewrite (sget_lookup x k v Hl).
    assert (0 <= sget r k); [|lia]. unfold sget. destruct (scm r !! k) as [w|] eqn:E; cbn; [eapply Hs; exact E|lia]. }
  rewrite Hle. exists (sub (add r x) x). split; [reflexivity|].
  destruct (add_sub_pointwise r x) as (H1 & H2 & H3). auto.
Qed.

(* when the assertion fails: exactly when some dimension of rr exceeds r by the tolerance or more *)
Theorem sub_assert_panics_iff r rr :
  sub_assert r rr = SubPanic <->
  cpu r + eps <= cpu rr \/ mem r + eps <= mem rr \/
  exists k v, scm rr !! k = Some v /\ sget r k + eps <= v.
Proof.
  unfold sub_assert. destruct (less_equal eps rr r DZero) eqn:E.
  - split; [discriminate|]. apply (less_equal_zero_spec eps eps_pos) in E as (H1 & H2 & H3).
    intros [H|[H|(k & v & Hl & H)]]; try lia. specialize (H3 k v Hl). lia.
  - split; [intros _|reflexivity].
    destruct (Z_lt_dec (cpu rr) (cpu r + eps)) as [Hc|Hc]; [|left; lia].
    destruct (Z_lt_dec (mem rr) (mem r + eps)) as [Hm|Hm]; [|right; left; lia].
    right. right.
    unfold less_equal in E. rewrite !andb_false_iff in E.
    destruct E as [[[E|E]|E]|E].
    + apply (le_false eps eps_pos) in E. lia.
    + apply (le_false eps eps_pos) in E. lia.
    + discriminate.
    + unfold all_sc in E. apply map_allb_false in E as (k & v & Hl & Hp).
      exists k, v. split; [exact Hl|]. unfold cmp_at in Hp. unfold sget.
      destruct (scm r !! k); cbn; apply (le_false eps eps_pos) in Hp; lia.
Qed.

End WithEps.

(* the reviewer's witness: with a negative amount the assertion of Sub fails after Add *)
Lemma add_then_sub_assert_refuted :
  exists r x, sub_assert 2 (add r x) x = SubPanic.
Proof. exists (mkRes (-5) 0 None), (mkRes 3 0 None). vm_compute. reflexivity. Qed.

(* the identity element of the "group": adding or subtracting the empty resource changes nothing *)
Lemma add_empty r : add r empty_res = r.
Proof. destruct r as [c m s]. unfold add, empty_res. cbn. rewrite !Z.add_0_r. reflexivity. Qed.

Lemma sub_empty r : sub r empty_res = r.
Proof.
  destruct r as [c m [s|]]; unfold sub, empty_res; cbn; rewrite !Z.sub_0_r; [|reflexivity].
  f_equal. f_equal. apply map_eq. intros k. rewrite lookup_merge, lookup_empty.
  destruct (s !! k); reflexivity.
Qed.

(* subtracting then adding returns the original, dimension by dimension, when the receiver's scalar map is not
   nil (with a nil map sub returns early and drops the scalars: C16_sub_nil_drops_scalars) — a dimension r
   lacks goes through -x and back to 0 *)
Theorem sub_add_pointwise r x : sc r <> None ->
  cpu (add (sub r x) x) = cpu r /\ mem (add (sub r x) x) = mem r /\
  forall k, sget (add (sub r x) x) k = sget r k.
Proof.
  intros H. rewrite add_cpu, add_mem, sub_cpu, sub_mem. repeat split; try lia.
  intros k. rewrite add_sget, sub_sget by exact H. lia.
Qed.
