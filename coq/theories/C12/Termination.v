(* C12: what is true and what is false about termination of the fair-share loop in
   exact arithmetic, with the exit tests exactly as coded (IsEmpty with the 0.1
   threshold per dimension, DeepEqual(remaining, old), total weight 0). *)
From Coq Require Import QArith Qminmax ZArith List Bool Lia Lqa Permutation Morphisms.
From V Require Import C12.Model C12.Lemmas.
Import ListNotations.
Open Scope Q_scope.

Global Instance qmax_proper : Proper (Qeq ==> Qeq ==> Qeq) qmax.
Proof.
  intros a a' Ha b b' Hb.
  destruct (qmax_cases a b) as [[? ->]|[? ->]], (qmax_cases a' b') as [[? ->]|[? ->]]; lra.
Qed.
Global Instance qmin_proper : Proper (Qeq ==> Qeq ==> Qeq) qmin.
Proof.
  intros a a' Ha b b' Hb.
  destruct (qmin_cases a b) as [[? ->]|[? ->]], (qmin_cases a' b') as [[? ->]|[? ->]]; lra.
Qed.

(* ---------- value-level semantics of one update on non-negative data ---------- *)
Lemma cnew_val j sh d cap req g :
  0 <= val0 d -> 0 <= val0 sh -> match cap with Some c => 0 <= c | None => True end ->
  0 <= val0 req -> 0 <= val0 g ->
  val0 (cnew j sh d cap req g) ==
  qmax (qmin (match cap with
              | Some c => qmin (val0 d + val0 sh) c
              | None => val0 d + val0 sh
              end) (val0 req)) (val0 g).
Proof. intros. destruct cap as [c|]; cell_crush. Qed.

Lemma cinc_val j l r : 0 <= val0 l -> 0 <= val0 r -> val0 (cinc j l r) == qmax 0 (val0 l - val0 r).
Proof.
  intros Hl Hr. unfold cinc. rewrite (qeq_bool_m1 _ Hl), (qeq_bool_m1 _ Hr).
  destruct (qlt_bool (val0 r) (val0 l)) eqn:E;
    [apply qlt_bool_iff in E | apply qlt_bool_false in E];
    destruct (is_base j), l, r; cbn [val0] in *; qcases; lra.
Qed.

Lemma cdec_val j l r : 0 <= val0 l -> 0 <= val0 r -> val0 (cdec j l r) == qmax 0 (val0 r - val0 l).
Proof.
  intros Hl Hr. unfold cdec. rewrite (qeq_bool_m1 _ Hl), (qeq_bool_m1 _ Hr).
  destruct (qlt_bool (val0 r) (val0 l)) eqn:E;
    [apply qlt_bool_iff in E | apply qlt_bool_false in E];
    destruct (is_base j), l, r; cbn [val0] in *; qcases; lra.
Qed.

Lemma val0_cmul k c : val0 (cmul k c) == k * val0 c.
Proof. destruct c; simpl; lra. Qed.

(* ---------- when an exit test is false ---------- *)
Lemma length_tab n f : length (tab n f) = n.
Proof. unfold tab. rewrite map_length, seq_length. reflexivity. Qed.

Lemma vempty_false v i :
  (i < length v)%nat -> i <> 2%nat -> eps <= val0 (cnth v i) -> vempty v = false.
Proof.
  intros Hi H2 Hv. destruct (vempty v) eqn:E; [exfalso | reflexivity].
  unfold vempty in E. rewrite forallb_forall in E.
  assert (Hin : In i (seq 0 (length v))) by (apply in_seq; lia).
  specialize (E i Hin). unfold cempty, eps in *.
  destruct (is_base i).
  - apply qlt_bool_iff in E. lra.
  - destruct (Nat.eqb i 2) eqn:E2; [apply Nat.eqb_eq in E2; contradiction|].
    destruct (cnth v i); cbn [val0] in *; [apply qlt_bool_iff in E; lra | lra].
Qed.

Lemma vdeq_false a b i : ~ val0 (cnth a i) == val0 (cnth b i) -> vdeq a b = false.
Proof.
  intro H. destruct (vdeq a b) eqn:E; [exfalso | reflexivity].
  unfold vdeq in E. rewrite vall2_spec in E by reflexivity. specialize (E i).
  apply H. unfold cdeq in E. destruct (cnth a i), (cnth b i); try discriminate; cbn [val0].
  - apply Qeq_bool_iff. exact E.
  - reflexivity.
Qed.

Lemma vle_eps_false l r i :
  eps <= val0 (cnth l i) - val0 (cnth r i) -> 0 <= val0 (cnth r i) -> vle_eps l r = false.
Proof.
  intros H Hr. destruct (vle_eps l r) eqn:E; [exfalso | reflexivity].
  unfold vle_eps in E. rewrite vall2_spec in E by reflexivity. specialize (E i).
  unfold cle_eps, eps in *. destruct (cnth l i); cbn [val0] in *.
  - apply qlt_bool_iff in E. lra.
  - lra.
Qed.

(* ---------- non-termination of the exact loop on the cross-capped witness ---------- *)
(* static part of a witness queue: weight 1, unmet, capped at c cpu / m memory / 8 of a third
   resource that nobody requests, requesting 1000/1000, no guarantee *)
Definition wstat (q : qattr) (c m : Q) : Prop :=
  q_w q = 1%Z /\ q_meet q = false /\ q_rcap q = [Some c; Some m; None; Some 8]
  /\ q_req q = [Some 1000; Some 1000] /\ q_gua q = vzero.

Definition vnonneg (v : vec) : Prop := forall i, 0 <= val0 (cnth v i).

Lemma ratio12 : ratio 1 2 == 1 # 2.
Proof. reflexivity. Qed.

Lemma wit_share rem i : val0 (cmul (ratio 1 2) (cnth rem i)) == (1 # 2) * val0 (cnth rem i).
Proof. rewrite val0_cmul, ratio12. reflexivity. Qed.

(* new deserved of a witness queue, by value *)
Lemma wit_new_val q c m rem i :
  wstat q c m -> 0 <= c -> 0 <= m -> vnonneg rem -> vnonneg (q_des q) ->
  val0 (cnth (new_des rem 2 q) i) ==
  qmax (qmin (match cnth [Some c; Some m; None; Some 8] i with
              | Some k => qmin (val0 (cnth (q_des q) i) + val0 (cmul (ratio 1 2) (cnth rem i))) k
              | None => val0 (cnth (q_des q) i) + val0 (cmul (ratio 1 2) (cnth rem i))
              end) (val0 (cnth [Some 1000; Some 1000] i))) (val0 (cnth vzero i)).
Proof.
  intros (Hw & _ & Hc & Hr & Hg) Hc0 Hm0 Hrem Hdes.
  rewrite cnth_new_des, Hw, Hc, Hr, Hg.
  assert (Hsh : val0 (cmul (ratio 1 2) (cnth rem i)) == (1 # 2) * val0 (cnth rem i))
    by (rewrite val0_cmul, ratio12; reflexivity).
  rewrite cnew_val.
  - reflexivity.
  - apply Hdes.
  - rewrite Hsh. specialize (Hrem i). lra.
  - destruct i as [|[|[|[|[|i]]]]]; cbn; auto; lra.
  - destruct i as [|[|[|i]]]; cbn; lra.
  - rewrite cnth_vzero. lra.
Qed.

Lemma wit_new_nonneg q c m rem : wstat q c m -> vnonneg (new_des rem 2 q).
Proof.
  intros (_ & _ & _ & _ & Hg) i. rewrite cnth_new_des. apply cnew_nonneg.
  rewrite Hg, cnth_vzero. lra.
Qed.

Record WJ (A B : qattr) (rem : vec) : Prop := {
  wj_A : wstat A 10 1000; wj_B : wstat B 1000 10;
  wj_r : vnonneg rem; wj_a : vnonneg (q_des A); wj_b : vnonneg (q_des B);
  wj_x : 0 < val0 (cnth rem 0); wj_y : 0 < val0 (cnth rem 1); wj_g : val0 (cnth rem 3) == 8;
  wj_a0 : val0 (cnth (q_des A) 0) == 10;
  wj_a1 : val0 (cnth (q_des A) 1) == 90 - val0 (cnth rem 1);
  wj_a3 : val0 (cnth (q_des A) 3) == 0;
  wj_b0 : val0 (cnth (q_des B) 0) == 90 - val0 (cnth rem 0);
  wj_b1 : val0 (cnth (q_des B) 1) == 10;
  wj_b3 : val0 (cnth (q_des B) 3) == 0 }.

(* remaining after a round over two unmet queues, by value *)
Lemma round2_rem_val D rem A B i :
  q_meet A = false -> q_meet B = false ->
  vnonneg rem -> vnonneg (q_des A) -> vnonneg (q_des B) ->
  let W := total_weight [A; B] in
  vnonneg (new_des rem W A) -> vnonneg (new_des rem W B) ->
  let inc q := qmax 0 (val0 (cnth (new_des rem W q) i) - val0 (cnth (q_des q) i)) in
  let dec q := qmax 0 (val0 (cnth (q_des q) i) - val0 (cnth (new_des rem W q) i)) in
  val0 (cnth (snd (round D rem [A; B])) i) ==
  if Nat.ltb i D then qmax 0 (val0 (cnth rem i) + (dec A + dec B) - (inc A + inc B)) else 0.
Proof.
  intros MA MB Hr Ha Hb W HnA HnB inc dec.
  unfold round. fold W. cbn [snd]. rewrite cnth_vfix.
  destruct (Nat.ltb i D); [|reflexivity].
  rewrite cnth_vnorm, val0_cnorm, cnth_vinc, cnth_vadd.
  cbn [map vsum fold_right]. rewrite !cnth_vadd.
  unfold q_inc, q_dec. rewrite MA, MB. rewrite !cnth_vinc, !cnth_vdec.
  assert (EI : val0 (cadd (cinc i (cnth (new_des rem W A) i) (cnth (q_des A) i))
                      (cadd (cinc i (cnth (new_des rem W B) i) (cnth (q_des B) i)) (cnth vzero i)))
               == inc A + inc B).
  { rewrite !val0_cadd, cnth_vzero, !cinc_val by auto. unfold inc. lra. }
  assert (ED : val0 (cadd (cdec i (cnth (new_des rem W A) i) (cnth (q_des A) i))
                      (cadd (cdec i (cnth (new_des rem W B) i) (cnth (q_des B) i)) (cnth vzero i)))
               == dec A + dec B).
  { rewrite !val0_cadd, cnth_vzero, !cdec_val by auto. unfold dec. lra. }
  assert (I0 : 0 <= inc A + inc B) by (unfold inc; qcases; lra).
  assert (D0 : 0 <= dec A + dec B) by (unfold dec; qcases; lra).
  rewrite cinc_val.
  - rewrite val0_cadd, EI, ED. reflexivity.
  - rewrite val0_cadd, ED. specialize (Hr i). lra.
  - rewrite EI. exact I0.
Qed.

Section WitnessStep.
  Variables (q : qattr) (c m : Q) (rem : vec).
  Hypothesis Hs : wstat q c m.
  Hypothesis Hc : 0 <= c.
  Hypothesis Hm : 0 <= m.
  Hypothesis Hr : vnonneg rem.
  Hypothesis Hd : vnonneg (q_des q).

  Lemma wit_new0 :
    val0 (cnth (new_des rem 2 q) 0) ==
    qmax (qmin (qmin (val0 (cnth (q_des q) 0) + (1 # 2) * val0 (cnth rem 0)) c) 1000) 0.
  Proof.
    rewrite (wit_new_val q c m rem 0) by assumption.
    change (cnth [Some c; Some m; None; Some 8] 0) with (Some c).
    change (cnth [Some 1000; Some 1000] 0) with (Some 1000).
    change (cnth vzero 0) with (Some 0). cbn [val0]. rewrite wit_share. reflexivity.
  Qed.

  Lemma wit_new1 :
    val0 (cnth (new_des rem 2 q) 1) ==
    qmax (qmin (qmin (val0 (cnth (q_des q) 1) + (1 # 2) * val0 (cnth rem 1)) m) 1000) 0.
  Proof.
    rewrite (wit_new_val q c m rem 1) by assumption.
    change (cnth [Some c; Some m; None; Some 8] 1) with (Some m).
    change (cnth [Some 1000; Some 1000] 1) with (Some 1000).
    change (cnth vzero 1) with (Some 0). cbn [val0]. rewrite wit_share. reflexivity.
  Qed.

  Lemma wit_new3 :
    val0 (cnth (new_des rem 2 q) 3) ==
    qmax (qmin (qmin (val0 (cnth (q_des q) 3) + (1 # 2) * val0 (cnth rem 3)) 8) 0) 0.
  Proof.
    rewrite (wit_new_val q c m rem 3) by assumption.
    change (cnth [Some c; Some m; None; Some 8] 3) with (Some 8).
    change (cnth [Some 1000; Some 1000] 3) with (@None Q).
    change (cnth vzero 3) with (@None Q). cbn [val0]. rewrite wit_share. reflexivity.
  Qed.
End WitnessStep.

Lemma wit_tw A B c1 m1 c2 m2 : wstat A c1 m1 -> wstat B c2 m2 -> total_weight [A; B] = 2%Z.
Proof.
  intros (W1 & M1 & _) (W2 & M2 & _). simpl. rewrite M1, M2, W1, W2. reflexivity.
Qed.

Lemma wstat_upd q c m rem W :
  wstat q c m -> new_meet q (new_des rem W q) = false -> wstat (upd rem W q) c m.
Proof.
  intros (Hw & Hm & Hc & Hr & Hg) Hn.
  destruct (upd_static rem W q) as (E0 & E1 & E2 & E3 & _).
  unfold wstat. rewrite E0, E1, E2, E3. repeat split; auto.
  unfold upd. rewrite Hm. simpl. exact Hn.
Qed.

Lemma WJ_step A B rem :
  WJ A B rem ->
  let A' := upd rem 2 A in
  let B' := upd rem 2 B in
  let rem' := snd (round 4 rem [A; B]) in
  fst (round 4 rem [A; B]) = [A'; B'] /\ WJ A' B' rem'
  /\ vempty rem' = false /\ vdeq rem' rem = false.
Proof.
  intros J A' B' rem'. destruct J as [JA JB Jr Ja Jb Jx Jy Jg Ja0 Ja1 Ja3 Jb0 Jb1 Jb3].
  pose proof (wit_tw _ _ _ _ _ _ JA JB) as HW.
  assert (C10 : 0 <= 10) by lra. assert (C1000 : 0 <= 1000) by lra.
  (* new deserved values *)
  pose proof (wit_new0 A 10 1000 rem JA C10 C1000 Jr Ja) as NA0.
  pose proof (wit_new1 A 10 1000 rem JA C10 C1000 Jr Ja) as NA1.
  pose proof (wit_new3 A 10 1000 rem JA C10 C1000 Jr Ja) as NA3.
  pose proof (wit_new0 B 1000 10 rem JB C1000 C10 Jr Jb) as NB0.
  pose proof (wit_new1 B 1000 10 rem JB C1000 C10 Jr Jb) as NB1.
  pose proof (wit_new3 B 1000 10 rem JB C1000 C10 Jr Jb) as NB3.
  pose proof (Ja 1%nat) as P1. pose proof (Jb 0%nat) as P2.
  set (x := val0 (cnth rem 0)) in *. set (y := val0 (cnth rem 1)) in *.
  assert (VA0 : val0 (cnth (new_des rem 2 A) 0) == 10) by (rewrite NA0, Ja0; qcases; lra).
  assert (VA1 : val0 (cnth (new_des rem 2 A) 1) == 90 - (1 # 2) * y) by (rewrite NA1, Ja1; qcases; lra).
  assert (VA3 : val0 (cnth (new_des rem 2 A) 3) == 0) by (rewrite NA3, Ja3, Jg; qcases; lra).
  assert (VB0 : val0 (cnth (new_des rem 2 B) 0) == 90 - (1 # 2) * x) by (rewrite NB0, Jb0; qcases; lra).
  assert (VB1 : val0 (cnth (new_des rem 2 B) 1) == 10) by (rewrite NB1, Jb1; qcases; lra).
  assert (VB3 : val0 (cnth (new_des rem 2 B) 3) == 0) by (rewrite NB3, Jb3, Jg; qcases; lra).
  clear NA0 NA1 NA3 NB0 NB1 NB3.
  pose proof JA as JA0. pose proof JB as JB0. destruct JA0 as (WA & MA & CA & RA & GA). destruct JB0 as (WB & MB & CB & RB & GB).
  assert (JA' : wstat A 10 1000) by (repeat split; assumption).
  assert (JB' : wstat B 1000 10) by (repeat split; assumption).
  assert (NNA : vnonneg (new_des rem 2 A)) by (eapply wit_new_nonneg; exact JA).
  assert (NNB : vnonneg (new_des rem 2 B)) by (eapply wit_new_nonneg; exact JB).
  (* remaining *)
  assert (RV : forall i, val0 (cnth rem' i) ==
     if Nat.ltb i 4 then
       qmax 0 (val0 (cnth rem i)
               + (qmax 0 (val0 (cnth (q_des A) i) - val0 (cnth (new_des rem 2 A) i))
                  + qmax 0 (val0 (cnth (q_des B) i) - val0 (cnth (new_des rem 2 B) i)))
               - (qmax 0 (val0 (cnth (new_des rem 2 A) i) - val0 (cnth (q_des A) i))
                  + qmax 0 (val0 (cnth (new_des rem 2 B) i) - val0 (cnth (q_des B) i))))
     else 0).
  { intro i. pose proof (round2_rem_val 4 rem A B i MA MB Jr Ja Jb) as H.
    cbv zeta in H. rewrite HW in H. apply H; assumption. }
  assert (R0 : val0 (cnth rem' 0) == (1 # 2) * x).
  { rewrite (RV 0%nat). change (Nat.ltb 0 4) with true. cbv iota. fold x.
    rewrite VA0, VB0, Ja0, Jb0. qcases; lra. }
  assert (R1 : val0 (cnth rem' 1) == (1 # 2) * y).
  { rewrite (RV 1%nat). change (Nat.ltb 1 4) with true. cbv iota. fold y.
    rewrite VA1, VB1, Ja1, Jb1. qcases; lra. }
  assert (R3 : val0 (cnth rem' 3) == 8).
  { rewrite (RV 3%nat). change (Nat.ltb 3 4) with true. cbv iota.
    rewrite VA3, VB3, Ja3, Jb3, Jg. qcases; lra. }
  assert (RN : vnonneg rem').
  { intro i. rewrite (RV i). destruct (Nat.ltb i 4); [qcases; lra | lra]. }
  (* neither queue becomes satisfied *)
  assert (MA' : new_meet A (new_des rem 2 A) = false).
  { unfold new_meet. apply orb_false_iff. split.
    - apply (vle_eps_false _ _ 0%nat); [|apply NNA]. rewrite RA.
      change (cnth [Some 1000; Some 1000] 0) with (Some 1000). cbn [val0]. rewrite VA0. unfold eps. lra.
    - apply (vdeq_false _ _ 1%nat). rewrite VA1, Ja1. lra. }
  assert (MB' : new_meet B (new_des rem 2 B) = false).
  { unfold new_meet. apply orb_false_iff. split.
    - apply (vle_eps_false _ _ 1%nat); [|apply NNB]. rewrite RB.
      change (cnth [Some 1000; Some 1000] 1) with (Some 1000). cbn [val0]. rewrite VB1. unfold eps. lra.
    - apply (vdeq_false _ _ 0%nat). rewrite VB0, Jb0. lra. }
  assert (DA : q_des A' = new_des rem 2 A) by (unfold A'; rewrite upd_des, MA; reflexivity).
  assert (DB : q_des B' = new_des rem 2 B) by (unfold B'; rewrite upd_des, MB; reflexivity).
  split; [|split; [|split]].
  - unfold round. rewrite HW. reflexivity.
  - constructor.
    + apply wstat_upd; assumption.
    + apply wstat_upd; assumption.
    + exact RN.
    + rewrite DA. exact NNA.
    + rewrite DB. exact NNB.
    + rewrite R0. lra.
    + rewrite R1. lra.
    + exact R3.
    + rewrite DA. exact VA0.
    + rewrite DA, VA1, R1. lra.
    + rewrite DA. exact VA3.
    + rewrite DB, VB0, R0. lra.
    + rewrite DB. exact VB1.
    + rewrite DB. exact VB3.
  - apply (vempty_false _ 3%nat).
    + unfold rem', round. cbn [snd]. unfold vfix. rewrite length_tab. lia.
    + discriminate.
    + rewrite R3. unfold eps. lra.
  - apply (vdeq_false _ _ 0%nat). rewrite R0. fold x. lra.
Qed.

Lemma wit_never_exits fuel : forall A B rem k,
  WJ A B rem -> is_out_of_fuel (loop fuel 4 rem [A; B] k) = true.
Proof.
  induction fuel as [|f IH]; intros A B rem k J; cbn [loop]; [reflexivity|].
  pose proof (wit_tw _ _ _ _ _ _ (wj_A _ _ _ J) (wj_B _ _ _ J)) as HW. rewrite HW.
  change (Z.eqb 2 0) with false. cbv iota.
  destruct (WJ_step A B rem J) as (E1 & J' & He & Hd).
  destruct (round 4 rem [A; B]) as [qs' rem'] eqn:ER. cbn [fst snd] in *. subst qs'.
  rewrite He, Hd. cbn [orb]. apply IH. exact J'.
Qed.

(* the state after the first round of the witness *)
Definition wA1 : qattr := Eval vm_compute in upd wit_rem 2 (wit_q 10 1000).
Definition wB1 : qattr := Eval vm_compute in upd wit_rem 2 (wit_q 1000 10).
Definition wrem1 : vec := Eval vm_compute in snd (round 4 wit_rem wit_qs).

Lemma wit_round1 : round 4 wit_rem wit_qs = ([wA1; wB1], wrem1).
Proof. vm_compute. reflexivity. Qed.

Lemma WJ_round1 : WJ wA1 wB1 wrem1.
Proof.
  constructor; try (repeat split; reflexivity);
    try (intro i; do 5 (destruct i as [|i]; [cbn; lra|]); destruct i; cbn; lra);
    cbn; lra.
Qed.

(* F7 as a theorem: on this input the exact loop, with its exit tests exactly as coded,
   runs out of fuel for EVERY amount of fuel *)
Theorem exact_nontermination : forall fuel,
  is_out_of_fuel (loop fuel 4 wit_rem wit_qs 0) = true.
Proof.
  destruct fuel as [|f]; [reflexivity|]. cbn [loop].
  change (Z.eqb (total_weight wit_qs) 0) with false. cbv iota.
  rewrite wit_round1.
  change (vempty wrem1 || vdeq wrem1 wit_rem) with false. cbv iota.
  apply wit_never_exits. exact WJ_round1.
Qed.

(* ---------- order independence, pointwise ---------- *)
(* The final record of every queue is a function of that queue alone (and of the multiset of
   all queues): [loopF] is built from one reference order, and the loop run over ANY
   permutation of the list returns exactly [map loopF] of that permutation.  So the map
   queue -> deserved does not depend on the iteration order, for every input and fuel. *)
Fixpoint loopF (fuel D : nat) (rem : vec) (qs : list qattr) : qattr -> qattr :=
  match fuel with
  | O => fun q => q
  | S f =>
    if Z.eqb (total_weight qs) 0 then fun q => q
    else
      let W := total_weight qs in
      let r := round D rem qs in
      if vempty (snd r) || vdeq (snd r) rem then upd rem W
      else fun q => loopF f D (snd r) (fst r) (upd rem W q)
  end.

Lemma round_fst D rem qs : fst (round D rem qs) = map (upd rem (total_weight qs)) qs.
Proof. reflexivity. Qed.

Theorem loop_pointwise fuel D : forall rem qs qs' k,
  Permutation qs qs' ->
  out_qs (loop fuel D rem qs' k) = map (loopF fuel D rem qs) qs'.
Proof.
  induction fuel as [|f IH]; intros rem qs qs' k HP; cbn [loop loopF].
  - simpl. symmetry. apply map_id.
  - rewrite <- (total_weight_perm _ _ HP).
    destruct (Z.eqb (total_weight qs) 0) eqn:EW; [simpl; symmetry; apply map_id|].
    destruct (round_order_independent D rem qs qs' HP) as [H1 H2].
    pose proof (round_fst D rem qs') as F'. rewrite <- (total_weight_perm _ _ HP) in F'.
    destruct (round D rem qs') as [a' b'] eqn:Eb. cbn [fst snd] in *.
    rewrite <- H2.
    destruct (vempty (snd (round D rem qs)) || vdeq (snd (round D rem qs)) rem).
    + simpl. exact F'.
    + rewrite (IH _ (fst (round D rem qs)) a' (S k) H1). rewrite F', map_map. reflexivity.
Qed.

Corollary deserved_map_order_independent fuel D rem qs qs1 qs2 k :
  Permutation qs qs1 -> Permutation qs qs2 ->
  forall q, In q qs ->
    (* the same queue ends with the same record in both orders *)
    In (loopF fuel D rem qs q) (out_qs (loop fuel D rem qs1 k)) /\
    In (loopF fuel D rem qs q) (out_qs (loop fuel D rem qs2 k)).
Proof.
  intros P1 P2 q Hq.
  rewrite (loop_pointwise fuel D rem qs qs1 k P1), (loop_pointwise fuel D rem qs qs2 k P2).
  split; apply in_map; [apply (Permutation_in _ P1) | apply (Permutation_in _ P2)]; exact Hq.
Qed.

(* ---------- what fuel does ---------- *)
(* once the loop has left through one of its exits, more fuel changes nothing *)
Theorem loop_done_stable fuel D : forall rem qs k qs' rem' n,
  loop fuel D rem qs k = Done qs' rem' n ->
  forall extra, loop (fuel + extra) D rem qs k = Done qs' rem' n.
Proof.
  induction fuel as [|f IH]; intros rem qs k qs' rem' n H extra; [discriminate|].
  cbn [loop plus] in *.
  destruct (Z.eqb (total_weight qs) 0); [exact H|].
  destruct (round D rem qs) as [a b].
  destruct (vempty b || vdeq b rem); [exact H|]. apply IH. exact H.
Qed.

(* the round counter of an exit is at most the fuel spent *)
Theorem loop_rounds_le_fuel fuel D : forall rem qs k qs' rem' n,
  loop fuel D rem qs k = Done qs' rem' n -> (n <= k + fuel)%nat.
Proof.
  induction fuel as [|f IH]; intros rem qs k qs' rem' n H; [discriminate|].
  cbn [loop] in H.
  destruct (Z.eqb (total_weight qs) 0); [inversion H; lia|].
  destruct (round D rem qs) as [a b].
  destruct (vempty b || vdeq b rem); [inversion H; lia|]. apply IH in H. lia.
Qed.

(* ---------- the progress measure that IS true: deserved only grows, remaining only shrinks ---------- *)
Definition capreq (cap req : cell) : Q :=
  match cap with Some c => qmin c (val0 req) | None => val0 req end.
(* a deserved value never exceeds max(guarantee, min(realCapability, request)) *)
Definition satM (d cap req g : cell) : Prop := val0 d <= qmax (val0 g) (capreq cap req).

Lemma cnew_satM j sh d cap req g :
  match cap with Some c => 0 <= c | None => True end -> 0 <= val0 req ->
  satM (cnew j sh d cap req g) cap req g.
Proof. unfold satM, capreq. intros. destruct cap as [c|]; cell_crush. Qed.

Lemma cnew_ge_old j sh d cap req g :
  satM d cap req g -> 0 <= val0 sh -> 0 <= val0 d ->
  match cap with Some c => 0 <= c | None => True end -> 0 <= val0 req ->
  val0 d <= val0 (cnew j sh d cap req g).
Proof.
  unfold satM, capreq. intros HM Hs Hd Hc Hr.
  assert (G := cnew_ge_gua j sh d cap req g).
  destruct (qmax_cases (val0 g) (match cap with Some c => qmin c (val0 req) | None => val0 req end))
    as [[H1 E]|[H1 E]]; rewrite E in HM; [|lra].
  clear E G. destruct cap as [c|].
  - destruct (qmin_cases c (val0 req)) as [[H2 E]|[H2 E]]; rewrite E in *; clear E; cell_crush.
  - cell_crush.
Qed.

Definition Mq (q : qattr) : Prop :=
  forall i, satM (cnth (q_des q) i) (cnth (q_rcap q) i) (cnth (q_req q) i) (cnth (q_gua q) i)
            /\ 0 <= val0 (cnth (q_des q) i).

Lemma wf_cap q i : wf_static q -> match cnth (q_rcap q) i with Some c => 0 <= c | None => True end.
Proof. intro H. destruct (H i) as (Hc & _). destruct (cnth (q_rcap q) i); auto. Qed.

Lemma share_nonneg w W rem i : (0 < w)%Z -> (0 < W)%Z -> 0 <= val0 (cnth rem i) ->
  0 <= val0 (cmul (ratio w W) (cnth rem i)).
Proof.
  intros Hw HW Hr. rewrite val0_cmul. apply Qmult_le_0_compat; [apply ratio_nonneg; assumption | exact Hr].
Qed.

Lemma Mq_upd rem W q :
  (0 < q_w q)%Z -> (0 < W)%Z -> vnonneg rem -> wf_static q -> Mq q ->
  Mq (upd rem W q) /\ wf_static (upd rem W q)
  /\ forall i, val0 (cnth (q_des q) i) <= val0 (cnth (q_des (upd rem W q)) i).
Proof.
  intros Hw HW Hr Hwf HM.
  destruct (upd_static rem W q) as (E0 & E1 & E2 & E3 & _).
  split; [|split].
  - intro i. rewrite E1, E2, E3, upd_des. destruct (q_meet q); [apply HM|].
    rewrite cnth_new_des. destruct (Hwf i) as (_ & Hq & Hg). split.
    + apply cnew_satM; [apply wf_cap; exact Hwf | exact Hq].
    + apply cnew_nonneg. exact Hg.
  - intro i. unfold wf_static in *. rewrite E1, E2, E3. apply Hwf.
  - intro i. rewrite upd_des. destruct (q_meet q); [lra|].
    rewrite cnth_new_des. destruct (HM i) as (HS & Hd). destruct (Hwf i) as (_ & Hq & _).
    apply cnew_ge_old; auto.
    + apply share_nonneg; auto.
    + apply wf_cap; exact Hwf.
Qed.

Lemma qsumf_zero {A} (f : A -> Q) l : (forall a, In a l -> f a == 0) -> qsumf f l == 0.
Proof.
  induction l as [|a l IH]; intros H; simpl; [reflexivity|].
  rewrite (H a) by (left; reflexivity). rewrite IH; [lra|]. intros; apply H; right; assumption.
Qed.

Lemma cnth_nil i : cnth [] i = None.
Proof. destruct i; reflexivity. Qed.

(* one round: every deserved value grows or stays, every remaining value shrinks or stays *)
Theorem round_monotone D rem qs :
  Forall (fun q => (0 < q_w q)%Z /\ wf_static q /\ Mq q) qs -> total_weight qs <> 0%Z -> vnonneg rem ->
  Forall (fun q => (0 < q_w q)%Z /\ wf_static q /\ Mq q) (fst (round D rem qs))
  /\ vnonneg (snd (round D rem qs))
  /\ (forall q i, In q qs ->
        val0 (cnth (q_des q) i) <= val0 (cnth (q_des (upd rem (total_weight qs) q)) i))
  /\ (forall i, val0 (cnth (snd (round D rem qs)) i) <= val0 (cnth rem i)).
Proof.
  intros Hq HW0 Hr.
  assert (HW : (0 < total_weight qs)%Z).
  { assert (0 <= total_weight qs)%Z; [|lia]. apply total_weight_nonneg.
    eapply Forall_impl; [|exact Hq]. intros q (H & _). exact H. }
  set (W := total_weight qs) in *.
  assert (HU : forall q, In q qs -> Mq (upd rem W q) /\ wf_static (upd rem W q)
             /\ forall i, val0 (cnth (q_des q) i) <= val0 (cnth (q_des (upd rem W q)) i)).
  { intros q Hin. rewrite Forall_forall in Hq. destruct (Hq q Hin) as (Hw & Hwf & HM).
    apply Mq_upd; assumption. }
  assert (RV : forall i, 0 <= val0 (cnth (snd (round D rem qs)) i) <= val0 (cnth rem i)).
  { intro i. unfold round. fold W. cbn [snd]. rewrite cnth_vfix.
    destruct (Nat.ltb i D); [|cbn [val0]; specialize (Hr i); lra].
    rewrite cnth_vnorm, val0_cnorm, cnth_vinc, cnth_vadd.
    set (INC := cnth (vsum (map (q_inc rem W) qs)) i).
    set (DEC := cnth (vsum (map (q_dec rem W) qs)) i).
    assert (ED : val0 DEC == 0).
    { unfold DEC. rewrite cnth_vsum, val0_csum, cnth_vzero, map_map, qsumf_map.
      rewrite qsumf_zero; [lra|].
      intros q Hin. unfold q_dec. rewrite Forall_forall in Hq. destruct (Hq q Hin) as (_ & _ & HM).
      destruct (HU q Hin) as (HM' & _ & Hge). specialize (Hge i). pose proof (HM' i) as (_ & H0).
      rewrite upd_des in Hge, H0.
      destruct (q_meet q) eqn:Em; [rewrite cnth_nil; reflexivity|].
      rewrite cnth_vdec, cdec_val; [qcases; lra | exact H0 | destruct (HM i); assumption]. }
    assert (I0 : 0 <= val0 INC).
    { unfold INC. rewrite cnth_vsum, val0_csum, cnth_vzero, map_map, qsumf_map.
      assert (qsumf (fun _ : qattr => 0) qs <= qsumf (fun q => val0 (cnth (q_inc rem W q) i)) qs).
      { apply qsumf_le; intros q Hin; unfold q_inc;
          rewrite Forall_forall in Hq; destruct (Hq q Hin) as (_ & _ & HM);
          destruct (HU q Hin) as (HM' & _ & Hge).
        destruct (q_meet q) eqn:Em; [rewrite cnth_nil; cbn [val0]; lra|].
        rewrite cnth_vinc, cinc_val.
        - qcases; lra.
        - pose proof (HM' i) as (_ & H0). rewrite upd_des, Em in H0. exact H0.
        - destruct (HM i); assumption. }
      assert (qsumf (fun _ : qattr => 0) qs == 0) by (clear; induction qs; simpl; lra).
      lra. }
    specialize (Hr i).
    rewrite cinc_val.
    - rewrite val0_cadd, ED. qcases; lra.
    - rewrite val0_cadd, ED. lra.
    - exact I0. }
  split; [|split; [|split]].
  - rewrite round_fst. fold W. apply Forall_forall. intros q' Hin.
    apply in_map_iff in Hin. destruct Hin as (q & <- & Hin).
    destruct (HU q Hin) as (H1 & H2 & _). rewrite Forall_forall in Hq. destruct (Hq q Hin) as (Hw & _).
    destruct (upd_static rem W q) as (E0 & _). rewrite E0. auto.
  - intro i. apply RV.
  - intros q i Hin. apply (HU q Hin).
  - intro i. apply RV.
Qed.

Lemma Mq_init q : wf_static q -> q_des q = vzero -> Mq q.
Proof.
  intros Hwf Hd i. rewrite Hd. pose proof (cnth_vzero i) as Z0. destruct (Hwf i) as (_ & _ & Hg).
  split; [|lra]. unfold satM. qcases; lra.
Qed.

(* over the whole loop, any fuel: the remaining vector stays between 0 and its start *)
Theorem remaining_never_grows fuel D rem0 qs k :
  Forall (fun q => (0 < q_w q)%Z /\ wf_static q /\ Mq q) qs -> vnonneg rem0 ->
  forall i, 0 <= val0 (cnth (out_rem (loop fuel D rem0 qs k)) i) <= val0 (cnth rem0 i).
Proof.
  intros Hq Hr.
  pose (I := fun (qs : list qattr) (rem : vec) =>
    Forall (fun q => (0 < q_w q)%Z /\ wf_static q /\ Mq q) qs /\ vnonneg rem
    /\ forall i, val0 (cnth rem i) <= val0 (cnth rem0 i)).
  assert (H : I (out_qs (loop fuel D rem0 qs k)) (out_rem (loop fuel D rem0 qs k))).
  { apply (loop_inv I D).
    - intros rem qs0 (H1 & H2 & H3) HW.
      destruct (round_monotone D rem qs0 H1 HW H2) as (A & B & _ & C).
      split; [exact A|]. split; [exact B|]. intro i. specialize (C i). specialize (H3 i). lra.
    - split; [exact Hq|]. split; [exact Hr|]. intro i. lra. }
  destruct H as (_ & H2 & H3). intro i. split; [apply H2 | apply H3].
Qed.
