(* C12: executable checkers evaluated on what the Go plugin computed (its own
   floats, scaled by 10^6 and read back as rationals).  None of them calls the
   modelled loop.  [slack] = 0.1 is the documented absolute tolerance
   (api.minResource). *)
From Coq Require Import QArith ZArith List Bool.
From V Require Import C12.Model.
Import ListNotations.
Open Scope Q_scope.

Definition slack : Q := 1 # 10.

(* one queue as observed on the implementation *)
Record obs := mkO {
  o_w : Z;
  o_gua : vec; o_rcap : vec; o_req : vec; o_alloc : vec; o_des : vec;
  o_over : bool
}.

Definition alldims (D : nat) (p : nat -> bool) : bool := forallb p (seq 0 D).

(* the theorems assume positive weights; with a weight <= 0 in play nothing is claimed *)
Definition weights_pos (os : list obs) : bool := forallb (fun o => Z.ltb 0 (o_w o)) os.

(* guarantee <= deserved <= max(guarantee, realCapability), deserved <= max(guarantee, request) *)
(* [strict]: a dimension without a realCapability entry is one the cluster does not have (after
   fix 019e7c9 realCapability keeps every dimension of the cluster) - nothing can be handed out
   there beyond the guarantee.  The capacity plugin's deserved is configuration, so for it
   ([strict] = false) a missing entry is not judged here (law 111 judges it against the capability). *)
Definition law_bounds_q_gen (strict : bool) (D : nat) (o : obs) : bool :=
  alldims D (fun j =>
    let g := val0 (cnth (o_gua o) j) in
    let d := val0 (cnth (o_des o) j) in
    Qle_bool g (d + slack)
    && match cnth (o_rcap o) j with
       | None => negb strict || Qle_bool d (g + slack)
       | Some c => Qle_bool d (qmax g c + slack)
       end
    && Qle_bool d (qmax g (val0 (cnth (o_req o) j)) + slack)).
Definition law_bounds_q := law_bounds_q_gen true.
Definition law_bounds (D : nat) (os : list obs) : bool := negb (weights_pos os) || forallb (law_bounds_q D) os.
Definition law_bounds_lenient (D : nat) (os : list obs) : bool :=
  negb (weights_pos os) || forallb (law_bounds_q_gen false D) os.

Definition qsum (l : list Q) : Q := fold_right Qplus 0 l.

(* sum of deserved <= total + sum of guarantees, per dimension *)
Definition law_sum (D : nat) (total : vec) (os : list obs) : bool :=
  negb (weights_pos os) ||
  alldims D (fun j =>
    Qle_bool (qsum (map (fun o => val0 (cnth (o_des o) j)) os))
             (val0 (cnth total j) + qsum (map (fun o => val0 (cnth (o_gua o) j)) os) + slack)).

(* overused <-> deserved <= allocated (tolerance 0.1, missing dimension = 0) in every
   dimension of deserved; a value within 1e-4 of the tolerance boundary is not judged
   (the observation is rounded to 1e-6) *)
Definition near_boundary (D : nat) (o : obs) : bool :=
  negb (alldims D (fun j =>
    match cnth (o_des o) j with
    | None => true
    | Some x => Qle_bool (1 # 10000) (qabs (x - val0 (cnth (o_alloc o) j) - eps))
    end)).
Definition law_overused_q (D : nat) (o : obs) : bool :=
  near_boundary D o || Bool.eqb (o_over o) (vle_eps (o_des o) (o_alloc o)).
Definition law_overused (D : nat) (os : list obs) : bool := forallb (law_overused_q D) os.

(* equal request, realCapability and guarantee: the larger weight does not get less
   (up to the 0.1 with which a queue is declared satisfied) *)
Definition same_demand (a b : obs) : bool :=
  vdeq (o_gua a) (o_gua b) && vdeq (o_rcap a) (o_rcap b) && vdeq (o_req a) (o_req b).
Definition law_weight (D : nat) (os : list obs) : bool :=
  negb (weights_pos os) ||
  forallb (fun a => forallb (fun b =>
    if same_demand a b && Z.leb (o_w a) (o_w b)
    then alldims D (fun j => Qle_bool (val0 (cnth (o_des a) j)) (val0 (cnth (o_des b) j) + eps + slack))
    else true) os) os.

(* realCapability reserves the guarantees of all OTHER queues:
     realCapability_q <= max(0, total - totalGuarantee) + guarantee_q
                       = max(guarantee_q, total - sum_{q' <> q} guarantee_q')
   [tg] is recomputed by the harness from the Queue objects (every queue, whatever its state
   and whether or not it has jobs), not read from the plugin.  [unbounded = true]: a missing
   cell of [total] means "no bound" (hierarchical capacity: the parent inherits MaxFloat64). *)
Definition law_reserve (unbounded : bool) (D : nat) (total tg : vec) (os : list obs) : bool :=
  forallb (fun o => alldims D (fun j =>
    match cnth (o_rcap o) j with
    | None =>
      (* realCapability must have an entry in every dimension the cluster (or, in the hierarchy,
         the parent) has: a missing entry is read as "unbounded" by MinDimensionResource *)
      match cnth total j with Some _ => false | None => true end
    | Some c =>
      match cnth total j with
      | None => if unbounded then true
                else Qle_bool c (val0 (cnth (o_gua o) j) + slack)
      | Some t => Qle_bool c (qmax 0 (t - val0 (cnth tg j)) + val0 (cnth (o_gua o) j) + slack)
      end
    end)) os.

(* The real (float) loop finishes within K rounds.  Termination is NOT a theorem of the exact
   model (Termination.v: exact_nontermination); the float loop leaves because a share below
   half an ulp of deserved no longer changes it.  K comes from that analysis: while m queues
   are unmet the heaviest of them holds >= 1/m of the weight, so the remaining amount of a
   dimension it absorbs shrinks by (1 - 1/m) per round and is absorbed after at most
   m * ln(range) rounds, range = 2^53 * largest amount * total weight (times 2^10 as margin); plus one
   round per queue leaving and per (queue, dimension) saturating. *)
Definition rounds_bound (D big : Z) (ws : list Z) : Z :=
  let n := Z.of_nat (length ws) in
  let W := fold_right Z.add 0%Z ws in
  let bits := (63 + Z.log2_up (Z.max big 2) + Z.log2_up (Z.max W 2))%Z in
  (n * (D + 2) + (n * (n + 1) / 2) * (bits * 7 / 10 + 1) + 2)%Z.
Definition law_rounds (D big rounds : Z) (ws : list Z) : bool :=
  negb (forallb (Z.ltb 0) ws) || Z.leb rounds (rounds_bound D big ws).

(* 108: two sessions opened over the same objects differ only in Go's map iteration order.
   In exact arithmetic the results are identical (C12_loop_pointwise); in float64 the
   accumulation order of increased/decreased differs, and a last-bit difference can flip a
   0.1-tolerance decision, so the shares may differ by up to that tolerance.  The law: every
   deserved value of the two runs agrees within 0.1 + slack, and the overused answers agree
   unless one of them is at the tolerance boundary. *)
Definition law_runs_agree (D : nat) (ab : list (obs * obs)) : bool :=
  forallb (fun p : obs * obs =>
    let (a, b) := p in
    alldims D (fun j => Qle_bool (qabs (val0 (cnth (o_des a) j) - val0 (cnth (o_des b) j))) (eps + slack))
    && (near_boundary D a || near_boundary D b || Bool.eqb (o_over a) (o_over b))) ab.

(* tolerant comparison of a model value with an observed one *)
Definition close (x y : Q) : bool :=
  Qle_bool (qabs (x - y)) ((2 # 1000000) + (1 # 1000000000) * qabs x).
Definition cclose (a b : cell) : bool :=
  match a, b with
  | None, None => true
  | Some x, Some y => close x y
  | _, _ => false
  end.
Definition vclose (D : nat) (a b : vec) : bool := alldims D (fun j => cclose (cnth a j) (cnth b j)).

(* 109: the literal clause "the result does not depend on iteration order" on the float
   implementation: two map orders give the same deserved values (within the 1e-6 resolution of
   the observation).  It was false on the real plugin (float64 sums accumulated in map order)
   until /repo fix 7b69dc3 made the loop visit the queues in sorted order; it is evaluated
   without sig or excuse.  Law 108 is the version with the 0.1 tolerance. *)
Definition law_runs_identical (D : nat) (ab : list (obs * obs)) : bool :=
  forallb (fun p : obs * obs =>
    let (a, b) := p in
    alldims D (fun j => close (val0 (cnth (o_des a) j)) (val0 (cnth (o_des b) j)))) ab.


(* 111: the property's own bound: in every dimension the cluster has, where the queue's capability
   is bounded (normalised: cpu/memory <= 0 and missing entries are unbounded) and not below its
   guarantee (the admission webhook's guard), deserved <= capability.  [caps] come from the Queue
   objects, not from the plugin. *)
Definition law_capability (D : nat) (total : vec) (qs : list (vec * vec * vec)) : bool :=
  forallb (fun q : vec * vec * vec =>
    let '(cap, g, d) := q in
    alldims D (fun j =>
      match cnth total j, cnth cap j with
      | Some _, Some y =>
          if Qle_bool (val0 (cnth g j)) y then Qle_bool (val0 (cnth d j)) (y + slack) else true
      | _, _ => true
      end)) qs.

(* 112 (no longer emitted since fix 7b69dc3; law 109 is now required outright): the former excuse
   of the finding C12/map-order-dependent-deserved, and nothing more: two
   map orders may give different deserved values only when the exact model classifies the case as
   not robust (some comparison of the loop within 1e-6 of its boundary, a cancellation after an
   inexact division, more than 30 rounds - there a last-bit difference can flip a decision) and
   the difference stays within the 0.1 satisfaction tolerance.  Any other difference is a
   violation of order independence that the finding does not explain. *)
Definition max_dev_ok (D : nat) (ab : list (obs * obs)) : bool :=
  forallb (fun p : obs * obs =>
    let (a, b) := p in
    alldims D (fun j => Qle_bool (qabs (val0 (cnth (o_des a) j) - val0 (cnth (o_des b) j))) eps)) ab.
Definition law_order_excused (D : nat) (robust_case : bool) (ab : list (obs * obs)) : bool :=
  law_runs_identical D ab || (negb robust_case && max_dev_ok D ab).
