(* C12 model: proportion plugin's fair-share computation (OnSessionOpen) and the
   capacity plugin's realCapability/deserved clamp, over exact rationals.

   A resource vector is a list of cells; position = dimension
     0 cpu, 1 memory            ("base" dimensions: struct fields, always present)
     2 pods                     (scalar, ignored by Resource.IsEmpty)
     3.. other scalar resources
   A cell is [option Q]: [None] = the key is missing from ScalarResources (Go's nil
   map and empty map behave alike in every function used here).  Positions beyond
   the end of the list read as [None].

   Executable definitions only; proofs are in Lemmas.v. *)
From Coq Require Import QArith ZArith List Bool.
Import ListNotations.
Open Scope Q_scope.

Definition cell := option Q.
Definition vec := list cell.

Definition val0 (c : cell) : Q := match c with Some q => q | None => 0 end.
Definition cnth (v : vec) (i : nat) : cell := nth i v None.
Definition is_base (j : nat) : bool := Nat.ltb j 2.

Definition qmin (a b : Q) : Q := if Qle_bool a b then a else b.
Definition qmax (a b : Q) : Q := if Qle_bool a b then b else a.
Definition qlt_bool (a b : Q) : bool := negb (Qle_bool b a).

(* minResource = 0.1 *)
Definition eps : Q := 1 # 10.

Definition tab (n : nat) (f : nat -> cell) : vec := map f (seq 0 n).

(* pointwise combination over the union of positions *)
Definition zipw (f : nat -> cell -> cell -> cell) (l r : vec) : vec :=
  tab (Nat.max (length l) (length r)) (fun j => f j (cnth l j) (cnth r j)).

(* ---------- cell operations (one per Resource method used) ---------- *)

(* Resource.Add *)
Definition cadd (a b : cell) : cell :=
  match a, b with
  | Some x, Some y => Some (x + y)
  | Some x, None => Some x
  | None, Some y => Some y
  | None, None => None
  end.

(* Resource.Multi *)
Definition cmul (k : Q) (a : cell) : cell := option_map (Qmult k) a.

(* Resource.MinDimensionResource(rr, Infinity): a dimension missing in rr is unbounded *)
Definition cmin_inf (a b : cell) : cell :=
  match a with
  | None => None
  | Some x => match b with Some y => Some (qmin x y) | None => Some x end
  end.

(* Resource.MinDimensionResource(rr, Zero): a dimension missing in rr is set to 0 *)
Definition cmin_zero (a b : cell) : cell :=
  match a with
  | None => None
  | Some x => match b with Some y => Some (qmin x y) | None => Some 0 end
  end.

(* helpers.Max: cpu/memory plain max; scalar entries < 0 are dropped *)
Definition keep_nonneg (a : cell) : cell :=
  match a with Some x => if Qle_bool 0 x then Some x else None | None => None end.
Definition cmax (j : nat) (a b : cell) : cell :=
  if is_base j then
    match a, b with None, None => None (* not a Go state: cpu/memory always exist *)
    | _, _ => Some (qmax (val0 a) (val0 b)) end
  else match keep_nonneg a, keep_nonneg b with
       | Some x, Some y => Some (qmax x y)
       | Some x, None => Some x
       | None, Some y => Some y
       | None, None => None
       end.

(* Resource.Diff(rr, Zero): increased and decreased parts.  A scalar equal to -1
   is Diff's "Infinity" marker and is copied, not subtracted. *)
Definition cinc (j : nat) (l r : cell) : cell :=
  if is_base j then
    match l, r with None, None => None (* not a Go state *)
    | _, _ => if qlt_bool (val0 r) (val0 l) then Some (val0 l - val0 r) else Some 0 end
  else match l, r with
       | None, None => None
       | _, _ =>
         if Qeq_bool (val0 l) (-1) then Some (val0 l)
         else if Qeq_bool (val0 r) (-1) then None
         else if qlt_bool (val0 r) (val0 l) then Some (val0 l - val0 r) else None
       end.
Definition cdec (j : nat) (l r : cell) : cell :=
  if is_base j then
    match l, r with None, None => None (* not a Go state *)
    | _, _ => if qlt_bool (val0 r) (val0 l) then Some 0 else Some (val0 r - val0 l) end
  else match l, r with
       | None, None => None
       | _, _ =>
         if Qeq_bool (val0 l) (-1) then None
         else if Qeq_bool (val0 r) (-1) then Some (val0 r)
         else if qlt_bool (val0 r) (val0 l) then None else Some (val0 r - val0 l)
       end.

(* plugins/util.UnreservedPart (fix 019e7c9): ExceededPart, except that a scalar dimension of the
   left operand that does not exceed the right one is kept at zero instead of being dropped
   (a dropped dimension of realCapability reads as "unbounded") *)
Definition cexc (j : nat) (l r : cell) : cell :=
  match cinc j l r with
  | Some x => Some x
  | None => match l with Some _ => Some 0 | None => None end
  end.

(* equality.Semantic.DeepEqual on one dimension *)
Definition cdeq (a b : cell) : bool :=
  match a, b with
  | None, None => true
  | Some x, Some y => Qeq_bool x y
  | _, _ => false
  end.

(* Resource.LessEqual(rr, Zero) on one dimension: l < r || |l-r| < 0.1, i.e. l - r < 0.1;
   only the keys of the left operand are inspected *)
Definition cle_eps (l r : cell) : bool :=
  match l with None => true | Some x => qlt_bool (x - val0 r) eps end.

(* Resource.IsEmpty on one dimension ("pods" is ignored) *)
Definition cempty (j : nat) (a : cell) : bool :=
  if is_base j then qlt_bool (val0 a) eps
  else if Nat.eqb j 2 then true
  else match a with None => true | Some x => qlt_bool x eps end.

Definition cnorm (a : cell) : cell := option_map Qred a.

(* ---------- vector operations ---------- *)
Definition vzero : vec := [Some 0; Some 0].           (* api.EmptyResource() *)
Definition vadd : vec -> vec -> vec := zipw (fun _ => cadd).
Definition vmul (k : Q) (v : vec) : vec := map (cmul k) v.
Definition vmin_inf : vec -> vec -> vec := zipw (fun _ => cmin_inf).
Definition vmin_zero : vec -> vec -> vec := zipw (fun _ => cmin_zero).
Definition vmax : vec -> vec -> vec := zipw cmax.
Definition vinc : vec -> vec -> vec := zipw cinc.     (* = api.ExceededPart *)
Definition vdec : vec -> vec -> vec := zipw cdec.
Definition vexc : vec -> vec -> vec := zipw cexc.   (* = util.UnreservedPart *)
Definition vnorm (v : vec) : vec := map cnorm v.
Definition vfix (D : nat) (v : vec) : vec := tab D (cnth v).
Definition vsum (vs : list vec) : vec := fold_right vadd vzero vs.

Definition vall2 (f : nat -> cell -> cell -> bool) (l r : vec) : bool :=
  forallb (fun j => f j (cnth l j) (cnth r j)) (seq 0 (Nat.max (length l) (length r))).
Definition vdeq : vec -> vec -> bool := vall2 (fun _ => cdeq).
Definition vle_eps : vec -> vec -> bool := vall2 (fun _ => cle_eps).
Definition vempty (v : vec) : bool :=
  forallb (fun j => cempty j (cnth v j)) (seq 0 (length v)).

(* ---------- queue attributes ---------- *)

(* capability: cpu/memory <= 0 are replaced by MaxFloat64, i.e. unbounded *)
Definition cap_norm (c : vec) : vec :=
  tab (length c) (fun j =>
    if is_base j then (if Qle_bool (val0 (cnth c j)) 0 then None else cnth c j) else cnth c j).

(* realCapability = min(capability, UnreservedPart(total, totalGuarantee) + guarantee);
   [cap = None]: the queue has no capability at all *)
Definition real_cap (total tg g : vec) (cap : option vec) : vec :=
  let rc := vadd (vexc total tg) g in
  match cap with None => rc | Some c => vmin_inf rc (cap_norm c) end.

Record qattr := mkQ {
  q_w : Z;            (* weight *)
  q_rcap : vec;       (* realCapability *)
  q_req : vec;        (* request *)
  q_gua : vec;        (* guarantee *)
  q_alloc : vec;      (* allocated *)
  q_des : vec;        (* deserved *)
  q_meet : bool       (* member of the meet set *)
}.

Definition set_des (q : qattr) (d : vec) (m : bool) : qattr :=
  mkQ (q_w q) (q_rcap q) (q_req q) (q_gua q) (q_alloc q) d m.

Definition total_weight (qs : list qattr) : Z :=
  fold_right (fun q acc => if q_meet q then acc else (q_w q + acc)%Z) 0%Z qs.

Definition ratio (w W : Z) : Q := inject_Z w / inject_Z W.

(* new deserved of one queue in one round: proportion.go 229-237 *)
Definition new_des (rem : vec) (W : Z) (q : qattr) : vec :=
  let d1 := vadd (q_des q) (vmul (ratio (q_w q) W) rem) in
  let d2 := vmin_inf d1 (q_rcap q) in
  let d3 := vmin_zero d2 (q_req q) in
  vnorm (vmax d3 (q_gua q)).

(* proportion.go 241-247 *)
Definition new_meet (q : qattr) (d : vec) : bool :=
  vle_eps (q_req q) d || vdeq d (q_des q).

Definition upd (rem : vec) (W : Z) (q : qattr) : qattr :=
  if q_meet q then q
  else let d := new_des rem W q in set_des q d (new_meet q d).

(* increased/decreased contribution of one queue (proportion.go 252-254) *)
Definition q_inc (rem : vec) (W : Z) (q : qattr) : vec :=
  if q_meet q then [] else vinc (new_des rem W q) (q_des q).
Definition q_dec (rem : vec) (W : Z) (q : qattr) : vec :=
  if q_meet q then [] else vdec (new_des rem W q) (q_des q).

(* one round: proportion.go 216-260 *)
Definition round (D : nat) (rem : vec) (qs : list qattr) : list qattr * vec :=
  let W := total_weight qs in
  let inc := vsum (map (q_inc rem W) qs) in
  let dec := vsum (map (q_dec rem W) qs) in
  (map (upd rem W) qs, vfix D (vnorm (vinc (vadd rem dec) inc))).

Inductive outcome :=
| Done (qs : list qattr) (rem : vec) (rounds : nat)
| OutOfFuel (qs : list qattr) (rem : vec).

(* proportion.go 199-266; fuel = maximal number of rounds *)
Fixpoint loop (fuel : nat) (D : nat) (rem : vec) (qs : list qattr) (k : nat) : outcome :=
  match fuel with
  | O => OutOfFuel qs rem
  | S f =>
    if Z.eqb (total_weight qs) 0 then Done qs rem k
    else let '(qs', rem') := round D rem qs in
         if vempty rem' || vdeq rem' rem then Done qs' rem' (S k)
         else loop f D rem' qs' (S k)
  end.

Definition out_qs (o : outcome) : list qattr :=
  match o with Done qs _ _ => qs | OutOfFuel qs _ => qs end.
Definition out_rem (o : outcome) : vec :=
  match o with Done _ rem _ => rem | OutOfFuel _ rem => rem end.

(* proportion.go 325: overused = deserved.LessEqual(allocated, Zero) *)
Definition overused (q : qattr) : bool := vle_eps (q_des q) (q_alloc q).

(* ---------- building the attributes from the session (proportion.go 95-156) ---------- *)
(* task kinds: 0 Pending, 3 Pending with a scheduling gate (still api.Pending), 1 Running, 4 Bound
   (both api.AllocatedStatus); everything else (Succeeded, Failed, Releasing ...) is ignored *)
Record task := mkT { t_kind : Z; t_req : vec }.
Definition kind_alloc (k : Z) : bool := Z.eqb k 1 || Z.eqb k 4.
Definition kind_pending (k : Z) : bool := Z.eqb k 0 || Z.eqb k 3.

(* The queue's Status.State (Open/Closed/Closing/Unknown) and the PodGroup phases are part of
   the input but NOT of this record: the anchored code never reads them when it computes
   totalGuarantee, realCapability, request, allocated or deserved. *)
Record qspec := mkS {
  s_w : Z;
  s_cap : option vec;   (* Spec.Capability, None when empty *)
  s_gua : vec;          (* Spec.Guarantee.Resource *)
  s_dsv : vec;          (* Spec.Deserved (capacity plugin only) *)
  s_jobs : bool;        (* at least one job of the session belongs to the queue *)
  s_tasks : list task
}.

Definition base_some (v : vec) : vec :=          (* api.NewResource: cpu/memory fields always exist *)
  tab (Nat.max 2 (length v)) (fun j => if is_base j then Some (val0 (cnth v j)) else cnth v j).

Definition total_guarantee (ss : list qspec) : vec := vsum (map (fun s => base_some (s_gua s)) ss).

Definition sum_tasks (p : Z -> bool) (ts : list task) : vec :=
  vsum (map t_req (filter (fun t => p (t_kind t)) ts)).

Definition attr_of (total tg : vec) (s : qspec) : qattr :=
  let g := base_some (s_gua s) in
  mkQ (s_w s)
      (real_cap total tg g (option_map base_some (s_cap s)))
      (sum_tasks (fun k => kind_alloc k || kind_pending k) (s_tasks s))
      g
      (sum_tasks kind_alloc (s_tasks s))
      vzero false.

Definition attrs (total : vec) (ss : list qspec) : list qattr :=
  let tg := total_guarantee ss in
  map (attr_of total tg) (filter s_jobs ss).

Definition proportion (fuel D : nat) (total : vec) (ss : list qspec) : outcome :=
  loop fuel D (vfix D total) (attrs total ss) 0.

(* capacity plugin, flat queues: capacity.go 1074, 1095-1102, 1150-1155 *)
Definition capacity_des (total tg : vec) (s : qspec) : vec * vec :=
  let g := base_some (s_gua s) in
  let rc := real_cap total tg g (option_map base_some (s_cap s)) in
  (rc, vmax (vmin_inf (base_some (s_dsv s)) rc) g).

(* ---------- robustness of the float implementation's decisions ----------
   [robust] inspects every comparison the loop makes on the way and answers false
   when one of them is closer than [delta] to its boundary, or when a cancellation
   to exactly zero happens after an inexact division (the float loop may keep a
   1e-14 crumb there).  Only the harness comparison uses it; no theorem does. *)
Definition delta : Q := 1 # 1000000.

Definition qabs (a : Q) : Q := if Qle_bool 0 a then a else - a.
Definition far (a b : Q) : bool := Qle_bool delta (qabs (a - b)).
(* a and b are either identical or clearly apart *)
Definition eq_or_far (a b : Q) : bool := Qeq_bool a b || far a b.

Fixpoint is_pow2 (p : positive) : bool :=
  match p with xH => true | xO p' => is_pow2 p' | xI _ => false end.

Definition dims (l r : vec) : list nat := seq 0 (Nat.max (length l) (length r)).

Definition robust_queue (rem : vec) (W : Z) (q : qattr) : bool :=
  if q_meet q then true
  else
    let d := new_des rem W q in
    forallb (fun j =>
      (match cnth (q_req q) j with None => true | Some x => far (x - val0 (cnth d j)) eps end)
      && eq_or_far (val0 (cnth d j)) (val0 (cnth (q_des q) j))) (dims d (q_req q)).

Definition robust_round (D : nat) (exact : bool) (rem : vec) (qs : list qattr) : bool :=
  let W := total_weight qs in
  let inc := vsum (map (q_inc rem W) qs) in
  let l := vadd rem (vsum (map (q_dec rem W) qs)) in
  let rem' := snd (round D rem qs) in
  let exits := vempty rem' || vdeq rem' rem in
  forallb (robust_queue rem W) qs
  && forallb (fun j =>
       let a := val0 (cnth l j) in let b := val0 (cnth inc j) in
       (* remaining - increased: exactly zero only if nothing was rounded, else clearly apart *)
       (exits || far a b || (Qeq_bool a b && (exact || Qeq_bool a 0)))
       && far (val0 (cnth rem' j)) eps
       && eq_or_far (val0 (cnth rem' j)) (val0 (cnth rem j))) (seq 0 D).

Fixpoint robust (fuel D : nat) (exact : bool) (rem : vec) (qs : list qattr) : bool :=
  match fuel with
  | O => false
  | S f =>
    let W := total_weight qs in
    if Z.eqb W 0 then true
    else
      let exact' := exact && match W with Zpos p => is_pow2 p | _ => false end in
      robust_round D exact' rem qs
      && let '(qs', rem') := round D rem qs in
         if vempty rem' || vdeq rem' rem then true else robust f D exact' rem' qs'
  end.

Definition robust_overused (q : qattr) : bool :=
  forallb (fun j => match cnth (q_des q) j with
                    | None => true
                    | Some x => far (x - val0 (cnth (q_alloc q) j)) eps end)
          (dims (q_des q) (q_alloc q)).
