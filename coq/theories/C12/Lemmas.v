(* C12 proofs about Model.v. *)
From Coq Require Import QArith Qminmax ZArith List Bool Lia Lqa Permutation.
From V Require Import C12.Model.
Import ListNotations.
Open Scope Q_scope.

(* ---------- rationals ---------- *)
Lemma qmin_cases a b : (a <= b /\ qmin a b = a) \/ (b < a /\ qmin a b = b).
Proof.
  unfold qmin. destruct (Qle_bool a b) eqn:E.
  - left. split; [apply Qle_bool_iff; exact E | reflexivity].
  - right. split; [|reflexivity]. apply Qnot_le_lt. intro H. apply Qle_bool_iff in H. congruence.
Qed.

Lemma qmax_cases a b : (a <= b /\ qmax a b = b) \/ (b < a /\ qmax a b = a).
Proof.
  unfold qmax. destruct (Qle_bool a b) eqn:E.
  - left. split; [apply Qle_bool_iff; exact E | reflexivity].
  - right. split; [|reflexivity]. apply Qnot_le_lt. intro H. apply Qle_bool_iff in H. congruence.
Qed.

Lemma qlt_bool_iff a b : qlt_bool a b = true <-> a < b.
Proof.
  unfold qlt_bool. rewrite negb_true_iff. split; intro H.
  - apply Qnot_le_lt. intro L. apply Qle_bool_iff in L. congruence.
  - destruct (Qle_bool b a) eqn:E; [|reflexivity]. apply Qle_bool_iff in E. exfalso; lra.
Qed.

Lemma qlt_bool_false a b : qlt_bool a b = false <-> b <= a.
Proof.
  unfold qlt_bool. rewrite negb_false_iff. apply Qle_bool_iff.
Qed.

Lemma qle_bool_false a b : Qle_bool a b = false -> b < a.
Proof. intro E. apply Qnot_le_lt. intro H. apply Qle_bool_iff in H. congruence. Qed.

Lemma val0_cnorm c : val0 (cnorm c) == val0 c.
Proof. destruct c; simpl; [apply Qred_correct | reflexivity]. Qed.

(* ---------- positions ---------- *)
Lemma cnth_tab n f i : cnth (tab n f) i = if Nat.ltb i n then f i else None.
Proof.
  unfold cnth, tab. destruct (Nat.ltb i n) eqn:E.
  - apply Nat.ltb_lt in E.
    rewrite nth_indep with (d' := f 0%nat) by (rewrite map_length, seq_length; exact E).
    rewrite map_nth. rewrite seq_nth by exact E. reflexivity.
  - apply Nat.ltb_ge in E. apply nth_overflow. rewrite map_length, seq_length. exact E.
Qed.

Lemma cnth_overflow (v : vec) i : (length v <= i)%nat -> cnth v i = None.
Proof. intro H. apply nth_overflow. exact H. Qed.

Lemma cnth_zipw f l r i :
  (forall j, f j None None = None) -> cnth (zipw f l r) i = f i (cnth l i) (cnth r i).
Proof.
  intro Hf. unfold zipw. rewrite cnth_tab. destruct (Nat.ltb i _) eqn:E; [reflexivity|].
  apply Nat.ltb_ge in E.
  rewrite (cnth_overflow l), (cnth_overflow r) by lia. symmetry. apply Hf.
Qed.

Lemma cmax_none j : cmax j None None = None.
Proof. unfold cmax. destruct (is_base j); reflexivity. Qed.
Lemma cinc_none j : cinc j None None = None.
Proof. unfold cinc. destruct (is_base j); reflexivity. Qed.
Lemma cdec_none j : cdec j None None = None.
Proof. unfold cdec. destruct (is_base j); reflexivity. Qed.

Lemma cnth_vadd l r i : cnth (vadd l r) i = cadd (cnth l i) (cnth r i).
Proof. apply cnth_zipw. reflexivity. Qed.
Lemma cnth_vmin_inf l r i : cnth (vmin_inf l r) i = cmin_inf (cnth l i) (cnth r i).
Proof. apply cnth_zipw. reflexivity. Qed.
Lemma cnth_vmin_zero l r i : cnth (vmin_zero l r) i = cmin_zero (cnth l i) (cnth r i).
Proof. apply cnth_zipw. reflexivity. Qed.
Lemma cnth_vmax l r i : cnth (vmax l r) i = cmax i (cnth l i) (cnth r i).
Proof. apply cnth_zipw. apply cmax_none. Qed.
Lemma cexc_none j : cexc j None None = None.
Proof. unfold cexc. rewrite cinc_none. reflexivity. Qed.
Lemma cnth_vexc l r i : cnth (vexc l r) i = cexc i (cnth l i) (cnth r i).
Proof. apply cnth_zipw. apply cexc_none. Qed.
Lemma val0_cexc j l r : val0 (cexc j l r) == val0 (cinc j l r).
Proof. unfold cexc. destruct (cinc j l r); [reflexivity|]. destruct l; reflexivity. Qed.
Lemma cnth_vinc l r i : cnth (vinc l r) i = cinc i (cnth l i) (cnth r i).
Proof. apply cnth_zipw. apply cinc_none. Qed.
Lemma cnth_vdec l r i : cnth (vdec l r) i = cdec i (cnth l i) (cnth r i).
Proof. apply cnth_zipw. apply cdec_none. Qed.
Lemma cnth_vmul k v i : cnth (vmul k v) i = cmul k (cnth v i).
Proof. unfold cnth, vmul. change None with (cmul k None) at 1. apply map_nth. Qed.
Lemma cnth_vnorm v i : cnth (vnorm v) i = cnorm (cnth v i).
Proof. unfold cnth, vnorm. change None with (cnorm None) at 1. apply map_nth. Qed.
Lemma cnth_vfix D v i : cnth (vfix D v) i = if Nat.ltb i D then cnth v i else None.
Proof. apply cnth_tab. Qed.

(* ---------- one dimension of the per-queue update ---------- *)
Definition cnew (j : nat) (sh d cap req g : cell) : cell :=
  cnorm (cmax j (cmin_zero (cmin_inf (cadd d sh) cap) req) g).

Lemma cnth_new_des rem W q i :
  cnth (new_des rem W q) i =
  cnew i (cmul (ratio (q_w q) W) (cnth rem i)) (cnth (q_des q) i)
       (cnth (q_rcap q) i) (cnth (q_req q) i) (cnth (q_gua q) i).
Proof.
  unfold new_des, cnew.
  rewrite cnth_vnorm, cnth_vmax, cnth_vmin_zero, cnth_vmin_inf, cnth_vadd, cnth_vmul. reflexivity.
Qed.

Ltac noq t :=
  lazymatch t with
  | context [qmin _ _] => fail
  | context [qmax _ _] => fail
  | _ => idtac
  end.
Ltac qcases :=
  repeat match goal with
  | |- context [qmin ?a ?b] => noq a; noq b;
        let H := fresh in destruct (qmin_cases a b) as [[? H]|[? H]]; rewrite H in *; clear H
  | |- context [qmax ?a ?b] => noq a; noq b;
        let H := fresh in destruct (qmax_cases a b) as [[? H]|[? H]]; rewrite H in *; clear H
  | |- context [Qle_bool ?a ?b] => noq a; noq b;
        let E := fresh in destruct (Qle_bool a b) eqn:E;
        [apply Qle_bool_iff in E | apply qle_bool_false in E]
  end.

Ltac cell_crush :=
  intros; unfold cnew in *; rewrite ?val0_cnorm;
  unfold cmax, cmin_zero, cmin_inf, cadd, keep_nonneg in *;
  repeat match goal with
  | c : cell |- _ => destruct c
  | |- context [is_base ?j] => destruct (is_base j)
  end; cbn [val0] in *;
  qcases; cbn [val0] in *; qcases; cbn [val0] in *; try lra.

(* B1: guarantee <= new deserved, unconditionally *)
Lemma cnew_ge_gua j sh d cap req g : val0 g <= val0 (cnew j sh d cap req g).
Proof. cell_crush. Qed.

(* B2: new deserved <= max(guarantee, realCapability) *)
Lemma cnew_le_cap j sh d req g c :
  0 <= c -> val0 (cnew j sh d (Some c) req g) <= qmax (val0 g) c.
Proof. cell_crush. Qed.

(* B3: new deserved <= max(guarantee, request) *)
Lemma cnew_le_req j sh d cap req g :
  0 <= val0 req -> val0 (cnew j sh d cap req g) <= qmax (val0 g) (val0 req).
Proof. cell_crush. Qed.

(* B0 *)
Lemma cnew_nonneg j sh d cap req g : 0 <= val0 g -> 0 <= val0 (cnew j sh d cap req g).
Proof. intro H. eapply Qle_trans; [exact H | apply cnew_ge_gua]. Qed.

(* ---------- the loop ---------- *)
Lemma upd_static rem W q :
  q_w (upd rem W q) = q_w q /\ q_rcap (upd rem W q) = q_rcap q /\ q_req (upd rem W q) = q_req q
  /\ q_gua (upd rem W q) = q_gua q /\ q_alloc (upd rem W q) = q_alloc q.
Proof. unfold upd. destruct (q_meet q); simpl; auto. Qed.

Lemma upd_des rem W q :
  q_des (upd rem W q) = if q_meet q then q_des q else new_des rem W q.
Proof. unfold upd. destruct (q_meet q); reflexivity. Qed.

(* an invariant of the rounds holds for the result of the loop, whatever the fuel *)
Lemma loop_inv (I : list qattr -> vec -> Prop) D :
  (forall rem qs, I qs rem -> total_weight qs <> 0%Z ->
                  I (fst (round D rem qs)) (snd (round D rem qs))) ->
  forall fuel rem qs k, I qs rem ->
    I (out_qs (loop fuel D rem qs k)) (out_rem (loop fuel D rem qs k)).
Proof.
  intros Hstep fuel. induction fuel as [|f IH]; intros rem qs k HI; cbn [loop]; [exact HI|].
  destruct (Z.eqb (total_weight qs) 0) eqn:EW; [exact HI|].
  apply Z.eqb_neq in EW. specialize (Hstep rem qs HI EW).
  destruct (round D rem qs) as [qs' rem'] eqn:ER. simpl in Hstep.
  destruct (vempty rem' || vdeq rem' rem); [exact Hstep | apply IH; exact Hstep].
Qed.

(* per-queue predicate preserved by the update of every non-met queue *)
Lemma round_forall (P : qattr -> Prop) D rem qs :
  (forall q, P q -> P (upd rem (total_weight qs) q)) ->
  Forall P qs -> Forall P (fst (round D rem qs)).
Proof.
  intros Hp HF. unfold round. simpl. apply Forall_forall. intros q' Hin.
  apply in_map_iff in Hin. destruct Hin as (q & <- & Hq). apply Hp.
  rewrite Forall_forall in HF. auto.
Qed.

(* well-formed static data: realCapability and request are not negative *)
Definition wf_static (q : qattr) : Prop :=
  forall i, (forall c, cnth (q_rcap q) i = Some c -> 0 <= c) /\ 0 <= val0 (cnth (q_req q) i)
            /\ 0 <= val0 (cnth (q_gua q) i).

Definition upper_ok (q : qattr) : Prop :=
  wf_static q /\
  forall i, (forall c, cnth (q_rcap q) i = Some c ->
                       val0 (cnth (q_des q) i) <= qmax (val0 (cnth (q_gua q) i)) c)
            /\ val0 (cnth (q_des q) i) <= qmax (val0 (cnth (q_gua q) i)) (val0 (cnth (q_req q) i)).

Lemma upper_ok_upd rem W q : upper_ok q -> upper_ok (upd rem W q).
Proof.
  intros [Hwf Hb]. destruct (upd_static rem W q) as (_ & E1 & E2 & E3 & _).
  split.
  - intro i. unfold wf_static in *. rewrite E1, E2, E3. apply Hwf.
  - intro i. rewrite E1, E2, E3, upd_des. destruct (q_meet q); [apply Hb|].
    rewrite cnth_new_des. destruct (Hwf i) as (Hc & Hr & _). split.
    + intros c Ec. rewrite Ec. apply cnew_le_cap. eauto.
    + apply cnew_le_req. exact Hr.
Qed.

(* T2 + T3, for every number of rounds *)
Theorem deserved_upper_bounds fuel D rem qs k :
  Forall upper_ok qs -> Forall upper_ok (out_qs (loop fuel D rem qs k)).
Proof.
  intro H.
  apply (loop_inv (fun qs _ => Forall upper_ok qs) D); [|exact H].
  intros rem0 qs0 H0 _. apply round_forall; [|exact H0]. intros q. apply upper_ok_upd.
Qed.

Lemma cnth_vzero i : val0 (cnth vzero i) == 0.
Proof. unfold cnth, vzero. destruct i as [|[|[|i]]]; simpl; reflexivity. Qed.

(* the initial attributes (deserved = EmptyResource) satisfy the upper bounds *)
Lemma upper_ok_init q : wf_static q -> q_des q = vzero -> upper_ok q.
Proof.
  intros Hwf Hd. split; [exact Hwf|]. intro i. rewrite Hd.
  destruct (Hwf i) as (Hc & Hr & Hg). split.
  - intros c Ec. specialize (Hc c Ec). rewrite cnth_vzero. qcases; lra.
  - rewrite cnth_vzero. qcases; lra.
Qed.

(* T1: after at least one round every queue has been updated at least once *)
Definition lower_ok (q : qattr) : Prop :=
  forall i, val0 (cnth (q_gua q) i) <= val0 (cnth (q_des q) i).

Lemma lower_ok_upd rem W q : (q_meet q = true -> lower_ok q) -> lower_ok (upd rem W q).
Proof.
  intros H i. destruct (upd_static rem W q) as (_ & _ & _ & E3 & _).
  rewrite E3, upd_des. destruct (q_meet q); [apply H; reflexivity|].
  rewrite cnth_new_des. apply cnew_ge_gua.
Qed.

Lemma upd_meet_lower rem W q :
  (q_meet q = true -> lower_ok q) ->
  (q_meet (upd rem W q) = true -> lower_ok (upd rem W q)).
Proof. intros H _. apply lower_ok_upd. exact H. Qed.

Theorem guarantee_le_deserved fuel D rem qs k :
  Forall (fun q => q_meet q = false) qs ->
  (qs <> [] -> total_weight qs <> 0%Z) ->
  Forall lower_ok (out_qs (loop (S fuel) D rem qs k)).
Proof.
  intros Hm HW. destruct qs as [|q0 qs0]; [simpl; constructor|].
  assert (HW' : total_weight (q0 :: qs0) <> 0%Z) by (apply HW; discriminate).
  remember (q0 :: qs0) as qs. clear Heqqs HW.
  cbn [loop]. apply Z.eqb_neq in HW'. rewrite HW'.
  assert (H1 : Forall lower_ok (fst (round D rem qs))).
  { unfold round; simpl. apply Forall_forall. intros q' Hin. apply in_map_iff in Hin.
    destruct Hin as (q & <- & Hq). apply lower_ok_upd. rewrite Forall_forall in Hm.
    rewrite (Hm q Hq). discriminate. }
  destruct (round D rem qs) as [qs' rem'] eqn:ER. simpl in H1.
  destruct (vempty rem' || vdeq rem' rem); [exact H1|].
  apply (loop_inv (fun qs _ => Forall lower_ok qs) D); [|exact H1].
  intros rem0 qs1 H0 _. apply round_forall; [|exact H0].
  intros q Hq. apply lower_ok_upd. intros _. exact Hq.
Qed.

(* positive weights make the total weight of a list with an unmet queue non-zero *)
Lemma total_weight_nonneg qs : Forall (fun q => (0 < q_w q)%Z) qs -> (0 <= total_weight qs)%Z.
Proof.
  induction 1 as [|q qs Hq _ IH]; simpl; [lia|]. destruct (q_meet q); lia.
Qed.

Lemma total_weight_pos qs :
  Forall (fun q => (0 < q_w q)%Z) qs -> Exists (fun q => q_meet q = false) qs ->
  (0 < total_weight qs)%Z.
Proof.
  intros Hw He. induction He as [q qs Hq | q qs He IH]; inversion Hw; subst; simpl.
  - rewrite Hq. pose proof (total_weight_nonneg qs H2). lia.
  - specialize (IH H2). destruct (q_meet q); lia.
Qed.

(* ---------- overused ---------- *)
Lemma vall2_spec f l r :
  (forall j, f j None None = true) ->
  (vall2 f l r = true <-> forall i, f i (cnth l i) (cnth r i) = true).
Proof.
  intro Hf. unfold vall2. rewrite forallb_forall. split.
  - intros H i. destruct (Nat.ltb i (Nat.max (length l) (length r))) eqn:E.
    + apply H. apply in_seq. apply Nat.ltb_lt in E. lia.
    + apply Nat.ltb_ge in E. rewrite (cnth_overflow l), (cnth_overflow r) by lia. apply Hf.
  - intros H i _. apply H.
Qed.

(* T7: overused <-> in every dimension present in deserved, deserved - allocated < 0.1
   (missing allocated dimension = 0), i.e. Go's  l < r || |l-r| < minResource *)
Theorem overused_iff q :
  overused q = true <->
  forall i, match cnth (q_des q) i with
            | None => True
            | Some d => d - val0 (cnth (q_alloc q) i) < 1 # 10
            end.
Proof.
  unfold overused, vle_eps. rewrite vall2_spec by reflexivity.
  split; intros H i; specialize (H i); unfold cle_eps in *; destruct (cnth (q_des q) i); auto.
  - apply qlt_bool_iff in H. exact H.
  - apply qlt_bool_iff. exact H.
Qed.

(* the tolerance disappears when both sides are integers: d <= a *)
Corollary overused_integers q :
  (forall i d, cnth (q_des q) i = Some d -> exists n m : Z,
       d == inject_Z n /\ val0 (cnth (q_alloc q) i) == inject_Z m) ->
  (overused q = true <->
   forall i d, cnth (q_des q) i = Some d -> d <= val0 (cnth (q_alloc q) i)).
Proof.
  intro Hint. rewrite overused_iff. split; intros H i.
  - intros d Ed. specialize (H i). rewrite Ed in H.
    destruct (Hint i d Ed) as (n & m & En & Em). rewrite En, Em in *.
    rewrite <- Zle_Qle.
    assert (inject_Z n - inject_Z m < 1 # 10) by exact H.
    destruct (Z_le_gt_dec n m) as [L|G]; [exact L|exfalso].
    assert (inject_Z m + 1 <= inject_Z n).
    { change 1 with (inject_Z 1). rewrite <- inject_Z_plus, <- Zle_Qle. lia. }
    lra.
  - destruct (cnth (q_des q) i) eqn:Ed; [|exact I]. specialize (H i q0 Ed). lra.
Qed.

(* ---------- realCapability ---------- *)
(* T8: per dimension, realCapability = min(capability, (total (-) totalGuarantee) + guarantee);
   a capability dimension that is missing -- or cpu/memory <= 0 -- does not bound *)
Theorem realcap_def total tg g cap i :
  cnth (real_cap total tg g cap) i =
  let rc := cadd (cexc i (cnth total i) (cnth tg i)) (cnth g i) in
  match cap with
  | None => rc
  | Some c => cmin_inf rc (cnth (cap_norm c) i)
  end.
Proof.
  unfold real_cap. destruct cap; cbn zeta.
  - rewrite cnth_vmin_inf, cnth_vadd, cnth_vexc. reflexivity.
  - rewrite cnth_vadd, cnth_vexc. reflexivity.
Qed.

Lemma cnth_cap_norm c i :
  cnth (cap_norm c) i =
  if is_base i then (if Qle_bool (val0 (cnth c i)) 0 then None else cnth c i) else cnth c i.
Proof.
  unfold cap_norm. rewrite cnth_tab. destruct (Nat.ltb i (length c)) eqn:E; [reflexivity|].
  apply Nat.ltb_ge in E. rewrite (cnth_overflow c) by exact E.
  destruct (is_base i); reflexivity.
Qed.

(* the value, for non-negative present operands *)
Corollary realcap_value total tg g c i t s x y :
  cnth total i = Some t -> cnth tg i = Some s -> cnth g i = Some x ->
  cnth (cap_norm c) i = Some y -> 0 <= t -> 0 <= s ->
  exists v, cnth (real_cap total tg g (Some c)) i = Some v /\
            v == qmin (qmax 0 (t - s) + x) y.
Proof.
  intros Et Es Eg Ec Ht Hs. rewrite realcap_def. cbn zeta. rewrite Et, Es, Eg, Ec.
  unfold cexc, cinc. cbn [val0].
  assert (N1 : Qeq_bool t (-1) = false).
  { destruct (Qeq_bool t (-1)) eqn:E; [|reflexivity]. apply Qeq_bool_iff in E. lra. }
  assert (N2 : Qeq_bool s (-1) = false).
  { destruct (Qeq_bool s (-1)) eqn:E; [|reflexivity]. apply Qeq_bool_iff in E. lra. }
  rewrite N1, N2.
  destruct (qlt_bool s t) eqn:E.
  - apply qlt_bool_iff in E. destruct (is_base i); cbn [cadd cmin_inf];
      eexists; (split; [reflexivity|]); qcases; lra.
  - apply qlt_bool_false in E. destruct (is_base i); cbn [cadd cmin_inf].
    + eexists; (split; [reflexivity|]); qcases; lra.
    + (* scalar, total <= totalGuarantee: the dimension disappears from the excess and the
         guarantee alone remains *)
      eexists; (split; [reflexivity|]); qcases; lra.
Qed.

(* ---------- order independence ---------- *)
Definition ceq (a b : cell) : Prop :=
  match a, b with
  | None, None => True
  | Some x, Some y => x == y
  | _, _ => False
  end.

Lemma ceq_refl a : ceq a a.
Proof. destruct a; simpl; [reflexivity | exact I]. Qed.
Lemma ceq_sym a b : ceq a b -> ceq b a.
Proof. destruct a, b; simpl; auto. intro H; symmetry; exact H. Qed.
Lemma ceq_trans a b c : ceq a b -> ceq b c -> ceq a c.
Proof. destruct a, b, c; simpl; auto; try tauto. intros H1 H2. rewrite H1. exact H2. Qed.

Lemma cadd_ceq a a' b b' : ceq a a' -> ceq b b' -> ceq (cadd a b) (cadd a' b').
Proof. destruct a, a', b, b'; simpl; try tauto. intros H1 H2. rewrite H1, H2. reflexivity. Qed.
Lemma cadd_comm a b : ceq (cadd a b) (cadd b a).
Proof. destruct a, b; simpl; try reflexivity; try exact I. apply Qplus_comm. Qed.
Lemma cadd_assoc a b c : ceq (cadd a (cadd b c)) (cadd (cadd a b) c).
Proof. destruct a, b, c; simpl; try reflexivity; try exact I. apply Qplus_assoc. Qed.

Definition csum (z : cell) (cs : list cell) : cell := fold_right cadd z cs.

Lemma csum_perm z cs cs' : Permutation cs cs' -> ceq (csum z cs) (csum z cs').
Proof.
  induction 1; simpl.
  - apply ceq_refl.
  - apply cadd_ceq; [apply ceq_refl | assumption].
  - eapply ceq_trans; [apply cadd_assoc|]. eapply ceq_trans; [|apply ceq_sym, cadd_assoc].
    apply cadd_ceq; [apply cadd_comm | apply ceq_refl].
  - eapply ceq_trans; eassumption.
Qed.

Lemma cnth_vsum vs i : cnth (vsum vs) i = csum (cnth vzero i) (map (fun v => cnth v i) vs).
Proof.
  induction vs as [|v vs IH]; simpl; [reflexivity|]. rewrite cnth_vadd, IH. reflexivity.
Qed.

Lemma bool_ext (a b : bool) : (a = true <-> b = true) -> a = b.
Proof. destruct a, b; intuition congruence. Qed.

Lemma qlt_bool_comp x x' y y' : x == x' -> y == y' -> qlt_bool x y = qlt_bool x' y'.
Proof. intros H1 H2. apply bool_ext. rewrite !qlt_bool_iff, H1, H2. reflexivity. Qed.
Lemma qeq_bool_comp x x' y y' : x == x' -> y == y' -> Qeq_bool x y = Qeq_bool x' y'.
Proof. intros H1 H2. apply bool_ext. rewrite !Qeq_bool_iff, H1, H2. reflexivity. Qed.

Lemma val0_ceq a b : ceq a b -> val0 a == val0 b.
Proof. destruct a, b; simpl; try tauto. reflexivity. Qed.

Lemma cinc_ceq j l l' r r' : ceq l l' -> ceq r r' -> ceq (cinc j l r) (cinc j l' r').
Proof.
  intros H1 H2. pose proof (val0_ceq _ _ H1) as V1. pose proof (val0_ceq _ _ H2) as V2.
  unfold cinc.
  rewrite (qlt_bool_comp _ _ _ _ V2 V1).
  rewrite (qeq_bool_comp (val0 l) (val0 l') (-1) (-1) V1 (Qeq_refl _)).
  rewrite (qeq_bool_comp (val0 r) (val0 r') (-1) (-1) V2 (Qeq_refl _)).
  destruct l, l', r, r'; simpl in H1, H2; try tauto;
    destruct (is_base j); cbn [val0] in *;
    repeat match goal with |- context [if ?b then _ else _] => destruct b end;
    simpl; try exact I; try reflexivity; try (rewrite V1, V2; reflexivity); try assumption;
    try (rewrite V1; reflexivity); try (rewrite V2; reflexivity).
Qed.

Lemma cnorm_ceq a b : ceq a b -> cnorm a = cnorm b.
Proof.
  destruct a, b; simpl; try tauto. intro H. f_equal. apply Qred_complete. exact H.
Qed.

Lemma total_weight_perm qs qs' : Permutation qs qs' -> total_weight qs = total_weight qs'.
Proof.
  induction 1; simpl; try congruence.
  - rewrite IHPermutation. reflexivity.
  - destruct (q_meet x), (q_meet y); lia.
Qed.

(* T5: one round does not depend on the order in which the queues are visited *)
Theorem round_order_independent D rem qs qs' :
  Permutation qs qs' ->
  Permutation (fst (round D rem qs)) (fst (round D rem qs'))
  /\ snd (round D rem qs) = snd (round D rem qs').
Proof.
  intro HP. unfold round. cbn [fst snd]. rewrite <- (total_weight_perm _ _ HP).
  split; [apply Permutation_map; exact HP|].
  unfold vfix, tab. apply map_ext. intro j.
  rewrite !cnth_vnorm, !cnth_vinc, !cnth_vadd, !cnth_vsum, !map_map.
  apply cnorm_ceq. apply cinc_ceq.
  - apply cadd_ceq; [apply ceq_refl|]. apply csum_perm. apply Permutation_map. exact HP.
  - apply csum_perm. apply Permutation_map. exact HP.
Qed.

(* ... and therefore neither does the whole loop, for any number of rounds *)
Theorem loop_order_independent fuel D : forall rem qs qs' k,
  Permutation qs qs' ->
  Permutation (out_qs (loop fuel D rem qs k)) (out_qs (loop fuel D rem qs' k))
  /\ out_rem (loop fuel D rem qs k) = out_rem (loop fuel D rem qs' k).
Proof.
  induction fuel as [|f IH]; intros rem qs qs' k HP; cbn [loop].
  - simpl. auto.
  - rewrite <- (total_weight_perm _ _ HP).
    destruct (Z.eqb (total_weight qs) 0); [simpl; auto|].
    destruct (round_order_independent D rem qs qs' HP) as [H1 H2].
    destruct (round D rem qs) as [a b], (round D rem qs') as [a' b']. simpl in H1, H2. subst b'.
    destruct (vempty b || vdeq b rem); [simpl; auto | apply IH; exact H1].
Qed.

(* ---------- the sum bound ---------- *)
Definition qsumf {A} (f : A -> Q) (l : list A) : Q := fold_right (fun a s => f a + s) 0 l.

Lemma qsumf_le {A} (f g : A -> Q) l :
  (forall a, In a l -> f a <= g a) -> qsumf f l <= qsumf g l.
Proof.
  induction l as [|a l IH]; intros H; simpl; [lra|].
  assert (f a <= g a) by (apply H; left; reflexivity).
  assert (qsumf f l <= qsumf g l) by (apply IH; intros; apply H; right; assumption). lra.
Qed.
Lemma qsumf_plus {A} (f g : A -> Q) l : qsumf (fun a => f a + g a) l == qsumf f l + qsumf g l.
Proof. induction l as [|a l IH]; simpl; [lra | rewrite IH; lra]. Qed.
Lemma qsumf_scale {A} (f : A -> Q) c l : qsumf (fun a => f a * c) l == qsumf f l * c.
Proof. induction l as [|a l IH]; simpl; [lra | rewrite IH; lra]. Qed.
Lemma qsumf_map {A B} (h : A -> B) (f : B -> Q) l : qsumf f (map h l) = qsumf (fun a => f (h a)) l.
Proof. induction l as [|a l IH]; simpl; [reflexivity | rewrite IH; reflexivity]. Qed.

Lemma val0_cadd a b : val0 (cadd a b) == val0 a + val0 b.
Proof. destruct a, b; simpl; lra. Qed.

Lemma val0_csum z cs : val0 (csum z cs) == val0 z + qsumf val0 cs.
Proof. induction cs as [|c cs IH]; simpl; [lra | rewrite val0_cadd, IH; lra]. Qed.

Lemma qeq_bool_m1 x : 0 <= x -> Qeq_bool x (-1) = false.
Proof.
  intro H. destruct (Qeq_bool x (-1)) eqn:E; [|reflexivity]. apply Qeq_bool_iff in E. lra.
Qed.

(* Diff on non-negative operands: inc - dec = l - r, both parts non-negative,
   and inc = max(0, l - r) *)
Lemma cdiff_vals j l r :
  0 <= val0 l -> 0 <= val0 r ->
  val0 (cinc j l r) - val0 (cdec j l r) == val0 l - val0 r
  /\ 0 <= val0 (cinc j l r) /\ 0 <= val0 (cdec j l r)
  /\ (val0 (cinc j l r) == 0 \/ (val0 r < val0 l /\ val0 (cinc j l r) == val0 l - val0 r)).
Proof.
  intros Hl Hr. unfold cinc, cdec.
  rewrite (qeq_bool_m1 _ Hl), (qeq_bool_m1 _ Hr).
  destruct (qlt_bool (val0 r) (val0 l)) eqn:E;
    [apply qlt_bool_iff in E | apply qlt_bool_false in E];
    destruct (is_base j), l, r; cbn [val0] in *; repeat split; try lra;
    try (left; lra); try (right; split; lra).
Qed.

(* growth bound of one update: new <= max(old, guarantee) + share *)
Lemma cnew_growth j sh d cap req g :
  0 <= val0 sh -> 0 <= val0 d ->
  val0 (cnew j sh d cap req g) <= qmax (val0 d) (val0 g) + val0 sh.
Proof. cell_crush. Qed.

Lemma ratio_sum W qs :
  qsumf (fun q => if q_meet q then 0 else ratio (q_w q) W) qs
  == inject_Z (total_weight qs) * / inject_Z W.
Proof.
  induction qs as [|q qs IH]; simpl; [unfold inject_Z; lra|]. rewrite IH.
  destruct (q_meet q); [lra|]. unfold ratio, Qdiv. rewrite inject_Z_plus. lra.
Qed.

Section SumBound.
  Variable i : nat.

  Definition dv (q : qattr) : Q := val0 (cnth (q_des q) i).
  Definition gv (q : qattr) : Q := val0 (cnth (q_gua q) i).
  Definition phi (q : qattr) : Q := qmax (dv q) (gv q).

  Definition qpos (q : qattr) : Prop := 0 <= dv q /\ 0 <= gv q /\ (0 < q_w q)%Z.

  Definition sum_inv (C : Q) (qs : list qattr) (rem : vec) : Prop :=
    0 <= val0 (cnth rem i) /\ Forall qpos qs /\ val0 (cnth rem i) + qsumf phi qs <= C.

  Lemma ratio_nonneg w W : (0 < w)%Z -> (0 < W)%Z -> 0 <= ratio w W.
  Proof.
    intros Hw HW. unfold ratio. apply Qle_shift_div_l.
    - change 0 with (inject_Z 0). rewrite <- Zlt_Qlt. exact HW.
    - rewrite Qmult_0_l. change 0 with (inject_Z 0). rewrite <- Zle_Qle. lia.
  Qed.

  Lemma qpos_upd rem W q : (0 < W)%Z -> 0 <= val0 (cnth rem i) -> qpos q -> qpos (upd rem W q).
  Proof.
    intros HW Hr (Hd & Hg & Hw). destruct (upd_static rem W q) as (E0 & _ & _ & E3 & _).
    unfold qpos, dv, gv. rewrite E0, E3, upd_des. split; [|split; assumption].
    destruct (q_meet q); [exact Hd|]. rewrite cnth_new_des. apply cnew_nonneg. exact Hg.
  Qed.

  (* per queue: phi' + dec <= phi + inc   and   phi' <= phi + k * r *)
  Lemma per_queue rem W q :
    (0 < W)%Z -> 0 <= val0 (cnth rem i) -> qpos q ->
    phi (upd rem W q) + val0 (cnth (q_dec rem W q) i) <= phi q + val0 (cnth (q_inc rem W q) i)
    /\ phi (upd rem W q) <= phi q + (if q_meet q then 0 else ratio (q_w q) W) * val0 (cnth rem i).
  Proof.
    intros HW Hr (Hd & Hg & Hw). destruct (upd_static rem W q) as (_ & _ & _ & E3 & _).
    unfold dv, gv in Hd, Hg.
    unfold phi, dv, gv, q_inc, q_dec. rewrite E3, upd_des.
    destruct (q_meet q).
    - replace (cnth [] i) with (@None Q) by (destruct i; reflexivity). cbn [val0]. split; lra.
    - rewrite cnth_vinc, cnth_vdec, cnth_new_des.
      set (sh := cmul (ratio (q_w q) W) (cnth rem i)).
      set (d' := cnew i sh (cnth (q_des q) i) (cnth (q_rcap q) i) (cnth (q_req q) i) (cnth (q_gua q) i)).
      assert (Hsh : val0 sh == ratio (q_w q) W * val0 (cnth rem i)).
      { unfold sh, cmul. destruct (cnth rem i); simpl; lra. }
      assert (Hk := ratio_nonneg _ _ Hw HW).
      assert (Hsh0 : 0 <= val0 sh).
      { rewrite Hsh. apply Qmult_le_0_compat; assumption. }
      assert (G1 : val0 (cnth (q_gua q) i) <= val0 d') by apply cnew_ge_gua.
      assert (G2 := cnew_growth i sh (cnth (q_des q) i) (cnth (q_rcap q) i) (cnth (q_req q) i)
                                (cnth (q_gua q) i) Hsh0 Hd).
      fold d' in G2.
      assert (Hd' : 0 <= val0 d') by lra.
      destruct (cdiff_vals i d' (cnth (q_des q) i) Hd' Hd) as (D1 & D2 & D3 & _).
      rewrite <- Hsh.
      destruct (qmax_cases (val0 d') (val0 (cnth (q_gua q) i))) as [[? ->]|[? ->]];
      destruct (qmax_cases (val0 (cnth (q_des q) i)) (val0 (cnth (q_gua q) i))) as [[? E]|[? E]];
        rewrite E in *; split; lra.
  Qed.

  Lemma round_sum_inv D C rem qs :
    sum_inv C qs rem -> total_weight qs <> 0%Z ->
    sum_inv C (fst (round D rem qs)) (snd (round D rem qs)).
  Proof.
    intros (Hr & Hq & HC) HW0.
    assert (HW : (0 < total_weight qs)%Z).
    { assert (0 <= total_weight qs)%Z; [|lia]. apply total_weight_nonneg.
      eapply Forall_impl; [|exact Hq]. intros q (_ & _ & H). exact H. }
    set (W := total_weight qs) in *.
    unfold round. fold W. cbn [fst snd].
    assert (HF : Forall qpos (map (upd rem W) qs)).
    { apply Forall_forall. intros q' Hin. apply in_map_iff in Hin. destruct Hin as (q & <- & Hin).
      apply qpos_upd; auto. rewrite Forall_forall in Hq. auto. }
    (* sums of the per-queue facts *)
    assert (PQ : forall q, In q qs -> _) by
      (intros q Hin; apply (per_queue rem W q HW Hr); rewrite Forall_forall in Hq; auto).
    set (INC := val0 (cnth (vsum (map (q_inc rem W) qs)) i)).
    set (DEC := val0 (cnth (vsum (map (q_dec rem W) qs)) i)).
    assert (EI : INC == qsumf (fun q => val0 (cnth (q_inc rem W q) i)) qs).
    { unfold INC. rewrite cnth_vsum, val0_csum, cnth_vzero, map_map, qsumf_map. lra. }
    assert (ED : DEC == qsumf (fun q => val0 (cnth (q_dec rem W q) i)) qs).
    { unfold DEC. rewrite cnth_vsum, val0_csum, cnth_vzero, map_map, qsumf_map. lra. }
    assert (I0 : 0 <= INC).
    { rewrite EI. change 0 with (qsumf (fun _ : qattr => 0) []) at 1.
      assert (qsumf (fun _ : qattr => 0) qs <= qsumf (fun q => val0 (cnth (q_inc rem W q) i)) qs).
      { apply qsumf_le. intros q Hin. unfold q_inc. destruct (q_meet q).
        - replace (cnth [] i) with (@None Q) by (destruct i; reflexivity). simpl; lra.
        - rewrite cnth_vinc. rewrite Forall_forall in Hq. destruct (Hq q Hin) as (Hd & Hg & _).
          assert (0 <= val0 (cnth (new_des rem W q) i))
            by (rewrite cnth_new_des; apply cnew_nonneg; exact Hg).
          apply (cdiff_vals i _ _ H Hd). }
      assert (qsumf (fun _ : qattr => 0) qs == 0) by (clear; induction qs; simpl; lra).
      simpl. lra. }
    assert (D0 : 0 <= DEC).
    { rewrite ED.
      assert (qsumf (fun _ : qattr => 0) qs <= qsumf (fun q => val0 (cnth (q_dec rem W q) i)) qs).
      { apply qsumf_le. intros q Hin. unfold q_dec. destruct (q_meet q).
        - replace (cnth [] i) with (@None Q) by (destruct i; reflexivity). simpl; lra.
        - rewrite cnth_vdec. rewrite Forall_forall in Hq. destruct (Hq q Hin) as (Hd & Hg & _).
          assert (0 <= val0 (cnth (new_des rem W q) i))
            by (rewrite cnth_new_des; apply cnew_nonneg; exact Hg).
          apply (cdiff_vals i _ _ H Hd). }
      assert (qsumf (fun _ : qattr => 0) qs == 0) by (clear; induction qs; simpl; lra).
      lra. }
    assert (SA : qsumf phi (map (upd rem W) qs) + DEC <= qsumf phi qs + INC).
    { rewrite qsumf_map, EI, ED, <- !qsumf_plus. apply qsumf_le. intros q Hin. apply (PQ q Hin). }
    assert (SB : qsumf phi (map (upd rem W) qs) <= qsumf phi qs + val0 (cnth rem i)).
    { rewrite qsumf_map.
      assert (qsumf (fun q => phi (upd rem W q)) qs <=
              qsumf (fun q => phi q + (if q_meet q then 0 else ratio (q_w q) W) * val0 (cnth rem i)) qs)
        by (apply qsumf_le; intros q Hin; apply (PQ q Hin)).
      rewrite qsumf_plus, qsumf_scale, ratio_sum in H. fold W in H.
      assert (inject_Z W * / inject_Z W == 1).
      { apply Qmult_inv_r. intro E. unfold Qeq, inject_Z in E. simpl in E. lia. }
      rewrite H0 in H. lra. }
    (* the new remaining *)
    set (l := cadd (cnth rem i) (cnth (vsum (map (q_dec rem W) qs)) i)).
    assert (Hl : val0 l == val0 (cnth rem i) + DEC) by (unfold l; rewrite val0_cadd; reflexivity).
    assert (Hl0 : 0 <= val0 l) by lra.
    destruct (cdiff_vals i l (cnth (vsum (map (q_inc rem W) qs)) i) Hl0 I0) as (_ & R0 & _ & R1).
    fold INC in R1.
    assert (ER : val0 (cnth (vfix D (vnorm (vinc (vadd rem (vsum (map (q_dec rem W) qs)))
                                                 (vsum (map (q_inc rem W) qs))))) i)
                 == 0 \/
                 val0 (cnth (vfix D (vnorm (vinc (vadd rem (vsum (map (q_dec rem W) qs)))
                                                 (vsum (map (q_inc rem W) qs))))) i)
                 == val0 (cinc i l (cnth (vsum (map (q_inc rem W) qs)) i))).
    { rewrite cnth_vfix. destruct (Nat.ltb i D); [right|left; reflexivity].
      rewrite cnth_vnorm, val0_cnorm, cnth_vinc, cnth_vadd. reflexivity. }
    split; [|split; [exact HF|]].
    - destruct ER as [-> | ->]; [lra | exact R0].
    - destruct ER as [-> | ->]; [lra|].
      destruct R1 as [-> | [Hlt ->]]; lra.
  Qed.
End SumBound.

(* T4: the deserved shares of all queues together never exceed the cluster total plus
   the guarantees, in every dimension, after any number of rounds *)
Theorem deserved_sum_bound fuel D total qs k i :
  Forall (fun q => q_des q = vzero /\ 0 <= val0 (cnth (q_gua q) i) /\ (0 < q_w q)%Z) qs ->
  0 <= val0 (cnth total i) ->
  qsumf (dv i) (out_qs (loop fuel D (vfix D total) qs k))
  <= val0 (cnth total i) + qsumf (gv i) qs.
Proof.
  intros Hq Ht.
  set (C := val0 (cnth total i) + qsumf (gv i) qs).
  assert (H0 : sum_inv i C qs (vfix D total)).
  { assert (Hr : 0 <= val0 (cnth (vfix D total) i) <= val0 (cnth total i)).
    { rewrite cnth_vfix. destruct (Nat.ltb i D); simpl; lra. }
    split; [apply Hr|]. split.
    - eapply Forall_impl; [|exact Hq]. intros q (Hd & Hg & Hw). unfold qpos, dv, gv.
      pose proof (cnth_vzero i) as Z0.
      split; [rewrite Hd; lra | split; [exact Hg | exact Hw]].
    - assert (qsumf (phi i) qs <= qsumf (gv i) qs).
      { apply qsumf_le. intros q Hin. rewrite Forall_forall in Hq. destruct (Hq q Hin) as (Hd & Hg & _).
        pose proof (cnth_vzero i) as Z0.
        unfold phi, dv, gv. rewrite Hd. qcases; lra. }
      unfold C. lra. }
  pose proof (loop_inv (sum_inv i C) D (fun rem qs => round_sum_inv i D C rem qs) fuel _ _ k H0)
    as (Hr & _ & HC).
  assert (qsumf (dv i) (out_qs (loop fuel D (vfix D total) qs k))
          <= qsumf (phi i) (out_qs (loop fuel D (vfix D total) qs k))).
  { apply qsumf_le. intros q _. unfold phi. qcases; lra. }
  lra.
Qed.

(* ---------- weight monotonicity (one round) ---------- *)
Lemma cnew_mono j s1 s2 d1 d2 cap req g :
  (s1 = None <-> s2 = None) -> 0 <= val0 s1 <= val0 s2 ->
  0 <= val0 d1 <= val0 d2 ->
  (forall c, cap = Some c -> 0 <= c) -> 0 <= val0 req ->
  val0 (cnew j s1 d1 cap req g) <= val0 (cnew j s2 d2 cap req g).
Proof.
  intros Hp Hs Hd Hc Hr.
  assert (Hc' : match cap with Some c => 0 <= c | None => True end)
    by (destruct cap; [apply Hc; reflexivity | exact I]).
  clear Hc. destruct cap as [c|].
  all: destruct s1 as [x1|], s2 as [x2|];
    try (exfalso; destruct Hp as [A B]; (discriminate (A eq_refl) || discriminate (B eq_refl)));
    clear Hp; cell_crush.
Qed.

Lemma ratio_mono w1 w2 W : (w1 <= w2)%Z -> (0 < W)%Z -> ratio w1 W <= ratio w2 W.
Proof.
  intros Hw HW. unfold ratio, Qdiv. apply Qmult_le_compat_r.
  - rewrite <- Zle_Qle. exact Hw.
  - apply Qlt_le_weak, Qinv_lt_0_compat. change 0 with (inject_Z 0). rewrite <- Zlt_Qlt. exact HW.
Qed.

(* T6 (step): two queues equal in everything but the weight, both still unsatisfied:
   if the lighter one has no more than the heavier one before a round, so it has after *)
Theorem weight_monotone_round rem W q1 q2 :
  q_rcap q1 = q_rcap q2 -> q_req q1 = q_req q2 -> q_gua q1 = q_gua q2 ->
  q_meet q1 = false -> q_meet q2 = false ->
  (0 < q_w q1 <= q_w q2)%Z -> (0 < W)%Z ->
  (forall i, 0 <= val0 (cnth rem i)) -> wf_static q1 ->
  (forall i, 0 <= val0 (cnth (q_des q1) i) <= val0 (cnth (q_des q2) i)) ->
  forall i, val0 (cnth (q_des (upd rem W q1)) i) <= val0 (cnth (q_des (upd rem W q2)) i).
Proof.
  intros E1 E2 E3 M1 M2 Hw HW Hrem Hwf Hd i.
  rewrite !upd_des, M1, M2, !cnth_new_des, <- E1, <- E2, <- E3.
  destruct (Hwf i) as (Hc & Hr & _).
  assert (K1 : 0 <= ratio (q_w q1) W) by (apply ratio_nonneg; lia).
  assert (K2 : ratio (q_w q1) W <= ratio (q_w q2) W) by (apply ratio_mono; lia).
  apply cnew_mono; auto.
  - unfold cmul. destruct (cnth rem i); simpl; split; congruence.
  - specialize (Hrem i). unfold cmul. destruct (cnth rem i) as [x|]; simpl in *; [|lra].
    split; [apply Qmult_le_0_compat; assumption | apply Qmult_le_compat_r; assumption].
Qed.

(* ---------- termination ---------- *)
(* What is true: the loop continues only when the remaining vector changed and is not
   empty (by definition of the exit test), and any fuel gives a result satisfying all the
   bounds above.  What is false in exact arithmetic: termination.  Two queues, each capped
   in the dimension the other one is hungry for, halve the remaining cpu and memory
   every round for ever, while an unrequested third resource keeps [vempty] false.
   Machine-checked here up to 200 rounds; the Go loop leaves through float absorption
   (deserved + share == deserved once share < ulp/2), a runtime fact outside the model. *)
Definition wit_q (c m : Q) : qattr :=
  mkQ 1 [Some c; Some m; None; Some 8] [Some 1000; Some 1000] vzero vzero vzero false.
Definition wit_qs : list qattr := [wit_q 10 1000; wit_q 1000 10].
Definition wit_rem : vec := [Some 100; Some 100; None; Some 8].

Definition is_out_of_fuel (o : outcome) : bool :=
  match o with OutOfFuel _ _ => true | Done _ _ _ => false end.

Lemma exact_termination_refuted_200 :
  exists D rem qs, Forall (fun q => (0 < q_w q)%Z /\ q_meet q = false) qs /\
                   is_out_of_fuel (loop 200 D rem qs 0) = true.
Proof.
  exists 4%nat, wit_rem, wit_qs. split.
  - repeat constructor.
  - vm_compute. reflexivity.
Qed.

(* the strict "larger weight never gets less" fails by the 0.1 with which a queue is
   declared satisfied: the heavier twin stops at request - 0.05, the lighter one goes on
   to the full request *)
Definition twin (w : Z) : qattr :=
  mkQ w [Some 1000; Some 1000] [Some 10; Some 0] vzero vzero vzero false.
(* a third queue whose cpu share is wasted (capped at 0), so that something remains *)
Definition waster : qattr :=
  mkQ 2 [Some 0; Some 1000] [Some 10; Some 0] vzero vzero vzero false.
Definition twin_rem : vec := [Some (199 # 8); Some 0].

Lemma weight_monotone_strict_refuted :
  exists D rem q1 q2 q3,
    q_rcap q1 = q_rcap q2 /\ q_req q1 = q_req q2 /\ q_gua q1 = q_gua q2 /\ (0 < q_w q1 <= q_w q2)%Z /\
    match out_qs (loop 10 D rem [q1; q2; q3] 0) with
    | [r1; r2; _] => val0 (cnth (q_des r2) 0) < val0 (cnth (q_des r1) 0)
    | _ => False
    end.
Proof.
  exists 2%nat, twin_rem, (twin 1), (twin 2), waster.
  split; [reflexivity|]. split; [reflexivity|]. split; [reflexivity|]. split; [simpl; lia|].
  vm_compute. reflexivity.
Qed.

(* ---------- non-vacuity ---------- *)
Lemma wit_wf : Forall upper_ok wit_qs.
Proof.
  apply Forall_cons; [|apply Forall_cons; [|apply Forall_nil]]; apply upper_ok_init; try reflexivity;
    intro i; destruct i as [|[|[|[|i]]]]; unfold cnth; simpl; try (destruct i; simpl);
    (split; [intros c E; inversion E; subst; lra | split; lra]).
Qed.
