(* C12: theorems about the model's own top-level functions ([attrs], [proportion],
   [total_guarantee], [capacity_des]) on well-formed session inputs: the hypotheses of the
   loop theorems are discharged here, and realCapability is related to the guarantees of ALL
   queues of the session. *)
From Coq Require Import QArith Qminmax ZArith List Bool Lia Lqa Permutation Morphisms.
From V Require Import C12.Model C12.Lemmas C12.Termination.
Import ListNotations.
Open Scope Q_scope.

(* a well-formed queue spec: positive weight, non-negative guarantee / capability / task requests *)
Definition spec_ok (s : qspec) : Prop :=
  (0 < s_w s)%Z /\ vnonneg (s_gua s) /\ (forall c, s_cap s = Some c -> vnonneg c)
  /\ Forall (fun t => vnonneg (t_req t)) (s_tasks s).

Lemma val0_base_some v i : val0 (cnth (base_some v) i) == val0 (cnth v i).
Proof.
  unfold base_some. rewrite cnth_tab. destruct (Nat.ltb i _) eqn:E.
  - destruct (is_base i); reflexivity.
  - apply Nat.ltb_ge in E. rewrite (cnth_overflow v) by lia. reflexivity.
Qed.

Lemma vnonneg_base_some v : vnonneg v -> vnonneg (base_some v).
Proof. intros H i. rewrite val0_base_some. apply H. Qed.

Lemma qsumf_nonneg {A} (f : A -> Q) l : (forall a, In a l -> 0 <= f a) -> 0 <= qsumf f l.
Proof.
  induction l as [|a l IH]; intro H; simpl; [lra|].
  assert (0 <= f a) by (apply H; left; reflexivity).
  assert (0 <= qsumf f l) by (apply IH; intros; apply H; right; assumption). lra.
Qed.

Lemma qsumf_ext {A} (f g : A -> Q) l : (forall a, In a l -> f a == g a) -> qsumf f l == qsumf g l.
Proof.
  induction l as [|a l IH]; intro H; simpl; [reflexivity|].
  rewrite (H a) by (left; reflexivity). rewrite IH; [reflexivity|]. intros; apply H; right; assumption.
Qed.

Lemma val0_vsum vs i : val0 (cnth (vsum vs) i) == qsumf (fun v => val0 (cnth v i)) vs.
Proof. rewrite cnth_vsum, val0_csum, cnth_vzero, qsumf_map. lra. Qed.

Lemma vnonneg_vsum vs : Forall vnonneg vs -> vnonneg (vsum vs).
Proof.
  intros H i. rewrite val0_vsum. apply qsumf_nonneg. intros v Hin.
  rewrite Forall_forall in H. apply H. exact Hin.
Qed.

Lemma vnonneg_vinc a b : vnonneg a -> vnonneg b -> vnonneg (vinc a b).
Proof. intros Ha Hb i. rewrite cnth_vinc. apply (cdiff_vals i _ _ (Ha i) (Hb i)). Qed.

Lemma vnonneg_vadd a b : vnonneg a -> vnonneg b -> vnonneg (vadd a b).
Proof. intros Ha Hb i. rewrite cnth_vadd, val0_cadd. specialize (Ha i). specialize (Hb i). lra. Qed.

Lemma cmin_inf_nonneg a b :
  0 <= val0 a -> (forall y, b = Some y -> 0 <= y) -> 0 <= val0 (cmin_inf a b).
Proof.
  intros Ha Hb. unfold cmin_inf. destruct a as [x|]; [|simpl; lra]. destruct b as [y|]; [|exact Ha].
  specialize (Hb y eq_refl). cbn [val0] in *. qcases; lra.
Qed.

Lemma cmin_inf_le a b : 0 <= val0 a -> val0 (cmin_inf a b) <= val0 a.
Proof.
  intros Ha. unfold cmin_inf. destruct a as [x|]; [|simpl; lra]. destruct b as [y|]; [|lra].
  cbn [val0]. qcases; lra.
Qed.

Lemma cap_norm_nonneg c i y : vnonneg c -> cnth (cap_norm c) i = Some y -> 0 <= y.
Proof.
  intros Hc E. rewrite cnth_cap_norm in E. specialize (Hc i).
  destruct (is_base i); [destruct (Qle_bool (val0 (cnth c i)) 0); [discriminate|]|];
    rewrite E in Hc; exact Hc.
Qed.

Lemma vnonneg_real_cap total tg g cap :
  vnonneg total -> vnonneg tg -> vnonneg g -> (forall c, cap = Some c -> vnonneg c) ->
  vnonneg (real_cap total tg g cap).
Proof.
  intros Ht Htg Hg Hc i. rewrite realcap_def. cbv zeta.
  assert (H0 : 0 <= val0 (cadd (cexc i (cnth total i) (cnth tg i)) (cnth g i))).
  { rewrite val0_cadd, val0_cexc. pose proof (cdiff_vals i _ _ (Ht i) (Htg i)) as (_ & H & _).
    specialize (Hg i). lra. }
  destruct cap as [c|]; [|exact H0].
  apply cmin_inf_nonneg; [exact H0|]. intros y E. eapply cap_norm_nonneg; [|exact E]. apply Hc. reflexivity.
Qed.

Lemma vnonneg_total_guarantee ss : Forall spec_ok ss -> vnonneg (total_guarantee ss).
Proof.
  intro H. unfold total_guarantee. apply vnonneg_vsum. apply Forall_forall. intros v Hin.
  apply in_map_iff in Hin. destruct Hin as (s & <- & Hs). apply vnonneg_base_some.
  rewrite Forall_forall in H. destruct (H s Hs) as (_ & Hg & _). exact Hg.
Qed.

Lemma vnonneg_sum_tasks p ts : Forall (fun t => vnonneg (t_req t)) ts -> vnonneg (sum_tasks p ts).
Proof.
  intro H. unfold sum_tasks. apply vnonneg_vsum. apply Forall_forall. intros v Hin.
  apply in_map_iff in Hin. destruct Hin as (t & <- & Ht). apply filter_In in Ht.
  rewrite Forall_forall in H. apply (H t (proj1 Ht)).
Qed.

Definition init_ok (q : qattr) : Prop :=
  wf_static q /\ q_des q = vzero /\ q_meet q = false /\ (0 < q_w q)%Z.

(* W1: the attributes the model builds from a well-formed session satisfy every hypothesis of
   the loop theorems *)
Lemma attr_of_ok total tg s :
  vnonneg total -> vnonneg tg -> spec_ok s -> init_ok (attr_of total tg s).
Proof.
  intros Ht Htg (Hw & Hg & Hc & Hts). unfold init_ok, attr_of. cbn [q_des q_meet q_w].
  split; [|auto]. intro i. cbn [q_rcap q_req q_gua].
  assert (Hg' := vnonneg_base_some _ Hg).
  assert (Hrc : vnonneg (real_cap total tg (base_some (s_gua s)) (option_map base_some (s_cap s)))).
  { apply vnonneg_real_cap; auto. intros c E. destruct (s_cap s) as [c0|]; [|discriminate].
    inversion E; subst. apply vnonneg_base_some. apply Hc. reflexivity. }
  split; [|split].
  - intros c E. specialize (Hrc i). rewrite E in Hrc. exact Hrc.
  - apply vnonneg_sum_tasks. exact Hts.
  - apply Hg'.
Qed.

Theorem attrs_wf total ss :
  vnonneg total -> Forall spec_ok ss -> Forall init_ok (attrs total ss).
Proof.
  intros Ht Hss. unfold attrs. apply Forall_forall. intros q Hin.
  apply in_map_iff in Hin. destruct Hin as (s & <- & Hs). apply filter_In in Hs.
  apply attr_of_ok; auto.
  - apply vnonneg_total_guarantee. exact Hss.
  - rewrite Forall_forall in Hss. apply (Hss s (proj1 Hs)).
Qed.

(* the property clauses 1-4 for the model's entry point, on every well-formed session *)
Theorem proportion_correct total ss fuel D :
  vnonneg total -> Forall spec_ok ss ->
  let o := proportion fuel D total ss in
  Forall upper_ok (out_qs o)
  /\ ((1 <= fuel)%nat -> Forall lower_ok (out_qs o))
  /\ (forall i, qsumf (dv i) (out_qs o) <= val0 (cnth total i) + qsumf (gv i) (attrs total ss))
  /\ (forall i, 0 <= val0 (cnth (out_rem o) i) <= val0 (cnth total i)).
Proof.
  intros Ht Hss o. pose proof (attrs_wf total ss Ht Hss) as HA. unfold o, proportion.
  assert (Hfix : vnonneg (vfix D total) /\ forall i, val0 (cnth (vfix D total) i) <= val0 (cnth total i)).
  { split; intro i; rewrite cnth_vfix; destruct (Nat.ltb i D); cbn [val0]; specialize (Ht i); lra. }
  split; [|split; [|split]].
  - apply deserved_upper_bounds. eapply Forall_impl; [|exact HA].
    intros q (H1 & H2 & _). apply upper_ok_init; assumption.
  - intro Hf. destruct fuel as [|f]; [lia|]. apply guarantee_le_deserved.
    + eapply Forall_impl; [|exact HA]. intros q (_ & _ & H & _). exact H.
    + intro Hne. assert (0 < total_weight (attrs total ss))%Z; [|lia]. apply total_weight_pos.
      * eapply Forall_impl; [|exact HA]. intros q (_ & _ & _ & H). exact H.
      * destruct (attrs total ss) as [|q0 l]; [contradiction|]. apply Exists_cons_hd.
        inversion HA; subst. destruct H1 as (_ & _ & H & _). exact H.
  - intro i. apply deserved_sum_bound; [|apply Ht].
    eapply Forall_impl; [|exact HA]. intros q (H1 & H2 & _ & H4). destruct (H1 i) as (_ & _ & Hg). auto.
  - intro i. destruct Hfix as (F1 & F2).
    pose proof (remaining_never_grows fuel D (vfix D total) (attrs total ss) 0) as H.
    assert (HP : Forall (fun q => (0 < q_w q)%Z /\ wf_static q /\ Mq q) (attrs total ss)).
    { eapply Forall_impl; [|exact HA]. intros q (H1 & H2 & _ & H4). split; [auto|]. split; [auto|].
      apply Mq_init; assumption. }
    specialize (H HP F1 i). specialize (F2 i). lra.
Qed.

(* W3: realCapability of every queue reserves the guarantees of ALL other queues of the
   session (with or without jobs): with S = sum of all guarantees in dimension i,
     realCapability_i <= max(0, total_i - S) + guarantee_i
                      <= max(guarantee_i, total_i - (S - guarantee_i))  *)
Lemma val0_total_guarantee ss i :
  val0 (cnth (total_guarantee ss) i) == qsumf (fun s => val0 (cnth (s_gua s) i)) ss.
Proof.
  unfold total_guarantee. rewrite val0_vsum, qsumf_map. apply qsumf_ext. intros s _.
  apply val0_base_some.
Qed.

Theorem realcap_reserves_others total ss s i :
  vnonneg total -> Forall spec_ok ss -> In s ss ->
  let q := attr_of total (total_guarantee ss) s in
  let S := qsumf (fun s' => val0 (cnth (s_gua s') i)) ss in
  let g := val0 (cnth (s_gua s) i) in
  val0 (cnth (q_rcap q) i) <= qmax 0 (val0 (cnth total i) - S) + g
  /\ val0 (cnth (q_rcap q) i) <= qmax g (val0 (cnth total i) - (S - g)).
Proof.
  intros Ht Hss Hin q S g.
  assert (Htg := vnonneg_total_guarantee ss Hss).
  assert (Hs : spec_ok s) by (rewrite Forall_forall in Hss; auto).
  destruct Hs as (_ & Hg & _).
  assert (H1 : val0 (cnth (q_rcap q) i) <= qmax 0 (val0 (cnth total i) - S) + g).
  { unfold q, attr_of. cbn [q_rcap]. rewrite realcap_def. cbv zeta.
    set (rc := cadd (cexc i (cnth total i) (cnth (total_guarantee ss) i)) (cnth (base_some (s_gua s)) i)).
    assert (E : val0 rc == qmax 0 (val0 (cnth total i) - S) + g).
    { unfold rc. rewrite val0_cadd, val0_cexc, cinc_val, val0_base_some, val0_total_guarantee by auto. reflexivity. }
    assert (R0 : 0 <= val0 rc).
    { rewrite E. specialize (Hg i). fold g in Hg. qcases; lra. }
    destruct (option_map base_some (s_cap s)); [|lra].
    pose proof (cmin_inf_le rc (cnth (cap_norm v) i) R0). lra. }
  split; [exact H1|]. revert H1. qcases; lra.
Qed.

(* ---------- W2: "deserved <= capability" ---------- *)
(* The literal clause is FALSE when a queue's guarantee exceeds its capability: helpers.Max with
   the guarantee comes last.  (The admission webhook validate_queue.go enforces guarantee <=
   deserved <= capability, so such a Queue object exists only when the webhook is bypassed.) *)
Definition badcap_spec : qspec :=
  mkS 1 (Some [Some 5; Some 5; None]) [Some 10; Some 10; None] [] true
      [mkT 0 [Some 100; Some 100; Some 1]].

Lemma deserved_le_capability_refuted :
  exists total ss fuel D q s c,
    vnonneg total /\ Forall spec_ok ss /\
    In q (out_qs (proportion fuel D total ss)) /\
    In s ss /\ q_gua q = base_some (s_gua s) /\ s_cap s = Some c /\
    cnth c 0 = Some 5 /\ 5 < val0 (cnth (q_des q) 0).
Proof.
  exists [Some 100; Some 100; Some 10], [badcap_spec], 5%nat, 3%nat.
  eexists. exists badcap_spec. eexists.
  split; [|split; [|split; [|split; [|split; [|split; [|split]]]]]].
  - intro i. do 3 (destruct i as [|i]; [cbn; lra|]). destruct i; cbn; lra.
  - constructor; [|constructor]. unfold spec_ok, badcap_spec. cbn. split; [lia|]. split; [|split].
    + intro i. do 3 (destruct i as [|i]; [cbn; lra|]). destruct i; cbn; lra.
    + intros c E. inversion E; subst. intro i. do 3 (destruct i as [|i]; [cbn; lra|]). destruct i; cbn; lra.
    + constructor; [|constructor]. intro i. do 3 (destruct i as [|i]; [cbn; lra|]). destruct i; cbn; lra.
  - vm_compute. left. reflexivity.
  - left. reflexivity.
  - vm_compute. reflexivity.
  - reflexivity.
  - reflexivity.
  - vm_compute. reflexivity.
Qed.

(* Under the webhook's guard (guarantee <= realCapability wherever that is bounded) the clause holds:
   deserved <= realCapability, every dimension, any fuel *)
Definition gua_le_rcap (q : qattr) : Prop :=
  forall i c, cnth (q_rcap q) i = Some c -> val0 (cnth (q_gua q) i) <= c.

Definition capped_ok (q : qattr) : Prop :=
  upper_ok q /\ gua_le_rcap q.

Lemma capped_ok_upd rem W q : capped_ok q -> capped_ok (upd rem W q).
Proof.
  intros (H1 & H2). split; [apply upper_ok_upd; exact H1|].
  destruct (upd_static rem W q) as (_ & E1 & _ & E3 & _). unfold gua_le_rcap. rewrite E1, E3. exact H2.
Qed.

Theorem deserved_le_realcap_guarded fuel D rem qs k :
  Forall capped_ok qs ->
  Forall (fun q => forall i c, cnth (q_rcap q) i = Some c -> val0 (cnth (q_des q) i) <= c)
         (out_qs (loop fuel D rem qs k)).
Proof.
  intro H.
  assert (HC : Forall capped_ok (out_qs (loop fuel D rem qs k))).
  { apply (loop_inv (fun qs _ => Forall capped_ok qs) D); [|exact H].
    intros rem0 qs0 H0 _. apply round_forall; [|exact H0]. intro q. apply capped_ok_upd. }
  eapply Forall_impl; [|exact HC]. intros q ((_ & Hu) & Hg) i c E.
  destruct (Hu i) as (Hc & _). specialize (Hc c E). specialize (Hg i c E).
  revert Hc. qcases; lra.
Qed.

(* and realCapability itself never exceeds the capability, nor falls below the guarantee when
   the guarantee respects the capability *)
Lemma realcap_le_capability total tg g c i y :
  vnonneg total -> vnonneg tg -> vnonneg g -> vnonneg c ->
  cnth (cap_norm c) i = Some y ->
  val0 (cnth (real_cap total tg g (Some c)) i) <= y.
Proof.
  intros Ht Htg Hg Hc E. rewrite realcap_def. cbv zeta. rewrite E.
  pose proof (cap_norm_nonneg c i y Hc E) as Hy.
  set (rc := cadd _ _). unfold cmin_inf. destruct rc as [x|]; cbn [val0]; [qcases; lra | exact Hy].
Qed.

(* the guard, on the spec: the guarantee does not exceed the (normalised) capability *)
Definition gua_le_cap (s : qspec) : Prop :=
  forall c i y, s_cap s = Some c -> cnth (cap_norm (base_some c)) i = Some y ->
                val0 (cnth (s_gua s) i) <= y.

Lemma attr_of_capped total tg s :
  vnonneg total -> vnonneg tg -> spec_ok s -> gua_le_cap s ->
  capped_ok (attr_of total tg s).
Proof.
  intros Ht Htg Hs Hgc. pose proof (attr_of_ok total tg s Ht Htg Hs) as (Hwf & Hd & _).
  split; [apply upper_ok_init; assumption|].
  destruct Hs as (_ & Hg & _).
  intros i c E. unfold attr_of in *. cbn [q_rcap q_gua] in *. rewrite val0_base_some.
  rewrite realcap_def in E. cbv zeta in E.
  set (rc := cadd (cexc i (cnth total i) (cnth tg i)) (cnth (base_some (s_gua s)) i)) in E.
  assert (R : val0 (cnth (s_gua s) i) <= val0 rc).
  { unfold rc. rewrite val0_cadd, val0_base_some, val0_cexc.
    pose proof (cdiff_vals i _ _ (Ht i) (Htg i)) as (_ & H & _). lra. }
  destruct (s_cap s) as [c0|] eqn:Ec; cbn [option_map] in E.
  - unfold cmin_inf in E. destruct rc as [x|]; [|discriminate]. cbn [val0] in R.
    destruct (cnth (cap_norm (base_some c0)) i) as [y|] eqn:Ey.
    + inversion E; subst. specialize (Hgc c0 i y Ec Ey). qcases; lra.
    + inversion E; subst. exact R.
  - rewrite E in R. exact R.
Qed.

(* clause 2 at full strength for the model's entry point, under the webhook's guard *)
Theorem proportion_deserved_le_realcap total ss fuel D :
  vnonneg total -> Forall spec_ok ss -> Forall gua_le_cap ss ->
  Forall (fun q => forall i c, cnth (q_rcap q) i = Some c -> val0 (cnth (q_des q) i) <= c)
         (out_qs (proportion fuel D total ss)).
Proof.
  intros Ht Hss Hg. unfold proportion. apply deserved_le_realcap_guarded.
  unfold attrs. apply Forall_forall. intros q Hin. apply in_map_iff in Hin.
  destruct Hin as (s & <- & Hs). apply filter_In in Hs. destruct Hs as (Hs & _).
  rewrite Forall_forall in Hss, Hg. apply attr_of_capped; auto.
  apply vnonneg_total_guarantee. apply Forall_forall. exact Hss.
Qed.

(* ---------- second audit N1: clause 2 at full strength, on deserved, no "missing = no obligation" ---------- *)
(* realCapability has an entry in every dimension the cluster has (fix 019e7c9: UnreservedPart
   keeps the dimension at zero; before it a scalar whose total was used up by guarantees
   disappeared and the queue was unbounded there) *)
Lemma rcap_present total tg g cap i t :
  cnth total i = Some t -> exists c, cnth (real_cap total tg g cap) i = Some c.
Proof.
  intro Et. rewrite realcap_def. cbv zeta. rewrite Et.
  assert (E : exists x, cexc i (Some t) (cnth tg i) = Some x).
  { unfold cexc. destruct (cinc i (Some t) (cnth tg i)); eauto. }
  destruct E as (x & ->).
  assert (E2 : exists z, cadd (Some x) (cnth g i) = Some z) by (destruct (cnth g i); simpl; eauto).
  destruct E2 as (z & ->).
  destruct cap as [c|]; [|eauto]. unfold cmin_inf. destruct (cnth (cap_norm c) i); eauto.
Qed.

(* a queue record of the loop that still carries the static data of spec s *)
Definition linked (total : vec) (ss : list qspec) (q : qattr) : Prop :=
  exists s, In s ss /\ q_rcap q = q_rcap (attr_of total (total_guarantee ss) s)
            /\ q_gua q = base_some (s_gua s) /\ upper_ok q.

Lemma linked_upd total ss rem W q : linked total ss q -> linked total ss (upd rem W q).
Proof.
  intros (s & Hin & E1 & E2 & Hu). exists s.
  destruct (upd_static rem W q) as (_ & F1 & _ & F3 & _). rewrite F1, F3.
  split; [exact Hin|]. split; [exact E1|]. split; [exact E2|]. apply upper_ok_upd. exact Hu.
Qed.

Lemma linked_attrs total ss :
  vnonneg total -> Forall spec_ok ss -> Forall (linked total ss) (attrs total ss).
Proof.
  intros Ht Hss. unfold attrs. apply Forall_forall. intros q Hin. apply in_map_iff in Hin.
  destruct Hin as (s & <- & Hs). apply filter_In in Hs. destruct Hs as (Hs & _).
  exists s. split; [exact Hs|]. split; [reflexivity|]. split; [reflexivity|].
  assert (Hok : spec_ok s) by (rewrite Forall_forall in Hss; auto).
  destruct (attr_of_ok total (total_guarantee ss) s Ht (vnonneg_total_guarantee ss Hss) Hok) as (H1 & H2 & _).
  apply upper_ok_init; assumption.
Qed.

(* CLAUSE 2 for the model's entry point, every well-formed session, any fuel: in every
   dimension the cluster has, a queue's deserved share is at most
       max(own guarantee, total - guarantees of all OTHER queues)
   and at most its own capability wherever that is bounded and not below its guarantee *)
Theorem proportion_clause2 total ss fuel D :
  vnonneg total -> Forall spec_ok ss ->
  Forall (fun q => exists s, In s ss /\ q_gua q = base_some (s_gua s) /\
    forall i t, cnth total i = Some t ->
      let g := val0 (cnth (s_gua s) i) in
      let S := qsumf (fun s' => val0 (cnth (s_gua s') i)) ss in
      val0 (cnth (q_des q) i) <= qmax g (t - (S - g))
      /\ (forall c y, s_cap s = Some c -> cnth (cap_norm (base_some c)) i = Some y -> g <= y ->
                      val0 (cnth (q_des q) i) <= y))
    (out_qs (proportion fuel D total ss)).
Proof.
  intros Ht Hss. unfold proportion.
  assert (HL : Forall (linked total ss) (out_qs (loop fuel D (vfix D total) (attrs total ss) 0))).
  { apply (loop_inv (fun qs _ => Forall (linked total ss) qs) D); [|apply linked_attrs; assumption].
    intros rem0 qs0 H0 _. apply round_forall; [|exact H0]. intro q. apply linked_upd. }
  apply Forall_forall. intros q Hq. rewrite Forall_forall in HL.
  destruct (HL q Hq) as (s & Hin & E1 & E2 & Hu'). destruct Hu' as (_ & Hu).
  exists s. split; [exact Hin|]. split; [exact E2|]. intros i t Et. cbv zeta.
  set (g := val0 (cnth (s_gua s) i)). set (S := qsumf (fun s' => val0 (cnth (s_gua s') i)) ss).
  assert (Hok : spec_ok s) by (rewrite Forall_forall in Hss; auto).
  destruct Hok as (_ & Hg & Hcap & _).
  destruct (rcap_present total (total_guarantee ss) (base_some (s_gua s))
                         (option_map base_some (s_cap s)) i t Et) as (c0 & Ec0).
  assert (Erc : cnth (q_rcap q) i = Some c0) by (rewrite E1; exact Ec0).
  destruct (Hu i) as (Hc & _). specialize (Hc c0 Erc).
  rewrite E2, val0_base_some in Hc. fold g in Hc.
  destruct (realcap_reserves_others total ss s i Ht Hss Hin) as (R1 & _).
  cbv zeta in R1. unfold attr_of in R1. cbn [q_rcap] in R1.
  unfold attr_of in Ec0. cbn [q_rcap] in Ec0. rewrite Ec0, Et in R1. cbn [val0] in R1.
  fold g in R1. fold S in R1.
  assert (G0 : 0 <= g) by apply Hg.
  split.
  - revert Hc R1. qcases; intros; lra.
  - intros c y Ecap Ey Hgy.
    pose proof (realcap_le_capability total (total_guarantee ss) (base_some (s_gua s)) (base_some c) i y
                  Ht (vnonneg_total_guarantee ss Hss) (vnonneg_base_some _ Hg)
                  (vnonneg_base_some _ (Hcap c Ecap)) Ey) as Hle.
    rewrite Ecap in Ec0. cbn [option_map] in Ec0. rewrite Ec0 in Hle. cbn [val0] in Hle.
    revert Hc. qcases; intros; lra.
Qed.

(* ---------- W5: the capacity plugin's clamp (flat queues) ---------- *)
(* deserved = max(min(Spec.Deserved, realCapability), guarantee): capacity.go 1150-1155 *)
Lemma ccap_ge_gua j d rc g : val0 g <= val0 (cmax j (cmin_inf d rc) g).
Proof. cell_crush. Qed.

Lemma ccap_le j d c g : 0 <= c -> val0 (cmax j (cmin_inf d (Some c)) g) <= qmax (val0 g) c.
Proof. cell_crush. Qed.

Theorem capacity_des_bounds total tg s i :
  let rc := fst (capacity_des total tg s) in
  let d := snd (capacity_des total tg s) in
  val0 (cnth (base_some (s_gua s)) i) <= val0 (cnth d i)
  /\ (forall c, cnth rc i = Some c -> 0 <= c ->
                val0 (cnth d i) <= qmax (val0 (cnth (base_some (s_gua s)) i)) c)
  /\ rc = q_rcap (attr_of total tg s).
Proof.
  unfold capacity_des. cbn [fst snd]. split; [|split].
  - rewrite cnth_vmax, cnth_vmin_inf. apply ccap_ge_gua.
  - intros c E Hc. rewrite cnth_vmax, cnth_vmin_inf, E. apply ccap_le. exact Hc.
  - reflexivity.
Qed.

(* with the guard guarantee <= realCapability: deserved <= realCapability *)
Corollary capacity_des_le_realcap total tg s i c :
  cnth (fst (capacity_des total tg s)) i = Some c -> 0 <= c ->
  val0 (cnth (base_some (s_gua s)) i) <= c ->
  val0 (cnth (snd (capacity_des total tg s)) i) <= c.
Proof.
  intros E Hc Hg. destruct (capacity_des_bounds total tg s i) as (_ & H & _).
  specialize (H c E Hc). revert H. qcases; lra.
Qed.

(* the same for the flat capacity plugin's clamp *)
Theorem capacity_clause2 total ss s i t :
  vnonneg total -> Forall spec_ok ss -> In s ss -> cnth total i = Some t ->
  let d := snd (capacity_des total (total_guarantee ss) s) in
  let g := val0 (cnth (s_gua s) i) in
  let S := qsumf (fun s' => val0 (cnth (s_gua s') i)) ss in
  val0 (cnth d i) <= qmax g (t - (S - g))
  /\ (forall c y, s_cap s = Some c -> cnth (cap_norm (base_some c)) i = Some y -> g <= y ->
                  val0 (cnth d i) <= y).
Proof.
  intros Ht Hss Hin Et d g S.
  assert (Hok : spec_ok s) by (rewrite Forall_forall in Hss; auto).
  destruct Hok as (_ & Hg & Hcap & _).
  assert (Htg := vnonneg_total_guarantee ss Hss).
  destruct (capacity_des_bounds total (total_guarantee ss) s i) as (_ & Hb & Erc).
  destruct (rcap_present total (total_guarantee ss) (base_some (s_gua s))
                         (option_map base_some (s_cap s)) i t Et) as (c0 & Ec0).
  assert (Hrc0 : 0 <= c0).
  { assert (N := vnonneg_real_cap total (total_guarantee ss) (base_some (s_gua s))
                                    (option_map base_some (s_cap s)) Ht Htg (vnonneg_base_some _ Hg)).
    assert (HC : forall c, option_map base_some (s_cap s) = Some c -> vnonneg c).
    { intros c E. destruct (s_cap s) as [c1|]; [|discriminate]. inversion E; subst.
      apply vnonneg_base_some. apply Hcap. reflexivity. }
    specialize (N HC i). rewrite Ec0 in N. exact N. }
  assert (Erc' : cnth (fst (capacity_des total (total_guarantee ss) s)) i = Some c0).
  { rewrite Erc. unfold attr_of. cbn [q_rcap]. exact Ec0. }
  specialize (Hb c0 Erc' Hrc0). fold d in Hb. rewrite val0_base_some in Hb. fold g in Hb.
  destruct (realcap_reserves_others total ss s i Ht Hss Hin) as (R1 & _).
  cbv zeta in R1. unfold attr_of in R1. cbn [q_rcap] in R1. rewrite Ec0, Et in R1. cbn [val0] in R1.
  fold g in R1. fold S in R1.
  assert (G0 : 0 <= g) by apply Hg.
  split.
  - revert Hb R1. qcases; intros; lra.
  - intros c y Ecap Ey Hgy.
    pose proof (realcap_le_capability total (total_guarantee ss) (base_some (s_gua s)) (base_some c) i y
                  Ht Htg (vnonneg_base_some _ Hg) (vnonneg_base_some _ (Hcap c Ecap)) Ey) as Hle.
    rewrite Ecap in Ec0. cbn [option_map] in Ec0. rewrite Ec0 in Hle. cbn [val0] in Hle.
    revert Hb. qcases; intros; lra.
Qed.

(* ---------- W9: a different iteration order in every round ---------- *)
(* Go ranges over the queueOpts map twice per round, in an order of its own each time.
   [loopR sh] re-orders the list with [sh k] before round k. *)
Fixpoint loopR (sh : nat -> list qattr -> list qattr) (fuel D : nat) (rem : vec)
         (qs : list qattr) (k : nat) : outcome :=
  match fuel with
  | O => OutOfFuel qs rem
  | S f =>
    let qs0 := sh k qs in
    if Z.eqb (total_weight qs0) 0 then Done qs0 rem k
    else let '(qs', rem') := round D rem qs0 in
         if vempty rem' || vdeq rem' rem then Done qs' rem' (S k)
         else loopR sh f D rem' qs' (S k)
  end.

Theorem loop_any_order_per_round sh :
  (forall n l, Permutation l (sh n l)) ->
  forall fuel D rem qs qs' k, Permutation qs qs' ->
    Permutation (out_qs (loop fuel D rem qs k)) (out_qs (loopR sh fuel D rem qs' k))
    /\ out_rem (loop fuel D rem qs k) = out_rem (loopR sh fuel D rem qs' k)
    /\ is_out_of_fuel (loop fuel D rem qs k) = is_out_of_fuel (loopR sh fuel D rem qs' k).
Proof.
  intros Hsh fuel. induction fuel as [|f IH]; intros D rem qs qs' k HP; cbn [loop loopR].
  - simpl. auto.
  - assert (HP' : Permutation qs (sh k qs')) by (eapply Permutation_trans; [exact HP | apply Hsh]).
    rewrite <- (total_weight_perm _ _ HP').
    destruct (Z.eqb (total_weight qs) 0); [simpl; auto|].
    destruct (round_order_independent D rem qs (sh k qs') HP') as [H1 H2].
    destruct (round D rem qs) as [a b], (round D rem (sh k qs')) as [a' b']. simpl in H1, H2. subst b'.
    destruct (vempty b || vdeq b rem); [simpl; auto | apply IH; exact H1].
Qed.

(* ---------- (g) float64 is not the exact model ---------- *)
From Coq Require Import SpecFloat.

(* binary64 addition (Coq's executable IEEE 754 specification SpecFloat, precision 53,
   emax 1024 -- pure Gallina, no primitive floats) is not associative: (0.1 + 0.2) + 0.3 and
   0.1 + (0.2 + 0.3) differ in the last bit.  The accumulation increasedDeserved.Add(...) in map
   order can therefore differ between two runs; the order-independence theorems above are about
   exact rationals only. *)
Definition f64add := SFadd 53 1024.
Definition f01 : spec_float := S754_finite false 7205759403792794 (-56).   (* 0x1.999999999999ap-4 *)
Definition f02 : spec_float := S754_finite false 7205759403792794 (-55).   (* 0x1.999999999999ap-3 *)
Definition f03 : spec_float := S754_finite false 5404319552844595 (-54).   (* 0x1.3333333333333p-2 *)

Lemma float_sum_order_dependent_refuted :
  exists a b c : spec_float, SFeqb (f64add (f64add a b) c) (f64add a (f64add b c)) = false.
Proof. exists f01, f02, f03. vm_compute. reflexivity. Qed.

(* ---------- W8: non-vacuity on a session where guarantee, capability and demand interact ---------- *)
Definition ex_total : vec := [Some 10000; Some 4096; Some 110; Some 8000].
Definition ex_specs : list qspec :=
  [ mkS 3 (Some [Some 6000; None; None; Some 2000]) [Some 1000; Some 512; None; None] [] true
        [mkT 0 [Some 7000; Some 1000; Some 1; Some 3000]; mkT 1 [Some 500; Some 256; Some 1]];
    mkS 1 None [Some 2000; None; None; None] [] true
        [mkT 0 [Some 9000; Some 4000; Some 1; Some 1000]];
    mkS 5 None [Some 500; Some 1024; None; None] [] false [] ].

Lemma ex_nonneg (v : vec) :
  forallb (fun c => Qle_bool 0 (val0 c)) v = true -> vnonneg v.
Proof.
  intros H i. unfold cnth. destruct (nth_in_or_default i v None) as [Hin | ->]; [|simpl; lra].
  rewrite forallb_forall in H. apply Qle_bool_iff. apply H. exact Hin.
Qed.

Lemma ex_ok : vnonneg ex_total /\ Forall spec_ok ex_specs.
Proof.
  split; [apply ex_nonneg; reflexivity|].
  repeat (apply Forall_cons || apply Forall_nil);
    (split; [cbn; lia|]); (split; [apply ex_nonneg; reflexivity|]);
    (split; [intros c E; cbn in E; try discriminate; inversion E; subst; apply ex_nonneg; reflexivity|]);
    repeat (apply Forall_cons || apply Forall_nil); apply ex_nonneg; reflexivity.
Qed.

(* the computed shares: the loop leaves after 3 rounds; queue 1 is held at its capability 6000
   in cpu, queue 2 takes the rest (10000 - 6000), neither below its guarantee *)
Lemma ex_result :
  match proportion 10 4 ex_total ex_specs with
  | Done [q1; q2] _ n =>
      cnth (q_des q1) 0 = Some 6000 /\ cnth (q_des q2) 0 = Some 4000 /\ (1 <= n)%nat
  | _ => False
  end.
Proof. vm_compute. repeat split; try reflexivity; lia. Qed.

Lemma ex_guard : Forall gua_le_cap ex_specs.
Proof.
  repeat (apply Forall_cons || apply Forall_nil); intros c i y E Hc; cbn in E; try discriminate.
  inversion E; subst; clear E.
  do 4 (destruct i as [|i]; [cbn in Hc; try discriminate; inversion Hc; subst; cbn; lra|]).
  unfold cnth in Hc. rewrite nth_overflow in Hc by (cbn; lia). discriminate.
Qed.
