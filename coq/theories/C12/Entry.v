(* Entry point of the C12 correspondence: selector + tokens -> tokens.
   1   proportion: totalGuarantee and, per queue with jobs, realCapability / request /
       allocated (all exact: integer inputs, no division)
   2   capacity (flat queues): totalGuarantee, realCapability, deserved, request, allocated
   3   capacity with hierarchy: request / allocated of the leaf queues
   110 proportion, float part: input of 1 followed by the deserved vectors (scaled 10^6)
       and overused answers the Go plugin produced; answers [1] when the exact model
       agrees within 1e-9 relative (+2e-6 absolute for the scaling), or when the case is
       not robust (some comparison of the loop is within 1e-6 of its boundary, a
       cancellation after an inexact division, more than 30 rounds)
   120 diagnostics: [robust; done; rounds]
   101-106 laws on the Go results (105: realCapability reserves the other queues' guarantees,
       106: the same per sibling group of the hierarchical capacity plugin,
       107: the real loop finished within rounds_bound rounds,
       108: two runs differing in map order agree within the 0.1 tolerance) *)
From Coq Require Import QArith ZArith List Bool.
From V Require Import Base.Codec C12.Model C12.Laws.
Import ListNotations.
Open Scope Z_scope.

Definition tag (i : Z) : list Z := [-100 - i].

Definition dCellI : dec cell :=
  let* t := dZ in if t =? 0 then ret None else let* v := dZ in ret (Some (inject_Z v)).
Definition dCellS : dec cell :=
  let* t := dZ in if t =? 0 then ret None else let* v := dZ in ret (Some (Qmake v 1000000)).

Definition dTask (D : nat) : dec task :=
  let* k := dZ in let* c := dZ in let* m := dZ in
  let* r := dRep (D - 3) dCellI in
  ret (mkT k (Some (inject_Z c) :: Some (inject_Z m) :: Some 1%Q :: r)).

Definition dSpec (D : nat) : dec qspec :=
  let* w := dZ in
  let* _state := dZ in     (* Queue.Status.State: read by nothing in the anchored code *)
  let* hc := dBool in
  let* cap := dRep D dCellI in
  let* g := dRep D dCellI in
  let* dsv := dRep D dCellI in
  let* hj := dBool in
  let* _ph1 := dZ in let* _ph2 := dZ in   (* PodGroup phases of the queue's one or two jobs *)
  let* ts := dList (dTask D) in
  ret (mkS w (if hc then Some cap else None) g dsv hj ts).

Definition dInput : dec (nat * vec * list qspec) :=
  let* D := dNat in
  if Nat.ltb D 3 then fail else
  let* total := dRep D dCellI in
  let* ss := dList (dSpec D) in
  ret (D, total, ss).

Definition eCellX (c : cell) : list Z :=
  match c with
  | None => [0]
  | Some q => let r := Qred q in [1; Qnum r; Zpos (Qden r)]
  end.
Definition eVecX (D : nat) (v : vec) : list Z := flat_map eCellX (vfix D v).

Fixpoint number {A} (i : Z) (l : list A) : list (Z * A) :=
  match l with [] => [] | a :: r => (i, a) :: number (i + 1) r end.

Definition fuel_cmp : nat := 30.

Definition out_proportion (D : nat) (total : vec) (ss : list qspec) : list Z :=
  let tg := total_guarantee ss in
  tag 0 ++ eVecX D tg ++
  flat_map (fun ks : Z * qspec =>
    let (k, s) := ks in
    if s_jobs s then
      let a := attr_of total tg s in
      tag k ++ eVecX D (q_rcap a) ++ eVecX D (q_req a) ++ eVecX D (q_alloc a)
    else []) (number 1 ss).

Definition out_capacity (D : nat) (total : vec) (ss : list qspec) : list Z :=
  let tg := total_guarantee ss in
  tag 0 ++ eVecX D tg ++
  flat_map (fun ks : Z * qspec =>
    let (k, s) := ks in
    if s_jobs s then
      let a := attr_of total tg s in
      let '(rc, d) := capacity_des total tg s in
      tag k ++ eVecX D rc ++ eVecX D d ++ eVecX D (q_req a) ++ eVecX D (q_alloc a)
    else []) (number 1 ss).

(* hierarchical capacity (selector 3): queues 1 and 2 of the input are intermediate queues
   (children of root, never holding jobs), queue k >= 3 is a leaf under queue 1 (k odd) or 2
   (k even).  Only request/allocated of the leaves are modelled (capacity.go 1257-1271); the
   realCapability chain of checkHierarchicalQueue is judged by law 106 on the Go results. *)
Definition out_hier (D : nat) (total : vec) (ss : list qspec) : list Z :=
  flat_map (fun ks : Z * qspec =>
    let (k, s) := ks in
    if (3 <=? k) && s_jobs s then
      let a := attr_of total [] s in
      tag k ++ eVecX D (q_req a) ++ eVecX D (q_alloc a)
    else []) (number 1 ss).

(* what the Go side observed per queue: deserved (scaled) and the overused answer *)
Definition dGoQ (D : nat) : dec (vec * bool) := dPair (dRep D dCellS) dBool.

Definition cmp_queue (D : nat) (q : qattr) (g : vec * bool) : bool :=
  vclose D (q_des q) (fst g)
  && (negb (robust_overused q) || Bool.eqb (overused q) (snd g)).

Fixpoint all2 {A B} (f : A -> B -> bool) (l : list A) (r : list B) : bool :=
  match l, r with
  | [], [] => true
  | a :: l', b :: r' => f a b && all2 f l' r'
  | _, _ => false
  end.

Definition corr_float (D : nat) (total : vec) (ss : list qspec) (go : list (vec * bool)) : bool :=
  let qs := attrs total ss in
  let rem := vfix D total in
  if robust fuel_cmp D true rem qs then
    match loop fuel_cmp D rem qs 0 with
    | Done qs' _ _ => all2 (cmp_queue D) qs' go
    | OutOfFuel _ _ => true
    end
  else true.

Definition diag (D : nat) (total : vec) (ss : list qspec) : list Z :=
  let qs := attrs total ss in
  let rem := vfix D total in
  eBool (robust fuel_cmp D true rem qs) ++
  match loop fuel_cmp D rem qs 0 with
  | Done _ _ k => [1; Z.of_nat k]
  | OutOfFuel _ _ => [0; Z.of_nat fuel_cmp]
  end.

(* law input: D, total (scaled), queues as observed *)
Definition dObs (D : nat) : dec obs :=
  let* w := dZ in
  let* g := dRep D dCellS in
  let* rc := dRep D dCellS in
  let* rq := dRep D dCellS in
  let* al := dRep D dCellS in
  let* de := dRep D dCellS in
  let* ov := dBool in
  ret (mkO w g rc rq al de ov).
Definition dLawIn : dec (nat * vec * vec * list obs) :=
  let* D := dNat in
  let* total := dRep D dCellS in
  let* tg := dRep D dCellS in
  let* os := dList (dObs D) in
  ret (D, total, tg, os).

Definition entry (sel : Z) (toks : list Z) : list Z :=
  match sel with
  | 1 => match run_dec dInput toks with
         | Some (D, total, ss) => out_proportion D total ss | None => bad_input end
  | 2 => match run_dec dInput toks with
         | Some (D, total, ss) => out_capacity D total ss | None => bad_input end
  | 3 => match run_dec dInput toks with
         | Some (D, total, ss) => out_hier D total ss | None => bad_input end
  | 110 => match run_dec (let* i := dInput in
                          let '(D, total, ss) := i in
                          let* go := dRep (length (filter s_jobs ss)) (dGoQ D) in
                          ret (D, total, ss, go)) toks with
           | Some (D, total, ss, go) => eBool (corr_float D total ss go) | None => bad_input end
  | 120 => match run_dec dInput toks with
           | Some (D, total, ss) => diag D total ss | None => bad_input end
  | 101 => match run_dec dLawIn toks with
           | Some (D, _, _, os) => eBool (law_bounds D os) | None => bad_input end
  | 102 => match run_dec dLawIn toks with
           | Some (D, total, _, os) => eBool (law_sum D total os) | None => bad_input end
  | 103 => match run_dec dLawIn toks with
           | Some (D, _, _, os) => eBool (law_overused D os) | None => bad_input end
  | 104 => match run_dec dLawIn toks with
           | Some (D, _, _, os) => eBool (law_weight D os) | None => bad_input end
  | 105 => match run_dec dLawIn toks with
           | Some (D, total, tg, os) => eBool (law_reserve false D total tg os) | None => bad_input end
  | 115 => match run_dec dLawIn toks with
           | Some (D, _, _, os) => eBool (law_bounds_lenient D os) | None => bad_input end
  | 111 => match run_dec (let* D := dNat in let* total := dRep D dCellS in
                          let* qs := dList (let* c := dRep D dCellS in let* g := dRep D dCellS in
                                            let* d := dRep D dCellS in ret (c, g, d)) in
                          ret (D, total, qs)) toks with
           | Some (D, total, qs) => eBool (law_capability D total qs) | None => bad_input end
  | 112 => match run_dec (let* i := dInput in
                          let '(D, total, ss) := i in
                          let* ab := dList (let* da := dRep D dCellS in let* al := dRep D dCellS in
                                            let* oa := dBool in let* db := dRep D dCellS in
                                            let* ob := dBool in
                                            ret (mkO 1 [] [] [] al da oa, mkO 1 [] [] [] al db ob)) in
                          ret (D, total, ss, ab)) toks with
           | Some (D, total, ss, ab) =>
               eBool (law_order_excused D (robust fuel_cmp D true (vfix D total) (attrs total ss)) ab)
           | None => bad_input end
  | 107 => match run_dec (let* D := dZ in let* big := dZ in let* r := dZ in let* ws := dList dZ in
                          ret (D, big, r, ws)) toks with
           | Some (D, big, r, ws) => eBool (law_rounds D big r ws) | None => bad_input end
  | 108 => match run_dec (let* D := dNat in
                          let* ab := dList (let* da := dRep D dCellS in let* al := dRep D dCellS in
                                            let* oa := dBool in let* db := dRep D dCellS in
                                            let* ob := dBool in
                                            ret (mkO 1 [] [] [] al da oa, mkO 1 [] [] [] al db ob)) in
                          ret (D, ab)) toks with
           | Some (D, ab) => eBool (law_runs_agree D ab) | None => bad_input end
  | 109 => match run_dec (let* D := dNat in
                          let* ab := dList (let* da := dRep D dCellS in let* al := dRep D dCellS in
                                            let* oa := dBool in let* db := dRep D dCellS in
                                            let* ob := dBool in
                                            ret (mkO 1 [] [] [] al da oa, mkO 1 [] [] [] al db ob)) in
                          ret (D, ab)) toks with
           | Some (D, ab) => eBool (law_runs_identical D ab) | None => bad_input end
  | 106 => match run_dec dLawIn toks with
           | Some (D, total, tg, os) => eBool (law_reserve true D total tg os && forallb (fun o =>
                 alldims D (fun j => Qle_bool (val0 (cnth (o_gua o) j)) (val0 (cnth (o_des o) j) + slack))) os)
           | None => bad_input end
  | _ => bad_input
  end.
