(* C12: what the boolean laws MEAN.  For every law evaluated on the Go results: a Prop-level
   reading (soundness and completeness), written without the modelled loop; and the laws accept
   the model's own results (so theorem and search speak about the same predicate). *)
From Coq Require Import QArith ZArith List Bool Lia Lqa.
From V Require Import C12.Model C12.Lemmas C12.Laws.
Import ListNotations.
Open Scope Q_scope.

Lemma alldims_spec D p : alldims D p = true <-> forall j, (j < D)%nat -> p j = true.
Proof.
  unfold alldims. rewrite forallb_forall. split; intros H j Hj.
  - apply H. apply in_seq. lia.
  - apply in_seq in Hj. apply H. lia.
Qed.

(* --- 101: the three per-queue bounds, slack 0.1 --- *)
Definition bounds_prop (D : nat) (o : obs) : Prop :=
  forall j, (j < D)%nat ->
    let g := val0 (cnth (o_gua o) j) in
    let d := val0 (cnth (o_des o) j) in
    g <= d + slack
    /\ match cnth (o_rcap o) j with
       | Some c => d <= qmax g c + slack
       | None => d <= g + slack      (* no realCapability entry: nothing beyond the guarantee *)
       end
    /\ d <= qmax g (val0 (cnth (o_req o) j)) + slack.

Lemma law_bounds_q_iff D o : law_bounds_q D o = true <-> bounds_prop D o.
Proof.
  unfold law_bounds_q, law_bounds_q_gen, bounds_prop. rewrite alldims_spec.
  split; intros H j Hj; specialize (H j Hj); cbv zeta in *.
  - apply andb_true_iff in H. destruct H as [H H3]. apply andb_true_iff in H. destruct H as [H1 H2].
    split; [apply Qle_bool_iff; exact H1|]. split; [|apply Qle_bool_iff; exact H3].
    destruct (cnth (o_rcap o) j); cbn [negb orb] in H2; apply Qle_bool_iff; exact H2.
  - destruct H as (H1 & H2 & H3). apply andb_true_iff. split; [apply andb_true_iff; split|].
    + apply Qle_bool_iff. exact H1.
    + destruct (cnth (o_rcap o) j) as [c|]; cbn [negb orb]; apply Qle_bool_iff; exact H2.
    + apply Qle_bool_iff. exact H3.
Qed.

Lemma law_bounds_iff D os :
  weights_pos os = true -> (law_bounds D os = true <-> Forall (bounds_prop D) os).
Proof.
  intro W. unfold law_bounds. rewrite W. cbn [negb orb]. rewrite forallb_forall, Forall_forall.
  split; intros H o Ho; apply law_bounds_q_iff; apply H; exact Ho.
Qed.

(* --- 102: sum of deserved <= total + sum of guarantees, slack 0.1 --- *)
Lemma law_sum_iff D total os :
  weights_pos os = true ->
  (law_sum D total os = true <->
   forall j, (j < D)%nat ->
     qsum (map (fun o => val0 (cnth (o_des o) j)) os)
     <= val0 (cnth total j) + qsum (map (fun o => val0 (cnth (o_gua o) j)) os) + slack).
Proof.
  intro W. unfold law_sum. rewrite W. cbn [negb orb]. rewrite alldims_spec.
  split; intros H j Hj; specialize (H j Hj); apply Qle_bool_iff; exact H.
Qed.

(* --- 105: realCapability reserves the other queues' guarantees --- *)
Lemma law_reserve_sound D total tg os :
  law_reserve false D total tg os = true ->
  Forall (fun o => forall j, (j < D)%nat ->
            (forall t, cnth total j = Some t -> cnth (o_rcap o) j <> None)
            /\ forall c, cnth (o_rcap o) j = Some c ->
            c <= qmax 0 (val0 (cnth total j) - val0 (cnth tg j)) + val0 (cnth (o_gua o) j) + slack) os.
Proof.
  unfold law_reserve. rewrite forallb_forall, Forall_forall.
  intros H o Ho. specialize (H o Ho). rewrite alldims_spec in H.
  intros j Hj. specialize (H j Hj). split.
  { intros t Et N. rewrite N, Et in H. discriminate. }
  intros c E. rewrite E in H.
  destruct (cnth total j) as [t|]; cbn [val0]; apply Qle_bool_iff in H.
  - exact H.
  - assert (0 <= qmax 0 (0 - val0 (cnth tg j))) by (qcases; lra). lra.
Qed.

(* --- 103: overused <-> deserved - allocated < 0.1 in every dimension present in deserved --- *)
Definition overused_prop (o : obs) : Prop :=
  forall i, match cnth (o_des o) i with
            | None => True
            | Some d => d - val0 (cnth (o_alloc o) i) < 1 # 10
            end.

Lemma vle_eps_iff des alloc :
  vle_eps des alloc = true <->
  forall i, match cnth des i with None => True | Some d => d - val0 (cnth alloc i) < 1 # 10 end.
Proof.
  unfold vle_eps. rewrite vall2_spec by reflexivity.
  split; intros H i; specialize (H i); unfold cle_eps in *; destruct (cnth des i); auto.
  - apply qlt_bool_iff in H. exact H.
  - apply qlt_bool_iff. exact H.
Qed.

Lemma law_overused_q_sound D o :
  law_overused_q D o = true -> near_boundary D o = false ->
  (o_over o = true <-> overused_prop o).
Proof.
  unfold law_overused_q. intros H N. rewrite N in H. cbn [orb] in H.
  apply eqb_prop in H. rewrite H. apply vle_eps_iff.
Qed.

(* --- 104: larger weight, equal demand: not less, up to 0.1 + slack --- *)
Lemma law_weight_sound D os :
  law_weight D os = true -> weights_pos os = true ->
  forall a b, In a os -> In b os -> same_demand a b = true -> (o_w a <= o_w b)%Z ->
  forall j, (j < D)%nat ->
    val0 (cnth (o_des a) j) <= val0 (cnth (o_des b) j) + eps + slack.
Proof.
  unfold law_weight. intros H W. rewrite W in H. cbn [negb orb] in H.
  rewrite forallb_forall in H. intros a b Ha Hb Hs Hw j Hj.
  specialize (H a Ha). rewrite forallb_forall in H. specialize (H b Hb).
  rewrite Hs in H. apply Z.leb_le in Hw. rewrite Hw in H. cbn [andb] in H.
  rewrite alldims_spec in H. apply Qle_bool_iff. apply H. exact Hj.
Qed.

(* --- 107: the measured number of rounds is within the analytic bound --- *)
Lemma law_rounds_iff D big r ws :
  law_rounds D big r ws = true <->
  (exists w, In w ws /\ (w <= 0)%Z) \/ (r <= rounds_bound D big ws)%Z.
Proof.
  unfold law_rounds. rewrite orb_true_iff, Z.leb_le, negb_true_iff.
  split; intros [H|H]; auto; left.
  - destruct (forallb (Z.ltb 0) ws) eqn:E; [discriminate|].
    assert (X : ~ (forall w, In w ws -> (0 <? w)%Z = true)) by (rewrite <- forallb_forall; congruence).
    clear E H. induction ws as [|w ws IH]; [exfalso; apply X; intros w []|].
    destruct (Z.ltb 0 w) eqn:Ew.
    + destruct IH as (w' & Hin & Hw').
      * intro Hall. apply X. intros w0 [<-|Hin]; [exact Ew | apply Hall; exact Hin].
      * exists w'. split; [right; exact Hin | exact Hw'].
    + exists w. split; [left; reflexivity | apply Z.ltb_ge in Ew; exact Ew].
  - destruct H as (w & Hin & Hw). destruct (forallb (Z.ltb 0) ws) eqn:E; [|reflexivity].
    rewrite forallb_forall in E. specialize (E w Hin). apply Z.ltb_lt in E. lia.
Qed.

(* --- the laws accept the model's own results --- *)
Definition obs_of (q : qattr) : obs :=
  mkO (q_w q) (q_gua q) (q_rcap q) (q_req q) (q_alloc q) (q_des q) (overused q).

Lemma law_bounds_q_accepts_model D q :
  upper_ok q -> lower_ok q ->
  (forall j, cnth (q_rcap q) j = None -> val0 (cnth (q_des q) j) <= val0 (cnth (q_gua q) j)) ->
  law_bounds_q D (obs_of q) = true.
Proof.
  intros (_ & Hu) Hl Hn. apply law_bounds_q_iff. intros j _. cbv zeta. unfold obs_of. cbn [o_gua o_des o_rcap o_req].
  destruct (Hu j) as (H1 & H2). specialize (Hl j). unfold slack.
  split; [lra|]. split; [|lra].
  destruct (cnth (q_rcap q) j) as [c|] eqn:E; [specialize (H1 c eq_refl); lra | specialize (Hn j E); lra].
Qed.

Lemma law_overused_q_accepts_model D q : law_overused_q D (obs_of q) = true.
Proof.
  unfold law_overused_q, obs_of. cbn. unfold overused. rewrite eqb_reflx. apply orb_true_r.
Qed.


(* --- 108 / 109 / 111 / 112 --- *)
Lemma law_runs_identical_iff D ab :
  law_runs_identical D ab = true <->
  Forall (fun p : obs * obs => forall j, (j < D)%nat ->
            close (val0 (cnth (o_des (fst p)) j)) (val0 (cnth (o_des (snd p)) j)) = true) ab.
Proof.
  unfold law_runs_identical. rewrite forallb_forall, Forall_forall.
  split; intros H p Hp; specialize (H p Hp); destruct p as [a b]; cbn [fst snd] in *;
    apply alldims_spec; exact H.
Qed.

Lemma law_runs_agree_sound D ab :
  law_runs_agree D ab = true ->
  Forall (fun p : obs * obs => forall j, (j < D)%nat ->
            qabs (val0 (cnth (o_des (fst p)) j) - val0 (cnth (o_des (snd p)) j)) <= eps + slack) ab.
Proof.
  unfold law_runs_agree. rewrite forallb_forall, Forall_forall.
  intros H p Hp. specialize (H p Hp). destruct p as [a b]. cbn [fst snd].
  apply andb_true_iff in H. destruct H as [H _]. rewrite alldims_spec in H.
  intros j Hj. apply Qle_bool_iff. apply H. exact Hj.
Qed.

Lemma law_capability_sound D total qs :
  law_capability D total qs = true ->
  Forall (fun q : vec * vec * vec => let '(cap, g, d) := q in
            forall j t y, (j < D)%nat -> cnth total j = Some t -> cnth cap j = Some y ->
                          val0 (cnth g j) <= y -> val0 (cnth d j) <= y + slack) qs.
Proof.
  unfold law_capability. rewrite forallb_forall, Forall_forall.
  intros H q Hq. specialize (H q Hq). destruct q as [[cap g] d]. rewrite alldims_spec in H.
  intros j t y Hj Et Ey Hg. specialize (H j Hj). rewrite Et, Ey in H.
  apply Qle_bool_iff in Hg. rewrite Hg in H. apply Qle_bool_iff. exact H.
Qed.

Lemma law_order_excused_iff D r ab :
  law_order_excused D r ab = true <->
  law_runs_identical D ab = true \/ (r = false /\ max_dev_ok D ab = true).
Proof.
  unfold law_order_excused. rewrite orb_true_iff, andb_true_iff, negb_true_iff. tauto.
Qed.
