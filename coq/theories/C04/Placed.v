(* C04 - the placement side of "never in vain", on the FINAL SESSION: the preemptor of every committed
   node attempt is Pipelined on that attempt's node when the actions are over.

   Needs a well-formedness invariant of the session that the shared Statement model preserves along the
   operations the two actions perform (Evict of a node's copy, Pipeline of a Pending task, Discard,
   Commit of Evict / Pipeline operations, Merge):
     - the heap is keyed by task id;
     - every copy a node holds is filed under its id on the node its heap object names, and carries the
       heap object's status (copies are refreshed by node.UpdateTask / AddTask / RemoveTask at every
       status change these operations make);
     - a Pending task names no node.
   It is decidable (PlacedRun.wfb) and the entry evaluates it on the start session of every generated case
   (field -104); no lemma proves it for the codec's constructor. *)
From V Require Import C11.Model.
From stdpp Require Import gmap.
From Coq Require Import ZArith Lia.
From V Require Import Base.Res Sched.LedgerModel Sched.StmtModel Sched.GangModel C04.Model C04.Frame.
Open Scope Z_scope.

Definition wf (s : sess) : Prop :=
  heap_ok s /\
  (forall nid n, nodes s !! nid = Some n -> n_id n = nid) /\
  (forall nid n i c, nodes s !! nid = Some n -> n_tasks n !! i = Some c ->
     t_id c = i /\ t_node c = Some nid /\
     exists t, heap s !! i = Some t /\ t_status t = t_status c /\ t_node t = Some nid) /\
  (forall i t, heap s !! i = Some t -> t_status t = Pending -> t_node t = None).

(* ---- shapes of the primitives ---- *)
Lemma set_node_same p x : t_node p = x -> set_node p x = p.
Proof. destruct p; simpl; intros <-; reflexivity. Qed.

Lemma node_remove_shape n i :
  n_tasks (node_remove n i) = delete i (n_tasks n) /\ n_id (node_remove n i) = n_id n.
Proof.
  unfold node_remove. destruct (n_tasks n !! i) as [c|] eqn:Hc.
  - destruct (n_has_node n); [destruct (t_status c)|]; simpl; auto.
  - rewrite delete_notin by exact Hc. auto.
Qed.

Definition hframe (s s' : sess) (i : positive) : Prop := forall j, j <> i -> heap s' !! j = heap s !! j.

Lemma wf_fields s s' : heap s' = heap s -> nodes s' = nodes s -> wf s -> wf s'.
Proof. intros Hh Hn (a & b & c & d). unfold wf, heap_ok. rewrite Hh, Hn. auto. Qed.

(* no node holds a copy under key i when the heap object names no node *)
Lemma wf_no_copy s i t nid n :
  wf s -> heap s !! i = Some t -> t_node t <> Some nid -> nodes s !! nid = Some n -> n_tasks n !! i = None.
Proof.
  intros (_ & _ & Hc & _) Ht Hne Hn. destruct (n_tasks n !! i) as [c|] eqn:E; [|reflexivity].
  destruct (Hc _ _ _ _ Hn E) as (_ & _ & t' & Ht' & _ & Hnode). rewrite Ht in Ht'. injection Ht' as <-. contradiction.
Qed.

(* the heap object of task i is replaced by q and node nid's copy under key i is replaced by q or removed *)
Lemma wf_replace s s' nid n n' i q :
  wf s -> nodes s !! nid = Some n ->
  heap s' = <[i := q]> (heap s) -> nodes s' = <[nid := n']> (nodes s) ->
  t_id q = i -> n_id n' = nid ->
  (forall k, k <> i -> n_tasks n' !! k = n_tasks n !! k) ->
  (n_tasks n' !! i = None \/ (n_tasks n' !! i = Some q /\ t_node q = Some nid)) ->
  (forall t, heap s !! i = Some t -> t_node t = None \/ t_node t = Some nid) ->
  (t_status q = Pending -> t_node q = None) ->
  wf s'.
Proof.
  intros Hwf Hn Hh Hns Hid Hnid Hk Hi Hold Hpend. pose proof Hwf as (Hok & Hni & Hc & Hp).
  unfold wf, heap_ok. rewrite Hh, Hns. split; [|split; [|split]].
  - intros j t. destruct (decide (j = i)) as [->|Hne]; [rewrite lookup_insert; intros [= <-]; exact Hid|].
    rewrite lookup_insert_ne by auto. apply Hok.
  - intros m nm. destruct (decide (m = nid)) as [->|Hm]; [rewrite lookup_insert; intros [= <-]; exact Hnid|].
    rewrite lookup_insert_ne by auto. apply Hni.
  - intros m nm k c. destruct (decide (m = nid)) as [->|Hm].
    + rewrite lookup_insert. intros [= <-] Hck. destruct (decide (k = i)) as [->|Hki].
      * destruct Hi as [Hi|[Hi Hq]]; [rewrite Hi in Hck; discriminate|]. rewrite Hi in Hck. injection Hck as <-.
        split; [exact Hid|]. split; [exact Hq|].
        exists q. rewrite lookup_insert. auto.
      * rewrite (Hk k Hki) in Hck. destruct (Hc _ _ _ _ Hn Hck) as (h2 & h3 & t & h4 & h5 & h6).
        split; [exact h2|]. split; [exact h3|].
        exists t. rewrite lookup_insert_ne by auto. auto.
    + rewrite lookup_insert_ne by auto. intros Hnm Hck. destruct (Hc _ _ _ _ Hnm Hck) as (h2 & h3 & t & h4 & h5 & h6).
      split; [exact h2|]. split; [exact h3|]. exists t.
      destruct (decide (k = i)) as [->|Hki]; [|rewrite lookup_insert_ne by auto; auto].
      exfalso. destruct (Hold _ h4) as [E|E]; rewrite E in h6; [discriminate|]. injection h6 as ->. contradiction.
  - intros j t. destruct (decide (j = i)) as [->|Hne]; [rewrite lookup_insert; intros [= <-]; exact Hpend|].
    rewrite lookup_insert_ne by auto. apply Hp.
Qed.

(* only the heap object changes; no node holds a copy of the task *)
Lemma wf_heap_only s s' i q :
  wf s -> heap s' = <[i := q]> (heap s) -> nodes s' = nodes s -> t_id q = i ->
  (forall nid n, nodes s !! nid = Some n -> n_tasks n !! i = None) ->
  (t_status q = Pending -> t_node q = None) ->
  wf s'.
Proof.
  intros (Hok & Hni & Hc & Hp) Hh Hns Hid Hno Hpend. unfold wf, heap_ok. rewrite Hh, Hns. split; [|split; [|split]].
  - intros j t. destruct (decide (j = i)) as [->|Hne]; [rewrite lookup_insert; intros [= <-]; exact Hid|].
    rewrite lookup_insert_ne by auto. apply Hok.
  - exact Hni.
  - intros m nm k c Hnm Hck. destruct (Hc _ _ _ _ Hnm Hck) as (h2 & h3 & t & h4 & h5 & h6).
    split; [exact h2|]. split; [exact h3|]. exists t.
    destruct (decide (k = i)) as [->|Hki]; [rewrite (Hno _ _ Hnm) in Hck; discriminate|].
    rewrite lookup_insert_ne by auto. auto.
  - intros j t. destruct (decide (j = i)) as [->|Hne]; [rewrite lookup_insert; intros [= <-]; exact Hpend|].
    rewrite lookup_insert_ne by auto. apply Hp.
Qed.

Section WithEps.
Variable eps : Z.

Lemma node_add_shape n t :
  (t_node t = None \/ t_node t = Some (n_id n)) -> n_tasks n !! t_id t = None ->
  (exists n', node_add eps n t = inl (n', set_node t (Some (n_id n))) /\
              n_tasks n' = <[t_id t := set_node t (Some (n_id n))]> (n_tasks n) /\ n_id n' = n_id n) \/
  (t_status t = Binding /\ exists e, node_add eps n t = inr e).
Proof.
  intros Hn Hc. unfold node_add.
  rewrite bool_decide_eq_false_2 by (intros [H1 H2]; destruct Hn; congruence).
  rewrite bool_decide_eq_false_2 by (rewrite Hc; intros [? ?]; discriminate).
  destruct (n_has_node n); simpl; [|left; eauto].
  destruct (t_status t) eqn:Hs; simpl; try solve [left; eauto].
  destruct (less_equal_names eps (t_req t) (n_idle n) DZero); [left; eauto|right; eauto].
Qed.

Lemma ssn_update_status_shape s p st :
  (exists j, jobs s !! t_job p = Some j /\
     exists s1, ssn_update_status s p st = (true, s1, set_status p st) /\
       heap s1 = <[t_id p := set_status p st]> (heap s) /\ nodes s1 = nodes s /\ herr s1 = herr s) \/
  (jobs s !! t_job p = None /\ ssn_update_status s p st = (false, s, p)).
Proof.
  unfold ssn_update_status. destruct (jobs s !! t_job p) as [j|]; [left|right; auto].
  exists j. split; [reflexivity|]. unfold job_update. simpl. eexists. split; [reflexivity|]. simpl. auto.
Qed.

(* node.UpdateTask(p) on the node p names: the copy under p's id becomes p; a Binding task that no
   longer fits is dropped from the node instead (klog.Fatalf in Go) *)
Lemma ssn_node_update_shape s p nid n :
  t_node p = Some nid -> nodes s !! nid = Some n -> n_id n = nid ->
  (exists n' s', ssn_node_update eps s p = (s', p, false) /\
    heap s' = <[t_id p := p]> (heap s) /\ nodes s' = <[nid := n']> (nodes s) /\
    n_id n' = nid /\ n_tasks n' = <[t_id p := p]> (delete (t_id p) (n_tasks n))) \/
  (exists s', ssn_node_update eps s p = (s', p, true) /\
    heap s' = heap s /\ nodes s' = <[nid := node_remove n (t_id p)]> (nodes s)).
Proof.
  intros Hnode Hn Hid. unfold ssn_node_update. rewrite Hnode, Hn. unfold node_update.
  destruct (node_remove_shape n (t_id p)) as [Hr1 Hr2].
  destruct (node_add_shape (node_remove n (t_id p)) p) as [(n' & Ha & Ht & Hi)|(_ & e & Ha)].
  - right. rewrite Hr2, Hid. exact Hnode.
  - rewrite Hr1. apply lookup_delete.
  - left. rewrite Ha. rewrite Hr2, Hid. rewrite (set_node_same p (Some nid) Hnode).
    exists n'. eexists. split; [reflexivity|]. simpl. split; [reflexivity|]. split; [reflexivity|].
    split; [congruence|]. rewrite Ht, Hr1, Hr2, Hid. rewrite (set_node_same p (Some nid) Hnode). reflexivity.
  - right. rewrite Ha. eexists. split; [reflexivity|]. simpl. auto.
Qed.

Lemma ssn_node_update_none s p :
  (t_node p = None \/ exists nid, t_node p = Some nid /\ nodes s !! nid = None) ->
  ssn_node_update eps s p = (s, p, false).
Proof.
  unfold ssn_node_update. intros [->|(nid & -> & ->)]; reflexivity.
Qed.

(* the common core of Statement.Evict and unevict: the task's object becomes p1 in the heap (if its job
   is known) and node.UpdateTask(p1) refreshes the copy *)
Lemma refresh_wf s0 s1 p1 i t :
  wf s0 -> (heap s1 = heap s0 \/ heap s1 = <[i := p1]> (heap s0)) -> nodes s1 = nodes s0 ->
  t_id p1 = i -> heap s0 !! i = Some t -> t_node t = t_node p1 ->
  (t_status p1 = Pending -> t_node p1 = None) ->
  wf (fst (fst (ssn_node_update eps s1 p1))) /\ hframe s0 (fst (fst (ssn_node_update eps s1 p1))) i /\
  snd (fst (ssn_node_update eps s1 p1)) = p1 /\
  exists q, heap (fst (fst (ssn_node_update eps s1 p1))) !! i = Some q /\ (q = p1 \/ q = t).
Proof.
  intros Hwf Hh Hn Hid Ht Htn Hp. pose proof Hwf as (Hok & Hni & Hc & Hpf).
  assert (Hent : forall h, (h = heap s0 \/ h = <[i := p1]> (heap s0)) -> exists q, h !! i = Some q /\ (q = p1 \/ q = t)).
  { intros h [->| ->]; [exists t; auto|exists p1; rewrite lookup_insert; auto]. }
  assert (Hins : forall h, (h = heap s0 \/ h = <[i := p1]> (heap s0)) -> <[i := p1]> h = <[i := p1]> (heap s0)).
  { intros h [->| ->]; [reflexivity|apply insert_insert]. }
  assert (Hfr : forall h, (h = heap s0 \/ h = <[i := p1]> (heap s0)) -> forall j, j <> i -> h !! j = heap s0 !! j).
  { intros h [->| ->] j Hj; [reflexivity|apply lookup_insert_ne; auto]. }
  destruct (t_node p1) as [nid|] eqn:Hnode.
  - destruct (nodes s0 !! nid) as [n|] eqn:Hnn.
    + destruct (ssn_node_update_shape s1 p1 nid n Hnode ltac:(rewrite Hn; exact Hnn) (Hni _ _ Hnn))
        as [(n' & s' & He & Hh' & Hn' & Hi' & Ht')|(s' & He & Hh' & Hn')].
      * rewrite He. simpl. rewrite Hid in *. split; [|split; [|split; [reflexivity|exists p1; rewrite Hh', lookup_insert; auto]]].
        -- eapply (wf_replace s0 s' nid n n' i p1 Hwf Hnn).
           ++ rewrite Hh'. apply Hins, Hh.
           ++ rewrite Hn', Hn. reflexivity.
           ++ exact Hid.
           ++ exact Hi'.
           ++ intros k Hk. rewrite Ht'. rewrite lookup_insert_ne, lookup_delete_ne by auto. reflexivity.
           ++ right. split; [rewrite Ht'; apply lookup_insert|exact Hnode].
           ++ intros t' Ht''. rewrite Ht in Ht''. injection Ht'' as <-. right. rewrite Htn. reflexivity.
           ++ intros Hpe. specialize (Hp Hpe). discriminate.
        -- intros j Hj. rewrite Hh'. rewrite lookup_insert_ne by auto. apply Hfr; auto.
      * (* the copy was dropped: the heap keeps what it had *)
        rewrite He. simpl. rewrite Hid in *. destruct (node_remove_shape n i) as [Hrt Hri].
        split; [|split; [|split; [reflexivity|rewrite Hh'; apply Hent, Hh]]]; [|intros j Hj; rewrite Hh'; apply Hfr; auto].
        destruct Hh as [Hh|Hh].
        -- eapply (wf_replace s0 s' nid n (node_remove n i) i t Hwf Hnn).
           ++ rewrite Hh', Hh. symmetry. apply insert_id. exact Ht.
           ++ rewrite Hn', Hn. reflexivity.
           ++ apply (Hok _ _ Ht).
           ++ rewrite Hri. apply (Hni _ _ Hnn).
           ++ intros k Hk. rewrite Hrt. apply lookup_delete_ne. auto.
           ++ left. rewrite Hrt. apply lookup_delete.
           ++ intros t' Ht''. rewrite Ht in Ht''. injection Ht'' as <-. right. rewrite Htn. reflexivity.
           ++ apply (Hpf _ _ Ht).
        -- eapply (wf_replace s0 s' nid n (node_remove n i) i p1 Hwf Hnn).
           ++ rewrite Hh', Hh. reflexivity.
           ++ rewrite Hn', Hn. reflexivity.
           ++ exact Hid.
           ++ rewrite Hri. apply (Hni _ _ Hnn).
           ++ intros k Hk. rewrite Hrt. apply lookup_delete_ne. auto.
           ++ left. rewrite Hrt. apply lookup_delete.
           ++ intros t' Ht''. rewrite Ht in Ht''. injection Ht'' as <-. right. rewrite Htn. reflexivity.
           ++ intros Hpe. specialize (Hp Hpe). discriminate.
    + rewrite (ssn_node_update_none s1 p1) by (right; exists nid; rewrite Hn; auto). simpl.
      split; [|split; [|split; [reflexivity|apply Hent, Hh]]]; [|intros j Hj; apply Hfr; auto].
      destruct Hh as [Hh|Hh]; [apply (wf_fields s0 s1 Hh Hn Hwf)|].
      apply (wf_heap_only s0 s1 i p1 Hwf Hh Hn Hid).
      * intros m nm Hm. apply (wf_no_copy s0 i t m nm Hwf Ht); [|exact Hm]. rewrite Htn. intros [= <-]. congruence.
      * intros Hpe. specialize (Hp Hpe). discriminate.
  - rewrite (ssn_node_update_none s1 p1) by (left; exact Hnode). simpl.
    split; [|split; [|split; [reflexivity|apply Hent, Hh]]]; [|intros j Hj; apply Hfr; auto].
    destruct Hh as [Hh|Hh]; [apply (wf_fields s0 s1 Hh Hn Hwf)|].
    apply (wf_heap_only s0 s1 i p1 Hwf Hh Hn Hid).
    * intros m nm Hm. apply (wf_no_copy s0 i t m nm Hwf Ht); [|exact Hm]. rewrite Htn. discriminate.
    * intros _. exact Hnode.
Qed.

Lemma hframe_fields s s1 s2 i : heap s2 = heap s1 -> hframe s s1 i -> hframe s s2 i.
Proof. intros H Hf j Hj. rewrite H. apply Hf, Hj. Qed.

(* UpdateTaskStatus(p, st) followed by node.UpdateTask: p is the task's heap object or a node's copy of it *)
Lemma retag_wf s p st i t :
  wf s -> t_id p = i -> heap s !! i = Some t -> t_node t = t_node p -> t_status t = t_status p ->
  st <> Pending ->
  forall f s1 p1, ssn_update_status s p st = (f, s1, p1) ->
  wf (fst (fst (ssn_node_update eps s1 p1))) /\ hframe s (fst (fst (ssn_node_update eps s1 p1))) i /\
  exists q, heap (fst (fst (ssn_node_update eps s1 p1))) !! i = Some q /\ (t_status q = st \/ t_status q = t_status t).
Proof.
  intros Hwf Hid Ht Htn Hts Hp f s1 p1 He.
  destruct (ssn_update_status_shape s p st) as [(j & Hj & s1' & He' & Hh & Hn & _)|[Hj He']];
    rewrite He' in He; injection He as <- <- <-.
  - destruct (refresh_wf s s1' (set_status p st) i t Hwf) as (a & b & _ & q & Hq & Hqq); auto.
    + right. rewrite Hh, Hid. reflexivity.
    + simpl. intros E. contradiction.
    + split; [exact a|]. split; [exact b|]. exists q. split; [exact Hq|]. destruct Hqq as [-> | ->]; auto.
  - destruct (refresh_wf s s p i t Hwf) as (a & b & _ & q & Hq & Hqq); auto.
    + intros E. rewrite <- Htn. destruct Hwf as (_ & _ & _ & Hpf). apply (Hpf _ _ Ht). congruence.
    + split; [exact a|]. split; [exact b|]. exists q. split; [exact Hq|]. destruct Hqq as [-> | ->]; auto.
Qed.

(* [c] agrees with the heap object of its task (a node's copy does) *)
Definition agree (s : sess) (c : task) : Prop :=
  exists t, heap s !! t_id c = Some t /\ t_node t = t_node c /\ t_status t = t_status c.

(* Statement.Evict of a copy a node holds *)
Lemma evict_wf s sid c :
  wf s -> agree s c ->
  wf (fst (stmt_evict_with eps s sid c None)) /\ hframe s (fst (stmt_evict_with eps s sid c None)) (t_id c) /\
  exists q, heap (fst (stmt_evict_with eps s sid c None)) !! t_id c = Some q /\
            (t_status q = Releasing \/ t_status q = t_status c).
Proof.
  intros Hwf (t & Ht & Htn & Hst).
  unfold stmt_evict_with.
  destruct (ssn_update_status s c Releasing) as [[f s1] p1] eqn:He.
  destruct (retag_wf s c Releasing (t_id c) t Hwf eq_refl Ht Htn Hst) with (f := f) (s1 := s1) (p1 := p1)
    as (Hw & Hf & q & Hq & Hqq); auto; try discriminate.
  destruct (ssn_node_update eps s1 p1) as [[s2 p2] fatal]. simpl in *.
  split; [eapply wf_fields; [| |exact Hw]; reflexivity|].
  split; [eapply hframe_fields; [|exact Hf]; reflexivity|].
  exists q. split; [exact Hq|]. rewrite <- Hst. exact Hqq.
Qed.

Lemma copy_agree s nid n i c : wf s -> nodes s !! nid = Some n -> n_tasks n !! i = Some c ->
  agree s c /\ t_node c = Some nid.
Proof.
  intros (_ & _ & Hcoh & _) Hn Hc. destruct (Hcoh _ _ _ _ Hn Hc) as (Hid & Hnode & t & Ht & Hst & Htn).
  split; [|exact Hnode]. exists t. rewrite Hid, Hnode. auto.
Qed.

(* unevict of the task's heap object *)
Lemma unevict_wf s i p prev :
  wf s -> heap s !! i = Some p ->
  wf (fst (unevict_with eps s p prev)) /\ hframe s (fst (unevict_with eps s p prev)) i /\
  exists q, heap (fst (unevict_with eps s p prev)) !! i = Some q /\
            (t_status q = restore_status prev \/ t_status q = t_status p).
Proof.
  intros Hwf Hp. pose proof Hwf as (Hok & _).
  unfold unevict_with.
  destruct (ssn_update_status s p (restore_status prev)) as [[f s1] p1] eqn:He.
  destruct (retag_wf s p (restore_status prev) i p Hwf (Hok _ _ Hp) Hp eq_refl eq_refl) with (f := f) (s1 := s1) (p1 := p1)
    as (Hw & Hf & q & Hq & Hqq); auto.
  { destruct prev; discriminate. }
  destruct (ssn_node_update eps s1 p1) as [[s2 p2] fatal]. simpl in *.
  destruct (h_alloc s2 p2) as [e s3] eqn:Ha. unfold h_alloc in Ha. injection Ha as _ <-. simpl.
  split; [eapply wf_fields; [| |exact Hw]; reflexivity|].
  split; [eapply hframe_fields; [|exact Hf]; reflexivity|].
  exists q. auto.
Qed.

Lemma ssn_node_remove_shape s p nid :
  t_node p = Some nid ->
  (exists n, nodes s !! nid = Some n /\
     heap (ssn_node_remove s p) = heap s /\ nodes (ssn_node_remove s p) = <[nid := node_remove n (t_id p)]> (nodes s)) \/
  (nodes s !! nid = None /\ ssn_node_remove s p = s).
Proof.
  intros Hn. unfold ssn_node_remove. rewrite Hn. destruct (nodes s !! nid) as [n|]; [left; exists n; auto|right; auto].
Qed.

(* the rollback of a placement (unallocate / unPipeline) from the state the failed placement left *)
Lemma undo_after s s4 p p2 i nid :
  wf s -> heap s !! i = Some p -> t_node p = None -> t_id p2 = i -> t_node p2 = Some nid ->
  (jobs s4 !! t_job p2 = None -> t_status p2 = Pending) ->
  heap s4 = <[i := p2]> (heap s) ->
  (nodes s4 = nodes s \/
   exists n n', nodes s !! nid = Some n /\ nodes s4 = <[nid := n']> (nodes s) /\ n_id n' = nid /\
                n_tasks n' = <[i := p2]> (n_tasks n)) ->
  wf (unallocate_with s4 p2) /\ hframe s (unallocate_with s4 p2) i /\
  exists q, heap (unallocate_with s4 p2) !! i = Some q /\ t_status q = Pending /\ t_node q = None.
Proof.
  intros Hwf Hp Hnone Hid Hnode Hst Hh4 Hn4. pose proof Hwf as (Hok & Hni & Hcoh & Hpf).
  unfold unallocate_with.
  (* UpdateTaskStatus(Pending) *)
  assert (Hu : exists s5 p5 f, ssn_update_status s4 p2 Pending = (f, s5, p5) /\
             t_id p5 = i /\ t_node p5 = Some nid /\ t_status p5 = Pending /\ nodes s5 = nodes s4 /\
             (heap s5 = heap s4 \/ heap s5 = <[i := p5]> (heap s4))).
  { destruct (ssn_update_status_shape s4 p2 Pending) as [(j & Hj & s5 & He & Hh & Hn & _)|[Hj He]].
    - exists s5, (set_status p2 Pending), true. split; [exact He|]. simpl. repeat split; auto.
      right. rewrite Hh, Hid. reflexivity.
    - exists s4, p2, false. split; [exact He|]. repeat split; auto. }
  destruct Hu as (s5 & p5 & f & He & Hid5 & Hnode5 & Hst5 & Hn5 & Hh5). rewrite He.
  set (q := set_node p5 None).
  assert (Hq : t_id q = i /\ t_status q = Pending /\ t_node q = None) by (unfold q; simpl; auto).
  destruct Hq as (Hqi & Hqs & Hqn).
  assert (Hfinal_heap : forall s6, heap s6 = heap s5 -> heap (put_task (h_dealloc s6 p5) q) = <[i := q]> (heap s)).
  { intros s6 H6. unfold put_task, h_dealloc, q. simpl. rewrite Hid5, H6. fold q.
    destruct Hh5 as [-> | ->]; rewrite Hh4, ?insert_insert; reflexivity. }
  assert (Hold : forall t, heap s !! i = Some t -> t_node t = None \/ t_node t = Some nid).
  { intros t Ht. rewrite Hp in Ht. injection Ht as <-. left. exact Hnone. }
  assert (Hnocopy : forall m nm, nodes s !! m = Some nm -> n_tasks nm !! i = None).
  { intros m nm Hm. apply (wf_no_copy s i p m nm Hwf Hp); [rewrite Hnone; discriminate|exact Hm]. }
  assert (Hres : forall sf, heap sf = <[i := q]> (heap s) ->
            (nodes sf = nodes s \/ exists n n'', nodes s !! nid = Some n /\ nodes sf = <[nid := n'']> (nodes s) /\
                n_id n'' = nid /\ (forall k, k <> i -> n_tasks n'' !! k = n_tasks n !! k) /\ n_tasks n'' !! i = None) ->
            wf sf /\ hframe s sf i /\ exists q0, heap sf !! i = Some q0 /\ t_status q0 = Pending /\ t_node q0 = None).
  { intros sf Hhf Hnf. split; [|split].
    - destruct Hnf as [Hnf|(n & n'' & Hnn & Hnf & Hi'' & Hk & Hi)].
      + apply (wf_heap_only s sf i q Hwf Hhf Hnf Hqi Hnocopy). auto.
      + apply (wf_replace s sf nid n n'' i q Hwf Hnn Hhf Hnf Hqi Hi'' Hk); auto.
    - intros j Hj. rewrite Hhf. apply lookup_insert_ne. auto.
    - exists q. rewrite Hhf, lookup_insert. auto. }
  destruct (ssn_node_remove_shape s5 p5 nid Hnode5) as [(n5 & Hn5' & Hrh & Hrn)|[Hn5' Hr]].
  - apply Hres; [apply Hfinal_heap; exact Hrh|]. simpl. rewrite Hrn, Hn5. rewrite Hn5 in Hn5'.
    destruct (node_remove_shape n5 (t_id p5)) as [Ht Hi']. rewrite Hid5 in *.
    destruct Hn4 as [Hn4|(n & n' & Hnn & Hn4 & Hi4 & Ht4)].
    + rewrite Hn4 in *. right. exists n5, (node_remove n5 i). split; [exact Hn5'|]. split; [reflexivity|].
      split; [rewrite Hi'; apply (Hni _ _ Hn5')|]. split.
      * intros k Hk. rewrite Ht. apply lookup_delete_ne. auto.
      * rewrite Ht. apply lookup_delete.
    + rewrite Hn4 in *. rewrite lookup_insert in Hn5'. injection Hn5' as <-.
      right. exists n, (node_remove n' i). split; [exact Hnn|]. split; [apply insert_insert|].
      split; [rewrite Hi'; exact Hi4|]. split.
      * intros k Hk. rewrite Ht, Ht4. rewrite lookup_delete_ne, lookup_insert_ne by auto. reflexivity.
      * rewrite Ht. apply lookup_delete.
  - rewrite Hr. apply Hres; [apply Hfinal_heap; reflexivity|]. simpl. rewrite Hn5. rewrite Hn5 in Hn5'.
    destruct Hn4 as [Hn4|(n & n' & Hnn & Hn4 & _)]; [left; exact Hn4|].
    rewrite Hn4, lookup_insert in Hn5'. discriminate.
Qed.

(* unallocate / unPipeline of the task's heap object (Discard of a Pipeline operation) *)
Lemma unallocate_wf s i p :
  wf s -> heap s !! i = Some p ->
  wf (unallocate_with s p) /\ hframe s (unallocate_with s p) i.
Proof.
  intros Hwf Hp. pose proof Hwf as (Hok & Hni & Hcoh & Hpf). pose proof (Hok _ _ Hp) as Hid.
  unfold unallocate_with.
  assert (Hu : exists s5 p5 f, ssn_update_status s p Pending = (f, s5, p5) /\
             t_id p5 = i /\ t_node p5 = t_node p /\ nodes s5 = nodes s /\
             (heap s5 = heap s \/ heap s5 = <[i := p5]> (heap s))).
  { destruct (ssn_update_status_shape s p Pending) as [(j & Hj & s5 & He & Hh & Hn & _)|[Hj He]].
    - exists s5, (set_status p Pending), true. split; [exact He|]. simpl. repeat split; auto.
      right. rewrite Hh, Hid. reflexivity.
    - exists s, p, false. split; [exact He|]. repeat split; auto. }
  destruct Hu as (s5 & p5 & f & He & Hid5 & Hnode5 & Hn5 & Hh5). rewrite He.
  set (q := set_node p5 None).
  assert (Hqi : t_id q = i) by (unfold q; simpl; auto).
  assert (Hqn : t_node q = None) by reflexivity.
  assert (Hfinal_heap : forall s6, heap s6 = heap s5 -> heap (put_task (h_dealloc s6 p5) q) = <[i := q]> (heap s)).
  { intros s6 H6. unfold put_task, h_dealloc, q. simpl. rewrite Hid5, H6. fold q.
    destruct Hh5 as [-> | ->]; rewrite ?insert_insert; reflexivity. }
  assert (Hfr : forall sf, heap sf = <[i := q]> (heap s) -> hframe s sf i).
  { intros sf Hhf j Hj. rewrite Hhf. apply lookup_insert_ne. auto. }
  destruct (t_node p) as [nid|] eqn:Hnode.
  - destruct (ssn_node_remove_shape s5 p5 nid Hnode5) as [(n5 & Hn5' & Hrh & Hrn)|[Hn5' Hr]].
    + rewrite Hn5 in Hn5'. destruct (node_remove_shape n5 (t_id p5)) as [Ht Hi']. rewrite Hid5 in *.
      split; [|apply Hfr, Hfinal_heap, Hrh].
      eapply (wf_replace s _ nid n5 (node_remove n5 i) i q Hwf Hn5').
      * apply Hfinal_heap, Hrh.
      * simpl. rewrite Hrn, Hn5. reflexivity.
      * exact Hqi.
      * rewrite Hi'. apply (Hni _ _ Hn5').
      * intros k Hk. rewrite Ht. apply lookup_delete_ne. auto.
      * left. rewrite Ht. apply lookup_delete.
      * intros t Ht'. rewrite Hp in Ht'. injection Ht' as <-. right. exact Hnode.
      * intros _. exact Hqn.
    + rewrite Hr. rewrite Hn5 in Hn5'. split; [|apply Hfr, Hfinal_heap; reflexivity].
      apply (wf_heap_only s _ i q Hwf (Hfinal_heap _ eq_refl)); auto.
      intros m nm Hm. apply (wf_no_copy s i p m nm Hwf Hp); [|exact Hm]. rewrite Hnode. intros [= <-]. congruence.
  - assert (Hr : ssn_node_remove s5 p5 = s5) by (unfold ssn_node_remove; rewrite Hnode5; reflexivity).
    rewrite Hr. split; [|apply Hfr, Hfinal_heap; reflexivity].
    apply (wf_heap_only s _ i q Hwf (Hfinal_heap _ eq_refl)); auto.
    intros m nm Hm. apply (wf_no_copy s i p m nm Hwf Hp); [|exact Hm]. rewrite Hnode. discriminate.
Qed.

(* Statement.Pipeline of a Pending task *)
Lemma place_wf s sid i p nid :
  wf s -> heap s !! i = Some p -> t_status p = Pending ->
  wf (fst (place_with eps s sid KPipeline p nid)) /\ hframe s (fst (place_with eps s sid KPipeline p nid)) i /\
  exists q, heap (fst (place_with eps s sid KPipeline p nid)) !! i = Some q /\
    (snd (place_with eps s sid KPipeline p nid) = ROk -> t_status q = Pipelined /\ t_node q = Some nid) /\
    (snd (place_with eps s sid KPipeline p nid) <> ROk -> t_status q = Pending /\ t_node q = None).
Proof.
  intros Hwf Hp Hst. pose proof Hwf as (Hok & Hni & Hcoh & Hpf).
  pose proof (Hok _ _ Hp) as Hid. pose proof (Hpf _ _ Hp Hst) as Hnone.
  assert (Hnocopy : forall m nm, nodes s !! m = Some nm -> n_tasks nm !! i = None).
  { intros m nm Hm. apply (wf_no_copy s i p m nm Hwf Hp); [rewrite Hnone; discriminate|exact Hm]. }
  unfold place_with.
  (* UpdateTaskStatus(Pipelined) *)
  assert (Hu : exists s1 p1 f, ssn_update_status s p Pipelined = (f, s1, p1) /\
             t_id p1 = i /\ nodes s1 = nodes s /\ herr s1 = herr s /\
             (heap s1 = heap s \/ heap s1 = <[i := p1]> (heap s)) /\
             ((f = true /\ t_status p1 = Pipelined /\ is_Some (jobs s1 !! t_job p1)) \/
              (f = false /\ t_status p1 = Pending /\ jobs s1 = jobs s /\ jobs s !! t_job p1 = None))).
  { destruct (ssn_update_status_shape s p Pipelined) as [(j & Hj & s1 & He & Hh & Hn & Hhe)|[Hj He]].
    - exists s1, (set_status p Pipelined), true. split; [exact He|]. simpl. split; [auto|]. split; [auto|]. split; [auto|].
      split; [right; rewrite Hh, Hid; reflexivity|]. left. split; [auto|]. split; [auto|].
      unfold ssn_update_status in He. rewrite Hj in He. unfold job_update in He. simpl in He.
      injection He as <-. simpl. rewrite lookup_insert. eauto.
    - exists s, p, false. split; [exact He|]. repeat split; auto. }
  destruct Hu as (s1 & p1 & f & He & Hid1 & Hn1 & _ & Hh1 & Hf). rewrite He.
  set (p2 := set_node p1 (Some nid)).
  assert (Hp2 : t_id p2 = i /\ t_node p2 = Some nid /\ t_status p2 = t_status p1 /\ t_job p2 = t_job p1) by (unfold p2; simpl; auto).
  destruct Hp2 as (Hid2 & Hnode2 & Hst2 & Hjob2).
  set (s2 := put_task s1 p2).
  assert (Hh2 : heap s2 = <[i := p2]> (heap s)).
  { unfold s2, put_task, p2. simpl. rewrite Hid1. fold p2. destruct Hh1 as [-> | ->]; rewrite ?insert_insert; reflexivity. }
  assert (Hn2 : nodes s2 = nodes s) by exact Hn1.
  assert (Hj2 : jobs s2 = jobs s1) by reflexivity.
  (* node.AddTask *)
  assert (Hadd : exists s3 ok,
     match nodes s2 !! nid with
     | Some n => match node_add eps n p2 with
                 | inl (n', p') => (put_task (upd_nodes s2 (<[nid:=n']> (nodes s2))) p', p', true)
                 | inr _ => (s2, p2, false) end
     | None => (s2, p2, false) end = (s3, p2, ok) /\
     heap s3 = <[i := p2]> (heap s) /\ jobs s3 = jobs s1 /\
     ((ok = false /\ nodes s3 = nodes s) \/
      (ok = true /\ exists n n', nodes s !! nid = Some n /\ nodes s3 = <[nid := n']> (nodes s) /\ n_id n' = nid /\
                      n_tasks n' = <[i := p2]> (n_tasks n)))).
  { rewrite Hn2. destruct (nodes s !! nid) as [n|] eqn:Hnn.
    - destruct (node_add_shape n p2) as [(n' & Ha & Ht & Hi')|(Hbind & _)].
      + right. rewrite (Hni _ _ Hnn). exact Hnode2.
      + rewrite Hid2. apply (Hnocopy _ _ Hnn).
      + rewrite Ha. rewrite (Hni _ _ Hnn) in *. rewrite (set_node_same p2 (Some nid) Hnode2) in *.
        eexists. exists true. split; [reflexivity|].
        split; [unfold put_task, upd_nodes; cbn [heap]; rewrite Hh2, Hid2; apply insert_insert|].
        split; [reflexivity|]. right. split; [reflexivity|].
        exists n, n'. rewrite Hid2 in Ht. split; [reflexivity|]. split; [reflexivity|]. auto.
      + exfalso. rewrite Hst2 in Hbind. destruct Hf as [(_ & E & _)|(_ & E & _)]; rewrite E in Hbind; discriminate.
    - exists s2, false. split; [reflexivity|]. split; [exact Hh2|]. split; [reflexivity|]. left. auto. }
  destruct Hadd as (s3 & ok & -> & Hh3 & Hj3 & Hn3).
  destruct (h_alloc s3 p2) as [he s4] eqn:Ha. unfold h_alloc in Ha. injection Ha as Hhe <-.
  set (s4 := upd_handlers s3 _ _).
  assert (Hh4 : heap s4 = <[i := p2]> (heap s)) by exact Hh3.
  destruct (f && ok && negb he) eqn:Hok3.
  - (* success *)
    apply andb_true_iff in Hok3 as [Hok3 _]. apply andb_true_iff in Hok3 as [-> ->].
    destruct Hf as [(_ & Hpip & _)|(? & _)]; [|discriminate].
    destruct Hn3 as [(? & _)|(_ & n & n' & Hnn & Hn3 & Hi' & Ht')]; [discriminate|]. simpl.
    split; [|split].
    + eapply (wf_replace s _ nid n n' i p2 Hwf Hnn).
      * exact Hh3.
      * exact Hn3.
      * exact Hid2.
      * exact Hi'.
      * intros k Hk. rewrite Ht'. apply lookup_insert_ne. auto.
      * right. split; [rewrite Ht'; apply lookup_insert|exact Hnode2].
      * intros t Ht. rewrite Hp in Ht. injection Ht as <-. left. exact Hnone.
      * rewrite Hst2, Hpip. discriminate.
    + intros j Hj. simpl. rewrite Hh3. apply lookup_insert_ne. auto.
    + exists p2. simpl. rewrite Hh3, lookup_insert. split; [reflexivity|]. split; [|intros H; contradiction].
      intros _. split; [transitivity (t_status p1); [exact Hst2|exact Hpip]|exact Hnode2].
  - (* failure: rolled back *)
    simpl.
    destruct (undo_after s s4 p p2 i nid Hwf Hp Hnone Hid2 Hnode2) as (a & b & q & c & d & e).
    + intros Hnj. rewrite Hst2. destruct Hf as [(_ & _ & Hs)|(_ & Hpe & _)]; [|exact Hpe].
      exfalso. unfold s4 in Hnj. simpl in Hnj. rewrite Hj3 in Hnj. rewrite Hnj in Hs. destruct Hs; discriminate.
    + exact Hh4.
    + destruct Hn3 as [(_ & Hn3)|(_ & n & n' & Hnn & Hn3 & Hi' & Ht')]; [left; exact Hn3|].
      right. exists n, n'. auto.
    + split; [exact a|]. split; [exact b|]. exists q. split; [exact c|]. split; [intros H; discriminate|auto].
Qed.

(* ---- statements ---- *)
Lemma stmt_pipeline_wf s sid tid nid p :
  wf s -> heap s !! tid = Some p -> t_status p = Pending ->
  wf (fst (stmt_pipeline eps s sid tid nid)) /\ hframe s (fst (stmt_pipeline eps s sid tid nid)) tid /\
  exists q, heap (fst (stmt_pipeline eps s sid tid nid)) !! tid = Some q /\
    (snd (stmt_pipeline eps s sid tid nid) = ROk -> t_status q = Pipelined /\ t_node q = Some nid) /\
    (snd (stmt_pipeline eps s sid tid nid) <> ROk -> t_status q = Pending /\ t_node q = None).
Proof.
  intros Hwf Hp Hst. unfold stmt_pipeline, with_task. rewrite Hp. apply place_wf; auto.
Qed.

Lemma undo_op_wf s o : wf s -> wf (undo_op eps s o) /\ hframe s (undo_op eps s o) (op_task o).
Proof.
  intros Hwf. unfold undo_op. destruct (heap s !! op_task o) as [p|] eqn:Hp; [|split; [exact Hwf|intros j _; reflexivity]].
  destruct (op_kind o).
  - destruct (unevict_wf s (op_task o) p (op_prev o) Hwf Hp) as (a & b & _). auto.
  - apply unallocate_wf; auto.
  - apply unallocate_wf; auto.
Qed.

Lemma commit_op_wf s o : op_kind o <> KAllocate -> wf s ->
  wf (commit_op eps s o) /\ hframe s (commit_op eps s o) (op_task o).
Proof.
  intros Hk Hwf. unfold commit_op. destruct (heap s !! op_task o) as [p|] eqn:Hp; [|split; [exact Hwf|intros j _; reflexivity]].
  destruct (op_kind o); [| |contradiction].
  - destruct (bool_decide (t_id p ∈ refuse_evict s));
      [destruct (unevict_wf s (op_task o) p (op_prev o) Hwf Hp) as (a & b & _); auto|].
    split; [eapply wf_fields; [| |exact Hwf]; reflexivity|intros j _; reflexivity].
  - split; [exact Hwf|intros j _; reflexivity].
Qed.

Lemma fold_wf (f : sess -> oprec -> sess) (P : oprec -> Prop) :
  (forall s o, P o -> wf s -> wf (f s o) /\ hframe s (f s o) (op_task o)) ->
  forall l s, Forall P l -> wf s ->
    wf (fold_left f l s) /\ forall j, (forall o, o ∈ l -> op_task o <> j) -> heap (fold_left f l s) !! j = heap s !! j.
Proof.
  intros Hf. induction l as [|o l IH]; intros s HP Hwf; simpl; [split; auto|].
  apply Forall_cons in HP as [Ho HP]. destruct (Hf s o Ho Hwf) as [Hw Hfr].
  destruct (IH _ HP Hw) as [Hw' Hfr']. split; [exact Hw'|].
  intros j Hj. rewrite Hfr' by (intros o' Ho'; apply Hj; right; exact Ho').
  apply Hfr. intros ->. eapply Hj; [left|reflexivity].
Qed.

Lemma stmt_discard_wf s sid : wf s ->
  wf (stmt_discard eps s sid) /\
  forall j, (forall o, o ∈ ops s sid -> op_task o <> j) -> heap (stmt_discard eps s sid) !! j = heap s !! j.
Proof.
  intros Hwf. unfold stmt_discard.
  destruct (fold_wf (undo_op eps) (fun _ => True) (fun s o _ => undo_op_wf s o) (rev (default [] (stmts s !! sid))) s) as [a b].
  { apply Forall_forall. auto. }
  { exact Hwf. }
  split; [eapply wf_fields; [| |exact a]; reflexivity|].
  intros j Hj. simpl. apply b. intros o Ho. apply Hj. unfold ops. apply elem_of_list_In. apply elem_of_list_In, in_rev in Ho. exact Ho.
Qed.

Lemma stmt_commit_wf s sid : wf s -> Forall (fun o => op_kind o <> KAllocate) (ops s sid) ->
  wf (stmt_commit eps s sid) /\
  forall j, (forall o, o ∈ ops s sid -> op_task o <> j) -> heap (stmt_commit eps s sid) !! j = heap s !! j.
Proof.
  intros Hwf Hk. unfold stmt_commit.
  destruct (fold_wf (commit_op eps) (fun o => op_kind o <> KAllocate) (fun s o => commit_op_wf s o) (default [] (stmts s !! sid)) s Hk Hwf) as [a b].
  split; [eapply wf_fields; [| |exact a]; reflexivity|].
  intros j Hj. simpl. apply b. exact Hj.
Qed.

End WithEps.

Lemma stmt_merge_wf s sid src : wf s -> wf (stmt_merge s sid src) /\ heap (stmt_merge s sid src) = heap s.
Proof.
  intros Hwf. unfold stmt_merge. destruct (bool_decide (sid = src)); [auto|].
  split; [eapply wf_fields; [| |exact Hwf]; reflexivity|reflexivity].
Qed.

Lemma set_fault_wf E s tid nid : wf s -> wf (set_fault E s tid nid) /\ heap (set_fault E s tid nid) = heap s.
Proof. intros Hwf. split; [eapply wf_fields; [| |exact Hwf]; reflexivity|reflexivity]. Qed.
