(* C04 - executable model of victim selection and of the preempt / reclaim actions.

     pkg/scheduler/actions/preempt/preempt.go   Execute (inter-job and intra-job phases),
                                                 preempt, normalPreempt, preemptorFitsOnNode
     pkg/scheduler/actions/reclaim/reclaim.go   Execute, reclaimForTask
     pkg/scheduler/framework/session_plugins.go Preemptable / Reclaimable (tier walk = C11.Model.victims_fixed),
                                                 JobStarving, JobPipelined, Overused, Preemptive, Allocatable
     plugins gang (preemptableFn, jobStarvingFn, pipelinedFn), priority (preemptableFn,
     jobStarvingFn), conformance (evictableFn), proportion (reclaimableFn, overusedFn,
     queueAllocatable), util.ValidateVictims.

   Oracle (DESIGN 4.4): which preemptor job / task is tried, on which node, in which order the
   node's tasks are enumerated (Go map order; the gang and proportion votes depend on it) and
   in which order the victims queue pops.  Everything else - candidate filter, votes, tier
   walk, ValidateVictims, evict-until-fits, Pipeline, Merge / Discard, Commit iff JobPipelined
   resp. iff assigned - is computed here.  A choice the code could not have made is reported
   by a non-zero verdict. *)
From V Require Import C11.Model.
From stdpp Require Import gmap.
From Coq Require Import ZArith QArith.
From V Require Import Base.Res Sched.LedgerModel Sched.StmtModel Sched.GangModel.
Open Scope Z_scope.

Inductive pkind := KGang | KPrio | KConf | KProp | KCap | KDrf.
Global Instance pkind_eq_dec : EqDecision pkind.
Proof. solve_decision. Defined.

(* one configured plugin of a tier with its two enable flags *)
Record plug := mkPlug { p_kind : pkind; p_pre : bool; p_rec : bool }.

(* per-queue facts: state, Spec.Reclaimable (nil counts as true), and proportion's deserved as the
   harness read it from the real plugin.  deserved is a float vector off the grid; it is
   handed over pre-rounded for each of the three comparisons that read it (see docs/notes/C04.md):
     qx_des_dim  for  allocated+req LessEqualWithDimension deserved   (floor)
     qx_des_hi   for  allocated.LessEqual(deserved)                   (reclaimableFn)
     qx_des_lo   for  deserved.LessEqual(allocated)                   (overusedFn) *)
(* capacity (flat queues): deserved, guarantee and realCapability of the plugin's queue record are
   sums / minima / maxima of Quantities, hence on the grid: they are handed over exactly *)
Record qx := mkQx { qx_open : bool; qx_reclaimable : bool; qx_known : bool;
                    qx_des_dim : res; qx_des_hi : res; qx_des_lo : res;
                    qx_cap_known : bool;          (* capacity holds a record for the queue *)
                    qx_cap_des : res; qx_cap_guar : res; qx_cap_real : res }.

Record env := mkEnv {
  e_tiers : list (list plug);
  e_jprio : gmap positive Z;        (* JobInfo.Priority *)
  e_jpending : gset positive;       (* PodGroup phase Pending: job.IsPending() *)
  e_critical : gset positive;       (* tasks: system-cluster/node-critical class or namespace kube-system *)
  e_queues : gmap positive qx;
  e_faults : list (positive * positive);   (* (task, node): an allocate event handler reports Event.Err
                                              when this task is placed on this node (Statement.Pipeline fails) *)
  e_qorder : list positive;         (* the order in which the capacity plugin's own victims queue
                                       (ssn.BuildVictimsPriorityQueue inside its ReclaimableFn) pops the
                                       candidates of the current vote; an oracle, installed per node attempt *)
}.

Definition with_qorder (E : env) (qo : list positive) : env :=
  mkEnv (e_tiers E) (e_jprio E) (e_jpending E) (e_critical E) (e_queues E) (e_faults E) qo.

Definition find_task (l : list task) (i : positive) : option task :=
  match filter (fun c => bool_decide (t_id c = i) = true) l with c :: _ => Some c | [] => None end.

Definition Qmax_b (a b : Q) : Q := match (a ?= b)%Q with Lt => b | _ => a end.

Inductive akind := AInter | AIntra | AReclaim.
Global Instance akind_eq_dec : EqDecision akind.
Proof. solve_decision. Defined.

Definition is_reclaim (k : akind) : bool := match k with AReclaim => true | _ => false end.

Section WithEps.
Variable eps : Z.
Variable E : env.

Definition jprio (j : positive) : Z := default 0 (e_jprio E !! j).
Definition critical (t : task) : bool := bool_decide (t_id t ∈ e_critical E).
Definition has_plugin (k : pkind) : bool :=
  existsb (fun t => existsb (fun p => bool_decide (p_kind p = k)) t) (e_tiers E).

(* ------------------------------------------------------------------ *)
(* the votes *)

(* gang.go preemptableFn (registered for preempt and reclaim) *)
Fixpoint gang_go (s : sess) (occ : gmap positive Z) (l : list task) : list task :=
  match l with
  | [] => []
  | c :: r =>
    match jobs s !! t_job c with
    | None => gang_go s occ r
    | Some j =>
      let o := default (ready_num (j_index j)) (occ !! t_job c) in
      if bool_decide (j_min j < o) then c :: gang_go s (<[t_job c := o - 1]> occ) r
      else gang_go s (<[t_job c := o]> occ) r
    end
  end.
Definition gang_vote (s : sess) (l : list task) : list task := gang_go s ∅ l.

(* priority.go preemptableFn (preempt only) *)
Definition prio_ok (s : sess) (p c : task) : bool :=
  match jobs s !! t_job c with
  | None => false
  | Some _ =>
    if bool_decide (t_job c = t_job p) then bool_decide (t_prio c < t_prio p)
    else bool_decide (jprio (t_job c) < jprio (t_job p))
  end.
Definition prio_vote (s : sess) (p : task) (l : list task) : list task :=
  match jobs s !! t_job p with
  | None => []
  | Some _ => filter (fun c => prio_ok s p c = true) l
  end.

(* conformance.go evictableFn *)
Definition conf_vote (l : list task) : list task := filter (fun c => critical c = false) l.

(* a queue's allocated amount as proportion keeps it = sum of the per-job handler ledgers *)
Definition share_of (s : sess) (qid : positive) : res :=
  map_fold (fun jid r acc =>
      match jobs s !! jid with
      | Some j => if bool_decide (j_queue j = qid) then add acc r else acc
      | None => acc
      end) empty_res (hshare s).

(* proportion.go reclaimableFn *)
Fixpoint prop_go (s : sess) (al : gmap positive res) (l : list task) : list task :=
  match l with
  | [] => []
  | c :: r =>
    match jobs s !! t_job c with
    | None => prop_go s al r
    | Some j =>
      match e_queues E !! j_queue j with
      | None => prop_go s al r
      | Some q =>
        if negb (qx_known q) then prop_go s al r else
        let a := default (share_of s (j_queue j)) (al !! j_queue j) in
        if negb (less_equal eps a (qx_des_hi q) DZero)
        then c :: prop_go s (<[j_queue j := sub a (t_req c)]> al) r
        else prop_go s (<[j_queue j := a]> al) r
      end
    end
  end.
Definition prop_vote (s : sess) (l : list task) : list task := prop_go s ∅ l.

(* api.Intersection(r1, r2) non-empty: a resource name that both vectors hold with at least
   minResource; [noign]: after FilteredIgnoredScalarResources (the "pods" name dropped) *)
Definition intersects (noign : bool) (r1 r2 : res) : bool :=
  match names_of eps r1, names_of eps r2 with
  | (c1, m1, k1), (c2, m2, k2) =>
    (c1 && c2) || (m1 && m2) ||
    existsb (fun k => negb (noign && ignored k) && bool_decide (k ∈ k2)) k1
  end.

(* capacity.go ReclaimableFn 459-603 on flat queues (ancestorReclaimLevel = 0).  The candidates are
   visited in the pop order of the plugin's own victims queue.  Each victim is paired with the
   running allocation of its queue at the moment it was taken. *)
Fixpoint cap_go_tr (s : sess) (p : task) (al : gmap positive res) (l : list task) : list (task * res) :=
  match l with
  | [] => []
  | c :: r =>
    match jobs s !! t_job c with
    | None => cap_go_tr s p al r
    | Some j =>
      match e_queues E !! j_queue j with
      | None => cap_go_tr s p al r
      | Some q =>
        if negb (qx_cap_known q) then cap_go_tr s p al r else
        (* shouldSkipReclaimee *)
        if negb (intersects true (t_req c) (t_init p)) then cap_go_tr s p al r else
        let a := default (share_of s (j_queue j)) (al !! j_queue j) in
        (* checkGuaranteeConstraint: guarantee <= allocated - reclaimee *)
        if negb (less_equal eps (qx_cap_guar q) (sub a (t_req c)) DZero) then cap_go_tr s p (<[j_queue j := a]> al) r else
        (* isImmediateVictim || checkDeservedExceedance (GreaterPartlyWithRelevantDimensions) *)
        if negb (intersects false (t_req c) (qx_cap_des q)) || gp_rel eps a (qx_cap_des q) (t_req c)
        then (c, a) :: cap_go_tr s p (<[j_queue j := sub a (t_req c)]> al) r
        else cap_go_tr s p (<[j_queue j := a]> al) r
      end
    end
  end.
Definition cap_go (s : sess) (p : task) (al : gmap positive res) (l : list task) : list task :=
  map fst (cap_go_tr s p al l).

(* the reclaimer's job and queue record must exist, else (nil, Reject): an empty vote *)
Definition cap_reclaimer_ok (s : sess) (p : task) : bool :=
  match jobs s !! t_job p with
  | Some j => match e_queues E !! j_queue j with Some q => qx_cap_known q | None => false end
  | None => false
  end.
Definition cap_vote (s : sess) (p : task) (l : list task) : list task :=
  if cap_reclaimer_ok s p then cap_go s p ∅ (omap (find_task l) (e_qorder E)) else [].

(* drf.go preemptableFn 222-261 (registered for preempt only).  A job's allocation is drf's own per-job ledger
   (= the handler ledger hshare); its share is the largest allocated / total over the resource names the cluster
   total holds (calculateShare 566-578, helpers.Share), computed here in exact rationals.  The per-call copy of a
   job's allocation is reduced by EVERY preemptee of the job that is looked at, victim or not
   (`allocations[job].Sub(req)` mutates the cached copy), and the preemptee is a victim when the preemptor job's
   share with the preemptor is below, or within shareDelta = 1e-6 of, the share of what is left. *)
Definition total_res (s : sess) : res :=
  map_fold (fun _ n acc => add acc (n_alloc n)) empty_res (nodes s).

Definition ratio (a t : Z) : Q := if (t =? 0)%Z then (if (a =? 0)%Z then 0 else 1)%Q else Qmake a (Z.to_pos t).
Definition dom_share (alloc tot : res) : Q :=
  let c := if bool_decide (eps <= cpu tot)%Z then ratio (cpu alloc) (cpu tot) else 0%Q in
  let m := if bool_decide (eps <= mem tot)%Z then ratio (mem alloc) (mem tot) else 0%Q in
  map_fold (fun k v acc => if bool_decide (eps <= v)%Z then Qmax_b acc (ratio (sget alloc k) v) else acc)
           (Qmax_b c m) (scm tot).
Definition share_delta : Q := Qmake 1 1000000.
(* ls < rs || |ls - rs| <= shareDelta *)
Definition drf_lets_go (ls rs : Q) : bool :=
  match (ls ?= rs)%Q with
  | Lt => true
  | _ => match ((ls - rs) ?= share_delta)%Q with Gt => false | _ => true end
  end.

Fixpoint drf_go_tr (s : sess) (ls : Q) (al : gmap positive res) (l : list task) : list (task * res) :=
  match l with
  | [] => []
  | c :: r =>
    match jobs s !! t_job c with
    | None => drf_go_tr s ls al r
    | Some _ =>
      let left := sub (default (default empty_res (hshare s !! t_job c)) (al !! t_job c)) (t_req c) in
      if drf_lets_go ls (dom_share left (total_res s))
      then (c, left) :: drf_go_tr s ls (<[t_job c := left]> al) r
      else drf_go_tr s ls (<[t_job c := left]> al) r
    end
  end.
Definition drf_ls (s : sess) (p : task) : Q :=
  dom_share (add (default empty_res (hshare s !! t_job p)) (t_req p)) (total_res s).
Definition drf_vote (s : sess) (p : task) (l : list task) : list task :=
  match jobs s !! t_job p with
  | None => []
  | Some _ => map fst (drf_go_tr s (drf_ls s p) ∅ l)
  end.

(* which function a plugin registered for the action, and its answer *)
Definition vote_of (k : akind) (s : sess) (p : task) (l : list task) (pk : pkind) : option (list task) :=
  match pk with
  | KGang => Some (gang_vote s l)
  | KConf => Some (conf_vote l)
  | KPrio => if is_reclaim k then None else Some (prio_vote s p l)
  | KProp => if is_reclaim k then Some (prop_vote s l) else None
  | KCap => if is_reclaim k then Some (cap_vote s p l) else None
  | KDrf => if is_reclaim k then None else Some (drf_vote s p l)
  end.

Definition uid_of (t : task) : Z := Zpos (t_id t).

Definition slot_of (k : akind) (s : sess) (p : task) (l : list task) (pl : plug) : slot vote :=
  let en := if is_reclaim k then p_rec pl else p_pre pl in
  match vote_of k s p l (p_kind pl) with
  | Some v => mkSlot en true (mkVote 1 (map uid_of v))
  | None => mkSlot en false (mkVote 0 [])
  end.

Definition vote_layout (k : akind) (s : sess) (p : task) (l : list task) : layout vote :=
  map (map (slot_of k s p l)) (e_tiers E).

(* ssn.Preemptable / ssn.Reclaimable, as the set of chosen candidates *)
Definition victim_ids (k : akind) (s : sess) (p : task) (l : list task) : list Z :=
  victims_fixed (vote_layout k s p l).
Definition is_victim (ids : list Z) (c : task) : bool := bool_decide (uid_of c ∈ ids).
Definition victims (k : akind) (s : sess) (p : task) (l : list task) : list task :=
  filter (fun c => is_victim (victim_ids k s p l) c = true) l.

(* ------------------------------------------------------------------ *)
(* candidate filters: preempt.go 196-214 (inter-job), 256-272 (intra-job), reclaim.go 186-200.
   [c] is the node's copy of the task *)
Definition preemptable_status (st : status) : bool :=
  match st with Bound | Running => true | _ => false end.

Definition queue_reclaimable (q : positive) : bool :=
  match e_queues E !! q with Some x => qx_reclaimable x | None => false end.

Definition cand_ok (k : akind) (s : sess) (p : task) (pq : positive) (c : task) : bool :=
  match k with
  | AInter =>
    preemptable_status (t_status c) && negb (t_best_effort p && negb (t_best_effort c)) && t_preemptable c &&
    match jobs s !! t_job c with
    | Some j => bool_decide (j_queue j = pq) && negb (bool_decide (t_job p = t_job c))
    | None => false
    end
  | AIntra =>
    preemptable_status (t_status c) && negb (t_best_effort p && negb (t_best_effort c)) && t_preemptable c &&
    bool_decide (t_job p = t_job c)
  | AReclaim =>
    bool_decide (t_status c = Running) && t_preemptable c &&
    match jobs s !! t_job c with
    | Some j => negb (bool_decide (j_queue j = pq)) && queue_reclaimable (j_queue j)
    | None => false
    end
  end.

Definition node_cands (k : akind) (s : sess) (p : task) (pq : positive) (n : node) : list task :=
  filter (fun c => cand_ok k s p pq c = true) (map snd (map_to_list (n_tasks n))).

(* ------------------------------------------------------------------ *)
(* queue gates (proportion) *)

(* proportion queueAllocatable(queue, [t]) : state Open and allocated + req <= deserved on the dimensions of req;
   capacity AllocatableFn (flat, no reserved tasks, no DRA): Open and allocated + req <= realCapability *)
Definition queue_allocatable (s : sess) (q : positive) (t : task) : bool :=
  match e_queues E !! q with
  | None => true
  | Some x =>
    (if has_plugin KProp then qx_open x && le_dim (add (share_of s q) (t_req t)) (qx_des_dim x) (t_req t) else true) &&
    (if has_plugin KCap then qx_open x && le_dim (add (share_of s q) (t_req t)) (qx_cap_real x) (t_req t) else true)
  end.

(* ssn.Preemptive(queue, [t]): proportion = queueAllocatable; capacity PreemptiveFn 648-715 (flat): Open,
   futureUsed <= realCapability on the requested dimensions, and futureUsed <= deserved on SOME requested
   dimension that is not empty on both sides (LessEqualPartlyWithDimensionZeroFiltered) *)
Definition queue_preemptive (s : sess) (q : positive) (t : task) : bool :=
  match e_queues E !! q with
  | None => true
  | Some x =>
    let fu := add (share_of s q) (t_req t) in
    (if has_plugin KProp then qx_open x && le_dim fu (qx_des_dim x) (t_req t) else true) &&
    (if has_plugin KCap then qx_open x && le_dim fu (qx_cap_real x) (t_req t) && lep_zf eps fu (qx_cap_des x) (t_req t)
     else true)
  end.

(* overusedFn: deserved.LessEqual(allocated, Zero) *)
Definition queue_overused (s : sess) (q : positive) : bool :=
  if negb (has_plugin KProp) then false else
  match e_queues E !! q with
  | None => false
  | Some x => less_equal eps (qx_des_lo x) (share_of s q) DZero
  end.

(* ------------------------------------------------------------------ *)
(* JobStarving / JobPipelined through the tiers (enable flags at their defaults) *)
Definition starving_layout (s : sess) (j : job) : layout bool :=
  map (map (fun pl : plug =>
    match p_kind pl with
    | KGang => mkSlot true true (gang_job_starving j)
    | KPrio => mkSlot true true
                 (bool_decide (ready_num (j_index j) + waiting_num (j_index j) < Z.of_nat (size (j_tasks j))))
    | _ => mkSlot true false false
    end)) (e_tiers E).
Definition job_starving_now (s : sess) (j : job) : bool := job_starving (starving_layout s j).

Definition pipelined_layout (s : sess) (j : job) : layout Z :=
  map (map (fun pl : plug =>
    match p_kind pl with
    | KGang => mkSlot true true (if gang_job_pipelined (heap s) j then 1 else -1)
    | _ => mkSlot true false 0
    end)) (e_tiers E).
Definition job_pipelined_now (s : sess) (j : job) : bool := vote_tiers (pipelined_layout s j).

End WithEps.

Section Actions.
Variable eps : Z.
Variable E : env.

(* ------------------------------------------------------------------ *)
(* one node attempt *)

Definition jsid : positive := 1%positive.     (* the caller's statement *)
Definition nsid : positive := 2%positive.     (* the per-node statement *)

(* a node attempt as the oracle describes it: the node, the order in which node.Tasks was
   enumerated (candidates only), the order in which the victims queue popped *)
Record attempt := mkAtt { at_node : positive; at_cands : list positive; at_order : list positive;
                          at_qorder : list positive;     (* pop order of the capacity plugin's own queue *)
                          at_topo : bool }.              (* preempt with enableTopologyAwarePreemption *)

(* what an attempt did (ghost record for the theorems; also used by nothing else) *)
Record arec := mkRec {
  a_kind : akind; a_pre : sess; a_task : task; a_queue : positive; a_node : positive;
  a_cands : list task; a_qorder : list positive; a_evicted : list task; a_ok : bool }.

(* verdict codes *)
Definition V_OK := 0.
Definition V_NO_NODE := 1.
Definition V_CANDS := 2.          (* the enumerated candidates are not the node's filtered tasks *)
Definition V_VALIDATE := 3.       (* ValidateVictims would have refused *)
Definition V_ORDER := 4.          (* popped task is not a pending victim / order too short *)
Definition V_NO_TASK := 5.
Definition V_NOT_PENDING := 6.
Definition V_NOT_STARVING := 7.
Definition V_JOB := 8.            (* unknown job / job of a Pending PodGroup *)
Definition V_EXTRA := 9.          (* attempts after the task was assigned *)
Definition V_OVERUSED := 10.
Definition V_NOT_PREEMPTIVE := 11.
Definition V_NO_CANDS := 12.      (* reclaim skips a node without reclaimees *)

(* the fault script as the session's handler sees it at the next allocate callback of [tid] on [nid] *)
Definition set_fault (s : sess) (tid nid : positive) : sess :=
  upd_faults s (if bool_decide ((tid, nid) ∈ e_faults E) then {[tid]} else ∅)
             (refuse_bind s) (refuse_evict s) (job_ready s).

Definition fits_node (s : sess) (p : task) (nid : positive) : bool :=
  match nodes s !! nid with
  | Some n => less_equal eps (t_init p) (future_idle n) DZero
  | None => false
  end.

(* preemptorFitsOnNode (no predicate plugins) *)
Definition preemptor_fits (s : sess) (pq : positive) (p : task) (nid : positive) : bool :=
  queue_allocatable E s pq p && fits_node s p nid.

(* preempt.go 382-392: pop until the preemptor fits.  [vs]: victims not yet popped *)
Fixpoint evict_loop_pre (s : sess) (pq : positive) (p : task) (nid : positive)
    (vs : list task) (order : list positive) (done : list task) : sess * list task * Z :=
  if preemptor_fits s pq p nid then (s, done, V_OK) else
  match order with
  | [] => (s, done, match vs with [] => V_OK | _ => V_ORDER end)
  | x :: r =>
    match find_task vs x with
    | None => (s, done, V_ORDER)
    | Some c =>
      let '(s1, _) := stmt_evict_with eps s nsid c None in
      evict_loop_pre s1 pq p nid (filter (fun v => bool_decide (t_id v = x) = false) vs) r (done ++ [c])
    end
  end.

(* reclaim.go 227-240: the running sum [avail] is not re-read from the node *)
Fixpoint evict_loop_rec (s : sess) (p : task) (avail : res)
    (vs : list task) (order : list positive) (done : list task) : sess * list task * res * Z :=
  if less_equal eps (t_init p) avail DZero then (s, done, avail, V_OK) else
  match order with
  | [] => (s, done, avail, match vs with [] => V_OK | _ => V_ORDER end)
  | x :: r =>
    match find_task vs x with
    | None => (s, done, avail, V_ORDER)
    | Some c =>
      let '(s1, _) := stmt_evict_with eps s nsid c None in
      evict_loop_rec s1 p (add avail (t_req c)) (filter (fun v => bool_decide (t_id v = x) = false) vs) r (done ++ [c])
    end
  end.

(* topologyAwarePreempt (preempt.go 479-520, 546-555): the victims were chosen by a dry run on a CLONE of the
   node (SelectVictimsOnNode: pop until the preemptor fits, then reprieve); prepareCandidate evicts them all
   in the temporary statement, in that order, without looking at the node again.  The chosen list is an
   oracle input: every one must be a victim of the vote, none twice *)
Fixpoint evict_all (s : sess) (vs : list task) (order : list positive) (done : list task) : sess * list task * Z :=
  match order with
  | [] => (s, done, V_OK)
  | x :: r =>
    match find_task vs x with
    | None => (s, done, V_ORDER)
    | Some c =>
      let '(s1, _) := stmt_evict_with eps s nsid c None in
      evict_all s1 (filter (fun v => bool_decide (t_id v = x) = false) vs) r (done ++ [c])
    end
  end.

Definition same_ids (l : list task) (ids : list positive) : bool :=
  bool_decide (map t_id l ≡ₚ ids).

Definition sum_reqs (base : res) (l : list task) : res := fold_left (fun acc v => add acc (t_req v)) l base.

(* the evictions of a node attempt: session, evicted tasks, does the preemptor fit now, verdict *)
Definition do_evictions (k : akind) (s : sess) (p : task) (pq : positive) (a : attempt) (n : node) (vs : list task)
    : sess * list task * bool * Z :=
  if at_topo a && negb (is_reclaim k) then
    (* the dry run found at least one victim and decided the preemptor fits without them: Pipeline follows
       without a re-check *)
    let '(s1, done, v) := evict_all s vs (at_order a) [] in
    (s1, done, true, match at_order a with [] => V_ORDER | _ => v end)
  else if is_reclaim k then
    let '(s1, done, avail, v) := evict_loop_rec s p (future_idle n) vs (at_order a) [] in
    (* reclaim.go 247-259: enough room by the running sum, and the queue still admits the task *)
    (s1, done, less_equal eps (t_init p) avail DZero && queue_allocatable E s1 pq p, v)
  else
    let '(s1, done, v) := evict_loop_pre s pq p (at_node a) vs (at_order a) [] in
    (s1, done, preemptor_fits s1 pq p (at_node a), v).

(* the result of an attempt: session, assigned?, verdict, record *)
Definition run_attempt (k : akind) (s : sess) (p : task) (pq : positive) (a : attempt)
    : sess * bool * Z * list arec :=
  match nodes s !! at_node a with
  | None => (s, false, V_NO_NODE, [])
  | Some n =>
    let cset := node_cands E k s p pq n in
    if negb (same_ids cset (at_cands a) && bool_decide (NoDup (at_cands a)) &&
             (negb (has_plugin E KCap && is_reclaim k) || same_ids cset (at_qorder a))) then (s, false, V_CANDS, []) else
    (* the candidates in the order the code enumerated them *)
    let cands := omap (find_task cset) (at_cands a) in
    if is_reclaim k && bool_decide (cands = []) then (s, false, V_NO_CANDS, []) else
    (* the vote, with the capacity plugin's pop order of these candidates installed *)
    let vs := victims eps (with_qorder E (at_qorder a)) k s p cands in
    if negb (less_equal eps (t_init p) (sum_reqs (future_idle n) vs) DZero) then (s, false, V_VALIDATE, []) else
    let '(s1, done, fits, v) := do_evictions k s p pq a n vs in
    if negb (v =? V_OK) then (stmt_discard eps s1 nsid, false, v, []) else
    if fits then
      (* Statement.Pipeline fails when a handler reports Event.Err (rolled back by Pipeline itself);
         preempt.go 405-411 / reclaim.go 261-266 then discard the node statement *)
      let '(s2, r) := stmt_pipeline eps (set_fault s1 (t_id p) (at_node a)) nsid (t_id p) (at_node a) in
      match r with
      | ROk => (stmt_merge s2 jsid nsid, true, V_OK,
                [mkRec k s p pq (at_node a) cands (at_qorder a) done true])
      | _ => (stmt_discard eps s2 nsid, false, V_OK, [mkRec k s p pq (at_node a) cands (at_qorder a) done false])
      end
    else (stmt_discard eps s1 nsid, false, V_OK, [mkRec k s p pq (at_node a) cands (at_qorder a) done false])
  end.

(* the node loop of normalPreempt / reclaimForTask: stop at the first assigned attempt *)
Fixpoint run_attempts (k : akind) (s : sess) (tid : positive) (pq : positive) (l : list attempt)
    : sess * bool * Z * list arec :=
  match l with
  | [] => (s, false, V_OK, [])
  | a :: r =>
    match heap s !! tid with
    | None => (s, false, V_NO_TASK, [])
    | Some p =>
      let '(s1, ok, v, lg) := run_attempt k s p pq a in
      if negb (v =? V_OK) then (s1, ok, v, lg) else
      if ok then (s1, true, match r with [] => V_OK | _ => V_EXTRA end, lg)
      else let '(s2, ok2, v2, lg2) := run_attempts k s1 tid pq r in (s2, ok2, v2, lg ++ lg2)
    end
  end.

(* the task loop of one job statement (inter-job preempt, reclaim) *)
Fixpoint run_tasks (k : akind) (s : sess) (jid : positive) (l : list (positive * list attempt))
    : sess * Z * list arec :=
  match l with
  | [] => (s, V_OK, [])
  | (tid, atts) :: r =>
    match jobs s !! jid, heap s !! tid with
    | Some j, Some p =>
      if negb (job_starving_now E s j) then (s, V_NOT_STARVING, []) else
      if negb (bool_decide (t_status p = Pending) && bool_decide (t_job p = jid)) then (s, V_NOT_PENDING, []) else
      if is_reclaim k && negb (queue_preemptive eps E s (j_queue j) p) then (s, V_NOT_PREEMPTIVE, []) else
      let '(s1, _, v, lg) := run_attempts k s tid (j_queue j) atts in
      if negb (v =? V_OK) then (s1, v, lg) else
      let '(s2, v2, lg2) := run_tasks k s1 jid r in (s2, v2, lg ++ lg2)
    | None, _ => (s, V_JOB, [])
    | _, None => (s, V_NO_TASK, [])
    end
  end.

(* oracle choices *)
Inductive choice :=
| CInter (jid : positive) (tasks : list (positive * list attempt))      (* preempt.go 178-230 *)
| CIntra (jid tid : positive) (atts : list attempt)                      (* preempt.go 253-287 *)
| CReclaim (first : bool) (jid : positive) (tasks : list (positive * list attempt)).  (* reclaim.go 128-170 *)

Definition job_gate (s : sess) (jid : positive) : option job :=
  match jobs s !! jid with
  | Some j => if bool_decide (jid ∈ e_jpending E) then None else Some j
  | None => None
  end.

(* commit iff JobPipelined, else discard; the records of a discarded statement are dropped *)
Definition close_job (s : sess) (jid : positive) (lg : list arec) : sess * list arec :=
  match jobs s !! jid with
  | Some j => if job_pipelined_now E s j then (stmt_commit eps s jsid, lg) else (stmt_discard eps s jsid, [])
  | None => (stmt_discard eps s jsid, [])
  end.

(* result: session, verdict, records of the attempts whose operations were committed *)
Definition step (s : sess) (c : choice) : sess * Z * list arec :=
  match c with
  | CInter jid tasks =>
    match job_gate s jid with
    | None => (s, V_JOB, [])
    | Some _ =>
      let '(s1, v, lg) := run_tasks AInter s jid tasks in
      let '(s2, lg2) := close_job s1 jid (filter a_ok lg) in (s2, v, lg2)
    end
  | CReclaim first jid tasks =>
    match job_gate s jid with
    | None => (s, V_JOB, [])
    | Some j =>
      if first && queue_overused eps E s (j_queue j) then (s, V_OVERUSED, []) else
      let '(s1, v, lg) := run_tasks AReclaim s jid tasks in
      let '(s2, lg2) := close_job s1 jid (filter a_ok lg) in (s2, v, lg2)
    end
  | CIntra jid tid atts =>
    match job_gate s jid, heap s !! tid with
    | Some j, Some p =>
      if negb (bool_decide (t_status p = Pending) && bool_decide (t_job p = jid)) then (s, V_NOT_PENDING, []) else
      let '(s1, ok, v, lg) := run_attempts AIntra s tid (j_queue j) atts in
      if ok then (stmt_commit eps s1 jsid, v, filter a_ok lg) else (stmt_discard eps s1 jsid, v, [])
    | None, _ => (s, V_JOB, [])
    | _, None => (s, V_NO_TASK, [])
    end
  end.

Fixpoint run (s : sess) (cs : list choice) : sess * list arec :=
  match cs with
  | [] => (s, [])
  | c :: r => let '(s1, _, lg) := step s c in let '(s2, lg2) := run s1 r in (s2, lg ++ lg2)
  end.

End Actions.
