(* C04 - entry points of the extracted model.
     1    a preempt / reclaim cycle: per-choice event stream + final session
     2    ssn.Preemptable / ssn.Reclaimable on a candidate list
     101+ laws on the implementation's results (Laws.v) *)
From V Require Import C11.Model.
From stdpp Require Import gmap.
From Coq Require Import ZArith List.
From V Require Import Base.Codec Base.Res Sched.LedgerModel Sched.StmtModel C04.Model C04.Codec C04.Laws.
Import ListNotations.
Open Scope Z_scope.

Definition entry (sel : Z) (toks : list Z) : list Z :=
  match sel with
  | 1 => match run_dec dCase toks with Some c => run_case c | None => bad_input end
  | 2 => match run_dec dVoteCase toks with Some c => run_vote c | None => bad_input end
  | 101 => match run_dec dLawIn toks with Some l => eBool (law_eligible l) | None => bad_input end
  | 102 => match run_dec dLawIn toks with Some l => eBool (law_placed l) | None => bad_input end
  | 103 => match run_dec dLawIn toks with Some l => eBool (law_plugins l) | None => bad_input end
  | 104 => match run_dec dLawIn toks with Some l => eBool (law_plugins_all l) | None => bad_input end
  | 105 => match run_dec dLawIn toks with Some l => eBool (law_job_pipelined l) | None => bad_input end
  | 106 => match run_dec dLawIn toks with Some l => eBool (law_refused l) | None => bad_input end
  | 107 => match run_dec dLawIn toks with Some l => eBool (law_guarantee l) | None => bad_input end
  | 108 => match run_dec dLawIn toks with Some l => eBool (law_gang_cycle l) | None => bad_input end
  | 109 => match run_dec dLawIn toks with Some l => eBool (law_drf_set l) | None => bad_input end
  | 110 => match run_dec dLawIn toks with Some l => eBool (law_decided_tier l) | None => bad_input end
  | _ => bad_input
  end.
