(* C04 - wire format of a preempt / reclaim cycle: cluster spec, plugin layout, what the harness
   read from the real proportion plugin, and the oracle choices reconstructed from the trace. *)
From V Require Import C11.Model.
From stdpp Require Import gmap.
From Coq Require Import ZArith List.
From V Require Import Base.Codec Base.Res Base.ResCodec Sched.LedgerModel Sched.StmtModel Sched.LedgerCodec
                      Sched.GangModel Sched.CycleModel Sched.CycleCodec Sched.LedgerInv C04.Model C04.Placed C04.PlacedRun.
Import ListNotations.
Open Scope Z_scope.

Record jx_spec := mkJx { jx_id : positive; jx_prio : Z; jx_sys : bool }.
Record tx_spec := mkTx { tx_id : positive; tx_class : Z }.
Record qr_spec := mkQr { qr_id : positive; qr_reclaim : Z }.       (* 0 nil, 1 true, 2 false *)
(* Queue.Spec.Guarantee.Resource and Queue.Spec.Deserved: cpu (milli) and memory (bytes), 0 = not set *)
Record qg_spec := mkQg { qg_id : positive; qg_gcpu : Z; qg_gmem : Z; qg_dcpu : Z; qg_dmem : Z }.
Record qlim_spec := mkQl { ql_id : positive; ql_dim : res; ql_hi : res; ql_lo : res }.
(* capacity's queue record as read from the real plugin: deserved, guarantee, realCapability (exact) *)
Record clim_spec := mkCl { cl_id : positive; cl_des : res; cl_guar : res; cl_real : res }.

(* list decoder that refuses a length the remaining tokens cannot hold (a stale or garbled input must
   answer bad_input, not build a huge unary number) *)
Definition dListS {A} (p : dec A) : dec (list A) :=
  fun l => match l with
           | [] => None
           | n :: r => if (n <? 0) || (Z.of_nat (length r) <? n) then None else dRep (Z.to_nat n) p r
           end.

Definition dKind : dec pkind :=
  let* k := dZ in
  match k with 1 => ret KGang | 2 => ret KPrio | 3 => ret KConf | 4 => ret KProp | 5 => ret KCap | 6 => ret KDrf | _ => fail end.
Definition dPlug : dec plug := let* k := dKind in let* a := dBool in let* b := dBool in ret (mkPlug k a b).

Definition dJobPh : dec (job_spec * Z) :=
  let* i := dPos in let* q := dPos in let* m := dZ in let* rm := dListS (dPair dPos dZ) in let* ph := dZ in
  ret (mkJobSpec i q m rm, ph).

Record spec := mkSpec {
  sp_eps : Z; sp_nodes : list node_spec; sp_queues : list queue_spec; sp_jobs : list (job_spec * Z);
  sp_tasks : list task_spec; sp_jx : list jx_spec; sp_tx : list tx_spec; sp_qr : list qr_spec;
  sp_qg : list qg_spec;
  sp_tiers : list (list plug); sp_actions : list Z;
  sp_faults : list (positive * positive);   (* (task, node): the allocate handler reports Event.Err *)
  sp_refuse : list positive }.              (* cache.Evict refuses these tasks *)

Definition dSpec : dec spec :=
  let* e := dZ in let* ns := dListS dNodeSpec in let* qs := dListS dQueueSpec in let* js := dListS dJobPh in
  let* ts := dListS dTaskSpec in
  let* jx := dListS (let* i := dPos in let* p := dZ in let* s := dBool in ret (mkJx i p s)) in
  let* tx := dListS (let* i := dPos in let* c := dZ in ret (mkTx i c)) in
  let* qr := dListS (let* i := dPos in let* r := dZ in ret (mkQr i r)) in
  let* qg := dListS (let* i := dPos in let* a := dZ in let* b := dZ in let* c := dZ in let* d := dZ in ret (mkQg i a b c d)) in
  let* tiers := dListS (dListS dPlug) in
  let* acts := dListS dZ in
  let* fl := dListS (dPair dPos dPos) in
  let* rf := dListS dPos in
  ret (mkSpec e ns qs js ts jx tx qr qg tiers acts fl rf).

Definition dQlim : dec qlim_spec :=
  let* i := dPos in let* a := dRes in let* b := dRes in let* c := dRes in ret (mkQl i a b c).

Definition dClim : dec clim_spec :=
  let* i := dPos in let* a := dRes in let* b := dRes in let* c := dRes in ret (mkCl i a b c).

Definition dAttempt : dec attempt :=
  let* n := dPos in let* cs := dListS dPos in let* o := dListS dPos in let* qo := dListS dPos in let* tp := dBool in ret (mkAtt n cs o qo tp).
Definition dTaskAtt : dec (positive * list attempt) := dPair dPos (dListS dAttempt).
Definition dChoice : dec choice :=
  let* k := dZ in
  match k with
  | 1 => let* j := dPos in let* ts := dListS dTaskAtt in ret (CInter j ts)
  | 2 => let* j := dPos in let* t := dPos in let* a := dListS dAttempt in ret (CIntra j t a)
  | 3 => let* f := dBool in let* j := dPos in let* ts := dListS dTaskAtt in ret (CReclaim f j ts)
  | _ => fail
  end.

Record c04_case := mkCase { cs_spec : spec; cs_lims : list qlim_spec; cs_clims : list clim_spec; cs_choices : list choice }.
Definition dCase : dec c04_case :=
  let* sp := dSpec in let* l := dListS dQlim in let* cl := dListS dClim in let* c := dListS dChoice in ret (mkCase sp l cl c).

Definition job_sys (sp : spec) (j : positive) : bool :=
  existsb (fun x => bool_decide (jx_id x = j) && jx_sys x) (sp_jx sp).

Definition env_of (sp : spec) (lims : list qlim_spec) (clims : list clim_spec) : env :=
  let lm : gmap positive qlim_spec := list_to_map (map (fun l => (ql_id l, l)) lims) in
  let cm : gmap positive clim_spec := list_to_map (map (fun l => (cl_id l, l)) clims) in
  let qr : gmap positive Z := list_to_map (map (fun q => (qr_id q, qr_reclaim q)) (sp_qr sp)) in
  mkEnv (sp_tiers sp)
        (list_to_map (map (fun x => (jx_id x, jx_prio x)) (sp_jx sp)))
        (list_to_set (map (fun jp => js_id (fst jp)) (filter (fun jp => snd jp =? 1) (sp_jobs sp))))
        (list_to_set (map ts_id (filter (fun t =>
            existsb (fun x => bool_decide (tx_id x = ts_id t) && negb (tx_class x =? 0)) (sp_tx sp) ||
            job_sys sp (ts_job t)) (sp_tasks sp))))
        (list_to_map (map (fun q =>
            (qs_id q,
             let rc := negb (default 0 (qr !! qs_id q) =? 2) in
             let '(ck, cd, cg, cr) :=
               match cm !! qs_id q with
               | Some c => (true, cl_des c, cl_guar c, cl_real c)
               | None => (false, empty_res, empty_res, empty_res)
               end in
             match lm !! qs_id q with
             | Some l => mkQx (qs_open q) rc true (ql_dim l) (ql_hi l) (ql_lo l) ck cd cg cr
             | None => mkQx (qs_open q) rc false empty_res empty_res empty_res ck cd cg cr
             end)) (sp_queues sp)))
        (sp_faults sp) [].

Definition sess_of (sp : spec) : sess :=
  upd_faults (build (sp_eps sp) (sp_nodes sp) (map fst (sp_jobs sp)) (sp_tasks sp))
             ∅ ∅ (list_to_set (sp_refuse sp)) true.

Definition ledgers_okb (s : sess) : bool :=
  ledger_okb (heap s) (jobs s) (nodes s) &&
  forallb (fun jid =>
     res_eqvb (default empty_res (hshare s !! jid))
              (sum_req (filter (fun t => bool_decide (t_job t = jid) && allocated_status (t_status t))
                               (map snd (map_to_list (heap s))))))
          (elements (dom (jobs s) ∪ dom (hshare s))).

(* per-choice observables: verdict, handler calls in order, evictor calls (sorted) *)
Definition eStep (s s' : sess) (v : Z) : list Z :=
  [-101; v] ++
  eList (fun e : hev => [if he_alloc e then 1 else 0; Zpos (he_task e); Zpos (skey (he_status e))] ++ eNodeRef (he_node e))
        (rev (new_prefix (hlog s') (hlog s))) ++
  eList (fun b : positive * option positive => Zpos (fst b) :: eNodeRef (snd b))
        (sort_kv (new_prefix (binds s') (binds s))) ++
  eList ePos (sort_pos (new_prefix (evicts s') (evicts s))).

Fixpoint run_choices (eps : Z) (E : env) (s : sess) (cs : list choice) : list Z * sess :=
  match cs with
  | [] => ([], s)
  | c :: r =>
    let '(s', v, _) := step eps E s c in
    let '(out, sf) := run_choices eps E s' r in
    (eStep s s' v ++ out, sf)
  end.

Definition run_case (c : c04_case) : list Z :=
  let sp := cs_spec c in
  let '(out, sf) := run_choices (sp_eps sp) (env_of sp (cs_lims c) (cs_clims c)) (sess_of sp) (cs_choices c) in
  (* -104: the well-formedness hypothesis of the final-session theorems, checked on the session the case starts from *)
  out ++ [-102] ++ eFinal sf ++ [-104] ++ eBool (wfb (sess_of sp)) ++
  (* -105: the ledgers the votes read ARE sums over the pods in the session the case starts from: status index =
     the tasks' statuses, job / node ledgers = sums of requests (Sched.LedgerInv.ledger_okb), and the handler
     ledger of every job = the requests of its tasks in an AllocatedStatus *)
  [-105] ++ eBool (ledgers_okb (sess_of sp)).

(* ---- the vote alone: ssn.Preemptable / ssn.Reclaimable on an arbitrary candidate list ---- *)
Record vote_case := mkVC { vc_spec : spec; vc_lims : list qlim_spec; vc_clims : list clim_spec; vc_reclaim : bool;
                           vc_preemptor : positive; vc_cands : list positive; vc_qorder : list positive }.
Definition dVoteCase : dec vote_case :=
  let* sp := dSpec in let* r := dBool in let* p := dPos in let* cs := dListS dPos in let* l := dListS dQlim in
  let* cl := dListS dClim in let* qo := dListS dPos in
  ret (mkVC sp l cl r p cs qo).

Definition run_vote (c : vote_case) : list Z :=
  let sp := vc_spec c in
  let s := sess_of sp in
  let E := with_qorder (env_of sp (vc_lims c) (vc_clims c)) (vc_qorder c) in
  match heap s !! vc_preemptor c with
  | None => bad_input
  | Some p =>
    let cands := omap (fun i => heap s !! i) (vc_cands c) in
    let k := if vc_reclaim c then AReclaim else AInter in
    [-103] ++ eList ePos (sort_pos (map t_id (victims (sp_eps sp) E k s p cands)))
  end.
