(* C04 - wire format of a preempt / reclaim cycle: cluster spec, plugin layout, what the harness
   read from the real proportion plugin, and the oracle choices reconstructed from the trace. *)
From V Require Import C11.Model.
From stdpp Require Import gmap.
From Coq Require Import ZArith List.
From V Require Import Base.Codec Base.Res Base.ResCodec Sched.LedgerModel Sched.StmtModel Sched.LedgerCodec
                      Sched.GangModel Sched.CycleModel Sched.CycleCodec C04.Model.
Import ListNotations.
Open Scope Z_scope.

Record jx_spec := mkJx { jx_id : positive; jx_prio : Z; jx_sys : bool }.
Record tx_spec := mkTx { tx_id : positive; tx_class : Z }.
Record qr_spec := mkQr { qr_id : positive; qr_reclaim : Z }.       (* 0 nil, 1 true, 2 false *)
Record qlim_spec := mkQl { ql_id : positive; ql_dim : res; ql_hi : res; ql_lo : res }.

Definition dKind : dec pkind :=
  let* k := dZ in
  match k with 1 => ret KGang | 2 => ret KPrio | 3 => ret KConf | 4 => ret KProp | _ => fail end.
Definition dPlug : dec plug := let* k := dKind in let* a := dBool in let* b := dBool in ret (mkPlug k a b).

Definition dJobPh : dec (job_spec * Z) := let* j := dJobSpec in let* ph := dZ in ret (j, ph).

Record spec := mkSpec {
  sp_eps : Z; sp_nodes : list node_spec; sp_queues : list queue_spec; sp_jobs : list (job_spec * Z);
  sp_tasks : list task_spec; sp_jx : list jx_spec; sp_tx : list tx_spec; sp_qr : list qr_spec;
  sp_tiers : list (list plug); sp_actions : list Z;
  sp_faults : list (positive * positive);   (* (task, node): the allocate handler reports Event.Err *)
  sp_refuse : list positive }.              (* cache.Evict refuses these tasks *)

Definition dSpec : dec spec :=
  let* e := dZ in let* ns := dList dNodeSpec in let* qs := dList dQueueSpec in let* js := dList dJobPh in
  let* ts := dList dTaskSpec in
  let* jx := dList (let* i := dPos in let* p := dZ in let* s := dBool in ret (mkJx i p s)) in
  let* tx := dList (let* i := dPos in let* c := dZ in ret (mkTx i c)) in
  let* qr := dList (let* i := dPos in let* r := dZ in ret (mkQr i r)) in
  let* tiers := dList (dList dPlug) in
  let* acts := dList dZ in
  let* fl := dList (dPair dPos dPos) in
  let* rf := dList dPos in
  ret (mkSpec e ns qs js ts jx tx qr tiers acts fl rf).

Definition dQlim : dec qlim_spec :=
  let* i := dPos in let* a := dRes in let* b := dRes in let* c := dRes in ret (mkQl i a b c).

Definition dAttempt : dec attempt :=
  let* n := dPos in let* cs := dList dPos in let* o := dList dPos in ret (mkAtt n cs o).
Definition dTaskAtt : dec (positive * list attempt) := dPair dPos (dList dAttempt).
Definition dChoice : dec choice :=
  let* k := dZ in
  match k with
  | 1 => let* j := dPos in let* ts := dList dTaskAtt in ret (CInter j ts)
  | 2 => let* j := dPos in let* t := dPos in let* a := dList dAttempt in ret (CIntra j t a)
  | 3 => let* f := dBool in let* j := dPos in let* ts := dList dTaskAtt in ret (CReclaim f j ts)
  | _ => fail
  end.

Record c04_case := mkCase { cs_spec : spec; cs_lims : list qlim_spec; cs_choices : list choice }.
Definition dCase : dec c04_case :=
  let* sp := dSpec in let* l := dList dQlim in let* c := dList dChoice in ret (mkCase sp l c).

Definition job_sys (sp : spec) (j : positive) : bool :=
  existsb (fun x => bool_decide (jx_id x = j) && jx_sys x) (sp_jx sp).

Definition env_of (sp : spec) (lims : list qlim_spec) : env :=
  let lm : gmap positive qlim_spec := list_to_map (map (fun l => (ql_id l, l)) lims) in
  let qr : gmap positive Z := list_to_map (map (fun q => (qr_id q, qr_reclaim q)) (sp_qr sp)) in
  mkEnv (sp_tiers sp)
        (list_to_map (map (fun x => (jx_id x, jx_prio x)) (sp_jx sp)))
        (list_to_set (map (fun jp => js_id (fst jp)) (filter (fun jp => snd jp =? 1) (sp_jobs sp))))
        (list_to_set (map ts_id (filter (fun t =>
            existsb (fun x => bool_decide (tx_id x = ts_id t) && negb (tx_class x =? 0)) (sp_tx sp) ||
            job_sys sp (ts_job t)) (sp_tasks sp))))
        (list_to_map (map (fun q =>
            (qs_id q,
             let rc := negb (default 0 (qr !! qs_id q) =? 2) in
             match lm !! qs_id q with
             | Some l => mkQx (qs_open q) rc true (ql_dim l) (ql_hi l) (ql_lo l)
             | None => mkQx (qs_open q) rc false empty_res empty_res empty_res
             end)) (sp_queues sp)))
        (sp_faults sp).

Definition sess_of (sp : spec) : sess :=
  upd_faults (build (sp_eps sp) (sp_nodes sp) (map fst (sp_jobs sp)) (sp_tasks sp))
             ∅ ∅ (list_to_set (sp_refuse sp)) true.

(* per-choice observables: verdict, handler calls in order, evictor calls (sorted) *)
Definition eStep (s s' : sess) (v : Z) : list Z :=
  [-101; v] ++
  eList (fun e : hev => [if he_alloc e then 1 else 0; Zpos (he_task e); Zpos (skey (he_status e))] ++ eNodeRef (he_node e))
        (rev (new_prefix (hlog s') (hlog s))) ++
  eList (fun b : positive * option positive => Zpos (fst b) :: eNodeRef (snd b))
        (sort_kv (new_prefix (binds s') (binds s))) ++
  eList ePos (sort_pos (new_prefix (evicts s') (evicts s))).

Fixpoint run_choices (eps : Z) (E : env) (s : sess) (cs : list choice) : list Z * sess :=
  match cs with
  | [] => ([], s)
  | c :: r =>
    let '(s', v, _) := step eps E s c in
    let '(out, sf) := run_choices eps E s' r in
    (eStep s s' v ++ out, sf)
  end.

Definition run_case (c : c04_case) : list Z :=
  let sp := cs_spec c in
  let '(out, sf) := run_choices (sp_eps sp) (env_of sp (cs_lims c)) (sess_of sp) (cs_choices c) in
  out ++ [-102] ++ eFinal sf.

(* ---- the vote alone: ssn.Preemptable / ssn.Reclaimable on an arbitrary candidate list ---- *)
Record vote_case := mkVC { vc_spec : spec; vc_lims : list qlim_spec; vc_reclaim : bool;
                           vc_preemptor : positive; vc_cands : list positive }.
Definition dVoteCase : dec vote_case :=
  let* sp := dSpec in let* r := dBool in let* p := dPos in let* cs := dList dPos in let* l := dList dQlim in
  ret (mkVC sp l r p cs).

Definition run_vote (c : vote_case) : list Z :=
  let sp := vc_spec c in
  let s := sess_of sp in
  let E := env_of sp (vc_lims c) in
  match heap s !! vc_preemptor c with
  | None => bad_input
  | Some p =>
    let cands := omap (fun i => heap s !! i) (vc_cands c) in
    let k := if vc_reclaim c then AReclaim else AInter in
    [-103] ++ eList ePos (sort_pos (map t_id (victims (sp_eps sp) E k s p cands)))
  end.
