(* C04 - the capacity plugin's ReclaimableFn (capacity.go 459-603, flat queues): for every reclaimer,
   every candidate list in every pop order and all queue records, the victims it returns leave every
   victim queue at or above its guarantee, and each victim was taken while the queue's running
   allocation was above deserved AS THE CODE DEFINES IT (see cap_taken_ok for the exact predicate). *)
From V Require Import C11.Model.
From stdpp Require Import gmap.
From Coq Require Import ZArith Lia.
From V Require Import Base.Res Sched.LedgerModel Sched.StmtModel Sched.GangModel C04.Model C04.VoteLemmas.
Open Scope Z_scope.

Section WithEps.
Variable eps : Z.
Variable E : env.

(* the predicate under which the code takes a victim from a queue whose running allocation is [a] *)
Definition cap_takes (q : qx) (p c : task) (a : res) : Prop :=
  qx_cap_known q = true /\
  (* the victim shares a non-ignored resource name with the reclaimer's request *)
  intersects eps true (t_req c) (t_init p) = true /\
  (* guarantee <= allocated - victim, in every dimension of the guarantee (Resource.LessEqual, Zero) *)
  less_equal eps (qx_cap_guar q) (sub a (t_req c)) DZero = true /\
  (* "above deserved": the victim requests no resource the deserved vector holds (immediate victim), or
     allocated > deserved in SOME dimension that the victim requests and deserved holds *)
  (intersects eps false (t_req c) (qx_cap_des q) = false \/ gp_rel eps a (qx_cap_des q) (t_req c) = true).

Lemma cap_taken_ok s p : forall l al c a,
  (c, a) ∈ cap_go_tr eps E s p al l ->
  exists j q, jobs s !! t_job c = Some j /\ e_queues E !! j_queue j = Some q /\ cap_takes q p c a.
Proof.
  induction l as [|c0 r IH]; intros al c a; simpl; [intros H; inversion H|].
  destruct (jobs s !! t_job c0) as [j|] eqn:Hj; [|apply IH].
  destruct (e_queues E !! j_queue j) as [q|] eqn:Hq; [|apply IH].
  destruct (negb (qx_cap_known q)) eqn:Hk; [apply IH|].
  destruct (negb (intersects eps true (t_req c0) (t_init p))) eqn:Hi; [apply IH|].
  destruct (negb (less_equal eps (qx_cap_guar q) _ DZero)) eqn:Hg; [apply IH|].
  destruct (negb (intersects eps false (t_req c0) (qx_cap_des q)) || gp_rel eps _ (qx_cap_des q) (t_req c0)) eqn:Hd;
    [|apply IH].
  intros H. apply elem_of_cons in H as [[= -> ->]|H]; [|eapply IH, H].
  exists j, q. split; [exact Hj|]. split; [exact Hq|].
  apply negb_false_iff in Hk, Hi, Hg. split; [exact Hk|]. split; [exact Hi|]. split; [exact Hg|].
  apply orb_true_iff in Hd as [Hd|Hd]; [left; apply negb_true_iff, Hd|right; exact Hd].
Qed.

Lemma default_insert_same (al : gmap positive res) (d : res) (q q' : positive) :
  default d (<[q := default d (al !! q)]> al !! q') = default d (al !! q').
Proof.
  destruct (decide (q' = q)) as [->|Hne]; [rewrite lookup_insert|rewrite lookup_insert_ne by auto]; reflexivity.
Qed.

Lemma queue_victims_cons s qid c l :
  queue_victims s qid (c :: l) =
  if decide (cand_queue s c = Some qid) then c :: queue_victims s qid l else queue_victims s qid l.
Proof. unfold queue_victims. rewrite filter_cons. reflexivity. Qed.

(* the allocation a victim was judged with = the queue's allocation at the start of the call minus the
   victims of the same queue taken before it *)
Lemma cap_tr_alloc s p qid : forall l al tr1 c a tr2,
  cap_go_tr eps E s p al l = tr1 ++ (c, a) :: tr2 -> cand_queue s c = Some qid ->
  a = sub_reqs (default (share_of s qid) (al !! qid)) (queue_victims s qid (map fst tr1)).
Proof.
  induction l as [|c0 r IH]; intros al tr1 c a tr2; simpl.
  - intros H. destruct tr1; discriminate.
  - destruct (jobs s !! t_job c0) as [j|] eqn:Hj; [|apply IH].
    destruct (e_queues E !! j_queue j) as [q|]; [|apply IH].
    destruct (negb (qx_cap_known q)); [apply IH|].
    destruct (negb (intersects eps true (t_req c0) (t_init p))); [apply IH|].
    set (a0 := default (share_of s (j_queue j)) (al !! j_queue j)).
    assert (Hskip : cap_go_tr eps E s p (<[j_queue j := a0]> al) r = tr1 ++ (c, a) :: tr2 ->
                    cand_queue s c = Some qid ->
                    a = sub_reqs (default (share_of s qid) (al !! qid)) (queue_victims s qid (map fst tr1))).
    { intros H Hc. rewrite (IH _ _ _ _ _ H Hc). f_equal.
      destruct (decide (qid = j_queue j)) as [->|Hne]; [rewrite lookup_insert; reflexivity|].
      rewrite lookup_insert_ne by auto. reflexivity. }
    destruct (negb (less_equal eps (qx_cap_guar q) _ DZero)); [exact Hskip|].
    destruct (_ || _); [|exact Hskip].
    intros H Hc. destruct tr1 as [|[c1 a1] tr1]; simpl in H.
    + injection H as Hc0 Ha _. subst c0. rewrite <- Ha. unfold a0. simpl.
      unfold cand_queue in Hc. rewrite Hj in Hc. simpl in Hc. injection Hc as <-. reflexivity.
    + injection H as Hc0 Ha H. subst c0. rewrite <- Ha. clear Ha.
      assert (Hcq : cand_queue s c1 = Some (j_queue j)) by (unfold cand_queue; rewrite Hj; reflexivity).
      rewrite (IH _ _ _ _ _ H Hc). simpl. rewrite queue_victims_cons.
      destruct (decide (cand_queue s c1 = Some qid)) as [Hd|Hd].
      * rewrite Hcq in Hd. injection Hd as <-. rewrite lookup_insert. reflexivity.
      * rewrite lookup_insert_ne by (intros Heq; apply Hd; rewrite Hcq, Heq; reflexivity). reflexivity.
Qed.

(* MAIN (capacity): after ALL victims of the call are gone, every queue that lost a victim still holds its
   guarantee: guarantee <= allocated - sum of its victims *)
Lemma cap_go_keeps_guarantee s p qid q : e_queues E !! qid = Some q -> forall l al,
  queue_victims s qid (cap_go eps E s p al l) <> [] ->
  less_equal eps (qx_cap_guar q)
    (sub_reqs (default (share_of s qid) (al !! qid)) (queue_victims s qid (cap_go eps E s p al l))) DZero = true.
Proof.
  intros Hq. unfold cap_go. induction l as [|c0 r IH]; intros al; simpl; [intros H; contradiction|].
  destruct (jobs s !! t_job c0) as [j|] eqn:Hj; [|apply IH].
  destruct (e_queues E !! j_queue j) as [q0|] eqn:Hq0; [|apply IH].
  destruct (negb (qx_cap_known q0)); [apply IH|].
  destruct (negb (intersects eps true (t_req c0) (t_init p))); [apply IH|].
  set (a0 := default (share_of s (j_queue j)) (al !! j_queue j)).
  assert (Hskip : queue_victims s qid (map fst (cap_go_tr eps E s p (<[j_queue j := a0]> al) r)) <> [] ->
     less_equal eps (qx_cap_guar q)
       (sub_reqs (default (share_of s qid) (al !! qid))
          (queue_victims s qid (map fst (cap_go_tr eps E s p (<[j_queue j := a0]> al) r)))) DZero = true).
  { intros H. specialize (IH _ H). revert IH.
    destruct (decide (qid = j_queue j)) as [->|Hne]; [rewrite lookup_insert; auto|].
    rewrite lookup_insert_ne by auto. auto. }
  destruct (negb (less_equal eps (qx_cap_guar q0) (sub a0 (t_req c0)) DZero)) eqn:Hg; [exact Hskip|].
  destruct (_ || _); [|exact Hskip].
  assert (Hcq : cand_queue s c0 = Some (j_queue j)) by (unfold cand_queue; rewrite Hj; reflexivity).
  simpl. rewrite queue_victims_cons.
  destruct (decide (cand_queue s c0 = Some qid)) as [Hd|Hd].
  - rewrite Hcq in Hd. injection Hd as <-. intros _. simpl. rewrite Hq in Hq0. injection Hq0 as <-.
    apply negb_false_iff in Hg.
    specialize (IH (<[j_queue j := sub a0 (t_req c0)]> al)). rewrite lookup_insert in IH. simpl in IH.
    destruct (queue_victims s (j_queue j) (map fst (cap_go_tr eps E s p (<[j_queue j:=sub a0 (t_req c0)]> al) r))) as [|v vs] eqn:Hv.
    + simpl. exact Hg.
    + apply IH. discriminate.
  - intros H. specialize (IH _ H).
    rewrite lookup_insert_ne in IH by (intros Heq; apply Hd; rewrite Hcq, Heq; reflexivity). exact IH.
Qed.

Theorem cap_vote_keeps_guarantee s p l qid q :
  e_queues E !! qid = Some q ->
  queue_victims s qid (cap_vote eps E s p l) <> [] ->
  less_equal eps (qx_cap_guar q)
    (sub_reqs (share_of s qid) (queue_victims s qid (cap_vote eps E s p l))) DZero = true.
Proof.
  intros Hq. unfold cap_vote. destruct (cap_reclaimer_ok E s p); [|intros H; contradiction].
  intros H. apply (cap_go_keeps_guarantee s p qid q Hq _ ∅) in H. rewrite lookup_empty in H. exact H.
Qed.

(* every victim of the vote was taken under [cap_takes], with the queue's allocation at the start of the
   call minus the same queue's victims popped before it *)
Theorem cap_vote_victim_taken s p l c :
  c ∈ cap_vote eps E s p l ->
  exists j q before,
    jobs s !! t_job c = Some j /\ e_queues E !! j_queue j = Some q /\
    (forall b, b ∈ before -> b ∈ cap_vote eps E s p l) /\
    cap_takes q p c (sub_reqs (share_of s (j_queue j)) (queue_victims s (j_queue j) before)).
Proof.
  unfold cap_vote, cap_go. destruct (cap_reclaimer_ok E s p); [|intros H; inversion H].
  set (l' := omap (find_task l) (e_qorder E)).
  intros H. apply elem_of_list_fmap in H as ([c' a] & -> & H). simpl.
  destruct (cap_taken_ok s p _ _ _ _ H) as (j & q & Hj & Hq & Ht).
  apply elem_of_list_split in H as (tr1 & tr2 & Htr).
  exists j, q, (map fst tr1). split; [exact Hj|]. split; [exact Hq|]. split.
  - intros b Hb. rewrite Htr, map_app. apply elem_of_app. left. exact Hb.
  - assert (Hc : cand_queue s c' = Some (j_queue j)) by (unfold cand_queue; rewrite Hj; reflexivity).
    pose proof (cap_tr_alloc s p (j_queue j) _ _ _ _ _ _ Htr Hc) as Ha. rewrite lookup_empty in Ha. simpl in Ha.
    rewrite <- Ha. exact Ht.
Qed.

End WithEps.

(* ---- the gap to the property text ("its queue is above its deserved share") ----
   The code's predicate is weaker: above deserved in SOME dimension relevant to the victim is enough.
   Queue q1: deserved cpu 4000 / mem 1000, allocated cpu 1000 / mem 2000 (far BELOW deserved in cpu, above
   in memory), no guarantee: a pod requesting cpu 500 / mem 500 is returned as victim. *)
Section Gap.
  Let g (c m : Z) : res := mkRes (c * 16) (m * 16) None.
  Let victim : task :=
    mkTask 11 1 1 1 0 (g 500 500) (g 500 500) false true Running (Some 1%positive).
  Let reclaimer : task :=
    mkTask 21 2 1 1 0 (g 500 500) (g 500 500) false true Pending None.
  Let jb (i q : positive) : job := mkJob i q 0 ∅ 0 ∅ ∅ empty_res empty_res ∅ ∅.
  Let s0 : sess :=
    mkSess ∅ {[1%positive := jb 1 1; 2%positive := jb 2 2]} ∅ {[1%positive := g 1000 2000]} [] ∅ ∅ ∅ [] [] ∅ ∅ true.
  Let qrec (d : res) : qx := mkQx true true false empty_res empty_res empty_res true d empty_res (g 100000 100000).
  Let E0 : env :=
    mkEnv [[mkPlug KCap true true]] ∅ ∅ ∅ {[1%positive := qrec (g 4000 1000); 2%positive := qrec (g 4000 4000)]} [] [11%positive].

  Theorem above_deserved_in_every_dimension_refuted :
    exists eps E s p l c j q,
      c ∈ cap_vote eps E s p l /\ jobs s !! t_job c = Some j /\ e_queues E !! j_queue j = Some q /\
      cpu (share_of s (j_queue j)) < cpu (qx_cap_des q).
  Proof.
    exists 2, E0, s0, reclaimer, [victim], victim, (jb 1 1), (qrec (g 4000 1000)).
    split; [vm_compute; left|]. split; [reflexivity|]. split; [reflexivity|]. vm_compute. reflexivity.
  Qed.
End Gap.
