(* C04 - what the Statement operations of Sched/StmtModel.v do to the evictor log, to the
   statements' operation lists and to the heap invariant [heap_ok].  Everything the action
   theorems need about the shared session model is proved here, for every session. *)
From stdpp Require Import gmap.
From Coq Require Import ZArith.
From V Require Import Base.Res Sched.LedgerModel Sched.StmtModel.
Open Scope Z_scope.

Definition ops (s : sess) (sid : positive) : list oprec := default [] (stmts s !! sid).

(* the heap is keyed by task id *)
Definition heap_ok (s : sess) : Prop := forall i p, heap s !! i = Some p -> t_id p = i.

(* [s'] differs from [s] only in the ledgers (heap, jobs, nodes, handler ledger and log) *)
Definition same_ctl (s s' : sess) : Prop :=
  evicts s' = evicts s /\ stmts s' = stmts s /\ refuse_evict s' = refuse_evict s /\
  (heap_ok s -> heap_ok s').

Lemma same_ctl_refl s : same_ctl s s.
Proof. repeat split; auto. Qed.

Lemma same_ctl_trans s1 s2 s3 : same_ctl s1 s2 -> same_ctl s2 s3 -> same_ctl s1 s3.
Proof.
  intros (a1 & a2 & a3 & a4) (b1 & b2 & b3 & b4). repeat split; try congruence. auto.
Qed.

Lemma put_task_ctl s t : same_ctl s (put_task s t).
Proof.
  repeat split; auto. intros H i p. unfold put_task; simpl.
  destruct (decide (i = t_id t)) as [->|Hne].
  - rewrite lookup_insert. intros [= <-]. reflexivity.
  - rewrite lookup_insert_ne by auto. apply H.
Qed.

Lemma upd_jobs_ctl s j : same_ctl s (upd_jobs s j).
Proof. repeat split; auto. Qed.
Lemma upd_nodes_ctl s n : same_ctl s (upd_nodes s n).
Proof. repeat split; auto. Qed.
Lemma upd_handlers_ctl s a b : same_ctl s (upd_handlers s a b).
Proof. repeat split; auto. Qed.

Section WithEps.
Variable eps : Z.

Lemma ssn_update_status_ctl s p st : same_ctl s (snd (fst (ssn_update_status s p st))).
Proof.
  unfold ssn_update_status. destruct (jobs s !! t_job p); [|apply same_ctl_refl].
  destruct (job_update (heap s) j p st) as [j' p']. simpl.
  eapply same_ctl_trans; [apply upd_jobs_ctl | apply put_task_ctl].
Qed.

Lemma h_alloc_ctl s p : same_ctl s (snd (h_alloc s p)).
Proof. unfold h_alloc. simpl. apply upd_handlers_ctl. Qed.
Lemma h_dealloc_ctl s p : same_ctl s (h_dealloc s p).
Proof. unfold h_dealloc. apply upd_handlers_ctl. Qed.

Lemma ssn_node_remove_ctl s p : same_ctl s (ssn_node_remove s p).
Proof.
  unfold ssn_node_remove. destruct (t_node p); [|apply same_ctl_refl].
  destruct (nodes s !! p0); [apply upd_nodes_ctl | apply same_ctl_refl].
Qed.

Lemma ssn_node_update_ctl s p : same_ctl s (fst (fst (ssn_node_update eps s p))).
Proof.
  unfold ssn_node_update. destruct (t_node p); [|apply same_ctl_refl].
  destruct (nodes s !! p0); [|apply same_ctl_refl].
  destruct (node_update eps n p) as [[n' p']|]; simpl.
  - eapply same_ctl_trans; [apply upd_nodes_ctl | apply put_task_ctl].
  - apply upd_nodes_ctl.
Qed.

Lemma unallocate_with_ctl s p : same_ctl s (unallocate_with s p).
Proof.
  unfold unallocate_with.
  pose proof (ssn_update_status_ctl s p Pending) as H1.
  destruct (ssn_update_status s p Pending) as [[f s1] p1]. simpl in H1.
  eapply same_ctl_trans; [exact H1|].
  eapply same_ctl_trans; [apply ssn_node_remove_ctl|].
  eapply same_ctl_trans; [apply h_dealloc_ctl|]. apply put_task_ctl.
Qed.

Lemma unevict_with_ctl s p prev : same_ctl s (fst (unevict_with eps s p prev)).
Proof.
  unfold unevict_with.
  pose proof (ssn_update_status_ctl s p (restore_status prev)) as H1.
  destruct (ssn_update_status s p (restore_status prev)) as [[f s1] p1]. simpl in H1.
  pose proof (ssn_node_update_ctl s1 p1) as H2.
  destruct (ssn_node_update eps s1 p1) as [[s2 p2] fatal]. simpl in H2.
  pose proof (h_alloc_ctl s2 p2) as H3.
  destruct (h_alloc s2 p2) as [e s3]. simpl in *.
  eapply same_ctl_trans; [exact H1|]. eapply same_ctl_trans; [exact H2|]. exact H3.
Qed.

Lemma push_op_spec s sid k tid prev :
  evicts (push_op s sid k tid prev) = evicts s /\
  refuse_evict (push_op s sid k tid prev) = refuse_evict s /\
  stmts (push_op s sid k tid prev) = <[sid := ops s sid ++ [mkOp k tid prev]]> (stmts s) /\
  (heap_ok s -> heap_ok (push_op s sid k tid prev)).
Proof. repeat split; auto. Qed.

(* Statement.Evict: one more Evict operation on [sid]; nothing reaches the evictor *)
Lemma stmt_evict_with_spec s sid c prev s' r :
  stmt_evict_with eps s sid c prev = (s', r) ->
  evicts s' = evicts s /\ refuse_evict s' = refuse_evict s /\
  stmts s' = <[sid := ops s sid ++ [mkOp KEvict (t_id c) (default (t_status c) prev)]]> (stmts s) /\
  (heap_ok s -> heap_ok s').
Proof.
  unfold stmt_evict_with.
  pose proof (ssn_update_status_ctl s c Releasing) as H1.
  destruct (ssn_update_status s c Releasing) as [[f s1] p1]. simpl in H1.
  pose proof (ssn_node_update_ctl s1 p1) as H2.
  destruct (ssn_node_update eps s1 p1) as [[s2 p2] fatal]. simpl in H2.
  pose proof (h_dealloc_ctl s2 p2) as H3.
  intros [= <- <-].
  destruct (same_ctl_trans _ _ _ H1 (same_ctl_trans _ _ _ H2 H3)) as (e1 & e2 & e3 & e4).
  destruct (push_op_spec (h_dealloc s2 p2) sid KEvict (t_id c) (default (t_status c) prev)) as (q1 & q2 & q3 & q4).
  split; [congruence|]. split; [congruence|]. split; [|auto].
  rewrite q3. unfold ops. rewrite e2. reflexivity.
Qed.

(* Statement.Pipeline / Allocate: an operation is recorded iff the call succeeded *)
Lemma place_with_spec s sid k p nid s' r :
  place_with eps s sid k p nid = (s', r) ->
  evicts s' = evicts s /\ refuse_evict s' = refuse_evict s /\ (heap_ok s -> heap_ok s') /\
  (r = ROk -> stmts s' = <[sid := ops s sid ++ [mkOp k (t_id p) Pending]]> (stmts s)) /\
  (r <> ROk -> stmts s' = stmts s).
Proof.
  unfold place_with.
  set (st := match k with KAllocate => Allocated | _ => Pipelined end).
  pose proof (ssn_update_status_ctl s p st) as H1.
  destruct (ssn_update_status s p st) as [[f s1] p1]. simpl in H1.
  pose proof (put_task_ctl s1 (set_node p1 (Some nid))) as H2.
  set (s2 := put_task s1 (set_node p1 (Some nid))) in *.
  set (p2 := set_node p1 (Some nid)) in *.
  assert (H3 : forall x, x = match nodes s2 !! nid with
             | Some n => match node_add eps n p2 with
                         | inl (n', p') => (put_task (upd_nodes s2 (<[nid:=n']> (nodes s2))) p', p', true)
                         | inr _ => (s2, p2, false) end
             | None => (s2, p2, false) end -> same_ctl s2 (fst (fst x))).
  { intros x ->. destruct (nodes s2 !! nid); [|apply same_ctl_refl].
    destruct (node_add eps n p2) as [[n' p']|]; simpl; [|apply same_ctl_refl].
    eapply same_ctl_trans; [apply upd_nodes_ctl | apply put_task_ctl]. }
  specialize (H3 _ eq_refl).
  destruct (match nodes s2 !! nid with
             | Some n => match node_add eps n p2 with
                         | inl (n', p') => (put_task (upd_nodes s2 (<[nid:=n']> (nodes s2))) p', p', true)
                         | inr _ => (s2, p2, false) end
             | None => (s2, p2, false) end) as [[s3 p3] nodeok]. simpl in H3.
  pose proof (h_alloc_ctl s3 p3) as H4.
  destruct (h_alloc s3 p3) as [herr_ s4]. simpl in H4.
  pose proof (same_ctl_trans _ _ _ H1 (same_ctl_trans _ _ _ H2 (same_ctl_trans _ _ _ H3 H4))) as H5.
  destruct (f && nodeok && negb herr_).
  - intros [= <- <-]. destruct H5 as (e1 & e2 & e3 & e4).
    destruct (push_op_spec s4 sid k (t_id p) Pending) as (q1 & q2 & q3 & q4).
    split; [congruence|]. split; [congruence|]. split; [auto|]. split; [|intros; congruence].
    intros _. rewrite q3. unfold ops. rewrite e2. reflexivity.
  - intros [= <- <-].
    destruct (same_ctl_trans _ _ _ H5 (unallocate_with_ctl s4 p3)) as (e1 & e2 & e3 & e4).
    repeat split; auto. intros; congruence.
Qed.

(* ---- a handler that reports Event.Err makes Statement.Pipeline / Allocate fail ---- *)
Lemma ssn_update_status_id s p st :
  t_id (snd (ssn_update_status s p st)) = t_id p /\ herr (snd (fst (ssn_update_status s p st))) = herr s.
Proof.
  unfold ssn_update_status. destruct (jobs s !! t_job p); [|auto].
  unfold job_update. simpl. auto.
Qed.

Lemma node_add_id n t n' t' : node_add eps n t = inl (n', t') -> t_id t' = t_id t.
Proof.
  unfold node_add. intros Hx. repeat case_match; try discriminate; injection Hx as <- <-; reflexivity.
Qed.

Lemma place_with_herr s sid k p nid :
  t_id p ∈ herr s -> snd (place_with eps s sid k p nid) = RErr.
Proof.
  intros Hin. unfold place_with.
  set (st := match k with KAllocate => Allocated | _ => Pipelined end).
  destruct (ssn_update_status_id s p st) as [Hid Hh].
  destruct (ssn_update_status s p st) as [[f s1] p1]. simpl in Hid, Hh.
  set (p2 := set_node p1 (Some nid)). set (s2 := put_task s1 p2).
  assert (H3 : forall x, x = match nodes s2 !! nid with
             | Some n => match node_add eps n p2 with
                         | inl (n', p') => (put_task (upd_nodes s2 (<[nid:=n']> (nodes s2))) p', p', true)
                         | inr _ => (s2, p2, false) end
             | None => (s2, p2, false) end ->
             herr (fst (fst x)) = herr s /\ t_id (snd (fst x)) = t_id p).
  { intros x ->. destruct (nodes s2 !! nid); [|simpl; split; [exact Hh|exact Hid]].
    destruct (node_add eps n p2) as [[n' p']|] eqn:Hn; simpl; [|split; [exact Hh|exact Hid]].
    split; [exact Hh|]. rewrite (node_add_id _ _ _ _ Hn). exact Hid. }
  specialize (H3 _ eq_refl).
  destruct (match nodes s2 !! nid with
             | Some n => match node_add eps n p2 with
                         | inl (n', p') => (put_task (upd_nodes s2 (<[nid:=n']> (nodes s2))) p', p', true)
                         | inr _ => (s2, p2, false) end
             | None => (s2, p2, false) end) as [[s3 p3] nodeok]. simpl in H3. destruct H3 as [Hh3 Hid3].
  unfold h_alloc. rewrite Hid3, Hh3. rewrite bool_decide_eq_true_2 by exact Hin.
  rewrite andb_false_r. reflexivity.
Qed.

Lemma stmt_pipeline_herr s sid tid nid p :
  heap s !! tid = Some p -> t_id p ∈ herr s -> snd (stmt_pipeline eps s sid tid nid) = RErr.
Proof. intros Hp Hin. unfold stmt_pipeline, with_task. rewrite Hp. apply place_with_herr, Hin. Qed.

Lemma stmt_pipeline_spec s sid tid nid s' r :
  stmt_pipeline eps s sid tid nid = (s', r) ->
  evicts s' = evicts s /\ refuse_evict s' = refuse_evict s /\ (heap_ok s -> heap_ok s') /\
  (r = ROk -> exists i, (heap_ok s -> i = tid) /\
                        stmts s' = <[sid := ops s sid ++ [mkOp KPipeline i Pending]]> (stmts s)) /\
  (r <> ROk -> stmts s' = stmts s).
Proof.
  unfold stmt_pipeline, with_task. destruct (heap s !! tid) as [p|] eqn:Hp.
  - intros H. apply place_with_spec in H. destruct H as (a & b & c & d & e).
    repeat split; auto. intros Hr. exists (t_id p). split; [|exact (d Hr)].
    intros Hok. apply (Hok _ _ Hp).
  - intros [= <- <-]. repeat split; auto; intros; congruence.
Qed.

Lemma undo_op_ctl s o : same_ctl s (undo_op eps s o).
Proof.
  unfold undo_op. destruct (heap s !! op_task o); [|apply same_ctl_refl].
  destruct (op_kind o).
  - apply unevict_with_ctl.
  - apply unallocate_with_ctl.
  - apply unallocate_with_ctl.
Qed.

Lemma fold_undo_ctl l s : same_ctl s (fold_left (undo_op eps) l s).
Proof.
  revert s. induction l as [|o l IH]; intros s; simpl; [apply same_ctl_refl|].
  eapply same_ctl_trans; [apply undo_op_ctl | apply IH].
Qed.

(* Statement.Discard: nothing reaches the evictor, the statement is empty afterwards *)
Lemma stmt_discard_spec s sid :
  evicts (stmt_discard eps s sid) = evicts s /\ refuse_evict (stmt_discard eps s sid) = refuse_evict s /\
  stmts (stmt_discard eps s sid) = <[sid := []]> (stmts s) /\
  (heap_ok s -> heap_ok (stmt_discard eps s sid)).
Proof.
  unfold stmt_discard.
  destruct (fold_undo_ctl (rev (default [] (stmts s !! sid))) s) as (e1 & e2 & e3 & e4).
  simpl. rewrite e2. repeat split; auto.
Qed.

Lemma upd_logs_ctl s b : evicts (upd_logs s b (evicts s)) = evicts s /\ same_ctl s (upd_logs s b (evicts s)).
Proof. repeat split; auto. Qed.

Lemma commit_op_spec s o :
  stmts (commit_op eps s o) = stmts s /\ refuse_evict (commit_op eps s o) = refuse_evict s /\
  (heap_ok s -> heap_ok (commit_op eps s o)) /\
  (forall x, x ∈ evicts (commit_op eps s o) -> x ∈ evicts s \/ (op_kind o = KEvict /\ (heap_ok s -> op_task o = x))).
Proof.
  unfold commit_op. destruct (heap s !! op_task o) as [p|] eqn:Hp; [|repeat split; auto].
  destruct (op_kind o) eqn:Hk.
  - destruct (bool_decide (t_id p ∈ refuse_evict s)).
    + destruct (unevict_with_ctl s p (op_prev o)) as (e1 & e2 & e3 & e4).
      repeat split; auto. intros x. rewrite e1. auto.
    + simpl. repeat split; auto. intros x Hx. apply elem_of_cons in Hx as [->|Hx]; auto.
      right. split; auto. intros Hok. symmetry. apply (Hok _ _ Hp).
  - repeat split; auto.
  - destruct (bool_decide (t_id p ∈ refuse_bind s)).
    + destruct (unallocate_with_ctl s p) as (e1 & e2 & e3 & e4).
      repeat split; auto. intros x. rewrite e1. auto.
    + set (s1 := upd_logs s ((t_id p, t_node p) :: binds s) (evicts s)).
      pose proof (ssn_update_status_ctl s1 p Binding) as H1.
      destruct (ssn_update_status s1 p Binding) as [[f s2] p2]. simpl in H1.
      destruct f.
      * destruct H1 as (e1 & e2 & e3 & e4). repeat split; auto. intros x. rewrite e1. auto.
      * destruct (same_ctl_trans _ _ _ H1 (unallocate_with_ctl s2 p2)) as (e1 & e2 & e3 & e4).
        repeat split; auto. intros x. rewrite e1. auto.
Qed.

Lemma fold_commit_spec l s :
  stmts (fold_left (commit_op eps) l s) = stmts s /\ refuse_evict (fold_left (commit_op eps) l s) = refuse_evict s /\
  (heap_ok s -> heap_ok (fold_left (commit_op eps) l s)) /\
  (heap_ok s -> forall x, x ∈ evicts (fold_left (commit_op eps) l s) ->
     x ∈ evicts s \/ exists o, o ∈ l /\ op_kind o = KEvict /\ op_task o = x).
Proof.
  revert s. induction l as [|o l IH]; intros s; simpl; [repeat split; auto|].
  destruct (commit_op_spec s o) as (a1 & a2 & a3 & a4).
  destruct (IH (commit_op eps s o)) as (b1 & b2 & b3 & b4).
  split; [congruence|]. split; [congruence|]. split; [auto|].
  intros Hok x Hx. destruct (b4 (a3 Hok) x Hx) as [Hx'|(o' & Ho' & Hk & Ht)].
  - destruct (a4 x Hx') as [?|[Hk Ht]]; auto.
    right. exists o. split; [left|]. auto.
  - right. exists o'. split; [right; auto|auto].
Qed.

(* Statement.Commit: only the tasks of the statement's Evict operations reach the evictor *)
Lemma stmt_commit_spec s sid :
  stmts (stmt_commit eps s sid) = <[sid := []]> (stmts s) /\
  refuse_evict (stmt_commit eps s sid) = refuse_evict s /\
  (heap_ok s -> heap_ok (stmt_commit eps s sid)) /\
  (heap_ok s -> forall x, x ∈ evicts (stmt_commit eps s sid) ->
     x ∈ evicts s \/ exists o, o ∈ ops s sid /\ op_kind o = KEvict /\ op_task o = x).
Proof.
  unfold stmt_commit.
  destruct (fold_commit_spec (default [] (stmts s !! sid)) s) as (e1 & e2 & e3 & e4).
  simpl. rewrite e1. repeat split; auto.
Qed.

(* a refused cache.Evict (the victim is un-evicted by Commit) never shows up in the evictor log *)
Lemma commit_op_not_refused s o x :
  x ∈ evicts (commit_op eps s o) -> x ∈ evicts s \/ x ∉ refuse_evict s.
Proof.
  unfold commit_op. destruct (heap s !! op_task o) as [p|]; [|auto].
  destruct (op_kind o).
  - destruct (bool_decide (t_id p ∈ refuse_evict s)) eqn:Hb.
    + destruct (unevict_with_ctl s p (op_prev o)) as (e1 & _). rewrite e1. auto.
    + simpl. intros Hx. apply elem_of_cons in Hx as [->|Hx]; auto.
      right. apply bool_decide_eq_false in Hb. exact Hb.
  - auto.
  - destruct (bool_decide (t_id p ∈ refuse_bind s)).
    + destruct (unallocate_with_ctl s p) as (e1 & _). rewrite e1. auto.
    + set (s1 := upd_logs s ((t_id p, t_node p) :: binds s) (evicts s)).
      pose proof (ssn_update_status_ctl s1 p Binding) as H1.
      destruct (ssn_update_status s1 p Binding) as [[f s2] p2]. simpl in H1. destruct f.
      * destruct H1 as (e1 & _). rewrite e1. auto.
      * destruct (same_ctl_trans _ _ _ H1 (unallocate_with_ctl s2 p2)) as (e1 & _). rewrite e1. auto.
Qed.

Lemma stmt_commit_not_refused s sid x :
  x ∈ evicts (stmt_commit eps s sid) -> x ∈ evicts s \/ x ∉ refuse_evict s.
Proof.
  unfold stmt_commit. simpl. generalize (default [] (stmts s !! sid)). intros l. revert s.
  induction l as [|o l IH]; intros s; simpl; [auto|].
  intros Hx. destruct (IH _ Hx) as [H|H].
  - apply (commit_op_not_refused s o x H).
  - right. destruct (commit_op_spec s o) as (_ & e2 & _). rewrite <- e2. exact H.
Qed.

End WithEps.

Lemma stmt_merge_spec s sid src :
  sid <> src ->
  evicts (stmt_merge s sid src) = evicts s /\ refuse_evict (stmt_merge s sid src) = refuse_evict s /\
  stmts (stmt_merge s sid src) = <[src := []]> (<[sid := ops s sid ++ ops s src]> (stmts s)) /\
  (heap_ok s -> heap_ok (stmt_merge s sid src)).
Proof.
  intros Hne. unfold stmt_merge. rewrite bool_decide_eq_false_2 by auto. repeat split; auto.
Qed.
