(* C04 - soundness lemmas about the vote functions of C04/Model.v (gang, priority, conformance,
   proportion) and about the victims the tier walk (C11.Model.victims_fixed) selects from them.

   Conventions.  [∈] is std++ [elem_of] on lists; C11 speaks stdlib [In]; the two are bridged with
   [elem_of_list_In].  All [filter]s in statements are std++ Prop-filters (decidable predicate),
   e.g. [filter (fun c => t_job c = jid) l]. *)
From V Require Import C11.Model C11.Spec C11.Lemmas.
From stdpp Require Import gmap.
From Coq Require Import ZArith Lia.
From V Require Import Base.Res Sched.LedgerModel Sched.StmtModel Sched.GangModel C04.Model.
Open Scope Z_scope.

(* ------------------------------------------------------------------ *)
(* generic helpers *)

Lemma sublist_elem {A} (l1 l2 : list A) x : sublist l1 l2 -> x ∈ l1 -> x ∈ l2.
Proof.
  induction 1 as [|y l1 l2 _ IH|y l1 l2 _ IH]; intros Hx.
  - exact Hx.
  - apply elem_of_cons in Hx as [->|Hx]; [left|right; auto].
  - right; auto.
Qed.

(* distinct ids: a candidate is determined by its id *)
Lemma nodup_id_inj (l : list task) c c' :
  NoDup (map t_id l) -> c ∈ l -> c' ∈ l -> t_id c = t_id c' -> c = c'.
Proof.
  induction l as [|a l IH]; simpl; intros Hnd Hc Hc' Hid.
  - inversion Hc.
  - apply NoDup_cons in Hnd as [Hna Hnd].
    assert (Hin : forall x, x ∈ l -> t_id x ∈ map t_id l).
    { intros x Hx. apply elem_of_list_In, in_map, elem_of_list_In, Hx. }
    apply elem_of_cons in Hc as [->|Hc]; apply elem_of_cons in Hc' as [->|Hc']; auto.
    + exfalso. apply Hna. rewrite Hid. auto.
    + exfalso. apply Hna. rewrite <- Hid. auto.
Qed.

(* ------------------------------------------------------------------ *)
(* 1. gang: the vote is a sublist of the candidates *)

Lemma gang_go_sublist : forall s l occ, sublist (gang_go s occ l) l.
Proof.
  intros s l. induction l as [|c r IH]; intros occ; simpl.
  - constructor.
  - destruct (jobs s !! t_job c) as [j|]; [|apply sublist_cons, IH].
    case_bool_decide; [apply sublist_skip, IH|apply sublist_cons, IH].
Qed.

Lemma gang_vote_sublist : forall s l, sublist (gang_vote s l) l.
Proof. intros. apply gang_go_sublist. Qed.

Lemma gang_vote_subset : forall s l c, c ∈ gang_vote s l -> c ∈ l.
Proof. intros s l c. apply sublist_elem, gang_vote_sublist. Qed.

(* ------------------------------------------------------------------ *)
(* 2. gang: a job that loses tasks to the vote keeps MinAvailable ready tasks *)

(* number of tasks of job [jid] in [l] (std++ Prop-filter) *)
Definition job_count (jid : positive) (l : list task) : Z :=
  Z.of_nat (length (filter (fun c => t_job c = jid) l)).

Lemma job_count_cons jid c l :
  job_count jid (c :: l) = (if decide (t_job c = jid) then 1 else 0) + job_count jid l.
Proof.
  unfold job_count. rewrite filter_cons. destruct (decide (t_job c = jid)); simpl length; lia.
Qed.

Lemma job_count_nonneg jid l : 0 <= job_count jid l.
Proof. unfold job_count. lia. Qed.

(* the generalisation over the occupancy map *)
Lemma gang_go_keeps_min : forall s jid j, jobs s !! jid = Some j ->
  forall l occ,
    let o0 := default (ready_num (j_index j)) (occ !! jid) in
    let k := job_count jid (gang_go s occ l) in
    0 < k -> j_min j <= o0 - k.
Proof.
  intros s jid j Hj l. induction l as [|c r IH]; intros occ; simpl.
  - unfold job_count; simpl; lia.
  - destruct (decide (t_job c = jid)) as [Heq|Hne].
    + rewrite Heq, Hj.
      set (o0 := default (ready_num (j_index j)) (occ !! jid)).
      case_bool_decide as Hlt.
      * rewrite job_count_cons, decide_True by done.
        specialize (IH (<[jid := o0 - 1]> occ)). simpl in IH.
        rewrite lookup_insert in IH. simpl in IH.
        pose proof (job_count_nonneg jid (gang_go s (<[jid := o0 - 1]> occ) r)).
        intros _. destruct (decide (0 < job_count jid (gang_go s (<[jid := o0 - 1]> occ) r))) as [Hp|Hp].
        -- specialize (IH Hp). lia.
        -- lia.
      * specialize (IH (<[jid := o0]> occ)). simpl in IH.
        rewrite lookup_insert in IH. exact IH.
    + destruct (jobs s !! t_job c) as [j'|]; [|apply IH].
      case_bool_decide.
      * rewrite job_count_cons, decide_False by done.
        match goal with |- context [gang_go s ?occ' r] => specialize (IH occ') end.
        simpl in IH. rewrite lookup_insert_ne in IH by done. exact IH.
      * match goal with |- context [gang_go s ?occ' r] => specialize (IH occ') end.
        simpl in IH. rewrite lookup_insert_ne in IH by done. exact IH.
Qed.

Theorem gang_vote_keeps_min : forall s l jid j, jobs s !! jid = Some j ->
  let k := Z.of_nat (length (filter (fun c => t_job c = jid) (gang_vote s l))) in
  0 < k -> j_min j <= ready_num (j_index j) - k.
Proof.
  intros s l jid j Hj. pose proof (gang_go_keeps_min s jid j Hj l ∅) as H.
  simpl in H. rewrite lookup_empty in H. exact H.
Qed.

(* ------------------------------------------------------------------ *)
(* 3. priority: only strictly lower priority (job priority across jobs, task priority inside a job) *)

Lemma prio_vote_strict : forall E s p c l, c ∈ prio_vote E s p l ->
  c ∈ l /\ ((t_job c <> t_job p /\ jprio E (t_job c) < jprio E (t_job p)) \/
            (t_job c = t_job p /\ t_prio c < t_prio p)).
Proof.
  intros E s p c l. unfold prio_vote. destruct (jobs s !! t_job p); [|intros H; inversion H].
  rewrite elem_of_list_filter. unfold prio_ok. intros [Hok Hin]. split; [exact Hin|].
  destruct (jobs s !! t_job c); [|discriminate].
  case_bool_decide; apply bool_decide_eq_true in Hok; auto.
Qed.

(* the vote also requires both jobs to be known to the session *)
Lemma prio_vote_jobs_known : forall E s p c l, c ∈ prio_vote E s p l ->
  is_Some (jobs s !! t_job p) /\ is_Some (jobs s !! t_job c).
Proof.
  intros E s p c l. unfold prio_vote. destruct (jobs s !! t_job p); [|intros H; inversion H].
  rewrite elem_of_list_filter. unfold prio_ok. intros [Hok _].
  destruct (jobs s !! t_job c); [eauto|discriminate].
Qed.

(* ------------------------------------------------------------------ *)
(* 4. conformance: exactly the non-critical candidates *)

Lemma conf_vote_spec : forall E c l, c ∈ conf_vote E l <-> c ∈ l /\ critical E c = false.
Proof. intros. unfold conf_vote. rewrite elem_of_list_filter. tauto. Qed.

(* ------------------------------------------------------------------ *)
(* 5. proportion: the vote is a sublist of the candidates *)

Lemma prop_go_sublist : forall eps E s l al, sublist (prop_go eps E s al l) l.
Proof.
  intros eps E s l. induction l as [|c r IH]; intros al; simpl.
  - constructor.
  - destruct (jobs s !! t_job c) as [j|]; [|apply sublist_cons, IH].
    destruct (e_queues E !! j_queue j) as [q|]; [|apply sublist_cons, IH].
    destruct (negb (qx_known q)); [apply sublist_cons, IH|].
    destruct (negb (less_equal eps _ _ _)); [apply sublist_skip, IH|apply sublist_cons, IH].
Qed.

Lemma prop_vote_sublist : forall eps E s l, sublist (prop_vote eps E s l) l.
Proof. intros. apply prop_go_sublist. Qed.

Lemma prop_vote_subset : forall eps E s l c, c ∈ prop_vote eps E s l -> c ∈ l.
Proof. intros eps E s l c. apply sublist_elem, prop_vote_sublist. Qed.

(* ------------------------------------------------------------------ *)
(* 6. proportion: a victim is taken only while its queue's running allocation is NOT <= deserved *)

(* the running-allocation map [prop_go] has reached after the candidates [l] (same recursion) *)
Fixpoint prop_al (eps : Z) (E : env) (s : sess) (al : gmap positive res) (l : list task)
    : gmap positive res :=
  match l with
  | [] => al
  | c :: r =>
    match jobs s !! t_job c with
    | None => prop_al eps E s al r
    | Some j =>
      match e_queues E !! j_queue j with
      | None => prop_al eps E s al r
      | Some q =>
        if negb (qx_known q) then prop_al eps E s al r else
        let a := default (share_of s (j_queue j)) (al !! j_queue j) in
        if negb (less_equal eps a (qx_des_hi q) DZero)
        then prop_al eps E s (<[j_queue j := sub a (t_req c)]> al) r
        else prop_al eps E s (<[j_queue j := a]> al) r
      end
    end
  end.

Lemma prop_go_app : forall eps E s l1 l2 al,
  prop_go eps E s al (l1 ++ l2) =
  prop_go eps E s al l1 ++ prop_go eps E s (prop_al eps E s al l1) l2.
Proof.
  intros eps E s l1 l2. induction l1 as [|c r IH]; intros al; simpl; [reflexivity|].
  destruct (jobs s !! t_job c) as [j|]; [|apply IH].
  destruct (e_queues E !! j_queue j) as [q|]; [|apply IH].
  destruct (negb (qx_known q)); [apply IH|].
  destruct (negb (less_equal eps _ _ _)); simpl; [f_equal|]; apply IH.
Qed.

Lemma prop_al_app : forall eps E s l1 l2 al,
  prop_al eps E s al (l1 ++ l2) = prop_al eps E s (prop_al eps E s al l1) l2.
Proof.
  intros eps E s l1 l2. induction l1 as [|c r IH]; intros al; simpl; [reflexivity|].
  destruct (jobs s !! t_job c) as [j|]; [|apply IH].
  destruct (e_queues E !! j_queue j) as [q|]; [|apply IH].
  destruct (negb (qx_known q)); [apply IH|].
  destruct (negb (less_equal eps _ _ _)); apply IH.
Qed.

(* the queue of a candidate, when its job is known to the session *)
Definition cand_queue (s : sess) (c : task) : option positive := j_queue <$> jobs s !! t_job c.

(* the victims of queue [qid] among [l] (std++ Prop-filter), and their requests taken off [a] in order *)
Definition queue_victims (s : sess) (qid : positive) (l : list task) : list task :=
  filter (fun v => cand_queue s v = Some qid) l.
Definition sub_reqs (a : res) (vs : list task) : res := fold_left (fun a v => sub a (t_req v)) vs a.

(* every returned victim has a known job, a known queue and a known deserved *)
Lemma prop_go_known : forall eps E s l al c, c ∈ prop_go eps E s al l ->
  exists j q, jobs s !! t_job c = Some j /\ e_queues E !! j_queue j = Some q /\ qx_known q = true.
Proof.
  intros eps E s l. induction l as [|c0 r IH]; intros al c; simpl; [intros H; inversion H|].
  destruct (jobs s !! t_job c0) as [j|] eqn:Hj; [|apply IH].
  destruct (e_queues E !! j_queue j) as [q|] eqn:Hq; [|apply IH].
  destruct (qx_known q) eqn:Hk; simpl; [|apply IH].
  destruct (negb (less_equal eps _ _ _)); [|apply IH].
  intros [->|H]%elem_of_cons; [eauto|eapply IH, H].
Qed.

(* a queue whose running allocation is <= deserved loses no further task: the value is carried
   unchanged through the rest of the list *)
Lemma prop_go_saturated : forall eps E s qid q a, e_queues E !! qid = Some q ->
  less_equal eps a (qx_des_hi q) DZero = true ->
  forall l al c, al !! qid = Some a -> c ∈ prop_go eps E s al l -> cand_queue s c <> Some qid.
Proof.
  intros eps E s qid q a Hq Hle l. induction l as [|c0 r IH]; intros al c Hal; simpl; [intros H; inversion H|].
  destruct (jobs s !! t_job c0) as [j|] eqn:Hj; [|apply IH, Hal].
  destruct (e_queues E !! j_queue j) as [q'|] eqn:Hq'; [|apply IH, Hal].
  destruct (qx_known q') eqn:Hk; simpl; [|apply IH, Hal].
  destruct (decide (j_queue j = qid)) as [Heq|Hne].
  - rewrite Heq in *. rewrite Hq in Hq'. injection Hq' as <-. rewrite Hal. simpl. rewrite Hle. simpl.
    apply IH. apply lookup_insert.
  - destruct (negb (less_equal eps _ _ _)).
    + intros [->|H]%elem_of_cons.
      * unfold cand_queue. rewrite Hj. simpl. congruence.
      * eapply IH, H. rewrite lookup_insert_ne by done. exact Hal.
    + apply IH. rewrite lookup_insert_ne by done. exact Hal.
Qed.

(* one step of the recursion on a candidate with known job / queue / deserved *)
Lemma prop_go_step : forall eps E s al c l2 j q,
  jobs s !! t_job c = Some j -> e_queues E !! j_queue j = Some q -> qx_known q = true ->
  let a := default (share_of s (j_queue j)) (al !! j_queue j) in
  prop_go eps E s al (c :: l2) =
    (if less_equal eps a (qx_des_hi q) DZero then [] else [c]) ++
    prop_go eps E s (prop_al eps E s al [c]) l2.
Proof.
  intros eps E s al c l2 j q Hj Hq Hk. simpl. rewrite Hj, Hq, Hk. simpl.
  destruct (less_equal eps _ _ _); reflexivity.
Qed.

(* [c] heads the remaining vote iff its queue's running allocation is not <= deserved *)
Lemma prop_head_iff : forall eps E s al c l2 j q,
  jobs s !! t_job c = Some j -> e_queues E !! j_queue j = Some q -> qx_known q = true ->
  (head (prop_go eps E s al (c :: l2)) = Some c <->
   less_equal eps (default (share_of s (j_queue j)) (al !! j_queue j)) (qx_des_hi q) DZero = false).
Proof.
  intros eps E s al c l2 j q Hj Hq Hk. simpl. rewrite Hj, Hq, Hk. simpl.
  destruct (less_equal eps _ _ _) eqn:Hle; simpl; split; try done.
  intros Hh%head_Some_elem_of. exfalso.
  eapply (prop_go_saturated eps E s (j_queue j) q _ Hq Hle); [apply lookup_insert|exact Hh|].
  unfold cand_queue. rewrite Hj. reflexivity.
Qed.

(* the same for membership instead of head (a candidate that is passed over does not come back) *)
Lemma prop_head_taken : forall eps E s al c l2 j q,
  jobs s !! t_job c = Some j -> e_queues E !! j_queue j = Some q -> qx_known q = true ->
  c ∈ prop_go eps E s al (c :: l2) ->
  less_equal eps (default (share_of s (j_queue j)) (al !! j_queue j)) (qx_des_hi q) DZero = false.
Proof.
  intros eps E s al c l2 j q Hj Hq Hk. simpl. rewrite Hj, Hq, Hk. simpl.
  destruct (less_equal eps _ _ _) eqn:Hle; simpl; try done.
  intros Hh. exfalso.
  eapply (prop_go_saturated eps E s (j_queue j) q _ Hq Hle); [apply lookup_insert|exact Hh|].
  unfold cand_queue. rewrite Hj. reflexivity.
Qed.

(* the running allocation of a queue = its session share minus the requests of its victims so far *)
Lemma prop_al_default : forall eps E s qid l al,
  default (share_of s qid) (prop_al eps E s al l !! qid) =
  sub_reqs (default (share_of s qid) (al !! qid)) (queue_victims s qid (prop_go eps E s al l)).
Proof.
  intros eps E s qid l. induction l as [|c r IH]; intros al; simpl; [reflexivity|].
  destruct (jobs s !! t_job c) as [j|] eqn:Hj; [|apply IH].
  destruct (e_queues E !! j_queue j) as [q|] eqn:Hq; [|apply IH].
  destruct (qx_known q) eqn:Hk; simpl; [|apply IH].
  unfold queue_victims, sub_reqs in *.
  destruct (negb (less_equal eps _ _ _)).
  - rewrite IH. destruct (decide (j_queue j = qid)) as [<-|Hne].
    + rewrite filter_cons_True by (unfold cand_queue; rewrite Hj; reflexivity).
      rewrite lookup_insert. reflexivity.
    + rewrite filter_cons_False by (unfold cand_queue; rewrite Hj; simpl; congruence).
      rewrite lookup_insert_ne by done. reflexivity.
  - rewrite IH. destruct (decide (j_queue j = qid)) as [<-|Hne].
    + rewrite lookup_insert. reflexivity.
    + rewrite lookup_insert_ne by done. reflexivity.
Qed.

Lemma prop_al_spec : forall eps E s l1 qid a,
  prop_al eps E s ∅ l1 !! qid = Some a ->
  a = fold_left (fun a v => sub a (t_req v))
        (filter (fun v => cand_queue s v = Some qid) (prop_vote eps E s l1)) (share_of s qid).
Proof.
  intros eps E s l1 qid a Ha. pose proof (prop_al_default eps E s qid l1 ∅) as H.
  rewrite Ha, lookup_empty in H. exact H.
Qed.

(* the pieces put together, for the vote on [l1 ++ c :: l2] *)
Theorem prop_vote_above_deserved : forall eps E s l1 c l2 j q,
  jobs s !! t_job c = Some j -> e_queues E !! j_queue j = Some q -> qx_known q = true ->
  let al1 := prop_al eps E s ∅ l1 in
  let a1 := sub_reqs (share_of s (j_queue j)) (queue_victims s (j_queue j) (prop_vote eps E s l1)) in
  prop_vote eps E s (l1 ++ c :: l2) = prop_vote eps E s l1 ++ prop_go eps E s al1 (c :: l2) /\
  default (share_of s (j_queue j)) (al1 !! j_queue j) = a1 /\
  (head (prop_go eps E s al1 (c :: l2)) = Some c <-> less_equal eps a1 (qx_des_hi q) DZero = false) /\
  prop_go eps E s al1 (c :: l2) =
    (if less_equal eps a1 (qx_des_hi q) DZero then [] else [c]) ++
    prop_go eps E s (prop_al eps E s ∅ (l1 ++ [c])) l2.
Proof.
  intros eps E s l1 c l2 j q Hj Hq Hk al1 a1.
  assert (Ha : default (share_of s (j_queue j)) (al1 !! j_queue j) = a1).
  { unfold al1, a1. rewrite prop_al_default, lookup_empty. reflexivity. }
  split; [apply prop_go_app|]. split; [exact Ha|]. split.
  - rewrite <- Ha. apply prop_head_iff; assumption.
  - rewrite <- Ha, prop_al_app. apply prop_go_step; assumption.
Qed.

(* the occurrence-free form: every victim of the proportion vote sits at a position [l1 ++ c :: l2]
   of the candidate list at which its queue's running allocation (session share minus the requests
   of the queue's victims among [l1]) was not <= deserved *)
Theorem prop_vote_victim_above : forall eps E s l c, c ∈ prop_vote eps E s l ->
  exists l1 l2 j q,
    l = l1 ++ c :: l2 /\ jobs s !! t_job c = Some j /\ e_queues E !! j_queue j = Some q /\
    qx_known q = true /\
    less_equal eps (sub_reqs (share_of s (j_queue j))
                      (queue_victims s (j_queue j) (prop_vote eps E s l1)))
               (qx_des_hi q) DZero = false.
Proof.
  intros eps E s l c Hc.
  destruct (prop_go_known _ _ _ _ _ _ Hc) as (j & q & Hj & Hq & Hk).
  pose proof (prop_vote_subset _ _ _ _ _ Hc) as Hin.
  apply elem_of_list_split in Hin as (l1 & l2 & ->).
  (* take the FIRST split at which c is returned: induct on l1 *)
  revert Hc. unfold prop_vote.
  assert (G : forall l1 al, c ∈ prop_go eps E s al (l1 ++ c :: l2) ->
    exists l1' l2', l1 ++ c :: l2 = l1' ++ c :: l2' /\
      less_equal eps (default (share_of s (j_queue j)) (prop_al eps E s al l1' !! j_queue j))
        (qx_des_hi q) DZero = false).
  { clear l1. intros l1 al. rewrite prop_go_app. intros [H|H]%elem_of_app.
    - (* returned from the prefix: c occurs in l1 *)
      revert al H. induction l1 as [|c0 r IH]; intros al H; [inversion H|].
      assert (Hr : c0 = c \/ exists al', c ∈ prop_go eps E s al' r /\
                      forall l', prop_al eps E s al (c0 :: l') = prop_al eps E s al' l').
      { simpl in H |- *. destruct (jobs s !! t_job c0) as [j0|]; [|eauto].
        destruct (e_queues E !! j_queue j0) as [q0|]; [|eauto].
        destruct (negb (qx_known q0)); [eauto|].
        destruct (negb (less_equal eps _ _ _)); [|eauto].
        apply elem_of_cons in H as [->|H]; [left; reflexivity|right; eauto]. }
      destruct Hr as [->|Hr].
      + exists [], (r ++ c :: l2). split; [reflexivity|]. simpl.
        eapply prop_head_taken; eauto.
      + destruct Hr as (al' & Hr & Hal).
        destruct (IH al' Hr) as (l1' & l2' & Heq & Hle).
        exists (c0 :: l1'), l2'. split; [simpl; rewrite Heq; reflexivity|].
        rewrite Hal. exact Hle.
    - exists l1, l2. split; [reflexivity|]. eapply prop_head_taken; eauto. }
  intros Hc. destruct (G l1 ∅ Hc) as (l1' & l2' & Heq & Hle).
  exists l1', l2', j, q. split; [exact Heq|]. repeat split; try assumption.
  rewrite prop_al_default, lookup_empty in Hle. exact Hle.
Qed.

(* ------------------------------------------------------------------ *)
(* 7. the victims are candidates *)

Lemma victims_subset : forall eps E k s p l c, c ∈ victims eps E k s p l -> c ∈ l.
Proof. intros eps E k s p l c. unfold victims. rewrite elem_of_list_filter. tauto. Qed.

Lemma victims_sublist : forall eps E k s p l, sublist (victims eps E k s p l) l.
Proof.
  intros. unfold victims. generalize (victim_ids eps E k s p l). intros ids.
  induction l as [|a l IH]; [constructor|].
  rewrite filter_cons. destruct (decide _); [apply sublist_skip, IH|apply sublist_cons, IH].
Qed.

Lemma victims_iff : forall eps E k s p l c,
  c ∈ victims eps E k s p l <-> c ∈ l /\ In (uid_of c) (victim_ids eps E k s p l).
Proof.
  intros. unfold victims, is_victim. rewrite elem_of_list_filter, bool_decide_eq_true, elem_of_list_In.
  tauto.
Qed.

(* capacity: the vote returns candidates only *)
Lemma cap_go_tr_subset : forall eps E s p l al c a, (c, a) ∈ cap_go_tr eps E s p al l -> c ∈ l.
Proof.
  intros eps E s p l. induction l as [|c0 r IH]; intros al c a; simpl; [intros H; inversion H|].
  destruct (jobs s !! t_job c0) as [j|]; [|intros H; right; eapply IH, H].
  destruct (e_queues E !! j_queue j) as [q|]; [|intros H; right; eapply IH, H].
  destruct (negb (qx_cap_known q)); [intros H; right; eapply IH, H|].
  destruct (negb (intersects eps true (t_req c0) (t_init p))); [intros H; right; eapply IH, H|].
  destruct (negb (less_equal eps (qx_cap_guar q) _ DZero)); [intros H; right; eapply IH, H|].
  destruct (_ || _); [|intros H; right; eapply IH, H].
  intros H. apply elem_of_cons in H as [[= -> ->]|H]; [left|right; eapply IH, H].
Qed.

Lemma find_task_elem l i c : find_task l i = Some c -> c ∈ l.
Proof.
  unfold find_task. destruct (filter _ l) as [|c' r] eqn:Hf; [discriminate|]. intros [= ->].
  assert (H : c ∈ filter (fun c0 => bool_decide (t_id c0 = i) = true) l) by (rewrite Hf; left).
  apply elem_of_list_filter in H. tauto.
Qed.

Lemma cap_vote_subset : forall eps E s p l c, c ∈ cap_vote eps E s p l -> c ∈ l.
Proof.
  intros eps E s p l c. unfold cap_vote, cap_go. destruct (cap_reclaimer_ok E s p); [|intros H; inversion H].
  intros H. apply elem_of_list_fmap in H as ([c' a] & -> & H). simpl.
  apply cap_go_tr_subset in H. apply elem_of_list_omap in H as (i & _ & H). eapply find_task_elem, H.
Qed.

(* drf: the vote returns candidates only; every returned victim passed the share test with the allocation that
   was left of its job after ALL candidates of the job looked at so far (itself included) *)
Lemma drf_go_tr_spec : forall eps s ls l al c left, (c, left) ∈ drf_go_tr eps s ls al l ->
  c ∈ l /\ drf_lets_go ls (dom_share eps left (total_res s)) = true.
Proof.
  intros eps s ls l. induction l as [|c0 r IH]; intros al c left; simpl; [intros H; inversion H|].
  destruct (jobs s !! t_job c0) as [j|]; [|intros H; destruct (IH _ _ _ H); split; [right|]; auto].
  destruct (drf_lets_go ls _) eqn:Hd.
  - intros H. apply elem_of_cons in H as [[= -> ->]|H]; [split; [left|exact Hd]|].
    destruct (IH _ _ _ H). split; [right|]; auto.
  - intros H. destruct (IH _ _ _ H). split; [right|]; auto.
Qed.

Lemma drf_vote_subset : forall eps s p l c, c ∈ drf_vote eps s p l -> c ∈ l.
Proof.
  intros eps s p l c. unfold drf_vote. destruct (jobs s !! t_job p); [|intros H; inversion H].
  intros H. apply elem_of_list_fmap in H as ([c' a] & -> & H). apply drf_go_tr_spec in H. apply H.
Qed.

(* every vote is a subset of the candidates *)
Lemma vote_of_subset : forall eps E k s p l pk v c,
  vote_of eps E k s p l pk = Some v -> c ∈ v -> c ∈ l.
Proof.
  intros eps E k s p l pk v c. destruct pk; simpl.
  - intros [= <-]. apply gang_vote_subset.
  - destruct (is_reclaim k); [discriminate|]. intros [= <-] H. apply prio_vote_strict in H. tauto.
  - intros [= <-] H. apply conf_vote_spec in H. tauto.
  - destruct (is_reclaim k); [|discriminate]. intros [= <-]. apply prop_vote_subset.
  - destruct (is_reclaim k); [|discriminate]. intros [= <-]. apply cap_vote_subset.
  - destruct (is_reclaim k); [discriminate|]. intros [= <-]. apply drf_vote_subset.
Qed.

(* ------------------------------------------------------------------ *)
(* 8. every victim was put forward by every enabled registered plugin of the deciding tier *)

(* the enable flag the action looks at *)
Definition plug_enabled (k : akind) (pl : plug) : bool := if is_reclaim k then p_rec pl else p_pre pl.

(* a plugin takes part in the vote iff it is enabled for the action and registered a function for it
   (a registered function never abstains in this model: flag 1) *)
Lemma slot_voting : forall eps E k s p l pl,
  voting (slot_of eps E k s p l pl) = true <->
  plug_enabled k pl = true /\ is_Some (vote_of eps E k s p l (p_kind pl)).
Proof.
  intros. unfold slot_of, voting, active, plug_enabled.
  destruct (vote_of eps E k s p l (p_kind pl)) as [v|]; simpl.
  - rewrite !andb_true_r. split; [eauto|tauto].
  - rewrite andb_false_r. split; [discriminate|]. intros [_ [? ?]]. discriminate.
Qed.

Lemma slot_cands : forall eps E k s p l pl v,
  vote_of eps E k s p l (p_kind pl) = Some v ->
  v_cands (s_ans (slot_of eps E k s p l pl)) = map uid_of v.
Proof. intros. unfold slot_of. rewrite H. reflexivity. Qed.

Lemma in_map_uid : forall (v : list task) c, In (uid_of c) (map uid_of v) -> exists c', c' ∈ v /\ t_id c' = t_id c.
Proof.
  intros v c H. apply in_map_iff in H as (c' & Hid & Hin). exists c'. split; [apply elem_of_list_In, Hin|].
  unfold uid_of in Hid. congruence.
Qed.

(* [tier] (a tier of the configuration) decides the vote: all tiers before it agree on nothing, it
   has a voter, and the selected ids are its agreement *)
Definition deciding (eps : Z) (E : env) (k : akind) (s : sess) (p : task) (l : list task)
    (tier : list plug) : Prop :=
  exists pre post,
    e_tiers E = pre ++ tier :: post /\
    vote_layout eps E k s p l =
      map (map (slot_of eps E k s p l)) pre ++ map (slot_of eps E k s p l) tier ::
      map (map (slot_of eps E k s p l)) post /\
    Forall (fun t' => agreement (map (slot_of eps E k s p l) t') = []) pre /\
    victim_ids eps E k s p l = agreement (map (slot_of eps E k s p l) tier) /\
    exists pl v, pl ∈ tier /\ plug_enabled k pl = true /\ vote_of eps E k s p l (p_kind pl) = Some v.

Lemma victims_deciding_exists : forall eps E k s p l c,
  c ∈ victims eps E k s p l -> exists tier, deciding eps E k s p l tier.
Proof.
  intros eps E k s p l c Hc. apply victims_iff in Hc as [_ Hc]. unfold victim_ids in Hc.
  destruct (victims_respect_deciding_tier _ _ Hc) as (pre & t & post & Hl & Hpre & Hag & (sl & Hsl & Hv) & _).
  unfold vote_layout in Hl.
  destruct (map_eq_app_cons _ _ _ _ _ Hl) as (lp & tier & lq & HE & <- & <- & <-).
  exists tier, lp, lq. split; [exact HE|]. split; [unfold vote_layout; rewrite HE, map_app; reflexivity|].
  split; [rewrite Forall_map in Hpre; exact Hpre|]. split; [exact Hag|].
  apply in_map_iff in Hsl as (pl & <- & Hpl). apply slot_voting in Hv as [Hen [v Hv]].
  exists pl, v. split; [apply elem_of_list_In, Hpl|auto].
Qed.

Lemma deciding_voters : forall eps E k s p l tier c,
  deciding eps E k s p l tier -> c ∈ victims eps E k s p l ->
  forall pl v, pl ∈ tier -> plug_enabled k pl = true -> vote_of eps E k s p l (p_kind pl) = Some v ->
    exists c', c' ∈ v /\ t_id c' = t_id c.
Proof.
  intros eps E k s p l tier c (pre & post & _ & _ & _ & Hag & _) Hc pl v Hpl Hen Hv.
  apply victims_iff in Hc as [_ Hc]. rewrite Hag in Hc. apply in_agreement in Hc as [_ Hall].
  apply in_map_uid. rewrite <- (slot_cands eps E k s p l pl v Hv). apply Hall.
  - apply in_map, elem_of_list_In, Hpl.
  - apply slot_voting. eauto.
Qed.

Theorem victims_respect_voters : forall eps E k s p l c,
  c ∈ victims eps E k s p l ->
  exists pre tier post,
    e_tiers E = pre ++ tier :: post /\
    vote_layout eps E k s p l =
      map (map (slot_of eps E k s p l)) pre ++ map (slot_of eps E k s p l) tier ::
      map (map (slot_of eps E k s p l)) post /\
    Forall (fun t' => agreement t' = []) (map (map (slot_of eps E k s p l)) pre) /\
    (exists sl, In sl (map (slot_of eps E k s p l) tier) /\ voting sl = true) /\
    (exists pl v, pl ∈ tier /\ plug_enabled k pl = true /\ vote_of eps E k s p l (p_kind pl) = Some v) /\
    forall pl v, pl ∈ tier ->
      (if is_reclaim k then p_rec pl else p_pre pl) = true ->
      vote_of eps E k s p l (p_kind pl) = Some v ->
      exists c', c' ∈ v /\ t_id c' = t_id c.
Proof.
  intros eps E k s p l c Hc. destruct (victims_deciding_exists _ _ _ _ _ _ _ Hc) as [tier Hd].
  pose proof (deciding_voters _ _ _ _ _ _ _ _ Hd Hc) as Hall.
  destruct Hd as (pre & post & HE & Hl & Hpre & _ & (pl & v & Hpl & Hen & Hv)).
  exists pre, tier, post. split; [exact HE|]. split; [exact Hl|].
  split; [rewrite Forall_map; exact Hpre|]. split.
  - exists (slot_of eps E k s p l pl). split; [apply in_map, elem_of_list_In, Hpl|].
    apply slot_voting. eauto.
  - split; [eauto|exact Hall].
Qed.

(* ------------------------------------------------------------------ *)
(* 9. with distinct candidate ids the victim itself is in every vote of the deciding tier, hence
      satisfies every voter's eligibility condition *)

Theorem victim_in_every_vote : forall eps E k s p l tier c pl v,
  NoDup (map t_id l) -> deciding eps E k s p l tier -> c ∈ victims eps E k s p l ->
  pl ∈ tier -> plug_enabled k pl = true -> vote_of eps E k s p l (p_kind pl) = Some v ->
  c ∈ v.
Proof.
  intros eps E k s p l tier c pl v Hnd Hd Hc Hpl Hen Hv.
  destruct (deciding_voters _ _ _ _ _ _ _ _ Hd Hc pl v Hpl Hen Hv) as (c' & Hc' & Hid).
  assert (c' = c) as <-; [|exact Hc'].
  eapply nodup_id_inj; eauto using vote_of_subset, victims_subset.
Qed.

Theorem victim_gang_member : forall eps E k s p l tier c pl,
  NoDup (map t_id l) -> deciding eps E k s p l tier -> c ∈ victims eps E k s p l ->
  pl ∈ tier -> p_kind pl = KGang -> plug_enabled k pl = true ->
  c ∈ gang_vote s l.
Proof.
  intros eps E k s p l tier c pl Hnd Hd Hc Hpl Hk Hen.
  eapply (victim_in_every_vote eps E k s p l tier c pl); eauto. rewrite Hk. reflexivity.
Qed.

Theorem victim_conf_ok : forall eps E k s p l tier c pl,
  NoDup (map t_id l) -> deciding eps E k s p l tier -> c ∈ victims eps E k s p l ->
  pl ∈ tier -> p_kind pl = KConf -> plug_enabled k pl = true ->
  critical E c = false.
Proof.
  intros eps E k s p l tier c pl Hnd Hd Hc Hpl Hk Hen.
  assert (H : c ∈ conf_vote E l).
  { eapply (victim_in_every_vote eps E k s p l tier c pl); eauto. rewrite Hk. reflexivity. }
  apply conf_vote_spec in H. tauto.
Qed.

Theorem victim_prio_ok : forall eps E k s p l tier c pl,
  NoDup (map t_id l) -> deciding eps E k s p l tier -> c ∈ victims eps E k s p l ->
  pl ∈ tier -> p_kind pl = KPrio -> plug_enabled k pl = true -> is_reclaim k = false ->
  (t_job c <> t_job p /\ jprio E (t_job c) < jprio E (t_job p)) \/
  (t_job c = t_job p /\ t_prio c < t_prio p).
Proof.
  intros eps E k s p l tier c pl Hnd Hd Hc Hpl Hk Hen Hr.
  assert (H : c ∈ prio_vote E s p l).
  { eapply (victim_in_every_vote eps E k s p l tier c pl); eauto. rewrite Hk. simpl. rewrite Hr. reflexivity. }
  apply prio_vote_strict in H. tauto.
Qed.

Theorem victim_prop_above : forall eps E k s p l tier c pl,
  NoDup (map t_id l) -> deciding eps E k s p l tier -> c ∈ victims eps E k s p l ->
  pl ∈ tier -> p_kind pl = KProp -> plug_enabled k pl = true -> is_reclaim k = true ->
  exists l1 l2 j q,
    l = l1 ++ c :: l2 /\ jobs s !! t_job c = Some j /\ e_queues E !! j_queue j = Some q /\
    qx_known q = true /\
    less_equal eps (sub_reqs (share_of s (j_queue j))
                      (queue_victims s (j_queue j) (prop_vote eps E s l1)))
               (qx_des_hi q) DZero = false.
Proof.
  intros eps E k s p l tier c pl Hnd Hd Hc Hpl Hk Hen Hr.
  apply prop_vote_victim_above.
  eapply (victim_in_every_vote eps E k s p l tier c pl); eauto. rewrite Hk. simpl. rewrite Hr. reflexivity.
Qed.

(* all per-kind consequences at once, for every enabled plugin of the deciding tier *)
Theorem victims_eligible : forall eps E k s p l c,
  NoDup (map t_id l) -> c ∈ victims eps E k s p l ->
  c ∈ l /\
  exists tier, deciding eps E k s p l tier /\
    forall pl, pl ∈ tier -> plug_enabled k pl = true ->
      match p_kind pl with
      | KGang => c ∈ gang_vote s l
      | KConf => critical E c = false
      | KPrio => is_reclaim k = false ->
          (t_job c <> t_job p /\ jprio E (t_job c) < jprio E (t_job p)) \/
          (t_job c = t_job p /\ t_prio c < t_prio p)
      | KProp => is_reclaim k = true -> c ∈ prop_vote eps E s l
      | KCap => is_reclaim k = true -> c ∈ cap_vote eps E s p l
      | KDrf => is_reclaim k = false -> c ∈ drf_vote eps s p l
      end.
Proof.
  intros eps E k s p l c Hnd Hc. split; [eapply victims_subset, Hc|].
  destruct (victims_deciding_exists _ _ _ _ _ _ _ Hc) as [tier Hd]. exists tier. split; [exact Hd|].
  intros pl Hpl Hen. destruct (p_kind pl) eqn:Hk.
  - eapply victim_gang_member; eauto.
  - intros Hr. eapply victim_prio_ok; eauto.
  - eapply victim_conf_ok; eauto.
  - intros Hr. eapply (victim_in_every_vote eps E k s p l tier c pl); eauto.
    rewrite Hk. simpl. rewrite Hr. reflexivity.
  - intros Hr. eapply (victim_in_every_vote eps E k s p l tier c pl); eauto.
    rewrite Hk. simpl. rewrite Hr. reflexivity.
  - intros Hr. eapply (victim_in_every_vote eps E k s p l tier c pl); eauto.
    rewrite Hk. simpl. rewrite Hr. reflexivity.
Qed.

(* ------------------------------------------------------------------ *)
(* non-vacuity: one job, three Running tasks, MinAvailable 2 *)
Section Examples.
  Let r1 : res := mkRes 1000 1000 None.
  Let tk (i : positive) (prio : Z) : task :=
    mkTask i 1%positive 1%positive 1%positive prio r1 r1 false true Running (Some 1%positive).
  Let t1 := tk 11%positive 5.
  Let t2 := tk 12%positive 5.
  Let t3 := tk 13%positive 5.
  Let ids : gset positive := {[11%positive; 12%positive; 13%positive]}.
  Let j1 : job :=
    mkJob 1%positive 1%positive 2 ∅ 0 ids {[skey Running := ids]} (mkRes 3000 3000 None)
          (mkRes 3000 3000 None) ∅ ∅.
  Let s0 : sess :=
    mkSess (list_to_map [(11%positive, t1); (12%positive, t2); (13%positive, t3)])
           {[1%positive := j1]} ∅ {[1%positive := mkRes 3000 3000 None]} [] ∅ ∅ ∅ [] [] ∅ ∅ true.

  Example ex_ready_num : ready_num (j_index j1) = 3.
  Proof. vm_compute. reflexivity. Qed.

  (* exactly one of the three may go: 3 ready, 2 needed *)
  Example ex_gang_vote_one : gang_vote s0 [t1; t2; t3] = [t1].
  Proof. vm_compute. reflexivity. Qed.

  (* the premise [0 < k] of gang_vote_keeps_min is met with k = 1, and the bound is tight *)
  Example ex_gang_keeps_min :
    job_count 1%positive (gang_vote s0 [t1; t2; t3]) = 1 /\
    j_min j1 = ready_num (j_index j1) - 1.
  Proof. vm_compute. split; reflexivity. Qed.

  (* the order of enumeration decides who is offered *)
  Example ex_gang_vote_order : gang_vote s0 [t3; t1; t2] = [t3].
  Proof. vm_compute. reflexivity. Qed.

  (* tier walk: gang + conformance in one tier, preemptor of another (unknown-priority) job *)
  Let E0 : env :=
    mkEnv [[mkPlug KConf true true; mkPlug KGang true true]] ∅ ∅ {[12%positive]} ∅ [] [].
  Let pre0 : task :=
    mkTask 21%positive 2%positive 1%positive 1%positive 9 r1 r1 false true Pending None.

  Example ex_victims : victims 1 E0 AInter s0 pre0 [t1; t2; t3] = [t1].
  Proof. vm_compute. reflexivity. Qed.

  (* with t1 critical instead, the tier's agreement is empty and nobody is selected *)
  Let E1 : env :=
    mkEnv [[mkPlug KConf true true; mkPlug KGang true true]] ∅ ∅ {[11%positive]} ∅ [] [].
  Example ex_victims_none : victims 1 E1 AInter s0 pre0 [t1; t2; t3] = [].
  Proof. vm_compute. reflexivity. Qed.

  (* proportion: queue 1 deserves 2000; its share is 3000; one victim brings it to 2000 <= deserved *)
  Let E2 : env :=
    mkEnv [[mkPlug KProp true true]] ∅ ∅ ∅
          {[1%positive := mkQx true true true (mkRes 2000 2000 None) (mkRes 2000 2000 None) (mkRes 2000 2000 None)
                                  false empty_res empty_res empty_res]} [] [].
  Example ex_prop_vote : prop_vote 1 E2 s0 [t1; t2; t3] = [t1].
  Proof. vm_compute. reflexivity. Qed.
End Examples.

(* ------------------------------------------------------------------ *)
(* Round 9: JobPipelined with role minimums.  With gang configured in some tier a job statement is
   committed only if gang's vote permits, and that vote includes CheckTaskPipelined, which ranges
   over TaskMinAvailable (j_role_min): EVERY role with a minimum, a role without a single occupied
   pod included, has reached it (unless the role minimums exceed minMember in total, in which case
   the code does not look at them). *)
Definition is_gang (pl : plug) : bool := match p_kind pl with KGang => true | _ => false end.
Definition gang_in (ts : list (list plug)) : bool := existsb (existsb is_gang) ts.
Definition pip_slot (g : bool) (pl : plug) : slot Z :=
  match p_kind pl with
  | KGang => mkSlot true true (if g then 1 else -1)
  | _ => mkSlot true false 0
  end.

Lemma pipelined_layout_eq E s j :
  pipelined_layout E s j = map (map (pip_slot (gang_job_pipelined (heap s) j))) (e_tiers E).
Proof. reflexivity. Qed.

Lemma vote_tier_reject t hf :
  vote_tier hf (map (pip_slot false) t) = if existsb is_gang t then None else Some hf.
Proof.
  revert hf. induction t as [|a t IH]; intros hf; [reflexivity|].
  cbn [map existsb vote_tier]. unfold pip_slot at 1 2 3, is_gang at 1.
  destruct (p_kind a); cbn; apply IH || reflexivity.
Qed.

Lemma vote_tiers_reject ts : gang_in ts = true -> vote_tiers (map (map (pip_slot false)) ts) = false.
Proof.
  unfold gang_in. induction ts as [|t ts IH]; [discriminate|].
  cbn [map existsb vote_tiers]. rewrite vote_tier_reject.
  destruct (existsb is_gang t); [reflexivity|]. cbn. exact IH.
Qed.

Lemma pipelined_now_gang E s j :
  gang_in (e_tiers E) = true -> job_pipelined_now E s j = true -> gang_job_pipelined (heap s) j = true.
Proof.
  intros Hg. unfold job_pipelined_now. rewrite pipelined_layout_eq.
  destruct (gang_job_pipelined (heap s) j); [reflexivity|].
  rewrite (vote_tiers_reject _ Hg). discriminate.
Qed.

Lemma gang_pipelined_roles h j :
  gang_job_pipelined h j = true ->
  is_pipelined h (j_index j) (j_min j) = true /\
  (j_role_total j <= j_min j ->
   forall r m, j_role_min j !! r = Some m -> m <= role_occupied h (j_index j) true r).
Proof.
  unfold gang_job_pipelined, check_task_pipelined, roles_ok.
  intros [Hr Hp]%andb_true_iff. split; [exact Hp|].
  intros Hle r m Hm.
  rewrite bool_decide_eq_false_2 in Hr by lia.
  apply bool_decide_eq_true_1 in Hr. specialize (Hr r m Hm). cbn beta in Hr.
  apply bool_decide_eq_true_1 in Hr. exact Hr.
Qed.

(* the statement on close_job: a job statement whose records survive (the statement was committed)
   belongs to a job that reached minMember AND every role minimum, counting pipelined pods *)
Lemma committed_job_reached_role_minimums eps E s jid j lg s' lg' :
  jobs s !! jid = Some j -> gang_in (e_tiers E) = true ->
  close_job eps E s jid lg = (s', lg') -> lg' <> [] ->
  is_pipelined (heap s) (j_index j) (j_min j) = true /\
  (j_role_total j <= j_min j ->
   forall r m, j_role_min j !! r = Some m -> m <= role_occupied (heap s) (j_index j) true r).
Proof.
  intros Hj Hg. unfold close_job. rewrite Hj.
  destruct (job_pipelined_now E s j) eqn:Hp; intros [= <- <-] Hne; [|congruence].
  apply gang_pipelined_roles, (pipelined_now_gang E); assumption.
Qed.

(* ------------------------------------------------------------------ *)
(* Third audit E13: what a victim returned by the drf vote MEANS, tied to drf_vote itself: the candidate
   list splits at the victim, and the preemptor job's share (with the preemptor) is below, or within
   shareDelta of, the share of what the victim's job holds (handler ledger) minus the requests of ALL
   candidates of that job up to and including the victim - whether those were returned or not. *)
Definition drf_left (s : sess) (seen : list task) (j : positive) : res :=
  fold_left (fun a x => sub a (t_req x)) (filter (fun x => t_job x = j) seen) (default empty_res (hshare s !! j)).

Lemma drf_go_tr_meaning eps s ls l : forall seen al c left,
  (forall j, default (default empty_res (hshare s !! j)) (al !! j) = drf_left s seen j) ->
  (c, left) ∈ drf_go_tr eps s ls al l ->
  exists pre post, l = pre ++ c :: post /\ jobs s !! t_job c <> None /\
    left = drf_left s (seen ++ pre ++ [c]) (t_job c) /\
    drf_lets_go ls (dom_share eps left (total_res s)) = true.
Proof.
  induction l as [|c0 r IH]; intros seen al c left Inv; simpl; [intros H; inversion H|].
  destruct (jobs s !! t_job c0) as [j0|] eqn:Hj0.
  - assert (Inv' : forall j, default (default empty_res (hshare s !! j))
                (<[t_job c0 := sub (default (default empty_res (hshare s !! t_job c0)) (al !! t_job c0)) (t_req c0)]> al !! j)
              = drf_left s (seen ++ [c0]) j).
    { intros j. unfold drf_left. rewrite filter_app, fold_left_app.
      destruct (decide (t_job c0 = j)) as [<-|Hne].
      - rewrite lookup_insert. rewrite filter_cons_True by reflexivity. rewrite filter_nil. simpl.
        rewrite Inv. reflexivity.
      - rewrite lookup_insert_ne by exact Hne. rewrite filter_cons_False by exact Hne. rewrite filter_nil. simpl.
        apply Inv. }
    assert (Tail : (c, left) ∈ drf_go_tr eps s ls
              (<[t_job c0 := sub (default (default empty_res (hshare s !! t_job c0)) (al !! t_job c0)) (t_req c0)]> al) r ->
            exists pre post, c0 :: r = pre ++ c :: post /\ jobs s !! t_job c <> None /\
              left = drf_left s (seen ++ pre ++ [c]) (t_job c) /\
              drf_lets_go ls (dom_share eps left (total_res s)) = true).
    { intros H. destruct (IH _ _ _ _ Inv' H) as (pre & post & -> & Hk & Hl & Hd).
      exists (c0 :: pre), post. split; [reflexivity|]. split; [exact Hk|]. split; [|exact Hd].
      rewrite Hl. f_equal. rewrite <- app_assoc. reflexivity. }
    destruct (drf_lets_go ls (dom_share eps (sub _ _) _)) eqn:Hd; [|exact Tail].
    intros H. apply elem_of_cons in H as [[= -> ->]|H]; [|exact (Tail H)].
    exists [], r. split; [reflexivity|]. split; [rewrite Hj0; discriminate|]. split; [|exact Hd].
    simpl. rewrite <- Inv'. rewrite lookup_insert. reflexivity.
  - intros H. destruct (IH _ _ _ _ Inv H) as (pre & post & -> & Hk & Hl & Hd).
    exists (c0 :: pre), post. split; [reflexivity|]. split; [exact Hk|]. split; [|exact Hd].
    rewrite Hl. unfold drf_left. f_equal. rewrite !filter_app.
    rewrite (filter_cons_False _ c0); [reflexivity|]. intros Heq. rewrite Heq in Hj0. contradiction.
Qed.

Lemma drf_vote_victim_meaning eps s p l c :
  c ∈ drf_vote eps s p l ->
  exists pre post, l = pre ++ c :: post /\
    drf_lets_go (drf_ls eps s p) (dom_share eps (drf_left s (pre ++ [c]) (t_job c)) (total_res s)) = true.
Proof.
  unfold drf_vote. destruct (jobs s !! t_job p); [|intros H; inversion H].
  intros H. apply elem_of_list_fmap in H as ([c' left] & -> & H).
  apply (drf_go_tr_meaning eps s _ l []) in H as (pre & post & Hl & _ & Hleft & Hd).
  - exists pre, post. split; [exact Hl|]. rewrite Hleft in Hd. exact Hd.
  - intros j'. rewrite lookup_empty. reflexivity.
Qed.
