(* C04 - "evictions are issued only together with a placement", on the FINAL SESSION: along every run of
   the preempt / reclaim skeleton from a well-formed session, the preemptor of every committed node
   attempt is Pipelined on that attempt's node in the session the actions leave behind. *)
From V Require Import C11.Model.
From stdpp Require Import gmap.
From Coq Require Import ZArith Lia.
From V Require Import Base.Res Sched.LedgerModel Sched.StmtModel Sched.GangModel
                      C04.Model C04.Frame C04.VoteLemmas C04.Lemmas C04.Eligible C04.Placed.
Open Scope Z_scope.

Definition busy (st : status) : Prop := st = Running \/ st = Bound \/ st = Releasing.
Definition busy_at (s : sess) (i : positive) : Prop := exists q, heap s !! i = Some q /\ busy (t_status q).

(* task objects that are Pipelined in s are the same objects in s' *)
Definition keep_pip (s s' : sess) : Prop :=
  forall j q, heap s !! j = Some q -> t_status q = Pipelined -> heap s' !! j = Some q.
(* tasks that are Running / Bound / Releasing in s are so in s' *)
Definition keep_busy (s s' : sess) : Prop := forall j, busy_at s j -> busy_at s' j.

Definition tr (s s' : sess) : Prop := wf s' /\ keep_pip s s' /\ keep_busy s s'.

Lemma tr_refl s : wf s -> tr s s.
Proof. intros H. split; [exact H|]. split; [intros j q Hq _; exact Hq|intros j Hj; exact Hj]. Qed.

Lemma tr_trans s1 s2 s3 : tr s1 s2 -> tr s2 s3 -> tr s1 s3.
Proof.
  intros (_ & a & b) (w & c & d). split; [exact w|]. split.
  - intros j q Hq Hs. apply (c j q); auto.
  - intros j Hj. apply d, b, Hj.
Qed.

Lemma tr_same_heap s s' : wf s' -> heap s' = heap s -> tr s s'.
Proof.
  intros Hw Hh. split; [exact Hw|]. split.
  - intros j q Hq _. rewrite Hh. exact Hq.
  - intros j (q & Hq & Hb). exists q. rewrite Hh. auto.
Qed.

Lemma busy_not_pip st : busy st -> st <> Pipelined /\ st <> Pending.
Proof. intros [->|[->| ->]]; split; discriminate. Qed.

(* an operation that only changes the entry of task i, which is busy before and after *)
Lemma tr_busy_entry s s' i : wf s' -> hframe s s' i -> busy_at s i -> busy_at s' i -> tr s s'.
Proof.
  intros Hw Hf (t & Ht & Hb) Hb'. split; [exact Hw|]. split.
  - intros j q Hq Hs. destruct (decide (j = i)) as [->|Hne]; [|rewrite (Hf j Hne); exact Hq].
    rewrite Ht in Hq. injection Hq as <-. destruct (busy_not_pip _ Hb). contradiction.
  - intros j Hj. destruct (decide (j = i)) as [->|Hne]; [exact Hb'|].
    destruct Hj as (q & Hq & Hbq). exists q. rewrite (Hf j Hne). auto.
Qed.

Section WithEps.
Variable eps : Z.
Variable E : env.

Lemma evict_tr s sid c :
  wf s -> agree s c -> busy (t_status c) ->
  tr s (fst (stmt_evict_with eps s sid c None)) /\ hframe s (fst (stmt_evict_with eps s sid c None)) (t_id c) /\
  busy_at (fst (stmt_evict_with eps s sid c None)) (t_id c).
Proof.
  intros Hwf Ha Hb. destruct (evict_wf eps s sid c Hwf Ha) as (Hw & Hf & q & Hq & Hqq).
  assert (Hb' : busy_at (fst (stmt_evict_with eps s sid c None)) (t_id c)).
  { exists q. split; [exact Hq|]. destruct Hqq as [-> | ->]; [right; right; reflexivity|exact Hb]. }
  split; [|auto]. apply (tr_busy_entry _ _ (t_id c)); auto.
  destruct Ha as (t & Ht & _ & Hst). exists t. rewrite Hst. auto.
Qed.

Lemma restore_busy prev : busy (restore_status prev).
Proof. unfold busy. destruct prev; simpl; auto. Qed.

Lemma unevict_tr s i p prev :
  wf s -> heap s !! i = Some p -> busy (t_status p) -> tr s (fst (unevict_with eps s p prev)).
Proof.
  intros Hwf Hp Hb. destruct (unevict_wf eps s i p prev Hwf Hp) as (Hw & Hf & q & Hq & Hqq).
  apply (tr_busy_entry _ _ i); auto.
  - exists p. auto.
  - exists q. split; [exact Hq|]. destruct Hqq as [-> | ->]; [apply restore_busy|exact Hb].
Qed.

(* the operations of a statement that Commit / a node-level Discard meet: evictions of tasks that are still
   busy, and (Commit only) pipelines *)
Definition op_fine (s : sess) (o : oprec) : Prop :=
  (op_kind o = KEvict /\ busy_at s (op_task o)) \/ op_kind o = KPipeline.
Definition ev_fine (s : sess) (o : oprec) : Prop := op_kind o = KEvict /\ busy_at s (op_task o).

Lemma undo_ev_tr s o : wf s -> ev_fine s o -> tr s (undo_op eps s o).
Proof.
  intros Hwf (Hk & q & Hq & Hb). unfold undo_op. rewrite Hq, Hk. apply (unevict_tr s (op_task o)); auto.
Qed.

Lemma commit_op_tr s o : wf s -> op_fine s o -> tr s (commit_op eps s o).
Proof.
  intros Hwf [(Hk & q & Hq & Hb)|Hk]; unfold commit_op.
  - rewrite Hq, Hk. destruct (bool_decide (t_id q ∈ refuse_evict s)); [apply (unevict_tr s (op_task o)); auto|].
    apply tr_same_heap; [eapply wf_fields; [| |exact Hwf]; reflexivity|reflexivity].
  - destruct (heap s !! op_task o); [rewrite Hk|]; apply tr_refl, Hwf.
Qed.

Lemma fold_tr (f : sess -> oprec -> sess) (Q : sess -> oprec -> Prop) :
  (forall s o, wf s -> Q s o -> tr s (f s o)) ->
  (forall s s' o, keep_busy s s' -> Q s o -> Q s' o) ->
  forall l s, wf s -> (forall o, o ∈ l -> Q s o) -> tr s (fold_left f l s).
Proof.
  intros Hf Hq. induction l as [|o l IH]; intros s Hwf Hl; simpl; [apply tr_refl, Hwf|].
  assert (H1 : tr s (f s o)) by (apply Hf; [exact Hwf|apply Hl; left]).
  eapply tr_trans; [exact H1|]. apply IH; [apply H1|].
  intros o' Ho'. apply (Hq s); [apply H1|apply Hl; right; exact Ho'].
Qed.

Lemma ev_fine_keep s s' o : keep_busy s s' -> ev_fine s o -> ev_fine s' o.
Proof. intros Hk [a b]. split; auto. Qed.
Lemma op_fine_keep s s' o : keep_busy s s' -> op_fine s o -> op_fine s' o.
Proof. intros Hk [[a b]|a]; [left; split; auto|right; auto]. Qed.

(* Discard of a statement that holds evictions only *)
Lemma discard_ev_tr s sid : wf s -> (forall o, o ∈ ops s sid -> ev_fine s o) -> tr s (stmt_discard eps s sid).
Proof.
  intros Hwf Hl. unfold stmt_discard.
  pose proof (fold_tr (undo_op eps) ev_fine undo_ev_tr ev_fine_keep (rev (default [] (stmts s !! sid))) s Hwf) as H.
  assert (Ht : tr s (fold_left (undo_op eps) (rev (default [] (stmts s !! sid))) s)).
  { apply H. intros o Ho. apply Hl. unfold ops. apply elem_of_list_In. apply elem_of_list_In, in_rev in Ho. exact Ho. }
  eapply tr_trans; [exact Ht|]. apply tr_same_heap; [eapply wf_fields; [| |apply Ht]; reflexivity|reflexivity].
Qed.

Lemma commit_tr s sid : wf s -> (forall o, o ∈ ops s sid -> op_fine s o) -> tr s (stmt_commit eps s sid).
Proof.
  intros Hwf Hl. unfold stmt_commit.
  assert (Ht : tr s (fold_left (commit_op eps) (default [] (stmts s !! sid)) s)).
  { apply (fold_tr (commit_op eps) op_fine commit_op_tr op_fine_keep); auto. }
  eapply tr_trans; [exact Ht|]. apply tr_same_heap; [eapply wf_fields; [| |apply Ht]; reflexivity|reflexivity].
Qed.

(* Statement.Pipeline of a Pending task *)
Lemma pipeline_tr s sid tid nid p :
  wf s -> heap s !! tid = Some p -> t_status p = Pending ->
  tr s (fst (stmt_pipeline eps s sid tid nid)) /\
  exists q, heap (fst (stmt_pipeline eps s sid tid nid)) !! tid = Some q /\
    (snd (stmt_pipeline eps s sid tid nid) = ROk -> t_status q = Pipelined /\ t_node q = Some nid) /\
    (snd (stmt_pipeline eps s sid tid nid) <> ROk -> t_status q = Pending).
Proof.
  intros Hwf Hp Hst. destruct (stmt_pipeline_wf eps s sid tid nid p Hwf Hp Hst) as (Hw & Hf & q & Hq & H1 & H2).
  split; [|exists q; split; [exact Hq|split; [exact H1|intros H; apply H2, H]]].
  split; [exact Hw|]. split.
  - intros j t Ht Hs. destruct (decide (j = tid)) as [->|Hne]; [|rewrite (Hf j Hne); exact Ht].
    rewrite Hp in Ht. injection Ht as <-. congruence.
  - intros j (t & Ht & Hb). destruct (decide (j = tid)) as [->|Hne]; [|exists t; rewrite (Hf j Hne); auto].
    rewrite Hp in Ht. injection Ht as <-. destruct (busy_not_pip _ Hb). congruence.
Qed.

(* ---- the eviction loops ---- *)
Definition cand_fine (s : sess) (c : task) : Prop := agree s c /\ busy (t_status c).

Lemma agree_frame s s' c i : hframe s s' i -> t_id c <> i -> agree s c -> agree s' c.
Proof. intros Hf Hne (t & Ht & a & b). exists t. rewrite (Hf _ Hne). auto. Qed.

Lemma loop_step s c tid p (vs done : list task) x :
  wf s -> (forall c, c ∈ vs -> cand_fine s c) -> (forall c, c ∈ done -> busy_at s (t_id c)) ->
  heap s !! tid = Some p -> t_status p = Pending ->
  find_task vs x = Some c ->
  let s1 := fst (stmt_evict_with eps s nsid c None) in
  tr s s1 /\ (forall c', c' ∈ filter (fun v => bool_decide (t_id v = x) = false) vs -> cand_fine s1 c') /\
  (forall c', c' ∈ done ++ [c] -> busy_at s1 (t_id c')) /\ heap s1 !! tid = Some p.
Proof.
  intros Hwf Hvs Hdone Hp Hst Hf s1. destruct (find_task_in _ _ _ Hf) as [Hc Hx].
  destruct (Hvs c Hc) as [Ha Hb]. destruct (evict_tr s nsid c Hwf Ha Hb) as (Ht & Hfr & Hbe).
  split; [exact Ht|]. split; [|split].
  - intros c' Hc'. apply elem_of_list_filter in Hc' as [Hne Hin]. apply bool_decide_eq_false in Hne.
    destruct (Hvs c' Hin) as [Ha' Hb']. split; [|exact Hb'].
    apply (agree_frame s s1 c' (t_id c) Hfr); [congruence|exact Ha'].
  - intros c' Hc'. apply elem_of_app in Hc' as [Hc'|Hc'].
    + apply Ht, Hdone, Hc'.
    + apply elem_of_list_singleton in Hc' as ->. exact Hbe.
  - rewrite Hfr; [exact Hp|]. intros ->. destruct Ha as (t & Ht' & _ & Hs'). rewrite Hp in Ht'. injection Ht' as <-.
    rewrite Hst in Hs'. rewrite <- Hs' in Hb. destruct (busy_not_pip _ Hb). congruence.
Qed.

Lemma loop_pre_tr tid p order : forall s pq pp nid vs done s' done' v,
  wf s -> (forall c, c ∈ vs -> cand_fine s c) -> (forall c, c ∈ done -> busy_at s (t_id c)) ->
  heap s !! tid = Some p -> t_status p = Pending ->
  evict_loop_pre eps E s pq pp nid vs order done = (s', done', v) ->
  tr s s' /\ (forall c, c ∈ done' -> busy_at s' (t_id c)) /\ heap s' !! tid = Some p.
Proof.
  induction order as [|x order IH]; intros s pq pp nid vs done s' done' v Hwf Hvs Hdone Hp Hst; simpl.
  - destruct (preemptor_fits eps E s pq pp nid); intros [= <- <- <-]; (split; [apply tr_refl, Hwf|auto]).
  - destruct (preemptor_fits eps E s pq pp nid); [intros [= <- <- <-]; split; [apply tr_refl, Hwf|auto]|].
    destruct (find_task vs x) as [c|] eqn:Hf; [|intros [= <- <- <-]; split; [apply tr_refl, Hwf|auto]].
    destruct (loop_step s c tid p vs done x Hwf Hvs Hdone Hp Hst Hf) as (Ht & Hvs' & Hd' & Hp').
    destruct (stmt_evict_with eps s nsid c None) as [s1 r1]. simpl in *.
    intros H. destruct (IH _ _ _ _ _ _ _ _ _ (proj1 Ht) Hvs' Hd' Hp' Hst H) as (a & b & c0).
    split; [eapply tr_trans; eauto|auto].
Qed.

Lemma loop_rec_tr tid p order : forall s pp avail vs done s' done' avail' v,
  wf s -> (forall c, c ∈ vs -> cand_fine s c) -> (forall c, c ∈ done -> busy_at s (t_id c)) ->
  heap s !! tid = Some p -> t_status p = Pending ->
  evict_loop_rec eps s pp avail vs order done = (s', done', avail', v) ->
  tr s s' /\ (forall c, c ∈ done' -> busy_at s' (t_id c)) /\ heap s' !! tid = Some p.
Proof.
  induction order as [|x order IH]; intros s pp avail vs done s' done' avail' v Hwf Hvs Hdone Hp Hst; simpl.
  - destruct (less_equal eps (t_init pp) avail DZero); intros [= <- <- <- <-]; (split; [apply tr_refl, Hwf|auto]).
  - destruct (less_equal eps (t_init pp) avail DZero); [intros [= <- <- <- <-]; split; [apply tr_refl, Hwf|auto]|].
    destruct (find_task vs x) as [c|] eqn:Hf; [|intros [= <- <- <- <-]; split; [apply tr_refl, Hwf|auto]].
    destruct (loop_step s c tid p vs done x Hwf Hvs Hdone Hp Hst Hf) as (Ht & Hvs' & Hd' & Hp').
    destruct (stmt_evict_with eps s nsid c None) as [s1 r1]. simpl in *.
    intros H. destruct (IH _ _ _ _ _ _ _ _ _ (proj1 Ht) Hvs' Hd' Hp' Hst H) as (a & b & c0).
    split; [eapply tr_trans; eauto|auto].
Qed.

Lemma loop_all_tr tid p order : forall s vs done s' done' v,
  wf s -> (forall c, c ∈ vs -> cand_fine s c) -> (forall c, c ∈ done -> busy_at s (t_id c)) ->
  heap s !! tid = Some p -> t_status p = Pending ->
  evict_all eps s vs order done = (s', done', v) ->
  tr s s' /\ (forall c, c ∈ done' -> busy_at s' (t_id c)) /\ heap s' !! tid = Some p.
Proof.
  induction order as [|x order IH]; intros s vs done s' done' v Hwf Hvs Hdone Hp Hst; simpl.
  - intros [= <- <- <-]. split; [apply tr_refl, Hwf|auto].
  - destruct (find_task vs x) as [c|] eqn:Hf; [|intros [= <- <- <-]; split; [apply tr_refl, Hwf|auto]].
    destruct (loop_step s c tid p vs done x Hwf Hvs Hdone Hp Hst Hf) as (Ht & Hvs' & Hd' & Hp').
    destruct (stmt_evict_with eps s nsid c None) as [s1 r1]. simpl in *.
    intros H. destruct (IH _ _ _ _ _ _ (proj1 Ht) Hvs' Hd' Hp' Hst H) as (a & b & c0).
    split; [eapply tr_trans; eauto|auto].
Qed.

Lemma do_evictions_tr k s tid p pq a n vs s1 done fits v1 :
  wf s -> ops s nsid = [] -> (forall c, c ∈ vs -> cand_fine s c) ->
  heap s !! tid = Some p -> t_status p = Pending ->
  do_evictions eps E k s p pq a n vs = (s1, done, fits, v1) ->
  tr s s1 /\ (forall c, c ∈ done -> busy_at s1 (t_id c)) /\ heap s1 !! tid = Some p /\
  ops s1 nsid = map ev_op done.
Proof.
  intros Hwf Hn Hvs Hp Hst Hdo.
  destruct (do_evictions_spec eps E _ _ _ _ _ _ _ _ _ _ _ Hn Hdo) as (_ & _ & _ & _ & Hops & _).
  unfold do_evictions in Hdo. destruct (at_topo a && negb (is_reclaim k)).
  - destruct (evict_all eps s vs (at_order a) []) as [[s1' done'] v'] eqn:Hl. injection Hdo as <- <- <- <-.
    apply (loop_all_tr tid p) in Hl as (a1 & a2 & a3); auto. intros c Hc; inversion Hc.
  - destruct (is_reclaim k).
    + destruct (evict_loop_rec eps s p (future_idle n) vs (at_order a) []) as [[[s1' done'] av] v'] eqn:Hl.
      injection Hdo as <- <- <- <-. apply (loop_rec_tr tid p) in Hl as (a1 & a2 & a3); auto. intros c Hc; inversion Hc.
    + destruct (evict_loop_pre eps E s pq p (at_node a) vs (at_order a) []) as [[s1' done'] v'] eqn:Hl.
      injection Hdo as <- <- <- <-. apply (loop_pre_tr tid p) in Hl as (a1 & a2 & a3); auto. intros c Hc; inversion Hc.
Qed.

(* ---- one node attempt ---- *)
Lemma cand_ok_busy k s p pq c : cand_ok E k s p pq c = true -> busy (t_status c).
Proof.
  intros H. destruct k.
  - destruct (preempt_candidates_eligible E AInter s p pq c ltac:(discriminate) H) as ([?|?] & _); unfold busy; auto.
  - destruct (preempt_candidates_eligible E AIntra s p pq c ltac:(discriminate) H) as ([?|?] & _); unfold busy; auto.
  - destruct (reclaim_candidates_eligible E s p pq c H) as (? & _); unfold busy; auto.
Qed.

Lemma att_tr k s tid p pq a s' ok v lg :
  wf s -> ops s nsid = [] -> heap s !! tid = Some p -> t_status p = Pending -> t_id p = tid ->
  run_attempt eps E k s p pq a = (s', ok, v, lg) ->
  tr s s' /\
  (ok = true -> exists q, heap s' !! tid = Some q /\ t_status q = Pipelined /\ t_node q = Some (at_node a)) /\
  (ok = false -> exists p', heap s' !! tid = Some p' /\ t_status p' = Pending) /\
  (forall r, r ∈ lg -> a_pre r = s /\ a_task r = p /\ a_node r = at_node a /\
       (a_ok r = true -> ok = true /\ forall c, c ∈ a_evicted r -> busy_at s' (t_id c))).
Proof.
  intros Hwf Hn Hp Hst Hid. unfold run_attempt.
  assert (Hsame : tr s s /\ (true = true -> False -> True) /\ True) by (split; [apply tr_refl, Hwf|auto]).
  assert (Hnone : forall vv, (s, false, vv, @nil arec) = (s', ok, v, lg) ->
    tr s s' /\
    (ok = true -> exists q, heap s' !! tid = Some q /\ t_status q = Pipelined /\ t_node q = Some (at_node a)) /\
    (ok = false -> exists p', heap s' !! tid = Some p' /\ t_status p' = Pending) /\
    (forall r, r ∈ lg -> a_pre r = s /\ a_task r = p /\ a_node r = at_node a /\
         (a_ok r = true -> ok = true /\ forall c, c ∈ a_evicted r -> busy_at s' (t_id c)))).
  { intros vv [= <- <- <- <-]. split; [apply tr_refl, Hwf|]. split; [discriminate|]. split; [eauto|].
    intros r Hr. inversion Hr. }
  destruct (nodes s !! at_node a) as [n|] eqn:Hnode; [|apply Hnone].
  destruct (negb (same_ids _ _ && _ && _)); [apply Hnone|].
  set (cands := omap (find_task (node_cands E k s p pq n)) (at_cands a)).
  destruct (is_reclaim k && bool_decide (cands = [])); [apply Hnone|].
  set (vs := victims eps (with_qorder E (at_qorder a)) k s p cands).
  destruct (negb (less_equal eps (t_init p) (sum_reqs (future_idle n) vs) DZero)); [apply Hnone|].
  assert (Hvs : forall c, c ∈ vs -> cand_fine s c).
  { intros c Hc. apply victims_subset in Hc. apply omap_find_in in Hc. apply node_cands_in in Hc as [[i Hi] Hok].
    split; [apply (copy_agree s _ _ _ _ Hwf Hnode Hi)|apply (cand_ok_busy _ _ _ _ _ Hok)]. }
  destruct (do_evictions eps E k s p pq a n vs) as [[[s1 done] fits] v1] eqn:Hdo.
  destruct (do_evictions_tr _ _ tid _ _ _ _ _ _ _ _ _ Hwf Hn Hvs Hp Hst Hdo) as (Ht1 & Hb1 & Hp1 & Ho1).
  (* discarding the node statement from a state whose nsid operations are the evictions made so far *)
  assert (Hdisc : forall sx, tr s1 sx -> ops sx nsid = ops s1 nsid -> heap sx !! tid = Some p \/ (exists p', heap sx !! tid = Some p' /\ t_status p' = Pending) ->
            tr s (stmt_discard eps sx nsid) /\ exists p', heap (stmt_discard eps sx nsid) !! tid = Some p' /\ t_status p' = Pending).
  { intros sx Hx Hox Hpx.
    assert (Hfine : forall o, o ∈ ops sx nsid -> ev_fine sx o).
    { intros o Ho. rewrite Hox, Ho1 in Ho. apply elem_of_list_fmap in Ho as (c & -> & Hc).
      split; [reflexivity|]. apply Hx, Hb1, Hc. }
    pose proof (discard_ev_tr sx nsid (proj1 Hx) Hfine) as Hd.
    split; [eapply tr_trans; [exact Ht1|eapply tr_trans; [exact Hx|exact Hd]]|].
    assert (Hpe : exists p', heap sx !! tid = Some p' /\ t_status p' = Pending) by (destruct Hpx as [H|H]; [eauto|exact H]).
    destruct Hpe as (p' & Hp' & Hs').
    destruct (stmt_discard_wf eps sx nsid (proj1 Hx)) as [_ Hfr]. exists p'. split; [|exact Hs'].
    rewrite Hfr; [exact Hp'|]. intros o Ho Heq. destruct (Hfine o Ho) as (_ & q & Hq & Hbq).
    rewrite Heq, Hp' in Hq. injection Hq as <-. destruct (busy_not_pip _ Hbq). congruence. }
  assert (Hrec : forall b r, r ∈ [mkRec k s p pq (at_node a) cands (at_qorder a) done b] ->
            a_pre r = s /\ a_task r = p /\ a_node r = at_node a /\ a_ok r = b /\ a_evicted r = done).
  { intros b r Hr. apply elem_of_list_singleton in Hr as ->. simpl. auto. }
  assert (Hfail : forall sx lgx vv, tr s1 sx -> ops sx nsid = ops s1 nsid ->
            heap sx !! tid = Some p \/ (exists p', heap sx !! tid = Some p' /\ t_status p' = Pending) ->
            (forall r, r ∈ lgx -> a_pre r = s /\ a_task r = p /\ a_node r = at_node a /\ a_ok r = false) ->
            (stmt_discard eps sx nsid, false, vv, lgx) = (s', ok, v, lg) ->
    tr s s' /\
    (ok = true -> exists q, heap s' !! tid = Some q /\ t_status q = Pipelined /\ t_node q = Some (at_node a)) /\
    (ok = false -> exists p', heap s' !! tid = Some p' /\ t_status p' = Pending) /\
    (forall r, r ∈ lg -> a_pre r = s /\ a_task r = p /\ a_node r = at_node a /\
         (a_ok r = true -> ok = true /\ forall c, c ∈ a_evicted r -> busy_at s' (t_id c)))).
  { intros sx lgx vv Hx Hox Hpx Hl [= <- <- <- <-]. destruct (Hdisc sx Hx Hox Hpx) as [Hd Hpd].
    split; [exact Hd|]. split; [discriminate|]. split; [intros _; exact Hpd|].
    intros r Hr. destruct (Hl r Hr) as (r1 & r2 & r3 & r4). split; [auto|]. split; [auto|]. split; [auto|].
    rewrite r4. discriminate. }
  destruct (negb (v1 =? V_OK)).
  { apply (Hfail s1 [] v1 (tr_refl _ (proj1 Ht1)) eq_refl (or_introl Hp1)). intros r Hr; inversion Hr. }
  destruct fits.
  2:{ apply (Hfail s1 _ V_OK (tr_refl _ (proj1 Ht1)) eq_refl (or_introl Hp1)).
      intros r Hr. destruct (Hrec _ _ Hr) as (? & ? & ? & ? & _). auto. }
  set (s1f := set_fault E s1 (t_id p) (at_node a)).
  destruct (set_fault_wf E s1 (t_id p) (at_node a) (proj1 Ht1)) as [Hwf1f Hh1f]. fold s1f in Hwf1f, Hh1f.
  assert (Htf : tr s1 s1f) by (apply tr_same_heap; auto).
  assert (Hp1f : heap s1f !! tid = Some p) by (rewrite Hh1f; exact Hp1).
  rewrite Hid.
  destruct (pipeline_tr s1f nsid tid (at_node a) p Hwf1f Hp1f Hst) as (Htp & q & Hq & Hq1 & Hq2).
  pose proof (stmt_pipeline_spec eps s1f nsid tid (at_node a)) as Hspec.
  destruct (stmt_pipeline eps s1f nsid tid (at_node a)) as [s2 r] eqn:Hpipe. simpl in *.
  specialize (Hspec _ _ eq_refl). destruct Hspec as (_ & _ & _ & _ & Hst5).
  assert (Hbad : r <> ROk -> (stmt_discard eps s2 nsid, false, V_OK, [mkRec k s p pq (at_node a) cands (at_qorder a) done false]) = (s', ok, v, lg) ->
    tr s s' /\
    (ok = true -> exists q, heap s' !! tid = Some q /\ t_status q = Pipelined /\ t_node q = Some (at_node a)) /\
    (ok = false -> exists p', heap s' !! tid = Some p' /\ t_status p' = Pending) /\
    (forall r, r ∈ lg -> a_pre r = s /\ a_task r = p /\ a_node r = at_node a /\
         (a_ok r = true -> ok = true /\ forall c, c ∈ a_evicted r -> busy_at s' (t_id c)))).
  { intros Hr. apply (Hfail s2 _ V_OK (tr_trans _ _ _ Htf Htp)).
    - unfold ops. rewrite (Hst5 Hr). reflexivity.
    - right. exists q. split; [exact Hq|apply Hq2, Hr].
    - intros r0 Hr0. destruct (Hrec _ _ Hr0) as (? & ? & ? & ? & _). auto. }
  destruct r; try (apply Hbad; discriminate).
  (* success: merge *)
  intros [= <- <- <- <-]. destruct (stmt_merge_wf s2 jsid nsid (proj1 Htp)) as [Hwm Hhm].
  assert (Htm : tr s (stmt_merge s2 jsid nsid)).
  { eapply tr_trans; [exact Ht1|]. eapply tr_trans; [exact Htf|]. eapply tr_trans; [exact Htp|]. apply tr_same_heap; auto. }
  split; [exact Htm|]. split.
  { intros _. exists q. rewrite Hhm. destruct (Hq1 eq_refl). auto. }
  split; [discriminate|].
  intros r Hr. destruct (Hrec _ _ Hr) as (r1 & r2 & r3 & r4 & r5). split; [auto|]. split; [auto|]. split; [auto|].
  intros _. split; [reflexivity|]. rewrite r5. intros c Hc.
  assert (Hk : keep_busy s1 (stmt_merge s2 jsid nsid)).
  { intros j Hj. destruct Htf as (_ & _ & k1). destruct Htp as (_ & _ & k2). apply k1, k2 in Hj.
    destruct Hj as (q0 & Hq0 & Hb0). exists q0. rewrite Hhm. auto. }
  apply Hk, Hb1, Hc.
Qed.

(* ---- the node loop, the task loop ---- *)
Definition placed (s : sess) (r : arec) : Prop :=
  exists q, heap s !! t_id (a_task r) = Some q /\ t_status q = Pipelined /\ t_node q = Some (a_node r).
Definition pip_at (s : sess) (i : positive) : Prop := exists q, heap s !! i = Some q /\ t_status q = Pipelined.
Definition ev_busy (s : sess) (r : arec) : Prop := forall c, c ∈ a_evicted r -> busy_at s (t_id c).

Lemma placed_keep s s' r : keep_pip s s' -> placed s r -> placed s' r.
Proof. intros Hk (q & Hq & a & b). exists q. split; [apply Hk; auto|auto]. Qed.
Lemma ev_busy_keep s s' r : keep_busy s s' -> ev_busy s r -> ev_busy s' r.
Proof. intros Hk H c Hc. apply Hk, H, Hc. Qed.

Lemma atts_tr k tid pq l : forall s p s' ok v lg,
  wf s -> ops s nsid = [] -> heap s !! tid = Some p -> t_status p = Pending ->
  run_attempts eps E k s tid pq l = (s', ok, v, lg) ->
  tr s s' /\ ops s' nsid = [] /\
  (ok = false -> exists p', heap s' !! tid = Some p' /\ t_status p' = Pending) /\
  (forall r, r ∈ lg -> wf (a_pre r) /\ t_id (a_task r) = tid /\
       (a_ok r = true -> placed s' r /\ ev_busy s' r)).
Proof.
  induction l as [|a l IH]; intros s p s' ok v lg Hwf Hn Hp Hst; simpl.
  - intros [= <- <- <- <-]. split; [apply tr_refl, Hwf|]. split; [exact Hn|]. split; [eauto|]. intros r Hr; inversion Hr.
  - rewrite Hp. pose proof Hwf as (Hok & _). pose proof (Hok _ _ Hp) as Hid.
    destruct (run_attempt eps E k s p pq a) as [[[s1 ok1] v1] lg1] eqn:Ha.
    pose proof (run_attempt_spec eps E _ _ _ _ _ _ _ _ _ Hn Ha) as [(_ & _ & _ & Hn1 & _) _].
    apply (att_tr k s tid p pq a) in Ha as (Ht & Hok1 & Hno1 & Hr1); auto.
    assert (Hrecs : forall r, r ∈ lg1 -> wf (a_pre r) /\ t_id (a_task r) = tid /\ (a_ok r = true -> placed s1 r /\ ev_busy s1 r)).
    { intros r Hr. destruct (Hr1 r Hr) as (r1 & r2 & r3 & r4). split; [rewrite r1; exact Hwf|]. split; [rewrite r2; exact Hid|].
      intros Hk. destruct (r4 Hk) as [-> Hb]. split; [|exact Hb].
      destruct (Hok1 eq_refl) as (q & Hq & a1 & a2). exists q. rewrite r2, r3, Hid. auto. }
    destruct (negb (v1 =? V_OK)); [intros [= <- <- <- <-]; auto|].
    destruct ok1.
    + intros [= <- <- <- <-]. split; [exact Ht|]. split; [exact Hn1|]. split; [discriminate|exact Hrecs].
    + destruct (Hno1 eq_refl) as (p' & Hp' & Hs').
      destruct (run_attempts eps E k s1 tid pq l) as [[[s2 ok2] v2] lg2] eqn:Hr.
      apply (IH s1 p') in Hr as (Ht2 & Hn2 & Hno2 & Hr2); auto; [|apply Ht].
      intros [= <- <- <- <-]. split; [eapply tr_trans; eauto|]. split; [exact Hn2|]. split; [exact Hno2|].
      intros r Hr. apply elem_of_app in Hr as [Hr|Hr]; [|apply Hr2, Hr].
      destruct (Hrecs r Hr) as (r1 & r2 & r3). split; [exact r1|]. split; [exact r2|].
      intros Hk. destruct (Hr1 r Hr) as (_ & _ & _ & r4). destruct (r4 Hk). discriminate.
Qed.

Definition rec_fine (s0 s' : sess) (r : arec) : Prop :=
  wf (a_pre r) /\ (a_ok r = true -> placed s' r /\ ev_busy s' r /\ ~ pip_at s0 (t_id (a_task r))).

Lemma tasks_tr k jid l : forall s s' v lg,
  wf s -> ops s nsid = [] ->
  run_tasks eps E k s jid l = (s', v, lg) ->
  tr s s' /\ ops s' nsid = [] /\ forall r, r ∈ lg -> rec_fine s s' r.
Proof.
  induction l as [|[tid atts] l IH]; intros s s' v lg Hwf Hn; simpl.
  - intros [= <- <- <-]. split; [apply tr_refl, Hwf|]. split; [exact Hn|]. intros r Hr; inversion Hr.
  - assert (Hnone : forall vv, (s, vv, @nil arec) = (s', v, lg) ->
              tr s s' /\ ops s' nsid = [] /\ forall r, r ∈ lg -> rec_fine s s' r).
    { intros vv [= <- <- <-]. split; [apply tr_refl, Hwf|]. split; [exact Hn|]. intros r Hr; inversion Hr. }
    destruct (jobs s !! jid) as [j|]; [|apply Hnone].
    destruct (heap s !! tid) as [p|] eqn:Hp; [|apply Hnone].
    destruct (negb (job_starving_now E s j)); [apply Hnone|].
    destruct (bool_decide (t_status p = Pending) && bool_decide (t_job p = jid)) eqn:Hpend; [|apply Hnone].
    apply andb_true_iff in Hpend as [Hst _]. apply bool_decide_eq_true in Hst. simpl.
    destruct (is_reclaim k && negb (queue_preemptive eps E s (j_queue j) p)); [apply Hnone|].
    destruct (run_attempts eps E k s tid (j_queue j) atts) as [[[s1 ok1] v1] lg1] eqn:Ha.
    apply (atts_tr k tid (j_queue j) atts s p) in Ha as (Ht & Hn1 & _ & Hr1); auto.
    assert (Hrecs : forall s2, tr s1 s2 -> forall r, r ∈ lg1 -> rec_fine s s2 r).
    { intros s2 (_ & k1 & k2) r Hr. destruct (Hr1 r Hr) as (r1 & r2 & r3). split; [exact r1|].
      intros Hk. destruct (r3 Hk) as [Hpl Hb]. split; [apply (placed_keep s1); auto|]. split; [apply (ev_busy_keep s1); auto|].
      rewrite r2. intros (q & Hq & Hsq). rewrite Hp in Hq. injection Hq as <-. congruence. }
    destruct (negb (v1 =? V_OK)).
    { intros [= <- <- <-]. split; [exact Ht|]. split; [exact Hn1|]. apply Hrecs, tr_refl, Ht. }
    destruct (run_tasks eps E k s1 jid l) as [[s2 v2] lg2] eqn:Hr.
    apply IH in Hr as (Ht2 & Hn2 & Hr2); [|apply Ht|exact Hn1].
    intros [= <- <- <-]. split; [eapply tr_trans; eauto|]. split; [exact Hn2|].
    intros r Hr. apply elem_of_app in Hr as [Hr|Hr]; [apply (Hrecs s2 Ht2 r Hr)|].
    destruct (Hr2 r Hr) as [r1 r2]. split; [exact r1|]. intros Hk. destruct (r2 Hk) as (a1 & a2 & a3).
    split; [exact a1|]. split; [exact a2|].
    intros (q & Hq & Hsq). apply a3. exists q. split; [|exact Hsq]. destruct Ht as (_ & k1 & _). apply k1; auto.
Qed.

(* ---- closing a statement, one choice, all choices ---- *)
Lemma in_blocks L o :
  o ∈ blocks L -> exists r, r ∈ L /\ ((exists c, c ∈ a_evicted r /\ o = ev_op c) \/ o = pipe_op (a_task r)).
Proof.
  unfold blocks. intros H. apply elem_of_list_In, in_flat_map in H as (r & Hr & Ho).
  apply elem_of_list_In in Hr, Ho. exists r. split; [exact Hr|]. unfold block in Ho. apply elem_of_app in Ho as [Ho|Ho].
  - apply elem_of_list_fmap in Ho as (c & -> & Hc). left. eauto.
  - apply elem_of_list_singleton in Ho. right. exact Ho.
Qed.

(* what one choice guarantees *)
Definition step_ok (s s' : sess) (lg : list arec) : Prop :=
  wf s' /\ keep_pip s s' /\ forall r, r ∈ lg -> wf (a_pre r) /\ placed s' r.

(* the job statement holds [blocks L] for records that are placed, whose evictions are still busy and whose
   preemptors were not pipelined when the statement was opened *)
Lemma close_stmt s s1 L :
  wf s1 -> keep_pip s s1 -> ops s1 jsid = blocks L ->
  (forall r, r ∈ L -> wf (a_pre r) /\ placed s1 r /\ ev_busy s1 r /\ ~ pip_at s (t_id (a_task r))) ->
  step_ok s (stmt_commit eps s1 jsid) L /\ step_ok s (stmt_discard eps s1 jsid) [].
Proof.
  intros Hwf Hk Hops HL. split.
  - assert (Ht : tr s1 (stmt_commit eps s1 jsid)).
    { apply commit_tr; [exact Hwf|]. intros o Ho. rewrite Hops in Ho.
      destruct (in_blocks _ _ Ho) as (r & Hr & [(c & Hc & ->)| ->]); [left|right; reflexivity].
      split; [reflexivity|]. destruct (HL r Hr) as (_ & _ & Hb & _). apply Hb, Hc. }
    destruct Ht as (Hw & k1 & _). split; [exact Hw|]. split.
    + intros j q Hq Hs. apply k1; auto.
    + intros r Hr. destruct (HL r Hr) as (a & b & _). split; [exact a|]. apply (placed_keep s1); auto.
  - destruct (stmt_discard_wf eps s1 jsid Hwf) as [Hw Hfr]. split; [exact Hw|]. split; [|intros r Hr; inversion Hr].
    intros j q Hq Hs. rewrite Hfr; [apply Hk; auto|].
    intros o Ho Heq. rewrite Hops in Ho. destruct (in_blocks _ _ Ho) as (r & Hr & [(c & Hc & ->)| ->]); simpl in Heq.
    + destruct (HL r Hr) as (_ & _ & Hb & _). destruct (Hb c Hc) as (q' & Hq' & Hbq).
      rewrite Heq, (Hk j q Hq Hs) in Hq'. injection Hq' as <-. destruct (busy_not_pip _ Hbq). congruence.
    + destruct (HL r Hr) as (_ & _ & _ & Hnp). apply Hnp. rewrite Heq. exists q. auto.
Qed.

Lemma filter_ok_in (lg : list arec) r : r ∈ filter a_ok lg <-> r ∈ lg /\ a_ok r = true.
Proof.
  rewrite elem_of_list_filter. split; intros [a b]; split; auto; destruct (a_ok r); auto; contradiction.
Qed.

Lemma job_stmt_ok k s jid tasks s1 v lg s2 lg2 :
  wf s -> clear s -> run_tasks eps E k s jid tasks = (s1, v, lg) ->
  close_job eps E s1 jid (filter a_ok lg) = (s2, lg2) -> step_ok s s2 lg2.
Proof.
  intros Hwf [Hj Hn] Hr Hc. pose proof Hwf as (Hok & _).
  pose proof (run_tasks_spec eps E _ _ _ _ _ _ _ Hn Hr) as [(_ & _ & _ & _ & _ & Hops & _) _].
  apply tasks_tr in Hr as (Ht & _ & Hrec); auto.
  specialize (Hops Hok). rewrite Hj in Hops. simpl in Hops.
  destruct (close_stmt s s1 (filter a_ok lg) (proj1 Ht) (proj1 (proj2 Ht)) Hops) as [Hcom Hdis].
  { intros r Hr. apply filter_ok_in in Hr as [Hr Hk]. destruct (Hrec r Hr) as [a b]. destruct (b Hk) as (b1 & b2 & b3). auto. }
  unfold close_job in Hc. destruct (jobs s1 !! jid) as [j|]; [|injection Hc as <- <-; exact Hdis].
  destruct (job_pipelined_now E s1 j); injection Hc as <- <-; auto.
Qed.

Theorem step_placed s c s' v lg :
  wf s -> clear s -> step eps E s c = (s', v, lg) -> step_ok s s' lg.
Proof.
  intros Hwf Hcl. pose proof Hwf as (Hok & _).
  assert (Hrefl : forall vv, (s, vv, @nil arec) = (s', v, lg) -> step_ok s s' lg).
  { intros vv [= <- <- <-]. split; [exact Hwf|]. split; [intros j q Hq _; exact Hq|intros r Hr; inversion Hr]. }
  destruct c as [jid tasks|jid tid atts|first jid tasks]; simpl.
  - destruct (job_gate E s jid); [|apply Hrefl].
    destruct (run_tasks eps E AInter s jid tasks) as [[s1 v1] lg1] eqn:Hr.
    destruct (close_job eps E s1 jid (filter a_ok lg1)) as [s2 lg2] eqn:Hc.
    intros [= <- <- <-]. eapply job_stmt_ok; eauto.
  - destruct (job_gate E s jid) as [j|]; [|apply Hrefl].
    destruct (heap s !! tid) as [p|] eqn:Hp; [|apply Hrefl].
    destruct (bool_decide (t_status p = Pending) && bool_decide (t_job p = jid)) eqn:Hpend; [|apply Hrefl].
    apply andb_true_iff in Hpend as [Hst _]. apply bool_decide_eq_true in Hst. simpl.
    destruct Hcl as [Hj Hn].
    destruct (run_attempts eps E AIntra s tid (j_queue j) atts) as [[[s1 ok1] v1] lg1] eqn:Hr.
    pose proof (run_attempts_spec eps E _ _ _ _ _ _ _ _ _ Hn Hr) as [(_ & _ & _ & _ & _ & Hops & _) _].
    apply (atts_tr AIntra tid (j_queue j) atts s p) in Hr as (Ht & _ & _ & Hrec); auto.
    specialize (Hops Hok). rewrite Hj in Hops. simpl in Hops.
    destruct (close_stmt s s1 (filter a_ok lg1) (proj1 Ht) (proj1 (proj2 Ht)) Hops) as [Hcom Hdis].
    { intros r Hr. apply filter_ok_in in Hr as [Hr Hk]. destruct (Hrec r Hr) as (a & b & c). destruct (c Hk) as [c1 c2].
      split; [exact a|]. split; [exact c1|]. split; [exact c2|].
      rewrite b. intros (q & Hq & Hsq). rewrite Hp in Hq. injection Hq as <-. congruence. }
    destruct ok1; intros [= <- <- <-]; auto.
  - destruct (job_gate E s jid) as [j|]; [|apply Hrefl].
    destruct (first && queue_overused eps E s (j_queue j)); [apply Hrefl|].
    destruct (run_tasks eps E AReclaim s jid tasks) as [[s1 v1] lg1] eqn:Hr.
    destruct (close_job eps E s1 jid (filter a_ok lg1)) as [s2 lg2] eqn:Hc.
    intros [= <- <- <-]. eapply job_stmt_ok; eauto.
Qed.

Lemma run_keep cs : forall s s' lg,
  wf s -> clear s -> run eps E s cs = (s', lg) -> wf s' /\ keep_pip s s'.
Proof.
  induction cs as [|c cs IH]; intros s s' lg Hwf Hcl; simpl.
  - intros [= <- <-]. split; [exact Hwf|intros j q Hq _; exact Hq].
  - destruct (step eps E s c) as [[s1 v1] lg1] eqn:Hs.
    pose proof (step_spec eps E _ _ _ _ _ Hcl (proj1 Hwf) Hs) as (Hcl1 & _).
    apply step_placed in Hs as (Hw1 & Hk1 & _); auto.
    destruct (run eps E s1 cs) as [s2 lg2] eqn:Hr. apply IH in Hr as (Hw2 & Hk2); auto.
    intros [= <- <-]. split; [exact Hw2|]. intros j q Hq Hsq. apply Hk2; auto.
Qed.

(* MAIN (final session): along every run from a well-formed session, the preemptor of every committed node
   attempt is Pipelined on that attempt's node in the final session *)
Theorem run_placed cs : forall s s' lg,
  wf s -> clear s -> run eps E s cs = (s', lg) ->
  wf s' /\ forall r, r ∈ lg -> wf (a_pre r) /\ placed s' r.
Proof.
  induction cs as [|c cs IH]; intros s s' lg Hwf Hcl; simpl.
  - intros [= <- <-]. split; [exact Hwf|intros r Hr; inversion Hr].
  - destruct (step eps E s c) as [[s1 v1] lg1] eqn:Hs.
    pose proof (step_spec eps E _ _ _ _ _ Hcl (proj1 Hwf) Hs) as (Hcl1 & _).
    apply step_placed in Hs as (Hw1 & Hk1 & Hr1); auto.
    destruct (run eps E s1 cs) as [s2 lg2] eqn:Hr.
    pose proof (run_keep cs s1 s2 lg2 Hw1 Hcl1 Hr) as [_ Hk2].
    apply IH in Hr as (Hw2 & Hr2); auto.
    intros [= <- <-]. split; [exact Hw2|]. intros r Hr. apply elem_of_app in Hr as [Hr|Hr]; [|apply Hr2, Hr].
    destruct (Hr1 r Hr) as [a b]. split; [exact a|]. apply (placed_keep s1); auto.
Qed.

(* MAIN 1 on observables: every pod in the evictor's accepted-call list was evicted by a committed node
   attempt; the pod sat on the attempt's node; and in the FINAL session the preemptor of that attempt is a
   Pipelined task on the same node *)
Theorem evictions_with_final_placement cs s s' lg :
  wf s -> clear s -> run eps E s cs = (s', lg) ->
  forall x, x ∈ evicts s' ->
    x ∈ evicts s \/
    exists r c q, r ∈ lg /\ a_ok r = true /\ c ∈ a_evicted r /\ t_id c = x /\ t_node c = Some (a_node r) /\
                  heap s' !! t_id (a_task r) = Some q /\ t_status q = Pipelined /\ t_node q = Some (a_node r).
Proof.
  intros Hwf Hcl Hr x Hx.
  destruct (evictions_only_with_placement eps E cs s s' lg Hcl (proj1 Hwf) Hr x Hx) as [?|(r & c & Hrl & Hk & Hs & Hc & Hid)]; [auto|].
  right. destruct (run_placed cs s s' lg Hwf Hcl Hr) as [_ Hpl]. destruct (Hpl r Hrl) as [Hwr (q & Hq & Hq1 & Hq2)].
  exists r, c, q. split; [exact Hrl|]. split; [exact Hk|]. split; [exact Hc|]. split; [exact Hid|]. split; [|auto].
  destruct Hs as (n & Hn & Hcands & Hev & _).
  pose proof (Hev c Hc) as Hv. apply victims_subset in Hv. apply Hcands, node_cands_in in Hv as [[i Hi] _].
  apply (copy_agree (a_pre r) _ _ _ _ Hwr Hn Hi).
Qed.

(* the converse side on the session state: a node attempt that is not assigned leaves its preemptor Pending,
   every Pipelined task object untouched and every Running / Bound / Releasing task in such a status
   (that the ledgers are restored exactly is C07's discard_restores) *)
Theorem failed_attempt_session k s tid p pq a s' v lg :
  wf s -> ops s nsid = [] -> heap s !! tid = Some p -> t_status p = Pending ->
  run_attempt eps E k s p pq a = (s', false, v, lg) ->
  wf s' /\ (exists p', heap s' !! tid = Some p' /\ t_status p' = Pending) /\ keep_pip s s' /\ keep_busy s s'.
Proof.
  intros Hwf Hn Hp Hst H. pose proof Hwf as (Hok & _).
  apply (att_tr k s tid p pq a) in H as ((a1 & a2 & a3) & _ & b & _); auto.
Qed.

End WithEps.

(* ---- the invariant as an executable check (evaluated on every generated session by the entry) ---- *)
Definition wfb (s : sess) : bool :=
  map_allb (fun i p => bool_decide (t_id p = i)) (heap s) &&
  map_allb (fun nid n =>
     bool_decide (n_id n = nid) &&
     map_allb (fun i c =>
        bool_decide (t_id c = i) && bool_decide (t_node c = Some nid) &&
        match heap s !! i with
        | Some t => bool_decide (t_status t = t_status c) && bool_decide (t_node t = Some nid)
        | None => false
        end) (n_tasks n)) (nodes s) &&
  map_allb (fun i t => negb (bool_decide (t_status t = Pending)) || bool_decide (t_node t = None)) (heap s).

Lemma map_allb_spec {A} (f : positive -> A -> bool) (m : gmap positive A) :
  map_allb f m = true -> forall k v, m !! k = Some v -> f k v = true.
Proof. unfold map_allb. intros H k v Hk. apply bool_decide_eq_true in H. apply (H k v Hk). Qed.

Theorem wfb_sound s : wfb s = true -> wf s.
Proof.
  unfold wfb. intros H. repeat (apply andb_true_iff in H as [H ?]).
  split; [|split; [|split]].
  - intros i p Hp. pose proof (map_allb_spec _ _ H i p Hp) as E. apply bool_decide_eq_true in E. exact E.
  - intros nid n Hn. pose proof (map_allb_spec _ _ H1 nid n Hn) as E. apply andb_true_iff in E as [E _].
    apply bool_decide_eq_true in E. exact E.
  - intros nid n i c Hn Hc. pose proof (map_allb_spec _ _ H1 nid n Hn) as E. apply andb_true_iff in E as [_ E].
    pose proof (map_allb_spec _ _ E i c Hc) as E2. apply andb_true_iff in E2 as [E2 E3]. apply andb_true_iff in E2 as [E1 E2].
    apply bool_decide_eq_true in E1, E2. split; [exact E1|]. split; [exact E2|].
    destruct (heap s !! i) as [t|]; [|discriminate]. apply andb_true_iff in E3 as [E3 E4].
    apply bool_decide_eq_true in E3, E4. exists t. auto.
  - intros i t Ht Hst. pose proof (map_allb_spec _ _ H0 i t Ht) as E. apply orb_true_iff in E as [E|E].
    + apply negb_true_iff, bool_decide_eq_false in E. contradiction.
    + apply bool_decide_eq_true in E. exact E.
Qed.
