(* C04 - the property theorems: candidate filters, "never in vain", eligibility of every
   committed victim, for all sessions, layouts and choice lists. *)
From V Require Import C11.Model C11.Spec C11.Lemmas.
From stdpp Require Import gmap.
From Coq Require Import ZArith Lia.
From V Require Import Base.Res Sched.LedgerModel Sched.StmtModel Sched.GangModel Sched.LedgerCodec
                      C04.Model C04.Frame C04.VoteLemmas C04.Lemmas.
Open Scope Z_scope.

Section WithEps.
Variable eps : Z.
Variable E : env.

(* ---- candidate filters ---- *)

(* preempt.go 196-214 / 256-272: running or bound, marked preemptable, and in the preemptor's queue
   but another job (inter-job phase) resp. in the preemptor's own job (intra-job phase) *)
Theorem preempt_candidates_eligible k s p pq c :
  k <> AReclaim -> cand_ok E k s p pq c = true ->
  (t_status c = Running \/ t_status c = Bound) /\ t_preemptable c = true /\
  (t_best_effort p = true -> t_best_effort c = true) /\
  match k with
  | AInter => exists j, jobs s !! t_job c = Some j /\ j_queue j = pq /\ t_job p <> t_job c
  | _ => t_job p = t_job c
  end.
Proof.
  intros Hk. destruct k; [| |congruence]; simpl; intros H;
    repeat (apply andb_true_iff in H as [H ?]).
  - destruct (jobs s !! t_job c) as [j|]; [|discriminate].
    apply andb_true_iff in H0 as [Hq Hj]. apply bool_decide_eq_true in Hq.
    apply negb_true_iff, bool_decide_eq_false in Hj.
    split; [destruct (t_status c); simpl in H; auto; discriminate|]. split; [auto|]. split.
    + intros Hp. rewrite Hp in H2. simpl in H2. apply negb_true_iff, negb_false_iff in H2. exact H2.
    + eauto.
  - apply bool_decide_eq_true in H0.
    split; [destruct (t_status c); simpl in H; auto; discriminate|]. split; [auto|]. split; [|auto].
    intros Hp. rewrite Hp in H2. simpl in H2. apply negb_true_iff, negb_false_iff in H2. exact H2.
Qed.

(* reclaim.go 186-200: running, marked preemptable, in another queue whose Reclaimable() is true *)
Theorem reclaim_candidates_eligible s p pq c :
  cand_ok E AReclaim s p pq c = true ->
  t_status c = Running /\ t_preemptable c = true /\
  exists j, jobs s !! t_job c = Some j /\ j_queue j <> pq /\ queue_reclaimable E (j_queue j) = true.
Proof.
  simpl. intros H. repeat (apply andb_true_iff in H as [H ?]).
  destruct (jobs s !! t_job c) as [j|]; [|discriminate].
  apply andb_true_iff in H0 as [Hq Hr]. apply negb_true_iff, bool_decide_eq_false in Hq.
  apply bool_decide_eq_true in H. split; [auto|]. split; [auto|]. exists j. auto.
Qed.

(* ---- never in vain ---- *)

(* a node attempt that does not end in a successful Pipeline leaves no operation behind and sends
   nothing to the evictor *)
Theorem failed_attempt_contributes_nothing k s p pq a s' v lg :
  ops s nsid = [] -> heap_ok s ->
  run_attempt eps E k s p pq a = (s', false, v, lg) ->
  evicts s' = evicts s /\ ops s' jsid = ops s jsid /\ ops s' nsid = [].
Proof.
  intros Hn Hok H. apply run_attempt_spec in H as [(a1 & a2 & a3 & a4 & a5 & a6 & a7 & a8) _]; auto.
  split; [auto|]. split; [|auto]. rewrite (a6 Hok).
  assert (Hf : filter a_ok lg = []).
  { clear -a7. induction lg as [|r lg IH]; [reflexivity|]. simpl in a7. symmetry in a7.
    apply orb_false_iff in a7 as [Hr Hl]. rewrite filter_cons. destruct (decide (a_ok r)) as [Hd|Hd].
    - rewrite Hr in Hd. contradiction.
    - apply IH. auto. }
  rewrite Hf. simpl. apply app_nil_r.
Qed.

(* a successful attempt hands over exactly its evictions followed by the Pipeline of its preemptor *)
Theorem successful_attempt_block k s p pq a s' v lg :
  ops s nsid = [] -> heap_ok s ->
  run_attempt eps E k s p pq a = (s', true, v, lg) ->
  exists r, lg = [r] /\ a_ok r = true /\ a_task r = p /\ a_node r = at_node a /\
            ops s' jsid = ops s jsid ++ block r /\ evicts s' = evicts s.
Proof.
  intros Hn Hok H. pose proof H as H0.
  apply run_attempt_spec in H as [(a1 & a2 & a3 & a4 & a5 & a6 & a7 & a8) Hf]; auto.
  unfold run_attempt in H0.
  (* the log of an attempt has at most one record *)
  assert (Hlen : lg = [] \/ exists r, lg = [r]).
  { clear -H0. destruct (nodes s !! at_node a); [|discriminate].
    destruct (negb _); [discriminate|].
    destruct (_ && _); [discriminate|].
    destruct (negb _); [discriminate|].
    destruct (do_evictions eps E k s p pq a n _) as [[[s1 done] fits] v1].
    destruct (negb _); [discriminate|].
    destruct fits; [|discriminate].
    destruct (stmt_pipeline _ _ _ _ _) as [s2 r]. destruct r; try discriminate.
    inversion H0; subst. eauto. }
  destruct Hlen as [->|[r ->]]; [discriminate|]. simpl in a7. rewrite orb_false_r in a7.
  exists r. destruct (Hf r (elem_of_list_here _ _)) as (_ & _ & Ht & _ & Hnode).
  split; [auto|]. split; [auto|]. split; [auto|]. split; [auto|]. split; [|auto].
  rewrite (a6 Hok). rewrite filter_cons. destruct (decide (a_ok r)) as [_|Hd].
  - simpl. rewrite app_nil_r. reflexivity.
  - exfalso. apply Hd. rewrite <- a7. exact I.
Qed.

(* MAIN 1: whatever the oracle chooses, everything that reaches the evictor during the actions was
   evicted by a node attempt that pipelined its preemptor on that node and whose job statement was
   committed; the attempt's record is sound (its candidates sit on that node and pass the filter,
   its evictions are victims of the vote) *)
Theorem evictions_only_with_placement cs s s' lg :
  clear s -> heap_ok s -> run eps E s cs = (s', lg) ->
  forall x, x ∈ evicts s' ->
    x ∈ evicts s \/
    exists r c, r ∈ lg /\ a_ok r = true /\ rec_sound eps E r /\ c ∈ a_evicted r /\ t_id c = x.
Proof.
  intros Hcl Hok Hr x Hx. destruct (run_spec eps E cs s s' lg Hcl Hok Hr) as (_ & _ & Hs & Hin).
  destruct (Hin x Hx) as [?|(r & c & Hrl & Hc & Hid)]; auto.
  right. exists r, c. rewrite Forall_forall in Hs. destruct (Hs r Hrl). auto.
Qed.

(* MAIN 2: every committed victim is eligible: a task copy held by the node of the attempt that
   passes the action's candidate filter in the session the attempt started from, and it is accepted by
   EVERY enabled voter of the tier that decided the vote (gang keeps the minimum, priority is strictly
   lower, conformance: not critical, proportion: queue above deserved) *)
Theorem eviction_eligible cs s s' lg x :
  clear s -> heap_ok s -> run eps E s cs = (s', lg) -> x ∈ evicts s' -> x ∉ evicts s ->
  exists r c n,
    r ∈ lg /\ a_ok r = true /\ c ∈ a_evicted r /\ t_id c = x /\
    nodes (a_pre r) !! a_node r = Some n /\ (exists i, n_tasks n !! i = Some c) /\
    cand_ok E (a_kind r) (a_pre r) (a_task r) (a_queue r) c = true /\
    (* the copy the node held was Running, or Bound for preemption - whatever other statuses (Allocated,
       Binding, Pipelined, Releasing ...) the session contains *)
    (t_status c = Running \/ (is_reclaim (a_kind r) = false /\ t_status c = Bound)) /\
    t_preemptable c = true /\
    c ∈ a_cands r /\
    (* E with the capacity plugin's pop order of this vote installed; nothing else differs *)
    let E' := with_qorder E (a_qorder r) in
    exists tier, deciding eps E' (a_kind r) (a_pre r) (a_task r) (a_cands r) tier /\
      forall pl, pl ∈ tier -> plug_enabled (a_kind r) pl = true ->
        match p_kind pl with
        | KGang => c ∈ gang_vote (a_pre r) (a_cands r)
        | KConf => critical E c = false
        | KPrio => is_reclaim (a_kind r) = false ->
            (t_job c <> t_job (a_task r) /\ jprio E (t_job c) < jprio E (t_job (a_task r))) \/
            (t_job c = t_job (a_task r) /\ t_prio c < t_prio (a_task r))
        | KProp => is_reclaim (a_kind r) = true -> c ∈ prop_vote eps E' (a_pre r) (a_cands r)
        | KCap => is_reclaim (a_kind r) = true -> c ∈ cap_vote eps E' (a_pre r) (a_task r) (a_cands r)
        | KDrf => is_reclaim (a_kind r) = false -> c ∈ drf_vote eps (a_pre r) (a_task r) (a_cands r)
        end.
Proof.
  intros Hcl Hok Hr Hx Hnx.
  destruct (evictions_only_with_placement cs s s' lg Hcl Hok Hr x Hx) as [?|(r & c & Hrl & Hk & Hs & Hc & Hid)];
    [contradiction|].
  destruct Hs as (n & Hn & Hcands & Hev & Hnd).
  destruct (victims_eligible eps (with_qorder E (a_qorder r)) _ _ _ _ c Hnd (Hev c Hc)) as (Hcl' & tier & Hd & Hall).
  pose proof (Hcands c Hcl') as Hcl''. apply node_cands_in in Hcl'' as [Hi Hcok].
  exists r, c, n. split; [exact Hrl|]. split; [exact Hk|]. split; [exact Hc|]. split; [exact Hid|].
  split; [exact Hn|]. split; [exact Hi|]. split; [exact Hcok|].
  split.
  { destruct (a_kind r) eqn:Hkind.
    - destruct (preempt_candidates_eligible AInter _ _ _ _ ltac:(discriminate) Hcok) as ([?|?] & _); auto.
    - destruct (preempt_candidates_eligible AIntra _ _ _ _ ltac:(discriminate) Hcok) as ([?|?] & _); auto.
    - destruct (reclaim_candidates_eligible _ _ _ _ Hcok) as (? & _); auto. }
  split.
  { destruct (a_kind r) eqn:Hkind.
    - apply (preempt_candidates_eligible AInter _ _ _ _ ltac:(discriminate) Hcok).
    - apply (preempt_candidates_eligible AIntra _ _ _ _ ltac:(discriminate) Hcok).
    - apply (reclaim_candidates_eligible _ _ _ _ Hcok). }
  split; [exact Hcl'|].
  exists tier. split; [exact Hd|]. intros pl Hpl Hen. specialize (Hall pl Hpl Hen).
  destruct (p_kind pl); exact Hall.
Qed.

(* a handler fault on (preemptor, node) - Statement.Pipeline fails - never yields an assignment: the
   attempt leaves no operation behind and nothing for the evictor, for EVERY fault script *)
Theorem faulted_attempt_contributes_nothing k s p pq a s' ok v lg :
  ops s nsid = [] -> heap_ok s -> (t_id p, at_node a) ∈ e_faults E ->
  run_attempt eps E k s p pq a = (s', ok, v, lg) ->
  ok = false /\ evicts s' = evicts s /\ ops s' jsid = ops s jsid /\ ops s' nsid = [].
Proof.
  intros Hn Hok Hf H. pose proof (faulted_pipeline_never_assigned eps E _ _ _ _ _ _ _ _ _ Hok Hf H) as ->.
  split; [reflexivity|]. eapply failed_attempt_contributes_nothing; eauto.
Qed.

(* a task whose eviction the cache refuses (Commit un-evicts it) never appears in the evictor log *)
Theorem refused_eviction_not_logged cs s s' lg x :
  clear s -> heap_ok s -> run eps E s cs = (s', lg) ->
  x ∈ refuse_evict s -> x ∈ evicts s' -> x ∈ evicts s.
Proof.
  intros Hcl Hok Hr Hx Hin. destruct (run_not_refused eps E cs s s' lg x Hcl Hok Hr Hin); [auto|contradiction].
Qed.

End WithEps.

(* ---- the hypotheses hold for every session the harness builds ---- *)
Lemma build_clear_heap_ok eps ns js ts he rb re jr :
  clear (upd_faults (build eps ns js ts) he rb re jr) /\ heap_ok (upd_faults (build eps ns js ts) he rb re jr).
Proof.
  split; [split; reflexivity|]. unfold heap_ok, build; simpl. intros i p H.
  apply elem_of_list_to_map_2 in H. apply elem_of_list_fmap in H as (t & [= -> ->] & _). reflexivity.
Qed.

(* ---- what does NOT hold: a voter of a tier IN FRONT of the deciding tier need not be respected ----
   When the voters of a tier agree on no candidate, ssn.Preemptable / ssn.Reclaimable fall through to
   the next tier (session_plugins.go "Plugins in this tier made decision if victims is not nil").  With
   priority alone in tier 1 and conformance alone in tier 2, a task of an EQUAL-priority job, which
   the priority plugin rejected, is returned as victim by the second tier. *)
Section FallThrough.
  Let tk (i j : positive) : task :=
    mkTask i j 1%positive 1%positive 0 empty_res empty_res false true Running (Some 1%positive).
  Let jb (i : positive) : job := mkJob i 1%positive 0 ∅ 0 ∅ ∅ empty_res empty_res ∅ ∅.
  Let s0 : sess := mkSess ∅ {[1%positive := jb 1; 2%positive := jb 2]} ∅ ∅ [] ∅ ∅ ∅ [] [] ∅ ∅ true.
  Let E0 : env := mkEnv [[mkPlug KPrio true true]; [mkPlug KConf true true]] ∅ ∅ ∅ ∅ [] [].
  Let victim := tk 11 1.
  Let preemptor := tk 21 2.

  Theorem all_consulted_voters_respected_refuted :
    exists E s p l c,
      c ∈ victims 1 E AInter s p l /\
      exists pre tier post pl, e_tiers E = pre ++ tier :: post /\ pl ∈ tier /\
        p_kind pl = KPrio /\ p_pre pl = true /\ ~ c ∈ prio_vote E s p l.
  Proof.
    exists E0, s0, preemptor, [victim], victim. split.
    - vm_compute. left.
    - exists [], [mkPlug KPrio true true], [[mkPlug KConf true true]], (mkPlug KPrio true true).
      split; [reflexivity|]. split; [left|]. split; [reflexivity|]. split; [reflexivity|].
      vm_compute. apply not_elem_of_nil.
  Qed.
End FallThrough.
