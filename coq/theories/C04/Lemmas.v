(* C04 - proofs about the action skeleton of Model.v: for every session, every plugin layout and
   every oracle choice list.  (The vote lemmas are in VoteLemmas.v.) *)
From V Require Import C11.Model.
From stdpp Require Import gmap.
From Coq Require Import ZArith Lia.
From V Require Import Base.Res Sched.LedgerModel Sched.StmtModel Sched.GangModel C04.Model C04.Frame.
Open Scope Z_scope.

(* the operations a successful node attempt hands to the caller's statement: the evictions it
   made, then the Pipeline of the task they were made for *)
Definition ev_op (c : task) : oprec := mkOp KEvict (t_id c) (t_status c).
Definition pipe_op (p : task) : oprec := mkOp KPipeline (t_id p) Pending.
Definition block (r : arec) : list oprec := map ev_op (a_evicted r) ++ [pipe_op (a_task r)].
Definition blocks (l : list arec) : list oprec := flat_map block l.

Lemma ops_insert_eq s (m : gmap positive (list oprec)) sid l :
  stmts s = <[sid := l]> m -> ops s sid = l.
Proof. unfold ops. intros ->. rewrite lookup_insert. reflexivity. Qed.
Lemma ops_insert_ne s s0 sid sid' l :
  stmts s = <[sid := l]> (stmts s0) -> sid' <> sid -> ops s sid' = ops s0 sid'.
Proof. unfold ops. intros -> H. rewrite lookup_insert_ne by auto. reflexivity. Qed.

Lemma merge_ops s sid src :
  sid <> src ->
  ops (stmt_merge s sid src) src = [] /\ ops (stmt_merge s sid src) sid = ops s sid ++ ops s src /\
  (forall x, x <> sid -> x <> src -> ops (stmt_merge s sid src) x = ops s x).
Proof.
  intros Hne. destruct (stmt_merge_spec s sid src Hne) as (_ & _ & m3 & _).
  split; [|split].
  - unfold ops at 1. rewrite m3, lookup_insert. reflexivity.
  - unfold ops at 1. rewrite m3, lookup_insert_ne, lookup_insert by auto. reflexivity.
  - intros x H1 H2. unfold ops. rewrite m3, !lookup_insert_ne by auto. reflexivity.
Qed.

Lemma find_task_in l i c : find_task l i = Some c -> c ∈ l /\ t_id c = i.
Proof.
  unfold find_task. destruct (filter _ l) as [|c' r] eqn:Hf; [discriminate|]. intros [= ->].
  assert (H : c ∈ filter (fun c0 => bool_decide (t_id c0 = i) = true) l) by (rewrite Hf; left).
  apply elem_of_list_filter in H as [H1 H2]. apply bool_decide_eq_true in H1. auto.
Qed.

Lemma jsid_ne_nsid : jsid <> nsid.
Proof. discriminate. Qed.

Section WithEps.
Variable eps : Z.
Variable E : env.

(* a record is sound when its candidates are tasks of the node that pass the action's filter in
   the session the attempt started from, and everything it evicted is a victim of the vote on them *)
Definition rec_sound (r : arec) : Prop :=
  exists n, nodes (a_pre r) !! a_node r = Some n /\
    (forall c, c ∈ a_cands r -> c ∈ node_cands E (a_kind r) (a_pre r) (a_task r) (a_queue r) n) /\
    (forall c, c ∈ a_evicted r ->
       c ∈ victims eps (with_qorder E (a_qorder r)) (a_kind r) (a_pre r) (a_task r) (a_cands r)) /\
    NoDup (map t_id (a_cands r)).

(* a candidate is one of the node's task copies and passes the action's filter *)
Lemma node_cands_in k s p pq n c :
  c ∈ node_cands E k s p pq n <-> (exists i, n_tasks n !! i = Some c) /\ cand_ok E k s p pq c = true.
Proof.
  unfold node_cands. rewrite elem_of_list_filter, elem_of_list_fmap. split.
  - intros [H1 ([i c'] & -> & H)]. apply elem_of_map_to_list in H. split; eauto.
  - intros [[i H] H1]. split; auto. exists (i, c). split; auto. apply elem_of_map_to_list. exact H.
Qed.

(* ---- the two eviction loops ---- *)
Lemma evict_loop_pre_spec order : forall s pq p nid vs done s' done' v,
  evict_loop_pre eps E s pq p nid vs order done = (s', done', v) ->
  exists new, done' = done ++ new /\ (forall c, c ∈ new -> c ∈ vs) /\
    evicts s' = evicts s /\ refuse_evict s' = refuse_evict s /\ (heap_ok s -> heap_ok s') /\
    ops s' nsid = ops s nsid ++ map ev_op new /\ (forall sid, sid <> nsid -> ops s' sid = ops s sid).
Proof.
  induction order as [|x order IH]; intros s pq p nid vs done s' done' v; simpl.
  - destruct (preemptor_fits eps E s pq p nid); intros [= <- <- <-];
      exists []; rewrite !app_nil_r; repeat split; auto; intros c Hc; inversion Hc.
  - destruct (preemptor_fits eps E s pq p nid).
    { intros [= <- <- <-]. exists []. rewrite !app_nil_r. repeat split; auto. intros c Hc; inversion Hc. }
    destruct (find_task vs x) as [c|] eqn:Hf.
    2:{ intros [= <- <- <-]. exists []. rewrite !app_nil_r. repeat split; auto. intros c Hc; inversion Hc. }
    destruct (stmt_evict_with eps s nsid c None) as [s1 r1] eqn:He.
    apply stmt_evict_with_spec in He as (e1 & e2 & e3 & e4).
    intros H. apply IH in H as (new & -> & Hsub & f1 & f2 & f3 & f4 & f5).
    exists (c :: new). rewrite <- app_assoc. simpl. split; [reflexivity|].
    split.
    { intros c0 Hc0. apply elem_of_cons in Hc0 as [->|Hc0]; [apply (find_task_in _ _ _ Hf)|].
      apply Hsub in Hc0. apply elem_of_list_filter in Hc0. tauto. }
    split; [congruence|]. split; [congruence|]. split; [auto|]. split.
    + rewrite f4. rewrite (ops_insert_eq _ _ _ _ e3). rewrite <- app_assoc. reflexivity.
    + intros sid Hs. rewrite (f5 sid Hs). apply (ops_insert_ne _ _ _ _ _ e3 Hs).
Qed.

Lemma evict_loop_rec_spec order : forall s p avail vs done s' done' avail' v,
  evict_loop_rec eps s p avail vs order done = (s', done', avail', v) ->
  exists new, done' = done ++ new /\ (forall c, c ∈ new -> c ∈ vs) /\
    evicts s' = evicts s /\ refuse_evict s' = refuse_evict s /\ (heap_ok s -> heap_ok s') /\
    ops s' nsid = ops s nsid ++ map ev_op new /\ (forall sid, sid <> nsid -> ops s' sid = ops s sid).
Proof.
  induction order as [|x order IH]; intros s p avail vs done s' done' avail' v; simpl.
  - destruct (less_equal eps (t_init p) avail DZero); intros [= <- <- <- <-];
      exists []; rewrite !app_nil_r; repeat split; auto; intros c Hc; inversion Hc.
  - destruct (less_equal eps (t_init p) avail DZero).
    { intros [= <- <- <- <-]. exists []. rewrite !app_nil_r. repeat split; auto. intros c Hc; inversion Hc. }
    destruct (find_task vs x) as [c|] eqn:Hf.
    2:{ intros [= <- <- <- <-]. exists []. rewrite !app_nil_r. repeat split; auto. intros c Hc; inversion Hc. }
    destruct (stmt_evict_with eps s nsid c None) as [s1 r1] eqn:He.
    apply stmt_evict_with_spec in He as (e1 & e2 & e3 & e4).
    intros H. apply IH in H as (new & -> & Hsub & f1 & f2 & f3 & f4 & f5).
    exists (c :: new). rewrite <- app_assoc. simpl. split; [reflexivity|].
    split.
    { intros c0 Hc0. apply elem_of_cons in Hc0 as [->|Hc0]; [apply (find_task_in _ _ _ Hf)|].
      apply Hsub in Hc0. apply elem_of_list_filter in Hc0. tauto. }
    split; [congruence|]. split; [congruence|]. split; [auto|]. split.
    + rewrite f4. rewrite (ops_insert_eq _ _ _ _ e3). rewrite <- app_assoc. reflexivity.
    + intros sid Hs. rewrite (f5 sid Hs). apply (ops_insert_ne _ _ _ _ _ e3 Hs).
Qed.

Lemma evict_all_spec order : forall s vs done s' done' v,
  evict_all eps s vs order done = (s', done', v) ->
  exists new, done' = done ++ new /\ (forall c, c ∈ new -> c ∈ vs) /\
    evicts s' = evicts s /\ refuse_evict s' = refuse_evict s /\ (heap_ok s -> heap_ok s') /\
    ops s' nsid = ops s nsid ++ map ev_op new /\ (forall sid, sid <> nsid -> ops s' sid = ops s sid).
Proof.
  induction order as [|x order IH]; intros s vs done s' done' v; simpl.
  - intros [= <- <- <-]. exists []. rewrite !app_nil_r. repeat split; auto. intros c Hc; inversion Hc.
  - destruct (find_task vs x) as [c|] eqn:Hf.
    2:{ intros [= <- <- <-]. exists []. rewrite !app_nil_r. repeat split; auto. intros c Hc; inversion Hc. }
    destruct (stmt_evict_with eps s nsid c None) as [s1 r1] eqn:He.
    apply stmt_evict_with_spec in He as (e1 & e2 & e3 & e4).
    intros H. apply IH in H as (new & -> & Hsub & f1 & f2 & f3 & f4 & f5).
    exists (c :: new). rewrite <- app_assoc. simpl. split; [reflexivity|].
    split.
    { intros c0 Hc0. apply elem_of_cons in Hc0 as [->|Hc0]; [apply (find_task_in _ _ _ Hf)|].
      apply Hsub in Hc0. apply elem_of_list_filter in Hc0. tauto. }
    split; [congruence|]. split; [congruence|]. split; [auto|]. split.
    + rewrite f4. rewrite (ops_insert_eq _ _ _ _ e3). rewrite <- app_assoc. reflexivity.
    + intros sid Hs. rewrite (f5 sid Hs). apply (ops_insert_ne _ _ _ _ _ e3 Hs).
Qed.

(* the eviction phase of a node attempt, whichever of the three loops runs *)
Lemma do_evictions_spec k s p pq a n vs s1 done fits v1 :
  ops s nsid = [] ->
  do_evictions eps E k s p pq a n vs = (s1, done, fits, v1) ->
  (forall c, c ∈ done -> c ∈ vs) /\
  evicts s1 = evicts s /\ refuse_evict s1 = refuse_evict s /\ (heap_ok s -> heap_ok s1) /\
  ops s1 nsid = map ev_op done /\ (forall sid, sid <> nsid -> ops s1 sid = ops s sid).
Proof.
  intros Hn. unfold do_evictions. destruct (at_topo a && negb (is_reclaim k)).
  - destruct (evict_all eps s vs (at_order a) []) as [[s1' done'] v'] eqn:Hl.
    intros [= <- <- <- <-]. apply evict_all_spec in Hl as (new & -> & h1 & h2 & h3 & h4 & h5 & h6).
    rewrite Hn in h5. simpl in *. repeat split; auto.
  - destruct (is_reclaim k).
    + destruct (evict_loop_rec eps s p (future_idle n) vs (at_order a) []) as [[[s1' done'] av] v'] eqn:Hl.
      intros [= <- <- <- <-]. apply evict_loop_rec_spec in Hl as (new & -> & h1 & h2 & h3 & h4 & h5 & h6).
      rewrite Hn in h5. simpl in *. repeat split; auto.
    + destruct (evict_loop_pre eps E s pq p (at_node a) vs (at_order a) []) as [[s1' done'] v'] eqn:Hl.
      intros [= <- <- <- <-]. apply evict_loop_pre_spec in Hl as (new & -> & h1 & h2 & h3 & h4 & h5 & h6).
      rewrite Hn in h5. simpl in *. repeat split; auto.
Qed.

(* ---- one node attempt ---- *)

(* what every attempt guarantees, successful or not *)
Definition att_post (s : sess) (s' : sess) (ok : bool) (lg : list arec) : Prop :=
  evicts s' = evicts s /\ refuse_evict s' = refuse_evict s /\ (heap_ok s -> heap_ok s') /\
  ops s' nsid = [] /\
  (forall sid, sid <> nsid -> sid <> jsid -> ops s' sid = ops s sid) /\
  (heap_ok s -> ops s' jsid = ops s jsid ++ blocks (filter a_ok lg)) /\
  ok = existsb a_ok lg /\
  Forall rec_sound lg.

Lemma att_post_unchanged s : ops s nsid = [] -> att_post s s false [].
Proof. intros H. unfold att_post. simpl. rewrite app_nil_r. repeat split; auto. Qed.

Lemma discard_nsid s0 s1 :
  evicts s1 = evicts s0 -> refuse_evict s1 = refuse_evict s0 -> (heap_ok s0 -> heap_ok s1) ->
  (forall sid, sid <> nsid -> ops s1 sid = ops s0 sid) ->
  forall lg, filter a_ok lg = [] -> existsb a_ok lg = false -> Forall rec_sound lg ->
  att_post s0 (stmt_discard eps s1 nsid) false lg.
Proof.
  intros e1 e2 e3 e5 lg Hlg Hex Hs.
  destruct (stmt_discard_spec eps s1 nsid) as (d1 & d2 & d3 & d4).
  unfold att_post. split; [congruence|]. split; [congruence|]. split; [auto|].
  split; [apply (ops_insert_eq _ _ _ _ d3)|].
  split; [intros sid H1 H2; rewrite (ops_insert_ne _ _ _ _ _ d3 H1); auto|].
  split; [intros _; rewrite Hlg; simpl; rewrite app_nil_r;
          rewrite (ops_insert_ne _ _ _ _ _ d3 jsid_ne_nsid); apply e5, jsid_ne_nsid|].
  split; auto.
Qed.

Lemma omap_find_in cset (ids : list positive) c : c ∈ omap (find_task cset) ids -> c ∈ cset.
Proof.
  intros H. apply elem_of_list_omap in H as (i & _ & H). apply (find_task_in _ _ _ H).
Qed.

Lemma omap_find_ids cset (ids : list positive) :
  sublist (map t_id (omap (find_task cset) ids)) ids.
Proof.
  induction ids as [|i ids IH]; simpl; [constructor|].
  destruct (find_task cset i) as [c|] eqn:Hf; simpl.
  - destruct (find_task_in _ _ _ Hf) as [_ ->]. constructor. exact IH.
  - constructor. exact IH.
Qed.
Lemma sublist_nodup {A} (l k : list A) : sublist l k -> NoDup k -> NoDup l.
Proof.
  induction 1 as [|x l k Hs IH|x l k Hs IH]; intros Hk.
  - constructor.
  - apply NoDup_cons in Hk as [Hx Hk]. apply NoDup_cons. split; [|auto].
    intros Hin. apply Hx. eapply elem_of_submseteq; [exact Hin|apply sublist_submseteq, Hs].
  - apply NoDup_cons in Hk as [_ Hk]. auto.
Qed.
Lemma omap_find_nodup cset (ids : list positive) :
  NoDup ids -> NoDup (map t_id (omap (find_task cset) ids)).
Proof. intros H. eapply sublist_nodup; [apply omap_find_ids|exact H]. Qed.

Lemma run_attempt_spec k s p pq a s' ok v lg :
  ops s nsid = [] ->
  run_attempt eps E k s p pq a = (s', ok, v, lg) ->
  att_post s s' ok lg /\
  (forall r, r ∈ lg -> a_kind r = k /\ a_pre r = s /\ a_task r = p /\ a_queue r = pq /\ a_node r = at_node a).
Proof.
  intros Hn. unfold run_attempt.
  destruct (nodes s !! at_node a) as [n|] eqn:Hnode.
  2:{ intros [= <- <- <- <-]. split; [apply att_post_unchanged; auto|]. intros r Hr; inversion Hr. }
  destruct (negb (same_ids (node_cands E k s p pq n) (at_cands a) && bool_decide (NoDup (at_cands a)) &&
             (negb (has_plugin E KCap && is_reclaim k) || same_ids (node_cands E k s p pq n) (at_qorder a)))) eqn:Hnd.
  { intros [= <- <- <- <-]. split; [apply att_post_unchanged; auto|]. intros r Hr; inversion Hr. }
  apply negb_false_iff, andb_true_iff in Hnd as [Hnd _]. apply andb_true_iff in Hnd as [_ Hnd].
  apply bool_decide_eq_true in Hnd.
  set (cands := omap (find_task (node_cands E k s p pq n)) (at_cands a)).
  destruct (is_reclaim k && bool_decide (cands = [])).
  { intros [= <- <- <- <-]. split; [apply att_post_unchanged; auto|]. intros r Hr; inversion Hr. }
  set (vs := victims eps (with_qorder E (at_qorder a)) k s p cands).
  destruct (negb (less_equal eps (t_init p) (sum_reqs (future_idle n) vs) DZero)).
  { intros [= <- <- <- <-]. split; [apply att_post_unchanged; auto|]. intros r Hr; inversion Hr. }
  destruct (do_evictions eps E k s p pq a n vs) as [[[s1 done] fits] v1] eqn:Hdo.
  destruct (do_evictions_spec _ _ _ _ _ _ _ _ _ _ _ Hn Hdo) as (hsub & h2 & h3 & h4 & h5 & h6).
  (* the record of this attempt is sound whatever its outcome *)
  assert (Hsound : forall b, rec_sound (mkRec k s p pq (at_node a) cands (at_qorder a) done b)).
  { intros b. exists n. simpl. split; [exact Hnode|]. split.
    - intros c Hc. apply omap_find_in in Hc. exact Hc.
    - split; [intros c Hc; apply hsub, Hc|]. apply omap_find_nodup, Hnd. }
  assert (Hfields : forall b r, r ∈ [mkRec k s p pq (at_node a) cands (at_qorder a) done b] ->
            a_kind r = k /\ a_pre r = s /\ a_task r = p /\ a_queue r = pq /\ a_node r = at_node a).
  { intros b r Hr. apply elem_of_list_singleton in Hr as ->. simpl. auto. }
  destruct (negb (v1 =? V_OK)).
  { intros [= <- <- <- <-]. split; [|intros r Hr; inversion Hr].
    apply discard_nsid; auto. }
  destruct fits.
  2:{ intros [= <- <- <- <-]. split; [|apply Hfields].
      apply discard_nsid; auto. }
  set (s1f := set_fault E s1 (t_id p) (at_node a)).
  assert (Hf1 : evicts s1f = evicts s1) by reflexivity.
  assert (Hf2 : refuse_evict s1f = refuse_evict s1) by reflexivity.
  assert (Hf3 : heap_ok s1 -> heap_ok s1f) by (intros H; exact H).
  assert (Hf4 : forall x, ops s1f x = ops s1 x) by reflexivity.
  destruct (stmt_pipeline eps s1f nsid (t_id p) (at_node a)) as [s2 r] eqn:Hp.
  apply stmt_pipeline_spec in Hp as (p1 & p2 & p3 & p4 & p5).
  assert (Hd : r <> ROk -> att_post s (stmt_discard eps s2 nsid) false [mkRec k s p pq (at_node a) cands (at_qorder a) done false]).
  { intros Hr. apply discard_nsid; auto; try congruence.
    intros sid Hs. unfold ops. rewrite (p5 Hr). fold (ops s1f sid). rewrite Hf4. apply h6, Hs. }
  destruct r.
  2,3,4: (intros [= <- <- <- <-]; split; [apply Hd; discriminate|apply Hfields]).
  intros [= <- <- <- <-]. split; [|apply Hfields].
  destruct (p4 eq_refl) as (i & Hi & Hst).
  destruct (stmt_merge_spec s2 jsid nsid jsid_ne_nsid) as (m1 & m2 & _ & m4).
  destruct (merge_ops s2 jsid nsid jsid_ne_nsid) as (o1 & o2 & o3).
  assert (Hn2 : ops s2 nsid = map ev_op done ++ [mkOp KPipeline i Pending]).
  { rewrite (ops_insert_eq _ _ _ _ Hst), Hf4, h5. reflexivity. }
  assert (Ho2 : forall sid, sid <> nsid -> ops s2 sid = ops s sid).
  { intros sid Hs. rewrite (ops_insert_ne _ _ _ _ _ Hst Hs), Hf4. apply h6, Hs. }
  unfold att_post. split; [congruence|]. split; [congruence|]. split; [auto|].
  split; [exact o1|].
  split; [intros sid H1 H2; rewrite (o3 sid H2 H1); apply Ho2, H1|].
  split.
  { intros Hok. rewrite o2, Hn2, (Ho2 jsid jsid_ne_nsid). simpl. rewrite app_nil_r.
    unfold block, pipe_op. simpl. rewrite (Hi (Hf3 (h4 Hok))). reflexivity. }
  split; [reflexivity|]. constructor; [apply Hsound|constructor].
Qed.

(* a scripted handler fault on (preemptor, node) makes Statement.Pipeline fail: the attempt is never
   assigned, whatever was evicted for it (and by run_attempt_spec it then leaves nothing behind) *)
Lemma faulted_pipeline_never_assigned k s p pq a s' ok v lg :
  heap_ok s -> (t_id p, at_node a) ∈ e_faults E ->
  run_attempt eps E k s p pq a = (s', ok, v, lg) -> ok = false.
Proof.
  intros Hok Hfault. unfold run_attempt.
  destruct (nodes s !! at_node a) as [n|]; [|intros [= <- <- <- <-]; reflexivity].
  destruct (negb (same_ids _ _ && _ && _)); [intros [= <- <- <- <-]; reflexivity|].
  set (cands := omap (find_task (node_cands E k s p pq n)) (at_cands a)).
  destruct (is_reclaim k && bool_decide (cands = [])); [intros [= <- <- <- <-]; reflexivity|].
  set (vs := victims eps (with_qorder E (at_qorder a)) k s p cands).
  destruct (negb (less_equal eps (t_init p) (sum_reqs (future_idle n) vs) DZero)); [intros [= <- <- <- <-]; reflexivity|].
  destruct (do_evictions eps E k s p pq a n vs) as [[[s1 done] fits] v1] eqn:Hdo.
  assert (Hloop : heap_ok s1).
  { unfold do_evictions in Hdo. destruct (at_topo a && negb (is_reclaim k)).
    - destruct (evict_all eps s vs (at_order a) []) as [[s1' done'] v'] eqn:Hl. injection Hdo as <- <- <- <-.
      apply evict_all_spec in Hl as (new & _ & _ & _ & _ & h4 & _). auto.
    - destruct (is_reclaim k).
      + destruct (evict_loop_rec eps s p (future_idle n) vs (at_order a) []) as [[[s1' done'] av] v'] eqn:Hl.
        injection Hdo as <- <- <- <-. apply evict_loop_rec_spec in Hl as (new & _ & _ & _ & _ & h4 & _). auto.
      + destruct (evict_loop_pre eps E s pq p (at_node a) vs (at_order a) []) as [[s1' done'] v'] eqn:Hl.
        injection Hdo as <- <- <- <-. apply evict_loop_pre_spec in Hl as (new & _ & _ & _ & _ & h4 & _). auto. }
  destruct (negb (v1 =? V_OK)); [intros [= <- <- <- <-]; reflexivity|].
  destruct fits; [|intros [= <- <- <- <-]; reflexivity].
  set (s1f := set_fault E s1 (t_id p) (at_node a)).
  destruct (stmt_pipeline eps s1f nsid (t_id p) (at_node a)) as [s2 r] eqn:Hp.
  destruct r; try (intros [= <- <- <- <-]; reflexivity).
  exfalso. unfold stmt_pipeline, with_task in Hp.
  destruct (heap s1f !! t_id p) as [p'|] eqn:Hh; [|discriminate].
  assert (Hid : t_id p' = t_id p) by (apply (Hloop _ _ Hh)).
  assert (Hin : t_id p' ∈ herr s1f).
  { unfold s1f, set_fault. simpl. rewrite bool_decide_eq_true_2 by exact Hfault. rewrite Hid. set_solver. }
  pose proof (place_with_herr eps s1f nsid KPipeline p' (at_node a) Hin) as He.
  rewrite Hp in He. discriminate.
Qed.

Lemma blocks_app l1 l2 : blocks (l1 ++ l2) = blocks l1 ++ blocks l2.
Proof. unfold blocks. apply flat_map_app. Qed.

Lemma att_post_trans s s1 s2 ok1 ok2 lg1 lg2 :
  att_post s s1 ok1 lg1 -> att_post s1 s2 ok2 lg2 -> att_post s s2 (ok1 || ok2) (lg1 ++ lg2).
Proof.
  intros (a1 & a2 & a3 & a4 & a5 & a6 & a7 & a8) (b1 & b2 & b3 & b4 & b5 & b6 & b7 & b8).
  unfold att_post. split; [congruence|]. split; [congruence|]. split; [auto|]. split; [auto|].
  split; [intros sid H1 H2; rewrite (b5 sid H1 H2); auto|].
  split.
  { intros Hok. rewrite (b6 (a3 Hok)), (a6 Hok), filter_app, blocks_app, <- app_assoc. reflexivity. }
  split; [rewrite existsb_app; congruence|]. apply Forall_app; auto.
Qed.

Definition rec_of (k : akind) (pq : positive) (r : arec) : Prop := a_kind r = k /\ a_queue r = pq.

(* ---- the node loop ---- *)
Lemma run_attempts_spec k tid pq l : forall s s' ok v lg,
  ops s nsid = [] ->
  run_attempts eps E k s tid pq l = (s', ok, v, lg) ->
  att_post s s' ok lg /\ Forall (rec_of k pq) lg.
Proof.
  induction l as [|a l IH]; intros s s' ok v lg Hn; simpl.
  - intros [= <- <- <- <-]. split; [apply att_post_unchanged; auto|constructor].
  - destruct (heap s !! tid) as [p|].
    2:{ intros [= <- <- <- <-]. split; [apply att_post_unchanged; auto|constructor]. }
    destruct (run_attempt eps E k s p pq a) as [[[s1 ok1] v1] lg1] eqn:Ha.
    apply run_attempt_spec in Ha as [Ha Hf]; [|exact Hn].
    assert (Hf' : Forall (rec_of k pq) lg1).
    { apply Forall_forall. intros r Hr. destruct (Hf r Hr) as (? & ? & ? & ? & ?). split; auto. }
    destruct (negb (v1 =? V_OK)); [intros [= <- <- <- <-]; auto|].
    destruct ok1 eqn:Hok1.
    + intros [= <- <- <- <-]. auto.
    + destruct (run_attempts eps E k s1 tid pq l) as [[[s2 ok2] v2] lg2] eqn:Hr.
      apply IH in Hr as [Hr Hf2]; [|apply Ha].
      intros [= <- <- <- <-]. split; [|apply Forall_app; auto].
      change ok2 with (false || ok2). eapply att_post_trans; eauto.
Qed.

(* ---- the task loop of a job statement ---- *)
Lemma run_tasks_spec k jid l : forall s s' v lg,
  ops s nsid = [] ->
  run_tasks eps E k s jid l = (s', v, lg) ->
  att_post s s' (existsb a_ok lg) lg /\ Forall (fun r => a_kind r = k) lg.
Proof.
  induction l as [|[tid atts] l IH]; intros s s' v lg Hn; simpl.
  - intros [= <- <- <-]. split; [apply att_post_unchanged; auto|constructor].
  - destruct (jobs s !! jid) as [j|].
    2:{ intros [= <- <- <-]. split; [apply att_post_unchanged; auto|constructor]. }
    destruct (heap s !! tid) as [p|].
    2:{ intros [= <- <- <-]. split; [apply att_post_unchanged; auto|constructor]. }
    destruct (negb (job_starving_now E s j)).
    { intros [= <- <- <-]. split; [apply att_post_unchanged; auto|constructor]. }
    destruct (negb (bool_decide (t_status p = Pending) && bool_decide (t_job p = jid))).
    { intros [= <- <- <-]. split; [apply att_post_unchanged; auto|constructor]. }
    destruct (is_reclaim k && negb (queue_preemptive eps E s (j_queue j) p)).
    { intros [= <- <- <-]. split; [apply att_post_unchanged; auto|constructor]. }
    destruct (run_attempts eps E k s tid (j_queue j) atts) as [[[s1 ok1] v1] lg1] eqn:Ha.
    apply run_attempts_spec in Ha as [Ha Hf]; [|exact Hn].
    assert (Hf' : Forall (fun r => a_kind r = k) lg1).
    { eapply Forall_impl; [exact Hf|]. intros r [? ?]; auto. }
    assert (Hok1 : ok1 = existsb a_ok lg1) by apply Ha.
    destruct (negb (v1 =? V_OK)); [intros [= <- <- <-]; rewrite <- Hok1; auto|].
    destruct (run_tasks eps E k s1 jid l) as [[s2 v2] lg2] eqn:Hr.
    apply IH in Hr as [Hr Hf2]; [|apply Ha].
    intros [= <- <- <-]. split; [|apply Forall_app; auto].
    rewrite existsb_app, <- Hok1. eapply att_post_trans; eauto.
Qed.

Lemma in_blocks_evict L o :
  o ∈ blocks L -> op_kind o = KEvict -> exists r c, r ∈ L /\ c ∈ a_evicted r /\ op_task o = t_id c.
Proof.
  unfold blocks. intros H Hk. apply elem_of_list_In, in_flat_map in H as (r & Hr & Ho).
  apply elem_of_list_In in Hr, Ho. unfold block in Ho. apply elem_of_app in Ho as [Ho|Ho].
  - apply elem_of_list_fmap in Ho as (c & -> & Hc). exists r, c. auto.
  - apply elem_of_list_singleton in Ho as ->. discriminate.
Qed.

(* ---- closing a job statement: Commit iff JobPipelined ---- *)
Lemma close_job_spec s jid lg s' lg' :
  close_job eps E s jid lg = (s', lg') ->
  ops s' jsid = [] /\ (forall sid, sid <> jsid -> ops s' sid = ops s sid) /\
  refuse_evict s' = refuse_evict s /\ (heap_ok s -> heap_ok s') /\
  (heap_ok s -> forall x, x ∈ evicts s' ->
     x ∈ evicts s \/ (lg' = lg /\ exists o, o ∈ ops s jsid /\ op_kind o = KEvict /\ op_task o = x)) /\
  (lg' = lg \/ (lg' = [] /\ evicts s' = evicts s)).
Proof.
  unfold close_job.
  assert (Hd : forall s0 l0, (stmt_discard eps s jsid, @nil arec) = (s0, l0) ->
    ops s0 jsid = [] /\ (forall sid, sid <> jsid -> ops s0 sid = ops s sid) /\
    refuse_evict s0 = refuse_evict s /\ (heap_ok s -> heap_ok s0) /\
    (heap_ok s -> forall x, x ∈ evicts s0 ->
       x ∈ evicts s \/ (l0 = lg /\ exists o, o ∈ ops s jsid /\ op_kind o = KEvict /\ op_task o = x)) /\
    (l0 = lg \/ (l0 = [] /\ evicts s0 = evicts s))).
  { intros s0 l0 [= <- <-]. destruct (stmt_discard_spec eps s jsid) as (d1 & d2 & d3 & d4).
    split; [apply (ops_insert_eq _ _ _ _ d3)|].
    split; [intros sid Hs; apply (ops_insert_ne _ _ _ _ _ d3 Hs)|].
    split; [auto|]. split; [auto|]. split; [|right; auto].
    intros _ x Hx. left. congruence. }
  destruct (jobs s !! jid) as [j|]; [|apply Hd].
  destruct (job_pipelined_now E s j); [|apply Hd].
  intros [= <- <-]. destruct (stmt_commit_spec eps s jsid) as (c1 & c2 & c3 & c4).
  split; [apply (ops_insert_eq _ _ _ _ c1)|].
  split; [intros sid Hs; apply (ops_insert_ne _ _ _ _ _ c1 Hs)|].
  split; [auto|]. split; [auto|]. split; [|left; auto].
  intros Hok x Hx. destruct (c4 Hok x Hx) as [?|?]; auto.
Qed.

(* a job statement that is not JobPipelined commits nothing *)
Lemma unpipelined_job_commits_nothing s jid j lg s' lg' :
  jobs s !! jid = Some j -> job_pipelined_now E s j = false ->
  close_job eps E s jid lg = (s', lg') -> evicts s' = evicts s /\ lg' = [].
Proof.
  unfold close_job. intros -> ->. intros [= <- <-].
  destruct (stmt_discard_spec eps s jsid) as (d1 & _). auto.
Qed.

Definition clear (s : sess) : Prop := ops s jsid = [] /\ ops s nsid = [].

(* what one oracle choice can do *)
Definition step_post (s s' : sess) (lg : list arec) : Prop :=
  clear s' /\ heap_ok s' /\ refuse_evict s' = refuse_evict s /\
  Forall (fun r => rec_sound r /\ a_ok r = true) lg /\
  (forall x, x ∈ evicts s' -> x ∈ evicts s \/ exists r c, r ∈ lg /\ c ∈ a_evicted r /\ t_id c = x).

Lemma step_post_refl s : clear s -> heap_ok s -> step_post s s [].
Proof. intros. unfold step_post. repeat split; try apply H; auto. Qed.

Lemma filter_ok_sound lg : Forall rec_sound lg -> Forall (fun r => rec_sound r /\ a_ok r = true) (filter a_ok lg).
Proof.
  intros H. apply Forall_forall. intros r Hr. apply elem_of_list_filter in Hr as [Hr1 Hr2].
  split; [|destruct (a_ok r); auto; contradiction]. rewrite Forall_forall in H. auto.
Qed.

Lemma job_stmt_post s s1 lg jid s2 lg2 :
  clear s -> heap_ok s -> att_post s s1 (existsb a_ok lg) lg ->
  close_job eps E s1 jid (filter a_ok lg) = (s2, lg2) -> step_post s s2 lg2.
Proof.
  intros [Hj Hn] Hok (a1 & a2 & a3 & a4 & a5 & a6 & a7 & a8) Hc.
  apply close_job_spec in Hc as (c1 & c2 & c3 & c4 & c5 & c6).
  unfold step_post, clear. split; [split; auto; rewrite c2; [auto | apply not_eq_sym, jsid_ne_nsid]|].
  split; [auto|]. split; [congruence|]. split.
  { destruct c6 as [->|[-> _]]; [apply filter_ok_sound, a8|constructor]. }
  intros x Hx. destruct (c5 (a3 Hok) x Hx) as [H|(-> & o & Ho & Hk & Ht)]; [left; congruence|].
  right. rewrite (a6 Hok), Hj in Ho. simpl in Ho.
  destruct (in_blocks_evict _ _ Ho Hk) as (r & c & Hr & Hcr & Hid). exists r, c. split; auto. split; auto. congruence.
Qed.

Theorem step_spec s c s' v lg :
  clear s -> heap_ok s -> step eps E s c = (s', v, lg) -> step_post s s' lg.
Proof.
  intros Hcl Hok. destruct c as [jid tasks|jid tid atts|first jid tasks]; simpl.
  - destruct (job_gate E s jid); [|intros [= <- <- <-]; apply step_post_refl; auto].
    destruct (run_tasks eps E AInter s jid tasks) as [[s1 v1] lg1] eqn:Hr.
    apply run_tasks_spec in Hr as [Hr _]; [|apply Hcl].
    destruct (close_job eps E s1 jid (filter a_ok lg1)) as [s2 lg2] eqn:Hc.
    intros [= <- <- <-]. eapply job_stmt_post; eauto.
  - destruct (job_gate E s jid) as [j|]; [|intros [= <- <- <-]; apply step_post_refl; auto].
    destruct (heap s !! tid) as [p|]; [|intros [= <- <- <-]; apply step_post_refl; auto].
    destruct (negb _); [intros [= <- <- <-]; apply step_post_refl; auto|].
    destruct (run_attempts eps E AIntra s tid (j_queue j) atts) as [[[s1 ok1] v1] lg1] eqn:Hr.
    apply run_attempts_spec in Hr as [(a1 & a2 & a3 & a4 & a5 & a6 & a7 & a8) _]; [|apply Hcl].
    destruct Hcl as [Hj Hn].
    destruct ok1.
    + intros [= <- <- <-]. destruct (stmt_commit_spec eps s1 jsid) as (c1 & c2 & c3 & c4).
      unfold step_post, clear. split.
      { split; [apply (ops_insert_eq _ _ _ _ c1)|].
        rewrite (ops_insert_ne _ _ _ _ _ c1 (not_eq_sym jsid_ne_nsid)). auto. }
      split; [auto|]. split; [congruence|]. split; [apply filter_ok_sound, a8|].
      intros x Hx. destruct (c4 (a3 Hok) x Hx) as [H|(o & Ho & Hk & Ht)]; [left; congruence|].
      right. rewrite (a6 Hok), Hj in Ho. simpl in Ho.
      destruct (in_blocks_evict _ _ Ho Hk) as (r & c & Hr & Hcr & Hid). exists r, c. split; auto. split; auto. congruence.
    + intros [= <- <- <-]. destruct (stmt_discard_spec eps s1 jsid) as (d1 & d2 & d3 & d4).
      unfold step_post, clear. split.
      { split; [apply (ops_insert_eq _ _ _ _ d3)|].
        rewrite (ops_insert_ne _ _ _ _ _ d3 (not_eq_sym jsid_ne_nsid)). auto. }
      split; [auto|]. split; [congruence|]. split; [constructor|].
      intros x Hx. left. congruence.
  - destruct (job_gate E s jid) as [j|]; [|intros [= <- <- <-]; apply step_post_refl; auto].
    destruct (first && queue_overused eps E s (j_queue j)); [intros [= <- <- <-]; apply step_post_refl; auto|].
    destruct (run_tasks eps E AReclaim s jid tasks) as [[s1 v1] lg1] eqn:Hr.
    apply run_tasks_spec in Hr as [Hr _]; [|apply Hcl].
    destruct (close_job eps E s1 jid (filter a_ok lg1)) as [s2 lg2] eqn:Hc.
    intros [= <- <- <-]. eapply job_stmt_post; eauto.
Qed.

(* ---- MAIN: every choice list ---- *)
Theorem run_spec cs : forall s s' lg,
  clear s -> heap_ok s -> run eps E s cs = (s', lg) ->
  clear s' /\ heap_ok s' /\
  Forall (fun r => rec_sound r /\ a_ok r = true) lg /\
  (forall x, x ∈ evicts s' -> x ∈ evicts s \/ exists r c, r ∈ lg /\ c ∈ a_evicted r /\ t_id c = x).
Proof.
  induction cs as [|c cs IH]; intros s s' lg Hcl Hok; simpl.
  - intros [= <- <-]. repeat split; try apply Hcl; auto.
  - destruct (step eps E s c) as [[s1 v1] lg1] eqn:Hs.
    apply step_spec in Hs as (h1 & h2 & h3 & h4 & h5); auto.
    destruct (run eps E s1 cs) as [s2 lg2] eqn:Hr.
    apply IH in Hr as (r1 & r2 & r3 & r4); auto.
    intros [= <- <-]. split; [auto|]. split; [auto|]. split; [apply Forall_app; auto|].
    intros x Hx. destruct (r4 x Hx) as [H|(r & c0 & Hr & Hc & Hid)].
    + destruct (h5 x H) as [?|(r & c0 & Hr & Hc & Hid)]; auto.
      right. exists r, c0. rewrite elem_of_app. auto.
    + right. exists r, c0. rewrite elem_of_app. auto.
Qed.

(* ---- refused evictions: cache.Evict refuses the tasks of [refuse_evict]; Commit un-evicts them ---- *)
Lemma close_job_not_refused s jid lg s' lg' x :
  close_job eps E s jid lg = (s', lg') -> x ∈ evicts s' -> x ∈ evicts s \/ x ∉ refuse_evict s.
Proof.
  unfold close_job.
  assert (Hd : forall l0, (stmt_discard eps s jsid, l0) = (s', lg') -> x ∈ evicts s' -> x ∈ evicts s \/ x ∉ refuse_evict s).
  { intros l0 [= <- <-]. destruct (stmt_discard_spec eps s jsid) as (d1 & _). rewrite d1. auto. }
  destruct (jobs s !! jid) as [j|]; [|apply Hd].
  destruct (job_pipelined_now E s j); [|apply Hd].
  intros [= <- <-]. apply stmt_commit_not_refused.
Qed.

Lemma step_not_refused s c s' v lg x :
  clear s -> step eps E s c = (s', v, lg) -> x ∈ evicts s' -> x ∈ evicts s \/ x ∉ refuse_evict s.
Proof.
  intros Hcl. destruct c as [jid tasks|jid tid atts|first jid tasks]; simpl.
  - destruct (job_gate E s jid); [|intros [= <- <- <-]; auto].
    destruct (run_tasks eps E AInter s jid tasks) as [[s1 v1] lg1] eqn:Hr.
    apply run_tasks_spec in Hr as [(a1 & a2 & _) _]; [|apply Hcl].
    destruct (close_job eps E s1 jid (filter a_ok lg1)) as [s2 lg2] eqn:Hc.
    intros [= <- <- <-] Hx. rewrite <- a1, <- a2. eapply close_job_not_refused; eauto.
  - destruct (job_gate E s jid) as [j|]; [|intros [= <- <- <-]; auto].
    destruct (heap s !! tid) as [p|]; [|intros [= <- <- <-]; auto].
    destruct (negb _); [intros [= <- <- <-]; auto|].
    destruct (run_attempts eps E AIntra s tid (j_queue j) atts) as [[[s1 ok1] v1] lg1] eqn:Hr.
    apply run_attempts_spec in Hr as [(a1 & a2 & _) _]; [|apply Hcl].
    destruct ok1; intros [= <- <- <-] Hx; rewrite <- a1, <- a2.
    + apply stmt_commit_not_refused in Hx. exact Hx.
    + destruct (stmt_discard_spec eps s1 jsid) as (d1 & _). rewrite d1 in Hx. auto.
  - destruct (job_gate E s jid) as [j|]; [|intros [= <- <- <-]; auto].
    destruct (first && queue_overused eps E s (j_queue j)); [intros [= <- <- <-]; auto|].
    destruct (run_tasks eps E AReclaim s jid tasks) as [[s1 v1] lg1] eqn:Hr.
    apply run_tasks_spec in Hr as [(a1 & a2 & _) _]; [|apply Hcl].
    destruct (close_job eps E s1 jid (filter a_ok lg1)) as [s2 lg2] eqn:Hc.
    intros [= <- <- <-] Hx. rewrite <- a1, <- a2. eapply close_job_not_refused; eauto.
Qed.

Theorem run_not_refused cs : forall s s' lg x,
  clear s -> heap_ok s -> run eps E s cs = (s', lg) ->
  x ∈ evicts s' -> x ∈ evicts s \/ x ∉ refuse_evict s.
Proof.
  induction cs as [|c cs IH]; intros s s' lg x Hcl Hok; simpl.
  - intros [= <- <-]. auto.
  - destruct (step eps E s c) as [[s1 v1] lg1] eqn:Hs.
    pose proof (step_spec _ _ _ _ _ Hcl Hok Hs) as (h1 & h2 & h3 & _).
    destruct (run eps E s1 cs) as [s2 lg2] eqn:Hr.
    intros [= <- <-] Hx. destruct (IH _ _ _ _ h1 h2 Hr Hx) as [H|H].
    + eapply step_not_refused; eauto.
    + right. rewrite <- h3. exact H.
Qed.

End WithEps.
