From Coq Require Import Extraction ExtrOcamlBasic.
From V Require Import Base.Codec C04.Entry.
Extraction "model.ml" entry z_mul10_add z_divmod10 z_neg.
