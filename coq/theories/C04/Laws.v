(* C04 - executable statements of the property on what a real preempt / reclaim cycle did.

   Inputs: the cluster spec (pre-cycle objects), proportion's deserved as read from the real
   plugin, and per accepted cache.Evict call the harness's observation of the node attempt the
   eviction belonged to: action, preemptor, node, the candidate list the action handed to the
   vote (with the ready count of each candidate's job and the allocation of its queue at that
   moment, both read by the harness, not by the plugins), the evictions of the attempt in
   order and the node its preemptor was pipelined on; plus the task states at the end of the
   cycle.  None of the laws calls the modelled votes, filters or actions. *)
From V Require Import C11.Model.
From stdpp Require Import gmap.
From Coq Require Import ZArith QArith List.
From V Require Import Base.Codec Base.Res Base.ResCodec Sched.LedgerModel Sched.StmtModel Sched.LedgerCodec
                      Sched.CycleCodec C04.Model C04.Codec.
Import ListNotations.
Open Scope Z_scope.

Record cobs := mkObs { o_id : positive; o_status : status; o_ready : Z; o_qalloc : res;
                       o_jalloc : res }.   (* what the candidate's JOB holds at the vote (recorder ledger) *)
Record evrec := mkEv {
  ev_victim : positive; ev_action : Z; ev_preemptor : positive; ev_node : option positive;
  ev_pipnode : option positive;
  ev_jp_count : Z; ev_jp_min : Z;     (* the job's occupied count / minMember when JobPipelined was asked; -1: not asked *)
  ev_order : list positive; ev_obs : list cobs;
  ev_qorder : list positive;
  ev_palloc : res;                     (* what the preemptor's job holds at the vote *)
  ev_jp_roles : list (positive * Z);
  ev_tier : Z }.                       (* OBSERVED: 1-based index of the last tier the real Session.Preemptable / Reclaimable call
                                          of this attempt reached (a marker plugin in front of every tier); for a
                                          victim that was evicted this is the tier in which the real walk decided *) (* per role of the job's minTaskMember: its occupied pods (allocated, succeeded, pipelined,
                                          pending best-effort) when JobPipelined was asked *)        (* the candidates in the pop order of the plugins' victims queue *)

Definition dObs : dec cobs :=
  let* i := dPos in let* s := dStatus in let* r := dZ in let* q := dRes in let* ja := dRes in ret (mkObs i s r q ja).
Definition dEvrec : dec evrec :=
  let* v := dPos in let* a := dZ in let* p := dPos in let* n := dNodeRef in let* pn := dNodeRef in
  let* jc := dZ in let* jm := dZ in
  let* o := dListS dPos in let* ob := dListS dObs in let* qo := dListS dPos in let* pa := dRes in
  let* jr := dListS (let* r := dPos in let* c := dZ in ret (r, c)) in
  let* ti := dZ in ret (mkEv v a p n pn jc jm o ob qo pa jr ti).

Record law_in := mkLawIn { li_spec : spec; li_lims : list qlim_spec; li_clims : list clim_spec; li_evs : list evrec;
                           li_final : list (positive * status * option positive) }.
Definition dLawIn : dec law_in :=
  let* sp := dSpec in let* l := dListS dQlim in let* cl := dListS dClim in let* evs := dListS dEvrec in
  let* fin := dListS (let* i := dPos in let* s := dStatus in let* n := dNodeRef in ret (i, s, n)) in
  ret (mkLawIn sp l cl evs fin).

Section Laws.
Variable L : law_in.
Let sp := li_spec L.

Definition spec_task (i : positive) : option task_spec :=
  match filter (fun t => bool_decide (ts_id t = i)) (sp_tasks sp) with t :: _ => Some t | [] => None end.
Definition spec_job (j : positive) : option job_spec :=
  match filter (fun jp => bool_decide (js_id (fst jp) = j)) (sp_jobs sp) with jp :: _ => Some (fst jp) | [] => None end.
Definition queue_of_task (t : task_spec) : option positive :=
  match spec_job (ts_job t) with Some j => Some (js_queue j) | None => None end.
Definition q_reclaimable (q : positive) : bool :=
  existsb (fun s => bool_decide (qs_id s = q)) (sp_queues sp) &&
  negb (existsb (fun r => bool_decide (qr_id r = q) && (qr_reclaim r =? 2)) (sp_qr sp)).
Definition j_prio (j : positive) : Z :=
  match filter (fun x => bool_decide (jx_id x = j)) (sp_jx sp) with x :: _ => jx_prio x | [] => 0 end.
Definition t_class (i : positive) : Z :=
  match filter (fun x => bool_decide (tx_id x = i)) (sp_tx sp) with x :: _ => tx_class x | [] => 0 end.
Definition final_of (i : positive) : option (status * option positive) :=
  match filter (fun x => bool_decide (fst (fst x) = i)) (li_final L) with x :: _ => Some (snd (fst x), snd x) | [] => None end.
Definition obs_of (e : evrec) (i : positive) : option cobs :=
  match filter (fun o => bool_decide (o_id o = i)) (ev_obs e) with o :: _ => Some o | [] => None end.

Definition with_pair (e : evrec) (f : task_spec -> task_spec -> bool) : bool :=
  match spec_task (ev_victim e), spec_task (ev_preemptor e) with
  | Some v, Some p => f v p
  | _, _ => false
  end.

(* 101: running (or bound, for preemption) and marked preemptable before the cycle; on the node of
   the attempt; handed to the vote; own queue for preemption, another reclaimable queue for reclaim *)
Definition eligible (e : evrec) : bool :=
  with_pair e (fun v p =>
    (bool_decide (ts_status v = Running) || ((ev_action e =? 1) && bool_decide (ts_status v = Bound))) &&
    ts_preempt v &&
    negb (bool_decide (ts_id v = ts_id p)) &&
    bool_decide (ts_node v = ev_node e) && bool_decide (is_Some (ev_node e)) &&
    bool_decide (ev_victim e ∈ ev_order e) &&
    (* the status the pod carried when it was handed to the vote: Running, or Bound for preemption - never a
       status only the session knows (Allocated, Binding, Pipelined) nor Releasing *)
    match obs_of e (ev_victim e) with
    | Some o => bool_decide (o_status o = ts_status v) &&
                (bool_decide (o_status o = Running) || ((ev_action e =? 1) && bool_decide (o_status o = Bound)))
    | None => false
    end &&
    match queue_of_task v, queue_of_task p with
    | Some qv, Some qp =>
      if ev_action e =? 1 then bool_decide (qv = qp)
      else negb (bool_decide (qv = qp)) && q_reclaimable qv
    | _, _ => false
    end).
Definition law_eligible : bool := forallb eligible (li_evs L).

(* 102: never in vain - the attempt pipelined its preemptor on the victim's node, the preemptor was a
   pending pod before the cycle and is pipelined there at the end; the victim is releasing *)
Definition placed (e : evrec) : bool :=
  with_pair e (fun v p =>
    bool_decide (ev_pipnode e = ev_node e) && bool_decide (is_Some (ev_pipnode e)) &&
    bool_decide (ts_status p = Pending) &&
    bool_decide (final_of (ts_id p) = Some (Pipelined, ev_node e)) &&
    match final_of (ts_id v) with Some (Releasing, _) => true | _ => false end).
Definition law_placed : bool := forallb placed (li_evs L).

(* 103: the policy plugins, on the DECIDING tier.  The votes are re-computed from what the harness observed when the
   action handed the candidates to the vote (candidate order, ready count of each candidate's job, allocation of
   its queue, pop order of the victims queue) and from the pre-cycle objects (priorities, classes, minMember,
   guarantee; deserved from the plugin's record): which candidates each configured voter lets go.  The deciding
   tier is the FIRST tier with a voter whose voters agree on at least one candidate; a tier is skipped only
   when its voters agree on nothing.  Every evicted pod must be in the agreement of the deciding tier. *)
Definition req_of (t : task_spec) : res := mk_req (ts_cpu t) (ts_mem t) (ts_gpu t).

Definition lim_hi (q : positive) : option res :=
  match filter (fun l => bool_decide (ql_id l = q)) (li_lims L) with l :: _ => Some (ql_hi l) | [] => None end.

(* capacity: the queue's guarantee from the Queue object, its deserved from the plugin's record *)
Definition spec_guarantee (q : positive) : res :=
  match filter (fun g => bool_decide (qg_id g = q)) (sp_qg sp) with
  | g :: _ => mkRes (qg_gcpu g * grid) (qg_gmem g * grid) None
  | [] => empty_res
  end.
Definition clim_of (q : positive) : option clim_spec :=
  match filter (fun l => bool_decide (cl_id l = q)) (li_clims L) with l :: _ => Some l | [] => None end.

(* gang: candidates in the order handed over; a job gives pods away while its ready count is above minMember *)
Fixpoint gang_sim (occ : gmap positive Z) (obs : list cobs) : list positive :=
  match obs with
  | [] => []
  | o :: r =>
    match spec_task (o_id o) with
    | None => gang_sim occ r
    | Some t =>
      match spec_job (ts_job t) with
      | None => gang_sim occ r
      | Some j =>
        let c := default (o_ready o) (occ !! ts_job t) in
        if bool_decide (js_min j < c) then o_id o :: gang_sim (<[ts_job t := c - 1]> occ) r
        else gang_sim (<[ts_job t := c]> occ) r
      end
    end
  end.

Definition prio_lets_go (p v : task_spec) : bool :=
  if bool_decide (ts_job v = ts_job p) then bool_decide (ts_prio v < ts_prio p)
  else bool_decide (j_prio (ts_job v) < j_prio (ts_job p)).
Definition conf_lets_go (v : task_spec) : bool := (t_class (ts_id v) =? 0) && negb (job_sys sp (ts_job v)).

(* proportion: running allocation per queue, a victim while NOT (allocation <= deserved) *)
Fixpoint prop_sim (al : gmap positive res) (obs : list cobs) : list positive :=
  match obs with
  | [] => []
  | o :: r =>
    match spec_task (o_id o) with
    | None => prop_sim al r
    | Some t =>
      match queue_of_task t with
      | None => prop_sim al r
      | Some q =>
        match lim_hi q with
        | None => prop_sim al r
        | Some d =>
          let a := default (o_qalloc o) (al !! q) in
          if negb (less_equal (sp_eps sp) a d DZero) then o_id o :: prop_sim (<[q := sub a (req_of t)]> al) r
          else prop_sim (<[q := a]> al) r
        end
      end
    end
  end.

(* capacity: the candidates in the pop order of the victims queue *)
Fixpoint cap_sim (e : evrec) (p : task_spec) (al : gmap positive res) (order : list positive) : list positive :=
  match order with
  | [] => []
  | i :: r =>
    match spec_task i, obs_of e i with
    | Some t, Some o =>
      match queue_of_task t with
      | None => cap_sim e p al r
      | Some q =>
        match clim_of q with
        | None => cap_sim e p al r
        | Some cl =>
          if negb (intersects (sp_eps sp) true (req_of t) (req_of p)) then cap_sim e p al r else
          let a := default (o_qalloc o) (al !! q) in
          if negb (less_equal (sp_eps sp) (spec_guarantee q) (sub a (req_of t)) DZero) then cap_sim e p (<[q := a]> al) r else
          if negb (intersects (sp_eps sp) false (req_of t) (cl_des cl)) || gp_rel (sp_eps sp) a (cl_des cl) (req_of t)
          then i :: cap_sim e p (<[q := sub a (req_of t)]> al) r
          else cap_sim e p (<[q := a]> al) r
        end
      end
    | _, _ => cap_sim e p al r
    end
  end.
Definition cap_reclaimer_known (p : task_spec) : bool :=
  match queue_of_task p with Some q => bool_decide (is_Some (clim_of q)) | None => false end.

(* drf: the cluster total from the Node objects; per-call copy of each job's allocation, reduced by every candidate
   of the job that is looked at *)
Definition spec_total : res :=
  fold_left (fun acc n => if ns_has n then add acc (mk_alloc (ns_cpu n) (ns_mem n) (ns_pods n) (ns_gpu n)) else acc)
            (sp_nodes sp) empty_res.
Fixpoint drf_sim (ls : Q) (al : gmap positive res) (obs : list cobs) : list positive :=
  match obs with
  | [] => []
  | o :: r =>
    match spec_task (o_id o) with
    | None => drf_sim ls al r
    | Some t =>
      match spec_job (ts_job t) with
      | None => drf_sim ls al r
      | Some _ =>
        let left := sub (default (o_jalloc o) (al !! ts_job t)) (req_of t) in
        if drf_lets_go ls (dom_share (sp_eps sp) left spec_total)
        then o_id o :: drf_sim ls (<[ts_job t := left]> al) r
        else drf_sim ls (<[ts_job t := left]> al) r
      end
    end
  end.
Definition drf_ls_obs (e : evrec) (p : task_spec) : Q := dom_share (sp_eps sp) (add (ev_palloc e) (req_of p)) spec_total.

(* the candidates a configured voter lets go *)
Definition lets_go (e : evrec) (p : task_spec) (k : pkind) : list positive :=
  match k with
  | KGang => gang_sim ∅ (ev_obs e)
  | KPrio => map o_id (filter (fun o => match spec_task (o_id o) with Some v => prio_lets_go p v | None => false end) (ev_obs e))
  | KConf => map o_id (filter (fun o => match spec_task (o_id o) with Some v => conf_lets_go v | None => false end) (ev_obs e))
  | KProp => prop_sim ∅ (ev_obs e)
  | KCap => if cap_reclaimer_known p then cap_sim e p ∅ (ev_qorder e) else []
  | KDrf => match spec_job (ts_job p) with Some _ => drf_sim (drf_ls_obs e p) ∅ (ev_obs e) | None => [] end
  end.

(* does the plugin vote in this action *)
Definition votes_in (action : Z) (pl : plug) : bool :=
  if action =? 1 then p_pre pl && negb (bool_decide (p_kind pl = KProp)) && negb (bool_decide (p_kind pl = KCap))
  else p_rec pl && negb (bool_decide (p_kind pl = KPrio)) && negb (bool_decide (p_kind pl = KDrf)).

Definition voters (e : evrec) (t : list plug) : list plug := filter (fun pl => votes_in (ev_action e) pl) t.
(* the candidates all voters of the tier let go *)
Definition agreement_of (e : evrec) (p : task_spec) (t : list plug) : list positive :=
  filter (fun i => forallb (fun pl => bool_decide (i ∈ lets_go e p (p_kind pl))) (voters e t)) (map o_id (ev_obs e)).

(* tier walk: (tiers that were skipped because their voters agreed on nothing, agreement of the deciding tier) *)
Fixpoint walk (e : evrec) (p : task_spec) (ts : list (list plug)) (skipped : list (list plug))
    : option (list (list plug) * list positive) :=
  match ts with
  | [] => None
  | t :: r =>
    match voters e t with
    | [] => walk e p r skipped
    | _ => match agreement_of e p t with
           | [] => walk e p r (skipped ++ [t])
           | ag => Some (skipped, ag)
           end
    end
  end.

Definition respects (e : evrec) : bool :=
  with_pair e (fun v p =>
    match walk e p (sp_tiers sp) [] with
    | Some (_, ag) => bool_decide (ev_victim e ∈ ag)
    | None => false
    end).
Definition law_plugins : bool := forallb respects (li_evs L).

(* 104: full strength - a plugin that was consulted before the deciding tier took part in the decision as well: the
   victim must also be let go by every voter of every tier that was SKIPPED in front of the deciding tier.  The
   law answers true when 103 fails (that violation is reported by 103), so a failure of 104 is exactly: the tier
   walk did what the code documents, and a voter of a skipped earlier tier had vetoed the victim. *)
(* the tier the recomputed walk decides in, 1-based index into the spec's tiers *)
Fixpoint decided_ix (e : evrec) (p : task_spec) (ts : list (list plug)) (i : Z) : option Z :=
  match ts with
  | [] => None
  | t :: r =>
    match voters e t with
    | [] => decided_ix e p r (i + 1)
    | _ => match agreement_of e p t with
           | [] => decided_ix e p r (i + 1)
           | _ => Some i
           end
    end
  end.
(* 110: the real walk decided in the tier the recomputed votes decide in (the observed tier is the last one the
   real call reached).  A voter of an early tier that wrongly returns a victim makes the real walk stop early:
   this law fails, unsigned. *)
Definition tier_agrees (e : evrec) : bool :=
  with_pair e (fun v p =>
    match decided_ix e p (sp_tiers sp) 1 with Some i => i =? ev_tier e | None => false end).
Definition law_decided_tier : bool := forallb tier_agrees (li_evs L).

Definition respects_all_raw (e : evrec) : bool :=
  with_pair e (fun v p =>
    match walk e p (sp_tiers sp) [] with
    | Some (skipped, ag) =>
      negb (bool_decide (ev_victim e ∈ ag)) ||
      forallb (fun t => forallb (fun pl => bool_decide (ev_victim e ∈ lets_go e p (p_kind pl))) (voters e t)) skipped
    | None => true
    end).
(* 104 fails only when the known mechanism is what HAPPENED: the real walk decided in the very tier the recomputed
   walk decides in (so the earlier tiers with voters really were passed over) and a voter of a passed-over
   tier had vetoed the victim.  When the observed tier differs, 110 reports it. *)
Definition respects_all (e : evrec) : bool := respects_all_raw e || negb (tier_agrees e).
Definition law_plugins_all : bool := forallb respects_all (li_evs L).

(* 105: a job statement is committed only for a job that is JobPipelined (inter-job preemption and
   reclaim; the intra-job phase commits iff the preemptor was assigned): when the gang plugin is
   configured, JobPipelined was asked for the preemptor's job right before the commit, and at that
   moment the job's own counters (waiting + ready + pending best-effort) reached minMember *)
Definition gang_configured : bool :=
  existsb (existsb (fun pl => bool_decide (p_kind pl = KGang))) (sp_tiers sp).
(* ... and every role minimum (minTaskMember, CheckTaskPipelined over TaskMinAvailable) was reached, a role
   without any occupied pod included; as in the code the role minimums only count when they do not
   exceed minMember in total *)
Definition role_count (e : evrec) (r : positive) : Z :=
  match filter (fun kv => bool_decide (fst kv = r)) (ev_jp_roles e) with kv :: _ => snd kv | [] => 0 end.
Definition roles_made_it (e : evrec) (p : task_spec) : bool :=
  match spec_job (ts_job p) with
  | Some j =>
    if bool_decide (js_min j < fold_left (fun acc kv => acc + snd kv) (js_role_min j) 0) then true
    else forallb (fun kv => bool_decide (snd kv <= role_count e (fst kv))) (js_role_min j)
  | None => false
  end.
Definition job_made_it (e : evrec) : bool :=
  with_pair e (fun v p =>
    if bool_decide (ts_job v = ts_job p) || negb gang_configured then true
    else bool_decide (0 <= ev_jp_min e) && bool_decide (ev_jp_min e <= ev_jp_count e) && roles_made_it e p).
Definition law_job_pipelined : bool := forallb job_made_it (li_evs L).

(* 106: a pod whose eviction the cache refuses is not evicted: it is in no accepted evictor call and
   ends the cycle in the status it had before (Running stays Running, Bound stays Bound), whatever
   was pipelined in its place *)
Definition refused_ok (i : positive) : bool :=
  negb (existsb (fun e => bool_decide (ev_victim e = i)) (li_evs L)) &&
  match spec_task i with
  | Some t =>
    match ts_status t with
    | Running | Bound => match final_of i with Some (st, _) => bool_decide (st = ts_status t) | None => false end
    | _ => true
    end
  | None => true
  end.
Definition law_refused : bool := forallb refused_ok (sp_refuse sp).

(* 107: after all evictions of the cycle every victim queue keeps its guarantee AS THE SCHEDULER ACCOUNTS IT: the
   requests of the queue's pods that hold or have been given resources at the end of the cycle - running, bound,
   binding, allocated, and pods PIPELINED for the queue in this very cycle (the queue plugins' `allocated` counts
   them from the moment Statement.Pipeline calls the allocate handlers) - still cover the guarantee, per dimension.
   A pod whose eviction was refused is Running again and counts; an evicted pod (Releasing) does not.
   (Evaluated for cycles that run reclaim only with the capacity plugin voting in a single-tier layout, where
   every eviction went through its vote.  The first version of this law counted only the pods that held resources
   BEFORE the cycle: that is more than the code promises and more than `capacity_vote_keeps_guarantee` proves -
   thorough-tier case cycle-20085, corpus/C04/guarantee-counts-pipelined.jsonl: queue q1 (guarantee 6500m) first
   pipelines a 1250m pod of its own, then loses a 1500m pod: 8250 - 1500 = 6750 >= 6500 on the ledger, 5500 in
   pods that were there before.) *)
Definition held (t : task_spec) : bool :=
  match final_of (ts_id t) with
  | Some (st, _) =>
    match st with
    | Running | Bound | Binding | Allocated => true
    | Pipelined => bool_decide (ts_status t = Pending)    (* pipelined in THIS cycle: in the plugin's ledger *)
    | _ => false
    end
  | None => false
  end.
Definition evicted_ids : list positive := map ev_victim (li_evs L).
Definition queue_keeps_guarantee (q : queue_spec) : bool :=
  let mine := filter (fun t => bool_decide (queue_of_task t = Some (qs_id q))) (sp_tasks sp) in
  let lost := filter (fun t => bool_decide (ts_id t ∈ evicted_ids)) mine in
  let rest := filter held mine in
  match lost with
  | [] => true
  | _ => less_equal (sp_eps sp) (spec_guarantee (qs_id q))
           (fold_left (fun a u => add a (req_of u)) rest empty_res) DZero
  end.
Definition law_guarantee : bool := forallb queue_keeps_guarantee (sp_queues sp).

(* 108: gang over the whole cycle (single-tier layouts in which gang votes for every action that ran, so
   that every eviction went through its vote): a PodGroup that lost a pod to a committed eviction still has
   at least minMember pods that are bound, binding, running, allocated or succeeded at the end *)
Definition final_ready (t : task_spec) : bool :=
  match final_of (ts_id t) with
  | Some (st, _) => match st with Bound | Binding | Running | Allocated | Succeeded => true | _ => false end
  | None => false
  end.
Definition job_keeps_min (jp : job_spec * Z) : bool :=
  let j := fst jp in
  let mine := filter (fun t => bool_decide (ts_job t = js_id j)) (sp_tasks sp) in
  if existsb (fun t => bool_decide (ts_id t ∈ evicted_ids)) mine
  then bool_decide (js_min j <= Z.of_nat (length (filter final_ready mine)))
  else true.
Definition law_gang_cycle : bool := forallb job_keeps_min (sp_jobs sp).

(* 109: drf on the SET (single-tier layouts in which drf votes for preemption): the pods one attempt evicted from
   one job, taken TOGETHER, leave that job a dominant share that is not below the preemptor job's (with the
   preemptor) by more than shareDelta - the eligible-victim clause of the drf vote evaluated on the whole set, on
   the allocations the harness observed at the vote *)
Definition drf_set_ok (e : evrec) : bool :=
  with_pair e (fun v p =>
    if negb (ev_action e =? 1) then true else
    match obs_of e (ts_id v) with
    | Some o =>
      let gone := omap (fun i => match spec_task i with
                                 | Some u => if bool_decide (ts_job u = ts_job v) then Some u else None
                                 | None => None end) (ev_order e) in
      let left := fold_left (fun a u => sub a (req_of u)) gone (o_jalloc o) in
      drf_lets_go (drf_ls_obs e p) (dom_share (sp_eps sp) left spec_total)
    | None => false
    end).
Definition law_drf_set : bool := forallb drf_set_ok (li_evs L).

End Laws.
