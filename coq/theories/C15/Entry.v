(* Entry point of the C15 correspondence: selector + tokens -> tokens.

   input of selector 1:
     ippvs plr ippl dra                       four gate flags
     phase nodeName? deleting?                the pod's lifecycle position (NewTaskInfo)
     n kind*n                                 the pod's volumes (see [vol_key])
     n (name tracked plsup)*n                 classification of the names >= 5
     pod                                      see [dPod]
   a quantity is two tokens (v, e): the amount v * 10^-e, 0 <= e <= 9.
   output: tag 1 GetPodResourceRequest, tag 2 GetPodResourceWithoutInitContainers,
           tag 3 upstream PodRequests (exact quantities), tag 4 NewResource of it,
           tag 5/6/7 api.NewTaskInfo(pod).Resreq / .InitResreq / .BestEffort,
           tag 8/9/10 the same of SchedulerCache.NewTaskInfo(pod) (CSI volumes counted),
           tag 11 upstream PodRequests with the options of the pod being placed (status options off).
   A quantity in an OUTPUT list is (name, whole units, nano remainder). *)
From stdpp Require Import gmap.
From Coq Require Import ZArith List.
From V Require Import Base.Codec Base.Res Base.ResCodec C15.Model C15.Laws C15.Lemmas.
Import ListNotations.
Open Scope Z_scope.

Definition tag (i : Z) : list Z := [-100 - i].

Definition dQ : dec Z :=
  let* v := dZ in let* e := dZ in
  if (e <? 0) || (9 <? e) then fail else ret (v * 10 ^ (9 - e)).

Definition dRl : dec rl := let* kvs := dList (dPair dPos dQ) in ret (list_to_map kvs).

Definition dContainer : dec container :=
  let* n := dPos in let* s := dBool in let* r := dRl in ret (mkC n s r).

Definition dStatus : dec cstatus :=
  let* n := dPos in let* r := dOpt dRl in let* a := dRl in ret (mkCS n r a).

Definition dPod : dec pod :=
  let* cs := dList dContainer in
  let* is := dList dContainer in
  let* cst := dList dStatus in
  let* ist := dList dStatus in
  let* oh := dRl in
  let* pl := dOpt dRl in
  let* conds := dList (dPair dBool dBool) in
  let* pst := dOpt dRl in
  let* pal := dRl in
  let* claims := dList dRl in
  ret (mkPod cs is cst ist oh pl conds pst pal claims).

Definition dNames : dec (gmap positive (bool * bool)) :=
  let* l := dList (dPair dPos (dPair dBool dBool)) in ret (list_to_map l).

Definition tracked_of (t : gmap positive (bool * bool)) (k : positive) : bool :=
  match t !! k with Some (a, _) => a | None => false end.
Definition plsup_of (t : gmap positive (bool * bool)) (k : positive) : bool :=
  match t !! k with Some (_, b) => b | None => false end.

Definition eRl (l : rl) : list Z :=
  eList (fun kv => [Zpos (fst kv); snd kv / nano_per_unit; snd kv mod nano_per_unit]) (sort_kv (map_to_list l)).

Definition dMeta : dec pod_meta :=
  let* ph := dZ in let* nd := dBool in let* del := dBool in
  if (ph <? 0) || (5 <? ph) then fail else ret (mkMeta ph nd del).

(* One volume of the pod, as the harness's small PVC / PV / StorageClass world
   resolves it (getPodCSIVolumes / getCSIDriverInfo / getCSIDriverInfoFromSC,
   cache/event_handlers.go 101-222); kind:
     0 emptyDir (not a claim)          1..9  PVC bound to a PV of CSI driver d
     -1 PVC bound to a non-CSI PV      11..19 unbound PVC, StorageClass provisioner d
     30 StorageClass of an ignored     21..29 unbound PVC, StorageClass parameter csi-driver-name d
        provisioner                    41..49 generic ephemeral volume, PV of driver d
     61..69 PVC names a PV that does not exist, StorageClass provisioner d (fallback to the class)
     70 PVC names a StorageClass that does not exist     71 PVC without PV and without class
     50 the PVC is not in the informer (pendingPVCError)  51 ephemeral volume whose PVC the pod does not own
   50 / 51 make getPodCSIVolumes fail: the whole lookup is an error ([vol_outcome] = None).
   A counted volume of driver d is charged to name 14 + d ("attachable-volumes-csi-drv<d>").
   This table is codec glue: the theorems quantify over every list of resolved names. *)
Definition vol_key (kind : Z) : option positive :=
  let drv :=
    if (1 <=? kind) && (kind <=? 9) then Some kind
    else if (11 <=? kind) && (kind <=? 19) then Some (kind - 10)
    else if (21 <=? kind) && (kind <=? 29) then Some (kind - 20)
    else if (41 <=? kind) && (kind <=? 49) then Some (kind - 40)
    else if (61 <=? kind) && (kind <=? 69) then Some (kind - 60)
    else None in
  match drv with Some d => Some (Z.to_pos (14 + d)) | None => None end.

Definition vol_outcome (vols : list Z) : option (list positive) :=
  if existsb (fun k => (k =? 50) || (k =? 51)) vols then None else Some (omap vol_key vols).

Definition dCase :=
  let* ippvs := dBool in let* plr := dBool in let* ippl := dBool in let* dra := dBool in
  let* m := dMeta in
  let* vols := dList dZ in
  let* t := dNames in let* p := dPod in ret (ippvs, plr, ippl, dra, m, vol_outcome vols, t, p).

(* selector 3: one pod delivered through the cache's event handlers:
     ippvs plr ippl dra, name table, n, n x (phase nodeName? deleting?, volumes, pod)
   AddPod(v0), UpdatePod(v0,v1), ...; output per event: tag 20, the cached task's
   Resreq, its InitResreq (the same object), the node's Used. *)
Definition dHistory :=
  let* ippvs := dBool in let* plr := dBool in let* ippl := dBool in let* dra := dBool in
  let* t := dNames in
  let* vs := dList (let* m := dMeta in let* vols := dList dZ in let* p := dPod in
                    ret (default [] (vol_outcome vols), m, p)) in
  ret (ippvs, plr, ippl, dra, t, vs).

Definition entry (sel : Z) (toks : list Z) : list Z :=
  (* selector 2 = selector 1; the harness additionally asserts that the case (a
     refutation witness) still separates volcano from upstream on the real code *)
  match (if sel =? 2 then 1 else sel) with
  | 1 => match run_dec dCase toks with
         | Some (ippvs, plr, ippl, dra, m, keys, t, p) =>
           let tr := tracked_of t in let ps := plsup_of t in
           let up := k8s_pod_requests ps (opts_of ippvs plr ippl dra) p in
           tag 1 ++ eRes (vc_pod_request tr ps ippvs plr ippl dra p) ++
           tag 2 ++ eRes (vc_pod_request_noinit tr ps ippvs plr ippl p) ++
           tag 3 ++ eRl up ++
           tag 4 ++ eRes (new_resource tr up) ++
           tag 5 ++ eRes (task_resreq tr ps ippvs plr ippl dra m p) ++
           tag 6 ++ eRes (task_init_resreq tr ps ippvs plr ippl dra m p) ++
           tag 7 ++ eBool (task_best_effort tr ps ippvs plr ippl dra m p) ++
           tag 8 ++ eRes (cache_task_resreq_o tr ps ippvs plr ippl dra keys m p) ++
           tag 9 ++ eRes (cache_task_resreq_o tr ps ippvs plr ippl dra keys m p) ++   (* InitResreq: the same object *)
           tag 10 ++ eBool (cache_task_best_effort_o tr ps ippvs plr ippl dra keys m p) ++
           tag 11 ++ eRl (k8s_pod_requests ps (opts_incoming plr dra) p)
         | None => bad_input end
  (* laws on the implementations' own results: must answer [1] *)
  | 3 => match run_dec dHistory toks with
         | Some (ippvs, plr, ippl, dra, t, vs) =>
           let tr := tracked_of t in let ps := plsup_of t in
           flat_map (fun st => tag 20 ++ eRes (st_task st) ++ eRes (st_task st) ++ eRes (st_used st))
             (ev_hist code_keeps (fun x : list positive * pod_meta * pod =>
                               cache_task_resreq tr ps ippvs plr ippl dra x.1.1 x.1.2 x.2) vs)
         | None => bad_input end
  (* the harness's decision to apply law 107 to a history must be the extracted
     decision "every version satisfies pod_ok" *)
  | 108 => match run_dec (let* claimed := dBool in let* h := dHistory in ret (claimed, h)) toks with
           | Some (claimed, (ippvs, plr, ippl, dra, t, vs)) =>
             eBool (Bool.eqb claimed
                      (forallb (fun x : list positive * pod_meta * pod =>
                                  bool_decide (pod_ok (tracked_of t) (plsup_of t) x.2)) vs))
           | None => bad_input end
  | 107 => match run_dec (let* up := dRes in let* crq := dRes in let* cirq := dRes in let* used := dRes in
                          ret (up, crq, cirq, used)) toks with
           | Some (up, crq, cirq, used) => eBool (law_event up crq cirq used)
           | None => bad_input end
  | 101 => match run_dec (let* up := dRes in let* vc := dRes in let* rq := dRes in let* irq := dRes in
                          let* be := dBool in ret (up, vc, rq, irq, be)) toks with
           | Some (up, vc, rq, irq, be) => eBool (law_task_reservation up vc rq irq be)
           | None => bad_input end
  | 102 => match run_dec (let* up := dRes in let* vc := dRes in let* rq := dRes in let* irq := dRes in
                          ret (up, vc, rq, irq)) toks with
           | Some (up, vc, rq, irq) => eBool (law_not_less_task up vc rq irq)
           | None => bad_input end
  | 103 => match run_dec (let* kc := dZ in let* km := dZ in let* ksc := dList (dPair dPos dZ) in
                          let* vc := dRes in let* rq := dRes in ret (kc, km, ksc, vc, rq)) toks with
           | Some (kc, km, ksc, vc, rq) => eBool (law_kube_units kc km ksc vc rq)
           | None => bad_input end
  (* what the scheduler cache charges: SchedulerCache.NewTaskInfo *)
  | 104 => match run_dec (let* up := dRes in let* crq := dRes in let* cirq := dRes in let* be := dBool in
                          let* vols := dList dZ in ret (up, crq, cirq, be, default [] (vol_outcome vols))) toks with
           | Some (up, crq, cirq, be, keys) => eBool (law_cache_reservation up crq cirq be keys)
           | None => bad_input end
  (* the harness's classification "inside the theorem's hypothesis" must be the
     extracted decision of pod_ok itself *)
  | 105 => match run_dec (let* claimed := dBool in let* c := dCase in ret (claimed, c)) toks with
           | Some (claimed, (ippvs, plr, ippl, dra, m, keys, t, p)) =>
             eBool (Bool.eqb claimed (bool_decide (pod_ok (tracked_of t) (plsup_of t) p)))
           | None => bad_input end
  (* the pod being placed: for a pod inside pod_ok that carries no resize
     information, InitResreq is NewResource of upstream's incoming-pod request
     (fit.go computePodResourceRequest options) + pods (+ volume counts).  The
     guard is the extracted decision of the theorem's hypotheses. *)
  | 106 => match run_dec (let* c := dCase in let* upi := dRes in let* cirq := dRes in ret (c, upi, cirq)) toks with
           | Some ((ippvs, plr, ippl, dra, m, keys, t, p), upi, cirq) =>
             if bool_decide (pod_ok (tracked_of t) (plsup_of t) p) && bool_decide (no_resize_info p)
             then eBool (bool_decide (cirq = cache_add_csi (add_scalar upi pods_name 1) (default [] keys)))
             else [1]
           | None => bad_input end
  | _ => bad_input
  end.
