(* Entry point of the C15 correspondence: selector + tokens -> tokens.

   input of selector 1:
     ippvs plr ippl dra                       four gate flags
     phase nodeName? deleting?                the pod's lifecycle position (NewTaskInfo)
     n (name tracked plsup)*n                 classification of the names >= 5
     pod                                      see [dPod]
   a quantity is two tokens (v, e): the amount v * 10^-e, 0 <= e <= 9.
   output: tag 1 GetPodResourceRequest, tag 2 GetPodResourceWithoutInitContainers,
           tag 3 upstream PodRequests (exact quantities), tag 4 NewResource of it,
           tag 5/6/7 NewTaskInfo(pod).Resreq / .InitResreq / .BestEffort.
   A quantity in an OUTPUT list is (name, whole units, nano remainder). *)
From stdpp Require Import gmap.
From Coq Require Import ZArith List.
From V Require Import Base.Codec Base.Res Base.ResCodec C15.Model C15.Laws.
Import ListNotations.
Open Scope Z_scope.

Definition tag (i : Z) : list Z := [-100 - i].

Definition dQ : dec Z :=
  let* v := dZ in let* e := dZ in
  if (e <? 0) || (9 <? e) then fail else ret (v * 10 ^ (9 - e)).

Definition dRl : dec rl := let* kvs := dList (dPair dPos dQ) in ret (list_to_map kvs).

Definition dContainer : dec container :=
  let* n := dPos in let* s := dBool in let* r := dRl in ret (mkC n s r).

Definition dStatus : dec cstatus :=
  let* n := dPos in let* r := dOpt dRl in let* a := dRl in ret (mkCS n r a).

Definition dPod : dec pod :=
  let* cs := dList dContainer in
  let* is := dList dContainer in
  let* cst := dList dStatus in
  let* ist := dList dStatus in
  let* oh := dRl in
  let* pl := dOpt dRl in
  let* conds := dList (dPair dBool dBool) in
  let* pst := dOpt dRl in
  let* pal := dRl in
  let* claims := dList dRl in
  ret (mkPod cs is cst ist oh pl conds pst pal claims).

Definition dNames : dec (gmap positive (bool * bool)) :=
  let* l := dList (dPair dPos (dPair dBool dBool)) in ret (list_to_map l).

Definition tracked_of (t : gmap positive (bool * bool)) (k : positive) : bool :=
  match t !! k with Some (a, _) => a | None => false end.
Definition plsup_of (t : gmap positive (bool * bool)) (k : positive) : bool :=
  match t !! k with Some (_, b) => b | None => false end.

Definition eRl (l : rl) : list Z :=
  eList (fun kv => [Zpos (fst kv); snd kv / nano_per_unit; snd kv mod nano_per_unit]) (sort_kv (map_to_list l)).

Definition dMeta : dec pod_meta :=
  let* ph := dZ in let* nd := dBool in let* del := dBool in
  if (ph <? 0) || (5 <? ph) then fail else ret (mkMeta ph nd del).

Definition dCase :=
  let* ippvs := dBool in let* plr := dBool in let* ippl := dBool in let* dra := dBool in
  let* m := dMeta in
  let* t := dNames in let* p := dPod in ret (ippvs, plr, ippl, dra, m, t, p).

Definition entry (sel : Z) (toks : list Z) : list Z :=
  match sel with
  | 1 => match run_dec dCase toks with
         | Some (ippvs, plr, ippl, dra, m, t, p) =>
           let tr := tracked_of t in let ps := plsup_of t in
           let up := k8s_pod_requests ps (opts_of ippvs plr ippl dra) p in
           tag 1 ++ eRes (vc_pod_request tr ps ippvs plr ippl dra p) ++
           tag 2 ++ eRes (vc_pod_request_noinit tr ps ippvs plr ippl p) ++
           tag 3 ++ eRl up ++
           tag 4 ++ eRes (new_resource tr up) ++
           tag 5 ++ eRes (task_resreq tr ps ippvs plr ippl dra m p) ++
           tag 6 ++ eRes (task_init_resreq tr ps ippvs plr ippl dra m p) ++
           tag 7 ++ eBool (task_best_effort tr ps ippvs plr ippl dra m p)
         | None => bad_input end
  (* laws on the implementations' own results: must answer [1] *)
  | 101 => match run_dec (let* up := dRes in let* vc := dRes in let* rq := dRes in let* irq := dRes in
                          let* be := dBool in ret (up, vc, rq, irq, be)) toks with
           | Some (up, vc, rq, irq, be) => eBool (law_task_reservation up vc rq irq be)
           | None => bad_input end
  | 102 => match run_dec (let* up := dRes in let* vc := dRes in let* rq := dRes in let* irq := dRes in
                          ret (up, vc, rq, irq)) toks with
           | Some (up, vc, rq, irq) => eBool (law_not_less_task up vc rq irq)
           | None => bad_input end
  | 103 => match run_dec (let* kc := dZ in let* km := dZ in let* vc := dRes in let* rq := dRes in
                          ret (kc, km, vc, rq)) toks with
           | Some (kc, km, vc, rq) => eBool (law_kube_units kc km vc rq)
           | None => bad_input end
  | _ => bad_input
  end.
