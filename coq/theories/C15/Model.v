(* C15 — two executable models, each transcribed from its own Go source.

   [vc_*]  : volcano  pkg/scheduler/api/pod_info.go (after the two C15 fix: commits)
               GetPodResourceRequest 68-72, aggregateAllContainerResourceRequests 82-138,
               GetPodResourceWithoutInitContainers 257-261,
               aggregateRegularContainerResourceRequests 264-289,
               amendResourceAccordingToPodFeatures 319-348, determinePodLevelReqs 394-404,
               determineContainerReqs / maxFn / maxResourceList 407-436
             pkg/scheduler/api/resource_info.go  NewResource 87-123, AddScalar/SetScalar 931-942
             (Resource.Add / SetMaxResource are Base.Res.add / set_max)
   [k8s_*] : k8s.io/component-helpers@v0.36.1/resource/helpers.go
               IsSupportedPodLevelResource 76-78, IsPodLevelRequestsSet 108-124,
               PodRequests 151-187, AggregateContainerRequests 193-291,
               determineEffectiveRequests 299-304, IsPodResizeInfeasible 314-321,
               addResourceList 474-483, maxResourceList 486-492, max 496-507
             with the options kube-scheduler's PodInfo.CalculateResource passes
             (k8s.io/kubernetes@v1.36.1 pkg/scheduler/framework/types.go 832-848).

   A v1.ResourceList is a [gmap positive Z]: resource name -> exact amount in
   NANO units (resource.Quantity never keeps more than 9 fractional digits).
   Quantity.MilliValue()/Value() round away from zero ([round_away]).
   Names: 1 "pods" (Base.Res.pods_name), 2 "cpu", 3 "memory",
   4 "ephemeral-storage"; every other name k >= 5 is classified by two
   functions the caller supplies (Section variables):
     tracked k : NewResource keeps it as a scalar (IsScalarResourceName, not
                 "count/..." and not in IgnoredDevicesList)
     plsup k   : IsSupportedPodLevelResource ("hugepages-" prefix)
   Executable definitions only; proofs are in Lemmas.v. *)
From stdpp Require Import gmap.
From Coq Require Import ZArith.
From V Require Import Base.Res.
Open Scope Z_scope.

Notation rl := (gmap positive Z).

Definition cpu_name : positive := 2%positive.
Definition mem_name : positive := 3%positive.
Definition eph_name : positive := 4%positive.

Definition nano_per_milli : Z := 1000000.
Definition nano_per_unit : Z := 1000000000.

(* apimachinery resource: int64Amount.AsScaledInt64 / negativeScaleInt64 round
   any non-zero remainder away from zero *)
Definition round_away (q u : Z) : Z :=
  if bool_decide (0 <= q) then (q + u - 1) / u else - ((- q + u - 1) / u).
Definition milli_value (q : Z) : Z := round_away q nano_per_milli.
Definition unit_value (q : Z) : Z := round_away q nano_per_unit.

(* the four names NewResource and the pod-level rule treat by name *)
Definition fixed (k : positive) : bool :=
  bool_decide (k = pods_name) || bool_decide (k = cpu_name) ||
  bool_decide (k = mem_name) || bool_decide (k = eph_name).

(* ---------- the pod, as far as either function reads it ---------- *)

Record container := mkC {
  c_name : positive;
  c_sidecar : bool;          (* RestartPolicy != nil && *RestartPolicy == Always *)
  c_req : rl                 (* Resources.Requests *)
}.

Record cstatus := mkCS {
  cs_name : positive;
  cs_res : option rl;        (* Resources == nil -> None, else Some Resources.Requests *)
  cs_alloc : rl              (* AllocatedResources *)
}.

Record pod := mkPod {
  p_containers : list container;
  p_inits : list container;
  p_cstat : list cstatus;            (* Status.ContainerStatuses *)
  p_istat : list cstatus;            (* Status.InitContainerStatuses *)
  p_overhead : rl;                   (* Spec.Overhead (nil = empty: both only range over it) *)
  p_plreq : option rl;               (* Spec.Resources == nil -> None, else Some Requests *)
  p_conds : list (bool * bool);      (* Status.Conditions: (Type == PodResizePending, Reason == Infeasible) *)
  p_pstat : option rl;               (* Status.Resources == nil -> None, else Some Requests *)
  p_palloc : rl;                     (* Status.AllocatedResources *)
  p_claims : list rl                 (* Status.NodeAllocatableResourceClaimStatuses[i].Resources *)
}.

(* a Go map filled by ranging over a status slice: a later entry with the same
   name replaces an earlier one *)
Definition status_map_from (m : gmap positive cstatus) (l : list cstatus) : gmap positive cstatus :=
  fold_left (fun m cs => <[cs_name cs := cs]> m) l m.
Definition status_map (l : list cstatus) : gmap positive cstatus := status_map_from ∅ l.

(* IsPodResizeInfeasible: the FIRST PodResizePending condition decides *)
Fixpoint resize_infeasible (l : list (bool * bool)) : bool :=
  match l with
  | [] => false
  | (is_pending, infeasible) :: r => if is_pending then infeasible else resize_infeasible r
  end.

(* maxResourceList (identical text in both code bases): for every name of the
   second list, take it when the first has none or a strictly smaller amount *)
Definition max_rl (a b : rl) : rl := union_with (fun x y => Some (Z.max x y)) a b.
(* addResourceList *)
Definition add_rl (a b : rl) : rl := union_with (fun x y => Some (x + y)) a b.

Section Names.
Variable tracked : positive -> bool.
Variable plsup : positive -> bool.

(* IsSupportedPodLevelResource *)
Definition supported (k : positive) : bool :=
  bool_decide (k = cpu_name) || bool_decide (k = mem_name) || (negb (fixed k) && plsup k).

(* IsPodLevelRequestsSet *)
Definition pl_requests_set (p : pod) : bool :=
  match p_plreq p with
  | None => false
  | Some l => map_anyb (fun k _ => supported k) l
  end.

(* ================= volcano ================= *)

(* NewResource: the scalar entry (if any) a name contributes *)
Definition sc_conv (k : positive) (q : Z) : option Z :=
  if bool_decide (k = cpu_name) || bool_decide (k = mem_name) then None
  else if bool_decide (k = pods_name) then Some (unit_value q)
  else if bool_decide (k = eph_name) then Some (milli_value q)
  else if tracked k then Some (milli_value q)
  else None.

Definition new_resource (l : rl) : res :=
  let m : smap := map_imap sc_conv l in
  mkRes (milli_value (default 0 (l !! cpu_name)))
        (unit_value (default 0 (l !! mem_name)))
        (if bool_decide (m = ∅) then None else Some m).   (* map allocated by the first AddScalar *)

(* AddScalar *)
Definition add_scalar (r : res) (k : positive) (q : Z) : res :=
  mkRes (cpu r) (mem r) (Some (<[k := sget r k + q]> (scm r))).

(* determineContainerReqs with volcano's own maxFn *)
Definition vc_determine (infeasible : bool) (spec act alloc : rl) : rl :=
  if infeasible then max_rl act alloc
  else max_rl (max_rl spec act) alloc.

Definition vc_eff_req (ippvs infeasible : bool) (sm : gmap positive cstatus) (c : container) : rl :=
  if ippvs then
    match sm !! c_name c with
    | Some cs => match cs_res cs with
                 | Some act => vc_determine infeasible (c_req c) act (cs_alloc cs)
                 | None => c_req c
                 end
    | None => c_req c
    end
  else c_req c.

(* aggregateRegularContainerResourceRequests; [ippvs] is the gate InPlacePodVerticalScaling *)
Definition vc_regular (ippvs : bool) (p : pod) : res :=
  let sm := status_map (p_cstat p) in
  let inf := resize_infeasible (p_conds p) in
  fold_left (fun acc c => add acc (new_resource (vc_eff_req ippvs inf sm c))) (p_containers p) empty_res.

(* one iteration of the init-container loop; state = (result, restartableInitContainerReqs, initContainerReqs) *)
Definition vc_init_step (ippvs infeasible : bool) (ism : gmap positive cstatus)
    (st : res * res * res) (c : container) : res * res * res :=
  let '(result, rst, ini) := st in
  let cur := if c_sidecar c then vc_eff_req ippvs infeasible ism c else c_req c in
  let creq := new_resource cur in
  if c_sidecar c then
    let result' := add result creq in
    let rst' := add rst creq in
    (result', rst', set_max ini rst')
  else
    (result, rst, set_max ini (add (add empty_res creq) rst)).

(* aggregateAllContainerResourceRequests; [dra] is the gate DRANodeAllocatableResources *)
Definition vc_aggregate (ippvs dra : bool) (p : pod) : res :=
  let ism := status_map (p_istat p) in
  let inf := resize_infeasible (p_conds p) in
  let '(result, _, ini) :=
    fold_left (vc_init_step ippvs inf ism) (p_inits p) (vc_regular ippvs p, empty_res, empty_res) in
  let total := set_max result ini in
  let total :=
    if dra then fold_left (fun acc cl => add acc (new_resource cl)) (p_claims p) total else total in
  add_scalar total pods_name 1.

(* determinePodLevelReqs; [ippl] is the gate InPlacePodLevelResourcesVerticalScaling *)
Definition vc_pod_level_reqs (ippvs ippl : bool) (p : pod) : rl :=
  let l := default ∅ (p_plreq p) in
  if ippl && ippvs then
    match p_pstat p with
    | Some act => vc_determine (resize_infeasible (p_conds p)) l act (p_palloc p)
    | None => l
    end
  else l.

(* amendResourceAccordingToPodFeatures; [plr] is the gate PodLevelResources *)
Definition vc_amend (ippvs plr ippl : bool) (r : res) (p : pod) : res :=
  let r1 := mkRes (cpu r) (mem r) (Some (scm r)) in
  let r2 :=
    if plr && pl_requests_set p then
      let l := default ∅ (p_plreq p) in
      let pr := new_resource (vc_pod_level_reqs ippvs ippl p) in
      mkRes (if bool_decide (is_Some (l !! cpu_name)) then cpu pr else cpu r1)
            (if bool_decide (is_Some (l !! mem_name)) then mem pr else mem r1)
            (Some (map_imap (fun k _ =>
                     if supported k && negb (bool_decide (k = cpu_name)) && negb (bool_decide (k = mem_name))
                     then Some (sget pr k) else None) l ∪ scm r1))
    else r1 in
  add r2 (new_resource (p_overhead p)).

(* GetPodResourceRequest: TaskInfo.Resreq and TaskInfo.InitResreq are this value *)
Definition vc_pod_request (ippvs plr ippl dra : bool) (p : pod) : res :=
  vc_amend ippvs plr ippl (vc_aggregate ippvs dra p) p.

(* GetPodResourceWithoutInitContainers *)
Definition vc_pod_request_noinit (ippvs plr ippl : bool) (p : pod) : res :=
  vc_amend ippvs plr ippl (vc_regular ippvs p) p.

(* ---- NewTaskInfo (pkg/scheduler/api/job_info.go 207-210, 229-230, 232) ----
   What the scheduler RESERVES for a pod: TaskInfo.Resreq is charged to the node
   ledger by NodeInfo.AddTask, TaskInfo.InitResreq is what predicates compare
   with the idle amount.  The code reads neither the phase, nor spec.nodeName,
   nor the deletion timestamp for them (these only decide the task STATUS):
       initResReq := GetPodResourceRequest(pod);  resReq := initResReq
       bestEffort := initResReq.IsEmpty()
   The pod's lifecycle position is carried along so that the statement
   quantifies over it. *)
Record pod_meta := mkMeta {
  m_phase : Z;          (* 0 "", 1 Pending, 2 Running, 3 Succeeded, 4 Failed, 5 Unknown *)
  m_node : bool;        (* spec.nodeName set *)
  m_deleting : bool     (* metadata.deletionTimestamp set *)
}.

Definition task_init_resreq (ippvs plr ippl dra : bool) (m : pod_meta) (p : pod) : res :=
  vc_pod_request ippvs plr ippl dra p.
Definition task_resreq (ippvs plr ippl dra : bool) (m : pod_meta) (p : pod) : res :=
  task_init_resreq ippvs plr ippl dra m p.
(* Resource.IsEmpty with minResource = 0.1 on integer amounts: threshold 1 *)
Definition task_best_effort (ippvs plr ippl dra : bool) (m : pod_meta) (p : pod) : bool :=
  is_empty 1 (task_init_resreq ippvs plr ippl dra m p).

(* ---- SchedulerCache.NewTaskInfo (pkg/scheduler/cache/event_handlers.go 90-100, 253-259) ----
   The TaskInfo the cache actually charges to the ledgers (addPod 263-265) is
   api.NewTaskInfo's, mutated: for every attach-limit name the pod's CSI volumes
   resolve to (getPodCSIVolumes 101-165 through the PVC / PV / StorageClass
   listers: external behaviour, given here as the list [keys] of resolved
   names, one entry per counted volume)
       pi.Resreq.AddScalar(key, float64(count))
   Resreq and InitResreq are ONE pointer (job_info.go 208-209), so InitResreq
   sees the same mutation, and BestEffort is recomputed from it.  The count is
   added as a raw number (not milli). *)
Definition csi_counts (keys : list positive) : smap :=
  fold_left (fun c k => <[k := default 0 (c !! k) + 1]> c) keys ∅.

(* the loop of AddScalar calls = Resource.Add of a vector that has only these scalars *)
Definition cache_add_csi (r : res) (keys : list positive) : res :=
  add r (mkRes 0 0 (Some (csi_counts keys))).

Definition cache_task_resreq (ippvs plr ippl dra : bool) (keys : list positive) (m : pod_meta) (p : pod) : res :=
  cache_add_csi (task_resreq ippvs plr ippl dra m p) keys.
(* the same object as Resreq *)
Definition cache_task_init_resreq (ippvs plr ippl dra : bool) (keys : list positive) (m : pod_meta) (p : pod) : res :=
  cache_task_resreq ippvs plr ippl dra keys m p.
Definition cache_task_best_effort (ippvs plr ippl dra : bool) (keys : list positive) (m : pod_meta) (p : pod) : bool :=
  is_empty 1 (cache_task_init_resreq ippvs plr ippl dra keys m p).

(* error outcome of the volume lookups: when getPodCSIVolumes fails (a PVC is not
   in the informer yet: pendingPVCError; an ephemeral volume's PVC is not owned by
   the pod; ...) addPodCSIVolumesToTask returns BEFORE any AddScalar (event_handlers.go
   91-95) and SchedulerCache.NewTaskInfo returns before recomputing BestEffort
   (255-257): the TaskInfo is api.NewTaskInfo's, unchanged.  On pendingPVCError addPod
   still adds that task to the ledgers (290-296).  [None] = error, [Some keys] = success. *)
Definition cache_task_resreq_o (ippvs plr ippl dra : bool) (ko : option (list positive)) (m : pod_meta) (p : pod) : res :=
  match ko with
  | Some keys => cache_task_resreq ippvs plr ippl dra keys m p
  | None => task_resreq ippvs plr ippl dra m p
  end.
Definition cache_task_best_effort_o (ippvs plr ippl dra : bool) (ko : option (list positive)) (m : pod_meta) (p : pod) : bool :=
  match ko with
  | Some keys => cache_task_best_effort ippvs plr ippl dra keys m p
  | None => task_best_effort ippvs plr ippl dra m p
  end.

(* ---- events: SchedulerCache.AddPod / UpdatePod (cache/event_handlers.go 270-300, 357-372, 452-497) ----
   for a pod that is bound to a known node and not terminated.  addPod builds a
   NEW TaskInfo from the pod object of the event and addTask charges it
   (NodeInfo.AddTask: Used.Add(Resreq)); updatePod is deletePod(old) - RemoveTask:
   Used.Sub(stored Resreq) - followed by addPod(new).  The state kept here: the
   cached task's request and the node's Used vector (one pod on the node). *)
Record cache_st := mkSt { st_task : res; st_used : res }.

Definition ev_add (req : res) : cache_st := mkSt req (add empty_res req).
Definition ev_update (st : cache_st) (req : res) : cache_st :=
  mkSt req (add (sub (st_used st) (st_task st)) req).

(* the states after each event of a history: AddPod(v0), UpdatePod(v0,v1), ... ;
   [reqs] are the requests computed from the successive pod objects *)
Fixpoint ev_trace_from (st : cache_st) (reqs : list res) : list cache_st :=
  match reqs with
  | [] => []
  | r :: rs => let st' := ev_update st r in st' :: ev_trace_from st' rs
  end.
Definition ev_trace (reqs : list res) : list cache_st :=
  match reqs with
  | [] => []
  | r :: rs => ev_add r :: ev_trace_from (ev_add r) rs
  end.

(* updatePod with its guard structure (event_handlers.go 357-372): BEFORE the
   delete/add round trip there is an early return that keeps the stored task,
       if sc.allocatedPodInCache(newPod) && newPod.Spec.NodeName == "" { return nil }
   [keeps prev v] says whether the update from version prev to version v takes an
   early return; then the state (stored task AND Used) is left unchanged.  Otherwise
   RemoveTask subtracts the STORED task's request and addPod charges a new TaskInfo
   computed from v alone. *)
Fixpoint ev_hist_from {V} (keeps : V -> V -> bool) (req : V -> res) (prev : V) (st : cache_st) (vs : list V)
    : list cache_st :=
  match vs with
  | [] => []
  | v :: r =>
    let st' := if keeps prev v then st else ev_update st (req v) in
    st' :: ev_hist_from keeps req v st' r
  end.
Definition ev_hist {V} (keeps : V -> V -> bool) (req : V -> res) (vs : list V) : list cache_st :=
  match vs with
  | [] => []
  | v :: r => ev_add (req v) :: ev_hist_from keeps req v (ev_add (req v)) r
  end.

(* the guard of the code, for a stored task in an allocated status (Bound /
   Running: the event family): keep iff the new pod object has no nodeName *)
Definition code_keeps (a b : list positive * pod_meta * pod) : bool := negb (m_node (snd (fst b))).

(* ================= upstream ================= *)

(* PodResourcesOptions, the fields the scheduler sets; the others are at their
   zero value (Reuse nil, ExcludeOverhead false, ContainerFn nil,
   NonMissingContainerRequests nil, SkipContainerLevelResources false) *)
Record opts := mkOpts {
  o_status : bool;     (* UseStatusResources *)
  o_ippl : bool;       (* InPlacePodLevelResourcesVerticalScalingEnabled *)
  o_skip_pl : bool;    (* SkipPodLevelResources *)
  o_dra : bool         (* UseDRANodeAllocatableResourceClaimStatus *)
}.

(* determineEffectiveRequests with upstream's max *)
Definition k8s_determine (infeasible : bool) (spec act alloc : rl) : rl :=
  if infeasible then max_rl act alloc
  else max_rl (max_rl spec act) alloc.

Definition k8s_eff_req (o : opts) (infeasible : bool) (sm : gmap positive cstatus) (c : container) : rl :=
  if o_status o then
    match sm !! c_name c with
    | Some cs => match cs_res cs with
                 | Some act => k8s_determine infeasible (c_req c) act (cs_alloc cs)
                 | None => c_req c
                 end
    | None => c_req c
    end
  else c_req c.

Definition k8s_init_step (o : opts) (infeasible : bool) (sm : gmap positive cstatus)
    (st : rl * rl * rl) (c : container) : rl * rl * rl :=
  let '(reqs, rst, ini) := st in
  let cur := if c_sidecar c then k8s_eff_req o infeasible sm c else c_req c in
  if c_sidecar c then
    let reqs' := add_rl reqs cur in
    let rst' := add_rl rst cur in
    (reqs', rst', max_rl ini rst')
  else
    (reqs, rst, max_rl ini (add_rl (add_rl ∅ cur) rst)).

(* AggregateContainerRequests: ONE status map, container statuses first, init
   container statuses on top *)
Definition k8s_aggregate (o : opts) (p : pod) : rl :=
  let sm := status_map_from (status_map (p_cstat p)) (p_istat p) in
  let inf := resize_infeasible (p_conds p) in
  let regular := fold_left (fun acc c => add_rl acc (k8s_eff_req o inf sm c)) (p_containers p) ∅ in
  let '(reqs, _, ini) := fold_left (k8s_init_step o inf sm) (p_inits p) (regular, ∅, ∅) in
  let reqs := max_rl reqs ini in
  if o_dra o then fold_left add_rl (p_claims p) reqs else reqs.

(* the rest of PodRequests, applied to the aggregate *)
Definition k8s_finish (o : opts) (p : pod) (reqs : rl) : rl :=
  let reqs1 :=
    if negb (o_skip_pl o) && pl_requests_set p then
      let l := default ∅ (p_plreq p) in
      let eff : option rl :=
        if o_ippl o && o_status o then
          match p_pstat p with
          | Some act => Some (k8s_determine (resize_infeasible (p_conds p)) l act (p_palloc p))
          | None => None
          end
        else None in
      map_imap (fun k q =>
        if supported k
        then Some (match eff with Some e => default 0 (e !! k) | None => q end)
        else None) l ∪ reqs
    else reqs in
  add_rl reqs1 (p_overhead p).

Definition k8s_pod_requests (o : opts) (p : pod) : rl := k8s_finish o p (k8s_aggregate o p).

End Names.

(* WHICH upstream computation applies WHERE:
   - a pod already on a node (NodeInfo.Requested, what kubelet admission and the
     fit plugin subtract from allocatable): PodInfo.CalculateResource, [opts_of];
   - the pod being placed / admitted: noderesources computePodResourceRequest
     (k8s.io/kubernetes@v1.36.1 .../noderesources/fit.go 321-327; kubelet reaches it
     through lifecycle/predicate.go:436 -> AdmissionCheck -> Fits): PodRequests with
     the status options OFF ("pod hasn't scheduled yet"), [opts_incoming]. *)
Definition opts_incoming (plr dra : bool) : opts := mkOpts false false (negb plr) dra.

(* the options CalculateResource derives from the four feature gates *)
Definition opts_of (ippvs plr ippl dra : bool) : opts := mkOpts ippvs ippl (negb plr) dra.
