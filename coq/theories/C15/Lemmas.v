(* C15 proofs: volcano's pod request is upstream's, converted by NewResource,
   plus one "pods" — for every pod whose amounts lie on the conversion grid. *)
From stdpp Require Import gmap.
From Coq Require Import ZArith Lia.
From V Require Import Base.Res Base.ResLemmas C15.Model C15.Laws.
Open Scope Z_scope.

(* ---------- rounding ---------- *)

Lemma round_away_mul a u : 0 < u -> round_away (a * u) u = a.
Proof.
  intros Hu. unfold round_away. case_bool_decide.
  - replace (a * u + u - 1) with ((u - 1) + a * u) by lia.
    rewrite Z.div_add, Z.div_small by lia. lia.
  - replace (- (a * u) + u - 1) with ((u - 1) + (- a) * u) by lia.
    rewrite Z.div_add, Z.div_small by lia. lia.
Qed.

(* the grid on which a name's conversion is exact: whole units for memory and
   pods (Value()), milli-units for everything else (MilliValue()) *)
Definition unit_of (k : positive) : Z :=
  if bool_decide (k = mem_name) || bool_decide (k = pods_name) then nano_per_unit else nano_per_milli.

Lemma unit_of_pos k : 0 < unit_of k.
Proof. unfold unit_of, nano_per_unit, nano_per_milli. destruct (_ || _); lia. Qed.

Definition on_grid (k : positive) (q : Z) : Prop := 0 <= q /\ q mod unit_of k = 0.

Lemma on_grid_repr k q : on_grid k q -> exists a, 0 <= a /\ q = a * unit_of k.
Proof.
  intros [Hq Hm]. pose proof (unit_of_pos k) as Hu. exists (q / unit_of k). split.
  - apply Z.div_pos; lia.
  - rewrite (Z.div_mod q (unit_of k)) at 1 by lia. rewrite Hm. lia.
Qed.

Lemma on_grid_mul k a : 0 <= a -> on_grid k (a * unit_of k).
Proof.
  intros Ha. pose proof (unit_of_pos k). split; [nia|]. apply Z.mod_mul. lia.
Qed.

Lemma on_grid_0 k : on_grid k 0.
Proof. replace 0 with (0 * unit_of k) by lia. apply on_grid_mul. lia. Qed.

Lemma on_grid_add k x y : on_grid k x -> on_grid k y -> on_grid k (x + y).
Proof.
  intros (a & Ha & ->)%on_grid_repr (b & Hb & ->)%on_grid_repr.
  replace (a * unit_of k + b * unit_of k) with ((a + b) * unit_of k) by lia.
  apply on_grid_mul. lia.
Qed.

Lemma on_grid_max k x y : on_grid k x -> on_grid k y -> on_grid k (Z.max x y).
Proof. intros Hx Hy. destruct (Z.max_spec x y) as [[_ ->]|[_ ->]]; assumption. Qed.

(* the conversion of a name's amount *)
Definition cv (k : positive) (q : Z) : Z := round_away q (unit_of k).

Lemma cv_add k x y : on_grid k x -> on_grid k y -> cv k (x + y) = cv k x + cv k y.
Proof.
  intros (a & Ha & ->)%on_grid_repr (b & Hb & ->)%on_grid_repr. unfold cv.
  pose proof (unit_of_pos k).
  replace (a * unit_of k + b * unit_of k) with ((a + b) * unit_of k) by lia.
  rewrite !round_away_mul by lia. reflexivity.
Qed.

Lemma cv_max k x y : on_grid k x -> on_grid k y -> cv k (Z.max x y) = Z.max (cv k x) (cv k y).
Proof.
  intros (a & Ha & ->)%on_grid_repr (b & Hb & ->)%on_grid_repr. unfold cv.
  pose proof (unit_of_pos k).
  rewrite Z.mul_max_distr_nonneg_r by lia.
  rewrite !round_away_mul by lia. reflexivity.
Qed.

Lemma cv_0 k : cv k 0 = 0.
Proof. unfold cv. replace 0 with (0 * unit_of k) at 1 by lia. apply round_away_mul, unit_of_pos. Qed.

Lemma cv_nonneg k x : on_grid k x -> 0 <= cv k x.
Proof.
  intros (a & Ha & ->)%on_grid_repr. unfold cv. rewrite round_away_mul by apply unit_of_pos. lia.
Qed.

Lemma milli_cv q : milli_value q = cv cpu_name q.
Proof. reflexivity. Qed.
Lemma unit_cv q : unit_value q = cv mem_name q.
Proof. reflexivity. Qed.

(* ---------- resource lists on the grid ---------- *)

Definition good (l : rl) : Prop := map_Forall on_grid l.

Lemma good_empty : good ∅.
Proof. apply map_Forall_empty. Qed.

Lemma good_default l k : good l -> on_grid k (default 0 (l !! k)).
Proof.
  intros Hg. destruct (l !! k) as [q|] eqn:E; simpl.
  - exact (Hg k q E).
  - apply on_grid_0.
Qed.

Lemma good_add a b : good a -> good b -> good (add_rl a b).
Proof.
  intros Ha Hb k q. unfold add_rl. rewrite lookup_union_with.
  destruct (a !! k) as [x|] eqn:Ea, (b !! k) as [y|] eqn:Eb; simpl; intros [= <-].
  - apply on_grid_add; [exact (Ha k x Ea)|exact (Hb k y Eb)].
  - exact (Ha k x Ea).
  - exact (Hb k y Eb).
Qed.

Lemma good_max a b : good a -> good b -> good (max_rl a b).
Proof.
  intros Ha Hb k q. unfold max_rl. rewrite lookup_union_with.
  destruct (a !! k) as [x|] eqn:Ea, (b !! k) as [y|] eqn:Eb; simpl; intros [= <-].
  - apply on_grid_max; [exact (Ha k x Ea)|exact (Hb k y Eb)].
  - exact (Ha k x Ea).
  - exact (Hb k y Eb).
Qed.

Lemma default_add a b k : default 0 (add_rl a b !! k) = default 0 (a !! k) + default 0 (b !! k).
Proof.
  unfold add_rl. rewrite lookup_union_with.
  destruct (a !! k), (b !! k); simpl; lia.
Qed.

Lemma default_max a b k : good a -> good b ->
  default 0 (max_rl a b !! k) = Z.max (default 0 (a !! k)) (default 0 (b !! k)).
Proof.
  intros Ha Hb. unfold max_rl. rewrite lookup_union_with.
  destruct (a !! k) as [x|] eqn:Ea, (b !! k) as [y|] eqn:Eb; simpl; try lia.
  - destruct (Ha k x Ea). lia.
  - destruct (Hb k y Eb). lia.
Qed.

(* ---------- equality of Resource vectors up to nil/empty scalar map ---------- *)

Definition req (r s : res) : Prop := cpu r = cpu s /\ mem r = mem s /\ scm r = scm s.

Lemma req_refl r : req r r.
Proof. repeat split. Qed.
Lemma req_sym r s : req r s -> req s r.
Proof. intros (?&?&?). repeat split; congruence. Qed.
Lemma req_trans r s t : req r s -> req s t -> req r t.
Proof. intros (?&?&?) (?&?&?). repeat split; congruence. Qed.

Lemma scm_add r s : scm (add r s) = union_with (fun a b => Some (a + b)) (scm r) (scm s).
Proof. apply map_eq. intros k. rewrite add_lookup, lookup_union_with. reflexivity. Qed.

Lemma scm_set_max r s : scm (set_max r s) = union_with (fun a b => Some (Z.max a b)) (scm r) (scm s).
Proof.
  apply map_eq. intros k. destruct (set_max_spec r s) as (_ & _ & H).
  rewrite H, lookup_union_with. reflexivity.
Qed.

Lemma req_add r r' s s' : req r r' -> req s s' -> req (add r s) (add r' s').
Proof.
  intros (?&?&?) (?&?&?). split; [|split].
  - rewrite !add_cpu. congruence.
  - rewrite !add_mem. congruence.
  - rewrite !scm_add. congruence.
Qed.

Lemma req_set_max r r' s s' : req r r' -> req s s' -> req (set_max r s) (set_max r' s').
Proof.
  intros (?&?&?) (?&?&?). split; [|split].
  - unfold set_max; simpl. congruence.
  - unfold set_max; simpl. congruence.
  - rewrite !scm_set_max. congruence.
Qed.

Lemma sget_scm r s k : scm r = scm s -> sget r k = sget s k.
Proof. unfold sget. intros ->. reflexivity. Qed.

Lemma scm_some c m x : scm (mkRes c m (Some x)) = x.
Proof. reflexivity. Qed.

Section Names.
Variable tracked : positive -> bool.
Variable plsup : positive -> bool.

Notation new_resource := (new_resource tracked).
Notation sc_conv := (sc_conv tracked).

(* ---------- NewResource as a homomorphism ---------- *)

Definition keep (k : positive) : bool :=
  negb (bool_decide (k = cpu_name) || bool_decide (k = mem_name)) &&
  (bool_decide (k = pods_name) || bool_decide (k = eph_name) || tracked k).

Lemma sc_conv_eq k q : sc_conv k q = if keep k then Some (cv k q) else None.
Proof.
  unfold Model.sc_conv, keep, cv, unit_of, unit_value, milli_value.
  repeat case_bool_decide; subst; simpl; try reflexivity; try discriminate;
    destruct (tracked k); reflexivity.
Qed.

Lemma scm_new l : scm (new_resource l) = map_imap sc_conv l.
Proof.
  unfold Model.new_resource. case_bool_decide as E.
  - rewrite E. reflexivity.
  - reflexivity.
Qed.

Lemma cpu_new l : cpu (new_resource l) = cv cpu_name (default 0 (l !! cpu_name)).
Proof. reflexivity. Qed.
Lemma mem_new l : mem (new_resource l) = cv mem_name (default 0 (l !! mem_name)).
Proof. reflexivity. Qed.

Lemma new_add a b : good a -> good b ->
  req (new_resource (add_rl a b)) (add (new_resource a) (new_resource b)).
Proof.
  intros Ha Hb. split; [|split].
  - rewrite add_cpu, !cpu_new, default_add. apply cv_add; apply good_default; assumption.
  - rewrite add_mem, !mem_new, default_add. apply cv_add; apply good_default; assumption.
  - rewrite scm_add, !scm_new. apply map_eq. intros k.
    rewrite lookup_union_with, !map_lookup_imap. unfold add_rl. rewrite lookup_union_with.
    destruct (a !! k) as [x|] eqn:Ea, (b !! k) as [y|] eqn:Eb; simpl; rewrite ?sc_conv_eq;
      destruct (keep k); simpl; try reflexivity.
    f_equal. apply cv_add; [exact (Ha k x Ea)|exact (Hb k y Eb)].
Qed.

Lemma new_max a b : good a -> good b ->
  req (new_resource (max_rl a b)) (set_max (new_resource a) (new_resource b)).
Proof.
  intros Ha Hb. split; [|split].
  - unfold set_max; simpl. fold (cpu (new_resource a)). rewrite !milli_cv, default_max by assumption.
    apply cv_max; apply good_default; assumption.
  - unfold set_max; simpl. rewrite !unit_cv, default_max by assumption.
    apply cv_max; apply good_default; assumption.
  - rewrite scm_set_max, !scm_new. apply map_eq. intros k.
    rewrite lookup_union_with, !map_lookup_imap. unfold max_rl. rewrite lookup_union_with.
    destruct (a !! k) as [x|] eqn:Ea, (b !! k) as [y|] eqn:Eb; simpl; rewrite ?sc_conv_eq;
      destruct (keep k); simpl; try reflexivity.
    f_equal. apply cv_max; [exact (Ha k x Ea)|exact (Hb k y Eb)].
Qed.

(* [sim r l]: the volcano vector r is NewResource of the upstream list l *)
Definition sim (r : res) (l : rl) : Prop := good l /\ req r (new_resource l).

Lemma sim_new l : good l -> sim (new_resource l) l.
Proof. intros. split; [assumption|apply req_refl]. Qed.

Lemma sim_empty : sim empty_res ∅.
Proof.
  split; [apply good_empty|]. split; [|split].
  - rewrite cpu_new, lookup_empty. simpl. rewrite cv_0. reflexivity.
  - rewrite mem_new, lookup_empty. simpl. rewrite cv_0. reflexivity.
  - rewrite scm_new, map_imap_empty. reflexivity.
Qed.

Lemma sim_add r a s b : sim r a -> sim s b -> sim (add r s) (add_rl a b).
Proof.
  intros [Ga Ra] [Gb Rb]. split; [apply good_add; assumption|].
  eapply req_trans; [apply req_add; eassumption|]. apply req_sym, new_add; assumption.
Qed.

Lemma sim_max r a s b : sim r a -> sim s b -> sim (set_max r s) (max_rl a b).
Proof.
  intros [Ga Ra] [Gb Rb]. split; [apply good_max; assumption|].
  eapply req_trans; [apply req_set_max; eassumption|]. apply req_sym, new_max; assumption.
Qed.

(* ---------- statuses ---------- *)

Definition good_status (cs : cstatus) : Prop :=
  good (default ∅ (cs_res cs)) /\ good (cs_alloc cs).

Lemma status_map_from_notin m l n :
  n ∉ map cs_name l -> status_map_from m l !! n = m !! n.
Proof.
  revert m. induction l as [|x l IH]; intros m Hn; [reflexivity|].
  simpl in Hn. apply not_elem_of_cons in Hn as [Hx Hl].
  unfold status_map_from. simpl. fold (status_map_from (<[cs_name x:=x]> m) l).
  rewrite IH by assumption. apply lookup_insert_ne. congruence.
Qed.

Lemma status_map_from_snoc m l x :
  status_map_from m (l ++ [x]) = <[cs_name x := x]> (status_map_from m l).
Proof. unfold status_map_from. rewrite fold_left_app. reflexivity. Qed.

Lemma status_map_from_lookup m l n :
  status_map_from m l !! n =
  match status_map l !! n with Some x => Some x | None => m !! n end.
Proof.
  induction l as [|x l IH] using rev_ind.
  - unfold status_map, status_map_from. simpl. rewrite lookup_empty. reflexivity.
  - unfold status_map. rewrite !status_map_from_snoc. fold (status_map l).
    destruct (decide (cs_name x = n)) as [->|Hne].
    + rewrite !lookup_insert. reflexivity.
    + rewrite !lookup_insert_ne by assumption. exact IH.
Qed.

Lemma status_map_from_good m l :
  map_Forall (fun _ cs => good_status cs) m -> Forall good_status l ->
  map_Forall (fun _ cs => good_status cs) (status_map_from m l).
Proof.
  revert m. induction l as [|x l IH]; intros m Hm Hl; [exact Hm|].
  inversion Hl; subst. unfold status_map_from. simpl. apply IH; [|assumption].
  apply map_Forall_insert_2; assumption.
Qed.

(* ---------- effective container requests ---------- *)

Lemma good_determine inf spec act alloc :
  good spec -> good act -> good alloc -> good (k8s_determine inf spec act alloc).
Proof.
  intros. unfold k8s_determine. destruct inf; repeat apply good_max; assumption.
Qed.

Lemma eff_eq ippvs o inf sm sm' c :
  o_status o = ippvs -> sm !! c_name c = sm' !! c_name c ->
  vc_eff_req ippvs inf sm c = k8s_eff_req o inf sm' c.
Proof.
  intros <- E. unfold vc_eff_req, k8s_eff_req. rewrite E. reflexivity.
Qed.

Lemma eff_good o inf sm c :
  good (c_req c) -> map_Forall (fun _ cs => good_status cs) sm -> good (k8s_eff_req o inf sm c).
Proof.
  intros Hc Hsm. unfold k8s_eff_req. destruct (o_status o); [|assumption].
  destruct (sm !! c_name c) as [cs|] eqn:E; [|assumption].
  destruct (Hsm _ _ E) as [Hr Ha]. destruct (cs_res cs) as [act|]; [|assumption].
  apply good_determine; assumption.
Qed.

(* ---------- the pod ---------- *)

Definition good_container (c : container) : Prop := good (c_req c).

(* Hypotheses of the main theorem.  Everything is about the INPUT pod:
   - every amount is non-negative and on its name's grid: milli for cpu,
     ephemeral-storage and scalars (guaranteed by the API server's defaulting),
     WHOLE units for memory and pods (stricter than the API, which admits
     fractional bytes: see fractional_memory_refuted);
   - statuses are filed under their own list's names (container names are
     unique across containers and init containers in a valid pod);
   - a pod-level name other than cpu / memory (hugepages-...) is one NewResource
     keeps (it is not in volcano's IgnoredDevicesList). *)
Definition pod_ok (p : pod) : Prop :=
  Forall good_container (p_containers p) /\
  Forall good_container (p_inits p) /\
  Forall good_status (p_cstat p) /\
  Forall good_status (p_istat p) /\
  good (p_overhead p) /\
  good (default ∅ (p_plreq p)) /\
  good (default ∅ (p_pstat p)) /\
  good (p_palloc p) /\
  Forall good (p_claims p) /\
  Forall (fun c => c_name c ∉ map cs_name (p_istat p)) (p_containers p) /\
  Forall (fun c => c_name c ∉ map cs_name (p_cstat p)) (p_inits p) /\
  map_Forall (fun k _ => negb (fixed k) && plsup k && negb (tracked k) = false) (default ∅ (p_plreq p)).

Definition sim3 (st : res * res * res) (st' : rl * rl * rl) : Prop :=
  sim (st.1.1) (st'.1.1) /\ sim (st.1.2) (st'.1.2) /\ sim (st.2) (st'.2).

Lemma regular_sim ippvs o inf sm sm' cs : forall acc acc',
  o_status o = ippvs ->
  map_Forall (fun _ cs => good_status cs) sm' ->
  Forall good_container cs ->
  Forall (fun c => sm !! c_name c = sm' !! c_name c) cs ->
  sim acc acc' ->
  sim (fold_left (fun acc c => add acc (new_resource (vc_eff_req ippvs inf sm c))) cs acc)
      (fold_left (fun acc c => add_rl acc (k8s_eff_req o inf sm' c)) cs acc').
Proof.
  induction cs as [|c cs IH]; intros acc acc' Ho Hsm Hg Hn Hs; [exact Hs|].
  apply Forall_cons in Hg as [? ?]. apply Forall_cons in Hn as [? ?]. cbn [fold_left]. apply IH; try assumption.
  rewrite (eff_eq _ o inf sm sm' c) by (try reflexivity; assumption).
  apply sim_add; [assumption|]. apply sim_new, eff_good; assumption.
Qed.

Lemma init_step_sim ippvs o inf ism sm st st' c :
  o_status o = ippvs ->
  map_Forall (fun _ cs => good_status cs) sm ->
  good_container c ->
  ism !! c_name c = sm !! c_name c ->
  sim3 st st' ->
  sim3 (vc_init_step tracked ippvs inf ism st c) (k8s_init_step o inf sm st' c).
Proof.
  intros Ho Hsm Hc Hn. destruct st as [[a b] i], st' as [[a' b'] i'].
  intros (Ha & Hb & Hi). simpl in Ha, Hb, Hi.
  unfold vc_init_step, k8s_init_step. destruct (c_sidecar c).
  - rewrite (eff_eq _ o inf ism sm c) by assumption.
    assert (sim (new_resource (k8s_eff_req o inf sm c)) (k8s_eff_req o inf sm c)) as Hn'
      by (apply sim_new, eff_good; assumption).
    split; [|split]; simpl.
    + apply sim_add; assumption.
    + apply sim_add; assumption.
    + apply sim_max; [assumption|]. apply sim_add; assumption.
  - assert (sim (new_resource (c_req c)) (c_req c)) as Hn' by (apply sim_new; exact Hc).
    split; [|split]; simpl; try assumption.
    apply sim_max; [assumption|]. apply sim_add; [|assumption].
    apply sim_add; [apply sim_empty|assumption].
Qed.

Lemma init_loop_sim ippvs o inf ism sm cs : forall st st',
  o_status o = ippvs ->
  map_Forall (fun _ cs => good_status cs) sm ->
  Forall good_container cs ->
  Forall (fun c => ism !! c_name c = sm !! c_name c) cs ->
  sim3 st st' ->
  sim3 (fold_left (vc_init_step tracked ippvs inf ism) cs st)
       (fold_left (k8s_init_step o inf sm) cs st').
Proof.
  induction cs as [|c cs IH]; intros st st' Ho Hsm Hg Hn Hs; [exact Hs|].
  apply Forall_cons in Hg as [? ?]. apply Forall_cons in Hn as [? ?]. cbn [fold_left]. apply IH; try assumption.
  apply init_step_sim; assumption.
Qed.

Lemma claims_sim cls : forall r l,
  Forall good cls -> sim r l ->
  sim (fold_left (fun acc cl => add acc (new_resource cl)) cls r) (fold_left add_rl cls l).
Proof.
  induction cls as [|c cls IH]; intros r l Hg Hs; [exact Hs|].
  apply Forall_cons in Hg as [? ?]. cbn [fold_left]. apply IH; [assumption|].
  apply sim_add; [assumption|apply sim_new; assumption].
Qed.

(* aggregateAllContainerResourceRequests = AggregateContainerRequests, converted, + pods *)
Lemma aggregate_sim ippvs dra o p :
  pod_ok p -> o_status o = ippvs -> o_dra o = dra ->
  exists X, vc_aggregate tracked ippvs dra p = add_scalar X pods_name 1 /\ sim X (k8s_aggregate o p).
Proof.
  intros (Hcs & His & Hcst & Hist & _ & _ & _ & _ & Hcl & Hs1 & Hs2 & _) Ho Hdra.
  unfold vc_aggregate, k8s_aggregate.
  set (inf := resize_infeasible (p_conds p)).
  set (sm := status_map_from (status_map (p_cstat p)) (p_istat p)).
  assert (map_Forall (fun _ cs => good_status cs) sm) as Hsm.
  { apply status_map_from_good; [|assumption]. apply status_map_from_good; [|assumption].
    apply map_Forall_empty. }
  set (reg := fold_left (fun acc c => add_rl acc (k8s_eff_req o inf sm c)) (p_containers p) ∅).
  assert (sim (vc_regular tracked ippvs p) reg) as Hreg.
  { unfold vc_regular. apply regular_sim; try assumption; [|apply sim_empty].
    eapply Forall_impl; [exact Hs1|]. intros c Hc. simpl in Hc.
    unfold sm. rewrite status_map_from_notin by exact Hc. reflexivity. }
  pose proof (init_loop_sim ippvs o inf (status_map (p_istat p)) sm (p_inits p)
                (vc_regular tracked ippvs p, empty_res, empty_res) (reg, ∅, ∅) Ho Hsm His) as Hloop.
  destruct (fold_left (vc_init_step tracked ippvs inf (status_map (p_istat p))) (p_inits p) _) as [[a b] i].
  destruct (fold_left (k8s_init_step o inf sm) (p_inits p) _) as [[a' b'] i'].
  destruct Hloop as (Ha & _ & Hi).
  { eapply Forall_impl; [exact Hs2|]. intros c Hc. simpl in Hc.
    unfold sm. rewrite status_map_from_lookup.
    destruct (status_map (p_istat p) !! c_name c); [reflexivity|].
    unfold status_map. rewrite status_map_from_notin by exact Hc. rewrite lookup_empty. reflexivity. }
  { split; [|split]; simpl; try assumption; apply sim_empty. }
  simpl in Ha, Hi.
  assert (sim (set_max a i) (max_rl a' i')) as Hm by (apply sim_max; assumption).
  rewrite Hdra. destruct dra.
  - eexists. split; [reflexivity|]. apply claims_sim; assumption.
  - eexists. split; [reflexivity|]. exact Hm.
Qed.

(* ---------- pod-level resources and overhead ---------- *)

Lemma opt_union_None_l {A} (x : option A) : union_with (fun a _ : A => Some a) None x = x.
Proof. destruct x; reflexivity. Qed.

Lemma bind_sc_conv_cpu (x : option Z) : x ≫= sc_conv cpu_name = None.
Proof. destruct x; reflexivity. Qed.
Lemma bind_sc_conv_mem (x : option Z) : x ≫= sc_conv mem_name = None.
Proof. destruct x; reflexivity. Qed.

Lemma good_pod_level_reqs ippvs ippl p :
  good (default ∅ (p_plreq p)) -> good (default ∅ (p_pstat p)) -> good (p_palloc p) ->
  good (vc_pod_level_reqs ippvs ippl p).
Proof.
  intros Hl Hs Ha. unfold vc_pod_level_reqs. destruct (ippl && ippvs); [|assumption].
  destruct (p_pstat p) as [act|]; [|assumption]. apply good_determine; assumption.
Qed.

Lemma amend_sim ippvs plr ippl o p X L :
  pod_ok p -> o_skip_pl o = negb plr -> o_ippl o = ippl -> o_status o = ippvs ->
  sim X L -> sim (vc_amend tracked plsup ippvs plr ippl X p) (k8s_finish plsup o p L).
Proof.
  intros (_ & _ & _ & _ & Hoh & Hpl & Hpst & Hpal & _ & _ & _ & Htr) Hskip Hoi Hos [GL (Rc & Rm & Rs)].
  unfold vc_amend, k8s_finish. rewrite Hskip, negb_involutive, Hoi, Hos.
  apply sim_add; [|apply sim_new; exact Hoh].
  destruct (plr && pl_requests_set plsup p) eqn:Eset.
  2: { split; [exact GL|]. repeat split; simpl; assumption. }
  pose proof (good_pod_level_reqs ippvs ippl p Hpl Hpst Hpal) as GE.
  set (E := vc_pod_level_reqs ippvs ippl p) in *.
  set (l := default ∅ (p_plreq p)) in *.
  set (eff := if ippl && ippvs
              then match p_pstat p with
                   | Some act => Some (k8s_determine (resize_infeasible (p_conds p)) l act (p_palloc p))
                   | None => None
                   end
              else None).
  (* upstream's per-name value is the lookup in volcano's effective list *)
  assert (forall k q, l !! k = Some q ->
            match eff with Some e => default 0 (e !! k) | None => q end = default 0 (E !! k)) as Heff.
  { intros k q El. unfold eff, E, vc_pod_level_reqs. fold l. destruct (ippl && ippvs).
    - destruct (p_pstat p); [reflexivity|]. rewrite El. reflexivity.
    - rewrite El. reflexivity. }
  set (ov := map_imap (fun k q => if supported plsup k
                                  then Some (match eff with Some e => default 0 (e !! k) | None => q end)
                                  else None) l).
  assert (forall k, ov !! k = match l !! k with
                              | Some q => if supported plsup k then Some (default 0 (E !! k)) else None
                              | None => None end) as Hov.
  { intros k. unfold ov. rewrite map_lookup_imap. destruct (l !! k) as [q|] eqn:El; [|reflexivity].
    simpl. rewrite (Heff k q El). reflexivity. }
  clearbody ov eff. clear Heff.
  split.
  - (* the amended list is still on the grid *)
    intros k q. rewrite lookup_union, Hov.
    destruct (l !! k) as [x|] eqn:El.
    + destruct (supported plsup k); simpl.
      * destruct (L !! k); simpl; intros [= <-]; apply good_default; exact GE.
      * rewrite opt_union_None_l. apply GL.
    + rewrite opt_union_None_l. apply GL.
  - split; [|split].
    + (* cpu *)
      cbn [cpu]. rewrite !cpu_new, lookup_union, Hov.
      destruct (l !! cpu_name) as [x|] eqn:El.
      * rewrite bool_decide_eq_true_2 by eauto. simpl. destruct (L !! cpu_name); reflexivity.
      * rewrite bool_decide_eq_false_2 by (intros [? ?]; discriminate).
        rewrite opt_union_None_l. rewrite Rc, cpu_new. reflexivity.
    + cbn [mem]. rewrite !mem_new, lookup_union, Hov.
      destruct (l !! mem_name) as [x|] eqn:El.
      * rewrite bool_decide_eq_true_2 by eauto. simpl. destruct (L !! mem_name); reflexivity.
      * rewrite bool_decide_eq_false_2 by (intros [? ?]; discriminate).
        rewrite opt_union_None_l. rewrite Rm, mem_new. reflexivity.
    + (* scalars *)
      rewrite !scm_some, scm_new, Rs, scm_new. apply map_eq. intros k.
      rewrite lookup_union, !map_lookup_imap, lookup_union, Hov.
      destruct (l !! k) as [x|] eqn:El; simpl; [|rewrite !opt_union_None_l; reflexivity].
      unfold supported. destruct (decide (k = cpu_name)) as [->|Hc].
      { simpl. rewrite opt_union_None_l, bind_sc_conv_cpu. destruct (L !! cpu_name); reflexivity. }
      destruct (decide (k = mem_name)) as [->|Hm].
      { simpl. rewrite opt_union_None_l, bind_sc_conv_mem. destruct (L !! mem_name); reflexivity. }
      rewrite !(bool_decide_eq_false_2 (k = cpu_name)), !(bool_decide_eq_false_2 (k = mem_name)) by assumption.
      simpl. destruct (negb (fixed k) && plsup k) eqn:Esup; simpl.
      2: { rewrite !opt_union_None_l. reflexivity. }
      (* a pod-level scalar (hugepages-...): tracked by hypothesis *)
      pose proof (Htr k x El) as Ht. simpl in Ht. rewrite Esup in Ht. simpl in Ht.
      apply negb_false_iff in Ht.
      assert (forall y, sc_conv k y = Some (cv k y)) as Hk.
      { intros y. rewrite sc_conv_eq. unfold keep.
        rewrite !(bool_decide_eq_false_2 (k = cpu_name)), !(bool_decide_eq_false_2 (k = mem_name)) by assumption.
        rewrite Ht, !orb_true_r. reflexivity. }
      unfold sget. rewrite scm_new, map_lookup_imap.
      destruct (E !! k) as [y|], (L !! k); simpl; rewrite ?Hk; simpl; rewrite ?cv_0; reflexivity.
Qed.

(* AddScalar("pods", 1) before the amendment = after it *)
Lemma sc_add_some c m x oh :
  sc (add (mkRes c m (Some x)) oh) = Some (union_with (fun a b => Some (a + b)) x (scm oh)).
Proof.
  unfold add. cbn [sc scm default cpu mem]. case_bool_decide as E; [|reflexivity].
  fold (scm oh) in E. rewrite E. f_equal. apply map_eq. intros k.
  rewrite lookup_union_with, lookup_empty. destruct (x !! k); reflexivity.
Qed.

Lemma sc_add_scalar r k q : sc (add_scalar r k q) = Some (<[k := sget r k + q]> (scm r)).
Proof. reflexivity. Qed.
Lemma scm_add_scalar r k q : scm (add_scalar r k q) = <[k := sget r k + q]> (scm r).
Proof. reflexivity. Qed.

Lemma amend_add_scalar ippvs plr ippl X p :
  vc_amend tracked plsup ippvs plr ippl (add_scalar X pods_name 1) p =
  add_scalar (vc_amend tracked plsup ippvs plr ippl X p) pods_name 1.
Proof.
  unfold vc_amend.
  set (oh := new_resource (p_overhead p)). set (l := default ∅ (p_plreq p)).
  set (pr := new_resource (vc_pod_level_reqs ippvs ippl p)).
  set (ov := map_imap (fun (k : positive) (_ : Z) =>
                  if supported plsup k && negb (bool_decide (k = cpu_name)) && negb (bool_decide (k = mem_name))
                  then Some (sget pr k) else None) l).
  assert (ov !! pods_name = None) as Hovp.
  { unfold ov. rewrite map_lookup_imap. destruct (l !! pods_name); reflexivity. }
  (* the scalar map of X, seen as a map that already has a "pods" entry *)
  assert (forall (o' : smap), o' !! pods_name = None ->
            union_with (fun a b => Some (a + b)) (o' ∪ <[pods_name := sget X pods_name + 1]> (scm X)) (scm oh) =
            <[pods_name := default 0 (union_with (fun a b => Some (a + b)) (o' ∪ scm X) (scm oh) !! pods_name) + 1]>
              (union_with (fun a b => Some (a + b)) (o' ∪ scm X) (scm oh))) as Hcomm.
  { intros o' Ho'. apply map_eq. intros k. destruct (decide (k = pods_name)) as [->|Hk].
    - rewrite lookup_insert, !lookup_union_with, !lookup_union, Ho', !opt_union_None_l, lookup_insert.
      unfold sget. destruct (scm X !! pods_name), (scm oh !! pods_name); simpl; f_equal; lia.
    - rewrite lookup_insert_ne by congruence.
      rewrite !lookup_union_with, !lookup_union, lookup_insert_ne by congruence. reflexivity. }
  destruct (plr && pl_requests_set plsup p).
  - apply res_eq; [reflexivity|reflexivity|].
    rewrite sc_add_scalar, sc_add_some, !scm_some, scm_add_scalar. f_equal.
    unfold sget. rewrite scm_add, scm_some. apply Hcomm. exact Hovp.
  - apply res_eq; [reflexivity|reflexivity|].
    rewrite sc_add_scalar, sc_add_some, scm_add_scalar. f_equal.
    unfold sget. rewrite scm_add, scm_some.
    pose proof (Hcomm ∅ (lookup_empty _)) as H. rewrite !(left_id_L ∅ (∪)) in H. exact H.
Qed.

Lemma add_scalar_req r s k q : req r s -> add_scalar r k q = add_scalar s k q.
Proof.
  intros (Hc & Hm & Hs). unfold add_scalar. rewrite Hc, Hm, Hs, (sget_scm r s k Hs). reflexivity.
Qed.

(* ================= main theorem ================= *)

Theorem volcano_eq_upstream ippvs plr ippl dra p :
  pod_ok p ->
  vc_pod_request tracked plsup ippvs plr ippl dra p =
  add_scalar (new_resource (k8s_pod_requests plsup (opts_of ippvs plr ippl dra) p)) pods_name 1.
Proof.
  intros Hok. unfold vc_pod_request, k8s_pod_requests.
  destruct (aggregate_sim ippvs dra (opts_of ippvs plr ippl dra) p Hok eq_refl eq_refl) as (X & -> & HX).
  rewrite amend_add_scalar. apply add_scalar_req.
  destruct (amend_sim ippvs plr ippl (opts_of ippvs plr ippl dra) p X _ Hok eq_refl eq_refl eq_refl HX) as [_ H].
  exact H.
Qed.

(* per dimension, as the property text says it *)
Corollary volcano_eq_upstream_amounts ippvs plr ippl dra p :
  pod_ok p ->
  let vc := vc_pod_request tracked plsup ippvs plr ippl dra p in
  let up := new_resource (k8s_pod_requests plsup (opts_of ippvs plr ippl dra) p) in
  cpu vc = cpu up /\ mem vc = mem up /\
  sget vc pods_name = sget up pods_name + 1 /\
  (forall k, k <> pods_name -> scm vc !! k = scm up !! k).
Proof.
  intros Hok vc up. unfold vc. rewrite (volcano_eq_upstream _ _ _ _ _ Hok). fold up.
  repeat split.
  - change (sget (add_scalar up pods_name 1) pods_name)
      with (default 0 (scm (add_scalar up pods_name 1) !! pods_name)).
    rewrite scm_add_scalar, lookup_insert. reflexivity.
  - intros k Hk. rewrite scm_add_scalar, lookup_insert_ne by congruence. reflexivity.
Qed.

(* the same node fits under either count: every comparison of the scheduler's
   Resource order gives the same answer on the two vectors *)
Corollary fits_iff ippvs plr ippl dra p :
  pod_ok p ->
  forall eps free d,
  less_equal eps (vc_pod_request tracked plsup ippvs plr ippl dra p) free d =
  less_equal eps (add_scalar (new_resource (k8s_pod_requests plsup (opts_of ippvs plr ippl dra) p)) pods_name 1) free d.
Proof. intros Hok eps free d. rewrite (volcano_eq_upstream _ _ _ _ _ Hok). reflexivity. Qed.

(* the executable law accepts the two models' own outputs *)
Corollary law_accepts_models ippvs plr ippl dra p :
  pod_ok p ->
  let vc := vc_pod_request tracked plsup ippvs plr ippl dra p in
  law_task_request (new_resource (k8s_pod_requests plsup (opts_of ippvs plr ippl dra) p)) vc vc vc = true.
Proof.
  intros Hok vc. unfold vc. rewrite (volcano_eq_upstream _ _ _ _ _ Hok).
  unfold law_task_request, law_same_request, add_scalar. cbn [cpu mem sc].
  rewrite !bool_decide_eq_true_2 by reflexivity. reflexivity.
Qed.

(* ---------- what the scheduler reserves for a task, in every phase ---------- *)

(* api.NewTaskInfo's Resreq / InitResreq / BestEffort are the one value
   GetPodResourceRequest returns.  [m] is unused by the definitions: the
   quantifier over it has no proof content (see Props/C15.v). *)
Theorem task_reservation_eq_upstream ippvs plr ippl dra m p :
  pod_ok p ->
  let up1 := add_scalar (new_resource (k8s_pod_requests plsup (opts_of ippvs plr ippl dra) p)) pods_name 1 in
  task_resreq tracked plsup ippvs plr ippl dra m p = up1 /\
  task_init_resreq tracked plsup ippvs plr ippl dra m p = up1 /\
  task_best_effort tracked plsup ippvs plr ippl dra m p = is_empty 1 up1.
Proof.
  intros Hok up1. unfold task_best_effort, task_resreq, task_init_resreq.
  rewrite (volcano_eq_upstream _ _ _ _ _ Hok). fold up1. repeat split.
Qed.

(* the reservation does not depend on the lifecycle position at all *)
Lemma task_reservation_phase_independent ippvs plr ippl dra m m' p :
  task_resreq tracked plsup ippvs plr ippl dra m p = task_resreq tracked plsup ippvs plr ippl dra m' p /\
  task_init_resreq tracked plsup ippvs plr ippl dra m p = task_init_resreq tracked plsup ippvs plr ippl dra m' p.
Proof. split; reflexivity. Qed.

(* the executable law accepts the models' own outputs, for every phase *)
Corollary law_reservation_accepts_models ippvs plr ippl dra m p :
  pod_ok p ->
  law_task_reservation (new_resource (k8s_pod_requests plsup (opts_of ippvs plr ippl dra) p))
    (vc_pod_request tracked plsup ippvs plr ippl dra p)
    (task_resreq tracked plsup ippvs plr ippl dra m p)
    (task_init_resreq tracked plsup ippvs plr ippl dra m p)
    (task_best_effort tracked plsup ippvs plr ippl dra m p) = true.
Proof.
  intros Hok. unfold law_task_reservation.
  destruct (task_reservation_eq_upstream ippvs plr ippl dra m p Hok) as (-> & -> & ->).
  rewrite (volcano_eq_upstream _ _ _ _ _ Hok).
  rewrite eqb_reflx, andb_true_r.
  unfold law_task_request, law_same_request, add_scalar. cbn [cpu mem sc].
  rewrite !bool_decide_eq_true_2 by reflexivity. reflexivity.
Qed.

(* ---------- what the scheduler CACHE charges: SchedulerCache.NewTaskInfo ---------- *)

(* the vector charged to the node / queue ledgers is upstream's request + pods,
   PLUS the pod's CSI volume count on each attach-limit name; it is one object
   for Resreq and InitResreq; for every list [keys] of resolved names *)
Theorem cache_reservation_eq_upstream ippvs plr ippl dra keys m p :
  pod_ok p ->
  let up1 := add_scalar (new_resource (k8s_pod_requests plsup (opts_of ippvs plr ippl dra) p)) pods_name 1 in
  cache_task_resreq tracked plsup ippvs plr ippl dra keys m p = cache_add_csi up1 keys /\
  cache_task_init_resreq tracked plsup ippvs plr ippl dra keys m p = cache_add_csi up1 keys /\
  cache_task_best_effort tracked plsup ippvs plr ippl dra keys m p = is_empty 1 (cache_add_csi up1 keys).
Proof.
  intros Hok up1.
  unfold cache_task_best_effort, cache_task_init_resreq, cache_task_resreq, task_resreq, task_init_resreq.
  rewrite (volcano_eq_upstream _ _ _ _ _ Hok). fold up1. repeat split.
Qed.

End Names.

(* independent description of what the CSI step does to a vector: cpu and memory
   untouched, every name gains the number of its occurrences in [keys], names
   that do not occur keep their entry (or absence) *)
Lemma csi_fold_lookup keys : forall (c : smap) k,
  default 0 (fold_left (fun c k => <[k := default 0 (c !! k) + 1]> c) keys c !! k) =
  default 0 (c !! k) + Z.of_nat (count_occ Pos.eq_dec keys k).
Proof.
  induction keys as [|a keys IH]; intros c k; simpl; [lia|].
  rewrite IH. destruct (Pos.eq_dec a k) as [->|Hne].
  - rewrite lookup_insert. simpl. lia.
  - rewrite lookup_insert_ne by assumption. lia.
Qed.

Lemma csi_fold_notin keys : forall (c : smap) k,
  k ∉ keys -> fold_left (fun c k => <[k := default 0 (c !! k) + 1]> c) keys c !! k = c !! k.
Proof.
  induction keys as [|a keys IH]; intros c k Hk; simpl; [reflexivity|].
  apply not_elem_of_cons in Hk as [Hne Hk]. rewrite IH by assumption.
  apply lookup_insert_ne. congruence.
Qed.

Theorem cache_add_csi_spec r keys :
  cpu (cache_add_csi r keys) = cpu r /\ mem (cache_add_csi r keys) = mem r /\
  (forall k, sget (cache_add_csi r keys) k = sget r k + Z.of_nat (count_occ Pos.eq_dec keys k)) /\
  (forall k, k ∉ keys -> scm (cache_add_csi r keys) !! k = scm r !! k).
Proof.
  unfold cache_add_csi. split; [rewrite add_cpu; simpl; lia|]. split; [rewrite add_mem; simpl; lia|]. split.
  - intros k. rewrite add_sget. f_equal. unfold sget, csi_counts. rewrite scm_some.
    rewrite csi_fold_lookup, lookup_empty. simpl. lia.
  - intros k Hk. rewrite add_lookup, scm_some. unfold csi_counts.
    rewrite csi_fold_notin, lookup_empty by assumption. destruct (scm r !! k); reflexivity.
Qed.

(* the cache law means exactly the relation of [cache_reservation_eq_upstream] *)
Lemma law_cache_reservation_spec up crq cirq be keys :
  law_cache_reservation up crq cirq be keys = true <->
  crq = cache_add_csi (add_scalar up pods_name 1) keys /\
  cirq = cache_add_csi (add_scalar up pods_name 1) keys /\
  be = is_empty 1 (cache_add_csi (add_scalar up pods_name 1) keys).
Proof.
  unfold law_cache_reservation. cbv zeta.
  rewrite !andb_true_iff, !bool_decide_eq_true, eqb_true_iff. tauto.
Qed.

(* ---------- the node ledger: induction over the pods resident on a node ---------- *)

(* NodeInfo.AddTask adds Resreq to Used for every resident task *)
Definition node_used (reqs : list res) : res := fold_left add reqs empty_res.

Lemma map_ext_Forall' {A B} (f g : A -> B) (P : A -> Prop) l :
  (forall x, P x -> f x = g x) -> Forall P l -> map f l = map g l.
Proof.
  intros H. induction 1 as [|x l Hx _ IH]; [reflexivity|]. simpl. rewrite (H x Hx), IH. reflexivity.
Qed.

(* ---------- kube-scheduler's own units ---------- *)

(* k8s.io/kubernetes/pkg/scheduler/framework Resource.Add: cpu by MilliValue(),
   everything else by Value() *)
Definition kube_cpu (l : rl) : Z := milli_value (default 0 (l !! cpu_name)).
Definition kube_value (l : rl) (k : positive) : Z := unit_value (default 0 (l !! k)).

Definition whole_units (q : Z) : Prop := 0 <= q /\ q mod nano_per_unit = 0.

Lemma milli_of_whole q : whole_units q -> milli_value q = 1000 * unit_value q.
Proof.
  intros [Hq Hm]. unfold milli_value, unit_value.
  assert (q = (q / nano_per_unit) * nano_per_unit) as E.
  { rewrite (Z.div_mod q nano_per_unit) at 1 by (unfold nano_per_unit; lia). rewrite Hm. lia. }
  set (a := q / nano_per_unit) in *. rewrite E.
  rewrite (round_away_mul a nano_per_unit) by (unfold nano_per_unit; lia).
  replace (a * nano_per_unit) with ((1000 * a) * nano_per_milli) by (unfold nano_per_unit, nano_per_milli; lia).
  apply round_away_mul. unfold nano_per_milli. lia.
Qed.

Section Units.
Variable tracked : positive -> bool.

(* NewResource against kube's conversion: same cpu, same memory, same pods, and
   a tracked scalar (or ephemeral-storage) in whole units is 1000 x kube's amount *)
Theorem new_resource_kube_units l :
  cpu (new_resource tracked l) = kube_cpu l /\
  mem (new_resource tracked l) = kube_value l mem_name /\
  sget (new_resource tracked l) pods_name = kube_value l pods_name /\
  (forall k, k <> cpu_name -> k <> mem_name -> k <> pods_name ->
     bool_decide (k = eph_name) || tracked k = true ->
     whole_units (default 0 (l !! k)) ->
     sget (new_resource tracked l) k = 1000 * kube_value l k) /\
  (forall k, k <> cpu_name -> k <> mem_name -> k <> pods_name -> k <> eph_name -> tracked k = false ->
     scm (new_resource tracked l) !! k = None).
Proof.
  split; [reflexivity|]. split; [reflexivity|]. split; [|split].
  - unfold sget, kube_value. rewrite scm_new, map_lookup_imap.
    destruct (l !! pods_name) as [q|]; simpl; [reflexivity|]. vm_compute. reflexivity.
  - intros k Hc Hm Hp Ht Hw. unfold sget, kube_value. rewrite scm_new, map_lookup_imap.
    destruct (l !! k) as [q|] eqn:E; simpl in *.
    + unfold sc_conv.
      rewrite (bool_decide_eq_false_2 (k = cpu_name)), (bool_decide_eq_false_2 (k = mem_name)),
              (bool_decide_eq_false_2 (k = pods_name)) by assumption. simpl.
      case_bool_decide; simpl in *; [apply milli_of_whole; assumption|].
      rewrite Ht. simpl. apply milli_of_whole; assumption.
    + vm_compute. reflexivity.
  - intros k Hc Hm Hp He Ht. rewrite scm_new, map_lookup_imap.
    destruct (l !! k) as [q|]; simpl; [|reflexivity]. unfold sc_conv.
    rewrite (bool_decide_eq_false_2 (k = cpu_name)), (bool_decide_eq_false_2 (k = mem_name)),
            (bool_decide_eq_false_2 (k = pods_name)), (bool_decide_eq_false_2 (k = eph_name)) by assumption.
    simpl. rewrite Ht. reflexivity.
Qed.

End Units.

Section Node.
Variable tracked : positive -> bool.
Variable plsup : positive -> bool.

(* volcano's vector read in kube-scheduler's units (W2/W6 of the audit): same
   cpu, same memory, one more pod; a tracked scalar or ephemeral-storage amount
   in whole units is kube's amount x 1000 (volcano keeps milli-units), and a
   name NewResource does not track is not reserved at all. *)
Theorem volcano_in_kube_units ippvs plr ippl dra p :
  pod_ok tracked plsup p ->
  let vc := vc_pod_request tracked plsup ippvs plr ippl dra p in
  let L := k8s_pod_requests plsup (opts_of ippvs plr ippl dra) p in
  cpu vc = kube_cpu L /\ mem vc = kube_value L mem_name /\
  sget vc pods_name = kube_value L pods_name + 1 /\
  (forall k, k <> cpu_name -> k <> mem_name -> k <> pods_name ->
     bool_decide (k = eph_name) || tracked k = true ->
     whole_units (default 0 (L !! k)) -> sget vc k = 1000 * kube_value L k) /\
  (forall k, k <> cpu_name -> k <> mem_name -> k <> pods_name -> k <> eph_name -> tracked k = false ->
     scm vc !! k = None).
Proof.
  intros Hok vc L.
  destruct (volcano_eq_upstream_amounts tracked plsup ippvs plr ippl dra p Hok) as (Hc & Hm & Hp & Hk).
  fold vc L in Hc, Hm, Hp, Hk.
  destruct (new_resource_kube_units tracked L) as (Kc & Km & Kp & Kt & Ku).
  split; [congruence|]. split; [congruence|]. split; [congruence|]. split.
  - intros k H1 H2 H3 H4 H5. unfold sget. rewrite Hk by assumption. apply Kt; assumption.
  - intros k H1 H2 H3 H4 H5. rewrite Hk by assumption. apply Ku; assumption.
Qed.

(* the node ledger: for EVERY list of resident pods (with their resolved CSI
   volume names and lifecycle positions) the sum volcano's cache charges equals
   the sum of upstream's requests (+ pods + volumes); induction over the list *)
Theorem node_used_eq_upstream ippvs plr ippl dra (rs : list (list positive * pod_meta * pod)) :
  Forall (fun x => pod_ok tracked plsup x.2) rs ->
  node_used (map (fun x => cache_task_resreq tracked plsup ippvs plr ippl dra x.1.1 x.1.2 x.2) rs) =
  node_used (map (fun x => cache_add_csi
                 (add_scalar (new_resource tracked (k8s_pod_requests plsup (opts_of ippvs plr ippl dra) x.2)) pods_name 1)
                 x.1.1) rs).
Proof.
  intros H. f_equal. eapply map_ext_Forall'; [|exact H]. intros x Hx. simpl.
  apply (cache_reservation_eq_upstream tracked plsup ippvs plr ippl dra x.1.1 x.1.2 x.2 Hx).
Qed.

(* consequently the comparison "the new pod's InitResreq fits into allocatable
   minus what the residents are charged" has the same answer on volcano's
   vectors and on upstream's.  This is a corollary by congruence: kubelet
   admission itself is NOT modelled. *)
Corollary node_fits_iff ippvs plr ippl dra rs alloc eps d keys m p :
  Forall (fun x => pod_ok tracked plsup x.2) rs -> pod_ok tracked plsup p ->
  less_equal eps (cache_task_init_resreq tracked plsup ippvs plr ippl dra keys m p)
    (sub alloc (node_used (map (fun x => cache_task_resreq tracked plsup ippvs plr ippl dra x.1.1 x.1.2 x.2) rs))) d =
  less_equal eps
    (cache_add_csi (add_scalar (new_resource tracked (k8s_pod_requests plsup (opts_of ippvs plr ippl dra) p)) pods_name 1) keys)
    (sub alloc (node_used (map (fun x => cache_add_csi
                 (add_scalar (new_resource tracked (k8s_pod_requests plsup (opts_of ippvs plr ippl dra) x.2)) pods_name 1)
                 x.1.1) rs))) d.
Proof.
  intros Hrs Hp. rewrite (node_used_eq_upstream _ _ _ _ _ Hrs).
  destruct (cache_reservation_eq_upstream tracked plsup ippvs plr ippl dra keys m p Hp) as (_ & -> & _).
  reflexivity.
Qed.

(* ---------- which upstream computation applies at which point ---------- *)

(* the pod carries no resize information: what holds for a pod that has not
   been started by a kubelet yet (statuses are written by the kubelet) *)
Definition no_resize_info (p : pod) : Prop :=
  p_cstat p = [] /\ p_istat p = [] /\ p_pstat p = None.

Global Instance no_resize_info_dec p : Decision (no_resize_info p).
Proof. unfold no_resize_info. apply _. Defined.

Lemma k8s_eff_req_empty o inf c : k8s_eff_req o inf ∅ c = c_req c.
Proof. unfold k8s_eff_req. destruct (o_status o); [rewrite lookup_empty|]; reflexivity. Qed.

Lemma k8s_regular_empty o inf cs : forall a,
  fold_left (fun acc c => add_rl acc (k8s_eff_req o inf ∅ c)) cs a =
  fold_left (fun acc c => add_rl acc (c_req c)) cs a.
Proof. induction cs as [|c cs IH]; intros a; [reflexivity|]. simpl. rewrite k8s_eff_req_empty. apply IH. Qed.

Lemma k8s_init_empty o o' inf cs : forall st,
  fold_left (k8s_init_step o inf ∅) cs st = fold_left (k8s_init_step o' inf ∅) cs st.
Proof.
  induction cs as [|c cs IH]; intros st; [reflexivity|]. cbn [fold_left].
  replace (k8s_init_step o inf ∅ st c) with (k8s_init_step o' inf ∅ st c); [apply IH|].
  unfold k8s_init_step. destruct st as [[a b] i]. rewrite !k8s_eff_req_empty. reflexivity.
Qed.

(* without resize information PodRequests does not depend on the status options *)
Lemma k8s_no_resize_info_opts o o' p :
  no_resize_info p -> o_skip_pl o = o_skip_pl o' -> o_dra o = o_dra o' ->
  k8s_pod_requests plsup o p = k8s_pod_requests plsup o' p.
Proof.
  intros (Hc & Hi & Hp) Hs Hd. unfold k8s_pod_requests.
  assert (k8s_aggregate o p = k8s_aggregate o' p) as ->.
  { unfold k8s_aggregate. rewrite Hc, Hi, Hd. cbn [status_map status_map_from fold_left].
    rewrite !k8s_regular_empty, (k8s_init_empty o o'). reflexivity. }
  unfold k8s_finish. rewrite Hs, Hp.
  destruct (o_ippl o && o_status o), (o_ippl o' && o_status o'); reflexivity.
Qed.

(* THE POD BEING PLACED (fit plugin / kubelet admission compute its request with
   the status options off): volcano's InitResreq equals that request for every
   pod that carries no resize information ... *)
Theorem incoming_request_eq_upstream ippvs plr ippl dra keys m p :
  pod_ok tracked plsup p -> no_resize_info p ->
  cache_task_init_resreq tracked plsup ippvs plr ippl dra keys m p =
  cache_add_csi (add_scalar (new_resource tracked (k8s_pod_requests plsup (opts_incoming plr dra) p)) pods_name 1) keys.
Proof.
  intros Hok Hn.
  destruct (cache_reservation_eq_upstream tracked plsup ippvs plr ippl dra keys m p Hok) as (_ & -> & _).
  rewrite (k8s_no_resize_info_opts (opts_of ippvs plr ippl dra) (opts_incoming plr dra) p Hn); reflexivity.
Qed.

(* congruence corollary, with the computation upstream uses at each point: the
   incoming pod by [opts_incoming], the residents by [opts_of] *)
Corollary node_fits_iff_incoming ippvs plr ippl dra rs alloc eps d keys m p :
  Forall (fun x => pod_ok tracked plsup x.2) rs -> pod_ok tracked plsup p -> no_resize_info p ->
  less_equal eps (cache_task_init_resreq tracked plsup ippvs plr ippl dra keys m p)
    (sub alloc (node_used (map (fun x => cache_task_resreq tracked plsup ippvs plr ippl dra x.1.1 x.1.2 x.2) rs))) d =
  less_equal eps
    (cache_add_csi (add_scalar (new_resource tracked (k8s_pod_requests plsup (opts_incoming plr dra) p)) pods_name 1) keys)
    (sub alloc (node_used (map (fun x => cache_add_csi
                 (add_scalar (new_resource tracked (k8s_pod_requests plsup (opts_of ippvs plr ippl dra) x.2)) pods_name 1)
                 x.1.1) rs))) d.
Proof.
  intros Hrs Hp Hn. rewrite (node_used_eq_upstream _ _ _ _ _ Hrs).
  rewrite (incoming_request_eq_upstream ippvs plr ippl dra keys m p Hp Hn). reflexivity.
Qed.

(* the error outcome of the volume lookups: the task that addPod still adds on a
   pending-PVC error carries exactly upstream's request + pods, no volume counts *)
Theorem cache_error_outcome_eq_upstream ippvs plr ippl dra m p :
  pod_ok tracked plsup p ->
  let up1 := add_scalar (new_resource tracked (k8s_pod_requests plsup (opts_of ippvs plr ippl dra) p)) pods_name 1 in
  cache_task_resreq_o tracked plsup ippvs plr ippl dra None m p = up1 /\
  cache_task_best_effort_o tracked plsup ippvs plr ippl dra None m p = is_empty 1 up1.
Proof.
  intros Hok up1. simpl.
  destruct (task_reservation_eq_upstream tracked plsup ippvs plr ippl dra m p Hok) as (H1 & _ & H3).
  split; assumption.
Qed.

End Node.

(* the reservation law is the relation of the theorem on all three vectors *)
Lemma law_task_reservation_spec up vc rq irq be :
  law_task_reservation up vc rq irq be = true <->
  vc = add_scalar up pods_name 1 /\ rq = add_scalar up pods_name 1 /\ irq = add_scalar up pods_name 1 /\
  be = is_empty 1 (add_scalar up pods_name 1).
Proof.
  unfold law_task_reservation, law_task_request.
  rewrite !andb_true_iff, eqb_true_iff.
  assert (forall x, law_same_request up x = true <-> x = add_scalar up pods_name 1) as H.
  { intros x. unfold law_same_request, add_scalar. rewrite !andb_true_iff, !bool_decide_eq_true. split.
    - intros [[Hc Hm] Hs]. apply res_eq; assumption.
    - intros ->. repeat split. }
  rewrite !H. tauto.
Qed.

(* the law is exactly the relation of the theorem *)
Lemma law_same_request_spec up vc :
  law_same_request up vc = true <-> vc = add_scalar up pods_name 1.
Proof.
  unfold law_same_request, add_scalar. rewrite !andb_true_iff, !bool_decide_eq_true. split.
  - intros [[Hc Hm] Hs]. apply res_eq; assumption.
  - intros ->. repeat split.
Qed.

(* ---------- the hypotheses are decidable: concrete pods are checked by computation ---------- *)

Global Instance on_grid_dec k q : Decision (on_grid k q).
Proof. unfold on_grid. apply _. Defined.
Global Instance good_dec l : Decision (good l).
Proof. unfold good. apply _. Defined.
Global Instance good_container_dec c : Decision (good_container c).
Proof. unfold good_container. apply _. Defined.
Global Instance good_status_dec c : Decision (good_status c).
Proof. unfold good_status. apply _. Defined.
Global Instance pod_ok_dec tracked plsup p : Decision (pod_ok tracked plsup p).
Proof. unfold pod_ok. apply _. Defined.

(* ================= refutations ================= *)

Definition all_tracked (k : positive) : bool := true.
Definition huge_only (k : positive) : bool := bool_decide (k = 7%positive).

(* 1. and 2. are the two divergences the check found on the real code; both were
   repaired in /repo by fix: commits.  The code BEFORE the fixes never read the
   gates InPlacePodLevelResourcesVerticalScaling and DRANodeAllocatableResources,
   i.e. it is this model with ippl = false and dra = false on volcano's side:
   the witnesses are kept in that form, next to the value after the fix. *)

(* 1. pod-level in-place resize (gate InPlacePodLevelResourcesVerticalScaling,
      on by default in Kubernetes 1.36): upstream counts
      max(spec, status.resources, status.allocatedResources) of the pod-level
      request, the unfixed code counted the spec only.
      containers [{cpu 100m}], spec.resources.requests.cpu = 1,
      status.resources.requests.cpu = 2  ->  before 1000m, upstream and after 2000m. *)
Definition witness_pod_level_resize : pod :=
  mkPod [mkC 1 false {[cpu_name := 100 * nano_per_milli]}] [] [] [] ∅
        (Some {[cpu_name := 1 * nano_per_unit]}) []
        (Some {[cpu_name := 2 * nano_per_unit]}) ∅ [].

Lemma pod_level_resize_refuted_before_fix :
  exists p, pod_ok all_tracked huge_only p /\
    cpu (vc_pod_request all_tracked huge_only true true false false p) = 1000 /\
    cpu (new_resource all_tracked (k8s_pod_requests huge_only (opts_of true true true false) p)) = 2000 /\
    cpu (vc_pod_request all_tracked huge_only true true true false p) = 2000.
Proof.
  exists witness_pod_level_resize. split; [|repeat split; vm_compute; reflexivity].
  apply (bool_decide_unpack _). vm_compute. exact I.
Qed.

(* 2. DRA node-allocatable claims (alpha gate DRANodeAllocatableResources, off by default) *)
Definition witness_dra_claims : pod :=
  mkPod [mkC 1 false {[cpu_name := 1 * nano_per_unit]}] [] [] [] ∅ None [] None ∅
        [{[cpu_name := 1 * nano_per_unit]}].

Lemma dra_claims_refuted_before_fix :
  exists p, pod_ok all_tracked huge_only p /\
    cpu (vc_pod_request all_tracked huge_only true true true false p) = 1000 /\
    cpu (new_resource all_tracked (k8s_pod_requests huge_only (opts_of true true true true) p)) = 2000 /\
    cpu (vc_pod_request all_tracked huge_only true true true true p) = 2000.
Proof.
  exists witness_dra_claims. split; [|repeat split; vm_compute; reflexivity].
  apply (bool_decide_unpack _). vm_compute. exact I.
Qed.

(* the remaining three show that each hypothesis of [pod_ok] is necessary *)

(* 3. amounts finer than the grid: two containers of 500 micro-cpu each.
      volcano rounds each up to 1m and adds (2m); upstream adds (1m) and the
      conversion rounds once (1m). *)
Definition witness_fine : pod :=
  mkPod [mkC 1 false {[cpu_name := 500000]}; mkC 2 false {[cpu_name := 500000]}] [] [] [] ∅ None [] None ∅ [].

Lemma off_grid_refuted :
  exists p,
    cpu (vc_pod_request all_tracked huge_only true true true false p) = 2 /\
    cpu (new_resource all_tracked (k8s_pod_requests huge_only (opts_of true true true false) p)) = 1.
Proof. exists witness_fine. repeat split; vm_compute; reflexivity. Qed.

(* 4. a status filed under the other list's name (impossible for a valid pod):
      upstream keeps ONE map for both status lists, volcano one per list *)
Definition witness_collision : pod :=
  mkPod [mkC 1 false {[cpu_name := 1 * nano_per_unit]}] []
        [] [mkCS 1 (Some {[cpu_name := 5 * nano_per_unit]}) ∅] ∅ None [] None ∅ [].

Lemma status_name_collision_refuted :
  exists p,
    cpu (vc_pod_request all_tracked huge_only true true true false p) = 1000 /\
    cpu (new_resource all_tracked (k8s_pod_requests huge_only (opts_of true true true false) p)) = 5000.
Proof. exists witness_collision. repeat split; vm_compute; reflexivity. Qed.

(* 5. a pod-level name NewResource ignores (a hugepages size put into
      IgnoredDevicesList): same amounts, but volcano's map gains a 0 entry *)
Definition none_tracked (k : positive) : bool := false.
Definition witness_untracked : pod :=
  mkPod [mkC 1 false {[cpu_name := 1 * nano_per_unit]}] [] [] [] ∅
        (Some {[7%positive := 2 * nano_per_unit]}) [] None ∅ [].

Lemma untracked_pod_level_refuted :
  exists p,
    scm (vc_pod_request none_tracked huge_only true true true false p) !! 7%positive = Some 0 /\
    scm (new_resource none_tracked (k8s_pod_requests huge_only (opts_of true true true false) p)) !! 7%positive = None.
Proof. exists witness_untracked. repeat split; vm_compute; reflexivity. Qed.

(* ================= non-vacuity ================= *)

(* one regular container, init containers  I S I S  (sidecars at positions 2 and 4),
   a resize status on the first sidecar, pod-level memory + hugepages with a
   pending pod-level resize (actuated memory 200 > spec 128), one DRA claim, overhead *)
Definition example_pod : pod :=
  mkPod
    [mkC 1 false {[cpu_name := 2 * nano_per_unit; mem_name := 64 * nano_per_unit; 5%positive := 1 * nano_per_unit]}]
    [mkC 2 false {[cpu_name := 3 * nano_per_unit]};
     mkC 3 true  {[cpu_name := 500 * nano_per_milli; 7%positive := 4 * nano_per_unit]};
     mkC 4 false {[cpu_name := 2 * nano_per_unit; mem_name := 100 * nano_per_unit]};
     mkC 5 true  {[cpu_name := 250 * nano_per_milli]}]
    [mkCS 1 None ∅]
    [mkCS 3 (Some {[cpu_name := 750 * nano_per_milli]}) {[cpu_name := 600 * nano_per_milli]}]
    {[cpu_name := 100 * nano_per_milli; mem_name := 8 * nano_per_unit]}
    (Some {[mem_name := 128 * nano_per_unit; 7%positive := 6 * nano_per_unit]})
    [(false, true); (true, false)]
    (Some {[mem_name := 200 * nano_per_unit]}) {[mem_name := 150 * nano_per_unit]}
    [{[cpu_name := 1 * nano_per_unit]}].

Example example_pod_ok : pod_ok all_tracked huge_only example_pod.
Proof. apply (bool_decide_unpack _). vm_compute. exact I. Qed.

Example example_pod_value :
  let vc := vc_pod_request all_tracked huge_only true true true true example_pod in
  let up := new_resource all_tracked (k8s_pod_requests huge_only (opts_of true true true true) example_pod) in
  (cpu vc, mem vc, sget vc pods_name, sget vc 5, sget vc 7, size (scm vc)) = (4100, 208, 1, 1000, 6000, 3%nat) /\
  (cpu up, mem up, sget up pods_name, sget up 5, sget up 7, size (scm up)) = (4100, 208, 0, 1000, 6000, 2%nat).
Proof. split; vm_compute; reflexivity. Qed.

(* ---------- what the remaining boolean laws mean (soundness and completeness) ---------- *)

Lemma law_kube_units_spec kcpu kmem ksc vc rq :
  law_kube_units kcpu kmem ksc vc rq = true <->
  cpu vc = kcpu /\ mem vc = kmem /\ cpu rq = kcpu /\ mem rq = kmem /\
  Forall (fun kv => sget vc kv.1 = 1000 * kv.2 /\ sget rq kv.1 = 1000 * kv.2) ksc.
Proof.
  unfold law_kube_units. rewrite !andb_true_iff, !bool_decide_eq_true, forallb_forall, Forall_forall.
  assert ((forall x, In x ksc ->
             bool_decide (sget vc x.1 = 1000 * x.2) && bool_decide (sget rq x.1 = 1000 * x.2) = true) <->
          (forall x, x ∈ ksc -> sget vc x.1 = 1000 * x.2 /\ sget rq x.1 = 1000 * x.2)) as E.
  { split; intros Hall x Hx.
    - apply elem_of_list_In, Hall, andb_true_iff in Hx as [Ha Hb].
      apply bool_decide_eq_true in Ha, Hb. split; assumption.
    - apply elem_of_list_In, Hall in Hx as [Ha Hb]. apply andb_true_iff.
      split; apply bool_decide_eq_true; assumption. }
  rewrite E. tauto.
Qed.

Lemma law_not_less_spec up vc :
  law_not_less up vc = true <->
  cpu up <= cpu vc /\ mem up <= mem vc /\
  forall k v, scm up !! k = Some v -> v + (if bool_decide (k = pods_name) then 1 else 0) <= sget vc k.
Proof.
  unfold law_not_less. rewrite !andb_true_iff, !bool_decide_eq_true, map_allb_spec.
  split.
  - intros [[Hc Hm] Hs]. split; [exact Hc|]. split; [exact Hm|]. intros k v E. apply Hs in E.
    apply bool_decide_eq_true in E. exact E.
  - intros (Hc & Hm & Hs). split; [split; assumption|]. intros k v E.
    apply bool_decide_eq_true. apply Hs, E.
Qed.

(* ... and NOT otherwise: a pod_ok pod whose container status reports more than
   its spec (a pod that was started before and is being re-admitted, or a
   Pending pod object that still carries statuses) has InitResreq 2000m while the
   fit plugin / kubelet compute 1000m for the pod being placed: volcano may deny
   a node on which upstream would place it.  For such a pod the status-aware
   value is the one upstream uses once the pod is ON the node (main theorem). *)
Definition witness_incoming : pod :=
  mkPod [mkC 1 false {[cpu_name := 1 * nano_per_unit]}] []
        [mkCS 1 (Some {[cpu_name := 2 * nano_per_unit]}) ∅] [] ∅ None [] None ∅ [].

Lemma incoming_request_refuted :
  exists p, pod_ok all_tracked huge_only p /\
    cpu (cache_task_init_resreq all_tracked huge_only true true true false [] (mkMeta 1 false false) p) = 2000 /\
    cpu (new_resource all_tracked (k8s_pod_requests huge_only (opts_incoming true false) p)) = 1000 /\
    cpu (new_resource all_tracked (k8s_pod_requests huge_only (opts_of true true true false) p)) = 2000.
Proof.
  exists witness_incoming. split; [|repeat split; vm_compute; reflexivity].
  apply (bool_decide_unpack _). vm_compute. exact I.
Qed.

(* fractional bytes of memory are admitted by the API server (with a warning):
   two containers of memory 500m: volcano Value() per container 1 + 1 = 2,
   upstream 1000m -> 1.  Outside pod_ok. *)
Definition witness_fractional_memory : pod :=
  mkPod [mkC 1 false {[mem_name := 500 * nano_per_milli]}; mkC 2 false {[mem_name := 500 * nano_per_milli]}]
        [] [] [] ∅ None [] None ∅ [].

Lemma fractional_memory_refuted :
  exists p, ~ pod_ok all_tracked huge_only p /\
    mem (vc_pod_request all_tracked huge_only true true true false p) = 2 /\
    mem (new_resource all_tracked (k8s_pod_requests huge_only (opts_of true true true false) p)) = 1.
Proof.
  exists witness_fractional_memory. split; [|split; vm_compute; reflexivity].
  intros H. apply (bool_decide_pack _) in H. vm_compute in H. exact H.
Qed.

(* kube units: a pod_ok pod (milli-granular ephemeral-storage 1500m) on which
   volcano's milli amount is NOT 1000 x kube's Value(): kube rounds each pod up
   to whole units (2), volcano keeps 1500; the whole_units premise of
   volcano_in_kube_units is necessary *)
Definition witness_fractional_eph : pod :=
  mkPod [mkC 1 false {[eph_name := 1500 * nano_per_milli]}] [] [] [] ∅ None [] None ∅ [].

Lemma kube_units_fractional_refuted :
  exists p, pod_ok all_tracked huge_only p /\
    sget (vc_pod_request all_tracked huge_only true true true false p) eph_name = 1500 /\
    kube_value (k8s_pod_requests huge_only (opts_of true true true false) p) eph_name = 2.
Proof.
  exists witness_fractional_eph. split; [|split; vm_compute; reflexivity].
  apply (bool_decide_unpack _). vm_compute. exact I.
Qed.

(* ---------- events: the cached task and the node's Used after every AddPod / UpdatePod ---------- *)

Definition same_amounts (a b : res) : Prop :=
  cpu a = cpu b /\ mem a = mem b /\ forall k, sget a k = sget b k.

Definition ev_inv (st : cache_st) : Prop :=
  same_amounts (st_used st) (st_task st) /\ sc (st_used st) <> None.

Lemma sc_add_nonempty r x : scm x <> ∅ -> sc (add r x) <> None.
Proof. intros H. unfold add. cbn [sc]. fold (scm x). rewrite bool_decide_eq_false_2 by exact H. discriminate. Qed.

Lemma ev_add_inv r : scm r <> ∅ -> ev_inv (ev_add r).
Proof.
  intros H. split; [|apply sc_add_nonempty; exact H]. unfold ev_add; cbn [st_used st_task].
  split; [rewrite add_cpu; reflexivity|]. split; [rewrite add_mem; reflexivity|].
  intros k. rewrite add_sget. reflexivity.
Qed.

Lemma ev_update_inv st r : ev_inv st -> scm r <> ∅ -> ev_inv (ev_update st r).
Proof.
  intros [(Hc & Hm & Hs) Hn] H. split; [|apply sc_add_nonempty; exact H].
  unfold ev_update; cbn [st_used st_task].
  split; [rewrite add_cpu, sub_cpu; lia|]. split; [rewrite add_mem, sub_mem; lia|].
  intros k. rewrite add_sget, sub_sget by exact Hn. rewrite Hs. lia.
Qed.

(* induction over the event history: after EVERY event the cached task is the
   request of the pod object of that event and the node's Used carries exactly
   its amounts - whatever the earlier versions were *)
Lemma ev_trace_from_spec reqs : forall st,
  ev_inv st -> Forall (fun r => scm r <> ∅) reqs ->
  Forall2 (fun st' r => st_task st' = r /\ same_amounts (st_used st') r) (ev_trace_from st reqs) reqs.
Proof.
  induction reqs as [|r rs IH]; intros st Hi Hr; [constructor|].
  apply Forall_cons in Hr as [Hr Hrs]. cbn [ev_trace_from].
  pose proof (ev_update_inv st r Hi Hr) as Hi'. constructor; [|apply IH; assumption].
  split; [reflexivity|]. exact (proj1 Hi').
Qed.

Theorem ev_trace_spec reqs :
  Forall (fun r => scm r <> ∅) reqs ->
  Forall2 (fun st r => st_task st = r /\ same_amounts (st_used st) r) (ev_trace reqs) reqs.
Proof.
  destruct reqs as [|r rs]; intros Hr; [constructor|].
  apply Forall_cons in Hr as [Hr Hrs]. cbn [ev_trace].
  pose proof (ev_add_inv r Hr) as Hi. constructor; [|apply ev_trace_from_spec; assumption].
  split; [reflexivity|]. exact (proj1 Hi).
Qed.

Section Events.
Variable tracked : positive -> bool.
Variable plsup : positive -> bool.

Lemma want_nonempty (up : res) keys : scm (cache_add_csi (add_scalar up pods_name 1) keys) <> ∅.
Proof.
  intros E. apply (f_equal (fun x => x !! pods_name)) in E.
  unfold cache_add_csi in E. rewrite add_lookup, scm_add_scalar, lookup_insert, lookup_empty in E.
  destruct (scm _ !! pods_name); discriminate.
Qed.

(* EVENT-LEVEL THEOREM: a pod delivered as AddPod(v0), UpdatePod(v0,v1), ...; every
   version with its own resolved volume names and lifecycle position.  After every
   event the cached task's request is upstream's request of THAT version (+ pods
   + volumes) and the node's Used carries the same amounts. *)
Theorem event_history_eq_upstream ippvs plr ippl dra (vs : list (list positive * pod_meta * pod)) :
  Forall (fun x => pod_ok tracked plsup x.2) vs ->
  Forall2 (fun st x =>
             let want := cache_add_csi
               (add_scalar (new_resource tracked (k8s_pod_requests plsup (opts_of ippvs plr ippl dra) x.2)) pods_name 1) x.1.1 in
             st_task st = want /\ same_amounts (st_used st) want)
          (ev_trace (map (fun x => cache_task_resreq tracked plsup ippvs plr ippl dra x.1.1 x.1.2 x.2) vs)) vs.
Proof.
  intros Hok.
  set (g := fun x : list positive * pod_meta * pod => cache_add_csi
               (add_scalar (new_resource tracked (k8s_pod_requests plsup (opts_of ippvs plr ippl dra) x.2)) pods_name 1) x.1.1).
  rewrite (map_ext_Forall' _ g _ vs
             (fun x Hx => proj1 (cache_reservation_eq_upstream tracked plsup ippvs plr ippl dra x.1.1 x.1.2 x.2 Hx)) Hok).
  assert (Forall (fun r => scm r <> ∅) (map g vs)) as Hne.
  { apply Forall_fmap, Forall_forall. intros x _. apply want_nonempty. }
  pose proof (ev_trace_spec (map g vs) Hne) as H. apply Forall2_fmap_r in H.
  eapply Forall2_impl; [exact H|]. intros st x Hst. exact Hst.
Qed.

End Events.

(* ---------- updatePod with its guard: the state after event i depends on version i alone ---------- *)

Lemma ev_hist_from_no_keep {V} (keeps : V -> V -> bool) (req : V -> res) (vs : list V) : forall prev st,
  (forall a b, b ∈ vs -> keeps a b = false) ->
  ev_hist_from keeps req prev st vs = ev_trace_from st (map req vs).
Proof.
  induction vs as [|v r IH]; intros prev st H; [reflexivity|].
  cbn [ev_hist_from map ev_trace_from]. rewrite (H prev v) by (left).
  f_equal. apply IH. intros a b Hb. apply H. right. exact Hb.
Qed.

Lemma ev_hist_no_keep {V} (keeps : V -> V -> bool) (req : V -> res) (vs : list V) :
  (forall a b, b ∈ vs -> keeps a b = false) -> ev_hist keeps req vs = ev_trace (map req vs).
Proof.
  destruct vs as [|v r]; intros H; [reflexivity|]. cbn [ev_hist map ev_trace]. f_equal.
  apply ev_hist_from_no_keep. intros a b Hb. apply H. right. exact Hb.
Qed.

Section EventsGuard.
Variable tracked : positive -> bool.
Variable plsup : positive -> bool.

(* INDEPENDENT SPECIFICATION of the event handlers: the cache state after event i
   is a function of pod version i ALONE (upstream's request of that version + pods
   + volumes; Used carries the same amounts), for every history all of whose
   versions are bound (so that updatePod's early return is not taken).  The model
   has the code's structure: a keep-branch that leaves the stored task, and a
   RemoveTask of the STORED request followed by a new TaskInfo. *)
Theorem event_history_spec ippvs plr ippl dra (vs : list (list positive * pod_meta * pod)) :
  Forall (fun x => pod_ok tracked plsup x.2) vs ->
  Forall (fun x => m_node x.1.2 = true) vs ->
  Forall2 (fun st x =>
             let want := cache_add_csi
               (add_scalar (new_resource tracked (k8s_pod_requests plsup (opts_of ippvs plr ippl dra) x.2)) pods_name 1) x.1.1 in
             st_task st = want /\ same_amounts (st_used st) want)
          (ev_hist code_keeps (fun x => cache_task_resreq tracked plsup ippvs plr ippl dra x.1.1 x.1.2 x.2) vs) vs.
Proof.
  intros Hok Hb. rewrite ev_hist_no_keep.
  - apply event_history_eq_upstream. exact Hok.
  - intros a b Hin. unfold code_keeps. rewrite Forall_forall in Hb. rewrite (Hb b Hin). reflexivity.
Qed.

End EventsGuard.

(* the variant of seed C15-r8-1 as a model: updatePod keeps the stored task when a
   Running pod's update leaves the SPEC unchanged.  It violates the specification:
   v0 = spec 6 cpu, resize Infeasible, status / allocated 1 cpu (request 1000m);
   v1 = the same spec, condition gone, allocated 6 cpu (request 6000m): the kept
   task still says 1000m. *)
Global Instance container_eq_dec : EqDecision container.
Proof. solve_decision. Defined.

Definition r81_keeps (a b : list positive * pod_meta * pod) : bool :=
  bool_decide (m_phase a.1.2 = 2) && bool_decide (m_phase b.1.2 = 2) &&
  bool_decide (p_containers a.2 = p_containers b.2) && bool_decide (p_inits a.2 = p_inits b.2) &&
  bool_decide (p_overhead a.2 = p_overhead b.2) && bool_decide (p_plreq a.2 = p_plreq b.2).

Definition resize_v0 : pod :=
  mkPod [mkC 1 false {[cpu_name := 6 * nano_per_unit]}] []
        [mkCS 1 (Some {[cpu_name := 1 * nano_per_unit]}) {[cpu_name := 1 * nano_per_unit]}] [] ∅ None
        [(true, true)] None ∅ [].
Definition resize_v1 : pod :=
  mkPod [mkC 1 false {[cpu_name := 6 * nano_per_unit]}] []
        [mkCS 1 (Some {[cpu_name := 1 * nano_per_unit]}) {[cpu_name := 6 * nano_per_unit]}] [] ∅ None
        [] None ∅ [].
Definition resize_history : list (list positive * pod_meta * pod) :=
  [([], mkMeta 2 true false, resize_v0); ([], mkMeta 2 true false, resize_v1)].

Lemma early_return_variant_refuted :
  Forall (fun x => pod_ok all_tracked huge_only x.2) resize_history /\
  Forall (fun x => m_node x.1.2 = true) resize_history /\
  map (fun st => cpu (st_task st))
      (ev_hist r81_keeps (fun x => cache_task_resreq all_tracked huge_only true true true false x.1.1 x.1.2 x.2) resize_history)
    = [1000; 1000] /\
  map (fun st => cpu (st_task st))
      (ev_hist code_keeps (fun x => cache_task_resreq all_tracked huge_only true true true false x.1.1 x.1.2 x.2) resize_history)
    = [1000; 6000] /\
  map (fun x => cpu (new_resource all_tracked (k8s_pod_requests huge_only (opts_of true true true false) x.2))) resize_history
    = [1000; 6000].
Proof.
  split; [|split; [|split; [|split]]].
  - apply Forall_cons; split; [apply (bool_decide_unpack _); vm_compute; exact I|].
    apply Forall_cons; split; [apply (bool_decide_unpack _); vm_compute; exact I|]. apply Forall_nil; exact I.
  - apply Forall_cons; split; [reflexivity|]. apply Forall_cons; split; [reflexivity|]. apply Forall_nil; exact I.
  - vm_compute. reflexivity.
  - vm_compute. reflexivity.
  - vm_compute. reflexivity.
Qed.
