(* Executable form of C15, evaluated on what the IMPLEMENTATIONS returned:
     up  = NewResource(PodRequests(pod, opts))   (upstream's answer, converted by
           volcano's own unit rule on the Go side)
     vc  = GetPodResourceRequest(pod)
     rq, irq = NewTaskInfo(pod).Resreq / .InitResreq   (what the ledgers are charged)
   The law never calls either model: it only compares the two observed vectors. *)
From stdpp Require Import gmap.
From Coq Require Import ZArith.
From V Require Import Base.Res C15.Model.
Open Scope Z_scope.

(* volcano's vector is upstream's plus one "pods": same cpu, same memory, the
   same scalar names with the same amounts, and a non-nil scalar map *)
Definition law_same_request (up vc : res) : bool :=
  bool_decide (cpu vc = cpu up) && bool_decide (mem vc = mem up) &&
  bool_decide (sc vc = Some (<[pods_name := sget up pods_name + 1]> (scm up))).

Definition law_task_request (up vc rq irq : res) : bool :=
  law_same_request up vc && law_same_request up rq && law_same_request up irq.

(* informative only (finer-than-grid amounts): volcano rounds every container
   up before adding, upstream rounds the sum: volcano never reserves less *)
Definition law_not_less (up vc : res) : bool :=
  bool_decide (cpu up <= cpu vc) && bool_decide (mem up <= mem vc) &&
  map_allb (fun k v => bool_decide (v + (if bool_decide (k = pods_name) then 1 else 0) <= sget vc k)) (scm up).

Definition law_not_less_task (up vc rq irq : res) : bool :=
  law_not_less up vc && law_not_less up rq && law_not_less up irq.

(* the same statement in kube-scheduler's own units, without volcano's
   NewResource on the upstream side: kcpu / kmem are MilliCPU / Memory of
   k8s.io/kubernetes/pkg/scheduler/framework PodInfo.CalculateResource, and
   [ksc] lists (name, amount) of its EphemeralStorage / ScalarResources entries
   (kube keeps them as Value(), whole units) for the names volcano tracks and
   whose amounts in the pod are whole units: volcano keeps milli-units there *)
Definition law_kube_units (kcpu kmem : Z) (ksc : list (positive * Z)) (vc rq : res) : bool :=
  bool_decide (cpu vc = kcpu) && bool_decide (mem vc = kmem) &&
  bool_decide (cpu rq = kcpu) && bool_decide (mem rq = kmem) &&
  forallb (fun kv => bool_decide (sget vc (fst kv) = 1000 * snd kv) &&
                     bool_decide (sget rq (fst kv) = 1000 * snd kv)) ksc.

(* the whole reservation of a task, in every phase: Resreq, InitResreq and the
   vector GetPodResourceRequest returns are all upstream's request + pods, and
   BestEffort is "that vector is empty" (threshold minResource, 1 on integers) *)
Definition law_task_reservation (up vc rq irq : res) (best_effort : bool) : bool :=
  law_task_request up vc rq irq &&
  Bool.eqb best_effort (is_empty 1 (add_scalar up pods_name 1)).

(* what the scheduler CACHE charges (SchedulerCache.NewTaskInfo): [keys] are the
   attach-limit names the harness's volume world resolves the pod's CSI volumes
   to (one entry per counted volume; known to the harness independently of the
   code under test).  The charged vector is upstream's request + pods, plus the
   number of volumes on each attach-limit name; Resreq and InitResreq agree;
   BestEffort is the emptiness of that vector. *)
Definition law_cache_reservation (up crq cirq : res) (best_effort : bool) (keys : list positive) : bool :=
  let want := cache_add_csi (add_scalar up pods_name 1) keys in
  bool_decide (crq = want) && bool_decide (cirq = want) && Bool.eqb best_effort (is_empty 1 want).

(* event level: after an AddPod / UpdatePod event the cached task's Resreq and
   InitResreq are upstream's request of the pod object OF THAT EVENT (+ pods), and
   the node's Used carries the same amounts (it may keep zero entries of names an
   earlier version requested) *)
Definition law_event (up crq cirq used : res) : bool :=
  law_same_request up crq && law_same_request up cirq &&
  bool_decide (cpu used = cpu up) && bool_decide (mem used = mem up) &&
  map_allb (fun k v => bool_decide (v = sget up k + (if bool_decide (k = pods_name) then 1 else 0))) (scm used) &&
  map_allb (fun k v => bool_decide (sget used k = v + (if bool_decide (k = pods_name) then 1 else 0))) (scm up) &&
  bool_decide (sget used pods_name = sget up pods_name + 1).
