(* Executable form of C15, evaluated on what the IMPLEMENTATIONS returned:
     up  = NewResource(PodRequests(pod, opts))   (upstream's answer, converted by
           volcano's own unit rule on the Go side)
     vc  = GetPodResourceRequest(pod)
     rq, irq = NewTaskInfo(pod).Resreq / .InitResreq   (what the ledgers are charged)
   The law never calls either model: it only compares the two observed vectors. *)
From stdpp Require Import gmap.
From Coq Require Import ZArith.
From V Require Import Base.Res C15.Model.
Open Scope Z_scope.

(* volcano's vector is upstream's plus one "pods": same cpu, same memory, the
   same scalar names with the same amounts, and a non-nil scalar map *)
Definition law_same_request (up vc : res) : bool :=
  bool_decide (cpu vc = cpu up) && bool_decide (mem vc = mem up) &&
  bool_decide (sc vc = Some (<[pods_name := sget up pods_name + 1]> (scm up))).

Definition law_task_request (up vc rq irq : res) : bool :=
  law_same_request up vc && law_same_request up rq && law_same_request up irq.

(* informative only (finer-than-grid amounts): volcano rounds every container
   up before adding, upstream rounds the sum: volcano never reserves less *)
Definition law_not_less (up vc : res) : bool :=
  bool_decide (cpu up <= cpu vc) && bool_decide (mem up <= mem vc) &&
  map_allb (fun k v => bool_decide (v + (if bool_decide (k = pods_name) then 1 else 0) <= sget vc k)) (scm up).

Definition law_not_less_task (up vc rq irq : res) : bool :=
  law_not_less up vc && law_not_less up rq && law_not_less up irq.

(* the same statement in kube-scheduler's own units, without volcano's
   NewResource on the upstream side: kcpu / kmem are MilliCPU / Memory of
   k8s.io/kubernetes/pkg/scheduler/framework PodInfo.CalculateResource *)
Definition law_kube_units (kcpu kmem : Z) (vc rq : res) : bool :=
  bool_decide (cpu vc = kcpu) && bool_decide (mem vc = kmem) &&
  bool_decide (cpu rq = kcpu) && bool_decide (mem rq = kmem).

(* the whole reservation of a task, in every phase: Resreq, InitResreq and the
   vector GetPodResourceRequest returns are all upstream's request + pods, and
   BestEffort is "that vector is empty" (threshold minResource, 1 on integers) *)
Definition law_task_reservation (up vc rq irq : res) (best_effort : bool) : bool :=
  law_task_request up vc rq irq &&
  Bool.eqb best_effort (is_empty 1 (add_scalar up pods_name 1)).
