(* C06 — what syncJob makes of the pod set is the C05 model (C05/Model.v:
   sync_job / sync_pods).  Here: the PodGroup the controller derives from the
   job spec (job_controller_actions.go createOrUpdatePodGroup 796-867,
   getMinTaskMember 869-877, shouldUpdateExistingPodGroup 879-918,
   calcPGMinResources 932-968; job_controller_util.go TasksPriority 307-404)
   and the markers createJobPod (46-180) puts on a pod.  Definitions only. *)
From Coq Require Import ZArith List Bool.
From V Require Import C05.Model C05.JobCodec.
Import ListNotations.
Open Scope Z_scope.

(* a task with its per-pod request and the value of its priority class *)
Record ptask := mkPT { pt_task : task; pt_cpu : Z; pt_mem : Z; pt_prio : Z }.

Definition ptasks (sp : spec) (xs : list task_extra) : list ptask :=
  map (fun tx => mkPT (fst tx) (x_cpu (snd tx)) (x_mem (snd tx)) (10 * x_prio (snd tx))) (combine (s_tasks sp) xs).

(* resources: (pod count, cpu, memory) *)
Record res3 := mkR { r_pods : Z; r_cpu : Z; r_mem : Z }.
Definition r0 := mkR 0 0 0.
Definition radd (a b : res3) := mkR (r_pods a + r_pods b) (r_cpu a + r_cpu b) (r_mem a + r_mem b).
(* util.CalTaskRequests: the pod's usage added n times (nothing for n <= 0) *)
Definition rtimes (n : Z) (t : ptask) : res3 :=
  if n <=? 0 then r0 else mkR n (n * pt_cpu t) (n * pt_mem t).

(* sort.Sort on fewer than 12 elements is an insertion sort: stable, descending priority *)
Fixpoint ins_prio (x : ptask) (l : list ptask) : list ptask :=
  match l with
  | [] => [x]
  | y :: r => if pt_prio y <? pt_prio x then x :: l else y :: ins_prio x r
  end.
Definition sort_prio (l : list ptask) : list ptask := fold_left (fun acc x => ins_prio x acc) l [].

Definition pt_replicas (t : ptask) := t_replicas (pt_task t).
Definition pt_min (t : ptask) := t_min (pt_task t).

(* CalcFirstCountResources *)
Fixpoint first_count (count : Z) (l : list ptask) : res3 :=
  match l with
  | [] => r0
  | t :: r => if count <=? pt_replicas t then rtimes count t
              else radd (rtimes (pt_replicas t) t) (first_count (count - pt_replicas t) r)
  end.

(* CalcPGMinResources, loop 1: each task's own minimum, capped by what is left *)
Fixpoint own_mins (jobmin cnt : Z) (l : list ptask) : res3 * Z :=
  match l with
  | [] => (r0, cnt)
  | t :: r =>
      match pt_min t with
      | None => own_mins jobmin cnt r
      | Some m =>
          let valid := if jobmin - cnt <? m then jobmin - cnt else m in
          let cnt' := cnt + valid in
          if jobmin <=? cnt' then (rtimes valid t, cnt')
          else let '(x, c) := own_mins jobmin cnt' r in (radd (rtimes valid t) x, c)
      end
  end.

(* loop 2: fill up with the replicas beyond the task minimum, in priority order *)
Fixpoint fill_up (leftcnt : Z) (l : list ptask) : res3 :=
  match l with
  | [] => r0
  | t :: r =>
      match (match pt_min t with
             | Some m => if m =? pt_replicas t then None else Some (pt_replicas t - m)
             | None => Some (pt_replicas t)
             end) with
      | None => fill_up leftcnt r
      | Some lf =>
          if lf <=? leftcnt then
            let leftcnt' := leftcnt - lf in
            if leftcnt' <=? 0 then rtimes lf t else radd (rtimes lf t) (fill_up leftcnt' r)
          else rtimes leftcnt t
      end
  end.

Definition total_min (l : list ptask) : Z :=
  fold_right (fun t acc => (match pt_min t with Some m => m | None => pt_replicas t end) + acc) 0 l.

Definition calc_min_resources_sorted (jobmin : Z) (sorted : list ptask) (tm : Z) : res3 :=
  if jobmin <? tm then first_count jobmin sorted
  else let '(x, cnt) := own_mins jobmin 0 sorted in
       if jobmin <=? cnt then x else radd x (fill_up (jobmin - cnt) sorted).

Definition calc_min_resources (sp : spec) (xs : list task_extra) : res3 :=
  let l := ptasks sp xs in calc_min_resources_sorted (s_min sp) (sort_prio l) (total_min l).

(* getMinTaskMember (no partition policies) *)
Definition min_task_member (t : task) : Z := match t_min t with Some m => m | None => t_replicas t end.

Record podgroup := mkPG {
  g_minmember : Z;
  g_taskmin : list (positive * Z);    (* MinTaskMember, in insertion order of the model *)
  g_prio : Z;                         (* PriorityClassName (code; 0 = none) *)
  g_res : res3 }.

Definition pg_create (sp : spec) (xs : list task_extra) (jobprio : Z) : podgroup :=
  mkPG (s_min sp) (map (fun t => (t_name t, min_task_member t)) (s_tasks sp)) jobprio (calc_min_resources sp xs).

Fixpoint tm_set (k : positive) (v : Z) (m : list (positive * Z)) : list (positive * Z) :=
  match m with
  | [] => [(k, v)]
  | (k', v') :: r => if Pos.eqb k k' then (k', v) :: r else (k', v') :: tm_set k v r
  end.

(* shouldUpdateExistingPodGroup: fields overwritten from the spec; entries of
   tasks that no longer exist stay *)
Definition pg_update (g : podgroup) (sp : spec) (xs : list task_extra) (jobprio : Z) : podgroup :=
  mkPG (s_min sp)
       (fold_left (fun m t => tm_set (t_name t) (min_task_member t) m) (s_tasks sp) (g_taskmin g))
       jobprio (calc_min_resources sp xs).

Fixpoint tm_get (k : positive) (m : list (positive * Z)) : option Z :=
  match m with [] => None | (k', v) :: r => if Pos.eqb k k' then Some v else tm_get k r end.

(* ---------- createOrUpdatePodGroup against lister / API server, with a refused write ---------- *)
Definition res3_eq_dec : forall a b : res3, {a = b} + {a <> b}.
Proof. decide equality; apply Z.eq_dec. Defined.
Definition pg_eq_dec : forall a b : podgroup, {a = b} + {a <> b}.
Proof.
  decide equality; try apply Z.eq_dec; try apply res3_eq_dec.
  apply list_eq_dec. decide equality; [apply Z.eq_dec|apply Pos.eq_dec].
Defined.

(* lister: the PodGroup the lister shows; api: the one on the API server; fail: the
   create / update call of this invocation, if one is made, is refused.
   Result: API server afterwards, error returned *)
Definition create_or_update_pg (lister api : option podgroup) (sp : spec) (xs : list task_extra) (jp : Z) (fail : bool)
  : option podgroup * bool :=
  match lister with
  | None =>
      if fail then (api, true)
      else (match api with None => Some (pg_create sp xs jp) | Some g => Some g (* AlreadyExists is tolerated *) end, false)
  | Some g =>
      let g' := pg_update g sp xs jp in
      if pg_eq_dec g' g then (api, false)                       (* shouldUpdateExistingPodGroup = false *)
      else if fail then (api, true)
      else match api with
           | None => (None, true)                               (* NotFound *)
           | Some _ => (Some g', false)
           end
  end.

(* ---------- createJobPod (job_controller_util.go 46-180): what a pod derives from (job, task, index) ---------- *)
Record pod_fields := mkPF {
  pf_task : positive;        (* volcano.sh/task-spec annotation *)
  pf_idx : Z;                (* volcano.sh/task-index annotation *)
  pf_lbl_task : positive;    (* volcano.sh/task-spec label *)
  pf_lbl_idx : Z;            (* volcano.sh/task-index label *)
  pf_version : Z;            (* volcano.sh/job-version annotation *)
  pf_retry : Z;              (* volcano.sh/job-retry-count annotation *)
  pf_user_lbl : Z;           (* the template's own label (0: none) *)
  pf_user_ann : Z }.         (* the template's own annotation (0: none) *)

Definition create_job_pod (ver retry : Z) (t : task) (x : task_extra) (i : Z) : pod_fields :=
  mkPF (t_name t) i (t_name t) i ver retry (Z.max 0 (x_cpu x)) (Z.max 0 (x_mem x)).

(* syncJob builds every missing replica of a task from ONE copy of the task template before it creates any *)
Definition create_task_pods (ver retry : Z) (t : task) (x : task_extra) (idxs : list Z) : list pod_fields :=
  map (create_job_pod ver retry t x) idxs.

(* ---------- createJobPod at the level of the pod object: label / annotation MAPS ----------
   (job_controller_util.go 46-180.  Go maps are references: a template's maps handed to a pod
   without a copy are shared by every pod built from that template.) *)
Inductive val := VNum (z : Z) | VTask (t : positive) | VGroup (name uid : Z) | VTmpl (name : Z) (t : positive).
Definition kmap := list (Z * val).
Fixpoint kget (k : Z) (m : kmap) : option val :=
  match m with [] => None | (k', v) :: r => if Z.eqb k k' then Some v else kget k r end.
Fixpoint kset (k : Z) (v : val) (m : kmap) : kmap :=
  match m with
  | [] => [(k, v)]
  | (k', v') :: r => if Z.eqb k k' then (k', v) :: r else (k', v') :: kset k v r
  end.
Definition ksets (kvs : list (Z * val)) (m : kmap) : kmap := fold_left (fun m kv => kset (fst kv) (snd kv) m) kvs m.

(* the keys createJobPod writes *)
Definition K_TASK_INDEX := 1. Definition K_TASK_SPEC := 2. Definition K_GROUP := 3. Definition K_JOB_NAME := 4.
Definition K_QUEUE := 5. Definition K_JOB_VERSION := 6. Definition K_TEMPLATE := 7. Definition K_RETRY := 8.
Definition K_NAMESPACE := 9.

Record jobid := mkJob { j_name : Z; j_uid : Z; j_ns : Z; j_queue : Z; j_version : Z; j_retry : Z }.

Definition ann_writes (j : jobid) (t : positive) (i : Z) : list (Z * val) :=
  [(K_TASK_INDEX, VNum i); (K_TASK_SPEC, VTask t); (K_GROUP, VGroup (j_name j) (j_uid j)); (K_JOB_NAME, VNum (j_name j));
   (K_QUEUE, VNum (j_queue j)); (K_JOB_VERSION, VNum (j_version j)); (K_TEMPLATE, VTmpl (j_name j) t);
   (K_RETRY, VNum (j_retry j))].
Definition lbl_writes (j : jobid) (t : positive) (i : Z) : list (Z * val) :=
  [(K_TASK_INDEX, VNum i); (K_JOB_NAME, VNum (j_name j)); (K_TASK_SPEC, VTask t); (K_NAMESPACE, VNum (j_ns j));
   (K_QUEUE, VNum (j_queue j))].

Record pod_obj := mkPO {
  po_name : Z * positive * Z;          (* "<job>-<task>-<index>" *)
  po_ns : Z;
  po_owner : option (Z * Z);           (* controller owner reference: (job name, job uid) *)
  po_ann : kmap;
  po_lbl : kmap }.

(* the pod createJobPod returns when it is given the maps [ann] / [lbl] to write into *)
Definition make_pod (j : jobid) (t : positive) (i : Z) (ann lbl : kmap) : pod_obj :=
  mkPO (j_name j, t, i) (j_ns j) (Some (j_name j, j_uid j)) (ksets (ann_writes j t i) ann) (ksets (lbl_writes j t i) lbl).

(* the real code copies the template for every pod (template.DeepCopy()) ... *)
Definition build_pods (j : jobid) (t : positive) (ta tl : kmap) (idxs : list Z) : list pod_obj :=
  map (fun i => make_pod j t i ta tl) idxs.
(* ... a version that hands the template's own maps to every pod: all pods of the pass end up
   reading the maps as the LAST createJobPod call left them *)
Definition build_pods_shared (j : jobid) (t : positive) (ta tl : kmap) (idxs : list Z) : list pod_obj :=
  let fa := fold_left (fun m i => ksets (ann_writes j t i) m) idxs ta in
  let fl := fold_left (fun m i => ksets (lbl_writes j t i) m) idxs tl in
  map (fun i => mkPO (j_name j, t, i) (j_ns j) (Some (j_name j, j_uid j)) fa fl) idxs.

(* pkg/scheduler/api getJobID: namespace "/" group-name annotation *)
Definition sched_job_id (p : pod_obj) : option (Z * Z * Z) :=
  match kget K_GROUP (po_ann p) with Some (VGroup n u) => Some (po_ns p, n, u) | _ => None end.

(* the numeric record compared with the Go pods (selector 6) is READ from the pod object: the template's
   own label / annotation live under K_USER (absent when the generator gives none) *)
Definition K_USER := 100.
Definition tmpl (v : Z) : kmap := if 0 <? v then [(K_USER, VNum v)] else [].
Definition gnum (k : Z) (m : kmap) : Z := match kget k m with Some (VNum z) => z | _ => -1 end.
Definition gtask (k : Z) (m : kmap) : positive := match kget k m with Some (VTask t) => t | _ => xH end.
Definition guser (m : kmap) : Z := match kget K_USER m with Some (VNum z) => z | _ => 0 end.
Definition read_fields (p : pod_obj) : pod_fields :=
  mkPF (gtask K_TASK_SPEC (po_ann p)) (gnum K_TASK_INDEX (po_ann p)) (gtask K_TASK_SPEC (po_lbl p)) (gnum K_TASK_INDEX (po_lbl p))
       (gnum K_JOB_VERSION (po_ann p)) (gnum K_RETRY (po_ann p)) (guser (po_lbl p)) (guser (po_ann p)).
(* all missing replicas of task t (template: user label from x_cpu, user annotation from x_mem), one pass *)
Definition task_pod_objs (ver retry : Z) (t : task) (x : task_extra) (idxs : list Z) : list pod_obj :=
  build_pods (mkJob 1 1 1 1 ver retry) (t_name t) (tmpl (x_mem x)) (tmpl (x_cpu x)) idxs.
