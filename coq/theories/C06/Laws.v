(* Executable forms of the C06 laws, evaluated on what the IMPLEMENTATION did. *)
From Coq Require Import ZArith List Bool.
From V Require Import Base.Codec C05.Model C05.JobCodec C05.Laws C06.Model.
Import ListNotations.
Open Scope Z_scope.

Definition desired (sp : spec) (t : positive) (i : Z) : bool :=
  match find_task sp t with Some ts => Z.leb 0 i && Z.ltb i (t_replicas ts) | None => false end.
Definition in_spec (sp : spec) (t : positive) : bool :=
  match find_task sp t with Some _ => true | None => false end.

Definition pod_eqb (p q : pod) : bool :=
  Pos.eqb (p_task p) (p_task q) && Z.eqb (p_idx p) (p_idx q) && pphase_beq (p_phase p) (p_phase q) &&
  Bool.eqb (p_del p) (p_del q) && Bool.eqb (p_oos p) (p_oos q).
Fixpoint pods_eqb (a b : list pod) : bool :=
  match a, b with
  | [], [] => true
  | p :: a', q :: b' => pod_eqb p q && pods_eqb a' b'
  | _, _ => false
  end.

(* one successful pass through syncJob, seen from outside.  sp: the spec the
   controller saw; b/a: API-server pods before/after; the pod view was fresh *)
Definition law_sync_pods (sp : spec) (pgv : bool) (before after : list pod) : bool :=
  if negb pgv then pods_eqb before after            (* PodGroup not admitted: nothing created, nothing deleted *)
  else
    (* nothing disappears, phases / markers untouched *)
    forallb (fun p => match find_pod (p_task p) (p_idx p) after with
                      | Some q => pphase_beq (p_phase p) (p_phase q) && Bool.eqb (p_oos p) (p_oos q) && implb (p_del p) (p_del q)
                      | None => false end) before &&
    (* created = desired minus existing (for the tasks whose dependencies are met); created pods are live, Pending *)
    forallb (fun q => if has_pod (p_task q) (p_idx q) before then true
                      else desired sp (p_task q) (p_idx q) && negb (p_del q) && negb (p_oos q) &&
                           pphase_beq (p_phase q) PPending) after &&
    forallb (fun t => if deps_met sp before t
                      then forallb (fun i => has_pod (t_name t) i after) (indices (t_replicas t))
                      else forallb (fun i => Bool.eqb (has_pod (t_name t) i after) (has_pod (t_name t) i before))
                                   (indices (t_replicas t)))
            (s_tasks sp) &&
    (* deleted: only own surplus or out-of-sync pods; all of them *)
    forallb (fun p => match find_pod (p_task p) (p_idx p) after with
                      | Some q =>
                          let must := in_spec sp (p_task p) &&
                                      (negb (desired sp (p_task p) (p_idx p)) || (negb (p_del p) && p_oos p)) in
                          Bool.eqb (p_del q) (p_del p || must)
                      | None => false end) before.

Definition is_sync_path (sp : spec) (b : obs) (r : req) : bool :=
  negb (snd (apply_policies_d sp (o_vst b) r)) &&
  match fst (exec (st_phase (o_vst b)) (apply_policies sp (o_vst b) r)) with KSync => true | _ => false end.

Definition law_sync_step (sp : spec) (r : req) (fresh pgv : bool) (b a : obs) : bool :=
  if fresh && negb (o_err a) && is_sync_path sp b r then law_sync_pods sp pgv (o_pods b) (o_pods a) else true.

(* the same with the guard REQUIRED: used at the last sync of the directed families (resync, versionbump), where
   the history is built so that the views are fresh, the sync succeeds and the job is on the sync path: a
   guard that is false there is reported instead of making the law vacuous *)
Definition law_sync_step_strict (sp : spec) (r : req) (fresh pgv : bool) (b a : obs) : bool :=
  fresh && negb (o_err a) && is_sync_path sp b r && law_sync_pods sp pgv (o_pods b) (o_pods a).

(* a second sync on the resulting (re-synced) state changes no pod and no counter *)
Definition law_idem (a1 a2 : obs) : bool :=
  pods_eqb (o_pods a1) (o_pods a2) && negb (o_err a2).
Definition law_idem_counters (a1 a2 : obs) : bool :=
  counts_eqb (st_cnt (o_st a1)) (st_cnt (o_st a2)) && Z.eqb (st_term (o_st a1)) (st_term (o_st a2)).

(* crash / partial failure then restart converges to the pod set of the undisturbed run *)
Definition law_crash (crashed clean : list pod) : bool := pods_eqb crashed clean.

(* createJobPod markers: expected vs what the created pod carries *)
Record markers := mkM {
  m_task : Z; m_idx : Z; m_version : Z; m_retry : Z;          (* parsed from the annotations *)
  m_lbl_task : Z; m_lbl_idx : Z;                              (* parsed from the labels *)
  m_owner : bool; m_group : bool; m_jobname : bool; m_queue : bool; m_jobid : bool;
  m_user_lbl : Z; m_user_ann : Z;                             (* the template's own label / annotation (0: absent) *)
  m_shape : bool }.                                           (* pod name, pod-template annotation, containers, scheduler name *)
(* every created pod carries the fields of ITS OWN (task, index) and its template's own labels *)
Definition law_markers (t : positive) (i ver retry cpu mem : Z) (m : markers) : bool :=
  Z.eqb (m_task m) (Zpos t) && Z.eqb (m_idx m) i && Z.eqb (m_version m) ver && Z.eqb (m_retry m) retry &&
  Z.eqb (m_lbl_task m) (Zpos t) && Z.eqb (m_lbl_idx m) i &&
  m_owner m && m_group m && m_jobname m && m_queue m && m_jobid m &&
  Z.eqb (m_user_lbl m) (Z.max 0 cpu) && Z.eqb (m_user_ann m) (Z.max 0 mem) && m_shape m.

(* the PodGroup mirrors the spec *)
Definition res_eqb (a b : res3) : bool :=
  Z.eqb (r_pods a) (r_pods b) && Z.eqb (r_cpu a) (r_cpu b) && Z.eqb (r_mem a) (r_mem b).

Fixpoint inserts {A} (x : A) (l : list A) : list (list A) :=
  match l with
  | [] => [[x]]
  | y :: r => (x :: l) :: map (cons y) (inserts x r)
  end.
Fixpoint perms {A} (l : list A) : list (list A) :=
  match l with [] => [[]] | x :: r => flat_map (inserts x) (perms r) end.
Fixpoint desc_prio (l : list ptask) : bool :=
  match l with
  | x :: ((y :: _) as r) => Z.leb (pt_prio y) (pt_prio x) && desc_prio r
  | _ => true
  end.

Definition well_formed (sp : spec) : bool :=
  forallb (fun t => Z.leb 0 (t_replicas t) &&
                    match t_min t with Some m => Z.leb 0 m && Z.leb m (t_replicas t) | None => true end) (s_tasks sp) &&
  Z.leb 0 (s_min sp) && Z.leb (s_min sp) (total_replicas sp).

(* any order of equal priorities is admissible; exactly minAvailable replicas are summed *)
Definition law_minres (sp : spec) (xs : list task_extra) (got : res3) : bool :=
  let l := ptasks sp xs in
  existsb (fun o => res_eqb got (calc_min_resources_sorted (s_min sp) o (total_min l)))
          (filter desc_prio (perms l)) &&
  implb (well_formed sp) (Z.eqb (r_pods got) (s_min sp)).

(* exact visiting order: Go's sort.Sort is an insertion sort below 12 elements, hence STABLE there: tasks of
   equal priority are visited in the order of spec.tasks (whatever their names); with 12 tasks or more
   only the any-order law applies *)
Definition law_minres_stable (sp : spec) (xs : list task_extra) (got : res3) : bool :=
  law_minres sp xs got &&
  (if Nat.ltb (length (s_tasks sp)) 12 then res_eqb got (calc_min_resources sp xs) else true).

Definition law_pg (sp : spec) (xs : list task_extra) (jobprio : Z) (queue_ok : bool) (g : podgroup) : bool :=
  Z.eqb (g_minmember g) (s_min sp) &&
  forallb (fun t => match tm_get (t_name t) (g_taskmin g) with
                    | Some v => Z.eqb v (min_task_member t) | None => false end) (s_tasks sp) &&
  Z.eqb (g_prio g) jobprio && queue_ok && law_minres_stable sp xs (g_res g).

(* ---------- PodGroup after a reconcile, on observations ---------- *)
Definition pg_fields_eqb (a b : option podgroup) : bool :=
  match a, b with
  | None, None => true
  | Some x, Some y => if pg_eq_dec (mkPG (g_minmember x) (sort_kv (g_taskmin x)) (g_prio x) (g_res x))
                                   (mkPG (g_minmember y) (sort_kv (g_taskmin y)) (g_prio y) (g_res y)) then true else false
  | _, _ => false
  end.

(* a sync that reports success (job, pods and PodGroup views fresh) left a PodGroup that mirrors the spec *)
Definition law_pg_step (sp : spec) (xs : list task_extra) (r : req) (fresh jobfresh pgfresh metaok : bool)
                       (b a : obs) (g : option podgroup) : bool :=
  if fresh && jobfresh && pgfresh && negb (o_err a) && is_sync_path sp b r
  then match g with Some g => law_pg sp xs 0 metaok g | None => false end
  else true.

(* a refused PodGroup write: the reconcile reports the error, touches no pod, leaves the PodGroup as it was *)
Definition law_pg_fault (failed : bool) (b a : obs) (gb ga : option podgroup) : bool :=
  implb failed (o_err a && pods_eqb (o_pods b) (o_pods a) && pg_fields_eqb gb ga).

(* createOrUpdatePodGroup called directly: fresh lister and no error => mirrors; error => API server unchanged *)
Definition law_pg_call (sp : spec) (xs : list task_extra) (jp : Z) (lister_fresh err : bool) (gb ga : option podgroup) : bool :=
  (if lister_fresh && negb err then match ga with Some g => law_pg sp xs jp true g | None => false end else true) &&
  implb err (pg_fields_eqb gb ga).

(* ---------- the pods of one task built in one pass ---------- *)
Definition pf_eqb (a b : pod_fields) : bool :=
  Pos.eqb (pf_task a) (pf_task b) && Z.eqb (pf_idx a) (pf_idx b) && Pos.eqb (pf_lbl_task a) (pf_lbl_task b) &&
  Z.eqb (pf_lbl_idx a) (pf_lbl_idx b) && Z.eqb (pf_version a) (pf_version b) && Z.eqb (pf_retry a) (pf_retry b) &&
  Z.eqb (pf_user_lbl a) (pf_user_lbl b) && Z.eqb (pf_user_ann a) (pf_user_ann b).

(* every created pod carries the fields of ITS OWN (task, index): the k-th pod built is the one for the k-th index *)
Fixpoint law_created_pods (ver retry : Z) (t : task) (x : task_extra) (idxs : list Z) (got : list pod_fields) : bool :=
  match idxs, got with
  | [], [] => true
  | i :: idxs', p :: got' =>
      Pos.eqb (pf_task p) (t_name t) && Z.eqb (pf_idx p) i && Pos.eqb (pf_lbl_task p) (t_name t) && Z.eqb (pf_lbl_idx p) i &&
      Z.eqb (pf_version p) ver && Z.eqb (pf_retry p) retry &&
      Z.eqb (pf_user_lbl p) (Z.max 0 (x_cpu x)) && Z.eqb (pf_user_ann p) (Z.max 0 (x_mem x)) &&
      law_created_pods ver retry t x idxs' got'
  | _, _ => false
  end.
