(* Entry point of the C06 correspondence.
   1   : a history on the job-controller model (same as C05 selector 1)
   3   : calcPGMinResources (spec with requests / priorities) -> pods cpu mem
   4   : createOrUpdatePodGroup: create for spec0, then a second call for spec1 with a fresh / empty /
         orphaned lister copy and an optionally refused write -> error flag, PodGroup
   6   : createJobPod for all missing replicas of a task, built in one pass as syncJob does -> per-pod fields
   211 : every created pod carries the fields of its own (task, index)
   5   : histories with refused PodGroup writes: laws only (the world model does not carry the PodGroup spec)
   208 : successful sync leaves a mirroring PodGroup   209 : refused PodGroup write = error, no pod touched
   210 : createOrUpdatePodGroup call law
   201 : exact-pod-set law on one observed sync step      202/207 : idempotence (pods / counters)
   203 : crash/restart convergence                         204 : pod markers
   205 : PodGroup mirrors spec                             206 : minResources admissible
   212 : minResources with ties visited in spec order (fewer than 12 tasks)
   221 : law 201 with its guard required (last sync of the directed families) *)
From Coq Require Import ZArith List Bool.
From V Require Import Base.Codec C05.Model C05.JobCodec C05.Laws C06.Model C06.Laws.
Import ListNotations.
Open Scope Z_scope.

Definition eRes3 (r : res3) : list Z := [r_pods r; r_cpu r; r_mem r].
Definition dRes3 : dec res3 := let* a := dZ in let* b := dZ in let* c := dZ in ret (mkR a b c).

Definition ePG (g : podgroup) : list Z :=
  [g_minmember g] ++ eList (fun kv => [Zpos (fst kv); snd kv]) (sort_kv (g_taskmin g)) ++ [g_prio g] ++ eRes3 (g_res g).
Definition dPG : dec podgroup :=
  let* mm := dZ in let* tm := dList (dPair dPos dZ) in let* pr := dZ in let* r := dRes3 in ret (mkPG mm tm pr r).

Definition dStepCase : dec (spec * req * bool * bool * obs * obs) :=
  let* sp := dSpec in let* rf := dReq in let* fresh := dBool in let* pgv := dBool in
  let* b := dObs in let* a := dObs in ret (sp, fst rf, fresh, pgv, b, a).

Definition ePodFields (p : pod_fields) : list Z :=
  [Zpos (pf_task p); pf_idx p; Zpos (pf_lbl_task p); pf_lbl_idx p; pf_version p; pf_retry p; pf_user_lbl p; pf_user_ann p].
Definition dPodFields : dec pod_fields :=
  let* a := dPos in let* b := dZ in let* c := dPos in let* d := dZ in let* e := dZ in let* f := dZ in let* g := dZ in let* h := dZ in
  ret (mkPF a b c d e f g h).

Definition dMarkers : dec markers :=
  let* a := dZ in let* b := dZ in let* c := dZ in let* d := dZ in let* e := dZ in let* f := dZ in
  let* g := dBool in let* h := dBool in let* i := dBool in let* j := dBool in let* k := dBool in
  let* ul := dZ in let* ua := dZ in let* sh := dBool in
  ret (mkM a b c d e f g h i j k ul ua sh).

Definition entry (sel : Z) (toks : list Z) : list Z :=
  match sel with
  | 1 => match run_dec dHistory toks with Some h => run_history h | None => bad_input end
  | 3 => match run_dec dSpecX toks with
         | Some (sp, xs) => eRes3 (calc_min_resources sp xs) | None => bad_input end
  | 4 => match run_dec (let* p0 := dZ in let* s0 := dSpecX in let* mode := dZ in let* p1 := dZ in let* s1 := dSpecX in
                        let* fail := dBool in ret (p0, s0, mode, p1, s1, fail)) toks with
         | Some (p0, (sp0, xs0), mode, p1, (sp1, xs1), fail) =>
             let g0 := pg_create sp0 xs0 p0 in
             let '(api, err) :=
               match mode with
               | 0 => (Some g0, false)
               | 1 => create_or_update_pg (Some g0) (Some g0) sp1 xs1 p1 fail
               | 2 => create_or_update_pg None (Some g0) sp1 xs1 p1 fail
               | _ => create_or_update_pg (Some g0) None sp1 xs1 p1 fail
               end in
             eBool err ++ eOpt ePG api
         | None => bad_input end
  | 5 => match run_dec dHistory toks with Some _ => [1] | None => bad_input end
  | 201 => match run_dec dStepCase toks with
           | Some (sp, r, fresh, pgv, b, a) => eBool (law_sync_step sp r fresh pgv b a) | None => bad_input end
  | 221 => match run_dec dStepCase toks with
           | Some (sp, r, fresh, pgv, b, a) => eBool (law_sync_step_strict sp r fresh pgv b a) | None => bad_input end
  | 202 => match run_dec (dPair dObs dObs) toks with
           | Some (a1, a2) => eBool (law_idem a1 a2) | None => bad_input end
  | 207 => match run_dec (dPair dObs dObs) toks with
           | Some (a1, a2) => eBool (law_idem_counters a1 a2) | None => bad_input end
  | 203 => match run_dec (dPair dPods dPods) toks with
           | Some (x, y) => eBool (law_crash x y) | None => bad_input end
  | 204 => match run_dec (let* t := dPos in let* i := dZ in let* v := dZ in let* r := dZ in let* cpu := dZ in let* mem := dZ in
                          let* m := dMarkers in ret (t, i, v, r, cpu, mem, m)) toks with
           | Some (t, i, v, r, cpu, mem, m) => eBool (law_markers t i v r cpu mem m) | None => bad_input end
  | 6 => match run_dec (let* sx := dSpecX in let* v := dZ in let* r := dZ in let* k := dNat in let* idx := dList dZ in
                        ret (sx, v, r, k, idx)) toks with
         | Some ((sp, xs), v, r, k, idx) =>
             match nth_error (combine (s_tasks sp) xs) k with
             | Some (t, x) => eList ePodFields (map read_fields (task_pod_objs v r t x idx))
             | None => bad_input end
         | None => bad_input end
  | 211 => match run_dec (let* sx := dSpecX in let* v := dZ in let* r := dZ in let* k := dNat in let* idx := dList dZ in
                          let* got := dList dPodFields in ret (sx, v, r, k, idx, got)) toks with
           | Some ((sp, xs), v, r, k, idx, got) =>
               match nth_error (combine (s_tasks sp) xs) k with
               | Some (t, x) => eBool (law_created_pods v r t x idx got)
               | None => bad_input end
           | None => bad_input end
  | 205 => match run_dec (let* sx := dSpecX in let* jp := dZ in let* q := dBool in let* g := dPG in ret (sx, jp, q, g)) toks with
           | Some ((sp, xs), jp, q, g) => eBool (law_pg sp xs jp q g) | None => bad_input end
  | 208 => match run_dec (let* sx := dSpecX in let* rf := dReq in let* f1 := dBool in let* f2 := dBool in let* f3 := dBool in
                          let* mo := dBool in let* b := dObs in let* a := dObs in let* g := dOpt dPG in
                          ret (sx, fst rf, f1, f2, f3, mo, b, a, g)) toks with
           | Some ((sp, xs), r, f1, f2, f3, mo, b, a, g) => eBool (law_pg_step sp xs r f1 f2 f3 mo b a g) | None => bad_input end
  | 209 => match run_dec (let* fl := dBool in let* b := dObs in let* a := dObs in let* gb := dOpt dPG in let* ga := dOpt dPG in
                          ret (fl, b, a, gb, ga)) toks with
           | Some (fl, b, a, gb, ga) => eBool (law_pg_fault fl b a gb ga) | None => bad_input end
  | 210 => match run_dec (let* sx := dSpecX in let* jp := dZ in let* lf := dBool in let* err := dBool in
                          let* gb := dOpt dPG in let* ga := dOpt dPG in ret (sx, jp, lf, err, gb, ga)) toks with
           | Some ((sp, xs), jp, lf, err, gb, ga) => eBool (law_pg_call sp xs jp lf err gb ga) | None => bad_input end
  | 206 => match run_dec (let* sx := dSpecX in let* r := dRes3 in ret (sx, r)) toks with
           | Some ((sp, xs), r) => eBool (law_minres sp xs r) | None => bad_input end
  | 212 => match run_dec (let* sx := dSpecX in let* r := dRes3 in ret (sx, r)) toks with
           | Some ((sp, xs), r) => eBool (law_minres_stable sp xs r) | None => bad_input end
  | _ => bad_input
  end.
