(* Proofs for C06. *)
From Coq Require Import ZArith List Bool Lia Permutation.
From V Require Import C05.Model C05.JobCodec C05.Laws C05.Lemmas C06.Model C06.Laws.
Import ListNotations.
Open Scope Z_scope.

(* ---------- no pod is created (or deleted) while the PodGroup is not admitted ---------- *)
Theorem sync_creates_none_while_pg_pending : forall w u F w' e wr,
  sync_job w u F = (w', e, wr) -> pg_admitted (v_pg w) = false -> w_pods w' = w_pods w.
Proof.
  intros w u F w' e wr H Hpg. unfold sync_job, sync_job_gen in H.
  destruct (c_vdel (v_ctl w)); [inversion H; reflexivity|].
  destruct (c_queue (v_ctl w)); cbn [negb] in H; [|inversion H; reflexivity].
  destruct (phase_beq (st_phase (v_st w)) PhNone); cbn [andb] in H.
  - destruct (fails_status F 0); [inversion H; reflexivity|].
    rewrite pj7 in H. cbn [write v_pg] in H. rewrite Hpg in H. cbn [negb] in H.
    repeat match type of H with context [if ?c then _ else _] => destruct c end;
      inversion H; subst; fin; reflexivity.
  - rewrite pj7 in H. rewrite Hpg in H. cbn [negb] in H.
    repeat match type of H with context [if ?c then _ else _] => destruct c end;
      inversion H; subst; fin; reflexivity.
Qed.

(* on the request level: a request that leads to syncJob (any phase/action whose
   table entry is KSync) touches no pod while the lister shows no admitted PodGroup *)
Theorem request_creates_none_while_pg_pending : forall w r F w' e wr,
  step_req w r F = (w', e, wr) ->
  fst (exec (st_phase (v_st w)) (apply_policies (v_spec w) (v_st w) r)) = KSync ->
  pg_admitted (v_pg w) = false -> w_pods w' = w_pods w.
Proof.
  intros w r F w' e wr H Hk Hpg. unfold step_req in H. unfold apply_policies in Hk.
  set (w0 := with_delays w (clean_pod_delay (c_delay (v_ctl w)) r)) in *.
  change (v_spec w0) with (v_spec w) in H. change (v_st w0) with (v_st w) in H.
  destruct (c_job (v_ctl w0)); cbn [negb] in H; [|inversion H; reflexivity].
  destruct (apply_policies_d (v_spec w) (v_st w) r) as [a delayed]. cbn [fst] in Hk.
  destruct delayed; [inversion H; reflexivity|].
  destruct (execute w0 a r F) as [[w1 e1] wr1] eqn:Hx. unfold execute in Hx.
  change (v_st w0) with (v_st w) in Hx.
  destruct (exec (st_phase (v_st w)) a) as [k u]. cbn in Hk. subst k.
  assert (E : w_pods w1 = w_pods w0) by (eapply sync_creates_none_while_pg_pending; eauto).
  destruct (negb e1 && negb (is_internal_action a)); inversion H; subst; cbn; exact E.
Qed.

(* a delayed action that expires and leads to syncJob: the same *)
Theorem fire_creates_none_while_pg_pending : forall w w' e wr t c rest,
  fire w = (w', e, wr) -> d_queue (c_delay (v_ctl w)) = (t, c) :: rest ->
  fst (exec (st_phase (v_st w)) (dt_action t)) = KSync ->
  pg_admitted (v_pg w) = false -> w_pods w' = w_pods w.
Proof.
  intros w w' e wr t c rest H Hq Hk Hpg. unfold fire in H. rewrite Hq in H.
  set (w0 := with_delays w _) in *.
  destruct c; [inversion H; reflexivity|].
  destruct (c_job (v_ctl w0)); cbn [negb] in H; [|inversion H; reflexivity].
  destruct (execute w0 (dt_action t) _ []) as [[w1 e1] wr1] eqn:Hx. unfold execute in Hx.
  change (v_st w0) with (v_st w) in Hx.
  destruct (exec (st_phase (v_st w)) (dt_action t)) as [k u]. cbn in Hk. subst k.
  assert (E : w_pods w1 = w_pods w0) by (eapply sync_creates_none_while_pg_pending; eauto).
  inversion H; subst; cbn; exact E.
Qed.

(* ---------- the PodGroup mirrors the spec ---------- *)
Lemma tm_get_set_same : forall k v m, tm_get k (tm_set k v m) = Some v.
Proof.
  induction m as [|[k' v'] m IH]; cbn.
  - rewrite Pos.eqb_refl. reflexivity.
  - destruct (Pos.eqb k k') eqn:E; cbn; rewrite E; auto.
Qed.
Lemma tm_get_set_other : forall k k' v m, k <> k' -> tm_get k (tm_set k' v m) = tm_get k m.
Proof.
  induction m as [|[k2 v2] m IH]; intros Hne; cbn.
  - destruct (Pos.eqb k k') eqn:E; auto. apply Pos.eqb_eq in E. contradiction.
  - destruct (Pos.eqb k' k2) eqn:E; cbn.
    + apply Pos.eqb_eq in E. subst k2. destruct (Pos.eqb k k') eqn:E2; auto.
      apply Pos.eqb_eq in E2. contradiction.
    + destruct (Pos.eqb k k2); auto.
Qed.

Lemma fold_set_other : forall k ts m,
  ~ In k (map t_name ts) ->
  tm_get k (fold_left (fun m t => tm_set (t_name t) (min_task_member t) m) ts m) = tm_get k m.
Proof.
  induction ts as [|t ts IH]; intros m Hn; cbn; auto.
  rewrite IH; [|intro; apply Hn; right; assumption].
  apply tm_get_set_other. intro; apply Hn; left; congruence.
Qed.

Lemma fold_set_in : forall ts m t,
  NoDup (map t_name ts) -> In t ts ->
  tm_get (t_name t) (fold_left (fun m t => tm_set (t_name t) (min_task_member t) m) ts m) = Some (min_task_member t).
Proof.
  induction ts as [|t0 ts IH]; intros m t Hnd Hin; [destruct Hin|].
  cbn in Hnd. inversion Hnd as [|? ? Hnot Hnd']; subst. cbn [fold_left].
  destruct Hin as [<-|Hin].
  - rewrite fold_set_other; auto. apply tm_get_set_same.
  - apply IH; auto.
Qed.

Lemma tm_get_map : forall ts t,
  NoDup (map t_name ts) -> In t ts ->
  tm_get (t_name t) (map (fun t => (t_name t, min_task_member t)) ts) = Some (min_task_member t).
Proof.
  induction ts as [|t0 ts IH]; intros t Hnd Hin; [destruct Hin|].
  cbn in Hnd. inversion Hnd as [|? ? Hnot Hnd']; subst. cbn.
  destruct Hin as [<-|Hin].
  - rewrite Pos.eqb_refl. reflexivity.
  - destruct (Pos.eqb (t_name t) (t_name t0)) eqn:E.
    + apply Pos.eqb_eq in E. exfalso. apply Hnot. rewrite <- E. apply in_map. exact Hin.
    + apply IH; auto.
Qed.

(* both after a create and after any update (scale up / down), for every spec
   with unique task names: MinMember, every task's MinTaskMember, the priority
   class and MinResources are the spec's *)
Theorem podgroup_mirrors_spec : forall sp xs jp,
  NoDup (map t_name (s_tasks sp)) ->
  (let g := pg_create sp xs jp in
   g_minmember g = s_min sp /\ g_prio g = jp /\ g_res g = calc_min_resources sp xs /\
   forall t, In t (s_tasks sp) -> tm_get (t_name t) (g_taskmin g) = Some (min_task_member t)) /\
  (forall g0, let g := pg_update g0 sp xs jp in
   g_minmember g = s_min sp /\ g_prio g = jp /\ g_res g = calc_min_resources sp xs /\
   forall t, In t (s_tasks sp) -> tm_get (t_name t) (g_taskmin g) = Some (min_task_member t)).
Proof.
  intros sp xs jp Hnd. split.
  - cbn. repeat split; auto. intros t Hin. apply tm_get_map; auto.
  - intros g0. cbn. repeat split; auto. intros t Hin. apply fold_set_in; auto.
Qed.

Theorem min_task_member_spec : forall t,
  min_task_member t = match t_min t with Some m => m | None => t_replicas t end.
Proof. reflexivity. Qed.

(* ---------- minResources: the first-count rule sums exactly `count` replicas ---------- *)
Definition sum_replicas (l : list ptask) : Z := fold_right (fun t acc => pt_replicas t + acc) 0 l.

Lemma rtimes_pods : forall n t, 0 <= n -> r_pods (rtimes n t) = n.
Proof. intros n t Hn. unfold rtimes. destruct (n <=? 0) eqn:E; cbn; auto. apply Z.leb_le in E. lia. Qed.

Theorem first_count_exact : forall l count,
  Forall (fun t => 0 <= pt_replicas t) l -> 0 <= count <= sum_replicas l ->
  r_pods (first_count count l) = count.
Proof.
  induction l as [|t l IH]; intros count Hf Hc.
  - cbn in *. lia.
  - change (sum_replicas (t :: l)) with (pt_replicas t + sum_replicas l) in Hc.
    inversion Hf as [|? ? Ht Hf']; subst. cbn [first_count].
    destruct (count <=? pt_replicas t) eqn:E.
    + apply rtimes_pods; lia.
    + apply Z.leb_gt in E. cbn [radd r_pods]. rewrite rtimes_pods by lia. rewrite IH; auto; lia.
Qed.

(* each task's own minimum first: loop 1 never takes more than jobmin and takes
   every task minimum while there is room *)
Lemma own_mins_count : forall l jobmin cnt x c,
  Forall (fun t => match pt_min t with Some m => 0 <= m | None => True end) l ->
  cnt <= jobmin -> own_mins jobmin cnt l = (x, c) ->
  cnt <= c <= jobmin /\ r_pods x = c - cnt.
Proof.
  induction l as [|t l IH]; intros jobmin cnt x c Hf Hle H; cbn in H.
  - inversion H; subst. cbn. lia.
  - inversion Hf as [|? ? Ht Hf']; subst.
    destruct (pt_min t) as [m|] eqn:Em.
    + cbn in Ht. destruct (jobmin - cnt <? m) eqn:E1.
      * apply Z.ltb_lt in E1.
        assert (E2 : (jobmin <=? cnt + (jobmin - cnt)) = true) by (apply Z.leb_le; lia).
        rewrite E2 in H. inversion H; subst. rewrite rtimes_pods by lia. lia.
      * apply Z.ltb_ge in E1.
        destruct (jobmin <=? cnt + m) eqn:E2.
        -- inversion H; subst. rewrite rtimes_pods by lia. apply Z.leb_le in E2. lia.
        -- apply Z.leb_gt in E2. destruct (own_mins jobmin (cnt + m) l) as [x1 c1] eqn:Eo.
           assert (Hc' : cnt + m <= jobmin) by lia.
           destruct (IH _ _ _ _ Hf' Hc' Eo) as [A B].
           inversion H; subst. cbn [radd r_pods]. rewrite rtimes_pods by lia. lia.
    + apply (IH _ _ _ _ Hf' Hle H).
Qed.

(* the model's sort is a permutation sorted by descending priority (ties keep their order) *)
Lemma ins_prio_perm : forall x l, Permutation (ins_prio x l) (x :: l).
Proof.
  induction l as [|y l IH]; cbn; auto.
  destruct (pt_prio y <? pt_prio x); auto.
  eapply perm_trans; [apply perm_skip, IH|apply perm_swap].
Qed.
Lemma desc_prio_cons2 : forall a b r, desc_prio (a :: b :: r) = (pt_prio b <=? pt_prio a) && desc_prio (b :: r).
Proof. reflexivity. Qed.
Lemma ins_prio_desc : forall x l, desc_prio l = true -> desc_prio (ins_prio x l) = true.
Proof.
  induction l as [|y l IH]; intros H; [reflexivity|].
  cbn [ins_prio]. destruct (pt_prio y <? pt_prio x) eqn:E.
  - rewrite desc_prio_cons2, H. apply Z.ltb_lt in E.
    assert (E' : (pt_prio y <=? pt_prio x) = true) by (apply Z.leb_le; lia). rewrite E'. reflexivity.
  - apply Z.ltb_ge in E. destruct l as [|z l'].
    + cbn [ins_prio]. rewrite desc_prio_cons2.
      assert (E' : (pt_prio x <=? pt_prio y) = true) by (apply Z.leb_le; lia). rewrite E'. reflexivity.
    + rewrite desc_prio_cons2 in H. apply andb_true_iff in H. destruct H as [H1 H2].
      specialize (IH H2). cbn [ins_prio] in IH |- *.
      destruct (pt_prio z <? pt_prio x) eqn:E2.
      * rewrite desc_prio_cons2, IH.
        assert (E' : (pt_prio x <=? pt_prio y) = true) by (apply Z.leb_le; lia). rewrite E'. reflexivity.
      * rewrite desc_prio_cons2, IH, H1. reflexivity.
Qed.
Theorem sort_prio_sorted : forall l, desc_prio (sort_prio l) = true /\ Permutation (sort_prio l) l.
Proof.
  intros l. unfold sort_prio.
  assert (G : forall l acc, desc_prio acc = true ->
            desc_prio (fold_left (fun acc x => ins_prio x acc) l acc) = true /\
            Permutation (fold_left (fun acc x => ins_prio x acc) l acc) (acc ++ l)).
  { induction l0 as [|x l0 IH]; intros acc Ha; cbn.
    - split; auto. rewrite app_nil_r. apply Permutation_refl.
    - destruct (IH (ins_prio x acc) (ins_prio_desc x acc Ha)) as [A B]. split; auto.
      eapply perm_trans; [exact B|].
      eapply perm_trans; [apply Permutation_app_tail, ins_prio_perm|].
      cbn. apply Permutation_middle. }
  destruct (G l [] eq_refl) as [A B]. split; auto.
Qed.

(* non-vacuity *)
Example pg_example :
  let sp := mkSpec [mkTask 1 3 (Some 1) [] None; mkTask 2 2 None [] None] 4 None 3 [] in
  let xs := [mkExtra 100 64 1; mkExtra 250 0 2] in
  NoDup (map t_name (s_tasks sp)) /\
  calc_min_resources sp xs = mkR 4 (2 * 250 + 2 * 100) (2 * 64) /\
  law_pg sp xs 2 true (pg_create sp xs 2) = true.
Proof. cbn. split; [repeat constructor; cbn; intuition congruence|split; vm_compute; reflexivity]. Qed.

(* ---------- syncJob on the world: the API server's pods after an admitted sync ---------- *)
From V Require Import C05.SyncLemmas.

Lemma sync_job_pods : forall w u F w' e wr,
  sync_job w u F = (w', e, wr) -> c_vdel (v_ctl w) = false -> c_queue (v_ctl w) = true ->
  pg_admitted (v_pg w) = true -> st_phase (v_st w) <> PhNone ->
  w_pods w' = a_pods (sync_pods (v_spec w) (v_pods w) (w_pods w) F) /\
  (F = [] -> e = a_err (sync_pods (v_spec w) (v_pods w) (w_pods w) [])).
Proof.
  intros w u F w' e wr H Hdel Hq Hpg Hph. unfold sync_job, sync_job_gen in H. rewrite Hdel, Hq in H. cbn [negb] in H.
  destruct (phase_beq (st_phase (v_st w)) PhNone) eqn:Ei.
  { apply phase_beq_true in Ei. contradiction. }
  cbn [andb] in H. rewrite pj7, Hpg in H. cbn [negb] in H. rewrite pj6, pj5 in H.
  set (a := sync_pods (v_spec w) (v_pods w) (w_pods w) F) in *.
  destruct (a_err a) eqn:Ea.
  - inversion H; subst. fin. split; auto. intros ->. subst a. symmetry; exact Ea.
  - match type of H with context [status_eq_dec ?x ?y] => destruct (status_eq_dec x y) end.
    + inversion H; subst. fin. split; auto. intros ->. subst a. symmetry; exact Ea.
    + destruct (fails_status F 0) eqn:Ef.
      * inversion H; subst. fin. split; auto. intros ->. discriminate.
      * inversion H; subst. fin. split; auto. intros ->. subst a. symmetry; exact Ea.
Qed.

(* exact pod set, on the world: PodGroup admitted, fresh pod view, every API call succeeds *)
Theorem sync_job_exact_pods : forall w u w' e wr,
  sync_job w u [] = (w', e, wr) -> c_vdel (v_ctl w) = false -> c_queue (v_ctl w) = true ->
  pg_admitted (v_pg w) = true -> st_phase (v_st w) <> PhNone ->
  v_pods w = w_pods w -> NoDup (pod_ids (w_pods w)) ->
  e = false /\
  forall t i,
    find_pod t i (w_pods w') =
    match find_pod t i (w_pods w) with
    | Some q => Some (if doomed (v_spec w) q then mark q else q)
    | None => if wanted (v_spec w) (w_pods w) t i then Some (newpod t i) else None
    end.
Proof.
  intros w u w' e wr H Hdel Hq Hpg Hph Hfresh Hnd.
  destruct (sync_job_pods _ _ _ _ _ _ H Hdel Hq Hpg Hph) as [Hp He]. rewrite Hfresh in Hp, He.
  destruct (sync_exact_pods true (v_spec w) (w_pods w) Hnd) as [Herr Hfind].
  split; [rewrite (He eq_refl); exact Herr|].
  intros t i. rewrite Hp. apply Hfind.
Qed.

(* non-vacuity of the pod-set theorems: scale 3 -> 2 with a missing replica, a
   surplus pod, an out-of-sync pod and a dependent task *)
Definition ex_spec : spec :=
  mkSpec [mkTask 1 2 (Some 1) [] None; mkTask 2 1 None [] (Some (false, [1%positive]))] 2 None 3 [].
Definition ex_pods : list pod :=
  [mkPod 1 1 PRunning false true; mkPod 1 2 PRunning false false].
Example pod_set_example :
  NoDup (map t_name (s_tasks ex_spec)) /\ NoDup (pod_ids ex_pods) /\
  pass true ex_spec ex_pods =
    [mkPod 1 0 PPending false false; mkPod 1 1 PRunning true true; mkPod 1 2 PRunning true false;
     mkPod 2 0 PPending false false] /\
  pass true ex_spec (pass true ex_spec ex_pods) = pass true ex_spec ex_pods /\
  pass true ex_spec (a_pods (sync_pods ex_spec ex_pods ex_pods [FCreate 1 0; FDelete 1 2])) = pass true ex_spec ex_pods.
Proof.
  split; [repeat constructor; cbn; intuition congruence|].
  split; [repeat constructor; cbn; intuition congruence|].
  vm_compute. repeat split.
Qed.

(* ---------- minResources: exactly minAvailable replicas are summed ---------- *)
Definition spare (t : ptask) : Z :=
  match pt_min t with Some m => if m =? pt_replicas t then 0 else pt_replicas t - m | None => pt_replicas t end.
Definition sum_spare (l : list ptask) : Z := fold_right (fun t acc => spare t + acc) 0 l.
Definition sum_mins (l : list ptask) : Z :=
  fold_right (fun t acc => (match pt_min t with Some m => m | None => 0 end) + acc) 0 l.
Definition ptask_ok (t : ptask) : Prop :=
  0 <= pt_replicas t /\ match pt_min t with Some m => 0 <= m <= pt_replicas t | None => True end.

Lemma spare_nonneg : forall t, ptask_ok t -> 0 <= spare t.
Proof. intros t [H1 H2]. unfold spare. destruct (pt_min t) as [m|]; auto. destruct (m =? pt_replicas t); lia. Qed.

(* loop 2 (fill up in priority order) *)
Theorem fill_up_exact : forall l leftcnt,
  Forall ptask_ok l -> 0 < leftcnt <= sum_spare l -> r_pods (fill_up leftcnt l) = leftcnt.
Proof.
  induction l as [|t l IH]; intros leftcnt Hf Hc.
  - cbn in Hc. lia.
  - change (sum_spare (t :: l)) with (spare t + sum_spare l) in Hc.
    inversion Hf as [|? ? Ht Hf']; subst. pose proof (spare_nonneg t Ht) as Hs.
    cbn [fill_up]. unfold spare in Hc, Hs. destruct Ht as [Hr Hm].
    destruct (pt_min t) as [m|].
    + destruct (m =? pt_replicas t) eqn:E.
      * apply IH; auto; lia.
      * destruct (pt_replicas t - m <=? leftcnt) eqn:E1.
        -- apply Z.leb_le in E1. destruct (leftcnt - (pt_replicas t - m) <=? 0) eqn:E2.
           ++ apply Z.leb_le in E2. rewrite rtimes_pods by lia. lia.
           ++ apply Z.leb_gt in E2. cbn [radd r_pods]. rewrite rtimes_pods by lia. rewrite IH; auto; lia.
        -- apply rtimes_pods. lia.
    + destruct (pt_replicas t <=? leftcnt) eqn:E1.
      * apply Z.leb_le in E1. destruct (leftcnt - pt_replicas t <=? 0) eqn:E2.
        -- apply Z.leb_le in E2. rewrite rtimes_pods by lia. lia.
        -- apply Z.leb_gt in E2. cbn [radd r_pods]. rewrite rtimes_pods by lia. rewrite IH; auto; lia.
      * apply rtimes_pods. lia.
Qed.

(* loop 1 stops early only when minAvailable is reached; otherwise it took every task minimum *)
Lemma own_mins_all : forall l jobmin cnt x c,
  Forall ptask_ok l -> own_mins jobmin cnt l = (x, c) -> c < jobmin -> c = cnt + sum_mins l.
Proof.
  induction l as [|t l IH]; intros jobmin cnt x c Hf H Hlt; cbn in H.
  - inversion H; subst. cbn. lia.
  - inversion Hf as [|? ? Ht Hf']; subst. change (sum_mins (t :: l)) with ((match pt_min t with Some m => m | None => 0 end) + sum_mins l).
    destruct Ht as [Hr Hm]. destruct (pt_min t) as [m|].
    + destruct (jobmin - cnt <? m) eqn:E1.
      * assert (E2 : (jobmin <=? cnt + (jobmin - cnt)) = true) by (apply Z.leb_le; lia).
        rewrite E2 in H. inversion H; subst. lia.
      * destruct (jobmin <=? cnt + m) eqn:E2.
        -- inversion H; subst. apply Z.leb_le in E2. lia.
        -- destruct (own_mins jobmin (cnt + m) l) as [x1 c1] eqn:Eo. inversion H; subst.
           rewrite (IH _ _ _ _ Hf' Eo Hlt). lia.
    + rewrite (IH _ _ _ _ Hf' H Hlt). lia.
Qed.

Lemma sum_split : forall l, Forall ptask_ok l -> sum_replicas l = sum_mins l + sum_spare l.
Proof.
  induction l as [|t l IH]; intros Hf; [reflexivity|]. inversion Hf as [|? ? [Hr Hm] Hf']; subst.
  specialize (IH Hf').
  change (sum_replicas (t :: l)) with (pt_replicas t + sum_replicas l).
  change (sum_mins (t :: l)) with ((match pt_min t with Some m => m | None => 0 end) + sum_mins l).
  change (sum_spare (t :: l)) with (spare t + sum_spare l). unfold spare.
  destruct (pt_min t) as [m|]; [|lia]. destruct (m =? pt_replicas t) eqn:E; [apply Z.eqb_eq in E|]; lia.
Qed.

(* calcPGMinResources sums exactly minAvailable replicas: both branches, whatever
   order the tasks are visited in (so also for any order of equal priorities) *)
Theorem calc_min_resources_exact : forall l jobmin tm,
  Forall ptask_ok l -> 0 <= jobmin <= sum_replicas l ->
  r_pods (calc_min_resources_sorted jobmin l tm) = jobmin.
Proof.
  intros l jobmin tm Hf Hj. unfold calc_min_resources_sorted.
  destruct (jobmin <? tm).
  - apply first_count_exact; auto. eapply Forall_impl; [|exact Hf]. intros t [H _]. exact H.
  - destruct (own_mins jobmin 0 l) as [x c] eqn:Eo.
    assert (Hf2 : Forall (fun t => match pt_min t with Some m => 0 <= m | None => True end) l).
    { eapply Forall_impl; [|exact Hf]. intros t [_ H]. destruct (pt_min t); auto. lia. }
    destruct (own_mins_count l jobmin 0 x c Hf2 ltac:(lia) Eo) as [Hc Hx].
    destruct (jobmin <=? c) eqn:E.
    + apply Z.leb_le in E. lia.
    + apply Z.leb_gt in E. cbn [radd r_pods].
      pose proof (own_mins_all l jobmin 0 x c Hf Eo E) as Hall. pose proof (sum_split l Hf) as Hs.
      rewrite fill_up_exact; auto; lia.
Qed.

Example minres_example :
  let l := [mkPT (mkTask 1 3 (Some 1) [] None) 100 64 10; mkPT (mkTask 2 2 None [] None) 250 0 20] in
  Forall ptask_ok l /\ 0 <= 4 <= sum_replicas l /\
  calc_min_resources_sorted 4 l (total_min l) = mkR 4 (3 * 100 + 250) (3 * 64).
Proof.
  cbv zeta. split; [repeat constructor; cbn; lia|]. split; [cbn; lia|]. vm_compute. reflexivity.
Qed.

(* ---------- createOrUpdatePodGroup: "returned OK" for every fault position ---------- *)
Definition pg_mirrors (g : podgroup) (sp : spec) (xs : list task_extra) (jp : Z) : Prop :=
  g_minmember g = s_min sp /\ g_prio g = jp /\ g_res g = calc_min_resources sp xs /\
  forall t, In t (s_tasks sp) -> tm_get (t_name t) (g_taskmin g) = Some (min_task_member t).

Theorem podgroup_mirrors_spec_ok : forall lister api sp xs jp fail api',
  NoDup (map t_name (s_tasks sp)) -> lister = api ->      (* the lister shows what the API server holds *)
  create_or_update_pg lister api sp xs jp fail = (api', false) ->
  exists g, api' = Some g /\ pg_mirrors g sp xs jp.
Proof.
  intros lister api sp xs jp fail api' Hnd -> H. unfold create_or_update_pg in H.
  destruct (podgroup_mirrors_spec sp xs jp Hnd) as [Hc Hu].
  destruct api as [g|].
  - destruct (pg_eq_dec (pg_update g sp xs jp) g) as [E|E].
    + inversion H; subst. exists g. split; auto. rewrite <- E. apply Hu.
    + destruct fail; [discriminate|]. inversion H; subst. eexists; split; [reflexivity|apply Hu].
  - destruct fail; [discriminate|]. inversion H; subst. eexists; split; [reflexivity|apply Hc].
Qed.

(* a call that returns an error changed nothing on the API server; a refused write is always reported *)
Theorem pg_error_no_change : forall lister api sp xs jp fail api',
  create_or_update_pg lister api sp xs jp fail = (api', true) -> api' = api.
Proof.
  intros lister api sp xs jp fail api' H. unfold create_or_update_pg in H.
  destruct lister as [g|].
  - destruct (pg_eq_dec (pg_update g sp xs jp) g); [discriminate|].
    destruct fail; [inversion H; reflexivity|]. destruct api; inversion H; reflexivity.
  - destruct fail; [inversion H; reflexivity|]. destruct api; discriminate.
Qed.
Theorem pg_refused_write_reported : forall lister api sp xs jp api' err,
  create_or_update_pg lister api sp xs jp true = (api', err) ->
  err = true \/ (api' = api /\ exists g, lister = Some g /\ pg_update g sp xs jp = g).
Proof.
  intros lister api sp xs jp api' err H. unfold create_or_update_pg in H.
  destruct lister as [g|].
  - destruct (pg_eq_dec (pg_update g sp xs jp) g) as [E|E]; inversion H; subst; eauto.
  - inversion H; auto.
Qed.

(* ---------- controller restart: the informers may deliver pods, job and PodGroup in any order ---------- *)
Definition delivery_orders : list (list op) :=
  [[OSyncJob; OSyncPods; OSyncPg]; [OSyncJob; OSyncPg; OSyncPods]; [OSyncPods; OSyncJob; OSyncPg];
   [OSyncPods; OSyncPg; OSyncJob]; [OSyncPg; OSyncJob; OSyncPods]; [OSyncPg; OSyncPods; OSyncJob]].

Definition synced (w : world) : world :=
  mkWorld (w_spec w) (w_spec w) (w_st w) (w_st w) (w_pods w) (w_pods w) (w_pg w) (w_pg w)
          (mkCtl true false (c_wdel (v_ctl w)) (c_wdel (v_ctl w)) (c_queue (v_ctl w)) (drop_delays (c_delay (v_ctl w)))).

(* in particular: pods delivered BEFORE the job (cache.AddPod creates a placeholder,
   cache.Add then does SetJob on it) are still there afterwards *)
Theorem restart_any_delivery_order : forall w order,
  In order delivery_orders -> run w (ORestart :: order) = synced w.
Proof.
  intros w order H. destruct w as [ws vs wst vst wp vp wg vg [cj cd cw cv cq dl]].
  cbn in H. repeat (destruct H as [<-|H]; [reflexivity|]). destruct H.
Qed.

Theorem pods_before_job_are_kept : forall w,
  v_pods (run w [ORestart; OSyncPods; OSyncJob]) = w_pods w /\
  c_job (v_ctl (run w [ORestart; OSyncPods; OSyncJob])) = true.
Proof. intros w. destruct w as [ws vs wst vst wp vp wg vg [cj cd cw cv cq dl]]. split; reflexivity. Qed.

(* crash / partial failure of a sync at ANY point, controller restart, deliveries in ANY
   order, retry: the pod set converges to that of the undisturbed sync *)
Theorem crash_restart_world : forall w u F w1 e1 wr1 order,
  sync_job w u F = (w1, e1, wr1) ->
  c_vdel (v_ctl w) = false -> c_queue (v_ctl w) = true ->
  pg_admitted (v_pg w) = true -> st_phase (v_st w) <> PhNone ->
  v_pods w = w_pods w -> v_spec w = w_spec w ->
  NoDup (map t_name (s_tasks (v_spec w))) -> NoDup (pod_ids (w_pods w)) ->
  In order delivery_orders ->
  let w2 := run w1 (ORestart :: order) in
  c_job (v_ctl w2) = true /\ v_pods w2 = w_pods w2 /\ v_spec w2 = v_spec w /\
  forall t i, find_pod t i (pass true (v_spec w2) (v_pods w2)) = find_pod t i (pass true (v_spec w) (w_pods w)).
Proof.
  intros w u F w1 e1 wr1 order H Hdel Hq Hpg Hph Hfresh Hspec Hts Hnd Hin w2.
  unfold w2. rewrite (restart_any_delivery_order w1 order Hin). unfold synced. cbn.
  destruct (sync_job_pods _ _ _ _ _ _ H Hdel Hq Hpg Hph) as [Hp _]. rewrite Hfresh in Hp.
  pose proof (sync_job_outcome _ _ _ _ _ _ H) as O. pose proof (oc_spec _ _ _ _ _ _ _ O) as Hws.
  repeat split; auto; try congruence.
  intros t i. rewrite Hws, <- Hspec, Hp. apply crash_restart_converges; auto.
Qed.

(* non-vacuity: an interrupted sync, restart with the pods delivered before the job *)
Example crash_restart_world_example :
  let w := init_world ex_spec (mkStatus PhRunning 0 0 2 c0 0 [] false false) ex_pods (Some PgRunning) in
  exists w1, sync_job w URunningSync [FCreate 1 0; FDelete 1 2] = (w1, true, false) /\
    let w2 := run w1 [ORestart; OSyncPods; OSyncJob; OSyncPg] in
    c_job (v_ctl w2) = true /\ v_pods w2 = w_pods w1 /\
    pass true (v_spec w2) (v_pods w2) = pass true ex_spec ex_pods.
Proof. eexists. split; [vm_compute; reflexivity|]. vm_compute. repeat split. Qed.

Example podgroup_ok_example :
  let sp := mkSpec [mkTask 1 3 (Some 1) [] None; mkTask 2 2 None [] None] 4 None 3 [] in
  let xs := [mkExtra 100 64 1; mkExtra 250 0 2] in
  let g0 := pg_create (mkSpec [mkTask 1 2 (Some 1) [] None; mkTask 2 2 None [] None] 3 None 3 []) xs 0 in
  create_or_update_pg (Some g0) (Some g0) sp xs 2 false = (Some (pg_update g0 sp xs 2), false) /\
  create_or_update_pg (Some g0) (Some g0) sp xs 2 true = (Some g0, true) /\
  pg_update g0 sp xs 2 <> g0.
Proof. vm_compute. repeat split; discriminate. Qed.

(* ---------- createJobPod: a pod's derived fields are those of its own (task, index) ---------- *)
Theorem create_job_pod_own_fields : forall ver retry t x i,
  let p := create_job_pod ver retry t x i in
  pf_task p = t_name t /\ pf_lbl_task p = t_name t /\ pf_idx p = i /\ pf_lbl_idx p = i /\
  pf_version p = ver /\ pf_retry p = retry.
Proof. intros. repeat split. Qed.

(* building all missing replicas of a task in one pass: the k-th pod is the one of the k-th
   index, whatever was built before or after it; distinct indices give distinct index markers *)
Theorem create_task_pods_pointwise : forall ver retry t x idxs k i,
  nth_error idxs k = Some i ->
  nth_error (create_task_pods ver retry t x idxs) k = Some (create_job_pod ver retry t x i).
Proof. intros. unfold create_task_pods. rewrite nth_error_map, H. reflexivity. Qed.

Theorem create_task_pods_distinct : forall ver retry t x idxs,
  NoDup idxs -> NoDup (map pf_idx (create_task_pods ver retry t x idxs)) /\
                map pf_lbl_idx (create_task_pods ver retry t x idxs) = idxs.
Proof.
  intros. unfold create_task_pods. rewrite !map_map. cbn. rewrite map_id. auto.
Qed.

Theorem law_created_pods_accepts_model : forall ver retry t x idxs,
  law_created_pods ver retry t x idxs (create_task_pods ver retry t x idxs) = true.
Proof.
  induction idxs as [|i idxs IH]; [reflexivity|].
  unfold create_task_pods in *. cbn [map law_created_pods create_job_pod pf_task pf_idx pf_lbl_task pf_lbl_idx
                                     pf_version pf_retry pf_user_lbl pf_user_ann].
  rewrite Pos.eqb_refl, !Z.eqb_refl. cbn [andb]. exact IH.
Qed.
