(* Proofs for C06. *)
From Coq Require Import ZArith List Bool Lia Permutation.
From V Require Import C05.Model C05.JobCodec C05.Laws C05.Lemmas C06.Model C06.Laws.
Import ListNotations.
Open Scope Z_scope.

(* ---------- no pod is created (or deleted) while the PodGroup is not admitted ---------- *)
Theorem sync_creates_none_while_pg_pending : forall w u F w' e wr,
  sync_job w u F = (w', e, wr) -> pg_admitted (v_pg w) = false -> w_pods w' = w_pods w.
Proof.
  intros w u F w' e wr H Hpg. unfold sync_job, sync_job_gen in H.
  destruct (c_vdel (v_ctl w)); [inversion H; reflexivity|].
  destruct (c_queue (v_ctl w)); cbn [negb] in H; [|inversion H; reflexivity].
  destruct (phase_beq (st_phase (v_st w)) PhNone); cbn [andb] in H.
  - destruct (fails_status F 0); [inversion H; reflexivity|].
    rewrite pj7 in H. cbn [write v_pg] in H. rewrite Hpg in H. cbn [negb] in H.
    repeat match type of H with context [if ?c then _ else _] => destruct c end;
      inversion H; subst; fin; reflexivity.
  - rewrite pj7 in H. rewrite Hpg in H. cbn [negb] in H.
    repeat match type of H with context [if ?c then _ else _] => destruct c end;
      inversion H; subst; fin; reflexivity.
Qed.

(* on the request level: a request that leads to syncJob (any phase/action whose
   table entry is KSync) touches no pod while the lister shows no admitted PodGroup *)
Theorem request_creates_none_while_pg_pending : forall w r F w' e wr,
  step_req w r F = (w', e, wr) ->
  fst (exec (st_phase (v_st w)) (apply_policies (v_spec w) (v_st w) r)) = KSync ->
  pg_admitted (v_pg w) = false -> w_pods w' = w_pods w.
Proof.
  intros w r F w' e wr H Hk Hpg. unfold step_req in H. unfold apply_policies in Hk.
  set (w0 := with_delays w (clean_pod_delay (c_delay (v_ctl w)) r)) in *.
  change (v_spec w0) with (v_spec w) in H. change (v_st w0) with (v_st w) in H.
  destruct (c_job (v_ctl w0)); cbn [negb] in H; [|inversion H; reflexivity].
  destruct (apply_policies_d (v_spec w) (v_st w) r) as [a delayed]. cbn [fst] in Hk.
  destruct delayed; [inversion H; reflexivity|].
  destruct (execute w0 a r F) as [[w1 e1] wr1] eqn:Hx. unfold execute in Hx.
  change (v_st w0) with (v_st w) in Hx.
  destruct (exec (st_phase (v_st w)) a) as [k u]. cbn in Hk. subst k.
  assert (E : w_pods w1 = w_pods w0) by (eapply sync_creates_none_while_pg_pending; eauto).
  destruct (negb e1 && negb (is_internal_action a)); inversion H; subst; cbn; exact E.
Qed.

(* a delayed action that expires and leads to syncJob: the same *)
Theorem fire_creates_none_while_pg_pending : forall w w' e wr t c rest,
  fire w = (w', e, wr) -> d_queue (c_delay (v_ctl w)) = (t, c) :: rest ->
  fst (exec (st_phase (v_st w)) (dt_action t)) = KSync ->
  pg_admitted (v_pg w) = false -> w_pods w' = w_pods w.
Proof.
  intros w w' e wr t c rest H Hq Hk Hpg. unfold fire in H. rewrite Hq in H.
  set (w0 := with_delays w _) in *.
  destruct c; [inversion H; reflexivity|].
  destruct (c_job (v_ctl w0)); cbn [negb] in H; [|inversion H; reflexivity].
  destruct (execute w0 (dt_action t) _ []) as [[w1 e1] wr1] eqn:Hx. unfold execute in Hx.
  change (v_st w0) with (v_st w) in Hx.
  destruct (exec (st_phase (v_st w)) (dt_action t)) as [k u]. cbn in Hk. subst k.
  assert (E : w_pods w1 = w_pods w0) by (eapply sync_creates_none_while_pg_pending; eauto).
  inversion H; subst; cbn; exact E.
Qed.

(* ---------- the PodGroup mirrors the spec ---------- *)
Lemma tm_get_set_same : forall k v m, tm_get k (tm_set k v m) = Some v.
Proof.
  induction m as [|[k' v'] m IH]; cbn.
  - rewrite Pos.eqb_refl. reflexivity.
  - destruct (Pos.eqb k k') eqn:E; cbn; rewrite E; auto.
Qed.
Lemma tm_get_set_other : forall k k' v m, k <> k' -> tm_get k (tm_set k' v m) = tm_get k m.
Proof.
  induction m as [|[k2 v2] m IH]; intros Hne; cbn.
  - destruct (Pos.eqb k k') eqn:E; auto. apply Pos.eqb_eq in E. contradiction.
  - destruct (Pos.eqb k' k2) eqn:E; cbn.
    + apply Pos.eqb_eq in E. subst k2. destruct (Pos.eqb k k') eqn:E2; auto.
      apply Pos.eqb_eq in E2. contradiction.
    + destruct (Pos.eqb k k2); auto.
Qed.

Lemma fold_set_other : forall k ts m,
  ~ In k (map t_name ts) ->
  tm_get k (fold_left (fun m t => tm_set (t_name t) (min_task_member t) m) ts m) = tm_get k m.
Proof.
  induction ts as [|t ts IH]; intros m Hn; cbn; auto.
  rewrite IH; [|intro; apply Hn; right; assumption].
  apply tm_get_set_other. intro; apply Hn; left; congruence.
Qed.

Lemma fold_set_in : forall ts m t,
  NoDup (map t_name ts) -> In t ts ->
  tm_get (t_name t) (fold_left (fun m t => tm_set (t_name t) (min_task_member t) m) ts m) = Some (min_task_member t).
Proof.
  induction ts as [|t0 ts IH]; intros m t Hnd Hin; [destruct Hin|].
  cbn in Hnd. inversion Hnd as [|? ? Hnot Hnd']; subst. cbn [fold_left].
  destruct Hin as [<-|Hin].
  - rewrite fold_set_other; auto. apply tm_get_set_same.
  - apply IH; auto.
Qed.

Lemma tm_get_map : forall ts t,
  NoDup (map t_name ts) -> In t ts ->
  tm_get (t_name t) (map (fun t => (t_name t, min_task_member t)) ts) = Some (min_task_member t).
Proof.
  induction ts as [|t0 ts IH]; intros t Hnd Hin; [destruct Hin|].
  cbn in Hnd. inversion Hnd as [|? ? Hnot Hnd']; subst. cbn.
  destruct Hin as [<-|Hin].
  - rewrite Pos.eqb_refl. reflexivity.
  - destruct (Pos.eqb (t_name t) (t_name t0)) eqn:E.
    + apply Pos.eqb_eq in E. exfalso. apply Hnot. rewrite <- E. apply in_map. exact Hin.
    + apply IH; auto.
Qed.

(* both after a create and after any update (scale up / down), for every spec
   with unique task names: MinMember, every task's MinTaskMember, the priority
   class and MinResources are the spec's *)
Theorem podgroup_mirrors_spec : forall sp xs jp,
  NoDup (map t_name (s_tasks sp)) ->
  (let g := pg_create sp xs jp in
   g_minmember g = s_min sp /\ g_prio g = jp /\ g_res g = calc_min_resources sp xs /\
   forall t, In t (s_tasks sp) -> tm_get (t_name t) (g_taskmin g) = Some (min_task_member t)) /\
  (forall g0, let g := pg_update g0 sp xs jp in
   g_minmember g = s_min sp /\ g_prio g = jp /\ g_res g = calc_min_resources sp xs /\
   forall t, In t (s_tasks sp) -> tm_get (t_name t) (g_taskmin g) = Some (min_task_member t)).
Proof.
  intros sp xs jp Hnd. split.
  - cbn. repeat split; auto. intros t Hin. apply tm_get_map; auto.
  - intros g0. cbn. repeat split; auto. intros t Hin. apply fold_set_in; auto.
Qed.

Theorem min_task_member_spec : forall t,
  min_task_member t = match t_min t with Some m => m | None => t_replicas t end.
Proof. reflexivity. Qed.

(* ---------- minResources: the first-count rule sums exactly `count` replicas ---------- *)
Definition sum_replicas (l : list ptask) : Z := fold_right (fun t acc => pt_replicas t + acc) 0 l.

Lemma rtimes_pods : forall n t, 0 <= n -> r_pods (rtimes n t) = n.
Proof. intros n t Hn. unfold rtimes. destruct (n <=? 0) eqn:E; cbn; auto. apply Z.leb_le in E. lia. Qed.

Theorem first_count_exact : forall l count,
  Forall (fun t => 0 <= pt_replicas t) l -> 0 <= count <= sum_replicas l ->
  r_pods (first_count count l) = count.
Proof.
  induction l as [|t l IH]; intros count Hf Hc.
  - cbn in *. lia.
  - change (sum_replicas (t :: l)) with (pt_replicas t + sum_replicas l) in Hc.
    inversion Hf as [|? ? Ht Hf']; subst. cbn [first_count].
    destruct (count <=? pt_replicas t) eqn:E.
    + apply rtimes_pods; lia.
    + apply Z.leb_gt in E. cbn [radd r_pods]. rewrite rtimes_pods by lia. rewrite IH; auto; lia.
Qed.

(* each task's own minimum first: loop 1 never takes more than jobmin and takes
   every task minimum while there is room *)
Lemma own_mins_count : forall l jobmin cnt x c,
  Forall (fun t => match pt_min t with Some m => 0 <= m | None => True end) l ->
  cnt <= jobmin -> own_mins jobmin cnt l = (x, c) ->
  cnt <= c <= jobmin /\ r_pods x = c - cnt.
Proof.
  induction l as [|t l IH]; intros jobmin cnt x c Hf Hle H; cbn in H.
  - inversion H; subst. cbn. lia.
  - inversion Hf as [|? ? Ht Hf']; subst.
    destruct (pt_min t) as [m|] eqn:Em.
    + cbn in Ht. destruct (jobmin - cnt <? m) eqn:E1.
      * apply Z.ltb_lt in E1.
        assert (E2 : (jobmin <=? cnt + (jobmin - cnt)) = true) by (apply Z.leb_le; lia).
        rewrite E2 in H. inversion H; subst. rewrite rtimes_pods by lia. lia.
      * apply Z.ltb_ge in E1.
        destruct (jobmin <=? cnt + m) eqn:E2.
        -- inversion H; subst. rewrite rtimes_pods by lia. apply Z.leb_le in E2. lia.
        -- apply Z.leb_gt in E2. destruct (own_mins jobmin (cnt + m) l) as [x1 c1] eqn:Eo.
           assert (Hc' : cnt + m <= jobmin) by lia.
           destruct (IH _ _ _ _ Hf' Hc' Eo) as [A B].
           inversion H; subst. cbn [radd r_pods]. rewrite rtimes_pods by lia. lia.
    + apply (IH _ _ _ _ Hf' Hle H).
Qed.

(* the model's sort is a permutation sorted by descending priority (ties keep their order) *)
Lemma ins_prio_perm : forall x l, Permutation (ins_prio x l) (x :: l).
Proof.
  induction l as [|y l IH]; cbn; auto.
  destruct (pt_prio y <? pt_prio x); auto.
  eapply perm_trans; [apply perm_skip, IH|apply perm_swap].
Qed.
Lemma desc_prio_cons2 : forall a b r, desc_prio (a :: b :: r) = (pt_prio b <=? pt_prio a) && desc_prio (b :: r).
Proof. reflexivity. Qed.
Lemma ins_prio_desc : forall x l, desc_prio l = true -> desc_prio (ins_prio x l) = true.
Proof.
  induction l as [|y l IH]; intros H; [reflexivity|].
  cbn [ins_prio]. destruct (pt_prio y <? pt_prio x) eqn:E.
  - rewrite desc_prio_cons2, H. apply Z.ltb_lt in E.
    assert (E' : (pt_prio y <=? pt_prio x) = true) by (apply Z.leb_le; lia). rewrite E'. reflexivity.
  - apply Z.ltb_ge in E. destruct l as [|z l'].
    + cbn [ins_prio]. rewrite desc_prio_cons2.
      assert (E' : (pt_prio x <=? pt_prio y) = true) by (apply Z.leb_le; lia). rewrite E'. reflexivity.
    + rewrite desc_prio_cons2 in H. apply andb_true_iff in H. destruct H as [H1 H2].
      specialize (IH H2). cbn [ins_prio] in IH |- *.
      destruct (pt_prio z <? pt_prio x) eqn:E2.
      * rewrite desc_prio_cons2, IH.
        assert (E' : (pt_prio x <=? pt_prio y) = true) by (apply Z.leb_le; lia). rewrite E'. reflexivity.
      * rewrite desc_prio_cons2, IH, H1. reflexivity.
Qed.
Theorem sort_prio_sorted : forall l, desc_prio (sort_prio l) = true /\ Permutation (sort_prio l) l.
Proof.
  intros l. unfold sort_prio.
  assert (G : forall l acc, desc_prio acc = true ->
            desc_prio (fold_left (fun acc x => ins_prio x acc) l acc) = true /\
            Permutation (fold_left (fun acc x => ins_prio x acc) l acc) (acc ++ l)).
  { induction l0 as [|x l0 IH]; intros acc Ha; cbn.
    - split; auto. rewrite app_nil_r. apply Permutation_refl.
    - destruct (IH (ins_prio x acc) (ins_prio_desc x acc Ha)) as [A B]. split; auto.
      eapply perm_trans; [exact B|].
      eapply perm_trans; [apply Permutation_app_tail, ins_prio_perm|].
      cbn. apply Permutation_middle. }
  destruct (G l [] eq_refl) as [A B]. split; auto.
Qed.

(* non-vacuity *)
Example pg_example :
  let sp := mkSpec [mkTask 1 3 (Some 1) [] None; mkTask 2 2 None [] None] 4 None 3 [] in
  let xs := [mkExtra 100 64 1; mkExtra 250 0 2] in
  NoDup (map t_name (s_tasks sp)) /\
  calc_min_resources sp xs = mkR 4 (2 * 250 + 2 * 100) (2 * 64) /\
  law_pg sp xs 2 true (pg_create sp xs 2) = true.
Proof. cbn. split; [repeat constructor; cbn; intuition congruence|split; vm_compute; reflexivity]. Qed.

(* ---------- syncJob on the world: the API server's pods after an admitted sync ---------- *)
From V Require Import C05.SyncLemmas.

Lemma sync_job_pods : forall w u F w' e wr,
  sync_job w u F = (w', e, wr) -> c_vdel (v_ctl w) = false -> c_queue (v_ctl w) = true ->
  pg_admitted (v_pg w) = true -> st_phase (v_st w) <> PhNone ->
  w_pods w' = a_pods (sync_pods (v_spec w) (v_pods w) (w_pods w) F) /\
  (F = [] -> e = a_err (sync_pods (v_spec w) (v_pods w) (w_pods w) [])).
Proof.
  intros w u F w' e wr H Hdel Hq Hpg Hph. unfold sync_job, sync_job_gen in H. rewrite Hdel, Hq in H. cbn [negb] in H.
  destruct (phase_beq (st_phase (v_st w)) PhNone) eqn:Ei.
  { apply phase_beq_true in Ei. contradiction. }
  cbn [andb] in H. rewrite pj7, Hpg in H. cbn [negb] in H. rewrite pj6, pj5 in H.
  set (a := sync_pods (v_spec w) (v_pods w) (w_pods w) F) in *.
  destruct (a_err a) eqn:Ea.
  - inversion H; subst. fin. split; auto. intros ->. subst a. symmetry; exact Ea.
  - match type of H with context [status_eq_dec ?x ?y] => destruct (status_eq_dec x y) end.
    + inversion H; subst. fin. split; auto. intros ->. subst a. symmetry; exact Ea.
    + destruct (fails_status F 0) eqn:Ef.
      * inversion H; subst. fin. split; auto. intros ->. discriminate.
      * inversion H; subst. fin. split; auto. intros ->. subst a. symmetry; exact Ea.
Qed.

(* exact pod set, on the world: PodGroup admitted, fresh pod view, every API call succeeds *)
Theorem sync_job_exact_pods : forall w u w' e wr,
  sync_job w u [] = (w', e, wr) -> c_vdel (v_ctl w) = false -> c_queue (v_ctl w) = true ->
  pg_admitted (v_pg w) = true -> st_phase (v_st w) <> PhNone ->
  v_pods w = w_pods w -> NoDup (pod_ids (w_pods w)) ->
  e = false /\
  forall t i,
    find_pod t i (w_pods w') =
    match find_pod t i (w_pods w) with
    | Some q => Some (if doomed (v_spec w) q then mark q else q)
    | None => if wanted (v_spec w) (w_pods w) t i then Some (newpod t i) else None
    end.
Proof.
  intros w u w' e wr H Hdel Hq Hpg Hph Hfresh Hnd.
  destruct (sync_job_pods _ _ _ _ _ _ H Hdel Hq Hpg Hph) as [Hp He]. rewrite Hfresh in Hp, He.
  destruct (sync_exact_pods true (v_spec w) (w_pods w) Hnd) as [Herr Hfind].
  split; [rewrite (He eq_refl); exact Herr|].
  intros t i. rewrite Hp. apply Hfind.
Qed.

(* non-vacuity of the pod-set theorems: scale 3 -> 2 with a missing replica, a
   surplus pod, an out-of-sync pod and a dependent task *)
Definition ex_spec : spec :=
  mkSpec [mkTask 1 2 (Some 1) [] None; mkTask 2 1 None [] (Some (false, [1%positive]))] 2 None 3 [].
Definition ex_pods : list pod :=
  [mkPod 1 1 PRunning false true; mkPod 1 2 PRunning false false].
Example pod_set_example :
  NoDup (map t_name (s_tasks ex_spec)) /\ NoDup (pod_ids ex_pods) /\
  pass true ex_spec ex_pods =
    [mkPod 1 0 PPending false false; mkPod 1 1 PRunning true true; mkPod 1 2 PRunning true false;
     mkPod 2 0 PPending false false] /\
  pass true ex_spec (pass true ex_spec ex_pods) = pass true ex_spec ex_pods /\
  pass true ex_spec (a_pods (sync_pods ex_spec ex_pods ex_pods [FCreate 1 0; FDelete 1 2])) = pass true ex_spec ex_pods.
Proof.
  split; [repeat constructor; cbn; intuition congruence|].
  split; [repeat constructor; cbn; intuition congruence|].
  vm_compute. repeat split.
Qed.

(* ---------- minResources: exactly minAvailable replicas are summed ---------- *)
Definition spare (t : ptask) : Z :=
  match pt_min t with Some m => if m =? pt_replicas t then 0 else pt_replicas t - m | None => pt_replicas t end.
Definition sum_spare (l : list ptask) : Z := fold_right (fun t acc => spare t + acc) 0 l.
Definition sum_mins (l : list ptask) : Z :=
  fold_right (fun t acc => (match pt_min t with Some m => m | None => 0 end) + acc) 0 l.
Definition ptask_ok (t : ptask) : Prop :=
  0 <= pt_replicas t /\ match pt_min t with Some m => 0 <= m <= pt_replicas t | None => True end.

Lemma spare_nonneg : forall t, ptask_ok t -> 0 <= spare t.
Proof. intros t [H1 H2]. unfold spare. destruct (pt_min t) as [m|]; auto. destruct (m =? pt_replicas t); lia. Qed.

(* loop 2 (fill up in priority order) *)
Theorem fill_up_exact : forall l leftcnt,
  Forall ptask_ok l -> 0 < leftcnt <= sum_spare l -> r_pods (fill_up leftcnt l) = leftcnt.
Proof.
  induction l as [|t l IH]; intros leftcnt Hf Hc.
  - cbn in Hc. lia.
  - change (sum_spare (t :: l)) with (spare t + sum_spare l) in Hc.
    inversion Hf as [|? ? Ht Hf']; subst. pose proof (spare_nonneg t Ht) as Hs.
    cbn [fill_up]. unfold spare in Hc, Hs. destruct Ht as [Hr Hm].
    destruct (pt_min t) as [m|].
    + destruct (m =? pt_replicas t) eqn:E.
      * apply IH; auto; lia.
      * destruct (pt_replicas t - m <=? leftcnt) eqn:E1.
        -- apply Z.leb_le in E1. destruct (leftcnt - (pt_replicas t - m) <=? 0) eqn:E2.
           ++ apply Z.leb_le in E2. rewrite rtimes_pods by lia. lia.
           ++ apply Z.leb_gt in E2. cbn [radd r_pods]. rewrite rtimes_pods by lia. rewrite IH; auto; lia.
        -- apply rtimes_pods. lia.
    + destruct (pt_replicas t <=? leftcnt) eqn:E1.
      * apply Z.leb_le in E1. destruct (leftcnt - pt_replicas t <=? 0) eqn:E2.
        -- apply Z.leb_le in E2. rewrite rtimes_pods by lia. lia.
        -- apply Z.leb_gt in E2. cbn [radd r_pods]. rewrite rtimes_pods by lia. rewrite IH; auto; lia.
      * apply rtimes_pods. lia.
Qed.

(* loop 1 stops early only when minAvailable is reached; otherwise it took every task minimum *)
Lemma own_mins_all : forall l jobmin cnt x c,
  Forall ptask_ok l -> own_mins jobmin cnt l = (x, c) -> c < jobmin -> c = cnt + sum_mins l.
Proof.
  induction l as [|t l IH]; intros jobmin cnt x c Hf H Hlt; cbn in H.
  - inversion H; subst. cbn. lia.
  - inversion Hf as [|? ? Ht Hf']; subst. change (sum_mins (t :: l)) with ((match pt_min t with Some m => m | None => 0 end) + sum_mins l).
    destruct Ht as [Hr Hm]. destruct (pt_min t) as [m|].
    + destruct (jobmin - cnt <? m) eqn:E1.
      * assert (E2 : (jobmin <=? cnt + (jobmin - cnt)) = true) by (apply Z.leb_le; lia).
        rewrite E2 in H. inversion H; subst. lia.
      * destruct (jobmin <=? cnt + m) eqn:E2.
        -- inversion H; subst. apply Z.leb_le in E2. lia.
        -- destruct (own_mins jobmin (cnt + m) l) as [x1 c1] eqn:Eo. inversion H; subst.
           rewrite (IH _ _ _ _ Hf' Eo Hlt). lia.
    + rewrite (IH _ _ _ _ Hf' H Hlt). lia.
Qed.

Lemma sum_split : forall l, Forall ptask_ok l -> sum_replicas l = sum_mins l + sum_spare l.
Proof.
  induction l as [|t l IH]; intros Hf; [reflexivity|]. inversion Hf as [|? ? [Hr Hm] Hf']; subst.
  specialize (IH Hf').
  change (sum_replicas (t :: l)) with (pt_replicas t + sum_replicas l).
  change (sum_mins (t :: l)) with ((match pt_min t with Some m => m | None => 0 end) + sum_mins l).
  change (sum_spare (t :: l)) with (spare t + sum_spare l). unfold spare.
  destruct (pt_min t) as [m|]; [|lia]. destruct (m =? pt_replicas t) eqn:E; [apply Z.eqb_eq in E|]; lia.
Qed.

(* calcPGMinResources sums exactly minAvailable replicas: both branches, whatever
   order the tasks are visited in (so also for any order of equal priorities) *)
Theorem calc_min_resources_exact : forall l jobmin tm,
  Forall ptask_ok l -> 0 <= jobmin <= sum_replicas l ->
  r_pods (calc_min_resources_sorted jobmin l tm) = jobmin.
Proof.
  intros l jobmin tm Hf Hj. unfold calc_min_resources_sorted.
  destruct (jobmin <? tm).
  - apply first_count_exact; auto. eapply Forall_impl; [|exact Hf]. intros t [H _]. exact H.
  - destruct (own_mins jobmin 0 l) as [x c] eqn:Eo.
    assert (Hf2 : Forall (fun t => match pt_min t with Some m => 0 <= m | None => True end) l).
    { eapply Forall_impl; [|exact Hf]. intros t [_ H]. destruct (pt_min t); auto. lia. }
    destruct (own_mins_count l jobmin 0 x c Hf2 ltac:(lia) Eo) as [Hc Hx].
    destruct (jobmin <=? c) eqn:E.
    + apply Z.leb_le in E. lia.
    + apply Z.leb_gt in E. cbn [radd r_pods].
      pose proof (own_mins_all l jobmin 0 x c Hf Eo E) as Hall. pose proof (sum_split l Hf) as Hs.
      rewrite fill_up_exact; auto; lia.
Qed.

Example minres_example :
  let l := [mkPT (mkTask 1 3 (Some 1) [] None) 100 64 10; mkPT (mkTask 2 2 None [] None) 250 0 20] in
  Forall ptask_ok l /\ 0 <= 4 <= sum_replicas l /\
  calc_min_resources_sorted 4 l (total_min l) = mkR 4 (3 * 100 + 250) (3 * 64).
Proof.
  cbv zeta. split; [repeat constructor; cbn; lia|]. split; [cbn; lia|]. vm_compute. reflexivity.
Qed.

(* ---------- createOrUpdatePodGroup: "returned OK" for every fault position ---------- *)
Definition pg_mirrors (g : podgroup) (sp : spec) (xs : list task_extra) (jp : Z) : Prop :=
  g_minmember g = s_min sp /\ g_prio g = jp /\ g_res g = calc_min_resources sp xs /\
  forall t, In t (s_tasks sp) -> tm_get (t_name t) (g_taskmin g) = Some (min_task_member t).

Theorem podgroup_mirrors_spec_ok : forall lister api sp xs jp fail api',
  NoDup (map t_name (s_tasks sp)) -> lister = api ->      (* the lister shows what the API server holds *)
  create_or_update_pg lister api sp xs jp fail = (api', false) ->
  exists g, api' = Some g /\ pg_mirrors g sp xs jp.
Proof.
  intros lister api sp xs jp fail api' Hnd -> H. unfold create_or_update_pg in H.
  destruct (podgroup_mirrors_spec sp xs jp Hnd) as [Hc Hu].
  destruct api as [g|].
  - destruct (pg_eq_dec (pg_update g sp xs jp) g) as [E|E].
    + inversion H; subst. exists g. split; auto. rewrite <- E. apply Hu.
    + destruct fail; [discriminate|]. inversion H; subst. eexists; split; [reflexivity|apply Hu].
  - destruct fail; [discriminate|]. inversion H; subst. eexists; split; [reflexivity|apply Hc].
Qed.

(* a call that returns an error changed nothing on the API server; a refused write is always reported *)
Theorem pg_error_no_change : forall lister api sp xs jp fail api',
  create_or_update_pg lister api sp xs jp fail = (api', true) -> api' = api.
Proof.
  intros lister api sp xs jp fail api' H. unfold create_or_update_pg in H.
  destruct lister as [g|].
  - destruct (pg_eq_dec (pg_update g sp xs jp) g); [discriminate|].
    destruct fail; [inversion H; reflexivity|]. destruct api; inversion H; reflexivity.
  - destruct fail; [inversion H; reflexivity|]. destruct api; discriminate.
Qed.
Theorem pg_refused_write_reported : forall lister api sp xs jp api' err,
  create_or_update_pg lister api sp xs jp true = (api', err) ->
  err = true \/ (api' = api /\ exists g, lister = Some g /\ pg_update g sp xs jp = g).
Proof.
  intros lister api sp xs jp api' err H. unfold create_or_update_pg in H.
  destruct lister as [g|].
  - destruct (pg_eq_dec (pg_update g sp xs jp) g) as [E|E]; inversion H; subst; eauto.
  - inversion H; auto.
Qed.

(* ---------- controller restart: the informers may deliver pods, job and PodGroup in any order ---------- *)
Definition delivery_orders : list (list op) :=
  [[OSyncJob; OSyncPods; OSyncPg]; [OSyncJob; OSyncPg; OSyncPods]; [OSyncPods; OSyncJob; OSyncPg];
   [OSyncPods; OSyncPg; OSyncJob]; [OSyncPg; OSyncJob; OSyncPods]; [OSyncPg; OSyncPods; OSyncJob]].

Definition synced (w : world) : world :=
  mkWorld (w_spec w) (w_spec w) (w_st w) (w_st w) (w_pods w) (w_pods w) (w_pg w) (w_pg w)
          (mkCtl true false (c_wdel (v_ctl w)) (c_wdel (v_ctl w)) (c_queue (v_ctl w)) (drop_delays (c_delay (v_ctl w)))
                 (no_rq (q_max (c_rq (v_ctl w))))).

(* in particular: pods delivered BEFORE the job (cache.AddPod creates a placeholder,
   cache.Add then does SetJob on it) are still there afterwards *)
Theorem restart_any_delivery_order : forall w order,
  In order delivery_orders -> run w (ORestart :: order) = synced w.
Proof.
  intros w order H. destruct w as [ws vs wst vst wp vp wg vg [cj cd cw cv cq dl]].
  cbn in H. repeat (destruct H as [<-|H]; [reflexivity|]). destruct H.
Qed.

Theorem pods_before_job_are_kept : forall w,
  v_pods (run w [ORestart; OSyncPods; OSyncJob]) = w_pods w /\
  c_job (v_ctl (run w [ORestart; OSyncPods; OSyncJob])) = true.
Proof. intros w. destruct w as [ws vs wst vst wp vp wg vg [cj cd cw cv cq dl]]. split; reflexivity. Qed.

(* crash / partial failure of a sync at ANY point, controller restart, deliveries in ANY
   order, retry: the pod set converges to that of the undisturbed sync *)
Theorem crash_restart_world : forall w u F w1 e1 wr1 order,
  sync_job w u F = (w1, e1, wr1) ->
  c_vdel (v_ctl w) = false -> c_queue (v_ctl w) = true ->
  pg_admitted (v_pg w) = true -> st_phase (v_st w) <> PhNone ->
  v_pods w = w_pods w -> v_spec w = w_spec w ->
  NoDup (map t_name (s_tasks (v_spec w))) -> NoDup (pod_ids (w_pods w)) ->
  In order delivery_orders ->
  let w2 := run w1 (ORestart :: order) in
  c_job (v_ctl w2) = true /\ v_pods w2 = w_pods w2 /\ v_spec w2 = v_spec w /\
  forall t i, find_pod t i (pass true (v_spec w2) (v_pods w2)) = find_pod t i (pass true (v_spec w) (w_pods w)).
Proof.
  intros w u F w1 e1 wr1 order H Hdel Hq Hpg Hph Hfresh Hspec Hts Hnd Hin w2.
  unfold w2. rewrite (restart_any_delivery_order w1 order Hin). unfold synced. cbn.
  destruct (sync_job_pods _ _ _ _ _ _ H Hdel Hq Hpg Hph) as [Hp _]. rewrite Hfresh in Hp.
  pose proof (sync_job_outcome _ _ _ _ _ _ H) as O. pose proof (oc_spec _ _ _ _ _ _ _ O) as Hws.
  repeat split; auto; try congruence.
  intros t i. rewrite Hws, <- Hspec, Hp. apply crash_restart_converges; auto.
Qed.

(* what syncJob leaves alone on the way (PodGroup known to the lister) *)
Lemma sync_job_keeps : forall w u F w1 e wr,
  sync_job w u F = (w1, e, wr) -> v_pg w <> None ->
  c_wdel (v_ctl w1) = c_wdel (v_ctl w) /\ c_queue (v_ctl w1) = c_queue (v_ctl w) /\ w_pg w1 = w_pg w.
Proof.
  intros w u F w1 e wr H Hpg. unfold sync_job, sync_job_gen in H.
  assert (E : forall x, v_pg x = v_pg w -> ensure_pg x = x).
  { intros x Hx. Transparent ensure_pg. unfold ensure_pg. rewrite Hx. destruct (v_pg w); [reflexivity|contradiction]. }
  Opaque ensure_pg.
  destruct (c_vdel (v_ctl w)); [inversion H; auto|].
  destruct (c_queue (v_ctl w)) eqn:Eq; cbn [negb] in H; [|inversion H; subst; rewrite Eq; auto].
  destruct (phase_beq (st_phase (v_st w)) PhNone); cbn [andb] in H.
  - destruct (fails_status F 0); [inversion H; subst; rewrite Eq; auto|].
    rewrite (E (write w _)) in H by reflexivity. cbv zeta in H.
    repeat match type of H with context [if ?c then _ else _] => destruct c end;
      inversion H; subst; cbn; rewrite ?Eq; auto.
  - rewrite (E w) in H by reflexivity. cbv zeta in H.
    repeat match type of H with context [if ?c then _ else _] => destruct c end;
      inversion H; subst; cbn; rewrite ?Eq; auto.
Qed.

(* ... and the RETRIED reconcile itself (second audit C06-N1: the theorem above concludes about the pure
   pass; with a lister PodGroup that is ahead of the API server's the retry would do nothing).  If the
   API server's PodGroup is the admitted one the lister showed, the job there has a phase and no deletion
   timestamp: after crash, restart and deliveries in any order, a sync request that meets no fault
   succeeds and leaves exactly the pods of the undisturbed sync *)
Theorem crash_restart_retry : forall w u F w1 e1 wr1 order u' w3 e3 wr3,
  sync_job w u F = (w1, e1, wr1) ->
  c_vdel (v_ctl w) = false -> c_wdel (v_ctl w) = false -> c_queue (v_ctl w) = true ->
  pg_admitted (v_pg w) = true -> w_pg w = v_pg w ->
  st_phase (v_st w) <> PhNone -> st_phase (w_st w1) <> PhNone ->
  v_pods w = w_pods w -> v_spec w = w_spec w ->
  NoDup (map t_name (s_tasks (v_spec w))) -> NoDup (pod_ids (w_pods w)) ->
  In order delivery_orders ->
  sync_job (run w1 (ORestart :: order)) u' [] = (w3, e3, wr3) ->
  e3 = false /\
  forall t i, find_pod t i (w_pods w3) = find_pod t i (pass true (v_spec w) (w_pods w)).
Proof.
  intros w u F w1 e1 wr1 order u' w3 e3 wr3 H Hdel Hwdel Hq Hpg Hpgeq Hph Hph1 Hfresh Hspec Hts Hnd Hin H3.
  destruct (crash_restart_world w u F w1 e1 wr1 order H Hdel Hq Hpg Hph Hfresh Hspec Hts Hnd Hin) as (_ & _ & _ & Hconv).
  cbv zeta in Hconv.
  assert (Hne : v_pg w <> None) by (intros E; rewrite E in Hpg; discriminate).
  destruct (sync_job_keeps _ _ _ _ _ _ H Hne) as (Kd & Kq & Kg).
  destruct (sync_job_pods _ _ _ _ _ _ H Hdel Hq Hpg Hph) as [Hp _].
  rewrite (restart_any_delivery_order w1 order Hin) in H3, Hconv. unfold synced in H3, Hconv.
  cbn [v_spec v_pods] in Hconv.
  assert (Hnd1 : NoDup (pod_ids (w_pods w1))) by (rewrite Hp; apply sync_pods_nodup; exact Hnd).
  match type of H3 with sync_job ?W _ _ = _ => set (w2 := W) in * end.
  assert (P1 : c_vdel (v_ctl w2) = false) by (cbn; congruence).
  assert (P2 : c_queue (v_ctl w2) = true) by (cbn; congruence).
  assert (P3 : pg_admitted (v_pg w2) = true) by (cbn; congruence).
  assert (P4 : st_phase (v_st w2) <> PhNone) by exact Hph1.
  assert (P5 : v_pods w2 = w_pods w2) by reflexivity.
  assert (P6 : NoDup (pod_ids (w_pods w2))) by exact Hnd1.
  destruct (sync_job_exact_pods w2 u' w3 e3 wr3 H3 P1 P2 P3 P4 P5 P6) as [He Hf].
  split; [exact He|]. intros t i. rewrite <- Hconv.
  cbn [v_spec w_pods] in Hf. rewrite Hf.
  destruct (sync_exact_pods true (w_spec w1) (w_pods w1) Hnd1) as [_ Hfind]. rewrite Hfind. reflexivity.
Qed.

(* non-vacuity: an interrupted sync, restart with the pods delivered before the job *)
Example crash_restart_world_example :
  let w := init_world ex_spec (mkStatus PhRunning 0 0 2 c0 0 [] false false) ex_pods (Some PgRunning) in
  exists w1, sync_job w URunningSync [FCreate 1 0; FDelete 1 2] = (w1, true, false) /\
    let w2 := run w1 [ORestart; OSyncPods; OSyncJob; OSyncPg] in
    c_job (v_ctl w2) = true /\ v_pods w2 = w_pods w1 /\
    pass true (v_spec w2) (v_pods w2) = pass true ex_spec ex_pods.
Proof. eexists. split; [vm_compute; reflexivity|]. vm_compute. repeat split. Qed.

Example podgroup_ok_example :
  let sp := mkSpec [mkTask 1 3 (Some 1) [] None; mkTask 2 2 None [] None] 4 None 3 [] in
  let xs := [mkExtra 100 64 1; mkExtra 250 0 2] in
  let g0 := pg_create (mkSpec [mkTask 1 2 (Some 1) [] None; mkTask 2 2 None [] None] 3 None 3 []) xs 0 in
  create_or_update_pg (Some g0) (Some g0) sp xs 2 false = (Some (pg_update g0 sp xs 2), false) /\
  create_or_update_pg (Some g0) (Some g0) sp xs 2 true = (Some g0, true) /\
  pg_update g0 sp xs 2 <> g0.
Proof. vm_compute. repeat split; discriminate. Qed.

(* ---------- createJobPod: a pod's derived fields are those of its own (task, index) ---------- *)
Theorem create_job_pod_own_fields : forall ver retry t x i,
  let p := create_job_pod ver retry t x i in
  pf_task p = t_name t /\ pf_lbl_task p = t_name t /\ pf_idx p = i /\ pf_lbl_idx p = i /\
  pf_version p = ver /\ pf_retry p = retry.
Proof. intros. repeat split. Qed.

(* building all missing replicas of a task in one pass: the k-th pod is the one of the k-th
   index, whatever was built before or after it; distinct indices give distinct index markers *)
Theorem create_task_pods_pointwise : forall ver retry t x idxs k i,
  nth_error idxs k = Some i ->
  nth_error (create_task_pods ver retry t x idxs) k = Some (create_job_pod ver retry t x i).
Proof. intros. unfold create_task_pods. rewrite nth_error_map, H. reflexivity. Qed.

Theorem create_task_pods_distinct : forall ver retry t x idxs,
  NoDup idxs -> NoDup (map pf_idx (create_task_pods ver retry t x idxs)) /\
                map pf_lbl_idx (create_task_pods ver retry t x idxs) = idxs.
Proof.
  intros. unfold create_task_pods. rewrite !map_map. cbn. rewrite map_id. auto.
Qed.

Theorem law_created_pods_accepts_model : forall ver retry t x idxs,
  law_created_pods ver retry t x idxs (create_task_pods ver retry t x idxs) = true.
Proof.
  induction idxs as [|i idxs IH]; [reflexivity|].
  unfold create_task_pods in *. cbn [map law_created_pods create_job_pod pf_task pf_idx pf_lbl_task pf_lbl_idx
                                     pf_version pf_retry pf_user_lbl pf_user_ann].
  rewrite Pos.eqb_refl, !Z.eqb_refl. cbn [andb]. exact IH.
Qed.

(* ================= createJobPod against an independent specification ================= *)
(* "the pod of (job, task, index)", written without the constructor: name, namespace, controller
   owner reference, every derived annotation and label, the scheduler's job id, and the template's
   own entries untouched *)
Definition ann_keys := [K_TASK_INDEX; K_TASK_SPEC; K_GROUP; K_JOB_NAME; K_QUEUE; K_JOB_VERSION; K_TEMPLATE; K_RETRY].
Definition lbl_keys := [K_TASK_INDEX; K_JOB_NAME; K_TASK_SPEC; K_NAMESPACE; K_QUEUE].

Record is_pod_of (j : jobid) (t : positive) (i : Z) (ta tl : kmap) (p : pod_obj) : Prop := {
  ip_name : po_name p = (j_name j, t, i);
  ip_ns : po_ns p = j_ns j;
  ip_owner : po_owner p = Some (j_name j, j_uid j);
  ip_index_ann : kget K_TASK_INDEX (po_ann p) = Some (VNum i);
  ip_index_lbl : kget K_TASK_INDEX (po_lbl p) = Some (VNum i);
  ip_task_ann : kget K_TASK_SPEC (po_ann p) = Some (VTask t);
  ip_task_lbl : kget K_TASK_SPEC (po_lbl p) = Some (VTask t);
  ip_group : kget K_GROUP (po_ann p) = Some (VGroup (j_name j) (j_uid j));
  ip_jobname_ann : kget K_JOB_NAME (po_ann p) = Some (VNum (j_name j));
  ip_jobname_lbl : kget K_JOB_NAME (po_lbl p) = Some (VNum (j_name j));
  ip_queue_ann : kget K_QUEUE (po_ann p) = Some (VNum (j_queue j));
  ip_queue_lbl : kget K_QUEUE (po_lbl p) = Some (VNum (j_queue j));
  ip_version : kget K_JOB_VERSION (po_ann p) = Some (VNum (j_version j));
  ip_retry : kget K_RETRY (po_ann p) = Some (VNum (j_retry j));
  ip_template : kget K_TEMPLATE (po_ann p) = Some (VTmpl (j_name j) t);
  ip_namespace_lbl : kget K_NAMESPACE (po_lbl p) = Some (VNum (j_ns j));
  ip_sched_job : sched_job_id p = Some (j_ns j, j_name j, j_uid j);     (* = namespace / PodGroup name *)
  ip_user_ann : forall k, ~ In k ann_keys -> kget k (po_ann p) = kget k ta;
  ip_user_lbl : forall k, ~ In k lbl_keys -> kget k (po_lbl p) = kget k tl
}.

Lemma kget_kset_same : forall k v m, kget k (kset k v m) = Some v.
Proof.
  induction m as [|[k' v'] m IH]; cbn; [rewrite Z.eqb_refl; reflexivity|].
  destruct (k =? k') eqn:E; cbn; rewrite E; auto.
Qed.
Lemma kget_kset_other : forall k k' v m, k <> k' -> kget k (kset k' v m) = kget k m.
Proof.
  induction m as [|[k2 v2] m IH]; intros Hne; cbn.
  - destruct (k =? k') eqn:E; auto. apply Z.eqb_eq in E. contradiction.
  - destruct (k' =? k2) eqn:E; cbn.
    + apply Z.eqb_eq in E. subst k2. destruct (k =? k') eqn:E2; auto. apply Z.eqb_eq in E2. contradiction.
    + destruct (k =? k2); auto.
Qed.
Lemma kget_ksets_other : forall k kvs m, ~ In k (map fst kvs) -> kget k (ksets kvs m) = kget k m.
Proof.
  unfold ksets. induction kvs as [|[k' v] kvs IH]; intros m Hn; cbn [fold_left]; auto.
  rewrite IH by (intro; apply Hn; right; assumption). cbn [fst snd].
  apply kget_kset_other. intro; apply Hn; left; cbn; congruence.
Qed.
Lemma kget_ksets_in : forall k v kvs m, NoDup (map fst kvs) -> In (k, v) kvs -> kget k (ksets kvs m) = Some v.
Proof.
  unfold ksets. induction kvs as [|[k' v'] kvs IH]; intros m Hnd Hin; [destruct Hin|].
  cbn in Hnd. inversion Hnd as [|? ? Hnot Hnd']; subst. cbn [fold_left fst snd]. destruct Hin as [E|Hin].
  - inversion E; subst. fold (ksets kvs (kset k v m)). rewrite kget_ksets_other by exact Hnot. apply kget_kset_same.
  - apply IH; auto.
Qed.

Lemma ann_writes_keys : forall j t i, map fst (ann_writes j t i) = ann_keys.
Proof. reflexivity. Qed.
Lemma lbl_writes_keys : forall j t i, map fst (lbl_writes j t i) = lbl_keys.
Proof. reflexivity. Qed.
Lemma ann_keys_nodup : NoDup ann_keys.
Proof. unfold ann_keys. repeat constructor; cbn; intuition discriminate. Qed.
Lemma lbl_keys_nodup : NoDup lbl_keys.
Proof. unfold lbl_keys. repeat constructor; cbn; intuition discriminate. Qed.

(* createJobPod writing into maps of its own (a copy of the template's) yields the pod of (job, task, index) *)
Theorem make_pod_is_pod_of : forall j t i ta tl, is_pod_of j t i ta tl (make_pod j t i ta tl).
Proof.
  intros j t i ta tl.
  assert (A : forall k v, In (k, v) (ann_writes j t i) -> kget k (ksets (ann_writes j t i) ta) = Some v).
  { intros. apply kget_ksets_in; auto. rewrite ann_writes_keys. apply ann_keys_nodup. }
  assert (L : forall k v, In (k, v) (lbl_writes j t i) -> kget k (ksets (lbl_writes j t i) tl) = Some v).
  { intros. apply kget_ksets_in; auto. rewrite lbl_writes_keys. apply lbl_keys_nodup. }
  constructor; unfold make_pod; cbn [po_name po_ns po_owner po_ann po_lbl]; try reflexivity;
    try (apply A; cbn; tauto); try (apply L; cbn; tauto).
  - unfold sched_job_id. cbn [po_ann po_ns]. rewrite (A K_GROUP (VGroup (j_name j) (j_uid j))) by (cbn; tauto). reflexivity.
  - intros k Hk. apply kget_ksets_other. rewrite ann_writes_keys. exact Hk.
  - intros k Hk. apply kget_ksets_other. rewrite lbl_writes_keys. exact Hk.
Qed.

(* all missing replicas of a task built in one pass: each pod is the pod of ITS OWN index *)
Theorem build_pods_own : forall j t ta tl idxs,
  Forall2 (fun i p => is_pod_of j t i ta tl p) idxs (build_pods j t ta tl idxs).
Proof.
  induction idxs as [|i idxs IH]; cbn; constructor; auto. apply make_pod_is_pod_of.
Qed.

(* REFUTED for a createJobPod that does not copy the template (seeded mutant C06-r3-1): with two
   different indices built in one pass the first pod carries the index of the second *)
Theorem build_pods_shared_refuted : forall j t ta tl i i',
  i <> i' -> ~ Forall2 (fun i p => is_pod_of j t i ta tl p) [i; i'] (build_pods_shared j t ta tl [i; i']).
Proof.
  intros j t ta tl i i' Hne H.
  assert (S : kget K_TASK_INDEX (fold_left (fun m i0 => ksets (ann_writes j t i0) m) [i; i'] ta) = Some (VNum i')).
  { change (fold_left (fun m i0 => ksets (ann_writes j t i0) m) [i; i'] ta)
      with (ksets (ann_writes j t i') (ksets (ann_writes j t i) ta)).
    apply kget_ksets_in; [rewrite ann_writes_keys; apply ann_keys_nodup|cbn; tauto]. }
  inversion H as [|? ? ? ? Hp _]; subst.
  pose proof (ip_index_ann _ _ _ _ _ _ Hp) as E.
  assert (X : Some (VNum i) = Some (VNum i')) by exact (eq_trans (eq_sym E) S).
  inversion X. congruence.
Qed.

(* the numeric record compared with the Go pods (selector 6) reads the same object *)
Theorem create_job_pod_reads_object : forall j (tk : task) x i ta tl,
  let p := make_pod j (t_name tk) i ta tl in
  let f := create_job_pod (j_version j) (j_retry j) tk x i in
  kget K_TASK_INDEX (po_ann p) = Some (VNum (pf_idx f)) /\ kget K_TASK_INDEX (po_lbl p) = Some (VNum (pf_lbl_idx f)) /\
  kget K_TASK_SPEC (po_ann p) = Some (VTask (pf_task f)) /\ kget K_TASK_SPEC (po_lbl p) = Some (VTask (pf_lbl_task f)) /\
  kget K_JOB_VERSION (po_ann p) = Some (VNum (pf_version f)) /\ kget K_RETRY (po_ann p) = Some (VNum (pf_retry f)).
Proof.
  intros j tk x i ta tl p f. destruct (make_pod_is_pod_of j (t_name tk) i ta tl) as [].
  subst p f. cbn [create_job_pod pf_idx pf_lbl_idx pf_task pf_lbl_task pf_version pf_retry]. auto 10.
Qed.

(* ================= minResources: WHICH requests are summed (independent specification) ================= *)
(* hand out n units to a list of capacities, in order, as much as each can take *)
Fixpoint greedy (caps : list Z) (n : Z) : list Z :=
  match caps with
  | [] => []
  | c :: r => let k := Z.max 0 (Z.min c n) in k :: greedy r (n - k)
  end.
Definition zsum (l : list Z) : Z := fold_right Z.add 0 l.
(* Σ_t k_t × (the request of one pod of t) *)
Fixpoint rsum (ks : list Z) (l : list ptask) : res3 :=
  match ks, l with
  | k :: ks', t :: l' => radd (rtimes k t) (rsum ks' l')
  | _, _ => r0
  end.
Definition own_min (t : ptask) : Z := match pt_min t with Some m => m | None => 0 end.

Lemma radd_r0_r : forall x, radd x r0 = x.
Proof. intros [a b c]. unfold radd, r0; cbn. f_equal; lia. Qed.
Lemma radd_r0_l : forall x, radd r0 x = x.
Proof. intros [a b c]. reflexivity. Qed.
Lemma rtimes_0 : forall t, rtimes 0 t = r0.
Proof. reflexivity. Qed.

Lemma rsum_greedy_0 : forall l caps, rsum (greedy caps 0) l = r0.
Proof.
  induction l as [|t l IH]; intros [|c caps]; cbn [greedy rsum]; auto.
  assert (E : Z.max 0 (Z.min c 0) = 0) by lia. rewrite E, Z.sub_0_r, rtimes_0, IH. reflexivity.
Qed.

Lemma zsum_greedy_0 : forall caps, zsum (greedy caps 0) = 0.
Proof.
  induction caps as [|c0 caps IHc]; [reflexivity|]. cbn [greedy zsum fold_right].
  assert (E : Z.max 0 (Z.min c0 0) = 0) by lia. rewrite E, Z.sub_0_r. fold (zsum (greedy caps 0)). lia.
Qed.

(* minAvailable below the sum of the task minimums: the first minAvailable replicas in visiting order *)
Theorem first_count_amount : forall l count,
  Forall ptask_ok l -> 0 <= count ->
  first_count count l = rsum (greedy (map pt_replicas l) count) l.
Proof.
  induction l as [|t l IH]; intros count Hf Hc; [reflexivity|].
  inversion Hf as [|? ? [Hr _] Hf']; subst. cbn [first_count map greedy rsum].
  destruct (count <=? pt_replicas t) eqn:E.
  - apply Z.leb_le in E. assert (K : Z.max 0 (Z.min (pt_replicas t) count) = count) by lia.
    rewrite K, Z.sub_diag, rsum_greedy_0, radd_r0_r. reflexivity.
  - apply Z.leb_gt in E. assert (K : Z.max 0 (Z.min (pt_replicas t) count) = pt_replicas t) by lia.
    rewrite K, IH; auto; lia.
Qed.

(* loop 1: every task's own minimum, in visiting order, as long as something is left *)
Theorem own_mins_amount : forall l jobmin cnt x c,
  Forall ptask_ok l -> cnt <= jobmin -> own_mins jobmin cnt l = (x, c) ->
  x = rsum (greedy (map own_min l) (jobmin - cnt)) l /\ c = cnt + zsum (greedy (map own_min l) (jobmin - cnt)).
Proof.
  induction l as [|t l IH]; intros jobmin cnt x c Hf Hle H; cbn [own_mins] in H.
  - inversion H; subst. cbn. split; [reflexivity|lia].
  - inversion Hf as [|? ? [Hr Hm] Hf']; subst. cbn [map greedy rsum].
    change (zsum (?k :: ?r)) with (k + zsum r).
    destruct (pt_min t) as [m|] eqn:Em.
    + assert (Eo : own_min t = m) by (unfold own_min; rewrite Em; reflexivity). rewrite Eo. clear Eo.
      destruct (jobmin - cnt <? m) eqn:E1.
      * apply Z.ltb_lt in E1.
        assert (E2 : (jobmin <=? cnt + (jobmin - cnt)) = true) by (apply Z.leb_le; lia).
        rewrite E2 in H. inversion H; subst.
        assert (K : Z.max 0 (Z.min m (jobmin - cnt)) = jobmin - cnt) by lia.
        rewrite K, Z.sub_diag, rsum_greedy_0, radd_r0_r, zsum_greedy_0. split; [reflexivity|lia].
      * apply Z.ltb_ge in E1. assert (K : Z.max 0 (Z.min m (jobmin - cnt)) = m) by lia. rewrite K.
        destruct (jobmin <=? cnt + m) eqn:E2.
        -- apply Z.leb_le in E2. inversion H; subst. assert (Hz : jobmin - cnt - m = 0) by lia.
           rewrite Hz, rsum_greedy_0, radd_r0_r, zsum_greedy_0. split; [reflexivity|lia].
        -- apply Z.leb_gt in E2. destruct (own_mins jobmin (cnt + m) l) as [x1 c1] eqn:Eo1. inversion H; subst.
           destruct (IH jobmin (cnt + m) x1 c Hf' ltac:(lia) Eo1) as [A B].
           replace (jobmin - cnt - m) with (jobmin - (cnt + m)) by lia.
           rewrite <- A. split; [reflexivity|lia].
    + assert (Eo : own_min t = 0) by (unfold own_min; rewrite Em; reflexivity). rewrite Eo. clear Eo.
      assert (K : Z.max 0 (Z.min 0 (jobmin - cnt)) = 0) by lia. rewrite K, Z.sub_0_r, rtimes_0, radd_r0_l.
      destruct (IH jobmin cnt x c Hf' Hle H) as [A B]. split; [exact A|lia].
Qed.

(* loop 2: the replicas beyond the task minimum, in visiting order *)
Theorem fill_up_amount : forall l leftcnt,
  Forall ptask_ok l -> 0 < leftcnt -> fill_up leftcnt l = rsum (greedy (map spare l) leftcnt) l.
Proof.
  induction l as [|t l IH]; intros leftcnt Hf Hc; [reflexivity|].
  inversion Hf as [|? ? Ht Hf']; subst. pose proof (spare_nonneg t Ht) as Hs. destruct Ht as [Hr Hm].
  cbn [fill_up map greedy rsum]. unfold spare in *. destruct (pt_min t) as [m|].
  - destruct (m =? pt_replicas t) eqn:E.
    + assert (K : Z.max 0 (Z.min 0 leftcnt) = 0) by lia. rewrite K, Z.sub_0_r, rtimes_0, radd_r0_l. apply IH; auto.
    + apply Z.eqb_neq in E. destruct (pt_replicas t - m <=? leftcnt) eqn:E1.
      * apply Z.leb_le in E1. assert (K : Z.max 0 (Z.min (pt_replicas t - m) leftcnt) = pt_replicas t - m) by lia. rewrite K.
        destruct (leftcnt - (pt_replicas t - m) <=? 0) eqn:E2.
        -- apply Z.leb_le in E2. assert (leftcnt - (pt_replicas t - m) = 0) by lia.
           rewrite H, rsum_greedy_0, radd_r0_r. reflexivity.
        -- apply Z.leb_gt in E2. rewrite IH; auto.
      * apply Z.leb_gt in E1. assert (K : Z.max 0 (Z.min (pt_replicas t - m) leftcnt) = leftcnt) by lia.
        rewrite K, Z.sub_diag, rsum_greedy_0, radd_r0_r. reflexivity.
  - destruct (pt_replicas t <=? leftcnt) eqn:E1.
    + apply Z.leb_le in E1. assert (K : Z.max 0 (Z.min (pt_replicas t) leftcnt) = pt_replicas t) by lia. rewrite K.
      destruct (leftcnt - pt_replicas t <=? 0) eqn:E2.
      * apply Z.leb_le in E2. assert (leftcnt - pt_replicas t = 0) by lia. rewrite H, rsum_greedy_0, radd_r0_r. reflexivity.
      * apply Z.leb_gt in E2. rewrite IH; auto.
    + apply Z.leb_gt in E1. assert (K : Z.max 0 (Z.min (pt_replicas t) leftcnt) = leftcnt) by lia.
      rewrite K, Z.sub_diag, rsum_greedy_0, radd_r0_r. reflexivity.
Qed.

(* calcPGMinResources, the amounts: with the tasks in visiting order l (= descending priority, see
   sort_prio_sorted) the result is Σ_t k_t × request_t where, if minAvailable is below the sum of the
   task minimums, k hands minAvailable to the tasks' REPLICAS in order; otherwise every task first gets
   its own minimum (in order, while something is left) and what remains goes to the replicas beyond
   the minimum, again in order *)
Theorem calc_min_resources_amount : forall l jobmin tm,
  Forall ptask_ok l -> 0 <= jobmin ->
  calc_min_resources_sorted jobmin l tm =
  if jobmin <? tm then rsum (greedy (map pt_replicas l) jobmin) l
  else let own := greedy (map own_min l) jobmin in
       radd (rsum own l) (rsum (greedy (map spare l) (jobmin - zsum own)) l).
Proof.
  intros l jobmin tm Hf Hj. unfold calc_min_resources_sorted. destruct (jobmin <? tm).
  - apply first_count_amount; auto.
  - destruct (own_mins jobmin 0 l) as [x c] eqn:Eo.
    destruct (own_mins_amount l jobmin 0 x c Hf Hj Eo) as [A B]. rewrite Z.sub_0_r in A, B. cbn zeta. rewrite <- A.
    assert (Hf2 : Forall (fun t => match pt_min t with Some m => 0 <= m | None => True end) l).
    { eapply Forall_impl; [|exact Hf]. intros t [_ H]. destruct (pt_min t); auto. lia. }
    destruct (own_mins_count l jobmin 0 x c Hf2 Hj Eo) as [Hc _].
    destruct (jobmin <=? c) eqn:E.
    + apply Z.leb_le in E. assert (jobmin - zsum (greedy (map own_min l) jobmin) = 0) by lia.
      rewrite H, rsum_greedy_0, radd_r0_r. reflexivity.
    + apply Z.leb_gt in E. rewrite fill_up_amount by (auto; lia). rewrite B. reflexivity.
Qed.

(* what greedy does: never more than the capacity, never negative, exactly n in total when it fits *)
Theorem greedy_spec : forall caps n,
  Forall (fun c => 0 <= c) caps -> 0 <= n ->
  Forall2 (fun c k => 0 <= k <= c) caps (greedy caps n) /\
  zsum (greedy caps n) = Z.min n (zsum caps).
Proof.
  induction caps as [|c caps IH]; intros n Hf Hn; cbn [greedy zsum fold_right].
  - split; [constructor|lia].
  - inversion Hf as [|? ? Hc Hf']; subst.
    destruct (IH (n - Z.max 0 (Z.min c n)) Hf' ltac:(lia)) as [A B]. split.
    + constructor; [lia|exact A].
    + fold (zsum (greedy caps (n - Z.max 0 (Z.min c n)))). fold (zsum caps). rewrite B.
      assert (0 <= zsum caps) by (clear - Hf'; induction Hf'; cbn; [lia|fold (zsum l); lia]). lia.
Qed.

(* ================= what the executable laws MEAN (soundness: law = true -> the clause as a Prop) ================= *)
Lemma inserts_perm : forall (A : Type) (x : A) l o, In o (inserts x l) -> Permutation o (x :: l).
Proof.
  induction l as [|y r IH]; intros o H; cbn [inserts] in H.
  - destruct H as [<-|[]]. apply Permutation_refl.
  - destruct H as [<-|H]; [apply Permutation_refl|].
    apply in_map_iff in H. destruct H as [o' [<- H]]. apply IH in H.
    eapply Permutation_trans; [apply perm_skip; exact H|apply perm_swap].
Qed.

Lemma perms_sound : forall (A : Type) (l o : list A), In o (perms l) -> Permutation o l.
Proof.
  induction l as [|x r IH]; intros o H; cbn [perms] in H.
  - destruct H as [<-|[]]. constructor.
  - apply in_flat_map in H. destruct H as [o' [H1 H2]]. apply inserts_perm in H2.
    eapply Permutation_trans; [exact H2|apply perm_skip, IH, H1].
Qed.

Lemma res_eqb_eq : forall a b, res_eqb a b = true -> a = b.
Proof.
  intros [a1 a2 a3] [b1 b2 b3] H. unfold res_eqb in H. cbn in H.
  apply andb_true_iff in H. destruct H as [H H3]. apply andb_true_iff in H. destruct H as [H1 H2].
  apply Z.eqb_eq in H1, H2, H3. congruence.
Qed.

(* law 206 accepts a minResources value only if it is the value calcPGMinResources computes for SOME
   visiting order of the job's tasks that is a permutation of them in descending priority; and then
   (tasks well formed) it is the amount of the independent specification: Σ k_t × request_t with k the
   greedy hand-out of calc_min_resources_amount *)
Theorem law_minres_sound : forall sp xs got,
  law_minres sp xs got = true ->
  exists o, Permutation o (ptasks sp xs) /\ desc_prio o = true /\
            got = calc_min_resources_sorted (s_min sp) o (total_min (ptasks sp xs)).
Proof.
  intros sp xs got H. unfold law_minres in H. cbv zeta in H. apply andb_true_iff in H. destruct H as [H _].
  apply existsb_exists in H. destruct H as [o [Ho He]]. apply filter_In in Ho. destruct Ho as [Ho Hd].
  exists o. split; [apply perms_sound; exact Ho|]. split; [exact Hd|apply res_eqb_eq; exact He].
Qed.

Theorem law_minres_amount : forall sp xs got,
  Forall ptask_ok (ptasks sp xs) -> 0 <= s_min sp ->
  law_minres sp xs got = true ->
  exists o, Permutation o (ptasks sp xs) /\ desc_prio o = true /\
    got = if s_min sp <? total_min (ptasks sp xs) then rsum (greedy (map pt_replicas o) (s_min sp)) o
          else let own := greedy (map own_min o) (s_min sp) in
               radd (rsum own o) (rsum (greedy (map spare o) (s_min sp - zsum own)) o).
Proof.
  intros sp xs got Hf Hj H. destruct (law_minres_sound sp xs got H) as [o [Hp [Hd He]]].
  exists o. split; [exact Hp|]. split; [exact Hd|]. rewrite He. apply calc_min_resources_amount; [|exact Hj].
  eapply Permutation_Forall; [apply Permutation_sym; exact Hp|exact Hf].
Qed.

(* law 211: the k-th pod observed is the pod of the k-th index of this task *)
Theorem law_created_pods_sound : forall ver retry t x idxs got,
  law_created_pods ver retry t x idxs got = true ->
  Forall2 (fun i p => pf_task p = t_name t /\ pf_lbl_task p = t_name t /\ pf_idx p = i /\ pf_lbl_idx p = i /\
                      pf_version p = ver /\ pf_retry p = retry /\
                      pf_user_lbl p = Z.max 0 (x_cpu x) /\ pf_user_ann p = Z.max 0 (x_mem x)) idxs got.
Proof.
  intros ver retry t x. induction idxs as [|i idxs IH]; intros [|p got] H; cbn [law_created_pods] in H; try discriminate.
  - constructor.
  - repeat (apply andb_true_iff in H; let H' := fresh "H" in destruct H as [H H']).
    constructor; [|apply IH; assumption].
    repeat match goal with
    | h : Pos.eqb _ _ = true |- _ => apply Pos.eqb_eq in h
    | h : Z.eqb _ _ = true |- _ => apply Z.eqb_eq in h
    end. auto 10.
Qed.

(* law 204 (markers parsed from the Go pod): every conjunct of the clause *)
Theorem law_markers_sound : forall t i ver retry cpu mem m,
  law_markers t i ver retry cpu mem m = true ->
  m_task m = Zpos t /\ m_idx m = i /\ m_lbl_task m = Zpos t /\ m_lbl_idx m = i /\
  m_version m = ver /\ m_retry m = retry /\
  m_owner m = true /\ m_group m = true /\ m_jobname m = true /\ m_queue m = true /\ m_jobid m = true /\
  m_user_lbl m = Z.max 0 cpu /\ m_user_ann m = Z.max 0 mem /\ m_shape m = true.
Proof.
  intros t i ver retry cpu mem m H. unfold law_markers in H.
  repeat (apply andb_true_iff in H; let H' := fresh "H" in destruct H as [H H']).
  repeat match goal with h : Z.eqb _ _ = true |- _ => apply Z.eqb_eq in h end. auto 20.
Qed.

(* law 205: a PodGroup the law accepts mirrors the spec in every field the text names
   (minResources: up to the order of equal priorities, see law_minres_sound) *)
Theorem law_pg_sound : forall sp xs jp q g,
  law_pg sp xs jp q g = true ->
  g_minmember g = s_min sp /\ g_prio g = jp /\ q = true /\
  (forall t, In t (s_tasks sp) -> tm_get (t_name t) (g_taskmin g) = Some (min_task_member t)) /\
  law_minres_stable sp xs (g_res g) = true.
Proof.
  intros sp xs jp q g H. unfold law_pg in H.
  repeat (apply andb_true_iff in H; let H' := fresh "H" in destruct H as [H H']).
  apply Z.eqb_eq in H, H2. rewrite forallb_forall in H3.
  repeat split; auto.
  intros t Ht. specialize (H3 t Ht). destruct (tm_get (t_name t) (g_taskmin g)); [|discriminate].
  apply Z.eqb_eq in H3. congruence.
Qed.

(* the amount specification on a concrete job: tasks a (3 replicas, min 1, 100m/64Mi) and b (2 replicas,
   250m), minAvailable 4: a's own minimum (1), then 3 more in order: 2 of a, 1 of b *)
Example minres_amount_example :
  let l := [mkPT (mkTask 1 3 (Some 1) [] None) 100 64 10; mkPT (mkTask 2 2 None [] None) 250 0 20] in
  Forall ptask_ok l /\ greedy (map own_min l) 4 = [1; 0] /\ greedy (map spare l) (4 - 1) = [2; 1] /\
  calc_min_resources_sorted 4 l (total_min l) = radd (rsum [1; 0] l) (rsum [2; 1] l) /\
  radd (rsum [1; 0] l) (rsum [2; 1] l) = mkR 4 (3 * 100 + 1 * 250) (3 * 64).
Proof.
  cbv zeta. split; [repeat constructor; cbn; lia|]. vm_compute. auto.
Qed.

(* selector 6 compares the Go pods with the fields READ from the model's pod objects; those are the
   numeric record of the earlier rounds (so the correspondence now runs on the map-level model) *)
Theorem read_fields_make_pod : forall ver retry (tk : task) x i,
  read_fields (make_pod (mkJob 1 1 1 1 ver retry) (t_name tk) i (tmpl (x_mem x)) (tmpl (x_cpu x))) =
  create_job_pod ver retry tk x i.
Proof.
  intros ver retry tk x i. unfold create_job_pod, tmpl.
  destruct (0 <? x_mem x) eqn:Em; destruct (0 <? x_cpu x) eqn:Ec;
    [apply Z.ltb_lt in Em, Ec|apply Z.ltb_lt in Em; apply Z.ltb_ge in Ec|apply Z.ltb_ge in Em; apply Z.ltb_lt in Ec|
     apply Z.ltb_ge in Em, Ec];
    cbv -[Z.max x_cpu x_mem t_name]; f_equal; lia.
Qed.

Theorem task_pod_objs_fields : forall ver retry tk x idxs,
  map read_fields (task_pod_objs ver retry tk x idxs) = create_task_pods ver retry tk x idxs.
Proof.
  intros. unfold task_pod_objs, build_pods, create_task_pods. rewrite map_map.
  apply map_ext. intros i. apply read_fields_make_pod.
Qed.

(* and every one of them is the pod of its own (task, index) in the sense of is_pod_of *)
Theorem task_pod_objs_own : forall ver retry tk x idxs,
  Forall2 (fun i p => is_pod_of (mkJob 1 1 1 1 ver retry) (t_name tk) i (tmpl (x_mem x)) (tmpl (x_cpu x)) p)
          idxs (task_pod_objs ver retry tk x idxs).
Proof. intros. apply build_pods_own. Qed.

(* a STALE lister copy (audit W3): whatever the lister shows and whatever the API server holds, a call
   that writes and returns OK leaves a PodGroup that mirrors the spec (every mirrored field is recomputed
   from the spec; only entries of vanished tasks are inherited from the copy that was read) *)
Theorem pg_written_mirrors : forall g api sp xs jp api',
  NoDup (map t_name (s_tasks sp)) -> pg_update g sp xs jp <> g ->
  create_or_update_pg (Some g) api sp xs jp false = (api', false) ->
  exists g', api' = Some g' /\ pg_mirrors g' sp xs jp.
Proof.
  intros g api sp xs jp api' Hnd Hne H. unfold create_or_update_pg in H.
  destruct (pg_eq_dec (pg_update g sp xs jp) g) as [E|_]; [contradiction|].
  destruct api; [|discriminate]. inversion H; subst. eexists; split; [reflexivity|].
  apply (podgroup_mirrors_spec sp xs jp Hnd).
Qed.

(* non-vacuity of crash_restart_retry, and why it needs the API server's PodGroup: the same crash with a
   lister PodGroup (Running) that is ahead of the API server's (Pending): after the restart the retried
   sync succeeds and creates / deletes nothing (the reviewer's counterexample to reading the pass-level
   theorem as a statement about the retry) *)
Example crash_restart_retry_example :
  let st := mkStatus PhRunning 0 0 2 c0 0 [] false false in
  let w := init_world ex_spec st ex_pods (Some PgRunning) in
  let wbad := mkWorld ex_spec ex_spec st st ex_pods ex_pods (Some PgPending) (Some PgRunning) (init_ctl true) in
  (exists w1 w3 wr3, sync_job w URunningSync [FCreate 1 0; FDelete 1 2] = (w1, true, false) /\
     st_phase (w_st w1) <> PhNone /\
     sync_job (run w1 [ORestart; OSyncPods; OSyncJob; OSyncPg]) URunningSync [] = (w3, false, wr3) /\
     w_pods w3 = pass true ex_spec ex_pods) /\
  (exists w1 w3 wr3, sync_job wbad URunningSync [FCreate 1 0; FDelete 1 2] = (w1, true, false) /\
     sync_job (run w1 [ORestart; OSyncPods; OSyncJob; OSyncPg]) URunningSync [] = (w3, false, wr3) /\
     w_pods w3 = w_pods w1 /\ w_pods w3 <> pass true ex_spec ex_pods).
Proof.
  cbv zeta. split.
  - do 3 eexists. split; [vm_compute; reflexivity|]. split; [vm_compute; discriminate|].
    split; vm_compute; reflexivity.
  - do 3 eexists. split; [vm_compute; reflexivity|]. split; [vm_compute; reflexivity|].
    split; [vm_compute; reflexivity|vm_compute; discriminate].
Qed.

(* the executable guard of law 206 gives the hypothesis of the amount theorems (second audit N5) *)
Lemma well_formed_ptask_ok : forall sp xs, well_formed sp = true -> Forall ptask_ok (ptasks sp xs).
Proof.
  intros sp xs H. unfold well_formed in H. apply andb_true_iff in H. destruct H as [H _].
  apply andb_true_iff in H. destruct H as [H _]. rewrite forallb_forall in H.
  unfold ptasks. apply Forall_forall. intros p Hp. apply in_map_iff in Hp. destruct Hp as ([t x] & <- & Hin).
  apply in_combine_l in Hin. specialize (H t Hin). apply andb_true_iff in H. destruct H as [H1 H2].
  unfold ptask_ok, pt_replicas, pt_min. cbn. apply Z.leb_le in H1. split; [exact H1|].
  destruct (t_min t); [|exact I]. apply andb_true_iff in H2. destruct H2 as [A B].
  apply Z.leb_le in A, B. lia.
Qed.

Theorem law_minres_amount_wf : forall sp xs got,
  well_formed sp = true -> law_minres sp xs got = true ->
  exists o, Permutation o (ptasks sp xs) /\ desc_prio o = true /\
    got = if s_min sp <? total_min (ptasks sp xs) then rsum (greedy (map pt_replicas o) (s_min sp)) o
          else let own := greedy (map own_min o) (s_min sp) in
               radd (rsum own o) (rsum (greedy (map spare o) (s_min sp - zsum own)) o).
Proof.
  intros sp xs got Hw H. apply law_minres_amount; auto; [apply well_formed_ptask_ok; exact Hw|].
  unfold well_formed in Hw. apply andb_true_iff in Hw. destruct Hw as [Hw _].
  apply andb_true_iff in Hw. destruct Hw as [_ Hw]. apply Z.leb_le in Hw. exact Hw.
Qed.

(* ---------- ties are visited in spec order (round 6: TasksPriority.Less breaking ties by name) ---------- *)
Definition same_prio (p : Z) (t : ptask) : bool := pt_prio t =? p.

Lemma desc_prio_head : forall y r, desc_prio (y :: r) = true -> Forall (fun t => pt_prio t <= pt_prio y) r.
Proof.
  intros y r. revert y. induction r as [|z r IH]; intros y H; [constructor|].
  rewrite desc_prio_cons2 in H. apply andb_true_iff in H. destruct H as [H1 H2]. apply Z.leb_le in H1.
  constructor; [exact H1|]. eapply Forall_impl; [|apply IH; exact H2]. cbn. intros; lia.
Qed.

Lemma desc_prio_tail : forall y r, desc_prio (y :: r) = true -> desc_prio r = true.
Proof. intros y [|z r] H; [reflexivity|]. rewrite desc_prio_cons2 in H. apply andb_true_iff in H. tauto. Qed.

(* insertion puts a task AFTER every task of the same priority already there *)
Lemma ins_prio_stable : forall p x l, desc_prio l = true ->
  filter (same_prio p) (ins_prio x l) = filter (same_prio p) l ++ (if same_prio p x then [x] else []).
Proof.
  intros p x. induction l as [|y r IH]; intros Hd; [cbn; destruct (same_prio p x); reflexivity|].
  cbn [ins_prio]. destruct (pt_prio y <? pt_prio x) eqn:E.
  - apply Z.ltb_lt in E.
    assert (C : filter (same_prio p) (x :: y :: r) =
                if same_prio p x then x :: filter (same_prio p) (y :: r) else filter (same_prio p) (y :: r)) by reflexivity.
    rewrite C. clear C. destruct (same_prio p x) eqn:Ex; [|rewrite app_nil_r; reflexivity].
    unfold same_prio in Ex. apply Z.eqb_eq in Ex.
    assert (N : filter (same_prio p) (y :: r) = []).
    { pose proof (desc_prio_head _ _ Hd) as Hh.
      assert (A : Forall (fun t => pt_prio t <= pt_prio y) (y :: r)) by (constructor; [lia|exact Hh]).
      clear - A E Ex. induction A as [|z l Hz _ IHl]; [reflexivity|].
      cbn [filter]. unfold same_prio at 1. replace (pt_prio z =? p) with false by (symmetry; apply Z.eqb_neq; lia).
      exact IHl. }
    rewrite N. reflexivity.
  - cbn [filter]. rewrite (IH (desc_prio_tail _ _ Hd)). destruct (same_prio p y); reflexivity.
Qed.

Theorem sort_prio_stable : forall l p, filter (same_prio p) (sort_prio l) = filter (same_prio p) l.
Proof.
  intros l p. unfold sort_prio.
  assert (G : forall l acc, desc_prio acc = true ->
            filter (same_prio p) (fold_left (fun acc x => ins_prio x acc) l acc) =
            filter (same_prio p) acc ++ filter (same_prio p) l).
  { induction l0 as [|x l0 IH]; intros acc Hacc; cbn [fold_left filter]; [rewrite app_nil_r; reflexivity|].
    rewrite (IH _ (ins_prio_desc x acc Hacc)), (ins_prio_stable p x acc Hacc), <- app_assoc.
    destruct (same_prio p x); reflexivity. }
  rewrite (G l [] eq_refl). reflexivity.
Qed.

(* law 212 MEANS: fewer than 12 tasks => the value is the amount over THE descending-priority order that
   keeps tasks of equal priority in spec order *)
Theorem law_minres_stable_sound : forall sp xs got,
  law_minres_stable sp xs got = true -> (length (s_tasks sp) < 12)%nat ->
  let l := ptasks sp xs in let o := sort_prio l in
  got = calc_min_resources_sorted (s_min sp) o (total_min l) /\
  desc_prio o = true /\ Permutation o l /\ forall p, filter (same_prio p) o = filter (same_prio p) l.
Proof.
  intros sp xs got H Hlen l o. unfold law_minres_stable in H. apply andb_true_iff in H. destruct H as [_ H].
  apply Nat.ltb_lt in Hlen. rewrite Hlen in H. apply res_eqb_eq in H.
  split; [exact H|]. destruct (sort_prio_sorted l) as [A B]. split; [exact A|]. split; [exact B|].
  intros p. apply sort_prio_stable.
Qed.

(* non-vacuity / the seeded mutant: tasks [worker(name 2); master(name 1)] of equal priority, different
   requests, minAvailable 1 below the sum of the minimums: spec order takes worker's request; an order
   by name would take master's, which the any-order law accepts and law 212 refuses *)
Example minres_stable_example :
  let sp := mkSpec [mkTask 2 2 None [] None; mkTask 1 2 None [] None] 1 None 3 [] in
  let xs := [mkExtra 100 64 1; mkExtra 250 0 1] in
  calc_min_resources sp xs = mkR 1 100 64 /\
  law_minres_stable sp xs (mkR 1 100 64) = true /\
  law_minres sp xs (mkR 1 250 0) = true /\ law_minres_stable sp xs (mkR 1 250 0) = false.
Proof. vm_compute. auto. Qed.

(* ---------- the resync worker (syncTask after a failed pod delete; round 8) ---------- *)
(* whatever the API server holds, with or without the pod disappearing between the worker's GET and its
   cache.UpdatePod: syncTask never ADDS a pod to the job cache (UpdatePod refuses a pod the cache does not
   hold), the job status and the API server's other pods are untouched.  STEP-LEVEL facts read off the
   definition of the op (third audit E18): not counted as a property theorem; the history-level consequence
   (after a raced resync and the following syncs the pod set is the spec's) is shown on one world only
   (resync_example) and checked on the real controller by laws 201 / 221 in the resync family *)
Theorem resync_adds_no_pod : forall w t i race w' e wr,
  step w (OResyncPod t i race) = (w', e, wr) ->
  incl (pod_ids (v_pods w')) (pod_ids (v_pods w)) /\ incl (pod_ids (w_pods w')) (pod_ids (w_pods w)) /\
  w_st w' = w_st w /\ v_st w' = v_st w /\ e = false /\ wr = false /\
  (find_pod t i (w_pods w') = None -> find_pod t i (w_pods w) = None \/ race = true).
Proof.
  intros w t i race w' e wr H. cbn [step] in H.
  assert (R : forall l, incl (pod_ids (remove_pod t i l)) (pod_ids l)).
  { intros l x Hx. unfold pod_ids, remove_pod in *. apply in_map_iff in Hx. destruct Hx as (p & <- & Hp).
    apply filter_In in Hp. apply in_map_iff. exists p. tauto. }
  destruct (find_pod t i (w_pods w)) eqn:E; [destruct race|]; inversion H; subst; clear H; cbn [v_pods w_pods w_st v_st];
    repeat split; auto using incl_refl.
  - unfold find_pod in E. apply find_some in E. destruct E as [_ E].
    assert (U : pod_ids (update_pod t i (fun _ => p) (v_pods w)) = pod_ids (v_pods w)).
    { unfold pod_ids, update_pod. rewrite map_map. apply map_ext_in. intros q _.
      destruct (same_id t i q) eqn:Q; [|reflexivity].
      unfold same_id in *. apply andb_true_iff in E, Q. destruct E as [E1 E2], Q as [Q1 Q2].
      apply Pos.eqb_eq in E1, Q1. apply Z.eqb_eq in E2, Q2. congruence. }
    rewrite U. apply incl_refl.
  - intros X. rewrite E in X. discriminate.
Qed.

Example resync_example :
  let st := mkStatus PhRunning 0 0 2 (mkC 0 2 0 0 0) 0 [] false false in
  let sp := mkSpec [mkTask 1 2 None [] None] 2 None 3 [] in
  let w := init_world sp st [mkPod 1 0 PRunning false false; mkPod 1 1 PRunning false true] (Some PgRunning) in
  (* the out-of-sync pod's DELETE is refused; the resync is raced by the pod's disappearance; after the
     deliveries the next sync re-creates index 1: one pod per replica index *)
  w_pods (run w [OReq (mkReq EOutOfSync None None None 0 0 1) [FDelete 1 1]; OResyncPod 1 1 true;
                 OSyncPods; OSyncPg; OSyncJob; OReq (mkReq EOutOfSync None None None 0 0 1) []]) =
  [mkPod 1 0 PRunning false false; mkPod 1 1 PPending false false].
Proof. vm_compute. reflexivity. Qed.

(* law 212 from the law's own guard (third audit E17): for a well-formed spec with fewer than 12 tasks the
   accepted value is the greedy amount over the stable descending-priority order *)
Theorem law_minres_stable_amount : forall sp xs got,
  well_formed sp = true -> law_minres_stable sp xs got = true -> (length (s_tasks sp) < 12)%nat ->
  let l := ptasks sp xs in let o := sort_prio l in
  got = (if s_min sp <? total_min l then rsum (greedy (map pt_replicas o) (s_min sp)) o
         else let own := greedy (map own_min o) (s_min sp) in
              radd (rsum own o) (rsum (greedy (map spare o) (s_min sp - zsum own)) o)) /\
  desc_prio o = true /\ Permutation o l /\ forall p, filter (same_prio p) o = filter (same_prio p) l.
Proof.
  intros sp xs got Hw H Hlen l o.
  destruct (law_minres_stable_sound sp xs got H Hlen) as (E & A & B & C). fold l o in E, A, B, C.
  split; [|auto]. rewrite E. apply calc_min_resources_amount.
  - eapply Permutation_Forall; [apply Permutation_sym; exact B|apply well_formed_ptask_ok; exact Hw].
  - unfold well_formed in Hw. apply andb_true_iff in Hw. destruct Hw as [Hw _].
    apply andb_true_iff in Hw. destruct Hw as [_ Hw]. apply Z.leb_le in Hw. exact Hw.
Qed.
