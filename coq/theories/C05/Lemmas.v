(* Proofs about the job-controller model (C05). *)
From Coq Require Import ZArith List Bool Lia.
From V Require Import C05.Model C05.Laws.
Import ListNotations.
Open Scope Z_scope.

(* ---------- finite domains ---------- *)
Lemma all_phases_complete : forall p, In p all_phases.
Proof. destruct p; simpl; tauto. Qed.
Lemma all_actions_complete : forall a, In a all_actions.
Proof. destruct a; simpl; tauto. Qed.

Lemma phase_beq_true : forall p q, phase_beq p q = true <-> p = q.
Proof. split; [apply internal_phase_dec_bl | apply internal_phase_dec_lb]. Qed.
Lemma phase_in_In : forall p l, phase_in p l = true <-> In p l.
Proof.
  unfold phase_in; intros; rewrite existsb_exists; split.
  - intros (x & Hx & E). apply phase_beq_true in E; subst; auto.
  - intros H; exists p; split; auto. apply phase_beq_true; auto.
Qed.

(* every property of the (phase, action) table is decided by enumeration *)
Lemma table_forall (P : phase -> action -> bool) :
  forallb (fun p => forallb (P p) all_actions) all_phases = true -> forall p a, P p a = true.
Proof.
  intros H p a. rewrite forallb_forall in H. specialize (H p (all_phases_complete p)).
  rewrite forallb_forall in H. apply H, all_actions_complete.
Qed.

(* ---------- status updates ---------- *)
Definition upd_targets (u : updfn) : list phase :=
  match u with
  | UNil => []
  | URestart => [PhRestarting]
  | UTo p => [p]
  | UPendingSync => [PhRunning]
  | URunningSync => [PhCompleted; PhFailed; PhPending]
  | URestarting => [PhFailed; PhPending]
  | UAlive p => [p]
  end.

Definition is_restart (u : updfn) : bool := match u with URestart => true | _ => false end.

Lemma running_sync_shape : forall sp s,
  running_sync sp s = s \/ exists p, In p [PhCompleted; PhFailed; PhPending] /\ running_sync sp s = set_phase s p.
Proof.
  intros sp s. unfold running_sync.
  repeat match goal with |- context [if ?c then _ else _] => destruct c end;
    auto; right; eexists; (split; [|reflexivity]); simpl; tauto.
Qed.

(* a status update touches only phase and retry count *)
Lemma apply_upd_shape : forall u sp s,
  apply_upd u sp s = s \/
  exists p, In p (upd_targets u) /\
            apply_upd u sp s = set_phase_retry s p (if is_restart u then st_retry s + 1 else st_retry s).
Proof.
  intros u sp s. destruct u; simpl.
  - left; reflexivity.
  - right. exists PhRestarting. split; [simpl; auto|reflexivity].
  - right. exists p. split; [simpl; auto|]. destruct s; reflexivity.
  - destruct (_ <=? _); [|left; reflexivity]. right. exists PhRunning. split; [simpl; auto|]. destruct s; reflexivity.
  - destruct (running_sync_shape sp s) as [E | (p & Hp & E)]; [left; exact E|].
    right. exists p. split; [exact Hp|exact E].
  - destruct (_ <=? _); [right; exists PhFailed; split; [simpl; auto| destruct s; reflexivity]|].
    destruct (_ <=? _); [|left; reflexivity]. right; exists PhPending; split; [simpl; auto| destruct s; reflexivity].
  - destruct (alive s); [left; reflexivity|]. right; exists p; split; [simpl; auto| destruct s; reflexivity].
Qed.

Lemma apply_upd_version : forall u sp s, st_version (apply_upd u sp s) = st_version s.
Proof. intros. destruct (apply_upd_shape u sp s) as [E | (p & _ & E)]; rewrite E; destruct s; reflexivity. Qed.
Lemma apply_upd_cnt : forall u sp s, st_cnt (apply_upd u sp s) = st_cnt s.
Proof. intros. destruct (apply_upd_shape u sp s) as [E | (p & _ & E)]; rewrite E; destruct s; reflexivity. Qed.
Lemma apply_upd_term : forall u sp s, st_term (apply_upd u sp s) = st_term s.
Proof. intros. destruct (apply_upd_shape u sp s) as [E | (p & _ & E)]; rewrite E; destruct s; reflexivity. Qed.
Lemma apply_upd_tsc : forall u sp s, st_tsc (apply_upd u sp s) = st_tsc s.
Proof. intros. destruct (apply_upd_shape u sp s) as [E | (p & _ & E)]; rewrite E; destruct s; reflexivity. Qed.

(* ---------- what one processed request can do to the job status ---------- *)

(* [moved sp u s s']: s' carries the phase / retry count of the update function
   applied to a status with the phase and retry count of s (Pending for a job
   that had no phase yet) *)
Definition start_phase (p : phase) : phase := match p with PhNone => PhPending | _ => p end.

Definition moved (sp : spec) (u : updfn) (s s' : status) : Prop :=
  exists b, st_retry b = st_retry s /\ (st_phase b = st_phase s \/ st_phase b = start_phase (st_phase s)) /\
            st_phase s' = st_phase (apply_upd u sp b) /\ st_retry s' = st_retry (apply_upd u sp b).

Definition kept_core (s s' : status) : Prop :=
  st_retry s' = st_retry s /\ (st_phase s' = st_phase s \/ st_phase s' = start_phase (st_phase s)).

Definition is_job_kill (k : kind) : bool := match k with KKill _ => true | _ => false end.

Record outcome (sp : spec) (k : kind) (u : updfn) (w w' : world) (e wr : bool) : Prop := {
  oc_version : st_version (v_st w') = st_version (v_st w) \/
               (is_job_kill k = true /\ st_version (v_st w') = st_version (v_st w) + 1);
  oc_core : kept_core (v_st w) (v_st w') \/ moved sp u (v_st w) (v_st w');
  oc_written : wr = true -> e = false -> moved sp u (v_st w) (v_st w') /\ w_st w' = v_st w';
  oc_api : w_st w' = w_st w \/ w_st w' = v_st w' \/
           (st_phase (v_st w) = PhNone /\ w_st w' = init_status sp (v_st w));
  oc_fault : e = true -> w_st w' = w_st w \/ (st_phase (v_st w) = PhNone /\ w_st w' = init_status sp (v_st w));
  oc_silent : wr = false -> w_st w' = w_st w;
  oc_spec : w_spec w' = w_spec w;
  (* the API server's phase follows the cache's (no status reaches the cache without reaching the API server) *)
  oc_agree : st_phase (w_st w) = st_phase (v_st w) -> st_phase (w_st w') = st_phase (v_st w')
}.

Lemma kept_core_refl : forall s, kept_core s s.
Proof. intros; split; auto. Qed.

Lemma outcome_noop : forall sp k u w, outcome sp k u w w false false.
Proof. intros. constructor; auto using kept_core_refl; try discriminate. Qed.

Ltac crush_moved b :=
  exists b; cbn; repeat split; auto.

Lemma kill_pods_outcome : forall fixed w rt tg u F w' e wr,
  kill_pods_gen fixed w rt tg u F = (w', e, wr) ->
  outcome (v_spec w) (match tg with None => KKill rt | Some _ => KTarget end) u w w' e wr.
Proof.
  intros fixed w rt tg u F w' e wr H. unfold kill_pods_gen in H.
  destruct (c_vdel (v_ctl w)); [inversion H; subst; apply outcome_noop|].
  destruct tg as [[t|t p|]|].
  all: try (destruct (kill_select _ _ _ _ _) as [kill term0] eqn:Hsel;
            destruct (any_fault F kill); [inversion H; subst; clear H|
            destruct (fails_status F 0); [inversion H; subst; clear H|]]).
  all: try (inversion H; subst; clear H).
  all: try solve [constructor; cbn; auto using kept_core_refl; try discriminate;
                  try (left; split; auto; fail)].
  (* successful writes *)
  all: try match goal with
       | |- outcome _ _ _ _ (match ?g with Some _ => _ | None => _ end) _ _ => destruct g
       end.
  all: constructor; cbn; auto; try discriminate.
  all: try (right; split; [reflexivity|]; rewrite apply_upd_version; reflexivity).
  all: try (left; rewrite apply_upd_version; reflexivity).
  all: try (intros _ _; split; [|reflexivity]).
  all: try (right;
      match goal with |- moved _ ?u ?s _ =>
        match goal with |- context [apply_upd u ?sp ?b] => exists b; cbn; repeat split; auto end end).
  all: try match goal with |- moved _ ?u ?s _ =>
        match goal with |- context [apply_upd u ?sp ?b] => exists b; cbn; repeat split; auto end end.
Qed.

(* projections of the world constructors *)
Lemma pj_ensure_pg : forall w,
  v_st (ensure_pg w) = v_st w /\ w_st (ensure_pg w) = w_st w /\ v_spec (ensure_pg w) = v_spec w /\
  w_spec (ensure_pg w) = w_spec w /\ w_pods (ensure_pg w) = w_pods w /\ v_pods (ensure_pg w) = v_pods w /\
  v_pg (ensure_pg w) = v_pg w.
Proof. intros w. unfold ensure_pg. destruct (v_pg w) eqn:E1, (w_pg w) eqn:E2; cbn; rewrite ?E1; repeat split; reflexivity. Qed.
Lemma pj1 w : v_st (ensure_pg w) = v_st w. Proof. apply pj_ensure_pg. Qed.
Lemma pj2 w : w_st (ensure_pg w) = w_st w. Proof. apply pj_ensure_pg. Qed.
Lemma pj3 w : v_spec (ensure_pg w) = v_spec w. Proof. apply pj_ensure_pg. Qed.
Lemma pj4 w : w_spec (ensure_pg w) = w_spec w. Proof. apply pj_ensure_pg. Qed.
Lemma pj5 w : w_pods (ensure_pg w) = w_pods w. Proof. apply pj_ensure_pg. Qed.
Lemma pj6 w : v_pods (ensure_pg w) = v_pods w. Proof. apply pj_ensure_pg. Qed.
Lemma pj7 w : v_pg (ensure_pg w) = v_pg w. Proof. apply pj_ensure_pg. Qed.
Global Hint Rewrite pj1 pj2 pj3 pj4 pj5 pj6 pj7 : proj.
Global Opaque ensure_pg.

Ltac fin := cbn [v_st w_st v_spec w_spec w_pods v_pods w_pg v_pg set_st set_wpods set_wpg write leak is_job_kill] in *;
            autorewrite with proj in *;
            cbn [v_st w_st v_spec w_spec w_pods v_pods w_pg v_pg set_st set_wpods set_wpg write leak is_job_kill] in *.

Lemma sync_job_outcome : forall w u F w' e wr,
  sync_job w u F = (w', e, wr) -> outcome (v_spec w) KSync u w w' e wr.
Proof.
  intros w u F w' e wr H. unfold sync_job, sync_job_gen in H.
  destruct (c_vdel (v_ctl w)); [inversion H; subst; apply outcome_noop|].
  destruct (c_queue (v_ctl w)); cbn [negb] in H;
    [|inversion H; subst; constructor; auto using kept_core_refl; discriminate].
  remember (phase_beq (st_phase (v_st w)) PhNone) as init eqn:Hinit.
  assert (Hph : init = true -> st_phase (v_st w) = PhNone).
  { intros ->. symmetry in Hinit. apply phase_beq_true in Hinit. exact Hinit. }
  assert (Hstart : init = false -> start_phase (st_phase (v_st w)) = st_phase (v_st w)).
  { intros ->. destruct (st_phase (v_st w)); try reflexivity. discriminate. }
  destruct init; cbn [andb negb] in H.
  - (* first reconciliation of a job without a phase *)
    specialize (Hph eq_refl).
    destruct (fails_status F 0); [inversion H; subst; constructor; cbn; auto using kept_core_refl; discriminate|].
    set (js := mkStatus PhPending (st_retry (v_st w)) (st_version (v_st w)) (s_min (v_spec w)) (st_cnt (v_st w))
                        (st_term (v_st w)) (st_tsc (v_st w)) (st_tsc_nil (v_st w)) (st_rundur (v_st w))) in *.
    assert (Hjs : js = init_status (v_spec w) (v_st w)) by reflexivity.
    assert (Hk : kept_core (v_st w) js).
    { split; cbn; auto. right. rewrite Hph. reflexivity. }
    match type of H with context [negb (pg_admitted ?g)] => destruct (pg_admitted g) end; cbn [negb] in H.
    + match type of H with context [sync_pods ?a ?b ?c ?d] => remember (sync_pods a b c d) as acc end.
      destruct (a_err acc).
      { inversion H; subst; clear H. constructor; fin; auto; try discriminate. }
      match type of H with context [apply_upd u ?sp ?b] => set (ns := b) in * end.
      assert (Hm : moved (v_spec w) u (v_st w) (apply_upd u (v_spec w) ns)).
      { exists ns. cbn. repeat split; auto. right. rewrite Hph. reflexivity. }
      destruct (status_eq_dec js (apply_upd u (v_spec w) ns)) as [Heq|Hne].
      { inversion H; subst; clear H. constructor; fin; auto; try discriminate.
        intros _ _; split; auto. rewrite Heq; exact Hm. }
      destruct (fails_status F 1).
      { inversion H; subst; clear H. constructor; fin; auto; try discriminate;
        try (rewrite apply_upd_version; auto). }
      inversion H; subst; clear H. constructor; fin; auto; try discriminate.
      rewrite apply_upd_version; auto.
    + match type of H with context [apply_upd u ?sp ?b] => set (jc := b) in * end.
      assert (Hm : moved (v_spec w) u (v_st w) (apply_upd u (v_spec w) jc)).
      { exists jc. cbn. repeat split; auto. right. rewrite Hph. reflexivity. }
      match type of H with context [status_eq_dec ?a ?b] => destruct (status_eq_dec a b) as [Heq|Hne] end.
      { assert (Hm' : moved (v_spec w) u (v_st w) js).
        { exists jc. split; [reflexivity|]. split; [right; rewrite Hph; reflexivity|].
          split; symmetry; [exact (f_equal st_phase Heq)|exact (f_equal st_retry Heq)]. }
        inversion H; subst; clear H. constructor; fin; auto; try discriminate. }
      destruct (fails_status F 1).
      { inversion H; subst; clear H. constructor; fin; auto; try discriminate;
        try (rewrite apply_upd_version; auto). }
      inversion H; subst; clear H. constructor; fin; auto; try discriminate.
      rewrite apply_upd_version; auto.
  - (* the job already has a phase *)
    specialize (Hstart eq_refl).
    match type of H with context [negb (pg_admitted ?g)] => destruct (pg_admitted g) end; cbn [negb] in H.
    + match type of H with context [sync_pods ?a ?b ?c ?d] => remember (sync_pods a b c d) as acc end.
      destruct (a_err acc).
      { inversion H; subst; clear H. constructor; fin; auto using kept_core_refl; try discriminate. }
      match type of H with context [apply_upd u ?sp ?b] => set (ns := b) in * end.
      assert (Hm : moved (v_spec w) u (v_st w) (apply_upd u (v_spec w) ns)).
      { exists ns. cbn. repeat split; auto. }
      destruct (status_eq_dec (v_st w) (apply_upd u (v_spec w) ns)) as [Heq|Hne].
      { inversion H; subst; clear H. constructor; fin; auto using kept_core_refl; try discriminate. }
      destruct (fails_status F 0).
      { inversion H; subst; clear H. constructor; fin; auto using kept_core_refl; try discriminate. }
      inversion H; subst; clear H. constructor; fin; auto; try discriminate.
      rewrite apply_upd_version; auto.
    + match type of H with context [apply_upd u ?sp ?b] => set (jc := b) in * end.
      assert (Hm : moved (v_spec w) u (v_st w) (apply_upd u (v_spec w) jc)).
      { exists jc. repeat split; auto. }
      match type of H with context [status_eq_dec ?a ?b] => destruct (status_eq_dec a b) as [Heq|Hne] end.
      { inversion H; subst; clear H. constructor; fin; auto using kept_core_refl; try discriminate. }
      destruct (fails_status F 0).
      { inversion H; subst; clear H. constructor; fin; auto using kept_core_refl; try discriminate. }
      inversion H; subst; clear H. constructor; fin; auto; try discriminate.
      rewrite apply_upd_version; auto.
Qed.

(* [acted w a w' e wr]: w' results from executing action a (state.NewState(job).Execute) on w,
   or from doing nothing; everything below follows from this alone *)
Definition acted (w : world) (a : action) (w' : world) (e wr : bool) : Prop :=
  outcome (v_spec w) (fst (exec (st_phase (v_st w)) a)) (snd (exec (st_phase (v_st w)) a)) w w' e wr.

Lemma execute_outcome : forall w a r F w' e wr, execute w a r F = (w', e, wr) -> acted w a w' e wr.
Proof.
  intros w a r F w' e wr H. unfold execute in H. unfold acted.
  destruct (exec (st_phase (v_st w)) a) as [k u]. cbn [fst snd].
  destruct k.
  - apply (sync_job_outcome w u F); exact H.
  - apply (kill_pods_outcome true w r0 None u F); exact H.
  - apply (kill_pods_outcome true w RNone (Some (target_of a r)) u F); exact H.
Qed.

(* the delayed-action bookkeeping is invisible to the job status *)
Lemma outcome_delays : forall sp k u w w' e wr d d',
  outcome sp k u w w' e wr -> outcome sp k u (with_delays w d) (with_delays w' d') e wr.
Proof. intros sp k u w w' e wr d d' O. destruct O. constructor; cbn; assumption. Qed.
Lemma outcome_delays_l : forall sp k u w w' e wr d,
  outcome sp k u (with_delays w d) w' e wr -> outcome sp k u w w' e wr.
Proof. intros sp k u w w' e wr d O. destruct O. constructor; cbn in *; assumption. Qed.
Lemma outcome_delays_r : forall sp k u w w' e wr d,
  outcome sp k u w w' e wr -> outcome sp k u w (with_delays w' d) e wr.
Proof. intros sp k u w w' e wr d O. destruct O. constructor; cbn in *; assumption. Qed.
Lemma outcome_noop_d : forall sp k u w d, outcome sp k u w (with_delays w d) false false.
Proof. intros. apply outcome_delays_r. apply outcome_noop. Qed.

Lemma step_req_outcome : forall w r F w' e wr,
  step_req w r F = (w', e, wr) -> acted w (apply_policies (v_spec w) (v_st w) r) w' e wr.
Proof.
  intros w r F w' e wr H. unfold step_req in H. unfold acted, apply_policies.
  set (w0 := with_delays w (clean_pod_delay (c_delay (v_ctl w)) r)) in *.
  change (v_spec w0) with (v_spec w) in H. change (v_st w0) with (v_st w) in H.
  destruct (c_job (v_ctl w0)); cbn [negb] in H; [|inversion H; subst; apply outcome_noop_d].
  destruct (apply_policies_d (v_spec w) (v_st w) r) as [a delayed]. cbn [fst].
  destruct delayed.
  - inversion H; subst. apply outcome_delays_r. apply outcome_noop_d.
  - destruct (execute w0 a r F) as [[w1 e1] wr1] eqn:Hx.
    pose proof (execute_outcome _ _ _ _ _ _ _ Hx) as O. unfold acted in O.
    change (v_spec w0) with (v_spec w) in O. change (v_st w0) with (v_st w) in O.
    apply outcome_delays_l in O.
    destruct (negb e1 && negb (is_internal_action a)); inversion H; subst; auto.
    apply outcome_delays_r. exact O.
Qed.

(* a timer that expires executes its action like a request, against the state as it is now *)
Lemma fire_outcome : forall w w' e wr,
  fire w = (w', e, wr) -> exists a e0, acted w a w' e0 wr.
Proof.
  intros w w' e wr H. unfold fire in H.
  destruct (d_queue (c_delay (v_ctl w))) as [|[t cancelled] rest].
  - inversion H; subst. exists ASync, false. apply outcome_noop.
  - set (w0 := with_delays w _) in *.
    destruct cancelled; [inversion H; subst; exists ASync, false; apply outcome_noop_d|].
    destruct (c_job (v_ctl w0)); cbn [negb] in H; [|inversion H; subst; exists ASync, false; apply outcome_noop_d].
    destruct (execute w0 (dt_action t) _ []) as [[w1 e1] wr1] eqn:Hx.
    pose proof (execute_outcome _ _ _ _ _ _ _ Hx) as O. unfold acted in O.
    change (v_spec w0) with (v_spec w) in O. change (v_st w0) with (v_st w) in O.
    apply outcome_delays_l in O. inversion H; subst.
    exists (dt_action t), e1. apply outcome_delays_r. exact O.
Qed.

(* ---------- facts about the (phase, action) table, by enumeration ---------- *)
Definition tbl_targets_allowed (p : phase) (a : action) : bool :=
  forallb (fun q => phase_in q (allowed p)) (upd_targets (snd (exec p a))) &&
  phase_in p (allowed p) && phase_in (start_phase p) (allowed p) &&
  forallb (fun q => phase_in q (allowed p)) (upd_targets (snd (exec (start_phase p) a))).
Lemma tbl_targets_allowed_ok : forall p a, tbl_targets_allowed p a = true.
Proof. apply table_forall. vm_compute. reflexivity. Qed.

Lemma exec_start : forall p a, exec (start_phase p) a = exec p a.
Proof. destruct p; reflexivity. Qed.

(* an update function is applied to a status in the phase the table was indexed with *)
Lemma moved_phase : forall sp u s s',
  moved sp u s s' ->
  st_phase s' = st_phase s \/ st_phase s' = start_phase (st_phase s) \/ In (st_phase s') (upd_targets u).
Proof.
  intros sp u s s' (b & Hr & Hp & Hp' & Hr').
  destruct (apply_upd_shape u sp b) as [E | (p & Hin & E)]; rewrite E in Hp'.
  - destruct Hp as [Hp|Hp]; rewrite Hp in Hp'; auto.
  - right; right. rewrite Hp'. destruct b; cbn. exact Hin.
Qed.

Lemma moved_retry : forall sp u s s',
  moved sp u s s' ->
  st_retry s' = st_retry s \/ (u = URestart /\ st_retry s' = st_retry s + 1 /\ st_phase s' = PhRestarting).
Proof.
  intros sp u s s' (b & Hr & Hp & Hp' & Hr').
  destruct (apply_upd_shape u sp b) as [E | (p & Hin & E)]; rewrite E in Hp', Hr'.
  - left; congruence.
  - destruct u; cbn in *; try (left; destruct b; cbn in *; congruence).
    right. destruct Hin as [<-|[]]. destruct b; cbn in *. repeat split; congruence.
Qed.

(* ---------- T1: the phase moves only along the transition relation ---------- *)
(* ---------- the requeue budget (handleJobError): what a processed request is, error path included ---------- *)
(* the only execution that fails AFTER a status write: the first sync of a job (initJobStatus wrote) *)
Lemma execute_err_wrote : forall w a r F w',
  execute w a r F = (w', true, true) ->
  st_phase (v_st w) = PhNone /\ w_st w' = init_status (v_spec w) (v_st w) /\ v_st w' = w_st w'.
Proof.
  intros w a r F w' H. unfold execute in H.
  destruct (exec (st_phase (v_st w)) a) as [[|rt|] u].
  - unfold sync_job, sync_job_gen in H.
    destruct (c_vdel (v_ctl w)); [discriminate|].
    destruct (c_queue (v_ctl w)); cbn [negb] in H; [|discriminate].
    destruct (phase_beq (st_phase (v_st w)) PhNone) eqn:Hp; cbn [andb] in H.
    + apply internal_phase_dec_bl in Hp.
      destruct (fails_status F 0); [discriminate|]. cbv zeta in H.
      repeat match type of H with context [if ?c then _ else _] => destruct c end;
        inversion H; subst; cbn [leak set_wpods v_st w_st v_spec]; autorewrite with proj; cbn; auto.
    + cbv zeta in H.
      repeat match type of H with context [if ?c then _ else _] => destruct c end; discriminate.
  - unfold kill_pods, kill_pods_gen in H. destruct (c_vdel (v_ctl w)); [discriminate|].
    destruct (kill_select _ _ _ _ _) as [kill term0]. destruct (any_fault F kill); [discriminate|].
    destruct (fails_status F 0); [discriminate|]. destruct (v_pg w); discriminate.
  - unfold kill_pods, kill_pods_gen in H. destruct (c_vdel (v_ctl w)); [discriminate|].
    destruct (target_of a r) as [t|t p|]; try discriminate;
      destruct (kill_select _ _ _ _ _) as [kill term0]; destruct (any_fault F kill); try discriminate;
      destruct (fails_status F 0); discriminate.
Qed.

(* TerminateJob is a kill in every state, and a kill that wrote its status did not fail *)
Lemma exec_terminate_kill : forall p, exists rt u, exec p ATerminate = (KKill rt, u).
Proof. destruct p; cbn; eauto. Qed.

Lemma execute_terminate_wrote : forall w r F w' e,
  execute w ATerminate r F = (w', e, true) -> e = false.
Proof.
  intros w r F w' e H. unfold execute in H.
  destruct (exec_terminate_kill (st_phase (v_st w))) as (rt & u & E). rewrite E in H.
  unfold kill_pods, kill_pods_gen in H. destruct (c_vdel (v_ctl w)); [discriminate|].
  destruct (kill_select _ _ _ _ _) as [kill term0]. destruct (any_fault F kill); [discriminate|].
  destruct (fails_status F 0); [discriminate|]. destruct (v_pg w); inversion H; reflexivity.
Qed.

Lemma step_req_failed : forall w r F w1 wr,
  step_req w r F = (w1, true, wr) ->
  execute (with_delays w (clean_pod_delay (c_delay (v_ctl w)) r)) (apply_policies (v_spec w) (v_st w) r) r F = (w1, true, wr).
Proof.
  intros w r F w1 wr H. unfold step_req in H. unfold apply_policies.
  set (w0 := with_delays w (clean_pod_delay (c_delay (v_ctl w)) r)) in *.
  change (v_spec w0) with (v_spec w) in H. change (v_st w0) with (v_st w) in H.
  destruct (c_job (v_ctl w0)); cbn [negb] in H; [|discriminate].
  destruct (apply_policies_d (v_spec w) (v_st w) r) as [a delayed]. cbn [fst].
  destruct delayed; [discriminate|].
  destruct (execute w0 a r F) as [[w1' e1] wr1].
  destruct e1; cbn [negb andb] in H; [exact H|].
  destruct (negb (is_internal_action a)); discriminate.
Qed.

Lemma step_req_err_wrote : forall w r F w1,
  step_req w r F = (w1, true, true) ->
  st_phase (v_st w) = PhNone /\ w_st w1 = init_status (v_spec w) (v_st w) /\ v_st w1 = w_st w1.
Proof. intros w r F w1 H. apply step_req_failed in H. apply execute_err_wrote in H. exact H. Qed.

(* a processed request: either processNextReq without a give-up (the requeue counters aside), or a
   failed Execute followed by TerminateJob executed by the state object built before it *)
Inductive reqb_result (w : world) (r : req) (F : list fault) (w' : world) (e wr : bool) : Prop :=
| RB_plain : forall w1 q,
    step_req w r F = (w1, e, wr) -> w' = set_rq w1 q -> reqb_result w r F w' e wr
| RB_giveup : forall w1 wr1 w2 e2 wr2 q,
    step_req w r F = (w1, true, wr1) ->
    execute (giveup_world w w1 wr1 (apply_policies (v_spec w) (v_st w) r) r F) ATerminate r (giveup_faults F) = (w2, e2, wr2) ->
    w' = set_rq (with_vpods (if wr1 && negb wr2 then keep_view w1 w2 else w2) (v_pods w1)) q ->
    e = true -> wr = wr1 || wr2 -> reqb_result w r F w' e wr.

Lemma step_reqb_cases : forall w r F w' e wr,
  step_reqb w r F = (w', e, wr) -> reqb_result w r F w' e wr.
Proof.
  intros w r F w' e wr H. unfold step_reqb in H.
  destruct (step_req w r F) as [[w1 e1] wr1] eqn:Hs.
  destruct e1; cbn [negb] in H.
  - destruct ((q_max (c_rq (v_ctl w)) =? -1) || (rq_get r (q_cnt (c_rq (v_ctl w))) <? q_max (c_rq (v_ctl w)))).
    + inversion H; subst. eapply RB_plain; [exact Hs|reflexivity].
    + unfold give_up in H.
      destruct (execute _ ATerminate r (giveup_faults F)) as [[w2 e2] wr2] eqn:Hx.
      inversion H; subst. eapply RB_giveup; eauto.
  - inversion H; subst. eapply RB_plain; [exact Hs|reflexivity].
Qed.

(* the bookkeeping worlds differ from the plain ones only in what the status theorems never read *)
Lemma outcome_set_rq : forall sp k u w w' e wr q,
  outcome sp k u w w' e wr -> outcome sp k u w (set_rq w' q) e wr.
Proof. intros sp k u w w' e wr q O. destruct O. constructor; cbn in *; assumption. Qed.
Lemma outcome_vpods_l : forall sp k u w w' e wr l,
  outcome sp k u (with_vpods w l) w' e wr -> outcome sp k u w w' e wr.
Proof. intros sp k u w w' e wr l O. destruct O. constructor; cbn in *; assumption. Qed.

Lemma phase_transition_allowed_gen : forall w a w' e wr,
  acted w a w' e wr -> In (st_phase (v_st w')) (allowed (st_phase (v_st w))).
Proof.
  intros w a w' e wr O. unfold acted in O.
  set (p := st_phase (v_st w)) in *.
  pose proof (tbl_targets_allowed_ok p a) as T. unfold tbl_targets_allowed in T.
  repeat rewrite andb_true_iff in T. destruct T as (((T1 & T2) & T3) & T4).
  rewrite forallb_forall in T1.
  assert (Hk : forall s', kept_core (v_st w) s' -> In (st_phase s') (allowed p)).
  { intros s' (_ & [E|E]); rewrite E; apply phase_in_In; assumption. }
  destruct (oc_core _ _ _ _ _ _ _ O) as [K|M]; [apply Hk; exact K|].
  destruct (moved_phase _ _ _ _ M) as [E|[E|E]].
  - rewrite E. apply phase_in_In; exact T2.
  - rewrite E. apply phase_in_In; exact T3.
  - apply phase_in_In. apply T1. exact E.
Qed.

(* ---------- T3: Aborted is left only by a resume ---------- *)
Definition tbl_aborted (p : phase) (a : action) : bool :=
  match p with
  | PhAborted => if action_beq a AResume then true
                 else match upd_targets (snd (exec p a)) with [] => true | _ => false end
  | _ => true
  end.
Lemma tbl_aborted_ok : forall p a, tbl_aborted p a = true.
Proof. apply table_forall. vm_compute. reflexivity. Qed.

Lemma aborted_left_only_by_resume_gen : forall w a w' e wr,
  acted w a w' e wr ->
  st_phase (v_st w) = PhAborted -> st_phase (v_st w') <> PhAborted ->
  a = AResume /\ st_phase (v_st w') = PhRestarting.
Proof.
  intros w a w' e wr O Hab Hne. unfold acted in O.
  rewrite Hab in O.
  pose proof (tbl_aborted_ok PhAborted a) as T. cbn [tbl_aborted] in T.
  destruct (action_beq a AResume) eqn:Ea.
  - apply internal_action_dec_bl in Ea. split; auto. rewrite Ea in O. cbn in O.
    destruct (oc_core _ _ _ _ _ _ _ O) as [(_ & [E|E])|M]; try (rewrite Hab in E; cbn in E; congruence).
    destruct (moved_phase _ _ _ _ M) as [E|[E|E]]; try (rewrite Hab in E; cbn in E; congruence).
    cbn in E. destruct E as [E|[]]. auto.
  - exfalso. destruct (upd_targets (snd (exec PhAborted a))) eqn:Et; [|discriminate].
    destruct (oc_core _ _ _ _ _ _ _ O) as [(_ & [E|E])|M]; try (rewrite Hab in E; cbn in E; congruence).
    destruct (moved_phase _ _ _ _ M) as [E|[E|E]]; try (rewrite Hab in E; cbn in E; congruence).
    rewrite Et in E. destruct E.
Qed.

(* ---------- T4: the retry count moves by +1, exactly when entering Restarting ---------- *)
Definition tbl_restart (p : phase) (a : action) : bool :=
  let u := snd (exec p a) in
  (* only URestart leads into Restarting from another phase, and it is never used in Restarting *)
  (if phase_in PhRestarting (upd_targets u) then is_restart u || phase_beq p PhRestarting else true) &&
  (if is_restart u then negb (phase_beq p PhRestarting) else true).
Lemma tbl_restart_ok : forall p a, tbl_restart p a = true.
Proof. apply table_forall. vm_compute. reflexivity. Qed.

Lemma retry_increments_once_gen : forall w a w' e wr,
  acted w a w' e wr ->
  let s := v_st w in let s' := v_st w' in
  (st_retry s' = st_retry s \/
   (st_retry s' = st_retry s + 1 /\ st_phase s' = PhRestarting /\ st_phase s <> PhRestarting)) /\
  (st_phase s <> PhRestarting -> st_phase s' = PhRestarting -> st_retry s' = st_retry s + 1).
Proof.
  intros w a w' e wr O s s'. subst s s'. unfold acted in O.
  pose proof (tbl_restart_ok (st_phase (v_st w)) a) as T. unfold tbl_restart in T.
  apply andb_true_iff in T. destruct T as [T1 T2].
  set (u := snd (exec (st_phase (v_st w)) a)) in *.
  destruct (oc_core _ _ _ _ _ _ _ O) as [(Kr & Kp)|M].
  - split; [left; exact Kr|]. intros Hne Hre. exfalso.
    destruct Kp as [E|E]; rewrite Hre in E.
    + congruence.
    + destruct (st_phase (v_st w)); cbn in E; congruence.
  - split.
    + destruct (moved_retry _ _ _ _ M) as [E|(Eu & Er & Ep)]; [left; exact E|].
      right. repeat split; auto. rewrite Eu in T2. cbn in T2.
      intro Hc. rewrite Hc in T2. discriminate.
    + intros Hne Hre. destruct (moved_retry _ _ _ _ M) as [E|(Eu & Er & Ep)]; [|exact Er].
      exfalso. destruct (moved_phase _ _ _ _ M) as [Ep|[Ep|Ep]].
      * congruence.
      * rewrite Hre in Ep. destruct (st_phase (v_st w)); cbn in Ep; congruence.
      * rewrite Hre in Ep. apply phase_in_In in Ep. rewrite Ep in T1.
        apply orb_true_iff in T1. destruct T1 as [T1|T1].
        -- destruct M as (b & Hr & Hp & Hp' & Hr').
           destruct u; try discriminate. cbn in Hr'. lia.
        -- apply phase_beq_true in T1. congruence.
Qed.

(* ---------- T5: maxRetry reached => Failed, never restarted again ---------- *)
Lemma exec_restarting : forall a, snd (exec PhRestarting a) = URestarting.
Proof. destruct a; reflexivity. Qed.

Lemma maxretry_fails_gen : forall w a w' e wr,
  acted w a w' e wr ->
  st_phase (v_st w) = PhRestarting -> s_maxretry (v_spec w) <= st_retry (v_st w) ->
  (st_phase (v_st w') = PhRestarting \/ st_phase (v_st w') = PhFailed) /\
  (wr = true -> e = false -> st_phase (v_st w') = PhFailed /\ st_phase (w_st w') = PhFailed).
Proof.
  intros w a w' e wr O Hre Hmax. unfold acted in O.
  rewrite Hre, exec_restarting in O.
  assert (HM : forall s', moved (v_spec w) URestarting (v_st w) s' -> st_phase s' = PhFailed).
  { intros s' (b & Hr & Hp & Hp' & Hr'). rewrite Hp'. cbn.
    assert (E : (s_maxretry (v_spec w) <=? st_retry b) = true) by (apply Z.leb_le; lia).
    rewrite E. destruct b; reflexivity. }
  split.
  - destruct (oc_core _ _ _ _ _ _ _ O) as [(_ & [E|E])|M].
    + left; congruence.
    + left. rewrite E, Hre. reflexivity.
    + right. apply HM; exact M.
  - intros Hw He. destruct (oc_written _ _ _ _ _ _ _ O Hw He) as [M Eq].
    split; [apply HM; exact M|]. rewrite Eq. apply HM; exact M.
Qed.

(* ---------- the same facts for a processed request and for an expiring delayed action ---------- *)
Theorem phase_transition_allowed : forall w r F w' e wr,
  step_req w r F = (w', e, wr) -> In (st_phase (v_st w')) (allowed (st_phase (v_st w))).
Proof. intros. eapply phase_transition_allowed_gen. eapply step_req_outcome; eauto. Qed.
Theorem phase_transition_allowed_fire : forall w w' e wr,
  fire w = (w', e, wr) -> In (st_phase (v_st w')) (allowed (st_phase (v_st w))).
Proof. intros w w' e wr H. destruct (fire_outcome _ _ _ _ H) as (a & e0 & O). eapply phase_transition_allowed_gen; eauto. Qed.

Theorem aborted_left_only_by_resume : forall w r F w' e wr,
  step_req w r F = (w', e, wr) ->
  st_phase (v_st w) = PhAborted -> st_phase (v_st w') <> PhAborted ->
  apply_policies (v_spec w) (v_st w) r = AResume /\ st_phase (v_st w') = PhRestarting.
Proof. intros. eapply aborted_left_only_by_resume_gen; eauto. eapply step_req_outcome; eauto. Qed.
(* a timer leaves Aborted only if the armed policy action was ResumeJob *)
Theorem aborted_left_only_by_resume_fire : forall w w' e wr,
  fire w = (w', e, wr) ->
  st_phase (v_st w) = PhAborted -> st_phase (v_st w') <> PhAborted ->
  st_phase (v_st w') = PhRestarting /\
  exists t c rest, d_queue (c_delay (v_ctl w)) = (t, c) :: rest /\ dt_action t = AResume.
Proof.
  intros w w' e wr H Hab Hne. unfold fire in H.
  destruct (d_queue (c_delay (v_ctl w))) as [|[t cancelled] rest] eqn:Eq.
  - inversion H; subst. contradiction.
  - set (w0 := with_delays w _) in *.
    destruct cancelled; [inversion H; subst; cbn in Hne; contradiction|].
    destruct (c_job (v_ctl w0)); cbn [negb] in H; [|inversion H; subst; cbn in Hne; contradiction].
    destruct (execute w0 (dt_action t) _ []) as [[w1 e1] wr1] eqn:Hx.
    pose proof (execute_outcome _ _ _ _ _ _ _ Hx) as O. inversion H; subst.
    destruct (aborted_left_only_by_resume_gen w0 (dt_action t) w1 e1 wr O Hab Hne) as [A B].
    split; [exact B|]. exists t, false, rest. auto.
Qed.

Theorem retry_increments_once : forall w r F w' e wr,
  step_req w r F = (w', e, wr) ->
  let s := v_st w in let s' := v_st w' in
  (st_retry s' = st_retry s \/
   (st_retry s' = st_retry s + 1 /\ st_phase s' = PhRestarting /\ st_phase s <> PhRestarting)) /\
  (st_phase s <> PhRestarting -> st_phase s' = PhRestarting -> st_retry s' = st_retry s + 1).
Proof. intros w r F w' e wr H. eapply retry_increments_once_gen. eapply step_req_outcome; eauto. Qed.
Theorem retry_increments_once_fire : forall w w' e wr,
  fire w = (w', e, wr) ->
  let s := v_st w in let s' := v_st w' in
  (st_retry s' = st_retry s \/
   (st_retry s' = st_retry s + 1 /\ st_phase s' = PhRestarting /\ st_phase s <> PhRestarting)) /\
  (st_phase s <> PhRestarting -> st_phase s' = PhRestarting -> st_retry s' = st_retry s + 1).
Proof. intros w w' e wr H. destruct (fire_outcome _ _ _ _ H) as (a & e0 & O). eapply retry_increments_once_gen; eauto. Qed.

Theorem maxretry_fails : forall w r F w' e wr,
  step_req w r F = (w', e, wr) ->
  st_phase (v_st w) = PhRestarting -> s_maxretry (v_spec w) <= st_retry (v_st w) ->
  (st_phase (v_st w') = PhRestarting \/ st_phase (v_st w') = PhFailed) /\
  (wr = true -> e = false -> st_phase (v_st w') = PhFailed /\ st_phase (w_st w') = PhFailed).
Proof. intros. eapply maxretry_fails_gen; eauto. eapply step_req_outcome; eauto. Qed.
Theorem maxretry_fails_fire : forall w w' e wr,
  fire w = (w', e, wr) ->
  st_phase (v_st w) = PhRestarting -> s_maxretry (v_spec w) <= st_retry (v_st w) ->
  st_phase (v_st w') = PhRestarting \/ st_phase (v_st w') = PhFailed.
Proof.
  intros w w' e wr H Hre Hmax. destruct (fire_outcome _ _ _ _ H) as (a & e0 & O).
  apply (maxretry_fails_gen w a w' e0 wr O Hre Hmax).
Qed.

(* ---------- T7: a request of an older job version is answered by a sync ---------- *)
Theorem stale_request_syncs : forall sp st r,
  r_action r = None -> r_version r < st_version st -> apply_policies sp st r = ASync.
Proof.
  intros sp st r Ha Hv. unfold apply_policies, apply_policies_d. rewrite Ha.
  destruct (is_internal_event (r_event r)); auto. destruct (r_uid r =? 0); auto.
  assert (E : (r_version r <? st_version st) = true) by (apply Z.ltb_lt; exact Hv). rewrite E. reflexivity.
Qed.

Theorem explicit_action_wins : forall sp st r a, r_action r = Some a -> apply_policies sp st r = a.
Proof. intros. unfold apply_policies, apply_policies_d. rewrite H. reflexivity. Qed.

(* ---------- T9: a failed reconciliation leaves no partial status on the API server ---------- *)
Theorem api_fault_no_partial_status : forall w r F w' wr,
  step_req w r F = (w', true, wr) ->
  w_st w' = w_st w \/ (st_phase (v_st w) = PhNone /\ w_st w' = init_status (v_spec w) (v_st w)).
Proof.
  intros w r F w' wr H. pose proof (step_req_outcome _ _ _ _ _ _ H) as O. unfold acted in O.
  apply (oc_fault _ _ _ _ _ _ _ O). reflexivity.
Qed.

Theorem api_status_is_cache_status_or_old : forall w r F w' e wr,
  step_req w r F = (w', e, wr) ->
  w_st w' = w_st w \/ w_st w' = v_st w' \/ (st_phase (v_st w) = PhNone /\ w_st w' = init_status (v_spec w) (v_st w)).
Proof.
  intros w r F w' e wr H. pose proof (step_req_outcome _ _ _ _ _ _ H) as O. unfold acted in O.
  apply (oc_api _ _ _ _ _ _ _ O).
Qed.

(* ---------- T6: versions ---------- *)
Lemma version_step_gen : forall w a w' e wr,
  acted w a w' e wr -> st_version (v_st w) <= st_version (v_st w') <= st_version (v_st w) + 1.
Proof.
  intros w a w' e wr O. unfold acted in O.
  destruct (oc_version _ _ _ _ _ _ _ O) as [E|[_ E]]; rewrite E; lia.
Qed.
Theorem version_step : forall w r F w' e wr,
  step_req w r F = (w', e, wr) ->
  st_version (v_st w) <= st_version (v_st w') <= st_version (v_st w) + 1.
Proof. intros. eapply version_step_gen. eapply step_req_outcome; eauto. Qed.

(* ---------- pods are never created by a kill ---------- *)
Lemma pod_ids_update : forall t i f l,
  (forall p, p_task (f p) = p_task p /\ p_idx (f p) = p_idx p) ->
  pod_ids (update_pod t i f l) = pod_ids l.
Proof.
  intros t i f l Hf. unfold pod_ids, update_pod. rewrite map_map. apply map_ext.
  intros p. destruct (same_id t i p); auto. destruct (Hf p) as [-> ->]. reflexivity.
Qed.
Lemma pod_ids_api_delete : forall t i l, pod_ids (api_delete t i l) = pod_ids l.
Proof. intros. apply pod_ids_update. intros p; split; reflexivity. Qed.
Lemma pod_ids_api_patch : forall t i l, pod_ids (api_patch_oos t i l) = pod_ids l.
Proof. intros. apply pod_ids_update. intros p; split; reflexivity. Qed.

Lemma kill_effects_ids : forall F kill api, pod_ids (kill_effects F kill api) = pod_ids api.
Proof.
  intros F kill. unfold kill_effects. induction kill as [|p kill IH]; intros api; cbn [fold_left]; auto.
  rewrite IH. destruct (fails_patch F (p_task p) (p_idx p)); auto.
  destruct (p_del p || fails_delete F (p_task p) (p_idx p)).
  - apply pod_ids_api_patch.
  - rewrite pod_ids_api_delete. apply pod_ids_api_patch.
Qed.

Lemma kill_pods_ids : forall fixed w rt tg u F w' e wr,
  kill_pods_gen fixed w rt tg u F = (w', e, wr) -> pod_ids (w_pods w') = pod_ids (w_pods w).
Proof.
  intros fixed w rt tg u F w' e wr H. unfold kill_pods_gen in H.
  destruct (c_vdel (v_ctl w)); [inversion H; reflexivity|].
  destruct tg as [[t|t p|]|].
  all: try (destruct (kill_select _ _ _ _ _) as [kill term0] eqn:Hsel;
            destruct (any_fault F kill); [inversion H; subst; clear H|
            destruct (fails_status F 0); [inversion H; subst; clear H|]]).
  all: try (inversion H; subst; clear H).
  all: try match goal with |- context [match ?g with Some _ => _ | None => _ end] => destruct g end.
  all: cbn; auto using kill_effects_ids.
Qed.

(* the written status of every successful kill: all five phase counters are zero
   and the per-task table is empty, whatever pods were retained (defect F2) *)
Theorem kill_zeroes_counters : forall w rt tg u F w',
  kill_pods_prefix w rt tg u F = (w', false, true) ->
  st_cnt (w_st w') = c0 /\ st_tsc (w_st w') = [].
Proof.
  intros w rt tg u F w' H. unfold kill_pods_prefix, kill_pods_gen in H.
  destruct (c_vdel (v_ctl w)); [inversion H|].
  destruct tg as [[t|t p|]|].
  all: try (destruct (kill_select _ _ _ _ _) as [kill term0] eqn:Hsel;
            destruct (any_fault F kill); [inversion H|
            destruct (fails_status F 0); [inversion H|]]).
  all: try (inversion H; subst; clear H).
  all: try match goal with |- context [match ?g with Some _ => _ | None => _ end] => destruct g end.
  all: cbn; rewrite apply_upd_cnt, apply_upd_tsc; cbn; auto.
Qed.

(* ---------- T2: final phases are absorbing, over every history ---------- *)
Definition final_inv (w : world) : Prop :=
  is_final (st_phase (v_st w)) = true /\ st_phase (w_st w) = st_phase (v_st w).

Lemma exec_final : forall p a, is_final p = true -> exec p a = (KKill RSoft, UNil).
Proof. destruct p; cbn; intros; try discriminate; reflexivity. Qed.

(* a job deleted and re-created under the same name is a new job *)
Definition same_job (o : op) : Prop := match o with OReplaceJob _ => False | _ => True end.

Lemma execute_final_ids : forall w a r F w' e wr,
  is_final (st_phase (v_st w)) = true -> execute w a r F = (w', e, wr) -> pod_ids (w_pods w') = pod_ids (w_pods w).
Proof.
  intros w a r F w' e wr Hf H. unfold execute in H. rewrite (exec_final _ _ Hf) in H.
  apply (kill_pods_ids true _ _ _ _ _ _ _ _ H).
Qed.

Lemma step_req_final_ids : forall w r F w' e wr,
  is_final (st_phase (v_st w)) = true -> step_req w r F = (w', e, wr) -> pod_ids (w_pods w') = pod_ids (w_pods w).
Proof.
  intros w r F w' e wr Hf H. unfold step_req in H.
  set (w0 := with_delays w (clean_pod_delay (c_delay (v_ctl w)) r)) in *.
  destruct (c_job (v_ctl w0)); cbn [negb] in H; [|inversion H; reflexivity].
  destruct (apply_policies_d (v_spec w0) (v_st w0) r) as [a delayed].
  destruct delayed; [inversion H; reflexivity|].
  destruct (execute w0 a r F) as [[w1 e1] wr1] eqn:Hx.
  pose proof (execute_final_ids w0 a r F w1 e1 wr1 Hf Hx) as E. cbn in E.
  destruct (negb e1 && negb (is_internal_action a)); inversion H; subst; cbn; exact E.
Qed.

Lemma fire_final_ids : forall w w' e wr,
  is_final (st_phase (v_st w)) = true -> fire w = (w', e, wr) -> pod_ids (w_pods w') = pod_ids (w_pods w).
Proof.
  intros w w' e wr Hf H. unfold fire in H.
  destruct (d_queue (c_delay (v_ctl w))) as [|[t cancelled] rest]; [inversion H; reflexivity|].
  set (w0 := with_delays w _) in *.
  destruct cancelled; [inversion H; reflexivity|].
  destruct (c_job (v_ctl w0)); cbn [negb] in H; [|inversion H; reflexivity].
  destruct (execute w0 (dt_action t) _ []) as [[w1 e1] wr1] eqn:Hx.
  pose proof (execute_final_ids w0 _ _ _ w1 e1 wr1 Hf Hx) as E. cbn in E.
  inversion H; subst; cbn; exact E.
Qed.

(* an action executed in a final phase keeps the phase, on both sides *)
Lemma acted_final : forall w a w' e wr,
  final_inv w -> acted w a w' e wr -> final_inv w' /\ st_phase (v_st w') = st_phase (v_st w).
Proof.
  intros w a w' e wr [Hf He] O. unfold acted in O. rewrite (exec_final _ a Hf) in O. cbn [fst snd] in O.
  assert (Hp : st_phase (v_st w') = st_phase (v_st w)).
  { assert (Hs : start_phase (st_phase (v_st w)) = st_phase (v_st w))
      by (destruct (st_phase (v_st w)); try discriminate; reflexivity).
    destruct (oc_core _ _ _ _ _ _ _ O) as [(_ & [E|E])|(b & _ & Hb & Hb' & _)]; try congruence.
    cbn in Hb'. destruct Hb; congruence. }
  split; auto. split; [congruence|].
  destruct (oc_api _ _ _ _ _ _ _ O) as [E|[E|[E _]]]; try congruence.
  rewrite E in Hf. discriminate.
Qed.

Lemma final_step : forall w o w' e wr,
  final_inv w -> same_job o -> step w o = (w', e, wr) ->
  final_inv w' /\ st_phase (v_st w') = st_phase (v_st w) /\
  incl (pod_ids (w_pods w')) (pod_ids (w_pods w)).
Proof.
  intros w o w' e wr Hinv Hsj H. pose proof Hinv as [Hf He]. destruct o; cbn in H.
  - (* a request, with its error path *)
    destruct (step_reqb_cases _ _ _ _ _ _ H) as [w1 q Hs ->|w1 wr1 w2 e2 wr2 q Hs Hx -> _ _].
    + destruct (acted_final _ _ _ _ _ Hinv (step_req_outcome _ _ _ _ _ _ Hs)) as [A B].
      unfold final_inv in *. cbn [set_rq v_st w_st w_pods].
      repeat split; try apply A; auto. rewrite (step_req_final_ids _ _ _ _ _ _ Hf Hs). apply incl_refl.
    + (* the controller gives up: TerminateJob through the state of the final phase changes nothing *)
      destruct wr1.
      { destruct (step_req_err_wrote _ _ _ _ Hs) as [Hn _]. rewrite Hn in Hf. discriminate. }
      destruct (acted_final _ _ _ _ _ Hinv (step_req_outcome _ _ _ _ _ _ Hs)) as [A B].
      pose proof (execute_outcome _ _ _ _ _ _ _ Hx) as O2.
      assert (Ag : final_inv (giveup_world w w1 false (apply_policies (v_spec w) (v_st w) r) r F)) by exact A.
      destruct (acted_final _ _ _ _ _ Ag O2) as [A2 B2].
      assert (Hf1 : is_final (st_phase (v_st (giveup_world w w1 false (apply_policies (v_spec w) (v_st w) r) r F))) = true)
        by apply A.
      pose proof (execute_final_ids _ _ _ _ _ _ _ Hf1 Hx) as I2.
      cbn [andb]. unfold final_inv in *. cbn [set_rq with_vpods v_st w_st w_pods].
      cbn [giveup_world with_vpods v_st w_st w_pods] in B2, I2.
      repeat split; try apply A2; try congruence.
      rewrite I2, (step_req_final_ids _ _ _ _ _ _ Hf Hs). apply incl_refl.
  - inversion H; subst; clear H. cbn. repeat split; auto.
    rewrite pod_ids_update; [apply incl_refl|intros p; split; reflexivity].
  - inversion H; subst; clear H. cbn. repeat split; auto. rewrite pod_ids_api_delete. apply incl_refl.
  - inversion H; subst; clear H. cbn. repeat split; auto.
    unfold pod_ids, remove_pod. intros x Hx. apply in_map_iff in Hx. destruct Hx as (p & <- & Hp).
    apply filter_In in Hp. apply in_map_iff. exists p. tauto.
  - inversion H; subst; clear H. destruct (w_pg w); cbn; repeat split; auto using incl_refl.
  - destruct (c_job (v_ctl w) && negb (c_dirty (v_ctl w))); inversion H; subst; clear H;
      unfold final_inv; cbn; rewrite ?He; repeat split; auto using incl_refl.
  - inversion H; subst; clear H. cbn. repeat split; auto using incl_refl.
  - inversion H; subst; clear H. cbn. repeat split; auto using incl_refl.
  - inversion H; subst; clear H. cbn. repeat split; auto using incl_refl.
  - inversion H; subst; clear H. cbn. repeat split; auto using incl_refl.
  - destruct Hsj.
  - inversion H; subst; clear H. cbn. repeat split; auto using incl_refl.
  - inversion H; subst; clear H. cbn. repeat split; auto using incl_refl.
  - (* a delayed action expires *)
    destruct (fire_outcome _ _ _ _ H) as (a & e0 & O).
    destruct (acted_final _ _ _ _ _ Hinv O) as [A B].
    repeat split; try apply A; auto. rewrite (fire_final_ids _ _ _ _ Hf H). apply incl_refl.
  - (* the resync worker: pods only disappear *)
    assert (R : forall t0 i0 l, incl (pod_ids (remove_pod t0 i0 l)) (pod_ids l)).
    { intros t0 i0 l x Hx. unfold pod_ids, remove_pod in *. apply in_map_iff in Hx. destruct Hx as (p & <- & Hp).
      apply filter_In in Hp. apply in_map_iff. exists p. tauto. }
    destruct (find_pod t i (w_pods w)); [destruct race|]; inversion H; subst; clear H; cbn; repeat split; auto using incl_refl.
Qed.

Lemma run_cons : forall w o ops, run w (o :: ops) = run (fst (fst (step w o))) ops.
Proof. reflexivity. Qed.

Theorem final_phases_absorbing : forall ops w,
  Forall same_job ops ->
  is_final (st_phase (v_st w)) = true -> st_phase (w_st w) = st_phase (v_st w) ->
  let w' := run w ops in
  st_phase (v_st w') = st_phase (v_st w) /\ st_phase (w_st w') = st_phase (v_st w) /\
  incl (pod_ids (w_pods w')) (pod_ids (w_pods w)).
Proof.
  induction ops as [|o ops IH]; intros w Hsj Hf He.
  - cbn. repeat split; auto using incl_refl.
  - inversion Hsj as [|? ? Ho Hsj']; subst.
    cbv zeta. rewrite run_cons. destruct (step w o) as [[w1 e] wr] eqn:Hs. cbn [fst].
    destruct (final_step w o w1 e wr (conj Hf He) Ho Hs) as ([Hf1 He1] & Hp & Hi).
    destruct (IH w1 Hsj' Hf1 He1) as (A & B & C). repeat split; try congruence.
    eapply incl_tran; eauto.
Qed.

(* ---------- T6: the version on the API server never goes back, over every history ---------- *)
Definition ver_inv (w : world) : Prop := st_version (w_st w) <= st_version (v_st w).

Lemma acted_ver : forall w a w' e wr,
  st_version (w_st w) <= st_version (v_st w) -> acted w a w' e wr ->
  st_version (w_st w') <= st_version (v_st w') /\ st_version (w_st w) <= st_version (w_st w').
Proof.
  intros w a w' e wr Hi O. pose proof (version_step_gen _ _ _ _ _ O) as V. unfold acted in O.
  destruct (oc_api _ _ _ _ _ _ _ O) as [E|[E|[_ E]]]; rewrite E; cbn; lia.
Qed.

Lemma ver_step : forall w o w' e wr,
  ver_inv w -> same_job o -> step w o = (w', e, wr) -> ver_inv w' /\ st_version (w_st w) <= st_version (w_st w').
Proof.
  intros w o w' e wr Hi Hsj H. unfold ver_inv in *. destruct o; cbn in H.
  - destruct (step_reqb_cases _ _ _ _ _ _ H) as [w1 q Hs ->|w1 wr1 w2 e2 wr2 q Hs Hx -> _ _].
    + exact (acted_ver _ _ _ _ _ Hi (step_req_outcome _ _ _ _ _ _ Hs)).
    + (* the controller gives up *)
      destruct (acted_ver _ _ _ _ _ Hi (step_req_outcome _ _ _ _ _ _ Hs)) as [A B].
      pose proof (execute_outcome _ _ _ _ _ _ _ Hx) as O2.
      destruct wr1.
      * destruct (step_req_err_wrote _ _ _ _ Hs) as (Hn & Hw & Hv).
        assert (Hg : st_version (w_st (giveup_world w w1 true (apply_policies (v_spec w) (v_st w) r) r F)) <=
                     st_version (v_st (giveup_world w w1 true (apply_policies (v_spec w) (v_st w) r) r F))).
        { cbn [giveup_world with_vpods stale_view v_st w_st]. rewrite Hw. cbn. lia. }
        destruct (acted_ver _ _ _ _ _ Hg O2) as [A2 B2].
        cbn [giveup_world with_vpods stale_view v_st w_st] in B2.
        destruct wr2; cbn [andb negb set_rq with_vpods keep_view v_st w_st].
        -- split; [exact A2|]. rewrite Hw in B2. cbn in B2. lia.
        -- unfold acted in O2. rewrite (oc_silent _ _ _ _ _ _ _ O2 eq_refl).
           cbn [giveup_world with_vpods stale_view v_st w_st]. split; lia.
      * assert (Ag : st_version (w_st (giveup_world w w1 false (apply_policies (v_spec w) (v_st w) r) r F)) <=
                     st_version (v_st (giveup_world w w1 false (apply_policies (v_spec w) (v_st w) r) r F))) by exact A.
        destruct (acted_ver _ _ _ _ _ Ag O2) as [A2 B2].
        cbn [andb set_rq with_vpods v_st w_st]. cbn [giveup_world with_vpods v_st w_st] in B2. split; [exact A2|lia].
  - inversion H; subst; cbn; lia.
  - inversion H; subst; cbn; lia.
  - inversion H; subst; cbn; lia.
  - inversion H; subst; destruct (w_pg w); cbn; lia.
  - destruct (c_job (v_ctl w) && negb (c_dirty (v_ctl w))); inversion H; subst; cbn; lia.
  - inversion H; subst; cbn; lia.
  - inversion H; subst; cbn; lia.
  - inversion H; subst; cbn; lia.
  - inversion H; subst; cbn; lia.
  - destruct Hsj.
  - inversion H; subst; cbn; lia.
  - inversion H; subst; cbn; lia.
  - destruct (fire_outcome _ _ _ _ H) as (a & e0 & O).
    pose proof (version_step_gen _ _ _ _ _ O) as V. unfold acted in O.
    destruct (oc_api _ _ _ _ _ _ _ O) as [E|[E|[_ E]]]; rewrite E; cbn; lia.
  - destruct (find_pod t i (w_pods w)); [destruct race|]; inversion H; subst; cbn; lia.
Qed.

Theorem version_monotone : forall ops w,
  Forall same_job ops ->
  st_version (w_st w) <= st_version (v_st w) ->
  st_version (w_st w) <= st_version (w_st (run w ops)) /\
  st_version (w_st (run w ops)) <= st_version (v_st (run w ops)).
Proof.
  induction ops as [|o ops IH]; intros w Hsj Hi.
  - cbn. split; [lia|exact Hi].
  - inversion Hsj as [|? ? Ho Hsj']; subst.
    rewrite run_cons. destruct (step w o) as [[w1 e] wr] eqn:Hs. cbn [fst].
    destruct (ver_step w o w1 e wr Hi Ho Hs) as [Hi1 Hle].
    destruct (IH w1 Hsj' Hi1) as [A B]. split; [lia|exact B].
Qed.

(* ---------- T8: counters partition -- refuted on the faithful model ---------- *)
Definition fresh_world (w : world) : Prop :=
  v_pods w = w_pods w /\ v_st w = w_st w /\ v_spec w = w_spec w /\ v_pg w = w_pg w.

(* the full-strength statement *)
Definition counters_partition_statement : Prop :=
  forall w r w' wr, fresh_world w -> step_req w r [] = (w', false, wr) -> wr = true ->
    partition_ok (w_st w') (w_pods w') = true.

Definition one_task_spec : spec := mkSpec [mkTask 1 1 (Some 1) [] None] 1 None 3 [].
Definition sync_req : req := mkReq EOutOfSync None None None 0 0 1.

(* F2: a Completed job with its retained Succeeded pod; the next sync request
   makes finishedState kill the job and write succeeded = 0 *)
Definition f2_world : world :=
  init_world one_task_spec
    (mkStatus PhCompleted 0 0 1 (mkC 0 0 1 0 0) 0 [(1%positive, mkC 0 0 1 0 0)] false false)
    [mkPod 1 0 PSucceeded false false] (Some PgRunning).

(* the PRE-FIX syncJob (before "fix: syncJob recounts the pods while the PodGroup is not admitted")
   wrote a phase change on top of stale counters: Restarting, retryCount >= maxRetry, terminating = 1
   left by the kill, no pod exists any more => Failed written with terminating = 1.
   The fixed function writes terminating = 0 on the same input. *)
Definition pgpending_world : world :=
  init_world one_task_spec
    (mkStatus PhRestarting 3 1 1 c0 1 [] false true) [] None.
Theorem pgpending_counters_prefix_refuted :
  exists w', sync_job_pgprefix pgpending_world URestarting [] = (w', false, true) /\ fresh_world pgpending_world /\
             partition_ok (w_st w') (w_pods w') = false /\ st_phase (w_st w') = PhFailed /\
             st_term (w_st w') = 1 /\ w_pods w' = [].
Proof. eexists. split; [vm_compute; reflexivity|]. repeat split. Qed.
Example pgpending_counters_fixed_on_witness :
  exists w', step_req pgpending_world sync_req [] = (w', false, true) /\
             partition_ok (w_st w') (w_pods w') = true /\ st_phase (w_st w') = PhFailed /\ st_term (w_st w') = 0.
Proof. eexists. split; [vm_compute; reflexivity|]. repeat split. Qed.

(* F2 on the PRE-FIX killPods: a Completed job with its retained Succeeded pod;
   finishedState kills the job and writes succeeded = 0.  The fixed function
   writes succeeded = 1 on the same input. *)
Theorem killpods_counters_prefix_refuted :
  exists w', kill_pods_prefix f2_world RSoft None UNil [] = (w', false, true) /\ fresh_world f2_world /\
             partition_ok (w_st w') (w_pods w') = false /\ st_cnt (w_st w') = c0 /\ length (w_pods w') = 1%nat.
Proof. eexists. split; [vm_compute; reflexivity|]. repeat split. Qed.
Example killpods_counters_fixed_on_witness :
  exists w', step_req f2_world sync_req [] = (w', false, true) /\
             partition_ok (w_st w') (w_pods w') = true /\ st_cnt (w_st w') = mkC 0 0 1 0 0.
Proof. eexists. split; [vm_compute; reflexivity|]. split; reflexivity. Qed.

(* the PRE-FIX syncJob counted a live out-of-sync pod by its phase AND as terminating *)
Definition oos_world : world :=
  init_world one_task_spec
    (mkStatus PhRunning 0 0 1 (mkC 0 1 0 0 0) 0 [(1%positive, mkC 0 1 0 0 0)] false false)
    [mkPod 1 0 PRunning false true] (Some PgRunning).
Theorem sync_counters_prefix_refuted :
  let a := sync_pods_prefix one_task_spec (w_pods oos_world) (w_pods oos_world) [] in
  a_err a = false /\ (a_cnt a, a_term a) = (mkC 0 1 0 0 0, 1) /\ tally (a_pods a) = (c0, 1) /\ length (a_pods a) = 1%nat.
Proof. vm_compute. repeat split. Qed.
Example sync_counters_fixed_on_witness :
  exists w', step_req oos_world sync_req [] = (w', false, true) /\ partition_ok (w_st w') (w_pods w') = true.
Proof. eexists. split; vm_compute; reflexivity. Qed.

(* the PRE-FIX syncJob (before "fix: initJobStatus returns a copy ...") kept the
   unwritten status in the job cache when the final UpdateStatus of a first sync
   failed; the next sync saw no change and never corrected the API server *)
Definition leak_world : world :=
  init_world one_task_spec (mkStatus PhNone 0 0 0 c0 0 [] true false)
    [mkPod 1 0 PRunning false false] (Some PgRunning).
Theorem cache_status_leak_prefix_refuted :
  exists w1 w2,
    sync_job_prefix leak_world UPendingSync [FStatus 1] = (w1, true, true) /\
    v_pods w1 = w_pods w1 /\ v_st w1 <> w_st w1 /\
    sync_job_prefix w1 URunningSync [] = (w2, false, false) /\
    partition_ok (w_st w2) (w_pods w2) = false /\ st_cnt (w_st w2) = c0 /\ length (w_pods w2) = 1%nat.
Proof.
  eexists. eexists. split; [vm_compute; reflexivity|]. split; [reflexivity|]. split; [discriminate|].
  split; [vm_compute; reflexivity|]. repeat split.
Qed.
Example cache_status_leak_fixed_on_witness :
  exists w1 w2,
    sync_job leak_world UPendingSync [FStatus 1] = (w1, true, true) /\ v_st w1 = w_st w1 /\
    step_req w1 sync_req [] = (w2, false, true) /\ partition_ok (w_st w2) (w_pods w2) = true.
Proof.
  eexists. eexists. split; [vm_compute; reflexivity|]. split; [reflexivity|].
  split; vm_compute; reflexivity.
Qed.

(* ---------- non-vacuity ---------- *)
Example final_inv_nonvacuous :
  final_inv f2_world /\
  st_phase (v_st (run f2_world [OReq sync_req []; OSyncPods; OReq sync_req [FStatus 0]])) = PhCompleted.
Proof. split; [split; reflexivity|vm_compute; reflexivity]. Qed.

Example maxretry_nonvacuous :
  let w := init_world one_task_spec (mkStatus PhRestarting 3 1 1 c0 1 [] false true) [] None in
  st_phase (v_st w) = PhRestarting /\ s_maxretry (v_spec w) <= st_retry (v_st w) /\
  exists w', step_req w sync_req [] = (w', false, true) /\ st_phase (w_st w') = PhFailed.
Proof. cbn. repeat split; try lia. eexists; split; vm_compute; reflexivity. Qed.

Example aborted_nonvacuous :
  let w := init_world one_task_spec (mkStatus PhAborted 0 1 1 c0 0 [] false true) [] None in
  let r := mkReq ECommandIssued (Some AResume) None None 0 0 1 in
  exists w', step_req w r [] = (w', false, true) /\ st_phase (v_st w') = PhRestarting /\ st_retry (v_st w') = 1.
Proof. eexists; repeat split; vm_compute; reflexivity. Qed.

Example fault_nonvacuous :
  let w := init_world one_task_spec (mkStatus PhNone 0 0 0 c0 0 [] true false) [] (Some PgRunning) in
  exists w', step_req w sync_req [FCreate 1 0] = (w', true, true) /\
             w_st w' = init_status one_task_spec (v_st w) /\ w_pods w' = [].
Proof. eexists; repeat split; vm_compute; reflexivity. Qed.

(* non-vacuity of the delayed-action theorems: PodPending -> RestartJob after a timeout; the pod
   succeeds and the job completes; then the timer expires: the job stays Completed *)
Definition delayed_spec : spec :=
  mkSpec [mkTask 1 1 (Some 1) [] None] 1 None 3 [mkPolicy [EPodPending] ARestartJob None 2].
Example delayed_action_example :
  let w := init_world delayed_spec (mkStatus PhRunning 0 0 1 (mkC 1 0 0 0 0) 0 [(1%positive, mkC 1 0 0 0 0)] false false)
                      [mkPod 1 0 PPending false false] (Some PgRunning) in
  let pending := mkReq EPodPending None (Some 1%positive) (Some (1%positive, 0)) 0 0 2 in
  let w1 := run w [OReq pending []] in
  length (d_queue (c_delay (v_ctl w1))) = 1%nat /\ st_phase (v_st w1) = PhRunning /\
  let w2 := run w1 [OPodPhase 1 0 PSucceeded; OSyncPods; OReq sync_req []] in
  st_phase (v_st w2) = PhCompleted /\
  let w3 := run w2 [OFire] in
  st_phase (v_st w3) = PhCompleted /\ st_retry (v_st w3) = 0 /\ d_queue (c_delay (v_ctl w3)) = [] /\
  (* the same timer on a job that is still Running restarts it *)
  st_phase (v_st (run w1 [OFire])) = PhRestarting /\ st_retry (v_st (run w1 [OFire])) = 1.
Proof. vm_compute. repeat split. Qed.

(* observation (no law of C05 is involved): a timer that expires while the job cache has no Job
   returns without cleaning its map entry; once the job is known again (re-created under the same
   name) the same policy for the same pod is "already armed" and no timer is started any more *)
Example stale_delay_entry_blocks_rearming :
  let w := init_world delayed_spec (mkStatus PhRunning 0 0 1 (mkC 1 0 0 0 0) 0 [(1%positive, mkC 1 0 0 0 0)] false false)
                      [mkPod 1 0 PPending false false] (Some PgRunning) in
  let pending := mkReq EPodPending None (Some 1%positive) (Some (1%positive, 0)) 0 0 2 in
  let w1 := run w [OReq pending []; OReplaceJob delayed_spec; OFire; OSyncJob; OReq pending []] in
  length (d_map (c_delay (v_ctl w1))) = 1%nat /\ d_queue (c_delay (v_ctl w1)) = [] /\
  (* whereas a timer armed for the OLD incarnation that expires after the re-creation acts on the NEW job *)
  let w2 := run w [OReq pending []; OReplaceJob delayed_spec; OSyncJob; OReq sync_req []; OFire] in
  st_phase (v_st w2) = PhRestarting /\ st_retry (v_st w2) = 1.
Proof. vm_compute. repeat split. Qed.

(* ---------- the Running-state decision: the model's closure IS the stated verdict ---------- *)
Lemma existsb_ext_l : forall {A} (f g : A -> bool) l, (forall x, f x = g x) -> existsb f l = existsb g l.
Proof. induction l; intros; cbn; auto. rewrite H, IHl; auto. Qed.

Lemma task_short_some : forall sp s, existsb (task_short s) (s_tasks sp) = some_task_short sp (st_tsc s).
Proof.
  intros. unfold some_task_short. apply existsb_ext_l. intros t. unfold task_short.
  destruct (t_min t); auto.
Qed.

Theorem running_sync_verdict : forall sp s,
  running_sync sp s = match running_verdict sp (st_cnt s) (st_tsc s) with Some p => set_phase s p | None => s end.
Proof.
  intros sp s. unfold running_sync, running_verdict, minsucc_reached. rewrite task_short_some.
  destruct (total_replicas sp =? 0); auto.
  destruct (s_minsucc sp) as [m|].
  - destruct (m <=? cS (st_cnt s)) eqn:E1; auto.
    destruct (cS (st_cnt s) + cF (st_cnt s) =? total_replicas sp); [|destruct (_ <? _); reflexivity].
    destruct (_ && _); auto.
    assert (E2 : (cS (st_cnt s) <? m) = true) by (apply Z.ltb_lt; apply Z.leb_gt in E1; exact E1).
    rewrite E2. reflexivity.
  - destruct (cS (st_cnt s) + cF (st_cnt s) =? total_replicas sp); [|destruct (_ <? _); reflexivity].
    destruct (_ && _); auto. destruct (_ <=? _); reflexivity.
Qed.

(* Completed is written by a Running job's sync only if minSuccess is reached, or -- whenever
   job.minAvailable >= the sum of the task minimums -- every task that has a minAvailable (and an
   entry in the per-task table) shows at least that many succeeded pods *)
Theorem running_completed_only_if : forall sp s,
  st_phase s = PhRunning -> st_phase (running_sync sp s) = PhCompleted ->
  minsucc_reached sp (st_cnt s) = true \/
  (total_task_min sp <= s_min sp ->
   forall t m c, In t (s_tasks sp) -> t_min t = Some m -> tsc_get (t_name t) (st_tsc s) = Some c -> m <= cS c).
Proof.
  intros sp s Hr Hc. rewrite running_sync_verdict in Hc. unfold running_verdict in Hc.
  destruct (total_replicas sp =? 0); [rewrite Hr in Hc; discriminate|].
  destruct (minsucc_reached sp (st_cnt s)) eqn:Em; auto. right. intros Hge t m c Hin Hm Hg.
  destruct (cS (st_cnt s) + cF (st_cnt s) =? total_replicas sp).
  - assert (Eg : (total_task_min sp <=? s_min sp) = true) by (apply Z.leb_le; exact Hge).
    rewrite Eg in Hc. cbn [andb] in Hc.
    destruct (some_task_short sp (st_tsc s)) eqn:Es; [cbn in Hc; discriminate|].
    destruct (Z_lt_ge_dec (cS c) m) as [Hlt|]; [|lia]. exfalso.
    assert (X : some_task_short sp (st_tsc s) = true).
    { unfold some_task_short. apply existsb_exists. exists t. split; auto. rewrite Hm, Hg. apply Z.ltb_lt; exact Hlt. }
    congruence.
  - destruct (_ <? _); cbn in Hc; [discriminate|]. rewrite Hr in Hc. discriminate.
Qed.

(* non-vacuity: tasks a, b with 2 replicas and minAvailable 1, job minAvailable 2 = the sum; both pods
   of a succeeded, both of b failed: Failed, although the job-wide succeeded count reaches minAvailable *)
Example running_boundary_example :
  let sp := mkSpec [mkTask 1 2 (Some 1) [] None; mkTask 2 2 (Some 1) [] None] 2 None 3 [] in
  let s := mkStatus PhRunning 0 0 2 (mkC 0 0 2 2 0) 0 [(1%positive, mkC 0 0 2 0 0); (2%positive, mkC 0 0 0 2 0)] false false in
  total_task_min sp = s_min sp /\ st_phase (running_sync sp s) = PhFailed /\
  st_phase (running_sync (mkSpec (s_tasks sp) 1 None 3 []) s) = PhCompleted.
Proof. vm_compute. repeat split. Qed.

(* ---------- the phase sequence the API SERVER shows, over every history ---------- *)
Definition phase_agree (w : world) : Prop := st_phase (w_st w) = st_phase (v_st w).

Lemma acted_api_phase : forall w a w' e wr,
  phase_agree w -> acted w a w' e wr ->
  phase_agree w' /\ In (st_phase (w_st w')) (allowed (st_phase (w_st w))).
Proof.
  intros w a w' e wr Hag O. pose proof (phase_transition_allowed_gen _ _ _ _ _ O) as Hal.
  unfold acted in O. pose proof (oc_agree _ _ _ _ _ _ _ O Hag) as Hag'. split; [exact Hag'|].
  unfold phase_agree in *. rewrite Hag', Hag. exact Hal.
Qed.

Lemma allowed_refl : forall p, In p (allowed p).
Proof. destruct p; cbn; tauto. Qed.

Lemma step_api_phase : forall w o w' e wr,
  phase_agree w -> same_job o -> step w o = (w', e, wr) ->
  phase_agree w' /\ In (st_phase (w_st w')) (allowed (st_phase (w_st w))).
Proof.
  intros w o w' e wr Hag Hsj H. destruct o; cbn in H;
    try (inversion H; subst; clear H; unfold phase_agree in *; cbn; split; [assumption|apply allowed_refl]).
  - destruct (step_reqb_cases _ _ _ _ _ _ H) as [w1 q Hs ->|w1 wr1 w2 e2 wr2 q Hs Hx -> _ _].
    + exact (acted_api_phase _ _ _ _ _ Hag (step_req_outcome _ _ _ _ _ _ Hs)).
    + (* the controller gives up: TerminateJob through the state object built before the failed Execute *)
      pose proof (step_req_outcome _ _ _ _ _ _ Hs) as O1.
      destruct (acted_api_phase _ _ _ _ _ Hag O1) as [A1 B1].
      pose proof (execute_outcome _ _ _ _ _ _ _ Hx) as O2.
      destruct wr1.
      * destruct (step_req_err_wrote _ _ _ _ Hs) as (Hn & Hw & Hv).
        assert (Hn' : st_phase (w_st w) = PhNone) by (unfold phase_agree in Hag; congruence).
        destruct wr2; cbn [andb negb]; unfold phase_agree; cbn [set_rq with_vpods keep_view v_st w_st].
        -- pose proof (execute_terminate_wrote _ _ _ _ _ Hx) as He2. subst e2.
           pose proof (phase_transition_allowed_gen _ _ _ _ _ O2) as T.
           cbn [giveup_world with_vpods stale_view v_st] in T. rewrite Hn in T.
           unfold acted in O2. destruct (oc_written _ _ _ _ _ _ _ O2 eq_refl eq_refl) as [_ E].
           rewrite E, Hn'. split; [reflexivity|exact T].
        -- unfold acted in O2. rewrite (oc_silent _ _ _ _ _ _ _ O2 eq_refl).
           cbn [giveup_world with_vpods stale_view v_st w_st]. split; [congruence|].
           rewrite Hw, Hn'. cbn. tauto.
      * assert (Ag : phase_agree (giveup_world w w1 false (apply_policies (v_spec w) (v_st w) r) r F)) by exact A1.
        destruct (acted_api_phase _ _ _ _ _ Ag O2) as [A2 B2].
        cbn [giveup_world with_vpods w_st] in B2.
        unfold acted in O1. rewrite (oc_silent _ _ _ _ _ _ _ O1 eq_refl) in B2.
        cbn [andb]. split; [exact A2|exact B2].
  - inversion H; subst; clear H. destruct (w_pg w); unfold phase_agree in *; cbn; split; auto using allowed_refl.
  - destruct (c_job (v_ctl w) && negb (c_dirty (v_ctl w))); inversion H; subst; clear H;
      unfold phase_agree in *; cbn; split; auto using allowed_refl.
  - destruct Hsj.
  - destruct (fire_outcome _ _ _ _ H) as (a & e0 & O). exact (acted_api_phase _ _ _ _ _ Hag O).
  - destruct (find_pod t i (w_pods w)); [destruct race|]; inversion H; subst; clear H; unfold phase_agree in *; cbn; split; auto using allowed_refl.
Qed.

(* every consecutive pair of a phase sequence is a transition of the relation *)
Fixpoint phase_chain (p : phase) (l : list phase) : Prop :=
  match l with [] => True | q :: r => In q (allowed p) /\ phase_chain q r end.

Definition api_phases (w : world) (ops : list op) : list phase :=
  map (fun x => st_phase (w_st (fst (fst x)))) (trace w ops).

(* over EVERY history of requests, timers, pod / PodGroup events, deliveries in any order, stale
   deliveries, restarts, spec updates and faults (the job not being replaced by a new one of the
   same name): the phase visible on the API server moves only along the transition relation *)
Theorem api_phase_history : forall ops w,
  Forall same_job ops -> phase_agree w -> phase_chain (st_phase (w_st w)) (api_phases w ops).
Proof.
  induction ops as [|o ops IH]; intros w Hsj Hag; [exact I|].
  inversion Hsj as [|? ? Ho Hsj']; subst. unfold api_phases. cbn [trace map].
  destruct (step w o) as [[w1 e] wr] eqn:Hs. cbn [fst].
  destruct (step_api_phase w o w1 e wr Hag Ho Hs) as [Hag1 Hal]. split; [exact Hal|].
  apply IH; assumption.
Qed.

Example api_phase_history_nonvacuous :
  phase_agree f2_world /\
  api_phases f2_world [OReq sync_req []; OFire; ORestart; OSyncJob] = [PhCompleted; PhCompleted; PhCompleted; PhCompleted] /\
  let w := init_world one_task_spec (mkStatus PhNone 0 0 0 c0 0 [] true false) [] None in
  api_phases w [OReq sync_req []; OPgPhase PgRunning; OSyncPg; OReq sync_req []; OPodPhase 1 0 PSucceeded; OSyncPods;
                OReq sync_req []; OReq sync_req []] =
  [PhPending; PhPending; PhPending; PhPending; PhPending; PhPending; PhRunning; PhCompleted].
Proof. split; [reflexivity|]. split; vm_compute; reflexivity. Qed.

(* ---------- the give-up step of handleJobError, per processed request ---------- *)
(* an Execute that fails without having written leaves the cached phase, retry count and spec alone *)
Lemma execute_err_silent : forall w a r F w',
  execute w a r F = (w', true, false) ->
  st_phase (v_st w') = st_phase (v_st w) /\ st_retry (v_st w') = st_retry (v_st w) /\ v_spec w' = v_spec w.
Proof.
  intros w a r F w' H. unfold execute in H.
  destruct (exec (st_phase (v_st w)) a) as [[|rt|] u].
  - unfold sync_job, sync_job_gen in H.
    destruct (c_vdel (v_ctl w)); [discriminate|].
    destruct (c_queue (v_ctl w)); cbn [negb] in H; [|inversion H; auto].
    destruct (phase_beq (st_phase (v_st w)) PhNone) eqn:Hp; cbn [andb] in H.
    + destruct (fails_status F 0); [inversion H; auto|]. cbv zeta in H.
      repeat match type of H with context [if ?c then _ else _] => destruct c end; discriminate.
    + cbv zeta in H.
      repeat match type of H with context [if ?c then _ else _] => destruct c end;
        inversion H; subst; cbn [leak set_wpods v_st v_spec]; autorewrite with proj; auto.
  - unfold kill_pods, kill_pods_gen in H. destruct (c_vdel (v_ctl w)); [discriminate|].
    destruct (kill_select _ _ _ _ _) as [kill term0]. destruct (any_fault F kill); [inversion H; subst; cbn; auto|].
    destruct (fails_status F 0); [inversion H; subst; cbn; auto|]. destruct (v_pg w); discriminate.
  - unfold kill_pods, kill_pods_gen in H. destruct (c_vdel (v_ctl w)); [discriminate|].
    destruct (target_of a r) as [t|t p|]; try discriminate;
      destruct (kill_select _ _ _ _ _) as [kill term0]; destruct (any_fault F kill); try (inversion H; subst; cbn; auto; fail);
      destruct (fails_status F 0); try discriminate; inversion H; subst; cbn; auto.
Qed.

(* where the give-up execution starts and where the step ends: the state object holds the phase, the retry
   count and the spec the cache showed before the failed Execute; the cache ends with what TerminateJob
   left, or -- first sync of a job, initJobStatus written, give-up failed too -- with the Pending status *)
Lemma giveup_shape : forall w r F w1 wr1 w2 e2 wr2,
  step_req w r F = (w1, true, wr1) ->
  let wg := giveup_world w w1 wr1 (apply_policies (v_spec w) (v_st w) r) r F in
  execute wg ATerminate r (giveup_faults F) = (w2, e2, wr2) ->
  let w3 := if wr1 && negb wr2 then keep_view w1 w2 else w2 in
  st_phase (v_st wg) = st_phase (v_st w) /\ st_retry (v_st wg) = st_retry (v_st w) /\ v_spec wg = v_spec w /\
  acted wg ATerminate w2 e2 wr2 /\
  (v_st w3 = v_st w2 \/
   (st_phase (v_st w) = PhNone /\ st_phase (v_st w3) = PhPending /\ st_retry (v_st w3) = st_retry (v_st w))).
Proof.
  intros w r F w1 wr1 w2 e2 wr2 Hs wg Hx w3. subst wg w3.
  pose proof (execute_outcome _ _ _ _ _ _ _ Hx) as O2.
  destruct wr1.
  - destruct (step_req_err_wrote _ _ _ _ Hs) as (Hn & Hw & Hv).
    cbn [giveup_world with_vpods stale_view v_st v_spec].
    split; [reflexivity|]. split; [reflexivity|]. split; [reflexivity|]. split; [exact O2|].
    destruct wr2; [left; reflexivity|right].
    change (v_st (if true && negb false then keep_view w1 w2 else w2)) with (v_st w1).
    rewrite Hv, Hw. cbn. auto.
  - apply step_req_failed in Hs. apply execute_err_silent in Hs. cbn in Hs. destruct Hs as (A & B & C).
    cbn [giveup_world with_vpods v_st v_spec andb].
    split; [exact A|]. split; [exact B|]. split; [exact C|]. split; [exact O2|]. left; reflexivity.
Qed.

Theorem reqb_phase_transition_allowed : forall w r F w' e wr,
  step_reqb w r F = (w', e, wr) -> In (st_phase (v_st w')) (allowed (st_phase (v_st w))).
Proof.
  intros w r F w' e wr H.
  destruct (step_reqb_cases _ _ _ _ _ _ H) as [w1 q Hs ->|w1 wr1 w2 e2 wr2 q Hs Hx -> _ _].
  - exact (phase_transition_allowed _ _ _ _ _ _ Hs).
  - destruct (giveup_shape _ _ _ _ _ _ _ _ Hs Hx) as (A & B & C & O2 & [E|(Hn & Hp & Hr)]);
      cbn [set_rq with_vpods v_st].
    + rewrite E, <- A. exact (phase_transition_allowed_gen _ _ _ _ _ O2).
    + rewrite Hp, Hn. cbn. tauto.
Qed.

Theorem reqb_aborted_left_only_by_resume : forall w r F w' e wr,
  step_reqb w r F = (w', e, wr) ->
  st_phase (v_st w) = PhAborted -> st_phase (v_st w') <> PhAborted ->
  apply_policies (v_spec w) (v_st w) r = AResume /\ st_phase (v_st w') = PhRestarting.
Proof.
  intros w r F w' e wr H Hab Hne.
  destruct (step_reqb_cases _ _ _ _ _ _ H) as [w1 q Hs ->|w1 wr1 w2 e2 wr2 q Hs Hx -> _ _].
  - exact (aborted_left_only_by_resume _ _ _ _ _ _ Hs Hab Hne).
  - (* giving up on a request never takes the job out of Aborted *)
    exfalso. destruct (giveup_shape _ _ _ _ _ _ _ _ Hs Hx) as (A & B & C & O2 & [E|(Hn & _)]);
      cbn [set_rq with_vpods v_st] in Hne; [|congruence].
    rewrite E in Hne. rewrite Hab in A.
    destruct (aborted_left_only_by_resume_gen _ _ _ _ _ O2 A Hne) as [X _]. discriminate.
Qed.

Theorem reqb_retry_increments_once : forall w r F w' e wr,
  step_reqb w r F = (w', e, wr) ->
  let s := v_st w in let s' := v_st w' in
  (st_retry s' = st_retry s \/
   (st_retry s' = st_retry s + 1 /\ st_phase s' = PhRestarting /\ st_phase s <> PhRestarting)) /\
  (st_phase s <> PhRestarting -> st_phase s' = PhRestarting -> st_retry s' = st_retry s + 1).
Proof.
  intros w r F w' e wr H.
  destruct (step_reqb_cases _ _ _ _ _ _ H) as [w1 q Hs ->|w1 wr1 w2 e2 wr2 q Hs Hx -> _ _].
  - exact (retry_increments_once _ _ _ _ _ _ Hs).
  - destruct (giveup_shape _ _ _ _ _ _ _ _ Hs Hx) as (A & B & C & O2 & [E|(Hn & Hp & Hr)]);
      cbv zeta; cbn [set_rq with_vpods v_st].
    + rewrite E, <- A, <- B. exact (retry_increments_once_gen _ _ _ _ _ O2).
    + rewrite Hr, Hp. split; [left; reflexivity|discriminate].
Qed.

Theorem reqb_maxretry_fails : forall w r F w' e wr,
  step_reqb w r F = (w', e, wr) ->
  st_phase (v_st w) = PhRestarting -> s_maxretry (v_spec w) <= st_retry (v_st w) ->
  st_phase (v_st w') = PhRestarting \/ st_phase (v_st w') = PhFailed.
Proof.
  intros w r F w' e wr H Hre Hmax.
  destruct (step_reqb_cases _ _ _ _ _ _ H) as [w1 q Hs ->|w1 wr1 w2 e2 wr2 q Hs Hx -> _ _].
  - exact (proj1 (maxretry_fails _ _ _ _ _ _ Hs Hre Hmax)).
  - destruct (giveup_shape _ _ _ _ _ _ _ _ Hs Hx) as (A & B & C & O2 & [E|(Hn & _)]);
      cbn [set_rq with_vpods v_st]; [|congruence].
    rewrite E. rewrite Hre in A. rewrite <- C, <- B in Hmax.
    exact (proj1 (maxretry_fails_gen _ _ _ _ _ O2 A Hmax)).
Qed.

(* the step as the history theorems see it (C05_api_phase_history, C05_final_phases_absorbing and
   C05_version_monotone are proved over [step], whose request case is [step_reqb]) *)
Theorem reqb_api_phase : forall w r F w' e wr,
  phase_agree w -> step_reqb w r F = (w', e, wr) ->
  phase_agree w' /\ In (st_phase (w_st w')) (allowed (st_phase (w_st w))).
Proof. intros w r F w' e wr Hag H. exact (step_api_phase w (OReq r F) w' e wr Hag I H). Qed.

Theorem reqb_final : forall w r F w' e wr,
  is_final (st_phase (v_st w)) = true -> st_phase (w_st w) = st_phase (v_st w) ->
  step_reqb w r F = (w', e, wr) ->
  st_phase (v_st w') = st_phase (v_st w) /\ st_phase (w_st w') = st_phase (v_st w) /\
  incl (pod_ids (w_pods w')) (pod_ids (w_pods w)).
Proof.
  intros w r F w' e wr Hf He H.
  destruct (final_step w (OReq r F) w' e wr (conj Hf He) I H) as ([_ He'] & Hp & Hi).
  repeat split; auto. congruence.
Qed.

(* non-vacuity: maxRequeueNum = 0, a Completed job that still owns a Running pod whose deletion is
   refused: the controller gives up at once, TerminateJob through finishedState kills the pod (the
   give-up execution meets no fault) and the job stays Completed; the same for an Aborted job *)
Example giveup_example :
  let sp := mkSpec [mkTask 1 1 (Some 1) [] None] 1 None 3 [] in
  let st ph := mkStatus ph 0 0 1 (mkC 0 1 0 0 0) 0 [(1%positive, mkC 0 1 0 0 0)] false false in
  let w ph := init_world_m 0 true sp (st ph) [mkPod 1 0 PRunning false false] (Some PgRunning) in
  let r := mkReq EOutOfSync None None None 0 0 1 in
  forall ph, In ph [PhCompleted; PhAborted] ->
  exists w', step_reqb (w ph) r [FDelete 1 0] = (w', true, true) /\ q_gave (c_rq (v_ctl w')) = true /\
             st_phase (w_st w') = ph /\ st_phase (v_st w') = ph /\
             w_pods w' = [mkPod 1 0 PRunning true true].
Proof.
  cbv zeta. intros ph [<-|[<-|[]]]; eexists; (split; [vm_compute; reflexivity|]); vm_compute; auto.
Qed.

(* OBSERVATION (real controller, corpus/C05/regress-seeded-r5.jsonl "regress-giveup-consumed-view"): giving up
   on a SYNC.  A Running job with two Running pods, fresh views, maxRequeueNum = 0, the sync's status
   update refused: TerminateJob runs on the JobInfo clone the failed syncJob emptied, so it deletes no
   pod, deletes the PodGroup and writes phase Terminating with every counter 0 *)
Example giveup_consumed_view_example :
  let sp := mkSpec [mkTask 1 2 (Some 2) [] None] 2 None 3 [] in
  let pods := [mkPod 1 0 PRunning false false; mkPod 1 1 PRunning false false] in
  let w := init_world_m 0 true sp (mkStatus PhRunning 0 0 2 (mkC 0 1 0 0 0) 0 [] false false) pods (Some PgRunning) in
  exists w', step_reqb w (mkReq EOutOfSync None None None 0 0 1) [FStatus 0] = (w', true, true) /\
             q_gave (c_rq (v_ctl w')) = true /\ st_phase (w_st w') = PhTerminating /\
             st_cnt (w_st w') = c0 /\ st_term (w_st w') = 0 /\ w_pods w' = pods /\ w_pg w' = None.
Proof. cbv zeta. eexists. split; [vm_compute; reflexivity|]. vm_compute. auto 10. Qed.

(* ---------- [allowed] against the only DOCUMENTED transition table of the repository ----------
   docs/design/job-api.md 171-177 gives a table over the five stable phases of the original API (Pending,
   Aborted, Running, Completed, Terminated) and calls Restarting / Aborting / Terminating temporary.
   [sreach]: the stable phases reachable from a stable phase through temporary ones along [allowed];
   [beyond]: those of them the documented table leaves empty.  The code (and therefore [allowed]) goes
   beyond the table exactly by: Failed (added later, with maxRetry), Pending -> Completed / Terminated
   (CompleteJob / TerminateJob on a pending job) and Running -> Pending (restart, or fewer running pods) *)
Definition temporary (p : phase) : bool :=
  match p with PhRestarting | PhAborting | PhCompleting | PhTerminating => true | _ => false end.
Fixpoint sreach (fuel : nat) (p : phase) : list phase :=
  flat_map (fun q => if temporary q then match fuel with S f => sreach f q | O => [] end else [q]) (allowed p).
Definition doc_table (p : phase) : list phase :=
  match p with
  | PhPending => [PhPending; PhAborted; PhRunning]
  | PhAborted => [PhPending; PhAborted]
  | PhRunning => [PhAborted; PhRunning; PhCompleted; PhTerminated]
  | PhCompleted => [PhCompleted]
  | PhTerminated => [PhTerminated]
  | _ => []
  end.
Definition beyond (p : phase) : list phase :=
  nodup phase_eq_dec (filter (fun q => negb (phase_in q (doc_table p))) (sreach 4 p)).
Example allowed_vs_documented_table :
  map (fun p => (p, beyond p)) [PhPending; PhAborted; PhRunning; PhCompleted; PhTerminated] =
  [(PhPending, [PhFailed; PhCompleted; PhTerminated]); (PhAborted, [PhFailed]); (PhRunning, [PhPending; PhFailed]);
   (PhCompleted, []); (PhTerminated, [])].
Proof. vm_compute. reflexivity. Qed.

(* ---------- non-vacuity of the version theorems (audit W5): a Running job whose only pod fails under a
   PodFailed -> RestartJob policy: the kill bumps the version 0 -> 1 on the API server and in the cache;
   the same event carried by a request of version 0 is now answered by a sync, one of version 1 restarts ---------- *)
Definition ver_spec : spec := mkSpec [mkTask 1 1 (Some 1) [] None] 1 None 3 [mkPolicy [EPodFailed] ARestartJob None 0].
Definition ver_world : world :=
  init_world ver_spec (mkStatus PhRunning 0 0 1 (mkC 0 1 0 0 0) 0 [(1%positive, mkC 0 1 0 0 0)] false false)
    [mkPod 1 0 PRunning false false] (Some PgRunning).
Definition ver_req (v : Z) : req := mkReq EPodFailed None (Some 1%positive) (Some (1%positive, 0)) 0 v 2.
Example version_example :
  let w1 := run ver_world [OReq (ver_req 0) []] in
  Forall same_job [OReq (ver_req 0) []] /\ st_version (w_st ver_world) <= st_version (v_st ver_world) /\
  st_version (w_st ver_world) = 0 /\ st_version (w_st w1) = 1 /\ st_version (v_st w1) = 1 /\
  st_phase (w_st w1) = PhRestarting /\ st_retry (w_st w1) = 1 /\
  r_action (ver_req 0) = None /\ r_version (ver_req 0) < st_version (v_st w1) /\
  apply_policies ver_spec (v_st w1) (ver_req 0) = ASync /\
  apply_policies ver_spec (v_st w1) (ver_req 1) = ARestartJob.
Proof. cbv zeta. split; [repeat constructor|]. vm_compute. repeat split; congruence. Qed.
