(* Entry point of the C05 correspondence: selector + tokens -> tokens.
   1   : a whole history on the job-controller model -> observations after every step
   2   : applyPolicies on (spec, cached job version, request) -> action
   101 : lifecycle laws over an observed trace
   111/112/113/114 : counters-partition law on one observed step, per code path
   115 : the decision of a Running job's sync (Completed / Failed / Pending / stay) on the written counters
   120 : stale request => sync, on the implementation's applyPolicies answer *)
From Coq Require Import ZArith List Bool.
From V Require Import Base.Codec C05.Model C05.JobCodec C05.Laws.
Import ListNotations.
Open Scope Z_scope.

Definition eAction (a : action) : list Z := [index_of action_beq a all_actions].

Definition st_with_version (v : Z) : status := mkStatus PhRunning 0 v 0 c0 0 [] true false.

(* a delayed action that expires is judged like a policy-triggered request *)
Definition timer_req : req := mkReq ENone None None None 0 0 1.

(* walk an observed trace: obs0, then one obs per op *)
Fixpoint law_trace (sp : spec) (ops : list op) (b : obs) (rest : list obs) : bool :=
  match ops, rest with
  | [], [] => true
  | o :: ops', a :: rest' =>
      (match o with OReq r _ => law_step true sp r b a | OFire => law_step false sp timer_req b a | _ => true end) && law_trace sp ops' a rest'
  | _, _ => false
  end.

(* diagnostic form of law_trace: one flag per step (1 for non-request steps) *)
Fixpoint law_trace_flags (sp : spec) (ops : list op) (b : obs) (rest : list obs) : list Z :=
  match ops, rest with
  | o :: ops', a :: rest' =>
      (match o with OReq r _ => eBool (law_step true sp r b a) | OFire => eBool (law_step false sp timer_req b a) | _ => [1] end) ++ law_trace_flags sp ops' a rest'
  | _, _ => []
  end.

Definition dStepCase : dec (spec * req * bool * bool * obs * obs) :=
  let* sp := dSpec in let* rf := dReq in let* fresh := dBool in let* pgv := dBool in
  let* b := dObs in let* a := dObs in ret (sp, fst rf, fresh, pgv, b, a).

Definition entry (sel : Z) (toks : list Z) : list Z :=
  match sel with
  | 1 => match run_dec dHistory toks with
         | Some h => run_history h | None => bad_input end
  | 2 => match run_dec (let* sp := dSpec in let* v := dZ in let* rf := dReq in ret (sp, v, fst rf)) toks with
         | Some (sp, v, r) => let ad := apply_policies_d sp (st_with_version v) r in eAction (fst ad) ++ eBool (snd ad)
         | None => bad_input end
  | 101 => match run_dec (let* h := dHistory in let* o0 := dObs in
                          let* os := dRep (length (h_ops h)) dObs in ret (h, o0, os)) toks with
           | Some (h, o0, os) => eBool (law_trace (h_spec h) (h_ops h) o0 os) | None => bad_input end
  | 102 => match run_dec (let* h := dHistory in let* o0 := dObs in
                          let* os := dRep (length (h_ops h)) dObs in ret (h, o0, os)) toks with
           | Some (h, o0, os) => law_trace_flags (h_spec h) (h_ops h) o0 os | None => bad_input end
  | 111 => match run_dec dStepCase toks with
           | Some (sp, r, fresh, pgv, b, a) => eBool (law_counters PathKill sp r fresh pgv b a) | None => bad_input end
  | 112 => match run_dec dStepCase toks with
           | Some (sp, r, fresh, pgv, b, a) => eBool (law_counters PathSync sp r fresh pgv b a) | None => bad_input end
  | 113 => match run_dec dStepCase toks with
           | Some (sp, r, fresh, pgv, b, a) => eBool (law_counters PathSyncPgPending sp r fresh pgv b a) | None => bad_input end
  | 114 => match run_dec dStepCase toks with
           | Some (sp, r, fresh, pgv, b, a) => eBool (law_counters PathSyncDiverged sp r fresh pgv b a) | None => bad_input end
  | 115 => match run_dec dStepCase toks with
           | Some (sp, r, fresh, pgv, b, a) => eBool (law_running sp r fresh b a) | None => bad_input end
  | 120 => match run_dec (let* v := dZ in let* rf := dReq in let* a := dAction in ret (v, fst rf, a)) toks with
           | Some (v, r, a) => eBool (law_stale v r a) | None => bad_input end
  | _ => bad_input
  end.
