(* Executable forms of the C05 laws, evaluated on what the IMPLEMENTATION did:
   the observed API-server state before and after a processed request.  They
   state the property on observations; the model's step function is not called
   (only its classification tables [exec]/[apply_policies] to name the code path
   of a counters finding). *)
From Coq Require Import ZArith List Bool.
From V Require Import Base.Codec C05.Model C05.JobCodec.
Import ListNotations.
Open Scope Z_scope.

(* what is observed around one processed request *)
Record obs := mkObs {
  o_err : bool; o_wrote : bool; o_st : status; o_vst : status; o_pods : list pod; o_pg : option pgphase;
  o_gave : bool }.   (* the request had used up its requeue budget and the controller gave up on it (error flag 2) *)

Definition dObs : dec obs :=
  let* _tag := dZ in let* e := dZ in let* wr := dBool in let* st := dStatus in let* cv := dStatus in
  let* pods := dPods in let* pg := dOpt dPgPhase in ret (mkObs (negb (e =? 0)) wr st cv pods pg (e =? 2)).

(* the transition relation of state/*.go (reflexive) *)
Definition allowed (p : phase) : list phase :=
  match p with
  | PhNone => [PhNone; PhPending; PhRunning; PhRestarting; PhAborting; PhCompleting; PhTerminating]
  | PhPending => [PhPending; PhRunning; PhRestarting; PhAborting; PhCompleting; PhTerminating]
  | PhRunning => [PhRunning; PhPending; PhRestarting; PhAborting; PhCompleting; PhTerminating; PhCompleted; PhFailed]
  | PhRestarting => [PhRestarting; PhPending; PhFailed]
  | PhAborting => [PhAborting; PhAborted; PhRestarting]
  | PhAborted => [PhAborted; PhRestarting]
  | PhCompleting => [PhCompleting; PhCompleted]
  | PhTerminating => [PhTerminating; PhTerminated]
  | PhCompleted => [PhCompleted]
  | PhTerminated => [PhTerminated]
  | PhFailed => [PhFailed]
  end.
Definition phase_in (p : phase) (l : list phase) : bool := existsb (phase_beq p) l.
Definition is_final (p : phase) : bool :=
  match p with PhCompleted | PhTerminated | PhFailed => true | _ => false end.

Definition id_in (l : list pod) (p : pod) : bool := has_pod (p_task p) (p_idx p) l.
Definition ids_subset (a b : list pod) : bool := forallb (id_in b) a.

(* may this step take the job out of Aborted?  For a request: exactly when applyPolicies on the cached job
   answers ResumeJob.  For an expired delayed action ([exact = false]; the law is handed no request): when
   some policy of the job has the action ResumeJob *)
Definition may_resume (exact : bool) (sp : spec) (vst : status) (r : req) : bool :=
  if exact then action_beq (apply_policies sp vst r) AResume
  else existsb (fun p => action_beq (pl_action p) AResume) (s_policies sp ++ flat_map t_policies (s_tasks sp)).

Definition init_status (sp : spec) (s : status) : status :=
  mkStatus PhPending (st_retry s) (st_version s) (s_min sp) (st_cnt s) (st_term s) (st_tsc s) (st_tsc_nil s) (st_rundur s).

(* lifecycle laws of one processed request (everything except the counters).
   Transitions are judged on the job status the controller holds in its cache
   (what it acts upon); the API server's copy either stays or becomes that. *)
Definition law_step (exact : bool) (sp : spec) (r : req) (b a : obs) : bool :=
  let pb := st_phase (o_vst b) in let pa := st_phase (o_vst a) in
  let rb := st_retry (o_vst b) in let ra := st_retry (o_vst a) in
  (* transitions *)
  phase_in pa (allowed pb) &&
  (* final phases: no phase change, no pod created *)
  implb (is_final pb) (phase_beq pa pb && ids_subset (o_pods a) (o_pods b)) &&
  (* Aborted is left only by a resume, into Restarting *)
  implb (phase_beq pb PhAborted && negb (phase_beq pa PhAborted)) (phase_beq pa PhRestarting && may_resume exact sp (o_vst b) r) &&
  (* retry count: +1 exactly on entering Restarting *)
  (if phase_beq pa PhRestarting && negb (phase_beq pb PhRestarting) then Z.eqb ra (rb + 1) else Z.eqb ra rb) &&
  (* maxRetry *)
  implb (phase_beq pb PhRestarting && Z.leb (s_maxretry sp) rb)
        (phase_in pa [PhRestarting; PhFailed] && implb (o_wrote a) (phase_beq pa PhFailed)) &&
  (* versions never go back; the cache never lags the API server *)
  Z.leb (st_version (o_st b)) (st_version (o_st a)) && Z.leb (st_version (o_vst b)) (st_version (o_vst a)) &&
  Z.leb (st_version (o_st a)) (st_version (o_vst a)) &&
  (* what reaches the API server is the cache's status, or nothing *)
  (if o_wrote a && negb (o_err a) then (if status_eq_dec (o_st a) (o_vst a) then true else false) else true) &&
  (* a failed reconciliation writes no (partial) status; when the controller gives up on the request
     (requeue budget used up) it sends TerminateJob through the job's current state, which may write:
     then the API server shows what the cache holds; every clause above applies to that step as well *)
  implb (o_gave a && o_wrote a) (if status_eq_dec (o_st a) (o_vst a) then true else false) &&
  implb (o_err a && negb (o_gave a)) (if status_eq_dec (o_st a) (o_st b) then true
                   else phase_beq pb PhNone &&
                        if status_eq_dec (o_st a) (init_status sp (o_vst b)) then true else false) &&
  implb (negb (o_wrote a)) (if status_eq_dec (o_st a) (o_st b) then true else false).

(* ---------- counters ---------- *)
Definition live_of_task (t : positive) (l : list pod) : counts :=
  fold_right (fun p acc => if Pos.eqb (p_task p) t && negb (p_del p) then cadd (cone (p_phase p)) acc else acc) c0 l.
Definition czero (c : counts) : bool :=
  Z.eqb (cP c) 0 && Z.eqb (cR c) 0 && Z.eqb (cS c) 0 && Z.eqb (cF c) 0 && Z.eqb (cU c) 0.
Definition counts_eqb (a b : counts) : bool := if counts_eq_dec a b then true else false.
Definition tsc_of (m : list (positive * counts)) (t : positive) : counts :=
  match tsc_get t m with Some c => c | None => c0 end.

(* the counters partition exactly the pods that exist *)
Definition partition_ok (s : status) (pods : list pod) : bool :=
  counts_eqb (st_cnt s) (fst (tally pods)) && Z.eqb (st_term s) (snd (tally pods)) &&
  forallb (fun p => counts_eqb (tsc_of (st_tsc s) (p_task p)) (live_of_task (p_task p) pods)) pods &&
  forallb (fun tc => counts_eqb (snd tc) (live_of_task (fst tc) pods)) (st_tsc s).

(* which code path handled the request (to name a finding, not to decide it) *)
Inductive path := PathKill | PathSync | PathSyncPgPending | PathSyncDiverged
              | PathNone.   (* the request only armed a delayed action: nothing was reconciled *)
(* the cache's job status had drifted from the API server's before the step (other than by the version) *)
Definition diverged (b : obs) : bool :=
  if status_eq_dec (set_version (o_vst b) (st_version (o_st b))) (o_st b) then false else true.
Definition path_of (sp : spec) (b : obs) (pgv : bool) (r : req) : path :=
  let vst := o_vst b in
  if snd (apply_policies_d sp vst r) then PathNone else
  match fst (exec (st_phase vst) (apply_policies sp vst r)) with
  | KSync => if pgv then (if diverged b then PathSyncDiverged else PathSync) else PathSyncPgPending
  | _ => PathKill
  end.
Definition path_eqb (x y : path) : bool :=
  match x, y with
  | PathKill, PathKill | PathSync, PathSync | PathSyncPgPending, PathSyncPgPending | PathSyncDiverged, PathSyncDiverged => true
  | _, _ => false end.

(* fresh: the controller's pod view equalled the API server's pods before the
   step; pgv: the PodGroup the lister showed was past Pending *)
Definition law_counters (which : path) (sp : spec) (r : req) (fresh pgv : bool) (b a : obs) : bool :=
  if fresh && negb (o_err a) && (o_wrote a || path_eqb (path_of sp b pgv r) PathSync || path_eqb (path_of sp b pgv r) PathSyncDiverged)
     && path_eqb (path_of sp b pgv r) which
  then partition_ok (o_st a) (o_pods a) else true.

(* ---------- the decision of a Running job's sync (running.go 66-112), stated on its own ---------- *)
(* does some task that has a minAvailable show fewer succeeded pods than that, in the per-task table? *)
Definition some_task_short (sp : spec) (tsc : list (positive * counts)) : bool :=
  existsb (fun t => match t_min t, tsc_get (t_name t) tsc with
                    | Some m, Some c => Z.ltb (cS c) m
                    | _, _ => false end) (s_tasks sp).
Definition minsucc_reached (sp : spec) (c : counts) : bool :=
  match s_minsucc sp with Some m => Z.leb m (cS c) | None => false end.

(* None = the phase stays Running *)
Definition running_verdict (sp : spec) (c : counts) (tsc : list (positive * counts)) : option phase :=
  let n := total_replicas sp in
  if Z.eqb n 0 then None                                   (* scaled down to zero: keep the phase *)
  else if minsucc_reached sp c then Some PhCompleted
  else if Z.eqb (cS c + cF c) n then                       (* every pod has finished *)
    if Z.leb (total_task_min sp) (s_min sp) && some_task_short sp tsc then Some PhFailed
    else match s_minsucc sp with
         | Some _ => Some PhFailed                         (* minSuccess not reached *)
         | None => if Z.leb (s_min sp) (cS c) then Some PhCompleted else Some PhFailed
         end
  else if Z.ltb (n - s_min sp) (cP c) then Some PhPending
  else None.

(* a Running job reconciled by syncJob: the phase written is exactly the verdict on the counters
   written with it; in particular Completed is written only if minSuccess is reached, or every
   task that has a minAvailable reached it whenever job.minAvailable >= the sum of the task minimums *)
Definition is_ksync (sp : spec) (b : obs) (r : req) : bool :=
  negb (snd (apply_policies_d sp (o_vst b) r)) &&
  match fst (exec (st_phase (o_vst b)) (apply_policies sp (o_vst b) r)) with KSync => true | _ => false end.
Definition law_running (sp : spec) (r : req) (fresh : bool) (b a : obs) : bool :=
  if fresh && negb (o_err a) && phase_beq (st_phase (o_vst b)) PhRunning && is_ksync sp b r then
    let c := st_cnt (o_st a) in let tsc := st_tsc (o_st a) in
    phase_beq (st_phase (o_st a))
              (match running_verdict sp c tsc with Some p => p | None => PhRunning end) &&
    implb (phase_beq (st_phase (o_st a)) PhCompleted && negb (minsucc_reached sp c) &&
           Z.leb (total_task_min sp) (s_min sp))
          (negb (some_task_short sp tsc))
  else true.

(* applyPolicies: a request of an older job version is answered by a sync *)
Definition law_stale (st_ver : Z) (r : req) (got : action) : bool :=
  match r_action r with
  | Some a => action_beq got a
  | None => implb (Z.ltb (r_version r) st_ver) (action_beq got ASync)
  end.
